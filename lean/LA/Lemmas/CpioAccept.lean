/- `representable` (the format description) implies acceptance by the cpio writers (C02). Core Lean only. -/
import LA.Lemmas.CpioStreamOdc
namespace LA.Codec
open LA.NumFmt LA.Gen.CpioLayout LA.Gen.CodecConsts

theorem mode_lt (e : Entry) : e.mode < 65536 := by
  unfold Entry.mode
  have hp : e.perm % 4096 < 4096 := Nat.mod_lt _ (by decide)
  cases e.ftype <;>
    simp only [FType.bits, AE_IFREG, AE_IFDIR, AE_IFLNK, AE_IFCHR, AE_IFBLK, AE_IFIFO, AE_IFSOCK] <;> omega

theorem devMajor_range (d : Int) : 0 ≤ devMajor d ∧ devMajor d < 4294967296 := by
  unfold devMajor; have := devMajorN_lt (d % 18446744073709551616).toNat; omega
theorem devMinor_range (d : Int) : 0 ≤ devMinor d ∧ devMinor d < 4294967296 := by
  unfold devMinor; have := devMinorN_lt (d % 18446744073709551616).toNat; omega

theorem hex8 (v : Int) (h : 0 ≤ v ∧ v < 4294967296) : (newcFormatHex v 8).1 = false :=
  newcFormatHex_fits v 8 ⟨h.1, by have : (16 : Nat) ^ 8 = 4294967296 := by decide
                                  omega⟩

/-- An entry `representable .newc` describes (with a link target the reader would take) is accepted
by `archive_write_newc_header` with plain ARCHIVE_OK. -/
theorem representable_newc_accepted (e : Entry) (hr : representable .newc e = true)
    (hsl : e.sym.length ≤ 1048576) : newcAccepted e = true := by
  unfold representable at hr
  cases hp : e.path with
  | none => rw [hp] at hr; cases hr
  | some p =>
    rw [hp] at hr
    simp only [Bool.and_eq_true] at hr
    obtain ⟨⟨hshape, hranges⟩, hnames⟩ := hr
    unfold reprShape at hshape
    unfold reprRanges at hranges
    unfold reprNames at hnames
    simp only [Bool.and_eq_true, Bool.or_eq_true, imp, Bool.not_eq_true', carriesIds, carriesNames, carriesRdev,
      isTar, isCpio, Bool.and_false, Bool.or_false, typesOf, idMax, mtimeRange, sizeMax, rdevMax, convertsNames,
      Bool.not_false, Bool.true_or, Bool.false_or, Bool.true_and, inR_iff, carriesHard,
      Bool.false_and, Bool.not_true, Bool.and_true] at hshape hranges hnames
    obtain ⟨⟨⟨⟨⟨⟨hpne, _⟩, htype⟩, hl1⟩, hl2⟩, hhard⟩, _⟩ := hshape
    obtain ⟨⟨⟨⟨⟨huid1, huid2⟩, hgid⟩, hmt⟩, hsize⟩, hrdev⟩ := hranges
    obtain ⟨hnlink, hino⟩ := hnames
    cases hs : e.size with
    | none => rw [hs] at hsize; cases hsize
    | some sz =>
      rw [hs] at hsize
      simp only [inR_iff] at hsize
      have hfn : e.ftype ≠ .none := by
        intro h; rw [h] at htype; simp at htype
      cases p with
      | nil => simp at hpne
      | cons c r =>
        have hfsz : 0 ≤ cpioFilesize e ∧ cpioFilesize e < 4294967296 := by
          unfold cpioFilesize cpioSize Entry.sizeV
          rw [hs]
          simp only [Option.getD_some]
          split
          · omega
          · split <;> omega
        have hfs := hex8 _ hfsz
        unfold newcAccepted newcWriteHeader cpioPrecheck
        have hh : e.hard = [] := by
          cases h : e.hard with
          | nil => rfl
          | cons a b => rw [h] at hhard; simp at hhard
        have hsz0 : ¬ sz < 0 := by omega
        simp only [hp, hs, hfn, false_and, if_false, true_and, hh, ne_eq, not_true_eq_false, hsz0, Option.getD_some]
        have hdev : (e.ftype = .blk ∨ e.ftype = .chr) →
            (0 ≤ e.rdevmajor ∧ e.rdevmajor < 4294967296) ∧ (0 ≤ e.rdevminor ∧ e.rdevminor < 4294967296) := by
          intro hd
          rcases hrdev with h | h
          · rcases hd with hd | hd <;> simp [hd] at h
          · omega
        have hov : cpioOverflow newcFormatHex (newcFields e (devMajor e.dev) (devMinor e.dev)
            (((c :: r).length : Int) + 1) (cpioFilesize e)) = false := by
          have hmode := mode_lt e
          have hM := devMajor_range e.dev
          have hm := devMinor_range e.dev
          simp only [cpioOverflow, newcFields, List.any_cons, List.any_nil, Bool.false_and, Bool.true_and, Bool.or_false,
            Bool.false_or, newcw_devmajor_size, newcw_devminor_size, newcw_mode_size, newcw_uid_size, newcw_gid_size,
            newcw_nlink_size, newcw_rdevmajor_size, newcw_rdevminor_size, newcw_mtime_size, Bool.or_eq_false_iff]
          refine ⟨hex8 _ hM, hex8 _ hm, hex8 _ (by omega), hex8 _ (by omega), hex8 _ (by omega), hex8 _ (by omega), ?_, ?_, hex8 _ (by omega)⟩
          · by_cases hd : e.ftype = .blk ∨ e.ftype = .chr
            · simp only [hd, decide_true, if_true]; exact hex8 _ (hdev hd).1
            · simp only [hd, decide_false, Bool.false_eq_true, if_false]; exact hex8 _ (by omega)
          · by_cases hd : e.ftype = .blk ∨ e.ftype = .chr
            · simp only [hd, decide_true, if_true]; exact hex8 _ (hdev hd).2
            · simp only [hd, decide_false, Bool.false_eq_true, if_false]; exact hex8 _ (by omega)
        have hinon : ¬ e.ino > 4294967295 := by omega
        unfold newcWriteHeaderCore
        simp only [newcw_filesize_size, hfs, Bool.false_eq_true, if_false, hov, Bool.false_or, decide_eq_true_eq, hinon]
        rfl

theorem oct_fits (v : Int) (d : Nat) (n : Nat) (hn : 8 ^ d = n) (h : 0 ≤ v ∧ v < n) : (odcFormatOctal v d).1 = false := by
  rw [odcFormatOctal_eq, if_pos ⟨h.1, by omega⟩]

/-- An entry `representable .odc` describes is accepted by `archive_write_odc_header` with plain
ARCHIVE_OK (as long as inode numbers are left). -/
theorem representable_odc_accepted (e : Entry) (hr : representable .odc e = true)
    (hsl : e.sym.length ≤ 1048576) : odcAccepted e = true := by
  unfold representable at hr
  cases hp : e.path with
  | none => rw [hp] at hr; cases hr
  | some p =>
    rw [hp] at hr
    simp only [Bool.and_eq_true] at hr
    obtain ⟨⟨hshape, hranges⟩, hnames⟩ := hr
    unfold reprShape at hshape
    unfold reprRanges at hranges
    unfold reprNames at hnames
    simp only [Bool.and_eq_true, Bool.or_eq_true, imp, Bool.not_eq_true', carriesIds, carriesNames, carriesRdev,
      isTar, isCpio, Bool.and_false, Bool.or_false, typesOf, idMax, mtimeRange, sizeMax, rdevMax, convertsNames,
      Bool.not_false, Bool.true_or, Bool.false_or, Bool.true_and, inR_iff, carriesHard,
      Bool.false_and, Bool.not_true, Bool.and_true, decide_eq_true_eq, normPath] at hshape hranges hnames
    obtain ⟨⟨⟨⟨⟨⟨hpne, _⟩, htype⟩, hl1⟩, hl2⟩, hhard⟩, _⟩ := hshape
    obtain ⟨⟨⟨⟨⟨huid1, huid2⟩, hgid⟩, hmt⟩, hsize⟩, hrdev⟩ := hranges
    obtain ⟨⟨hplen, hdev⟩, hnlink⟩ := hnames
    cases hs : e.size with
    | none => rw [hs] at hsize; cases hsize
    | some sz =>
      rw [hs] at hsize
      simp only [inR_iff] at hsize
      have hfn : e.ftype ≠ .none := by
        intro h; rw [h] at htype; simp at htype
      cases p with
      | nil => simp at hpne
      | cons c r =>
        have hfsz : 0 ≤ cpioFilesize e ∧ cpioFilesize e < 8589934592 := by
          unfold cpioFilesize cpioSize Entry.sizeV
          rw [hs]
          simp only [Option.getD_some]
          split
          · omega
          · split <;> omega
        have hfs := oct_fits _ odcw_filesize_size 8589934592 (by decide) hfsz
        have hns := oct_fits (((c :: r).length : Int) + 1) odcw_namesize_size 262144 (by decide) (by omega)
        have hh : e.hard = [] := by
          cases h : e.hard with
          | nil => rfl
          | cons a b => rw [h] at hhard; simp at hhard
        have hsz0 : ¬ sz < 0 := by omega
        unfold odcAccepted
        rw [odcWriteHeader_st {} e (synthIno_empty e)]
        unfold cpioPrecheck
        simp only [hp, hs, hfn, false_and, if_false, true_and, hh, ne_eq, not_true_eq_false, hsz0, Option.getD_some,
          Bool.false_eq_true, and_false]
        have hrd : 0 ≤ odcRdev e ∧ odcRdev e < 262144 := by
          unfold odcRdev
          split
          · rename_i hd
            have hr2 : (0 ≤ e.rdevmajor ∧ e.rdevmajor ≤ 1023) ∧ 0 ≤ e.rdevminor ∧ e.rdevminor ≤ 255 := by
              rcases hrdev with h | h
              · rcases hd with hd | hd <;> simp [hd] at h
              · exact h
            obtain ⟨ma, hma⟩ := Int.eq_ofNat_of_zero_le hr2.1.1
            obtain ⟨mi, hmi⟩ := Int.eq_ofNat_of_zero_le hr2.2.1
            rw [hma, hmi]
            have e1 : ((ma : Int) % 4294967296).toNat = ma := by omega
            have e2 : ((mi : Int) % 4294967296).toNat = mi := by omega
            unfold makedev
            simp only [e1, e2]
            omega
          · omega
        have hov : cpioOverflow odcFormatOctal (odcFields e 0 (((c :: r).length : Int) + 1) (cpioFilesize e)) = false := by
          have hmode := mode_lt e
          simp only [cpioOverflow, odcFields, List.any_cons, List.any_nil, Bool.false_and, Bool.true_and, Bool.or_false,
            Bool.false_or, Bool.or_eq_false_iff]
          refine ⟨oct_fits _ _ 262144 (by decide) (by omega), oct_fits _ _ 262144 (by decide) (by omega),
            oct_fits _ _ 262144 (by decide) (by omega), oct_fits _ _ 262144 (by decide) (by omega),
            oct_fits _ _ 262144 (by decide) (by omega), oct_fits _ _ 262144 (by decide) hrd,
            oct_fits _ _ 8589934592 (by decide) (by omega)⟩
        unfold odcStatusNF
        simp only [hns, hfs, hov, Bool.false_eq_true, if_false]
        rfl

/-- `representable` fixes which entries carry a link target. -/
theorem representable_symiff (f : WFmt) (e : Entry) (hr : representable f e = true) : e.sym ≠ [] ↔ e.ftype = .lnk := by
  unfold representable at hr
  cases hp : e.path with
  | none => rw [hp] at hr; cases hr
  | some p =>
    rw [hp] at hr
    simp only [Bool.and_eq_true] at hr
    obtain ⟨⟨hshape, _⟩, _⟩ := hr
    unfold reprShape at hshape
    simp only [Bool.and_eq_true, imp, Bool.or_eq_true, Bool.not_eq_true'] at hshape
    obtain ⟨⟨⟨⟨_, hl1⟩, hl2⟩, _⟩, _⟩ := hshape
    constructor
    · intro hs
      rcases hl2 with h | h
      · cases hh : e.sym with
        | nil => exact absurd hh hs
        | cons a b => rw [hh] at h; simp at h
      · simpa using h
    · intro hl hs
      rcases hl1 with h | h
      · simp [hl] at h
      · rw [hs] at h; simp at h

end LA.Codec
