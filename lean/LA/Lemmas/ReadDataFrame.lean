/-
Facts about `LA.RD.readLoop` that hold for EVERY handle and script (no
well-formedness assumed): what a call can add to the buffer, which members it
can change, and why callers' loops terminate.
-/
import LA.Lemmas.ReadData
namespace LA.RD

/-- Bytes the call has put in the client's buffer. -/
def Ret.written : Ret → List Nat
  | .ok bs => bs
  | .err _ l => l

/-- What the call does not touch: everything but the `read_data_*` members, the
archive state and the position in the current entry's script. -/
structure Frame (h h' : H) : Prop where
  term : h'.term = h.term
  hook : h'.hook = h.hook
  entries : h'.entries = h.entries
  nread : h'.nread = h.nread
  fileCount : h'.fileCount = h.fileCount
  entryObj : h'.entryObj = h.entryObj
  evs_le : h'.evs.length ≤ h.evs.length
  pos : h'.evpos + h'.evs.length = h.evpos + h.evs.length
  suffix : ∃ k, h'.evs = h.evs.drop k
  state : h.state = .data → h'.state = .data

theorem Frame.refl (h : H) : Frame h h := ⟨rfl, rfl, rfl, rfl, rfl, rfl, Nat.le_refl _, rfl, ⟨0, rfl⟩, id⟩

theorem enterReadData_data (h : H) (hs : h.state = .data) : enterReadData h = h := by
  simp [enterReadData, hs]

theorem enterReadData_frame (h : H) : Frame h (enterReadData h) := by
  unfold enterReadData
  split
  · exact ⟨rfl, rfl, rfl, rfl, rfl, rfl, Nat.le_refl _, rfl, ⟨0, rfl⟩, id⟩
  · exact ⟨rfl, rfl, rfl, rfl, rfl, rfl, Nat.le_refl _, rfl, ⟨0, rfl⟩, id⟩

theorem Frame.trans {a b c : H} (x : Frame a b) (y : Frame b c) : Frame a c :=
  ⟨y.term.trans x.term, y.hook.trans x.hook, y.entries.trans x.entries, y.nread.trans x.nread,
   y.fileCount.trans x.fileCount, y.entryObj.trans x.entryObj, Nat.le_trans y.evs_le x.evs_le,
   y.pos.trans x.pos,
   (by obtain ⟨k1, h1⟩ := x.suffix; obtain ⟨k2, h2⟩ := y.suffix
       exact ⟨k1 + k2, by rw [h2, h1, List.drop_drop]⟩),
   fun s => y.state (x.state s)⟩

theorem padLen_le (rd : RDState) (s : Nat) : padLen rd s ≤ s := by
  unfold padLen
  split
  · exact Nat.le_refl _
  · split <;> omega

theorem padCopy_frame {h : H} {s : Nat} {acc : List Nat} :
    (∀ r h', padCopy h s acc = .done r h' → r.written = acc ∧ h' = h) ∧
    (∀ h' s' acc', padCopy h s acc = .more h' s' acc' →
      (∃ add, acc' = acc ++ add ∧ add.length + s' = s) ∧ Frame h h' ∧ h'.state = h.state) := by
  unfold padCopy
  have hp := padLen_le h.rd s
  split
  · refine ⟨fun r h' e => ?_, fun h' s' acc' e => (by cases e)⟩
    injection e with e1 e2; subst e1 e2; exact ⟨rfl, rfl⟩
  · simp only []
    split
    · refine ⟨fun r h' e => (by cases e), fun h' s' acc' e => ?_⟩
      injection e with e1 e2 e3; subst e1 e2 e3
      refine ⟨⟨List.replicate (padLen h.rd s) 0 ++
        h.rd.blk.take (Nat.min h.rd.blk.length (s - padLen h.rd s)), by simp, ?_⟩, ?_, rfl⟩
      · have : Nat.min h.rd.blk.length (s - padLen h.rd s) ≤ s - padLen h.rd s := Nat.min_le_right _ _
        have h2 : Nat.min h.rd.blk.length (s - padLen h.rd s) ≤ h.rd.blk.length := Nat.min_le_left _ _
        simp only [List.length_append, List.length_replicate, List.length_take]
        rw [Nat.min_eq_left h2]; omega
      · exact ⟨rfl, rfl, rfl, rfl, rfl, rfl, Nat.le_refl _, rfl, ⟨0, rfl⟩, id⟩
    · refine ⟨fun r h' e => (by cases e), fun h' s' acc' e => ?_⟩
      injection e with e1 e2 e3; subst e1 e2 e3
      refine ⟨⟨List.replicate (padLen h.rd s) 0, rfl, ?_⟩, ?_, rfl⟩
      · simp only [List.length_replicate]; omega
      · exact ⟨rfl, rfl, rfl, rfl, rfl, rfl, Nat.le_refl _, rfl, ⟨0, rfl⟩, id⟩

theorem dataBlock_frame (h : H) : Frame h (dataBlock h).2.2 := by
  unfold dataBlock
  split
  · rename_i hs
    exact ⟨rfl, rfl, rfl, rfl, rfl, rfl, Nat.le_refl _, rfl, ⟨0, rfl⟩, fun x => absurd x hs⟩
  · split
    · rename_i e rest he
      refine ⟨rfl, rfl, rfl, rfl, rfl, rfl, ?_, ?_, ⟨1, ?_⟩, id⟩
      · simp [he]
      · simp [he]; omega
      · simp [he]
    · exact ⟨rfl, rfl, rfl, rfl, rfl, rfl, Nat.le_refl _, rfl, ⟨0, rfl⟩, id⟩

theorem fetch_frame (h : H) (s : Nat) : Frame h (fetch h s).2 := by
  unfold fetch
  have := dataBlock_frame { h with rd := { h.rd with posix := true, requested := s } }
  exact ⟨this.term, this.hook, this.entries, this.nread, this.fileCount, this.entryObj, this.evs_le, this.pos,
    this.suffix, this.state⟩

/-- End of data met by the fetch of this pass: a scripted result was used up, or
the script is at its EOF terminal. -/
theorem fetch_eof {h : H} {s : Nat} {h2 : H} (e : fetch h s = (.eof, h2)) :
    h2.evs.length < h.evs.length ∨ (h.evs = [] ∧ h.term.st = .eof) := by
  unfold fetch dataBlock at e
  simp only [] at e
  split at e
  · injection e with e1 _; cases e1
  · split at e
    · rename_i _ ev rest he
      left
      injection e with e1 e2; subst e2
      simp at he ⊢; simp [he]
    · rename_i _ he
      right
      injection e with e1 e2
      refine ⟨he, ?_⟩
      cases ht : h.term.st with
      | eof => rfl
      | err x => simp [ht, TSt.toSt] at e1

theorem step_frame {h : H} {s : Nat} {acc : List Nat} :
    (∀ r h', step h s acc = .done r h' → r.written = acc ∧ Frame h h') ∧
    (∀ h' s' acc', step h s acc = .more h' s' acc' →
      (∃ add, acc' = acc ++ add ∧ add.length + s' = s) ∧ Frame h h') := by
  unfold step
  split
  · split
    · rename_i h2 hf
      have f := fetch_frame h s; rw [hf] at f
      split
      · refine ⟨fun r h' e => ?_, fun h' s' acc' e => (by cases e)⟩
        injection e with e1 e2; subst e1 e2; exact ⟨rfl, f⟩
      · refine ⟨fun r h' e => ?_, fun h' s' acc' e => ?_⟩
        · have := (padCopy_frame (h := h2) (s := s) (acc := acc)).1 r h' e
          exact ⟨this.1, by rw [this.2]; exact f⟩
        · have := (padCopy_frame (h := h2) (s := s) (acc := acc)).2 h' s' acc' e
          exact ⟨this.1, f.trans this.2.1⟩
    · rename_i er h2 hf
      have f := fetch_frame h s; rw [hf] at f
      refine ⟨fun r h' e => ?_, fun h' s' acc' e => (by cases e)⟩
      injection e with e1 e2; subst e1 e2; exact ⟨rfl, f⟩
    · rename_i h2 hf
      have f := fetch_frame h s; rw [hf] at f
      refine ⟨fun r h' e => ?_, fun h' s' acc' e => ?_⟩
      · have := (padCopy_frame (h := h2) (s := s) (acc := acc)).1 r h' e
        exact ⟨this.1, by rw [this.2]; exact f⟩
      · have := (padCopy_frame (h := h2) (s := s) (acc := acc)).2 h' s' acc' e
        exact ⟨this.1, f.trans this.2.1⟩
  · refine ⟨fun r h' e => ?_, fun h' s' acc' e => ?_⟩
    · have := (padCopy_frame (h := h) (s := s) (acc := acc)).1 r h' e
      exact ⟨this.1, by rw [this.2]; exact Frame.refl h⟩
    · have := (padCopy_frame (h := h) (s := s) (acc := acc)).2 h' s' acc' e
      exact ⟨this.1, this.2.1⟩

/-- Whatever the script: a call writes at most `s` bytes after what it had
written, and leaves everything outside the body interface alone. -/
theorem readLoop_frame (h : H) (s : Nat) (acc : List Nat) :
    (∃ add, (readLoop h s acc).1.written = acc ++ add ∧ add.length ≤ s) ∧ Frame h (readLoop h s acc).2 := by
  fun_induction readLoop h s acc with
  | case1 h acc =>
    exact ⟨⟨[], by simp [Ret.written], Nat.le_refl _⟩, ⟨rfl, rfl, rfl, rfl, rfl, rfl, Nat.le_refl _, rfl, ⟨0, rfl⟩, id⟩⟩
  | case2 h s acc hs r h' hst =>
    have := (step_frame (h := h) (s := s) (acc := acc)).1 r h' hst
    exact ⟨⟨[], by simp [this.1], Nat.zero_le _⟩, this.2⟩
  | case3 h s acc hs h' s' acc' hst ih =>
    obtain ⟨⟨add, ha, hl⟩, f⟩ := (step_frame (h := h) (s := s) (acc := acc)).2 h' s' acc' hst
    obtain ⟨⟨add2, ha2, hl2⟩, f2⟩ := ih
    refine ⟨⟨add ++ add2, ?_, ?_⟩, f.trans f2⟩
    · rw [ha2, ha, List.append_assoc]
    · simp only [List.length_append]; omega

/-- A call with a non-empty buffer that reports neither bytes nor an error has used
up a scripted result, or the script is at its end-of-data terminal: loops of the
form `while (archive_read_data(...) > 0)` and retry loops terminate. -/
theorem readLoop_progress (h : H) (s : Nat) (acc : List Nat) (hs : 0 < s) :
    (∃ e l, (readLoop h s acc).1 = .err e l) ∨
    acc.length < (readLoop h s acc).1.written.length ∨
    (readLoop h s acc).2.evs.length < h.evs.length ∨ (h.evs = [] ∧ h.term.st = .eof) := by
  fun_induction readLoop h s acc with
  | case1 h acc => omega
  | case2 h s acc hs' r h' hst =>
    cases r with
    | err e l => left; exact ⟨e, l, rfl⟩
    | ok bs =>
      right; right
      -- the only way to `.done (.ok _)` is the end-of-data branch of the fetch
      unfold step at hst
      split at hst
      · split at hst
        · rename_i h2 hf
          split at hst
          · injection hst with e1 e2; subst e2
            exact fetch_eof hf
          · have := (padCopy_frame (h := h2) (s := s) (acc := acc)).1 _ _ hst
            unfold padCopy at hst
            split at hst
            · cases hst
            · simp only [] at hst; split at hst <;> cases hst
        · cases hst
        · rename_i h2 hf
          unfold padCopy at hst
          split at hst
          · cases hst
          · simp only [] at hst; split at hst <;> cases hst
      · unfold padCopy at hst
        split at hst
        · cases hst
        · simp only [] at hst; split at hst <;> cases hst
  | case3 h s acc hs' h' s' acc' hst ih =>
    obtain ⟨⟨add, ha, hl⟩, f⟩ := (step_frame (h := h) (s := s) (acc := acc)).2 h' s' acc' hst
    obtain ⟨⟨add2, ha2, _⟩, f2⟩ := readLoop_frame h' s' acc'
    have hm := step_more (Nat.pos_of_ne_zero hs') hst
    subst ha
    by_cases hz : s' = 0
    · right; left
      subst hz
      rw [ha2]; simp only [List.length_append]; omega
    · rcases ih (Nat.pos_of_ne_zero hz) with ⟨e, l, he⟩ | h1 | h1 | ⟨h1, _⟩
      · left; exact ⟨e, l, he⟩
      · right; left; simp only [List.length_append] at h1; omega
      · right; right; left; have := f.evs_le; omega
      · by_cases hadd : add = []
        · right; right; left
          subst hadd
          simp at hl
          have := f2.evs_le
          rcases hm with hm | ⟨_, hm⟩ <;> omega
        · right; left
          have : 0 < add.length := List.length_pos_iff.mpr hadd
          rw [ha2]; simp only [List.length_append]; omega

end LA.RD
