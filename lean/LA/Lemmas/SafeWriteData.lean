/-
Helper lemmas for C19, part 2: what the temporary file holds.

`Shape old c s`: the temporary file exists, is open, holds `c`; the target still
is the old file.  The write loop appends (with zero gaps) exactly the bytes it was
given; `runCalls` therefore builds the image `place` describes.
-/
import LA.Lemmas.SafeWrite
namespace LA.SafeWrite

/-- The file system while the temporary file is being filled. -/
def shapeFS (old c : Bytes) : FS :=
  { target := some 0, tmp := some 1, inodes := [old, c], fd := some 1, fdOn := .tmp }

structure Shape (old c : Bytes) (s : S) : Prop where
  fs : s.w.fs = shapeFS old c
  fd : s.wd.fd = true
  tmp : s.wd.tmpname = true
  st : s.wd.state = .data

theorem pre_shapeFS (old c : Bytes) : Pre old (shapeFS old c) :=
  ⟨rfl, rfl, by simp [shapeFS], by simp [shapeFS]⟩

/-! ### single calls on a shaped world -/

theorem sys_write_shape {F : Nat → Bool} {w : World} {old c : Bytes} (h : w.fs = shapeFS old c) (off : Nat) (d : Bytes) :
    ((sys F w (.write off d)).2 = .inj ∧ (sys F w (.write off d)).1.fs = shapeFS old c) ∨
    ((sys F w (.write off d)).2 = .ok d.length ∧ (sys F w (.write off d)).1.fs = shapeFS old (writeAt c off d)) := by
  rcases sys_res_cases F w (.write off d) with ⟨h1, h2⟩ | ⟨_, h2, h3⟩
  · left; exact ⟨h1, by rw [h2, h]; simp⟩
  · right
    rw [h2, h3, h]
    simp [shapeFS, FS.step, FS.setIno, Res.ofOpt]

theorem sys_ftruncate_shape {F : Nat → Bool} {w : World} {old c : Bytes} (h : w.fs = shapeFS old c) (n : Nat) :
    ((sys F w (.ftruncate n)).2 = .inj ∧ (sys F w (.ftruncate n)).1.fs = shapeFS old c) ∨
    ((sys F w (.ftruncate n)).2 = .ok 0 ∧ (sys F w (.ftruncate n)).1.fs = shapeFS old (truncTo n c)) := by
  rcases sys_res_cases F w (.ftruncate n) with ⟨h1, h2⟩ | ⟨_, h2, h3⟩
  · left; exact ⟨h1, by rw [h2, h]; simp⟩
  · right
    rw [h2, h3, h]
    simp [shapeFS, FS.step, FS.setIno, Res.ofOpt]

theorem sys_fstat_shape {F : Nat → Bool} {w : World} {old c : Bytes} (h : w.fs = shapeFS old c) :
    (sys F w .fstat).2 = .inj ∨ (sys F w .fstat).2 = .ok c.length := by
  rcases sys_res_cases F w .fstat with ⟨h1, _⟩ | ⟨_, _, h3⟩
  · exact Or.inl h1
  · right; rw [h3, h]; simp [shapeFS, FS.step, Res.ofOpt]

theorem sys_lstat_tmp_shape {F : Nat → Bool} {w : World} {old c : Bytes} (h : w.fs = shapeFS old c) :
    (sys F w (.lstat .tmp)).2 = .inj ∨ (sys F w (.lstat .tmp)).2 = .ok c.length := by
  rcases sys_res_cases F w (.lstat .tmp) with ⟨h1, _⟩ | ⟨_, _, h3⟩
  · exact Or.inl h1
  · right; rw [h3, h]; simp [shapeFS, FS.step, FS.view, FS.lookup, Res.ofOpt]

/-! ### lazy_stat -/

theorem lazyStat_wd (F : Nat → Bool) (cfg : Cfg) (s : S) : (lazyStat F cfg s).1.wd = s.wd := by
  unfold lazyStat; simp only []
  split
  · split <;> rfl
  · rfl

/-- On a shaped world `lazy_stat` (repaired: falls back to the temporary name) can
only report the size of the temporary file. -/
theorem lazyStat_shape {F : Nat → Bool} {cfg : Cfg} {s : S} {old c : Bytes} (hs : Shape old c s)
    (hleg : cfg.legacy.statTarget = false) :
    (lazyStat F cfg s).2 = none ∨ (lazyStat F cfg s).2 = some c.length := by
  unfold lazyStat; simp only [hs.fd, hs.tmp, hleg, ↓reduceIte, Bool.not_false, Bool.and_self]
  have hfs1 : (sys F s.w Op.fstat).1.fs = shapeFS old c := by rw [sys_noFx rfl]; exact hs.fs
  rcases sys_fstat_shape (F := F) hs.fs with h | h
  · simp only [h, Res.isOk, Bool.false_eq_true, ↓reduceIte]
    rcases sys_lstat_tmp_shape (F := F) hfs1 with h2 | h2 <;> simp [h2, Res.val]
  · simp [h, Res.isOk, Res.val]

/-! ### the write loop -/

theorem writeLoop_shape (F : Nat → Bool) (blk : Nat) (buf : Bytes) (s : S) (old : Bytes) :
    ∀ c, Shape old c s →
      (s.wd.incomplete = true → (writeLoop F blk buf s).1.wd.incomplete = true) ∧
      ((writeLoop F blk buf s).2 ≠ none → (writeLoop F blk buf s).1.wd.incomplete = true) ∧
      ∃ c', Shape old c' (writeLoop F blk buf s).1 ∧
        (c.length = s.wd.fdOffset → s.wd.fdOffset ≤ s.wd.offset → (writeLoop F blk buf s).2 = none →
          (writeLoop F blk buf s).1.wd.incomplete = s.wd.incomplete ∧
          c'.length = (writeLoop F blk buf s).1.wd.fdOffset ∧
          (writeLoop F blk buf s).1.wd.fdOffset ≤ (writeLoop F blk buf s).1.wd.offset ∧
          (writeLoop F blk buf s).1.wd.offset = s.wd.offset + buf.length ∧
          padTo (s.wd.offset + buf.length) c' = padTo s.wd.offset c ++ buf) := by
  fun_induction writeLoop F blk buf s with
  | case1 s =>
    intro c hs
    refine ⟨fun h => h, fun h => absurd rfl h, c, hs, ?_⟩
    intro h1 h2 _
    exact ⟨rfl, h1, h2, by simp, by simp⟩
  | case2 buf s hb k buf1 off h1 =>
    intro c hs
    refine ⟨fun h => h, fun h => absurd rfl h, c, ⟨hs.fs, hs.fd, hs.tmp, hs.st⟩, ?_⟩
    intro hlen hle _
    have hk0 : blk ≠ 0 := by
      intro e; simp only [k, e, ↓reduceDIte, List.drop_zero, buf1] at h1; exact hb h1
    have hk : k = (buf.takeWhile (· == 0)).length := by simp only [k, hk0, ↓reduceDIte]
    have hsplit := skip_zeros_split buf
    rw [← hk] at hsplit
    have hbuf : buf = zeros k := by
      have : buf.drop k = [] := h1
      rw [this, List.append_nil] at hsplit; exact hsplit.symm
    have hkl : buf.length = k := by rw [hbuf]; simp
    refine ⟨rfl, hlen, by simp only [off]; omega, by simp only [off]; omega, ?_⟩
    rw [hkl]
    conv => rhs; rw [hbuf]
    exact (padTo_append_zeros (by omega)).symm
  | case3 buf s hb k buf1 off h1 sk hsk =>
    intro c hs
    have hfs : sk.1.fs = shapeFS old c := by
      simp only [sk]; split
      · simp only []; rw [sys_noFx rfl]; exact hs.fs
      · exact hs.fs
    exact ⟨fun _ => rfl, fun _ => rfl, c, ⟨hfs, hs.fd, hs.tmp, hs.st⟩, fun _ _ h => by simp at h⟩
  | case4 buf s hb k buf1 off h1 n sk hsk r hr =>
    intro c hs
    have hfs : sk.1.fs = shapeFS old c := by
      simp only [sk]; split
      · simp only []; rw [sys_noFx rfl]; exact hs.fs
      · exact hs.fs
    have hfs2 : r.1.fs = shapeFS old c := by
      rcases sys_write_shape (F := F) hfs off (buf1.take n) with ⟨_, h2⟩ | ⟨h2, _⟩
      · exact h2
      · simp only [r, h2, Res.isOk] at hr; simp at hr
    exact ⟨fun _ => rfl, fun _ => rfl, c, ⟨hfs2, hs.fd, hs.tmp, hs.st⟩, fun _ _ h => by simp at h⟩
  | case5 buf s hb k buf1 off h1 n sk hsk r hr ih =>
    intro c hs
    have hfs : sk.1.fs = shapeFS old c := by
      simp only [sk]; split
      · simp only []; rw [sys_noFx rfl]; exact hs.fs
      · exact hs.fs
    have hfs2 : r.1.fs = shapeFS old (writeAt c off (buf1.take n)) := by
      rcases sys_write_shape (F := F) hfs off (buf1.take n) with ⟨h2, _⟩ | ⟨_, h2⟩
      · simp only [r, h2, Res.isOk] at hr; simp at hr
      · exact h2
    obtain ⟨i1, i2, c', hs', hc⟩ := ih (writeAt c off (buf1.take n)) ⟨hfs2, hs.fd, hs.tmp, hs.st⟩
    refine ⟨i1, i2, c', hs', ?_⟩
    intro hlen hle hnone
    have hkle : k ≤ buf.length := by
      simp only [k]; split
      · omega
      · exact takeWhile_length_le ..
    have hb1 : buf1.length = buf.length - k := by simp [buf1]
    have hn : n ≤ buf1.length := by
      simp only [n]; split
      · omega
      · exact Nat.min_le_left ..
    have hcoff : c.length ≤ off := by simp only [off]; omega
    have hw : writeAt c off (buf1.take n) = padTo off c ++ buf1.take n := writeAt_append _ hcoff
    have hwl : (writeAt c off (buf1.take n)).length = off + n := by
      rw [hw]; simp; omega
    obtain ⟨j1, j2, j3, j4, j5⟩ := hc (by rw [hwl]) (Nat.le_refl _) hnone
    refine ⟨j1, j2, j3, ?_, ?_⟩
    · rw [j4]; simp only [List.length_drop, off]; omega
    · have e1 : s.wd.offset + buf.length = off + n + (buf1.drop n).length := by
        simp only [List.length_drop, off]; omega
      rw [e1, j5]
      have e2 : padTo (off + n) (writeAt c off (buf1.take n)) = writeAt c off (buf1.take n) :=
        padTo_of_le (by omega)
      rw [e2, hw, List.append_assoc, List.take_append_drop]
      have hsplit : zeros k ++ buf1 = buf := by
        by_cases hk0 : blk = 0
        · simp only [k, hk0, ↓reduceDIte, zeros_zero, List.nil_append, buf1, List.drop_zero]
        · have := skip_zeros_split buf
          simp only [k, hk0, ↓reduceDIte, buf1]; exact this
      conv => rhs; rw [← hsplit]
      rw [← List.append_assoc, padTo_append_zeros (by omega)]

/-! ### write_data_block -/

/-- The stat step of `write_data_block` changes nothing but the stat cache. -/
theorem wdb_stat_step (F : Nat → Bool) (cfg : Cfg) (s : S) :
    let b : S × Option Nat :=
      if cfg.sparse then
        if s.wd.pst then (s, some cfg.blk)
        else
          let l := lazyStat F cfg s
          match l.2 with
          | some _ => (⟨{ l.1.wd with pst := true }, l.1.w⟩, some cfg.blk)
          | none => (l.1, none)
      else (s, some 0)
    b.1.w.fs = s.w.fs ∧ ∃ p, b.1.wd = { s.wd with pst := p } := by
  simp only []
  split
  · split
    · exact ⟨rfl, s.wd.pst, rfl⟩
    · have hfs := (lazyStat_frame F cfg s).fs_eq
      have hwd := lazyStat_wd F cfg s
      split
      · exact ⟨hfs, true, by simp [hwd]⟩
      · exact ⟨hfs, s.wd.pst, by simp [hwd]⟩
  · exact ⟨rfl, s.wd.pst, rfl⟩

theorem writeDataBlock_shape (F : Nat → Bool) (cfg : Cfg) (buf : Bytes) (s : S) (old c : Bytes)
    (hs : Shape old c s) :
    (s.wd.incomplete = true → (writeDataBlock F cfg buf s).1.wd.incomplete = true) ∧
    ∃ c', Shape old c' (writeDataBlock F cfg buf s).1 ∧
      ((writeDataBlock F cfg buf s).1.wd.incomplete = false →
        c.length = s.wd.fdOffset → s.wd.fdOffset ≤ s.wd.offset → s.wd.offset ≤ cfg.size →
        c'.length = (writeDataBlock F cfg buf s).1.wd.fdOffset ∧
        (writeDataBlock F cfg buf s).1.wd.fdOffset ≤ (writeDataBlock F cfg buf s).1.wd.offset ∧
        (writeDataBlock F cfg buf s).1.wd.offset = s.wd.offset + (buf.take (cfg.size - s.wd.offset)).length ∧
        padTo (writeDataBlock F cfg buf s).1.wd.offset c' =
          padTo s.wd.offset c ++ buf.take (cfg.size - s.wd.offset)) := by
  unfold writeDataBlock
  simp only []
  split
  · -- size == 0
    rename_i h0
    have : buf = [] := List.eq_nil_of_length_eq_zero h0
    subst this
    exact ⟨fun h => h, c, hs, fun _ h1 h2 _ => ⟨h1, h2, by simp, by simp⟩⟩
  · split
    · -- declared size 0 (the descriptor is open)
      rename_i h0
      have hsz : cfg.size = 0 := by
        rcases h0 with h0 | h0
        · exact h0
        · simp [hs.fd] at h0
      refine ⟨fun h => h, c, hs, fun _ h1 h2 h3 => ⟨h1, h2, ?_, ?_⟩⟩ <;> simp [hsz]
    · have hstep := wdb_stat_step F cfg s
      simp only [] at hstep
      generalize (if cfg.sparse = true then
            if s.wd.pst = true then (s, some cfg.blk)
            else
              match (lazyStat F cfg s).2 with
              | some _ => (⟨{ (lazyStat F cfg s).1.wd with pst := true }, (lazyStat F cfg s).1.w⟩, some cfg.blk)
              | none => ((lazyStat F cfg s).1, none)
          else (s, some 0)) = b at hstep ⊢
      obtain ⟨hbfs, p, hbwd⟩ := hstep
      have hsb : Shape old c b.1 := ⟨by rw [hbfs]; exact hs.fs, by rw [hbwd]; exact hs.fd,
        by rw [hbwd]; exact hs.tmp, by rw [hbwd]; exact hs.st⟩
      split
      · -- lazy_stat failed
        exact ⟨fun _ => rfl, c, ⟨hsb.fs, hsb.fd, hsb.tmp, hsb.st⟩, fun h => by simp at h⟩
      · rename_i blk _
        split
        · -- offset beyond the declared size
          rename_i hoob
          refine ⟨fun h => by rw [hbwd]; exact h, c, hsb, fun _ _ _ h3 => ?_⟩
          rw [hbwd] at hoob; simp only [] at hoob; omega
        · rename_i hin
          have hoffb : b.1.wd.offset = s.wd.offset := by rw [hbwd]
          have hfdob : b.1.wd.fdOffset = s.wd.fdOffset := by rw [hbwd]
          have hincb : b.1.wd.incomplete = s.wd.incomplete := by rw [hbwd]
          have htake : buf.take (if b.1.wd.offset + buf.length > cfg.size then cfg.size - b.1.wd.offset else buf.length)
              = buf.take (cfg.size - s.wd.offset) := by
            rw [hoffb]
            split
            · rfl
            · rw [List.take_of_length_le (Nat.le_refl _), List.take_of_length_le (by omega)]
          rw [htake]
          obtain ⟨i1, i2, c', hs', hc⟩ := writeLoop_shape F blk (buf.take (cfg.size - s.wd.offset)) b.1 old c hsb
          have key : ∀ r : S × Option Status, r = writeLoop F blk (buf.take (cfg.size - s.wd.offset)) b.1 →
              (s.wd.incomplete = true → r.1.wd.incomplete = true) ∧
              ∃ c', Shape old c' r.1 ∧ (r.1.wd.incomplete = false →
                c.length = s.wd.fdOffset → s.wd.fdOffset ≤ s.wd.offset → s.wd.offset ≤ cfg.size →
                c'.length = r.1.wd.fdOffset ∧ r.1.wd.fdOffset ≤ r.1.wd.offset ∧
                r.1.wd.offset = s.wd.offset + (buf.take (cfg.size - s.wd.offset)).length ∧
                padTo r.1.wd.offset c' = padTo s.wd.offset c ++ buf.take (cfg.size - s.wd.offset)) := by
            intro r hr
            subst hr
            refine ⟨fun h => i1 (by rw [hincb]; exact h), c', hs', ?_⟩
            intro hinc h1 h2 _
            have hnone : (writeLoop F blk (buf.take (cfg.size - s.wd.offset)) b.1).2 = none := by
              cases hq : (writeLoop F blk (buf.take (cfg.size - s.wd.offset)) b.1).2 with
              | none => rfl
              | some st =>
                have := i2 (by rw [hq]; simp)
                rw [this] at hinc; simp at hinc
            obtain ⟨_, j2, j3, j4, j5⟩ := hc (by rw [hfdob]; exact h1) (by rw [hfdob, hoffb]; exact h2) hnone
            rw [hoffb] at j4 j5
            exact ⟨j2, j3, j4, by rw [j4]; exact j5⟩
          split <;> exact key _ rfl

/-! ### the data calls build the image `place` describes -/

/-- How the content `c` of the temporary file and the writer's offsets relate to the
image `img` laid out so far (meaningful while no write has failed). -/
structure Content (size : Nat) (c : Bytes) (wd : WD) (img : Bytes × Nat) : Prop where
  len : c.length = wd.fdOffset
  off : wd.offset = img.2
  imgLen : img.1.length = img.2
  pad : padTo img.2 c = img.1
  bound : img.2 ≤ size

theorem Content.le {size : Nat} {c : Bytes} {wd : WD} {img : Bytes × Nat} (h : Content size c wd img) :
    c.length ≤ img.2 := by
  have := congrArg List.length h.pad
  rw [padTo_length, h.imgLen] at this
  omega

/-- Data-phase invariant: the temporary file is open and, unless a write failed,
holds the image built so far. -/
def DI (cfg : Cfg) (old : Bytes) (img : Bytes × Nat) (s : S) : Prop :=
  ∃ c, Shape old c s ∧ (s.wd.incomplete = false → Content cfg.size c s.wd img)

theorem runCall_DI {F : Nat → Bool} {cfg : Cfg} {old : Bytes} {img : Bytes × Nat} {s : S} (call : Call)
    (h : DI cfg old img s)
    (hwf : match call with
      | .data _ => True
      | .block o _ => img.2 ≤ o ∧ o ≤ cfg.size) :
    DI cfg old (place cfg.size img call) (runCall F cfg s call).1 := by
  obtain ⟨c, hs, hc⟩ := h
  cases call with
  | data b =>
    simp only [runCall, dataCall, hs.st, ne_eq, not_true_eq_false, ↓reduceIte]
    obtain ⟨i1, c', hs', hc'⟩ := writeDataBlock_shape F cfg b s old c hs
    refine ⟨c', hs', ?_⟩
    intro hinc
    have hinc0 : s.wd.incomplete = false := by
      cases hq : s.wd.incomplete with
      | false => rfl
      | true => rw [i1 hq] at hinc; simp at hinc
    have C := hc hinc0
    have hle := C.le
    obtain ⟨j1, j2, j3, j4⟩ := hc' hinc C.len (by rw [← C.len, C.off]; exact hle) (by rw [C.off]; exact C.bound)
    rw [C.off] at j3 j4
    have hd : (b.take (cfg.size - img.2)).length ≤ cfg.size - img.2 := by simp; omega
    refine ⟨j1, by simpa [place] using j3, ?_, ?_, ?_⟩
    · simp only [place, List.length_append, padTo_length, C.imgLen]; omega
    · simp only [place]
      rw [← j3, j4, C.pad, padTo_of_le (by rw [C.imgLen]; exact Nat.le_refl _)]
    · simp only [place]; have := C.bound; omega
  | block o b =>
    obtain ⟨hwf1, hwf2⟩ := hwf
    show DI cfg old _ (blockCall F cfg o b s).1
    unfold blockCall
    rw [if_neg (by simp [hs.st])]
    simp only []
    have hs0 : Shape old c ⟨{ s.wd with offset := o }, s.w⟩ := ⟨hs.fs, hs.fd, hs.tmp, hs.st⟩
    obtain ⟨i1, c', hs', hc'⟩ := writeDataBlock_shape F cfg b ⟨{ s.wd with offset := o }, s.w⟩ old c hs0
    have key : ∀ r : S × DR, r.1 = (writeDataBlock F cfg b ⟨{ s.wd with offset := o }, s.w⟩).1 →
        DI cfg old (place cfg.size img (.block o b)) r.1 := by
      intro r hr
      rw [hr]
      refine ⟨c', hs', ?_⟩
      intro hinc
      have hinc0 : s.wd.incomplete = false := by
        cases hq : s.wd.incomplete with
        | false => rfl
        | true => rw [i1 hq] at hinc; simp at hinc
      have C := hc hinc0
      have hle := C.le
      obtain ⟨j1, j2, j3, j4⟩ := hc' hinc C.len (by simp only []; rw [← C.len]; omega) hwf2
      simp only [] at j3 j4
      have hd : (b.take (cfg.size - o)).length ≤ cfg.size - o := by simp; omega
      refine ⟨j1, by simpa [place] using j3, ?_, ?_, ?_⟩
      · simp only [place, List.length_append, padTo_length, C.imgLen]; omega
      · simp only [place]
        rw [← j3, j4, ← C.pad, padTo_padTo hwf1]
      · simp only [place]; omega
    split <;> exact key _ rfl

theorem runCalls_DI {F : Nat → Bool} {cfg : Cfg} {old : Bytes} (calls : List Call) :
    ∀ (img : Bytes × Nat) (s : S), DI cfg old img s → wellFormed cfg.size img.2 calls →
      DI cfg old (calls.foldl (place cfg.size) img) (runCalls F cfg s calls).1 := by
  induction calls with
  | nil => intro img s h _; exact h
  | cons call cs ih =>
    intro img s h hwf
    simp only [runCalls, List.foldl_cons]
    cases call with
    | data b =>
      refine ih _ _ (runCall_DI (.data b) h trivial) ?_
      simpa [wellFormed, place] using hwf
    | block o b =>
      simp only [wellFormed] at hwf
      refine ih _ _ (runCall_DI (.block o b) h ⟨hwf.1, hwf.2.1⟩) ?_
      simpa [place] using hwf.2.2

/-- Sequential `archive_write_data` calls lay out the concatenation of their bodies. -/
theorem foldl_place_data (size : Nat) (bs : List Bytes) :
    ∀ (img : Bytes) (pos : Nat), img.length = pos → pos ≤ size →
      ((bs.map Call.data).foldl (place size) (img, pos)).1 = img ++ (bs.flatten).take (size - pos) := by
  induction bs with
  | nil => intro img pos _ _; simp
  | cons b bs ih =>
    intro img pos hl hp
    simp only [List.map_cons, List.foldl_cons, place, List.flatten_cons]
    have hd : (b.take (size - pos)).length ≤ size - pos := by simp; omega
    rw [ih _ _ (by simp [hl]) (by omega)]
    rw [padTo_of_le (by omega), List.append_assoc]
    congr 1
    rw [List.take_append]
    congr 2
    simp only [List.length_take]
    omega

end LA.SafeWrite
