/-
C12: shared definitions for the proofs about `LA.Tree` (statements only; the lemma
files TreeWalk / TreeClose / TreeRestore prove things about them).
-/
import LA.Lemmas.TreeLnk
import LA.Lemmas.TreeSort
namespace LA.Tree

/-- Every entry's parent directory is available when the entry arrives: `ds` are the
directories already there, each directory entry adds itself for what follows. -/
def ParentsOk : List Path → List Entry → Prop
  | _, [] => True
  | ds, e :: r =>
    e.path ≠ [] ∧ e.path.dropLast ∈ ds ∧ ParentsOk (if e.ftype = .dir then e.path :: ds else ds) r

/-- Well-formed tree: a directory at the top, valid distinct sibling names, leaves are
regular files / symlinks / fifos, permission bits fit 07777, symlinks have mode 0777
(Linux `lstat`) and a non-empty target, names of one inode agree on everything, and there are at most
`nlink` of them (`nlink` fits `unsigned int`). -/
structure TreeOk (t : Node) : Prop where
  isDir : ∃ m cs, t = .dir m cs
  names : t.namesOk = true
  leaves : ∀ e ∈ capture t, e.ftype ≠ .dir →
    (e.ftype = .reg ∨ e.ftype = .lnk ∨ e.ftype = .fifo) ∧
      (e.ftype = .lnk → e.mode = 0o777 ∧ kindOf e ≠ .lnk [])
  modes : ∀ e ∈ capture t, e.mode < 4096
  links : ∀ a ∈ capture t, ∀ b ∈ capture t, a.ftype ≠ .dir → b.ftype ≠ .dir → a.ino = b.ino →
    a.ftype = b.ftype ∧ a.mode = b.mode ∧ a.mtime = b.mtime ∧ a.payload = b.payload ∧ a.nlink = b.nlink
  counts : ∀ a ∈ capture t, a.ftype ≠ .dir →
    ((capture t).filter fun b => b.ftype != .dir && b.ino == a.ino).length ≤ a.nlink ∧ a.nlink < 4294967296

/-- What the fix-up loop of `_archive_write_disk_close` may assume about the state the
entries left behind. -/
structure CloseReady (o : Opts) (fs : FS) (fx : List Fixup) : Prop where
  nodupPaths : (fs.map (·.1)).Nodup
  prefixClosed : ∀ p n, (p, n) ∈ fs → p ≠ [] → ∃ d, fs.lookup p.dropLast = some d ∧ d.kind = .dir
  dirInoUnique : ∀ p n q m, (p, n) ∈ fs → (q, m) ∈ fs → n.kind = .dir → n.ino = m.ino → p = q
  dirsOpen : ∀ p n, (p, n) ∈ fs → n.kind = .dir → o.root = true ∨ n.mode &&& 0o100 ≠ 0
  fxNodup : (fx.map (·.path)).Nodup
  fxDirs : ∀ f ∈ fx, ∃ n, fs.lookup f.path = some n ∧ n.kind = .dir

/-- "Same tree": same names, and per name the same type/content, mode and mtime, and
the same hard-link structure among the non-directories. -/
structure SameTree (a b : FS) : Prop where
  names : a.map (·.1) = b.map (·.1)
  attrs : ∀ p x y, a.lookup p = some x → b.lookup p = some y →
    x.kind = y.kind ∧ x.mode = y.mode ∧ x.mtime = y.mtime
  links : ∀ p q x x' y y', a.lookup p = some x → a.lookup q = some x' →
    b.lookup p = some y → b.lookup q = some y' → y.kind ≠ .dir → y'.kind ≠ .dir →
    (x.ino = x'.ino ↔ y.ino = y'.ino)

end LA.Tree
