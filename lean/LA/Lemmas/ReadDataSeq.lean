/-
Sequences of `archive_read_data` calls, `archive_read_data_skip` and
`_archive_read_next_header2` on error-free scripts (used by `LA.Props.C06`).
-/
import LA.Lemmas.ReadDataFrame
namespace LA.RD

/-- Successive calls `archive_read_data(a, buf, s)` for `s` in `sizes`. -/
def readSeq (h : H) : List Nat → List Ret × H
  | [] => ([], h)
  | s :: ss =>
    let r := readData h s
    let q := readSeq r.2 ss
    (r.1 :: q.1, q.2)

/-- `P` cut into consecutive pieces of the given sizes (the last ones short or empty). -/
def chunks (P : List Nat) : List Nat → List (List Nat)
  | [] => []
  | s :: ss => P.take s :: chunks (P.drop s) ss

theorem chunks_flatten (P : List Nat) (sizes : List Nat) : (chunks P sizes).flatten = P.take sizes.sum := by
  induction sizes generalizing P with
  | nil => simp [chunks]
  | cons s ss ih => simp [chunks, ih, List.take_add]

theorem chunks_complete (P : List Nat) (sizes : List Nat) (h1 : ∀ s ∈ sizes, 1 ≤ s)
    (h2 : [] ∈ chunks P sizes) : (chunks P sizes).flatten = P := by
  induction sizes generalizing P with
  | nil => simp [chunks] at h2
  | cons s ss ih =>
    simp only [chunks, List.mem_cons] at h2
    have hs : 1 ≤ s := h1 s (by simp)
    rcases h2 with h2 | h2
    · have : P = [] := by
        cases P with
        | nil => rfl
        | cons a r =>
          have : (a :: r).take s ≠ [] := by
            cases s with
            | zero => omega
            | succ n => simp
          exact absurd h2.symm this
      subst this
      rw [chunks_flatten]; simp
    · have := ih (P.drop s) (fun x hx => h1 x (by simp [hx])) h2
      simp only [chunks, List.flatten_cons, this, List.take_append_drop]

theorem readSeq_spec (h : H) (bl : List Block) (hi : Inv h bl) (ho : (pend h bl).2 = .eof) (sizes : List Nat) :
    ∃ h' bl', Inv h' bl' ∧ Frame h h' ∧
      readSeq h sizes = ((chunks (pend h bl).1 sizes).map Ret.ok, h') ∧
      pend h' bl' = ((pend h bl).1.drop sizes.sum, .eof) := by
  induction sizes generalizing h bl with
  | nil => exact ⟨h, bl, hi, Frame.refl h, by simp [readSeq, chunks], by simp [← ho]⟩
  | cons s ss ih =>
    obtain ⟨h1, bl1, hi1, hr, hp⟩ := readLoop_spec h s [] bl hi
    have hf : Frame h h1 := by
      have := (readLoop_frame h s []).2; rw [hr] at this; exact this
    simp only [ho, or_true, if_true, List.nil_append] at hr hp
    obtain ⟨h2, bl2, hi2, hf2, hr2, hp2⟩ := ih h1 bl1 hi1 (by rw [hp])
    refine ⟨h2, bl2, hi2, hf.trans hf2, ?_, ?_⟩
    · simp only [readSeq, readData, enterReadData_data h hi.st, hr, hr2, hp, chunks, List.map_cons]
    · rw [hp2, hp]; simp [List.drop_drop]

/-- The format's own skip hook, when there is one, answers OK (or EOF, which
`archive_read_data_skip` turns into OK). -/
def HookOk (h : H) : Prop := h.hook = none ∨ h.hook = some .ok ∨ h.hook = some .eof

theorem drain_blocks (bl : List Block) (n : Nat) (t : Term) (ht : t.st = .eof) :
    drain (bl.map evOfBlock) n t = (.eof, [], n + bl.length) := by
  induction bl generalizing n with
  | nil => simp [drain, ht, TSt.toSt]
  | cons b r ih => simp [drain, evOfBlock, ih]; omega

/-- The handle after the rest of an error-free body has been skipped. -/
def afterSkip (h : H) : H := { h with evs := [], evpos := h.evpos + h.evs.length, state := .header }

/-- Inside the body of an entry whose remaining script has no error in it: OK
blocks (in any order), then EOF. -/
structure ErrFree (h : H) : Prop where
  st : h.state = .data
  evs : ∃ bl : List Block, h.evs = bl.map evOfBlock
  term : h.term.st = .eof

theorem Inv.errFree {h : H} {bl : List Block} (hi : Inv h bl) : ErrFree h := ⟨hi.st, ⟨bl, hi.evs⟩, hi.term⟩

theorem ErrFree.frame {h h' : H} (he : ErrFree h) (f : Frame h h') : ErrFree h' := by
  obtain ⟨bl, hb⟩ := he.evs
  obtain ⟨k, hk⟩ := f.suffix
  exact ⟨f.state he.st, ⟨bl.drop k, by rw [hk, hb, List.map_drop]⟩, by rw [f.term]; exact he.term⟩

theorem dataSkip_clean {h : H} (hi : ErrFree h) (hk : HookOk h) :
    dataSkip h = (.ok, afterSkip h) := by
  obtain ⟨bl, hb⟩ := hi.evs
  unfold dataSkip afterSkip
  have hs : ¬ h.state ≠ .data := by simp [hi.st]
  simp only [hs, if_false]
  rcases hk with hk | hk | hk
  · simp [hk, hb, drain_blocks bl h.evpos h.term hi.term]
  · simp [hk]
  · simp [hk]

/-- `_archive_read_next_header2` from the point where the previous body is out
of the way (state HEADER, skip status OK). -/
def headerStep (g : H) : St × H := headerRest .ok g

theorem nextHeader_header {h : H} (hs : h.state = .header) :
    nextHeader h = headerStep { h with entryObj := none } := by
  unfold nextHeader headerStep
  have h1 : ¬ (h.state ≠ .header ∧ h.state ≠ .data) := by simp [hs]
  have h2 : ¬ h.state = .data := by simp [hs]
  rw [if_neg h1]
  simp only [h2, if_false]

theorem nextHeader_data {h : H} (hi : ErrFree h) (hk : HookOk h) :
    nextHeader h = headerStep { afterSkip h with entryObj := none } := by
  have hi' : ErrFree { h with entryObj := none } := ⟨hi.st, hi.evs, hi.term⟩
  have hk' : HookOk { h with entryObj := none } := hk
  have hd := dataSkip_clean hi' hk'
  unfold nextHeader headerStep
  have h1 : ¬ (h.state ≠ .header ∧ h.state ≠ .data) := by simp [hi.st]
  rw [if_neg h1]
  simp only []
  rw [if_pos hi.st, hd]
  simp only [reduceCtorEq, or_self, if_false]
  rfl

/-- The next header does not look at the `read_data_*` members (they are reset). -/
theorem headerStep_rd (g : H) (rd : RDState) : headerStep { g with rd := rd } = headerStep g := by
  unfold headerStep headerRest readHeader
  cases he : g.entries with
  | nil => simp
  | cons e rest =>
    simp only []
    cases e.hst with
    | ok => rfl
    | eof => rfl
    | err x => cases x <;> rfl

/-- What a client may do with a body before asking for the next header. -/
inductive Act
  | read (n : Nat)      -- archive_read_data with a buffer of n bytes
  | block               -- archive_read_data_block
  deriving DecidableEq, Repr

def act (h : H) : Act → H
  | .read n => (readData h n).2
  | .block => (dataBlock h).2.2

def runActs (h : H) (as : List Act) : H := as.foldl act h

/-- One way of consuming an entry body: any reads, then optionally an explicit
`archive_read_data_skip`. -/
structure Consumption where
  acts : List Act := []
  skip : Bool := false
  deriving DecidableEq, Repr

def consume (h : H) (c : Consumption) : H :=
  if c.skip then (dataSkip (runActs h c.acts)).2 else runActs h c.acts

theorem act_frame (h : H) (a : Act) : Frame h (act h a) := by
  cases a with
  | read n => exact (enterReadData_frame h).trans (readLoop_frame (enterReadData h) n []).2
  | block => exact dataBlock_frame h

theorem runActs_frame (h : H) (as : List Act) : Frame h (runActs h as) := by
  induction as generalizing h with
  | nil => exact Frame.refl h
  | cons a r ih => exact (act_frame h a).trans (ih (act h a))

theorem HookOk.frame {h h' : H} (hk : HookOk h) (f : Frame h h') : HookOk h' := by
  unfold HookOk; rw [f.hook]; exact hk

/-- The handle the next header starts from is the same whatever was read. -/
theorem afterSkip_frame {h h' : H} (f : Frame h h') :
    ({ afterSkip h' with entryObj := none, rd := resetRD } : H) =
      { afterSkip h with entryObj := none, rd := resetRD } := by
  simp only [afterSkip, f.term, f.hook, f.entries, f.nread, f.fileCount, f.pos]

theorem nextHeader_frame {h h' : H} (he : ErrFree h) (hk : HookOk h) (f : Frame h h') :
    nextHeader h' = nextHeader h := by
  rw [nextHeader_data (he.frame f) (hk.frame f), nextHeader_data he hk,
    ← headerStep_rd _ resetRD, ← headerStep_rd { afterSkip h with entryObj := none } resetRD]
  exact congrArg headerStep (afterSkip_frame (h := h) (h' := h') f)

theorem nextHeader_afterSkip {h : H} (he : ErrFree h) (hk : HookOk h) :
    nextHeader (afterSkip h) = nextHeader h := by
  rw [nextHeader_data he hk, nextHeader_header (by simp [afterSkip])]

/-- **The next header does not depend on how the body was consumed.** -/
theorem nextHeader_consume {h : H} (he : ErrFree h) (hk : HookOk h) (c : Consumption) :
    nextHeader (consume h c) = nextHeader h := by
  have f := runActs_frame h c.acts
  unfold consume
  cases c.skip with
  | false => simpa using nextHeader_frame he hk f
  | true =>
    simp only [if_true]
    rw [dataSkip_clean (he.frame f) (hk.frame f)]
    simp only []
    rw [nextHeader_afterSkip (he.frame f) (hk.frame f)]
    exact nextHeader_frame he hk f

/-- A well-formed entry as the scripted format delivers it: header OK, body an
error-free block list ended by EOF, skip hook (if any) answering OK. -/
def CleanEntry (e : Entry) : Prop :=
  e.hst = .ok ∧ (∃ bl : List Block, e.evs = bl.map evOfBlock) ∧ e.term.st = .eof ∧
  (e.hook = none ∨ e.hook = some .ok ∨ e.hook = some .eof)

/-- Between two headers of a well-formed archive: before the first header / after an
explicit skip (state HEADER), or somewhere inside an error-free body. -/
def Boundary (h : H) : Prop := h.state = .header ∨ (ErrFree h ∧ HookOk h)

theorem headerStep_clean {g : H} {e : Entry} {rest : List Entry} (hg : g.entries = e :: rest)
    (hc : CleanEntry e) :
    (headerStep g).1 = .ok ∧ ErrFree (headerStep g).2 ∧ HookOk (headerStep g).2 ∧
      (headerStep g).2.entries = rest := by
  obtain ⟨h1, h2, h3, h4⟩ := hc
  unfold headerStep headerRest readHeader
  simp only [hg, h1]
  refine ⟨by simp [St.code], ⟨rfl, h2, h3⟩, h4, ?_⟩
  trivial

theorem nextHeader_boundary {h : H} (hb : Boundary h) {e : Entry} {rest : List Entry}
    (hg : h.entries = e :: rest) (hc : CleanEntry e) :
    (nextHeader h).1 = .ok ∧ ErrFree (nextHeader h).2 ∧ HookOk (nextHeader h).2 ∧
      (nextHeader h).2.entries = rest := by
  rcases hb with hs | ⟨he, hk⟩
  · rw [nextHeader_header hs]; exact headerStep_clean (by exact hg) hc
  · rw [nextHeader_data he hk]; exact headerStep_clean (by exact hg) hc

theorem consume_boundary {g : H} (he : ErrFree g) (hk : HookOk g) (c : Consumption) :
    Boundary (consume g c) ∧ (consume g c).entries = g.entries := by
  have f := runActs_frame g c.acts
  unfold consume
  cases c.skip with
  | false => exact ⟨Or.inr ⟨he.frame f, hk.frame f⟩, f.entries⟩
  | true =>
    simp only [if_true]
    rw [dataSkip_clean (he.frame f) (hk.frame f)]
    exact ⟨Or.inl rfl, f.entries⟩

/-- A whole session: header, consume the body in the way `c` says, next header, ...,
and one more header after the last consumption.  The result lists, for every
header call, its status and the complete handle it leaves behind. -/
def session (h : H) : List Consumption → List (St × H)
  | [] => [nextHeader h]
  | c :: cs => nextHeader h :: session (consume (nextHeader h).2 c) cs

theorem session_eq (cs₁ cs₂ : List Consumption) (h₁ h₂ : H) (hl : cs₁.length = cs₂.length)
    (hn : cs₁.length ≤ h₁.entries.length) (he : h₁.entries = h₂.entries)
    (hc : ∀ e ∈ h₁.entries, CleanEntry e) (b₁ : Boundary h₁) (b₂ : Boundary h₂)
    (hh : nextHeader h₁ = nextHeader h₂) : session h₁ cs₁ = session h₂ cs₂ := by
  induction cs₁ generalizing cs₂ h₁ h₂ with
  | nil =>
    cases cs₂ with
    | nil => simp [session, hh]
    | cons _ _ => simp at hl
  | cons c₁ r₁ ih =>
    cases cs₂ with
    | nil => simp at hl
    | cons c₂ r₂ =>
      cases hent : h₁.entries with
      | nil => simp [hent] at hn
      | cons e rest =>
        have hce : CleanEntry e := hc e (by simp [hent])
        obtain ⟨_, e1, k1, n1⟩ := nextHeader_boundary b₁ hent hce
        simp only [session, hh, List.cons.injEq, true_and]
        rw [hh] at e1 k1 n1
        obtain ⟨bb₁, ee₁⟩ := consume_boundary e1 k1 c₁
        obtain ⟨bb₂, ee₂⟩ := consume_boundary e1 k1 c₂
        apply ih
        · simpa using hl
        · rw [ee₁, n1]; simp [hent] at hn; simpa using hn
        · rw [ee₁, ee₂]
        · intro x hx; rw [ee₁, n1] at hx; exact hc x (by simp [hent, hx])
        · exact bb₁
        · exact bb₂
        · rw [nextHeader_consume e1 k1, nextHeader_consume e1 k1]

/-! ### Vocabulary of the C06 statements -/

/-- The handle is at the start of the body of an entry (just after
`__archive_reset_read_data`) whose format reader will deliver the blocks `bl`
and then ARCHIVE_EOF, reporting the end offset `t` with it (`none`: it stores
nothing). -/
structure Fresh (h : H) (bl : List Block) (t : Option Int) : Prop where
  st : h.state = .data
  outOff : h.rd.outOff = 0
  off : h.rd.off = 0
  blk : h.rd.blk = []
  evs : h.evs = bl.map evOfBlock
  term : h.term = { st := .eof, off := t }

/-- The property's premise on the zero-copy blocks: offsets increase from 0 and
blocks do not overlap; the end offset reported with EOF is not before the end of
the last block. -/
def WellFormed (bl : List Block) (t : Option Int) : Prop :=
  Ordered 0 bl ∧ ∀ t', t = some t' → endCursor 0 bl ≤ t'

/-- The dense image: every hole (before the first block, between blocks, between
the last block and the end offset) filled with zero bytes.  For a disordered
block list: up to the first block that lies below the bytes already covered. -/
def dense (bl : List Block) (t : Option Int) : List Nat := (image 0 bl t).1

theorem Fresh.inv {h : H} {bl : List Block} {t : Option Int} (hf : Fresh h bl t)
    (hend : ∀ t', t = some t' → endCursor 0 bl ≤ t') : Inv h bl := by
  refine ⟨hf.st, hf.evs, by rw [hf.term], ?_⟩
  intro t' ht
  rw [hf.term] at ht
  simpa [hf.off, hf.blk] using hend t' ht

theorem Fresh.pend {h : H} {bl : List Block} {t : Option Int} (hf : Fresh h bl t) :
    pend h bl = image 0 bl t := by
  simp [LA.RD.pend, hf.off, hf.outOff, hf.blk, hf.term, zeros]

/-- Length of the dense image of a well-formed block list: the end offset
reported with EOF, or the end of the last block when none is reported. -/
theorem image_length (pos : Int) (bl : List Block) (t : Option Int) (ho : Ordered pos bl)
    (hend : ∀ t', t = some t' → endCursor pos bl ≤ t') :
    ((image pos bl t).1.length : Int) = t.getD (endCursor pos bl) - pos := by
  induction bl generalizing pos with
  | nil =>
    simp only [image, endCursor, zeros_length]
    cases t with
    | none => simp
    | some t' => have := hend t' rfl; simp [endCursor] at this ⊢; omega
  | cons b r ih =>
    obtain ⟨o, bs⟩ := b
    obtain ⟨h1, h2⟩ := ho
    have hn : ¬ o < pos := by omega
    simp only [image, hn, if_false, endCursor, List.length_append, zeros_length]
    have := ih (o + bs.length) h2 (by simpa [endCursor] using hend)
    push_cast
    rw [this]
    omega


theorem headerStep_fresh {g : H} {e : Entry} {rest : List Entry} (hg : g.entries = e :: rest)
    (h1 : e.hst = .ok) {bl : List Block} (hbl : e.evs = bl.map evOfBlock) (ht : e.term.st = .eof) :
    Fresh (headerStep g).2 bl e.term.off := by
  unfold headerStep headerRest readHeader
  simp only [hg, h1]
  refine ⟨rfl, rfl, rfl, rfl, hbl, ?_⟩
  show e.term = _
  cases he : e.term with
  | mk st off => simp [he] at ht; simp [ht]

end LA.RD
