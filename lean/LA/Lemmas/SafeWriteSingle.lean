/-
Helper lemmas for C19, part 4: the cleaning unlink is only ever issued AFTER some
other call has been made to fail.  Hence a fault set with a single element never
hits it, and `no_temp_after_close` holds for every single fault without side
condition.
-/
import LA.Lemmas.SafeWriteFinish
namespace LA.SafeWrite

/-- Some call issued so far was made to fail. -/
def HasInj (F : Nat → Bool) (w : World) : Prop := ∃ k, k < w.log.length ∧ F k = true

/-- Every unlink of the temporary file that was made to fail comes after an earlier
injected failure (both are elements of the fault set). -/
def UAF (F : Nat → Bool) (w : World) : Prop :=
  ∀ l1 ev l2, w.log = l1 ++ ev :: l2 → ev.op = .unlink .tmp → ev.res = .inj →
    ∃ k, k < l1.length ∧ F k = true ∧ F l1.length = true

theorem sys_log_length (F : Nat → Bool) (w : World) (op : Op) :
    (sys F w op).1.log.length = w.log.length + 1 := by rw [sys_log]; simp

theorem hasInj_mono {F : Nat → Bool} {w : World} {op : Op} (h : HasInj F w) : HasInj F (sys F w op).1 := by
  obtain ⟨k, hk, hf⟩ := h
  exact ⟨k, by rw [sys_log_length]; omega, hf⟩

theorem sys_inj_F {F : Nat → Bool} {w : World} {op : Op} (h : (sys F w op).2 = .inj) : F w.log.length = true := by
  cases hf : F w.log.length
  · have := (sys_fs_nat (op := op) hf).2
    rw [this] at h
    generalize (w.fs.step op).2 = o at h
    cases o <;> simp [Res.ofOpt] at h
  · rfl

theorem sys_inj_hasInj {F : Nat → Bool} {w : World} {op : Op} (h : (sys F w op).2 = .inj) :
    HasInj F (sys F w op).1 :=
  ⟨w.log.length, by rw [sys_log_length]; omega, sys_inj_F h⟩

private theorem split_snoc {α : Type} {l l1 l2 : List α} {x ev : α} (h : l ++ [x] = l1 ++ ev :: l2) :
    (l2 = [] ∧ l1 = l ∧ ev = x) ∨ (∃ l2', l2 = l2' ++ [x] ∧ l = l1 ++ ev :: l2') := by
  rcases List.eq_nil_or_concat l2 with rfl | ⟨l2', y, rfl⟩
  · left
    have h' : l ++ [x] = l1 ++ [ev] := h
    have := List.append_inj' h' rfl
    exact ⟨rfl, this.1.symm, by simpa using this.2.symm⟩
  · right
    have h' : l ++ [x] = (l1 ++ ev :: l2') ++ [y] := by simpa using h
    have := List.append_inj' h' rfl
    refine ⟨l2', ?_, this.1⟩
    have : x = y := by simpa using this.2
    rw [this]; simp

theorem sys_UAF_other {F : Nat → Bool} {w : World} {op : Op} (h : UAF F w) (hop : op ≠ .unlink .tmp) :
    UAF F (sys F w op).1 := by
  intro l1 ev l2 hl ho hr
  rw [sys_log] at hl
  rcases split_snoc hl with ⟨_, _, he⟩ | ⟨l2', _, hl'⟩
  · rw [he] at ho; exact absurd ho hop
  · exact h l1 ev l2' hl' ho hr

theorem sys_UAF_unlink {F : Nat → Bool} {w : World} (h : UAF F w) (hi : HasInj F w) :
    UAF F (sys F w (.unlink .tmp)).1 := by
  intro l1 ev l2 hl ho hr
  rw [sys_log] at hl
  rcases split_snoc hl with ⟨_, h1, he⟩ | ⟨l2', _, hl'⟩
  · obtain ⟨k, hk, hf⟩ := hi
    subst h1
    refine ⟨k, hk, hf, ?_⟩
    rw [he] at hr
    exact sys_inj_F hr
  · exact h l1 ev l2' hl' ho hr

/-- Calls other than the unlink of the temporary file. -/
def Op.notUnlinkTmp : Op → Bool
  | .unlink .tmp => false
  | _ => true

theorem Frame.presUAF {C : Op → Bool} {F : Nat → Bool} {a b : World} (h : Frame C F a b)
    (hc : ∀ op, C op = true → op ≠ .unlink .tmp) (hu : UAF F a) : UAF F b :=
  h (UAF F) (fun _ op hw hcop => sys_UAF_other hw (hc op hcop)) hu

theorem Frame.presHasInj {C : Op → Bool} {F : Nat → Bool} {a b : World} (h : Frame C F a b)
    (hi : HasInj F a) : HasInj F b :=
  h (HasInj F) (fun _ _ hw _ => hasInj_mono hw) hi

theorem noFx_not_unlink (op : Op) (h : op.noFx = true) : op ≠ .unlink .tmp := by
  rintro rfl; simp [Op.noFx] at h

/-! ### the data path issues no unlink at all -/

/-- lseek / write / the stat calls. -/
def Op.dataOp : Op → Bool
  | .lseek _ | .write _ _ | .fstat | .lstat _ => true
  | _ => false

theorem dataOp_not_unlink (op : Op) (h : op.dataOp = true) : op ≠ .unlink .tmp := by
  rintro rfl; simp [Op.dataOp] at h

theorem noFx_stat_dataOp {F : Nat → Bool} {cfg : Cfg} (s : S) :
    Frame Op.dataOp F s.w (lazyStat F cfg s).1.w := by
  unfold lazyStat
  simp only []
  split
  · split
    · exact (Frame.refl _).snoc rfl
    · exact ((Frame.refl _).snoc rfl).snoc rfl
  · exact (Frame.refl _).snoc rfl

theorem writeLoop_frameD (F : Nat → Bool) (blk : Nat) (buf : Bytes) (s : S) :
    Frame Op.dataOp F s.w (writeLoop F blk buf s).1.w := by
  fun_induction writeLoop F blk buf s with
  | case1 s => exact Frame.refl _
  | case2 => exact Frame.refl _
  | case3 buf s hb k buf1 off h1 sk hsk =>
    show Frame Op.dataOp F s.w sk.1
    simp only [sk]; split
    · exact (Frame.refl _).snoc rfl
    · exact Frame.refl _
  | case4 buf s hb k buf1 off h1 n sk hsk r hr =>
    have h0 : Frame Op.dataOp F s.w sk.1 := by
      simp only [sk]; split
      · exact (Frame.refl _).snoc rfl
      · exact Frame.refl _
    show Frame Op.dataOp F s.w r.1
    simp only [r]; exact h0.snoc rfl
  | case5 buf s hb k buf1 off h1 n sk hsk r hr ih =>
    have h0 : Frame Op.dataOp F s.w sk.1 := by
      simp only [sk]; split
      · exact (Frame.refl _).snoc rfl
      · exact Frame.refl _
    refine Frame.trans ?_ ih
    show Frame Op.dataOp F s.w r.1
    simp only [r]; exact h0.snoc rfl

theorem writeDataBlock_frameD (F : Nat → Bool) (cfg : Cfg) (buf : Bytes) (s : S) :
    Frame Op.dataOp F s.w (writeDataBlock F cfg buf s).1.w := by
  unfold writeDataBlock
  simp only []
  split
  · exact Frame.refl _
  · split
    · exact Frame.refl _
    · have hb : Frame Op.dataOp F s.w
          (if cfg.sparse = true then
            if s.wd.pst = true then (s, some cfg.blk)
            else
              match (lazyStat F cfg s).2 with
              | some _ => (⟨{ (lazyStat F cfg s).1.wd with pst := true }, (lazyStat F cfg s).1.w⟩, some cfg.blk)
              | none => ((lazyStat F cfg s).1, none)
          else (s, some 0)).1.w := by
        split
        · split
          · exact Frame.refl _
          · split <;> exact noFx_stat_dataOp s
        · exact Frame.refl _
      generalize (if cfg.sparse = true then
            if s.wd.pst = true then (s, some cfg.blk)
            else
              match (lazyStat F cfg s).2 with
              | some _ => (⟨{ (lazyStat F cfg s).1.wd with pst := true }, (lazyStat F cfg s).1.w⟩, some cfg.blk)
              | none => ((lazyStat F cfg s).1, none)
          else (s, some 0)) = b at hb ⊢
      split
      · exact hb
      · split
        · exact hb
        · split <;> exact hb.trans (writeLoop_frameD F _ _ _)

theorem runCall_frameD (F : Nat → Bool) (cfg : Cfg) (s : S) (c : Call) :
    Frame Op.dataOp F s.w (runCall F cfg s c).1.w := by
  cases c with
  | data b =>
    show Frame Op.dataOp F s.w (dataCall F cfg b s).1.w
    unfold dataCall
    split
    · exact Frame.refl _
    · exact writeDataBlock_frameD F cfg b s
  | block o b =>
    show Frame Op.dataOp F s.w (blockCall F cfg o b s).1.w
    unfold blockCall
    split
    · exact Frame.refl _
    · simp only []
      split <;> exact writeDataBlock_frameD F cfg b ⟨{ s.wd with offset := o }, s.w⟩

theorem runCalls_frameD (F : Nat → Bool) (cfg : Cfg) (s : S) (cs : List Call) :
    Frame Op.dataOp F s.w (runCalls F cfg s cs).1.w := by
  induction cs generalizing s with
  | nil => exact Frame.refl _
  | cons c cs ih => exact (runCall_frameD F cfg s c).trans (ih _)

/-! ### "incomplete" is only ever set after an injected failure -/

def IncInj (F : Nat → Bool) (s : S) : Prop := s.wd.incomplete = true → HasInj F s.w

theorem sys_lseek_shape_res {F : Nat → Bool} {w : World} {old c : Bytes} (h : w.fs = shapeFS old c) (off : Nat) :
    (sys F w (.lseek off)).2 = .inj ∨ (sys F w (.lseek off)).2.isOk = true := by
  rcases sys_res_cases F w (.lseek off) with ⟨h1, _⟩ | ⟨_, _, h3⟩
  · exact Or.inl h1
  · right; rw [h3, h]; simp [shapeFS, FS.step, Res.ofOpt, Res.isOk]

theorem writeLoop_incInj (F : Nat → Bool) (blk : Nat) (buf : Bytes) (s : S) (old : Bytes) :
    ∀ c, Shape old c s → IncInj F s → IncInj F (writeLoop F blk buf s).1 := by
  fun_induction writeLoop F blk buf s with
  | case1 s => intro c _ h; exact h
  | case2 buf s hb k buf1 off h1 => intro c _ h; exact h
  | case3 buf s hb k buf1 off h1 sk hsk =>
    intro c hs _ _
    -- the lseek failed: on a shaped world this can only be an injected failure
    show HasInj F sk.1
    have hne : off ≠ s.wd.fdOffset := by
      intro e
      simp only [sk, e, ne_eq, not_true_eq_false, ↓reduceDIte] at hsk
      simp at hsk
    simp only [sk, hne, ne_eq, not_false_eq_true, ↓reduceDIte] at hsk ⊢
    rcases sys_lseek_shape_res (F := F) hs.fs off with h | h
    · exact sys_inj_hasInj h
    · rw [h] at hsk; simp at hsk
  | case4 buf s hb k buf1 off h1 n sk hsk r hr =>
    intro c hs _ _
    show HasInj F r.1
    have hfs : sk.1.fs = shapeFS old c := by
      simp only [sk]; split
      · simp only []; rw [sys_noFx rfl]; exact hs.fs
      · exact hs.fs
    rcases sys_write_shape (F := F) hfs off (buf1.take n) with ⟨h2, _⟩ | ⟨h2, _⟩
    · exact sys_inj_hasInj h2
    · simp only [r, h2, Res.isOk] at hr; simp at hr
  | case5 buf s hb k buf1 off h1 n sk hsk r hr ih =>
    intro c hs hi
    have hfs : sk.1.fs = shapeFS old c := by
      simp only [sk]; split
      · simp only []; rw [sys_noFx rfl]; exact hs.fs
      · exact hs.fs
    have hfs2 : r.1.fs = shapeFS old (writeAt c off (buf1.take n)) := by
      rcases sys_write_shape (F := F) hfs off (buf1.take n) with ⟨h2, _⟩ | ⟨_, h2⟩
      · simp only [r, h2, Res.isOk] at hr; simp at hr
      · exact h2
    have hmono : HasInj F s.w → HasInj F r.1 := by
      intro h
      have h1 : HasInj F sk.1 := by
        simp only [sk]; split
        · exact hasInj_mono h
        · exact h
      exact hasInj_mono h1
    exact ih _ ⟨hfs2, hs.fd, hs.tmp, hs.st⟩ (fun hinc => hmono (hi hinc))

theorem lazyStat_none_hasInj {F : Nat → Bool} {cfg : Cfg} {s : S} {old c : Bytes} (hs : Shape old c s)
    (hn : (lazyStat F cfg s).2 = none) : HasInj F (lazyStat F cfg s).1.w := by
  unfold lazyStat at hn ⊢
  simp only [hs.fd, ↓reduceIte] at hn ⊢
  rcases sys_fstat_shape (F := F) hs.fs with h | h
  · simp only [h, Res.isOk, Bool.false_eq_true, ↓reduceIte] at hn ⊢
    exact hasInj_mono (sys_inj_hasInj h)
  · simp [h, Res.isOk] at hn

/-- The stat step of `write_data_block`: only data-path calls, and it fails only by injection. -/
theorem wdb_stat_step_inj (F : Nat → Bool) (cfg : Cfg) (s : S) (old c : Bytes) (hs : Shape old c s) :
    let b : S × Option Nat :=
      if cfg.sparse then
        if s.wd.pst then (s, some cfg.blk)
        else
          let l := lazyStat F cfg s
          match l.2 with
          | some _ => (⟨{ l.1.wd with pst := true }, l.1.w⟩, some cfg.blk)
          | none => (l.1, none)
      else (s, some 0)
    Frame Op.dataOp F s.w b.1.w ∧ (b.2 = none → HasInj F b.1.w) := by
  simp only []
  split
  · split
    · exact ⟨Frame.refl _, fun h => by simp at h⟩
    · split
      · exact ⟨noFx_stat_dataOp s, fun h => by simp at h⟩
      · rename_i hnone
        exact ⟨noFx_stat_dataOp s, fun _ => lazyStat_none_hasInj hs hnone⟩
  · exact ⟨Frame.refl _, fun h => by simp at h⟩

theorem writeDataBlock_incInj (F : Nat → Bool) (cfg : Cfg) (buf : Bytes) (s : S) (old c : Bytes)
    (hs : Shape old c s) (hi : IncInj F s) : IncInj F (writeDataBlock F cfg buf s).1 := by
  unfold writeDataBlock
  simp only []
  split
  · exact hi
  · split
    · exact hi
    · have hstep := wdb_stat_step F cfg s
      have hinj := wdb_stat_step_inj F cfg s old c hs
      simp only [] at hstep hinj
      generalize (if cfg.sparse = true then
            if s.wd.pst = true then (s, some cfg.blk)
            else
              match (lazyStat F cfg s).2 with
              | some _ => (⟨{ (lazyStat F cfg s).1.wd with pst := true }, (lazyStat F cfg s).1.w⟩, some cfg.blk)
              | none => ((lazyStat F cfg s).1, none)
          else (s, some 0)) = b at hstep hinj ⊢
      obtain ⟨hbfs, p, hbwd⟩ := hstep
      obtain ⟨hfr, hnone⟩ := hinj
      have hsb : Shape old c b.1 := ⟨by rw [hbfs]; exact hs.fs, by rw [hbwd]; exact hs.fd,
        by rw [hbwd]; exact hs.tmp, by rw [hbwd]; exact hs.st⟩
      have hib : IncInj F b.1 := fun h => hfr.presHasInj (hi (by rw [hbwd] at h; exact h))
      split
      · rename_i hn
        exact fun _ => hnone hn
      · rename_i blk _
        split
        · exact hib
        · have := writeLoop_incInj F blk (buf.take (if b.1.wd.offset + buf.length > cfg.size
              then cfg.size - b.1.wd.offset else buf.length)) b.1 old c hsb hib
          split <;> exact this

/-- Shape and `IncInj` through one data call (no assumption on the offsets). -/
theorem runCall_shape_inc {F : Nat → Bool} {cfg : Cfg} {old : Bytes} {s : S} (call : Call)
    (h : ∃ c, Shape old c s) (hi : IncInj F s) :
    (∃ c, Shape old c (runCall F cfg s call).1) ∧ IncInj F (runCall F cfg s call).1 := by
  obtain ⟨c, hs⟩ := h
  cases call with
  | data b =>
    show (∃ c, Shape old c (dataCall F cfg b s).1) ∧ IncInj F (dataCall F cfg b s).1
    unfold dataCall
    rw [if_neg (by simp [hs.st])]
    obtain ⟨_, c', hs', _⟩ := writeDataBlock_shape F cfg b s old c hs
    exact ⟨⟨c', hs'⟩, writeDataBlock_incInj F cfg b s old c hs hi⟩
  | block o b =>
    show (∃ c, Shape old c (blockCall F cfg o b s).1) ∧ IncInj F (blockCall F cfg o b s).1
    unfold blockCall
    rw [if_neg (by simp [hs.st])]
    simp only []
    have hs0 : Shape old c ⟨{ s.wd with offset := o }, s.w⟩ := ⟨hs.fs, hs.fd, hs.tmp, hs.st⟩
    obtain ⟨_, c', hs', _⟩ := writeDataBlock_shape F cfg b ⟨{ s.wd with offset := o }, s.w⟩ old c hs0
    have hinc := writeDataBlock_incInj F cfg b ⟨{ s.wd with offset := o }, s.w⟩ old c hs0 hi
    split <;> exact ⟨⟨c', hs'⟩, hinc⟩

theorem runCalls_shape_inc {F : Nat → Bool} {cfg : Cfg} {old : Bytes} (calls : List Call) :
    ∀ s : S, (∃ c, Shape old c s) → IncInj F s →
      (∃ c, Shape old c (runCalls F cfg s calls).1) ∧ IncInj F (runCalls F cfg s calls).1 := by
  induction calls with
  | nil => intro s h hi; exact ⟨h, hi⟩
  | cons call cs ih =>
    intro s h hi
    obtain ⟨h1, h2⟩ := runCall_shape_inc (F := F) (cfg := cfg) call h hi
    exact ih _ h1 h2

/-! ### the cleanup paths -/

theorem closeFd_UAF {F : Nat → Bool} {cfg : Cfg} {s : S} (hu : UAF F s.w) (hi : HasInj F s.w) :
    UAF F (closeFd F cfg s).w := by
  unfold closeFd
  simp only []
  split
  · split
    · exact sys_UAF_unlink (sys_UAF_other hu (by simp)) (hasInj_mono hi)
    · exact sys_UAF_other hu (by simp)
  · split
    · exact sys_UAF_unlink hu hi
    · exact hu

theorem closeFd_UAF' {F : Nat → Bool} {cfg : Cfg} {wd : WD} {w : World} (hu : UAF F w) (hi : HasInj F w) :
    UAF F (closeFd F cfg ⟨wd, w⟩).w := closeFd_UAF (s := ⟨wd, w⟩) hu hi

theorem padFallback_UAF {F : Nat → Bool} {cfg : Cfg} {s : S} {old c : Bytes} (hs : Shape old c s)
    (hu : UAF F s.w) : UAF F (padFallback F cfg s).1.w := by
  unfold padFallback
  simp only []
  have hs0 : Shape old c ⟨{ s.wd with pst := false }, s.w⟩ := ⟨hs.fs, hs.fd, hs.tmp, hs.st⟩
  have hfr := lazyStat_frame F cfg ⟨{ s.wd with pst := false }, s.w⟩
  have hul : UAF F (lazyStat F cfg ⟨{ s.wd with pst := false }, s.w⟩).1.w := hfr.presUAF noFx_not_unlink hu
  have hfsl : (lazyStat F cfg ⟨{ s.wd with pst := false }, s.w⟩).1.w.fs = shapeFS old c := by
    rw [hfr.fs_eq]; exact hs.fs
  split
  · rename_i hnone
    exact closeFd_UAF hul (lazyStat_none_hasInj hs0 hnone)
  · split
    · have hu1 := sys_UAF_other (F := F) (op := .lseek (cfg.size - 1)) hul (by simp)
      have hfs1 : (sys F (lazyStat F cfg ⟨{ s.wd with pst := false }, s.w⟩).1.w (.lseek (cfg.size - 1))).1.fs
          = shapeFS old c := by rw [sys_noFx rfl]; exact hfsl
      split
      · rename_i hfail
        rcases sys_lseek_shape_res (F := F) hfsl (cfg.size - 1) with h | h
        · exact closeFd_UAF' hu1 (sys_inj_hasInj h)
        · rw [h] at hfail; simp at hfail
      · have hu2 := sys_UAF_other (F := F) (op := .write (cfg.size - 1) [0]) hu1 (by simp)
        split
        · rename_i hfail
          rcases sys_write_shape (F := F) hfs1 (cfg.size - 1) [0] with ⟨h, _⟩ | ⟨h, _⟩
          · exact closeFd_UAF' hu2 (sys_inj_hasInj h)
          · rw [h] at hfail; simp [Res.isOk] at hfail
        · exact hu2
    · exact hul

theorem extendFile_UAF {F : Nat → Bool} {cfg : Cfg} {s : S} {old c : Bytes} (hs : Shape old c s)
    (hu : UAF F s.w) : UAF F (extendFile F cfg s).1.w := by
  unfold extendFile
  simp only [hs.fd, Bool.not_true, Bool.false_eq_true, ↓reduceIte]
  split
  · exact hu
  · have hu1 := sys_UAF_other (F := F) (op := .ftruncate cfg.size) hu (by simp)
    rcases sys_ftruncate_shape (F := F) hs.fs cfg.size with ⟨h1, h2⟩ | ⟨h1, h2⟩
    · split
      · exact closeFd_UAF' hu1 (sys_inj_hasInj h1)
      · exact padFallback_UAF (s := ⟨s.wd, _⟩) ⟨h2, hs.fd, hs.tmp, hs.st⟩ hu1
    · split
      · rename_i hfail
        rw [h1] at hfail; simp [Res.isOk] at hfail
      · exact padFallback_UAF (s := ⟨s.wd, _⟩) ⟨h2, hs.fd, hs.tmp, hs.st⟩ hu1

theorem sys_rename_closed_res {F : Nat → Bool} {w : World} {old c : Bytes} (h : w.fs = closedFS old c) :
    (sys F w (.rename .tmp .target)).2 = .inj ∨ (sys F w (.rename .tmp .target)).2.isOk = true := by
  rcases sys_res_cases F w (.rename .tmp .target) with ⟨h1, _⟩ | ⟨_, _, h3⟩
  · exact Or.inl h1
  · right; rw [h3, h]; simp [closedFS, FS.step, FS.lookup, Res.ofOpt, Res.isOk]

theorem finishMetadata_UAF {F : Nat → Bool} {cfg : Cfg} {s : S} {old c : Bytes} (ret : Status)
    (hs : Shape old c s) (hu : UAF F s.w) (hi : IncInj F s) :
    UAF F (finishMetadata F cfg ret s).1.w := by
  unfold finishMetadata
  simp only [hs.fd, hs.tmp, ↓reduceIte]
  have hu1 := sys_UAF_other (F := F) (op := .close) hu (by simp)
  have hfs1 : (sys F s.w .close).1.fs = closedFS old c := sys_close_shape hs.fs
  split
  · rename_i hinc
    have : s.wd.incomplete = true := by
      cases hq : s.wd.incomplete with
      | true => rfl
      | false => rw [hq] at hinc; simp at hinc
    exact sys_UAF_unlink hu1 (hasInj_mono (hi this))
  · have hu2 := sys_UAF_other (F := F) (op := .rename .tmp .target) hu1 (by simp)
    split
    · exact hu2
    · rename_i hfail
      rcases sys_rename_closed_res (F := F) hfs1 with h | h
      · exact sys_UAF_unlink hu2 (sys_inj_hasInj h)
      · rw [h] at hfail; simp at hfail

/-! ### finish_entry, header, whole session -/

theorem finishEntry_data_UAF {F : Nat → Bool} {cfg : Cfg} {s : S} {old c : Bytes}
    (hleg : cfg.legacy = {}) (hs : Shape old c s) (hu : UAF F s.w) (hi : IncInj F s) :
    UAF F (finishEntry F cfg s).1.w := by
  have hl1 : cfg.legacy.finishLeak = false := by rw [hleg]
  have hl2 : cfg.legacy.statTarget = false := by rw [hleg]
  unfold finishEntry
  simp only [hs.st]
  have hue := extendFile_UAF (F := F) (cfg := cfg) hs hu
  obtain ⟨e1, _⟩ := extendFile_spec (F := F) (cfg := cfg) hs hl1 hl2
  split
  · exact hue
  · rename_i hnone
    obtain ⟨c', hs', hinc', _⟩ := e1 hnone
    have hfr := fixups_frame F cfg (extendFile F cfg s).1
    obtain ⟨t, hwd⟩ := fixups_wd F cfg (extendFile F cfg s).1
    have hsf : Shape old c' (fixups F cfg (extendFile F cfg s).1).1 :=
      ⟨by rw [hfr.fs_eq]; exact hs'.fs, by rw [hwd]; exact hs'.fd, by rw [hwd]; exact hs'.tmp,
       by rw [hwd]; exact hs'.st⟩
    refine finishMetadata_UAF _ hsf (hfr.presUAF noFx_not_unlink hue) ?_
    intro hinc
    rw [hwd] at hinc
    have : s.wd.incomplete = true := by rw [← hinc']; exact hinc
    exact hfr.presHasInj ((extendFile_frame F cfg s).presHasInj (hi this))

theorem finishEntry_fin_UAF {F : Nat → Bool} {cfg : Cfg} {s : S} {old new : Bytes} (h : Fin old new s)
    (hu : UAF F s.w) : UAF F (finishEntry F cfg s).1.w := by
  unfold finishEntry
  split
  · exact hu
  · exact hu
  · rename_i hst
    obtain ⟨hfd, _⟩ := h.data hst
    have he : extendFile F cfg s = (s, none) := by unfold extendFile; simp [hfd]
    simp only [he]
    have hfr := fixups_frame F cfg s
    obtain ⟨t, hwd⟩ := fixups_wd F cfg s
    have hfd' : (fixups F cfg s).1.wd.fd = false := by rw [hwd]; exact hfd
    unfold finishMetadata
    simp only [hfd', Bool.false_eq_true, ↓reduceIte]
    exact hfr.presUAF noFx_not_unlink hu

theorem sys_fchmod_shape_res {F : Nat → Bool} {w : World} {old c : Bytes} (h : w.fs = shapeFS old c) :
    (sys F w .fchmod).2 = .inj ∨ (sys F w .fchmod).2.isOk = true := by
  rcases sys_res_cases F w .fchmod with ⟨h1, _⟩ | ⟨_, _, h3⟩
  · exact Or.inl h1
  · right; rw [h3, h]; simp [shapeFS, FS.step, Res.ofOpt, Res.isOk]

theorem laMktemp_UAF {F : Nat → Bool} {cfg : Cfg} {s : S} {old : Bytes} (h : s.w.fs = initFS old)
    (hu : UAF F s.w) : UAF F (laMktemp F cfg s).1.w := by
  unfold laMktemp
  simp only []
  have hu1 := sys_UAF_other (F := F) (op := .mkstemp) hu (by simp)
  split
  · exact hu1
  · rename_i hok
    have hfs : (sys F s.w .mkstemp).1.fs = shapeFS old [] := by
      rcases sys_mkstemp_init (F := F) h with ⟨k, _⟩ | ⟨_, k⟩
      · rw [k] at hok; simp at hok
      · exact k
    have hu2 := sys_UAF_other (F := F) (op := .fchmod) hu1 (by simp)
    split
    · rename_i hfail
      have hinj : HasInj F (sys F (sys F s.w .mkstemp).1 .fchmod).1 := by
        rcases sys_fchmod_shape_res (F := F) hfs with k | k
        · exact sys_inj_hasInj k
        · rw [k] at hfail; simp at hfail
      have hu3 := sys_UAF_other (F := F) (op := .close) hu2 (by simp)
      split
      · exact hu3
      · exact sys_UAF_unlink hu3 (hasInj_mono hinj)
    · exact hu2

theorem header_UAF (F : Nat → Bool) (cfg : Cfg) (old : Bytes) (hsafe : cfg.safe = true) :
    UAF F (header F cfg { fs := initFS old }).1.w := by
  have hu0 : UAF F { fs := initFS old } := by
    intro l1 ev l2 hl
    simp at hl
  have hr : UAF F (restoreEntry F cfg ⟨{ todoOwner := cfg.owner }, { fs := initFS old }⟩).1.w := by
    unfold restoreEntry
    simp only [hsafe, ↓reduceIte]
    have hu1 := sys_UAF_other (F := F) (op := .openExcl .target) hu0 (by simp)
    obtain ⟨o1, _⟩ := sys_openExcl_init (F := F) (w := { fs := initFS old }) (old := old) rfl
    split
    · exact hu1
    · exact hu1
    · have hu2 := sys_UAF_other (F := F) (op := .lstat .target) hu1 (by simp)
      have o3 : (sys F (sys F { fs := initFS old } (.openExcl .target)).1 (.lstat .target)).1.fs = initFS old := by
        rw [sys_noFx rfl]; exact o1
      split
      · exact hu2
      · exact laMktemp_UAF (s := ⟨_, _⟩) o3 hu2
  unfold header
  simp only []
  split <;> exact hr

end LA.SafeWrite
