/-
C12 helper: what the C17 resolver model does to a captured entry list under the
tar strategy (`LA.Tree.linkify .tar`), as an explicit left-to-right specification.
-/
import LA.Lemmas.Lnk
import LA.Model.Tree
namespace LA.Tree

/-- `passthrough` of the resolver, on a C12 entry. -/
def Entry.pt (e : Entry) : Bool :=
  e.nlink == 1 || e.ftype == .dir || e.ftype == .blk || e.ftype == .chr

/-- First entry among `seen` that the resolver recorded for inode `k`. -/
def firstWith (seen : List Entry) (k : Nat) : Option Entry :=
  seen.find? fun e => !e.pt && e.ino == k

/-- Left-to-right specification of the tar strategy: the first member of a
hard-link group passes unchanged, every later member becomes a link to it. -/
def tarGo (seen : List Entry) : List Entry → List Entry
  | [] => []
  | e :: rest =>
    (if e.pt then e else
      match firstWith seen e.ino with
      | some c => { e with hardlink := some c.path, sizeSet := false }
      | none => e) :: tarGo (seen ++ [e]) rest

def tarSpec (es : List Entry) : List Entry := tarGo [] es

/-- Hard-link groups are consistent: members of one inode agree on `nlink`, there
are at most `nlink` of them, and `nlink` fits `unsigned int`. -/
def LinkOk (es : List Entry) : Prop :=
  ∀ e ∈ es, e.pt = false →
    e.nlink < 4294967296 ∧
    (es.filter fun x => !x.pt && x.ino == e.ino).length ≤ e.nlink ∧
    ∀ x ∈ es, x.pt = false → x.ino = e.ino → x.nlink = e.nlink

end LA.Tree
