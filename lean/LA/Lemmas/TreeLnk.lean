/-
C12 helper: what the C17 resolver model does to a captured entry list under the
tar strategy (`LA.Tree.linkify .tar`), as an explicit left-to-right specification.
-/
import LA.Lemmas.Lnk
import LA.Model.Tree
namespace LA.Tree

/-- `passthrough` of the resolver, on a C12 entry. -/
def Entry.pt (e : Entry) : Bool :=
  e.nlink == 1 || e.ftype == .dir || e.ftype == .blk || e.ftype == .chr

/-- First entry among `seen` that the resolver recorded for inode `k`. -/
def firstWith (seen : List Entry) (k : Nat) : Option Entry :=
  seen.find? fun e => !e.pt && e.ino == k

/-- Left-to-right specification of the tar strategy: the first member of a
hard-link group passes unchanged, every later member becomes a link to it. -/
def tarGo (seen : List Entry) : List Entry → List Entry
  | [] => []
  | e :: rest =>
    (if e.pt then e else
      match firstWith seen e.ino with
      | some c => { e with hardlink := some c.path, sizeSet := false }
      | none => e) :: tarGo (seen ++ [e]) rest

def tarSpec (es : List Entry) : List Entry := tarGo [] es

/-- Hard-link groups are consistent: members of one inode agree on `nlink`, there
are at most `nlink` of them, and `nlink` fits `unsigned int`. -/
def LinkOk (es : List Entry) : Prop :=
  ∀ e ∈ es, e.pt = false →
    e.nlink < 4294967296 ∧
    (es.filter fun x => !x.pt && x.ino == e.ino).length ≤ e.nlink ∧
    ∀ x ∈ es, x.pt = false → x.ino = e.ino → x.nlink = e.nlink

/-! ### What `tarSpec` does, entry by entry -/

/-- What `tarGo` emits for `e` after having seen `seen`. -/
def tarHead (seen : List Entry) (e : Entry) : Entry :=
  if e.pt then e else
    match firstWith seen e.ino with
    | some c => { e with hardlink := some c.path, sizeSet := false }
    | none => e

theorem tarGo_cons (seen : List Entry) (e : Entry) (rest : List Entry) :
    tarGo seen (e :: rest) = tarHead seen e :: tarGo (seen ++ [e]) rest := rfl

theorem tarGo_length (suf : List Entry) : ∀ seen, (tarGo seen suf).length = suf.length := by
  induction suf with
  | nil => intro seen; rfl
  | cons e rest ih => intro seen; simp [tarGo_cons, ih]

theorem tarGo_getElem? (suf : List Entry) : ∀ (seen : List Entry) (i : Nat) (e : Entry),
    suf[i]? = some e → (tarGo seen suf)[i]? = some (tarHead (seen ++ suf.take i) e) := by
  induction suf with
  | nil => intro seen i e h; simp at h
  | cons a rest ih =>
    intro seen i e h
    cases i with
    | zero =>
      simp at h; subst h; simp [tarGo_cons]
    | succ i =>
      simp at h
      have := ih (seen ++ [a]) i e h
      simpa [tarGo_cons] using this

theorem tarSpec_length (es : List Entry) : (tarSpec es).length = es.length := tarGo_length es []

theorem tarSpec_getElem? (es : List Entry) (i : Nat) (e : Entry) (h : es[i]? = some e) :
    (tarSpec es)[i]? = some (tarHead (es.take i) e) := by
  simpa [tarSpec] using tarGo_getElem? es [] i e h

theorem tarHead_path (seen : List Entry) (e : Entry) : (tarHead seen e).path = e.path := by
  unfold tarHead; split
  · rfl
  · split <;> rfl

theorem tarGo_paths (suf : List Entry) : ∀ seen, (tarGo seen suf).map (·.path) = suf.map (·.path) := by
  induction suf with
  | nil => intro seen; rfl
  | cons e rest ih => intro seen; simp [tarGo_cons, ih, tarHead_path]

theorem tarSpec_paths (es : List Entry) : (tarSpec es).map (·.path) = es.map (·.path) := tarGo_paths es []

theorem firstWith_take_some (es : List Entry) (i k : Nat) (c : Entry)
    (h : firstWith (es.take i) k = some c) :
    c.pt = false ∧ c.ino = k ∧ ∃ j, j < i ∧ es[j]? = some c ∧
      ∀ j' c', j' < j → es[j']? = some c' → ¬ (c'.pt = false ∧ c'.ino = k) := by
  unfold firstWith at h
  rw [List.find?_eq_some_iff_getElem] at h
  obtain ⟨hp, j, hj, hjc, hfirst⟩ := h
  simp at hp
  have hj2 : j < i ∧ j < es.length := by
    rw [List.length_take] at hj; omega
  refine ⟨hp.1, hp.2, j, hj2.1, ?_, ?_⟩
  · rw [List.getElem_take] at hjc
    rw [List.getElem?_eq_getElem hj2.2, hjc]
  · intro j' c' hj' hc' ⟨h1, h2⟩
    have := hfirst j' hj'
    have hlt : j' < es.length := by omega
    rw [List.getElem?_eq_getElem hlt] at hc'
    simp at hc'
    simp [List.getElem_take, hc', h1, h2] at this

theorem firstWith_take_none (es : List Entry) (i k : Nat) :
    firstWith (es.take i) k = none ↔
    ∀ j c, j < i → es[j]? = some c → ¬ (c.pt = false ∧ c.ino = k) := by
  unfold firstWith
  rw [List.find?_eq_none]
  constructor
  · intro h j c hj hc ⟨h1, h2⟩
    have hm : c ∈ es.take i := by
      apply List.mem_of_getElem? (i := j)
      rw [List.getElem?_take]; simp [hj, hc]
    have := h c hm
    simp [h1, h2] at this
  · intro h x hx
    obtain ⟨j, hj⟩ := List.getElem?_of_mem hx
    rw [List.getElem?_take] at hj
    split at hj
    · rename_i hlt
      have := h j x hlt hj
      simp; intro h1 h2; exact this ⟨h1, h2⟩
    · simp at hj


theorem tarSpec_get (es : List Entry) (i : Nat) (e : Entry) (h : es[i]? = some e)
    (hn : e.hardlink = none) :
    ∃ o, (tarSpec es)[i]? = some o ∧ o.path = e.path ∧ o.ftype = e.ftype ∧ o.mode = e.mode ∧
      o.mtime = e.mtime ∧ o.ino = e.ino ∧ o.nlink = e.nlink ∧ o.payload = e.payload ∧ o.size = e.size ∧
      (o.hardlink = none → o = e) ∧
      (∀ q, o.hardlink = some q → o.sizeSet = false ∧ e.pt = false ∧
         ∃ j c, j < i ∧ es[j]? = some c ∧ c.pt = false ∧ c.ino = e.ino ∧ c.path = q ∧
           (∀ j' c', j' < j → es[j']? = some c' → ¬ (c'.pt = false ∧ c'.ino = e.ino))) ∧
      (o.hardlink = none → ∀ j c, j < i → es[j]? = some c → ¬ (c.pt = false ∧ c.ino = e.ino) ∨ e.pt = true) := by
  refine ⟨_, tarSpec_getElem? es i e h, ?_⟩
  unfold tarHead
  by_cases hp : e.pt = true
  · simp [hp, hn]
  · have hp' : e.pt = false := by simpa using hp
    simp only [hp', Bool.false_eq_true, if_false]
    cases hf : firstWith (es.take i) e.ino with
    | none =>
      simp only [hn, true_and, forall_const]
      refine ⟨by simp, ?_⟩
      intro j c hj hc
      exact Or.inl ((firstWith_take_none es i e.ino).1 hf j c hj hc)
    | some c =>
      obtain ⟨h1, h2, j, hj, hjc, hfirst⟩ := firstWith_take_some es i e.ino c hf
      simp only [true_and]
      refine ⟨by simp, ?_, by simp⟩
      intro q hq
      simp at hq
      exact ⟨j, c, hj, hjc, h1, h2, hq, hfirst⟩

/-- The first member of a group (no earlier non-passthrough entry with its inode)
is emitted unchanged; in particular it carries no hardlink. -/
theorem tarSpec_first_unchanged (es : List Entry) (j : Nat) (c : Entry) (h : es[j]? = some c)
    (hfirst : ∀ j' c', j' < j → es[j']? = some c' → ¬ (c'.pt = false ∧ c'.ino = c.ino)) :
    (tarSpec es)[j]? = some c := by
  rw [tarSpec_getElem? es j c h, tarHead, (firstWith_take_none es j c.ino).2 hfirst]
  simp

theorem tarSpec_first_unlinked (es : List Entry) (j : Nat) (c : Entry) (h : es[j]? = some c)
    (hn : c.hardlink = none)
    (hfirst : ∀ j' c', j' < j → es[j']? = some c' → ¬ (c'.pt = false ∧ c'.ino = c.ino)) :
    ∃ o, (tarSpec es)[j]? = some o ∧ o.hardlink = none :=
  ⟨c, tarSpec_first_unchanged es j c h hfirst, hn⟩

/-! ### The resolver model under the tar strategy computes `tarSpec` -/

section Resolver
open LA.Lnk

/-- Number of non-passthrough entries with inode `k`. -/
def cnt (l : List Entry) (k : Nat) : Nat := (l.filter fun x => !x.pt && x.ino == k).length

theorem cnt_append (a b : List Entry) (k : Nat) : cnt (a ++ b) k = cnt a k + cnt b k := by
  simp [cnt]

theorem cnt_cons (a : Entry) (b : List Entry) (k : Nat) :
    cnt (a :: b) k = (if a.pt = false ∧ a.ino = k then 1 else 0) + cnt b k := by
  by_cases h : a.pt = false ∧ a.ino = k
  · simp [cnt, h]; omega
  · simp only [cnt, List.filter_cons, h, if_false]
    have : (!a.pt && a.ino == k) = false := by
      cases hp : a.pt <;> simp_all
    simp [this]

theorem cnt_snoc (a : List Entry) (e : Entry) (k : Nat) :
    cnt (a ++ [e]) k = cnt a k + (if e.pt = false ∧ e.ino = k then 1 else 0) := by
  rw [cnt_append, cnt_cons]; simp [cnt]

theorem firstWith_snoc (a : List Entry) (e : Entry) (k : Nat) :
    firstWith (a ++ [e]) k =
      (firstWith a k).or (if e.pt = false ∧ e.ino = k then some e else none) := by
  unfold firstWith
  rw [List.find?_append]
  congr 1
  by_cases h : e.pt = false ∧ e.ino = k
  · simp [h]
  · have : (!e.pt && e.ino == k) = false := by
      cases hp : e.pt <;> simp_all
    simp [h, this]

theorem firstWith_none_cnt (a : List Entry) (k : Nat) (h : firstWith a k = none) : cnt a k = 0 := by
  unfold firstWith at h
  rw [List.find?_eq_none] at h
  simp only [cnt, List.length_eq_zero_iff, List.filter_eq_nil_iff]
  exact h

theorem firstWith_some (a : List Entry) (k : Nat) (f : Entry) (h : firstWith a k = some f) :
    f ∈ a ∧ f.pt = false ∧ f.ino = k ∧ 0 < cnt a k := by
  unfold firstWith at h
  have hm := List.mem_of_find?_eq_some h
  have hp := List.find?_some h
  simp at hp
  refine ⟨hm, hp.1, hp.2, ?_⟩
  simp only [cnt]
  apply List.length_pos_of_mem (a := f)
  simp [hm, hp]

/-- The resolver table after the prefix `seen` of `es` has gone through it (tar strategy). -/
def TInv (es seen : List Entry) (tbl : List LE) : Prop :=
  (∀ le ∈ tbl, le.dev = 0 ∧ le.held = none ∧ ∃ (k : Nat) (f : Entry), le.ino = (k : Int) ∧ firstWith seen k = some f ∧
      es[le.canon]? = some f ∧ 0 < le.links ∧ le.links + cnt seen k = f.nlink) ∧
  tbl.Pairwise (fun a b => a.ino ≠ b.ino) ∧
  (∀ (k : Nat) (f : Entry), firstWith seen k = some f → cnt seen k < f.nlink → ∃ le ∈ tbl, le.ino = (k : Int))

theorem passthrough_toEnt (e : Entry) (i : Nat) : passthrough (e.toEnt i) = e.pt := rfl

theorem u32dec_pos (n : Nat) (h0 : 0 < n) (h1 : n < 4294967296) : u32dec n = n - 1 := by
  unfold u32dec; omega

theorem TInv_snoc_pt (es seen : List Entry) (e : Entry) (tbl : List LE) (hp : e.pt = true)
    (hi : TInv es seen tbl) : TInv es (seen ++ [e]) tbl := by
  have h1 : ∀ k, firstWith (seen ++ [e]) k = firstWith seen k := by
    intro k; simp [firstWith_snoc, hp]
  have h2 : ∀ k, cnt (seen ++ [e]) k = cnt seen k := by
    intro k; simp [cnt_snoc, hp]
  simpa only [TInv, h1, h2] using hi


/-- What `LinkOk` says about a non-passthrough entry arriving after `seen`. -/
theorem linkOk_at (es seen rest : List Entry) (e : Entry) (hes : es = seen ++ e :: rest)
    (hok : LinkOk es) (hp : e.pt = false) :
    e.nlink < 4294967296 ∧ cnt seen e.ino + 1 ≤ e.nlink ∧ 2 ≤ e.nlink ∧
    ∀ f ∈ seen, f.pt = false → f.ino = e.ino → f.nlink = e.nlink := by
  have hmem : e ∈ es := by subst hes; simp
  obtain ⟨h1, h2, h3⟩ := hok e hmem hp
  have h2' : cnt es e.ino ≤ e.nlink := h2
  have hc : cnt es e.ino = cnt seen e.ino + (1 + cnt rest e.ino) := by
    subst hes; rw [cnt_append, cnt_cons]; simp [hp]
  have hne : e.nlink ≠ 1 := by
    intro h; simp [Entry.pt, h] at hp
  refine ⟨h1, by omega, by omega, ?_⟩
  intro f hf fp fi
  exact h3 f (by subst hes; simp [hf]) fp fi

theorem TInv_insert (es seen rest : List Entry) (e : Entry) (tbl : List LE)
    (hes : es = seen ++ e :: rest) (hok : LinkOk es) (hp : e.pt = false) (hi : TInv es seen tbl)
    (hnf : ∀ le ∈ tbl, le.hasKey 0 (e.ino : Int) = false) :
    firstWith seen e.ino = none ∧
      TInv es (seen ++ [e]) (insertEntry tbl (e.toEnt seen.length) none) := by
  obtain ⟨l1, l2, l3, l4⟩ := linkOk_at es seen rest e hes hok hp
  obtain ⟨i1, i2, i3⟩ := hi
  have hfn : firstWith seen e.ino = none := by
    cases hf : firstWith seen e.ino with
    | none => rfl
    | some f =>
      exfalso
      obtain ⟨fm, fp, fi, fc⟩ := firstWith_some _ _ _ hf
      have hfn : f.nlink = e.nlink := l4 f fm fp fi
      obtain ⟨le, hle, hino⟩ := i3 e.ino f hf (by omega)
      have := hnf le hle
      have hd := (i1 le hle).1
      simp [LE.hasKey, hd, hino] at this
  have hc0 := firstWith_none_cnt _ _ hfn
  refine ⟨hfn, ?_, ?_, ?_⟩
  · intro le hle
    simp only [insertEntry, LE.ofEnt, List.mem_append, List.mem_singleton] at hle
    rcases hle with hle | rfl
    · obtain ⟨hd, hh, k, f, hk, hf, hc, hl, hs⟩ := i1 le hle
      refine ⟨hd, hh, k, f, hk, ?_, hc, hl, ?_⟩
      · simp [firstWith_snoc, hf]
      · have hne : e.ino ≠ k := by
          intro heq; have := hnf le hle; simp [LE.hasKey, hd, hk, heq] at this
        simpa [cnt_snoc, hne] using hs
    · refine ⟨rfl, rfl, e.ino, e, rfl, ?_, ?_, ?_, ?_⟩
      · simp [firstWith_snoc, hfn, hp]
      · subst hes; simp [Entry.toEnt]
      · show 0 < u32dec (e.nlink % 4294967296)
        rw [Nat.mod_eq_of_lt l1, u32dec_pos _ (by omega) l1]; omega
      · show u32dec (e.nlink % 4294967296) + _ = _
        rw [Nat.mod_eq_of_lt l1, u32dec_pos _ (by omega) l1, cnt_snoc, hc0]; simp [hp]; omega
  · simp only [insertEntry, LE.ofEnt]
    rw [List.pairwise_append]
    refine ⟨i2, by simp, ?_⟩
    intro a ha b hb
    simp at hb; subst hb
    intro heq
    have := hnf a ha
    simp [LE.hasKey, (i1 a ha).1, heq, Entry.toEnt] at this
  · intro k f hf hc
    by_cases hk : e.ino = k
    · refine ⟨_, List.mem_append_right _ (List.mem_singleton.2 rfl), ?_⟩
      simp [Entry.toEnt, LE.ofEnt, hk]
    · simp [firstWith_snoc, hk] at hf
      simp [cnt_snoc, hk] at hc
      obtain ⟨le, hle, h⟩ := i3 k f hf hc
      exact ⟨le, by simp [insertEntry, hle], h⟩


theorem TInv_found (es seen rest : List Entry) (e : Entry) (tbl pre post : List LE) (le0 : LE)
    (hes : es = seen ++ e :: rest) (hok : LinkOk es) (hp : e.pt = false) (hi : TInv es seen tbl)
    (htbl : tbl = pre ++ le0 :: post) (hk : le0.hasKey 0 (e.ino : Int) = true) :
    ∃ f, firstWith seen e.ino = some f ∧ es[le0.canon]? = some f ∧
      TInv es (seen ++ [e])
        (if u32dec le0.links > 0 then
           pre ++ { le0 with links := u32dec le0.links, held := id le0.held } :: post
         else pre ++ post) := by
  obtain ⟨l1, l2, l3, l4⟩ := linkOk_at es seen rest e hes hok hp
  subst htbl
  obtain ⟨i1, i2, i3⟩ := hi
  obtain ⟨hd0, hh0, k0, f, hk0, hf, hc, hl, hs⟩ := i1 le0 (by simp)
  have hino : le0.ino = (e.ino : Int) := by simpa [LE.hasKey, hd0] using hk
  have hke : k0 = e.ino := by omega
  subst hke
  obtain ⟨fm, fp, fi, fc⟩ := firstWith_some _ _ _ hf
  have hfn : f.nlink = e.nlink := l4 f fm fp fi
  have hu : u32dec le0.links = le0.links - 1 := u32dec_pos _ hl (by omega)
  rw [List.pairwise_append] at i2
  obtain ⟨p1, p2, p3⟩ := i2
  rw [List.pairwise_cons] at p2
  obtain ⟨p21, p22⟩ := p2
  have hpre : ∀ le ∈ pre, le.ino ≠ le0.ino := fun le h => p3 le h le0 (by simp)
  have hpost : ∀ le ∈ post, le.ino ≠ le0.ino := fun le h => (p21 le h).symm
  have hother : ∀ le, (le ∈ pre ∨ le ∈ post) →
      le.dev = 0 ∧ le.held = none ∧ ∃ (k : Nat) (f : Entry), le.ino = (k : Int) ∧
        firstWith (seen ++ [e]) k = some f ∧ es[le.canon]? = some f ∧ 0 < le.links ∧
        le.links + cnt (seen ++ [e]) k = f.nlink := by
    intro le hle
    have hne : le.ino ≠ le0.ino := by
      rcases hle with h | h
      · exact hpre le h
      · exact hpost le h
    obtain ⟨hd, hh, k, f', hk', hf', hc', hl', hs'⟩ := i1 le (by
      rcases hle with h | h <;> simp [h])
    refine ⟨hd, hh, k, f', hk', by simp [firstWith_snoc, hf'], hc', hl', ?_⟩
    have : e.ino ≠ k := by
      intro heq; apply hne; rw [hk', hino, heq]
    simpa [cnt_snoc, this] using hs'
  have hkeep : ∀ (k : Nat) (f' : Entry), e.ino ≠ k → firstWith (seen ++ [e]) k = some f' →
      cnt (seen ++ [e]) k < f'.nlink → ∃ le, (le ∈ pre ∨ le ∈ post) ∧ le.ino = (k : Int) := by
    intro k f' hkn hf' hc'
    simp [firstWith_snoc, hkn] at hf'
    simp [cnt_snoc, hkn] at hc'
    obtain ⟨le, hle, h⟩ := i3 k f' hf' hc'
    simp only [List.mem_append, List.mem_cons] at hle
    rcases hle with h1 | rfl | h1
    · exact ⟨le, Or.inl h1, h⟩
    · exfalso; apply hkn; omega
    · exact ⟨le, Or.inr h1, h⟩
  refine ⟨f, hf, hc, ?_⟩
  by_cases hpos : 0 < u32dec le0.links
  · simp only [gt_iff_lt, hpos, if_true]
    refine ⟨?_, ?_, ?_⟩
    · intro le hle
      simp only [List.mem_append, List.mem_cons] at hle
      rcases hle with h | rfl | h
      · exact hother le (Or.inl h)
      · refine ⟨hd0, hh0, e.ino, f, hk0, by simp [firstWith_snoc, hf], hc, hpos, ?_⟩
        show u32dec le0.links + _ = _
        rw [hu, cnt_snoc]; simp [hp]; omega
      · exact hother le (Or.inr h)
    · rw [List.pairwise_append, List.pairwise_cons]
      refine ⟨p1, ⟨p21, p22⟩, fun a ha b hb => ?_⟩
      simp only [List.mem_cons] at hb
      rcases hb with rfl | hb
      · exact p3 a ha le0 (by simp)
      · exact p3 a ha b (by simp [hb])
    · intro k f' hf' hc'
      by_cases hk : e.ino = k
      · refine ⟨_, List.mem_append_right _ (List.mem_cons_self ..), ?_⟩
        simp [hk0, hk]
      · obtain ⟨le, hle, h⟩ := hkeep k f' hk hf' hc'
        refine ⟨le, ?_, h⟩
        rcases hle with h | h <;> simp [h]
  · simp only [gt_iff_lt, hpos, if_false]
    refine ⟨?_, ?_, ?_⟩
    · intro le hle
      exact hother le (List.mem_append.1 hle)
    · rw [List.pairwise_append]
      exact ⟨p1, p22, fun a ha b hb => p3 a ha b (by simp [hb])⟩
    · intro k f' hf' hc'
      by_cases hk : e.ino = k
      · exfalso
        subst hk
        simp [firstWith_snoc, hf] at hf'
        subst hf'
        rw [cnt_snoc] at hc'
        simp [hp] at hc'
        omega
      · obtain ⟨le, hle, h⟩ := hkeep k f' hk hf' hc'
        exact ⟨le, List.mem_append.2 hle, h⟩


theorem clear_eq (e : Entry) (hn : e.hardlink = none) :
    { e with sizeSet := e.sizeSet, hardlink := none } = e := by
  cases e; simp at hn; simp [hn]

/-- One `archive_entry_linkify` call under the tar strategy, on entry number
`seen.length` of `es`. -/
theorem push_tar (es seen rest : List Entry) (e : Entry) (tbl : List LE)
    (hes : es = seen ++ e :: rest) (hok : LinkOk es) (hn : ∀ x ∈ es, x.hardlink = none)
    (hi : TInv es seen tbl) :
    ∃ tbl' x, push ⟨.tar, tbl⟩ (e.toEnt seen.length) = (⟨.tar, tbl'⟩, some x, none) ∧
      fromEnt es x = some (tarHead seen e) ∧ TInv es (seen ++ [e]) tbl' := by
  have hget : es[seen.length]? = some e := by subst hes; simp
  have hne : e.hardlink = none := hn e (by subst hes; simp)
  by_cases hp : e.pt = true
  · refine ⟨tbl, e.toEnt seen.length, ?_, ?_, TInv_snoc_pt es seen e tbl hp hi⟩
    · simp [push, passthrough_toEnt, hp]
    · simp [fromEnt, hget, tarHead, hp, Entry.toEnt, clear_eq e hne]
  · have hp' : e.pt = false := by simpa using hp
    unfold push
    simp only [passthrough_toEnt, hp', Bool.false_eq_true, if_false]
    show ∃ tbl' x, (match findEntry tbl 0 (e.ino : Int) id with
      | (some le, tbl') => (({ strategy := .tar, tbl := tbl' } : State),
          some ((e.toEnt seen.length).mkLink le.canon true), (none : Option Ent))
      | (none, _) => ({ strategy := .tar, tbl := insertEntry tbl (e.toEnt seen.length) none },
          some (e.toEnt seen.length), none)) = _ ∧ _
    rcases findEntry_spec tbl 0 (e.ino : Int) id with ⟨h1, h2⟩ | ⟨pre, le0, post, h1, h2, _, h4⟩
    · obtain ⟨hfn, hinv⟩ := TInv_insert es seen rest e tbl hes hok hp' hi h2
      rw [h1]
      refine ⟨_, _, rfl, ?_, hinv⟩
      simp [fromEnt, hget, tarHead, hp', hfn, Entry.toEnt, clear_eq e hne]
    · obtain ⟨f, hf, hc, hinv⟩ := TInv_found es seen rest e tbl pre post le0 hes hok hp' hi h1 h2
      rw [h4]
      refine ⟨_, _, rfl, ?_, hinv⟩
      simp [fromEnt, hget, tarHead, hp', hf, Entry.toEnt, Ent.mkLink, hc]

def opsFrom (k : Nat) (l : List Entry) : List Op :=
  (List.zipIdx l k).map fun (e, i) => Op.push (e.toEnt i)

theorem run_tar (es : List Entry) (hok : LinkOk es) (hn : ∀ x ∈ es, x.hardlink = none) :
    ∀ (suf seen : List Entry) (tbl : List LE), es = seen ++ suf → TInv es seen tbl →
      ((run ⟨.tar, tbl⟩ (opsFrom seen.length suf)).2.filterMap (fromEnt es) = tarGo seen suf ∧
       ∀ le ∈ (run ⟨.tar, tbl⟩ (opsFrom seen.length suf)).1.tbl, le.held = none) := by
  intro suf
  induction suf with
  | nil =>
    intro seen tbl _ hi
    refine ⟨by simp [opsFrom, run, tarGo], ?_⟩
    intro le hle
    exact (hi.1 le (by simpa [opsFrom, run] using hle)).2.1
  | cons e rest ih =>
    intro seen tbl hes hi
    obtain ⟨tbl', x, hpush, hx, hinv⟩ := push_tar es seen rest e tbl hes hok hn hi
    have ih' := ih (seen ++ [e]) tbl' (by simp [hes]) hinv
    rw [List.length_append, List.length_singleton] at ih'
    have hops : opsFrom seen.length (e :: rest) =
        Op.push (e.toEnt seen.length) :: opsFrom (seen.length + 1) rest := by
      simp [opsFrom, List.zipIdx_cons]
    rw [hops]
    simp only [run, step, hpush]
    refine ⟨?_, ih'.2⟩
    simp [hx, ih'.1, tarGo_cons]


theorem drainLoop_nothing_held (s : State) (ks : List Nat) (h : ∀ le ∈ s.tbl, le.held = none) :
    (drainLoop s ks).2 = [] := by
  cases ks with
  | nil => rfl
  | cons k ks =>
    have hd : drainAt s k = (s, none) := by
      unfold drainAt
      rcases takeNth_spec (fun le => le.held.isSome) s.tbl k with ⟨h1, _⟩ | ⟨pre, le, post, h1, h2, _⟩
      · rw [h1]
      · exfalso
        have := h le (by rw [h1]; simp)
        simp [this] at h2
    simp [drainLoop, hd]

theorem TInv_init (es : List Entry) : TInv es [] [] := by
  refine ⟨by simp, by simp, ?_⟩
  intro k f hf; simp [firstWith] at hf

/-- Under the tar strategy the resolver model does exactly what `tarSpec` says,
for inputs that carry no hardlink yet and whose link groups are consistent. -/
theorem linkify_tar_eq (es : List Entry) (h : LinkOk es) (hn : ∀ e ∈ es, e.hardlink = none) :
    linkify .tar es = tarSpec es := by
  obtain ⟨h1, h2⟩ := run_tar es h hn es [] [] (by simp) (TInv_init es)
  have hops : pushOps es = opsFrom 0 es := rfl
  simp only [List.length_nil] at h1 h2
  unfold linkify
  simp only [hops, drainLoop_nothing_held _ _ h2, List.append_nil]
  exact h1

end Resolver

end LA.Tree
