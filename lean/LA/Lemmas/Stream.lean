/- Entry framing and the tar reader on a stream of entries (C02). Core Lean only. -/
import LA.Lemmas.UstarSpec
namespace LA.Codec
open LA.NumFmt LA.Gen.TarLayout LA.Gen.CodecConsts

/-! ### body framing: any chunking -/

/-- What ends up in the archive for a body of declared size `size` written in `chunks`:
the first `size` bytes of the concatenation, zero filled to `size`. -/
def entryBody (size : Nat) (chunks : List (List Nat)) : List Nat :=
  (chunks.flatten).take size ++ List.replicate (size - ((chunks.flatten).take size).length) 0

theorem entryBody_length (size : Nat) (chunks : List (List Nat)) : (entryBody size chunks).length = size := by
  unfold entryBody
  simp only [List.length_append, List.length_take, List.length_replicate]
  omega

theorem dataStep_eq (n : Nat) (out : List Nat) (st : WState) (c : List Nat) :
    dataStep (n, out, st) c
      = (n + (c.take st.remaining).length, out ++ c.take st.remaining,
         { st with remaining := st.remaining - (c.take st.remaining).length }) := rfl

/-- The `archive_write_data` loop: whatever the chunking, the archive receives the first
`remaining` bytes of the concatenation. -/
theorem foldData_spec (chunks : List (List Nat)) (n : Nat) (out : List Nat) (st : WState) :
    (chunks.foldl dataStep (n, out, st)).2.1 = out ++ (chunks.flatten).take st.remaining ∧
    (chunks.foldl dataStep (n, out, st)).2.2
      = { st with remaining := st.remaining - ((chunks.flatten).take st.remaining).length } := by
  induction chunks generalizing n out st with
  | nil => simp
  | cons c cs ih =>
    rw [List.foldl_cons, dataStep_eq]
    obtain ⟨h1, h2⟩ := ih (n + (c.take st.remaining).length) (out ++ c.take st.remaining)
      { st with remaining := st.remaining - (c.take st.remaining).length }
    rw [h1, h2]
    simp only [List.flatten_cons, List.length_take]
    refine ⟨?_, ?_⟩
    · rw [List.append_assoc, List.take_append]
      have : st.remaining - min st.remaining c.length = st.remaining - c.length := by omega
      simp only [List.length_take, this]
    · congr 1
      simp only [List.length_take, List.length_append]
      omega

theorem foldData_fst (chunks : List (List Nat)) (n : Nat) (out : List Nat) (st : WState) :
    (chunks.foldl dataStep (n, out, st)).1 = n + ((chunks.flatten).take st.remaining).length := by
  induction chunks generalizing n out st with
  | nil => simp
  | cons c cs ih =>
    rw [List.foldl_cons, dataStep_eq, ih]
    simp only [List.flatten_cons, List.length_take, List.length_append]
    omega

/-- One accepted ustar entry on the wire: header, body (any chunking), zero padding to 512. -/
theorem writeEntry_ustar_ok (st : WState) (e : Entry) (chunks : List (List Nat)) (p0 : List Nat)
    (hp : e.path = some p0) (hnf : ustarFailed e (dirSlash e.ftype p0) (ustarSize e) none true = false) :
    writeEntry .ustar st e chunks
      = (.ok, ((chunks.flatten).take (ustarSize e).toNat).length,
         ustarHdr e (dirSlash e.ftype p0) (ustarSize e) ++ entryBody (ustarSize e).toNat chunks
          ++ List.replicate (pad512 (ustarSize e).toNat) 0,
         { st with remaining := 0, padding := 0 }) := by
  have hhdr : ustarWriteHeader st e = (.ok, ustarHdr e (dirSlash e.ftype p0) (ustarSize e),
      { st with remaining := (ustarSize e).toNat, padding := pad512 (ustarSize e).toNat }) := by
    unfold ustarWriteHeader
    rw [hp]
    simp only []
    have hf : ¬ (ustarFormatHeader e (dirSlash e.ftype p0)
        (if e.hard ≠ [] ∨ e.sym ≠ [] ∨ e.ftype ≠ .reg then 0 else e.sizeV) none true).1 = true := by
      have : (ustarFormatHeader e (dirSlash e.ftype p0) (ustarSize e) none true).1 = false := hnf
      unfold ustarSize at this; rw [this]; simp
    rw [if_neg hf]; rfl
  unfold writeEntry
  simp only [writeHeader, hhdr]
  have hne : ¬(Status.ok = Status.failed ∨ Status.ok = Status.fatal) := by decide
  rw [if_neg hne]
  obtain ⟨h1, h2⟩ := foldData_spec chunks 0 []
    { st with remaining := (ustarSize e).toNat, padding := pad512 (ustarSize e).toNat }
  have h0 := foldData_fst chunks 0 []
    { st with remaining := (ustarSize e).toNat, padding := pad512 (ustarSize e).toNat }
  simp only [List.nil_append] at h1
  simp only [finishEntry, h1, h2, h0]
  unfold entryBody
  simp only [Prod.mk.injEq, true_and, Nat.zero_add]
  rw [List.append_assoc, List.append_assoc, List.append_assoc, List.replicate_append_replicate]
  exact ⟨rfl, trivial⟩

/-! ### the tar reader over the stream -/

theorem isNullBlock_false (h : List Nat) (o n c : Nat) (r : List Nat) (hs : slice h o n = c :: r) (hc : c ≠ 0) :
    isNullBlock h = false := by
  unfold isNullBlock
  cases hall : h.all (· == 0) with
  | false => rfl
  | true =>
    rw [List.all_eq_true] at hall
    have hmem : c ∈ h := by
      have : c ∈ slice h o n := by rw [hs]; exact List.mem_cons_self ..
      unfold slice at this
      exact List.mem_of_mem_drop (List.mem_of_mem_take this)
    have := hall c hmem
    simp only [beq_iff_eq] at this
    exact absurd this hc

/-- End of archive: a block of zeros (the two-block trailer plus any block padding). -/
theorem tarRead_zeros (m k fmt : Nat) (acc : List RB) (hm : 512 ≤ m) :
    tarRead false (List.replicate m 0) k fmt acc = ⟨fmt, acc.reverse, .eof, k + 1⟩ := by
  rw [tarRead]
  have h1 : ¬ (List.replicate m 0).length = 0 := by simp only [List.length_replicate]; omega
  have h2 : ¬ (List.replicate m 0).length < 512 := by simp only [List.length_replicate]; omega
  rw [if_neg h1, if_neg h2]
  have h3 : isNullBlock ((List.replicate m 0).take 512) = true := by
    unfold isNullBlock
    rw [List.all_eq_true]
    intro x hx
    have := List.mem_of_mem_take hx
    simp only [List.mem_replicate] at this
    simp [this.2]
  simp only [h3, if_true]

/-- One entry of the stream: the reader consumes header, body and padding and goes on with
what follows, having recorded the decoded entry (numbered `k + 1`) with exactly the body bytes. -/
theorem tarRead_ustar_entry (e : Entry) (path : List Nat) (size : Int) (t : Nat)
    (hpath : wfStr path) (hlink : wfStr (tarLink e)) (huname : wfStr e.uname) (hgname : wfStr e.gname)
    (hnf : ustarFailed e path size none true = false) (ht : ustarType e none = some t)
    (hnodbl : ∀ p, ustarSplit path = .split p → (path.take p).getLast? ≠ some slash)
    (rb : RB) (rem : Nat) (hspec : ustarSpecRB e path size t = some (rb, rem))
    (body : List Nat) (hbody : body.length = rem) (more : List Nat) (k fmt : Nat) (acc : List RB) :
    tarRead false (ustarHdr e path size ++ body ++ List.replicate (pad512 rem) 0 ++ more) k fmt acc
      = tarRead false more (k + 1) ARCHIVE_FORMAT_TAR_USTAR
          ({ { rb with dev := 1, ino := ((k + 1 : Nat) : Int) } with body := body } :: acc) := by
  have hlen := ustarHdr_length e path size
  have hdec := ustarDecode_ustarHdr e path size t hpath hlink huname hgname hnf ht hnodbl
  rw [hspec] at hdec
  have hck := tarChecksumOk_ustarHdr e path size hpath hlink huname hgname
  have hmag8 : slice (ustarHdr e path size) rd_magic_offset 8 = [117, 115, 116, 97, 114, 0, 48, 48] := by
    rw [show rd_magic_offset = 257 from rfl, ustarHdr_magic e path size 8 (by omega), tpl_magic]
  have hmag5 : slice (ustarHdr e path size) rd_magic_offset 5 = ustarMagic := by
    rw [show rd_magic_offset = 257 from rfl, ustarHdr_magic e path size 5 (by omega), tpl_magic5]; rfl
  have hnull := isNullBlock_false _ _ _ _ _ hmag8 (by decide)
  have htf := ustarHdr_typeflag e path size t ht
  have htr := ustarType_range e t ht
  rw [tarRead]
  have hl : (ustarHdr e path size ++ body ++ List.replicate (pad512 rem) 0 ++ more).length
      = 512 + rem + pad512 rem + more.length := by
    simp only [List.length_append, List.length_replicate, hlen, hbody]
  have htake : (ustarHdr e path size ++ body ++ List.replicate (pad512 rem) 0 ++ more).take 512
      = ustarHdr e path size := by
    rw [List.append_assoc, List.append_assoc, List.take_append_of_le_length (by omega), List.take_of_length_le (by omega)]
  have hdrop : (ustarHdr e path size ++ body ++ List.replicate (pad512 rem) 0 ++ more).drop 512
      = body ++ List.replicate (pad512 rem) 0 ++ more := by
    rw [List.append_assoc, List.append_assoc, ← hlen, List.drop_left, List.append_assoc]
  rw [if_neg (by omega), if_neg (by omega)]
  simp only [htake, hdrop, hnull, hck, Bool.false_eq_true, if_false, Bool.not_true, htf]
  have hnsp : ¬(t = 65 ∨ t = 103 ∨ t = 75 ∨ t = 76 ∨ t = 86 ∨ t = 88 ∨ t = 120) := by omega
  have hngnu : ¬(slice (ustarHdr e path size) rd_magic_offset 8 = [117, 115, 116, 97, 114, 32, 32, 0]) := by
    rw [hmag8]; decide
  rw [if_neg hnsp, if_neg hngnu]
  simp only [hmag5, if_true, decide_true, Bool.not_true, hdec, false_and, if_false, Bool.false_eq_true]
  have hrl : (body ++ List.replicate (pad512 rem) 0 ++ more).length = rem + pad512 rem + more.length := by
    simp only [List.length_append, List.length_replicate, hbody]
  rw [if_neg (by omega)]
  by_cases hz : rem + pad512 rem = 0
  · rw [if_pos hz]
    have hr0 : rem = 0 := by omega
    have hp0 : pad512 rem = 0 := by omega
    have hb : body = [] := List.eq_nil_of_length_eq_zero (by omega)
    rw [hb, hp0]; simp
  · rw [if_neg hz]
    have hd : (body ++ List.replicate (pad512 rem) 0 ++ more).drop (rem + pad512 rem) = more := by
      have : (body ++ List.replicate (pad512 rem) 0).length = rem + pad512 rem := by
        simp only [List.length_append, List.length_replicate, hbody]
      rw [← this, List.drop_left]
    have htk : (body ++ List.replicate (pad512 rem) 0 ++ more).take rem = body := by
      rw [List.append_assoc, ← hbody, List.take_left]
    rw [hd, htk]

/-! ### a whole stream of entries -/

/-- Entries for which the ustar theorems speak: C strings of bytes, at most one kind of link, and
outside the two recorded defects (regular file named "…/", name split after a "//"). -/
def UstarEntryOK (e : Entry) : Prop :=
  wfEntry e ∧ (e.hard ≠ [] → e.sym = []) ∧
  (∀ p0, e.path = some p0 → e.ftype = .reg → e.hard = [] → p0.getLast? ≠ some slash) ∧
  (∀ p0 k, e.path = some p0 → ustarSplit (dirSlash e.ftype p0) = .split k →
    ((dirSlash e.ftype p0).take k).getLast? ≠ some slash)

/-- The two lists have the same length and correspond element by element, in order. -/
inductive AllPairs {α β : Type} (R : α → β → Prop) : List α → List β → Prop
  | nil : AllPairs R [] []
  | cons {a b as bs} : R a b → AllPairs R as bs → AllPairs R (a :: as) (b :: bs)

/-- `archive_write_header` accepts the entry (its status does not depend on the writer state). -/
def ustarAccepted (e : Entry) : Bool := (ustarWriteHeader {} e).1 == .ok

/-- What C02 promises about one entry read back from the stream. -/
def ReadsBackAs (ec : Entry × List (List Nat)) (rb : RB) : Prop :=
  (norm .ustar ec.1).mismatch rb 0 = none ∧ rb.body = entryBody (ustarSize ec.1).toNat ec.2 ∧ rb.bodySt = .eof

theorem tarRead_entries (es : List (Entry × List (List Nat))) (hes : ∀ ec ∈ es, UstarEntryOK ec.1)
    (st : WState) (m k fmt : Nat) (acc : List RB) (hm : 512 ≤ m) :
    ∃ rbs fmt', tarRead false ((writeEntries .ustar st es).1 ++ List.replicate m 0) k fmt acc
        = ⟨fmt', acc.reverse ++ rbs, .eof, k + rbs.length + 1⟩ ∧
      AllPairs ReadsBackAs (es.filter fun ec => ustarAccepted ec.1) rbs := by
  induction es generalizing st k fmt acc with
  | nil =>
    refine ⟨[], fmt, ?_, AllPairs.nil⟩
    simp only [writeEntries, List.nil_append, List.append_nil, List.length_nil, Nat.add_zero]
    exact tarRead_zeros m k fmt acc hm
  | cons ec r ih =>
    obtain ⟨e, chunks⟩ := ec
    have hok := hes (e, chunks) (List.mem_cons_self ..)
    have hr : ∀ ec ∈ r, UstarEntryOK ec.1 := fun ec h => hes ec (List.mem_cons_of_mem _ h)
    obtain ⟨hwf, hlinks, hnotrail, hnodbl⟩ := hok
    simp only [writeEntries]
    by_cases hacc : (ustarWriteHeader st e).1 = .ok
    · -- accepted: header, body, padding, then the rest
      have hacc' : ustarAccepted e = true := by
        unfold ustarAccepted; rw [ustarWriteHeader_status_indep {} st, hacc]; rfl
      obtain ⟨b, st', hw⟩ : ∃ b st', ustarWriteHeader st e = (.ok, b, st') :=
        ⟨(ustarWriteHeader st e).2.1, (ustarWriteHeader st e).2.2, by rw [← hacc]⟩
      obtain ⟨p0, hp, hnf, _, _⟩ := ustarWriteHeader_ok st e b st' hw
      have hwe := writeEntry_ustar_ok st e chunks p0 hp hnf
      obtain ⟨_, _, _, _, _, htype⟩ := ustarFailed_false e _ _ hnf
      obtain ⟨t, ht⟩ := Option.isSome_iff_exists.1 htype
      obtain ⟨⟨rb, rem⟩, hs⟩ := ustarSpecRB_isSome e (dirSlash e.ftype p0) t ht
      obtain ⟨hrem, hb0, hbst⟩ := ustar_rem e p0 (hnotrail p0 hp) t ht rb rem hs
      have hagree := ustar_agrees e p0 hp (hnotrail p0 hp) hlinks t ht rb rem hs
      have hstep := tarRead_ustar_entry e (dirSlash e.ftype p0) (ustarSize e) t
        (wfStr_dirSlash e.ftype p0 (hwf.1 p0 hp)) (wfStr_tarLink e hwf) hwf.2.1 hwf.2.2.1 hnf ht
        (fun kk hk => hnodbl p0 kk hp hk) rb rem hs (entryBody (ustarSize e).toNat chunks)
        (by rw [entryBody_length, hrem])
        ((writeEntries .ustar { st with remaining := 0, padding := 0 } r).1 ++ List.replicate m 0) k fmt acc
      obtain ⟨rbs, fmt', hread, hall⟩ := ih hr { st with remaining := 0, padding := 0 } (k + 1)
        ARCHIVE_FORMAT_TAR_USTAR
        ({ { rb with dev := 1, ino := ((k + 1 : Nat) : Int) } with body := entryBody (ustarSize e).toNat chunks } :: acc)
      refine ⟨{ { rb with dev := 1, ino := ((k + 1 : Nat) : Int) } with body := entryBody (ustarSize e).toNat chunks } :: rbs,
        fmt', ?_, ?_⟩
      · rw [hwe]
        simp only []
        rw [hrem] at hstep
        rw [List.append_assoc, hstep, hread]
        simp only [List.reverse_cons, List.append_assoc, List.singleton_append, List.length_cons]
        congr 1; omega
      · rw [List.filter_cons, if_pos (by simpa using hacc')]
        refine AllPairs.cons ⟨?_, rfl, ?_⟩ hall
        · -- dev / ino / nlink / body are not fields ustar carries
          have : (norm .ustar e).mismatch
              { { rb with dev := 1, ino := ((k + 1 : Nat) : Int) } with body := entryBody (ustarSize e).toNat chunks } 0
              = (norm .ustar e).mismatch rb 0 := by
            simp [Exp.mismatch, chkField, norm, isCpio]
          rw [this]; exact hagree
        · exact hbst
    · -- refused: nothing was written
      have href := ustarWriteHeader_refused st e hacc
      have hacc' : ustarAccepted e = false := by
        unfold ustarAccepted; rw [ustarWriteHeader_status_indep {} st, href]; rfl
      have hwe : writeEntry .ustar st e chunks = (.failed, 0, [], st) := by
        unfold writeEntry
        simp [writeHeader, href]
      obtain ⟨rbs, fmt', hread, hall⟩ := ih hr st k fmt acc
      refine ⟨rbs, fmt', ?_, ?_⟩
      · rw [hwe]; simp only [List.nil_append]; exact hread
      · rw [List.filter_cons, if_neg (by simp [hacc'])]; exact hall

end LA.Codec
