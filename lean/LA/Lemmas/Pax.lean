/- Lemmas about the pax record length prefix. Core Lean only. -/
import LA.Model.Pax
namespace LA.Pax

theorem pow10_pos (d : Nat) : 0 < 10 ^ d := Nat.pow_pos (by decide)

/-- Number of decimal digits (0 for 0), the count `digitLoop` computes. -/
def nd (i : Nat) : Nat := if h : i > 0 then 1 + nd (i / 10) else 0
termination_by i
decreasing_by omega

theorem digitLoop_eq (i dg nt : Nat) : digitLoop i dg nt = (dg + nd i, nt * 10 ^ nd i) := by
  induction i using Nat.strongRecOn generalizing dg nt with
  | _ i ih =>
    rw [digitLoop, nd]
    by_cases h : i > 0
    · rw [dif_pos h, dif_pos h, ih (i / 10) (by omega)]
      have : 10 ^ (1 + nd (i / 10)) = 10 * 10 ^ nd (i / 10) := by rw [Nat.add_comm, Nat.pow_succ, Nat.mul_comm]
      rw [this]
      simp only [Prod.mk.injEq]
      refine ⟨by omega, ?_⟩
      rw [Nat.mul_assoc]
    · rw [dif_neg h, dif_neg h]; simp

theorem nd_bounds (i : Nat) (h : 0 < i) : 10 ^ (nd i - 1) ≤ i ∧ i < 10 ^ nd i ∧ 0 < nd i := by
  induction i using Nat.strongRecOn with
  | _ i ih =>
    rw [nd, dif_pos h]
    by_cases h10 : i < 10
    · have hz : i / 10 = 0 := by omega
      rw [hz, nd, dif_neg (by omega)]
      simp; omega
    · have hq : 0 < i / 10 := by omega
      obtain ⟨h1, h2, h3⟩ := ih (i / 10) (by omega) hq
      have e1 : 1 + nd (i / 10) - 1 = (nd (i / 10) - 1) + 1 := by omega
      have e2 : 10 ^ (1 + nd (i / 10)) = 10 * 10 ^ nd (i / 10) := by rw [Nat.add_comm, Nat.pow_succ, Nat.mul_comm]
      have e3 : 10 ^ ((nd (i / 10) - 1) + 1) = 10 * 10 ^ (nd (i / 10) - 1) := by rw [Nat.pow_succ, Nat.mul_comm]
      rw [e1, e2, e3]
      refine ⟨by omega, by omega, by omega⟩

theorem decDigits_length (d n : Nat) (hd : 0 < d) (h1 : 10 ^ (d - 1) ≤ n) (h2 : n < 10 ^ d) :
    (decDigits n).length = d := by
  induction d generalizing n with
  | zero => omega
  | succ d ih =>
    rw [decDigits]
    by_cases h10 : n < 10
    · rw [dif_pos h10]
      -- n < 10 and 10^d ≤ n force d = 0
      cases d with
      | zero => rfl
      | succ d =>
        have : 10 ^ (d + 1 + 1 - 1) = 10 * 10 ^ d := by
          rw [show d + 1 + 1 - 1 = d + 1 from rfl, Nat.pow_succ, Nat.mul_comm]
        have := pow10_pos d
        omega
    · rw [dif_neg h10]
      cases d with
      | zero => simp at h2; omega
      | succ d =>
        have e1 : 10 ^ (d + 1 + 1 - 1) = 10 * 10 ^ d := by
          rw [show d + 1 + 1 - 1 = d + 1 from rfl, Nat.pow_succ, Nat.mul_comm]
        have e2 : 10 ^ (d + 1 + 1) = 10 * 10 ^ (d + 1) := by rw [Nat.pow_succ, Nat.mul_comm]
        rw [e1] at h1; rw [e2] at h2
        have := ih (n / 10) (by omega) (by simp only [Nat.add_sub_cancel]; omega) (by omega)
        simp only [List.length_append, List.length_singleton, this]

/-- The number written in front of the record has exactly as many digits as were reserved for it. -/
theorem recordLen_digits (key value : List Nat) :
    (decDigits (recordLen key value)).length + (1 + key.length + 1 + value.length + 1) = recordLen key value := by
  unfold recordLen
  simp only [digitLoop_eq, Nat.zero_add, Nat.one_mul]
  have hL : 0 < 1 + key.length + 1 + value.length + 1 := by omega
  obtain ⟨b1, b2, b3⟩ := nd_bounds _ hL
  generalize hLdef : 1 + key.length + 1 + value.length + 1 = L at *
  generalize hd : nd L = d at *
  have hp := pow10_pos (d - 1)
  have e : 10 ^ d = 10 * 10 ^ (d - 1) := by
    have : d = (d - 1) + 1 := by omega
    rw [this, Nat.pow_succ, Nat.mul_comm]; simp
  by_cases hc : L + d ≥ 10 ^ d
  · rw [if_pos hc]
    -- one more digit: 10^d ≤ L + d + 1 < 10^(d+1)
    have hlen := decDigits_length (d + 1) (L + (d + 1)) (by omega) (by simp only [Nat.add_sub_cancel]; omega)
      (by
        have e2 : 10 ^ (d + 1) = 10 * 10 ^ d := by rw [Nat.pow_succ, Nat.mul_comm]
        -- d + 1 ≤ 9 * 10^d
        have hd9 : d + 1 ≤ 9 * 10 ^ d := by
          have : d < 10 ^ d := Nat.lt_pow_self (by decide)
          omega
        omega)
    omega
  · rw [if_neg hc]
    have hlen := decDigits_length d (L + d) b3 (by omega) (by omega)
    omega

end LA.Pax
