/-
Helper lemmas for the client write layer (`LA.CW`): what each loop hands to the
callback, in which order, and what it reports.
-/
import LA.Model.ClientWrite
namespace LA.CW

/-! ### events, accepted bytes -/

@[simp] theorem taken_nil : taken [] = [] := rfl
@[simp] theorem taken_cons (e : Event) (l : List Event) : taken (e :: l) = e.taken ++ taken l := by
  simp [taken]
@[simp] theorem taken_append (a b : List Event) : taken (a ++ b) = taken a ++ taken b := by
  simp [taken]

/-- An event with a non-positive return value: the callback failed. -/
def Event.bad (e : Event) : Prop := e.ret ≤ 0

/-- Every offer of the list starts exactly where the callback stopped:
relative to a stream `S` and a position `t` (bytes accepted before), each offer
is a prefix of what is left of `S`, and the next offer starts after the bytes
this one took. -/
def Resumes (S : List Cell) : Nat → List Event → Prop
  | _, [] => True
  | t, e :: r => e.offer <+: S.drop t ∧ e.ret ≤ e.offer.length ∧ Resumes S (t + e.ret.toNat) r

theorem Resumes.mono {S S' : List Cell} (h : S <+: S') : ∀ {t l}, Resumes S t l → Resumes S' t l := by
  intro t l
  induction l generalizing t with
  | nil => intro _; trivial
  | cons e r ih =>
    intro ⟨h1, h2, h3⟩
    refine ⟨?_, h2, ih h3⟩
    obtain ⟨x, rfl⟩ := h
    by_cases ht : t ≤ S.length
    · rw [List.drop_append_of_le_length ht]
      exact h1.trans (List.prefix_append _ _)
    · have : S.drop t = [] := List.drop_of_length_le (by omega)
      rw [this] at h1
      have : e.offer = [] := List.prefix_nil.mp h1
      rw [this]; exact List.nil_prefix

theorem Resumes.append {S : List Cell} : ∀ {t a b}, Resumes S t a → Resumes S (t + (taken a).length) b →
    Resumes S t (a ++ b) := by
  intro t a
  induction a generalizing t with
  | nil => intro b _ h; simpa using h
  | cons e r ih =>
    intro b ⟨h1, h2, h3⟩ hb
    refine ⟨h1, h2, ih h3 ?_⟩
    have : e.taken.length = e.ret.toNat := by
      simp only [Event.taken, List.length_take]; omega
    simpa [this, Nat.add_assoc] using hb

/-- The bytes accepted along a resuming run are a piece of the stream. -/
theorem Resumes.taken_eq {S : List Cell} : ∀ {t l}, Resumes S t l →
    taken l = (S.drop t).take (taken l).length := by
  intro t l
  induction l generalizing t with
  | nil => intro _; simp
  | cons e r ih =>
    intro ⟨h1, h2, h3⟩
    have hlen : e.taken.length = e.ret.toNat := by
      simp only [Event.taken, List.length_take]; omega
    obtain ⟨x, hx⟩ := h1
    have h4 := ih h3
    simp only [taken_cons, List.length_append, hlen]
    rw [List.take_add]
    congr 1
    · rw [← hx, List.take_append_of_le_length (by omega)]; rfl
    · rw [List.drop_drop]; exact h4

/-! ### flushLoop -/

theorem flushLoop_taken {σ : Type} (W : Writer σ) (w : σ) (p : List Cell) :
    taken (flushLoop W w p).2.1 <+: p ∧ ((flushLoop W w p).1 = true → taken (flushLoop W w p).2.1 = p) := by
  fun_induction flushLoop W w p with
  | case1 w p hp =>
    have : p = [] := List.length_eq_zero_iff.mp hp
    simp [this]
  | case2 w p hp hr =>
    simp only [taken_cons, taken_nil, List.append_nil, Event.taken]
    exact ⟨List.take_prefix _ _, by simp⟩
  | case3 w p hp hr t ih =>
    simp only [taken_cons, Event.taken]
    constructor
    · have := List.prefix_append_right_inj (p.take (W.ask w p).1.toNat) |>.mpr ih.1
      rwa [List.take_append_drop] at this
    · intro h
      rw [ih.2 h, List.take_append_drop]

theorem flushLoop_resumes {σ : Type} (W : Writer σ) (w : σ) (p : List Cell) (S : List Cell) (t : Nat)
    (h : p <+: S.drop t) : Resumes S t (flushLoop W w p).2.1 := by
  fun_induction flushLoop W w p generalizing t with
  | case1 w p hp => trivial
  | case2 w p hp hr => exact ⟨h, W.ask_le w p, trivial⟩
  | case3 w p hp hr tt ih =>
    refine ⟨h, W.ask_le w p, ih _ ?_⟩
    show List.drop _ p <+: List.drop (t + (W.ask w p).1.toNat) S
    rw [← List.drop_drop]
    obtain ⟨x, hx⟩ := h
    rw [← hx]
    have := W.ask_le w p
    rw [List.drop_append_of_le_length (by omega)]
    exact List.prefix_append _ _

/-- The loop reports failure exactly when the callback returned a non-positive value. -/
theorem flushLoop_status {σ : Type} (W : Writer σ) (w : σ) (p : List Cell) :
    ((flushLoop W w p).1 = false ↔ ∃ e ∈ (flushLoop W w p).2.1, e.bad) := by
  fun_induction flushLoop W w p with
  | case1 w p hp => simp
  | case2 w p hp hr => simp [Event.bad, hr]
  | case3 w p hp hr t ih =>
    simp only [List.mem_cons, exists_eq_or_imp, Event.bad]
    rw [ih]
    constructor
    · intro h; exact Or.inr h
    · rintro (h | h)
      · exact absurd h hr
      · exact h

/-- Every offer of the loop is a suffix of the region. -/
theorem flushLoop_offers {σ : Type} (W : Writer σ) (w : σ) (p : List Cell) :
    ∀ e ∈ (flushLoop W w p).2.1, ∀ c ∈ e.offer, c ∈ p := by
  fun_induction flushLoop W w p with
  | case1 w p hp => simp
  | case2 w p hp hr => simp
  | case3 w p hp hr t ih =>
    intro e he c hc
    rcases List.mem_cons.mp he with rfl | he
    · exact hc
    · exact List.mem_of_mem_drop (ih e he c hc)

theorem flushLoop_nil {σ : Type} (W : Writer σ) (w : σ) : flushLoop W w [] = (true, [], w) := by
  rw [flushLoop]; simp

/-- When the callback takes everything it is offered the region goes out in one piece. -/
theorem flushLoop_full {σ : Type} (W : Writer σ) (w : σ) (p : List Cell) :
    (∀ e ∈ (flushLoop W w p).2.1, e.ret = e.offer.length) →
    (flushLoop W w p).2.1 = if p.length = 0 then [] else [⟨p, p.length⟩] := by
  fun_induction flushLoop W w p with
  | case1 w p hp => simp [hp]
  | case2 w p hp hr =>
    intro h
    have := h ⟨p, (W.ask w p).1⟩ (by simp)
    simp only [] at this
    omega
  | case3 w p hp hr t ih =>
    intro h
    have h1 := h ⟨p, (W.ask w p).1⟩ (by simp)
    simp only [] at h1
    have h2 : p.drop (W.ask w p).1.toNat = [] := by
      apply List.drop_of_length_le; omega
    have h3 : t.2.1 = [] := by
      show (flushLoop W _ (p.drop (W.ask w p).1.toNat)).2.1 = []
      rw [h2, flushLoop_nil]
    rw [h3, if_neg hp, h1]

/-! ### directLoop -/

theorem directLoop_taken {σ : Type} (W : Writer σ) (w : σ) (bs : Nat) (d : List Cell) :
    taken (directLoop W w bs d).2.2.1 ++ (directLoop W w bs d).2.1 = d := by
  fun_induction directLoop W w bs d with
  | case1 w d hd hr =>
    have h0 : (W.ask w (List.take bs d)).1.toNat = 0 := by omega
    simp [Event.taken, h0]
  | case2 w d hd hr t ih =>
    simp only [taken_cons, Event.taken, List.append_assoc]
    have h1 := W.ask_le w (d.take bs)
    simp only [List.length_take] at h1
    rw [List.take_take, Nat.min_eq_left (by omega)]
    show _ ++ (taken (directLoop W _ bs _).2.2.1 ++ (directLoop W _ bs _).2.1) = d
    rw [ih, List.take_append_drop]
  | case3 w d hd => simp

theorem directLoop_rem {σ : Type} (W : Writer σ) (w : σ) (bs : Nat) (d : List Cell) :
    (directLoop W w bs d).1 = true → (directLoop W w bs d).2.1.length < bs := by
  fun_induction directLoop W w bs d with
  | case1 w d hd hr => simp
  | case2 w d hd hr t ih => exact ih
  | case3 w d hd => intro _; show d.length < bs; omega

theorem directLoop_resumes {σ : Type} (W : Writer σ) (w : σ) (bs : Nat) (d : List Cell)
    (S : List Cell) (t : Nat) (h : d <+: S.drop t) : Resumes S t (directLoop W w bs d).2.2.1 := by
  fun_induction directLoop W w bs d generalizing t with
  | case1 w d hd hr => exact ⟨(List.take_prefix _ _).trans h, W.ask_le w _, trivial⟩
  | case2 w d hd hr tt ih =>
    refine ⟨(List.take_prefix _ _).trans h, W.ask_le w _, ih _ ?_⟩
    show List.drop _ d <+: List.drop (t + (W.ask w (d.take bs)).1.toNat) S
    rw [← List.drop_drop]
    obtain ⟨x, hx⟩ := h
    rw [← hx]
    have h1 := W.ask_le w (d.take bs)
    simp only [List.length_take] at h1
    rw [List.drop_append_of_le_length (by omega)]
    exact List.prefix_append _ _
  | case3 w d hd => trivial

theorem directLoop_status {σ : Type} (W : Writer σ) (w : σ) (bs : Nat) (d : List Cell) :
    ((directLoop W w bs d).1 = false ↔ ∃ e ∈ (directLoop W w bs d).2.2.1, e.bad) := by
  fun_induction directLoop W w bs d with
  | case1 w d hd hr => simp [Event.bad, hr]
  | case2 w d hd hr t ih =>
    simp only [List.mem_cons, exists_eq_or_imp, Event.bad]
    rw [ih]
    constructor
    · intro h; exact Or.inr h
    · rintro (h | h)
      · exact absurd h hr
      · exact h
  | case3 w d hd => simp

theorem directLoop_offers {σ : Type} (W : Writer σ) (w : σ) (bs : Nat) (d : List Cell) :
    ∀ e ∈ (directLoop W w bs d).2.2.1, e.offer.length = bs ∧ ∀ c ∈ e.offer, c ∈ d := by
  fun_induction directLoop W w bs d with
  | case1 w d hd hr =>
    intro e he
    simp only [List.mem_singleton] at he
    subst he
    exact ⟨by simp only [List.length_take]; omega, fun c hc => List.mem_of_mem_take hc⟩
  | case2 w d hd hr t ih =>
    intro e he
    rcases List.mem_cons.mp he with rfl | he
    · exact ⟨by simp only [List.length_take]; omega, fun c hc => List.mem_of_mem_take hc⟩
    · exact ⟨(ih e he).1, fun c hc => List.mem_of_mem_drop ((ih e he).2 c hc)⟩
  | case3 w d hd => simp

/-! ### stores into the copy buffer -/

theorem poke_eq_some {buf : List Cell} {i : Nat} {d : List Cell} (h : i + d.length ≤ buf.length) :
    poke buf i d = some (buf.take i ++ d ++ buf.drop (i + d.length)) := by
  simp [poke, h]

theorem poke_length {buf b : List Cell} {i : Nat} {d : List Cell} (h : poke buf i d = some b) :
    b.length = buf.length := by
  unfold poke at h
  split at h
  · injection h with h; subst h
    simp only [List.length_append, List.length_take, List.length_drop]; omega
  · cases h

theorem poke_take {buf b : List Cell} {i : Nat} {d : List Cell} (h : poke buf i d = some b) :
    b.take (i + d.length) = buf.take i ++ d := by
  unfold poke at h
  split at h
  · rename_i hle
    injection h with h; subst h
    have : (buf.take i ++ d).length = i + d.length := by
      simp only [List.length_append, List.length_take]; omega
    exact List.take_left' this
  · cases h

/-- Weak representation invariant: `state->next` lies inside the buffer.  Holds
after every call, successful or not. -/
def WInv (s : CState) : Prop := s.fill ≤ s.bufSize

/-- Invariant between successful calls: a non-empty buffer is never left full. -/
def Inv (s : CState) : Prop := s.fill ≤ s.bufSize ∧ (0 < s.bufSize → s.fill < s.bufSize)

/-- Bytes buffered but not yet handed to the callback. -/
def pending (s : CState) : List Cell := s.buf.take s.fill

theorem Inv.winv {s : CState} (h : Inv s) : WInv s := h.1

theorem clientOpen_inv (bpb : Nat) : Inv (clientOpen bpb) := by
  simp [Inv, clientOpen, CState.bufSize]

@[simp] theorem pending_clientOpen (bpb : Nat) : pending (clientOpen bpb) = [] := by
  simp [pending, clientOpen]

/-- What one `archive_write_client_write` call guarantees. -/
structure WriteSpec {σ : Type} (s : CState) (d : List Cell) (r : St × CState × List Event × σ) : Prop where
  not_oob : r.1 ≠ .oob
  winv : WInv r.2.1
  size : r.2.1.bufSize = s.bufSize
  ok : r.1 = .ok → Inv r.2.1 ∧ taken r.2.2.1 ++ pending r.2.1 = pending s ++ d
  pre : taken r.2.2.1 <+: pending s ++ d
  status : r.1 = .fatal ↔ ∃ e ∈ r.2.2.1, e.bad
  resumes : ∀ S t, pending s ++ d <+: S.drop t → Resumes S t r.2.2.1
  offers : ∀ e ∈ r.2.2.1, ∀ c ∈ e.offer, c ∈ pending s ++ d
  pend : ∀ c ∈ pending r.2.1, c ∈ pending s ++ d
  full : 0 < s.bufSize → (∀ e ∈ r.2.2.1, e.ret = e.offer.length) → ∀ e ∈ r.2.2.1, e.offer.length = s.bufSize

theorem writeTail_spec {σ : Type} (W : Writer σ) (w : σ) (s : CState) (d : List Cell)
    (hi : Inv s) (hb : 0 < s.bufSize) (h0 : s.fill = 0 ∨ d = []) :
    WriteSpec s d (writeTail W w s d) := by
  have hw : WInv s := hi.1
  have hT := directLoop_taken W w s.bufSize d
  have hR := directLoop_rem W w s.bufSize d
  have hRes := directLoop_resumes W w s.bufSize d
  have hSt := directLoop_status W w s.bufSize d
  have hOf := directLoop_offers W w s.bufSize d
  unfold writeTail
  simp only []
  generalize directLoop W w s.bufSize d = r at *
  obtain ⟨ok, rem, evs, w'⟩ := r
  simp only [] at *
  have hres : ∀ S t, pending s ++ d <+: S.drop t → Resumes S t evs := by
    intro S t h
    rcases h0 with h0 | h0
    · have : pending s = [] := by simp [pending, h0]
      rw [this, List.nil_append] at h
      exact hRes S t h
    · subst h0
      have : evs = [] := by
        cases evs with
        | nil => rfl
        | cons e r =>
          have h1 := (hOf e (by simp)).1
          have h2 := (hOf e (by simp)).2
          cases ho : e.offer with
          | nil => rw [ho] at h1; simp at h1; omega
          | cons c cs => have := h2 c (by simp [ho]); simp at this
      rw [this]; trivial
  have hpre : taken evs <+: pending s ++ d := by
    rcases h0 with h0 | h0
    · have : pending s = [] := by simp [pending, h0]
      rw [this, List.nil_append, ← hT]; exact List.prefix_append _ _
    · subst h0; simp only [List.append_eq_nil_iff] at hT; rw [hT.1]; exact List.nil_prefix
  have hoff : ∀ e ∈ evs, ∀ c ∈ e.offer, c ∈ pending s ++ d := fun e he c hc =>
    List.mem_append_right _ ((hOf e he).2 c hc)
  have hfull : 0 < s.bufSize → (∀ e ∈ evs, e.ret = e.offer.length) → ∀ e ∈ evs, e.offer.length = s.bufSize :=
    fun _ _ e he => (hOf e he).1
  cases ok with
  | false =>
    simp only [if_true]
    refine ⟨by simp, hw, rfl, by simp, hpre, ?_, hres, hoff, ?_, hfull⟩
    · simpa using hSt
    · intro c hc; exact List.mem_append_left _ hc
  | true =>
    have hnb : ¬ ∃ e ∈ evs, e.bad := by
      intro h; have := hSt.mpr h; cases this
    have hrem := hR rfl
    simp only [Bool.true_eq_false, if_false]
    split
    · rename_i hpos
      have hfill : s.fill = 0 := by
        rcases h0 with h0 | h0
        · exact h0
        · subst h0; simp only [List.append_eq_nil_iff] at hT; rw [hT.2] at hpos; simp at hpos
      have hp : pending s = [] := by simp [pending, hfill]
      have hle : s.fill + rem.length ≤ s.buf.length := by simp only [CState.bufSize] at hrem; omega
      rw [poke_eq_some hle]
      simp only []
      have hlen : (List.take s.fill s.buf ++ rem ++ List.drop (s.fill + rem.length) s.buf).length = s.buf.length := by
        simp only [List.length_append, List.length_take, List.length_drop]; omega
      refine ⟨by simp, ?_, ?_, ?_, hpre, ?_, hres, hoff, ?_, hfull⟩
      · simp only [WInv, CState.bufSize, hlen]; exact hle
      · simp only [CState.bufSize, hlen]
      · intro _
        refine ⟨⟨?_, ?_⟩, ?_⟩
        · simp only [CState.bufSize, hlen]; exact hle
        · intro _; simp only [CState.bufSize, hlen]; simp only [CState.bufSize] at hrem; omega
        · simp only [pending, hfill, List.take_zero, List.nil_append, Nat.zero_add, List.drop_zero]
          rw [List.take_left' rfl]; exact hT
      · constructor
        · intro h; cases h
        · intro h; exact absurd h hnb
      · intro c hc
        simp only [pending, hfill, List.take_zero, List.nil_append, Nat.zero_add] at hc
        rw [List.take_left' rfl] at hc
        rw [← hT]; simp only [hp, List.nil_append]; exact List.mem_append_right _ hc
    · rename_i hz
      have hrem0 : rem = [] := by
        cases rem with
        | nil => rfl
        | cons a b => simp at hz
      subst hrem0
      simp only [List.append_nil] at hT
      refine ⟨by simp, hw, rfl, ?_, hpre, ?_, hres, hoff, ?_, hfull⟩
      · intro _
        refine ⟨hi, ?_⟩
        rw [hT]
        rcases h0 with h0 | h0
        · simp [pending, h0]
        · subst h0; simp
      · constructor
        · intro h; cases h
        · intro h; exact absurd h hnb
      · intro c hc; exact List.mem_append_left _ hc

theorem clientWrite_spec {σ : Type} (W : Writer σ) (w : σ) (s : CState) (d : List Cell)
    (hw : WInv s) : WriteSpec s d (clientWrite W w s d) := by
  unfold clientWrite
  by_cases hb : s.bufSize = 0
  · -- pass-through
    simp only [hb, if_true]
    have hfill : s.fill = 0 := by simp only [WInv] at hw; omega
    have hp : pending s = [] := by simp [pending, hfill]
    have hT := flushLoop_taken W w d
    have hSt := flushLoop_status W w d
    have hRes := flushLoop_resumes W w d
    have hOf := flushLoop_offers W w d
    generalize flushLoop W w d = r at *
    obtain ⟨ok, evs, w'⟩ := r
    simp only [] at *
    refine ⟨by cases ok <;> simp, hw, rfl, ?_, by rw [hp]; exact hT.1, ?_, ?_, ?_, ?_, fun h => absurd h (by omega)⟩
    · intro h
      have hok : ok = true := by cases ok <;> simp_all
      refine ⟨⟨hw, fun h => absurd (show 0 < s.bufSize from h) (by omega)⟩, ?_⟩
      rw [hp, hT.2 hok]; simp [pending, hfill]
    · rw [← hSt]; cases ok <;> simp
    · intro S t h; rw [hp] at h; exact hRes S t h
    · intro e he c hc; rw [hp]; exact hOf e he c hc
    · intro c hc; exact List.mem_append_left _ hc
  · have hbpos : 0 < s.bufSize := by omega
    simp only [hb, if_false]
    by_cases hf : s.bufSize - s.fill < s.bufSize
    · simp only [hf, if_true]
      have hfpos : 0 < s.fill := by omega
      -- the bytes copied into the buffer
      generalize htc : (if d.length > s.bufSize - s.fill then s.bufSize - s.fill else d.length) = toCopy
      have htc1 : toCopy ≤ s.bufSize - s.fill := by rw [← htc]; split <;> omega
      have htc2 : toCopy ≤ d.length := by rw [← htc]; split <;> omega
      have hlt : (d.take toCopy).length = toCopy := by simp only [List.length_take]; omega
      have hle : s.fill + (d.take toCopy).length ≤ s.buf.length := by
        rw [hlt]; simp only [WInv, CState.bufSize] at hw htc1; omega
      have hpk := poke_eq_some hle
      generalize hbdef : s.buf.take s.fill ++ d.take toCopy ++ s.buf.drop (s.fill + (d.take toCopy).length) = b at hpk
      rw [hpk]
      simp only []
      have hblen : b.length = s.buf.length := poke_length hpk
      have hbtake : b.take (s.fill + toCopy) = pending s ++ d.take toCopy := by
        have := poke_take hpk; rwa [hlt] at this
      have hsplit : pending s ++ d = (pending s ++ d.take toCopy) ++ d.drop toCopy := by
        rw [List.append_assoc, List.take_append_drop]
      by_cases hfull : s.bufSize - s.fill - toCopy = 0
      · -- the buffer is full: flush it
        simp only [hfull, if_true]
        have hfl : s.fill + toCopy = b.length := by
          simp only [WInv, CState.bufSize] at hw htc1 hfull; omega
        have hball : b.take b.length = pending s ++ d.take toCopy := by rw [← hfl]; exact hbtake
        have hb' : b = pending s ++ d.take toCopy := by rw [← hball, List.take_length]
        have hT := flushLoop_taken W w (b.take b.length)
        have hSt := flushLoop_status W w (b.take b.length)
        have hRes := flushLoop_resumes W w (b.take b.length)
        have hOf := flushLoop_offers W w (b.take b.length)
        have hFl := flushLoop_full W w (b.take b.length)
        generalize flushLoop W w (b.take b.length) = r at *
        obtain ⟨ok, evs, w'⟩ := r
        simp only [] at *
        cases ok with
        | false =>
          simp only [if_true]
          refine ⟨by simp, ?_, ?_, by simp, ?_, ?_, ?_, ?_, ?_, ?_⟩
          · simp only [WInv, CState.bufSize]; omega
          · simp only [CState.bufSize, hblen]
          · rw [hsplit]; exact hT.1.trans (by rw [hball]; exact List.prefix_append _ _)
          · simpa using hSt
          · intro S t h
            apply hRes S t
            rw [hball]; rw [hsplit] at h
            exact (List.prefix_append _ _).trans h
          · intro e he c hc
            have := hOf e he c hc
            rw [hball] at this; rw [hsplit]; exact List.mem_append_left _ this
          · intro c hc
            simp only [pending] at hc ⊢
            rw [hbtake] at hc
            show c ∈ pending s ++ d
            rw [hsplit]; exact List.mem_append_left _ hc
          · intro _ hall e he
            rw [hFl hall] at he
            split at he
            · simp at he
            · simp only [List.mem_singleton] at he; subst he
              simp only [List.length_take, CState.bufSize, hblen]; omega
        | true =>
          have hnb : ¬ ∃ e ∈ evs, e.bad := by
            intro h; have := hSt.mpr h; cases this
          have hte : taken evs = pending s ++ d.take toCopy := by rw [hT.2 rfl, hball]
          simp only [Bool.true_eq_false, if_false]
          have hts := writeTail_spec W w' { buf := b, fill := 0 } (d.drop toCopy)
            ⟨by simp [CState.bufSize], fun h => h⟩ (by simp only [CState.bufSize, hblen]; exact hbpos) (Or.inl rfl)
          have hp2 : pending ({ buf := b, fill := 0 } : CState) = [] := by simp [pending]
          generalize writeTail W w' { buf := b, fill := 0 } (d.drop toCopy) = tr at *
          obtain ⟨tst, ts, tevs, tw⟩ := tr
          obtain ⟨t1, t2, t3, t4, t5, t6, t7, t8, t9, t10⟩ := hts
          simp only [hp2, List.nil_append] at *
          refine ⟨t1, t2, ?_, ?_, ?_, ?_, ?_, ?_, ?_, ?_⟩
          · rw [t3]; simp only [CState.bufSize, hblen]
          · intro h
            refine ⟨(t4 h).1, ?_⟩
            rw [taken_append, List.append_assoc, (t4 h).2, hte, hsplit]
          · rw [taken_append, hte, hsplit]
            exact (List.prefix_append_right_inj _).mpr t5
          · rw [t6]
            constructor
            · rintro ⟨e, he, hbad⟩; exact ⟨e, List.mem_append_right _ he, hbad⟩
            · rintro ⟨e, he, hbad⟩
              rcases List.mem_append.mp he with he | he
              · exact absurd ⟨e, he, hbad⟩ hnb
              · exact ⟨e, he, hbad⟩
          · intro S t h
            rw [hsplit] at h
            apply Resumes.append
            · apply hRes S t; rw [hball]; exact (List.prefix_append _ _).trans h
            · apply t7
              rw [hte, ← List.drop_drop]
              obtain ⟨x, hx⟩ := h
              rw [← hx, List.append_assoc, List.drop_left]
              exact List.prefix_append _ _
          · intro e he c hc
            rw [hsplit]
            rcases List.mem_append.mp he with he | he
            · have := hOf e he c hc
              rw [hball] at this; exact List.mem_append_left _ this
            · exact List.mem_append_right _ (t8 e he c hc)
          · intro c hc; rw [hsplit]; exact List.mem_append_right _ (t9 c hc)
          · intro _ hall e he
            rcases List.mem_append.mp he with he | he
            · rw [hFl (fun e he => hall e (List.mem_append_left _ he))] at he
              split at he
              · simp at he
              · simp only [List.mem_singleton] at he; subst he
                simp only [List.length_take, CState.bufSize, hblen]; omega
            · have := t10 (by simp only [CState.bufSize, hblen]; exact hbpos)
                (fun e he => hall e (List.mem_append_right _ he)) e he
              rw [this]; simp only [CState.bufSize, hblen]
      · -- the data ran out before the buffer was full
        simp only [hfull, if_false]
        have htc3 : toCopy = d.length := by
          rw [← htc] at hfull ⊢
          split
          · rename_i h; rw [if_pos h] at hfull; omega
          · rfl
        have hd1 : d.take toCopy = d := by rw [htc3]; exact List.take_length
        have hd2 : d.drop toCopy = [] := by rw [htc3]; exact List.drop_length
        rw [hd2]
        have hts := writeTail_spec W w { buf := b, fill := s.fill + toCopy } []
          ⟨by simp only [WInv, CState.bufSize] at hw htc1 ⊢; omega,
           fun _ => by simp only [WInv, CState.bufSize] at hw htc1 hfull ⊢; omega⟩
          (by simp only [CState.bufSize, hblen]; exact hbpos) (Or.inr rfl)
        have hp2 : pending ({ buf := b, fill := s.fill + toCopy } : CState) = pending s ++ d := by
          show List.take (s.fill + toCopy) b = pending s ++ d
          rw [hbtake, hd1]
        generalize writeTail W w { buf := b, fill := s.fill + toCopy } [] = tr at *
        obtain ⟨tst, ts, tevs, tw⟩ := tr
        obtain ⟨t1, t2, t3, t4, t5, t6, t7, t8, t9, t10⟩ := hts
        simp only [hp2, List.append_nil] at *
        refine ⟨t1, t2, ?_, t4, t5, t6, t7, t8, t9, ?_⟩
        · rw [t3]; simp only [CState.bufSize, hblen]
        · intro _ hall e he
          have := t10 (by simp only [CState.bufSize, hblen]; exact hbpos) hall e he
          rw [this]; simp only [CState.bufSize, hblen]
    · simp only [hf, if_false]
      have hfill : s.fill = 0 := by simp only [WInv] at hw; omega
      exact writeTail_spec W w s d ⟨hw, by omega⟩ hbpos (Or.inl hfill)

/-! ### close -/

/-- Number of zero bytes `archive_write_client_close` appends to `fill` pending bytes. -/
def padLen (bpb : Nat) (bil : Int) (fill : Nat) : Nat :=
  if fill = 0 then 0 else lastBlockLen bpb bil fill - fill

theorem lastBlockTarget_le (bpb : Nat) (bil : Int) (n : Nat) : lastBlockTarget bpb bil n ≤ bpb := by
  unfold lastBlockTarget; simp only []
  split
  · split <;> omega
  · split <;> omega

theorem lastBlockLen_ge (bpb : Nat) (bil : Int) (n : Nat) : n ≤ lastBlockLen bpb bil n := by
  unfold lastBlockLen; split <;> omega

theorem lastBlockLen_le (bpb : Nat) (bil : Int) (n : Nat) (h : n ≤ bpb) : lastBlockLen bpb bil n ≤ bpb := by
  unfold lastBlockLen; have := lastBlockTarget_le bpb bil n; split <;> omega

/-- The last block as handed to the callback: the pending bytes and the zero fill. -/
def lastBlock (s : CState) (bpb : Nat) (bil : Int) : List Cell :=
  pending s ++ List.replicate (padLen bpb bil s.fill) (some 0)

/-- What `archive_write_client_close` guarantees. -/
structure CloseSpec {σ : Type} (s : CState) (bpb : Nat) (bil : Int) (r : St × List Event × σ) : Prop where
  not_oob : r.1 ≠ .oob
  ok : r.1 = .ok → taken r.2.1 = lastBlock s bpb bil
  pre : taken r.2.1 <+: lastBlock s bpb bil
  status : r.1 = .fatal ↔ ∃ e ∈ r.2.1, e.bad
  resumes : ∀ S t, lastBlock s bpb bil <+: S.drop t → Resumes S t r.2.1
  offers : ∀ e ∈ r.2.1, ∀ c ∈ e.offer, c ∈ lastBlock s bpb bil
  full : (∀ e ∈ r.2.1, e.ret = e.offer.length) →
    r.2.1 = if s.fill = 0 then [] else [⟨lastBlock s bpb bil, (lastBlock s bpb bil).length⟩]
  none : s.fill = 0 → r.2.1 = []

theorem clientClose_spec {σ : Type} (W : Writer σ) (w : σ) (s : CState) (bpb : Nat) (bil : Int)
    (hw : WInv s) (hbpb : bpb = s.bufSize) : CloseSpec s bpb bil (clientClose W w s bpb bil) := by
  unfold clientClose
  by_cases hf : s.fill = 0
  · simp only [hf, ne_eq, not_true_eq_false, if_false]
    have hlb : lastBlock s bpb bil = [] := by simp [lastBlock, padLen, pending, hf]
    exact ⟨by simp, by simp [hlb], by simp, by simp, fun _ _ _ => trivial, by simp, by simp [hf], by simp⟩
  · simp only [hf, ne_eq, not_false_eq_true, if_true]
    have hbl : s.bufSize - (s.bufSize - s.fill) = s.fill := by simp only [WInv] at hw; omega
    rw [hbl]
    have htl := lastBlockTarget_le bpb bil s.fill
    have hlen_le := lastBlockLen_le bpb bil s.fill (by rw [hbpb]; exact hw)
    -- the padded buffer
    have hpad : ∃ b, (if s.fill < lastBlockTarget bpb bil s.fill then
          poke s.buf s.fill (List.replicate (lastBlockTarget bpb bil s.fill - s.fill) (some 0))
        else some s.buf) = some b ∧ b.length = s.buf.length ∧
        b.take (lastBlockLen bpb bil s.fill) = lastBlock s bpb bil := by
      by_cases hlt : s.fill < lastBlockTarget bpb bil s.fill
      · simp only [hlt, if_true]
        have hle : s.fill + (List.replicate (lastBlockTarget bpb bil s.fill - s.fill) (some (0:Nat))).length ≤ s.buf.length := by
          simp only [List.length_replicate, CState.bufSize] at *; omega
        refine ⟨_, poke_eq_some hle, poke_length (poke_eq_some hle), ?_⟩
        have h1 := poke_take (poke_eq_some hle)
        simp only [List.length_replicate] at h1 ⊢
        have h2 : lastBlockLen bpb bil s.fill = s.fill + (lastBlockTarget bpb bil s.fill - s.fill) := by
          unfold lastBlockLen; rw [if_pos hlt]; omega
        have h3 : padLen bpb bil s.fill = lastBlockTarget bpb bil s.fill - s.fill := by
          unfold padLen; rw [if_neg hf, h2]; omega
        rw [h2, h1, lastBlock, h3]; rfl
      · simp only [hlt, if_false]
        have h2 : lastBlockLen bpb bil s.fill = s.fill := by unfold lastBlockLen; rw [if_neg hlt]
        have h3 : padLen bpb bil s.fill = 0 := by unfold padLen; rw [if_neg hf, h2]; omega
        exact ⟨_, rfl, rfl, by rw [h2, lastBlock, h3]; simp [pending]⟩
    obtain ⟨b, hb1, hb2, hb3⟩ := hpad
    rw [hb1]
    simp only []
    have hlen : lastBlockLen bpb bil s.fill ≤ b.length := by
      rw [hb2]; simp only [CState.bufSize] at hbpb; omega
    simp only [hlen, if_true]
    rw [hb3]
    have hT := flushLoop_taken W w (lastBlock s bpb bil)
    have hSt := flushLoop_status W w (lastBlock s bpb bil)
    have hRes := flushLoop_resumes W w (lastBlock s bpb bil)
    have hOf := flushLoop_offers W w (lastBlock s bpb bil)
    have hFl := flushLoop_full W w (lastBlock s bpb bil)
    generalize flushLoop W w (lastBlock s bpb bil) = r at *
    obtain ⟨ok, evs, w'⟩ := r
    simp only [] at *
    have hne : (lastBlock s bpb bil).length ≠ 0 := by
      have : 0 < (pending s).length := by
        simp only [pending, List.length_take]; simp only [WInv, CState.bufSize] at hw; omega
      simp only [lastBlock, List.length_append]; omega
    refine ⟨by cases ok <;> simp, ?_, hT.1, ?_, hRes, hOf, ?_, fun h => absurd h hf⟩
    rotate_left 2
    · intro hall; rw [hFl hall, if_neg hne, if_neg hf]
    · intro h; apply hT.2; cases ok <;> simp_all
    · rw [← hSt]; cases ok <;> simp

/-! ### the events are the callback's successive answers -/

/-- `Threads W w evs w'`: starting from callback state `w`, the events `evs` are
exactly the callback's answers to the successive offers, and `w'` is its state
afterwards (nothing else touches the callback). -/
def Threads {σ : Type} (W : Writer σ) : σ → List Event → σ → Prop
  | w, [], w' => w' = w
  | w, e :: r, w' => e.ret = (W.ask w e.offer).1 ∧ Threads W (W.ask w e.offer).2 r w'

theorem Threads.append {σ : Type} {W : Writer σ} : ∀ {w a w1 b w2}, Threads W w a w1 → Threads W w1 b w2 →
    Threads W w (a ++ b) w2 := by
  intro w a
  induction a generalizing w with
  | nil => intro w1 b w2 h1 h2; simp only [Threads] at h1; subst h1; simpa using h2
  | cons e r ih => intro w1 b w2 ⟨h1, h2⟩ h3; exact ⟨h1, ih h2 h3⟩

/-- A property of the callback state that every invocation preserves holds afterwards. -/
theorem Threads.inv {σ : Type} {W : Writer σ} (P : σ → Prop) (hP : ∀ w o, P w → P (W.ask w o).2) :
    ∀ {w evs w'}, Threads W w evs w' → P w → P w' := by
  intro w evs
  induction evs generalizing w with
  | nil => intro w' h hp; simp only [Threads] at h; subst h; exact hp
  | cons e r ih => intro w' ⟨_, h2⟩ hp; exact ih h2 (hP _ _ hp)

theorem flushLoop_threads {σ : Type} (W : Writer σ) (w : σ) (p : List Cell) :
    Threads W w (flushLoop W w p).2.1 (flushLoop W w p).2.2 := by
  fun_induction flushLoop W w p with
  | case1 w p hp => rfl
  | case2 w p hp hr => exact ⟨rfl, rfl⟩
  | case3 w p hp hr t ih => exact ⟨rfl, ih⟩

theorem directLoop_threads {σ : Type} (W : Writer σ) (w : σ) (bs : Nat) (d : List Cell) :
    Threads W w (directLoop W w bs d).2.2.1 (directLoop W w bs d).2.2.2 := by
  fun_induction directLoop W w bs d with
  | case1 w d hd hr => exact ⟨rfl, rfl⟩
  | case2 w d hd hr t ih => exact ⟨rfl, ih⟩
  | case3 w d hd => rfl

theorem writeTail_threads {σ : Type} (W : Writer σ) (w : σ) (s : CState) (d : List Cell) :
    Threads W w (writeTail W w s d).2.2.1 (writeTail W w s d).2.2.2 := by
  have h := directLoop_threads W w s.bufSize d
  unfold writeTail
  simp only []
  split
  · exact h
  · split
    · split <;> exact h
    · exact h

theorem clientWrite_threads {σ : Type} (W : Writer σ) (w : σ) (s : CState) (d : List Cell) :
    Threads W w (clientWrite W w s d).2.2.1 (clientWrite W w s d).2.2.2 := by
  unfold clientWrite
  by_cases hb : s.bufSize = 0
  · simp only [hb, if_true]; exact flushLoop_threads W w d
  · simp only [hb, if_false]
    by_cases hf : s.bufSize - s.fill < s.bufSize
    · simp only [hf, if_true]
      generalize (if d.length > s.bufSize - s.fill then s.bufSize - s.fill else d.length) = toCopy
      cases poke s.buf s.fill (d.take toCopy) with
      | none => rfl
      | some b =>
        simp only []
        by_cases hfull : s.bufSize - s.fill - toCopy = 0
        · simp only [hfull, if_true]
          split
          · exact flushLoop_threads W w _
          · exact Threads.append (flushLoop_threads W w _) (writeTail_threads W _ _ _)
        · simp only [hfull, if_false]
          exact writeTail_threads W w _ _
    · simp only [hf, if_false]
      exact writeTail_threads W w s d

theorem clientClose_threads {σ : Type} (W : Writer σ) (w : σ) (s : CState) (bpb : Nat) (bil : Int) :
    Threads W w (clientClose W w s bpb bil).2.1 (clientClose W w s bpb bil).2.2 := by
  unfold clientClose
  split
  · simp only []
    split
    · rfl
    · split
      · exact flushLoop_threads W w _
      · rfl
  · rfl

/-- For the scripted callback: the `i`-th event carries the `i`-th answer of the
script, and the script is consumed one answer per invocation. -/
theorem Threads.script : ∀ {sc evs sc'}, Threads scriptWriter sc evs sc' →
    sc' = sc.drop evs.length ∧
    ∀ i (h : i < evs.length) (h2 : i < sc.length),
      evs[i].ret = (sc[i]).ret evs[i].offer.length := by
  intro sc evs
  induction evs generalizing sc with
  | nil => intro sc' h; simp only [Threads] at h; subst h; exact ⟨by simp, fun i h => absurd h (by simp)⟩
  | cons e r ih =>
    intro sc' ⟨h1, h2⟩
    cases sc with
    | nil =>
      have := ih h2
      simp only [scriptWriter, Writer.ask] at this
      exact ⟨by simpa using this.1, fun i _ h2 => absurd h2 (by simp)⟩
    | cons a rest =>
      have h3 := ih h2
      have hret : ∀ n, a.ret n ≤ n := by
        intro n
        cases a with
        | accept k =>
          simp only [Ans.ret]
          have : Nat.min k n ≤ n := Nat.min_le_right k n
          exact Int.ofNat_le.mpr this
        | zero => simp only [Ans.ret]; omega
        | error => simp only [Ans.ret]; omega
      have hask : (scriptWriter.ask (a :: rest) e.offer) = (a.ret e.offer.length, rest) := by
        simp only [Writer.ask, scriptWriter]
        have := hret e.offer.length
        have hn : ¬ (a.ret e.offer.length > (e.offer.length : Int)) := by omega
        simp only [hn, if_false]
      rw [hask] at h3 h1
      refine ⟨by simpa using h3.1, ?_⟩
      intro i hi hi2
      cases i with
      | zero => simpa using h1
      | succ j =>
        simp only [List.getElem_cons_succ]
        exact h3.2 j (by simpa using hi) (by simpa using hi2)

end LA.CW
