/-
Helper lemmas for `LA.Pm` (model of archive_pathmatch.c).
-/
import LA.Lemmas.PmEq
set_option linter.unusedSimpArgs false
namespace LA.Pm

/-! ### Reads and the small loops stay inside the string -/

theorem rd_isSome {s : List Nat} {i : Nat} (h : i ≤ s.length) : ∃ c, rd s i = some c := by
  unfold rd; split
  · exact ⟨_, rfl⟩
  · split
    · exact ⟨_, rfl⟩
    · omega

theorem rd_ne_none {s : List Nat} {i : Nat} (h : i ≤ s.length) : rd s i ≠ none := by
  obtain ⟨c, hc⟩ := rd_isSome h; simp [hc]

theorem rd_none_iff {s : List Nat} {i : Nat} : rd s i = none ↔ s.length < i := by
  unfold rd; split
  · simp; omega
  · split <;> simp <;> omega

/-- A read that succeeds is inside the string or at its terminator; a non-NUL one is inside. -/
theorem rd_some_lt {s : List Nat} {i c : Nat} (h : rd s i = some c) : c = 0 ∨ i < s.length := by
  by_cases hc : c = 0
  · exact .inl hc
  · exact .inr (rd_lt h hc)

theorem rd_some_le {s : List Nat} {i c : Nat} (h : rd s i = some c) : i ≤ s.length := rd_le h

theorem rd_len (s : List Nat) : rd s s.length = some 0 := by simp [rd]

@[simp] theorem Res.ofBool_ne_oob (b : Bool) : Res.ofBool b ≠ .oob := by
  cases b <;> simp [Res.ofBool]

theorem slashskip_le {s : List Nat} {i j : Nat} (h : slashskip s i = some j) : j ≤ s.length := by
  fun_induction slashskip s i <;> grind [→ rd_some_le]

theorem slashskip_ne_none {s : List Nat} {i : Nat} (h : i ≤ s.length) : slashskip s i ≠ none := by
  fun_induction slashskip s i <;> grind [rd_none_iff, rd_some_lt]

theorem skipStars_le {s : List Nat} {i j : Nat} (h : skipStars s i = some j) : j ≤ s.length := by
  fun_induction skipStars s i <;> grind [→ rd_some_le]

theorem skipStars_ne_none {s : List Nat} {i : Nat} (h : i ≤ s.length) : skipStars s i ≠ none := by
  fun_induction skipStars s i <;> grind [rd_none_iff, rd_some_lt]

theorem skipSlashes_le {s : List Nat} {i j : Nat} (h : skipSlashes s i = some j) : j ≤ s.length := by
  fun_induction skipSlashes s i <;> grind [→ rd_some_le]

theorem skipSlashes_ne_none {s : List Nat} {i : Nat} (h : i ≤ s.length) : skipSlashes s i ≠ none := by
  fun_induction skipSlashes s i <;> grind [rd_none_iff, rd_some_lt]

theorem classEnd_le {s : List Nat} {i j : Nat} (h : classEnd s i = some j) : j ≤ s.length := by
  fun_induction classEnd s i <;> grind [→ rd_some_le]

theorem classEnd_ne_none {s : List Nat} {i : Nat} (h : i ≤ s.length) : classEnd s i ≠ none := by
  fun_induction classEnd s i <;> grind [rd_none_iff, rd_some_lt]

theorem strchrSlash_ne_none {s : List Nat} {i : Nat} (h : i ≤ s.length) : strchrSlash s i ≠ none := by
  fun_induction strchrSlash s i <;> grind [rd_none_iff, rd_some_lt]

theorem strchrSlash_le {s : List Nat} {i j : Nat} (h : strchrSlash s i = some (some j)) : j ≤ s.length :=
  rd_le (strchrSlash_at h)

theorem dotSlash_le {s : List Nat} {i j : Nat} (h : dotSlash s i = some j) : j ≤ s.length := by
  unfold dotSlash at h
  grind [→ rd_some_le, → slashskip_le]

theorem dotSlash_ne_none {s : List Nat} {i : Nat} (h : i ≤ s.length) : dotSlash s i ≠ none := by
  unfold dotSlash
  grind [rd_none_iff, rd_some_lt, slashskip_ne_none]

theorem pmListLoop_ne_none (cfg : Cfg) (p : List Nat) (e c i rs : Nat) (he : e ≤ p.length) :
    pmListLoop cfg p e c i rs ≠ none := by
  fun_induction pmListLoop cfg p e c i rs <;> grind [rd_none_iff]

theorem pmList_ne_none (cfg : Cfg) (p : List Nat) (st e c : Nat) (hs : st ≤ e) (he : e ≤ p.length) :
    pmList cfg p st e c ≠ none := by
  unfold pmList
  split
  · exact absurd ‹_› (rd_ne_none (by omega))
  · split
    · simp [pmListLoop_ne_none cfg p e c _ _ he]
    · exact pmListLoop_ne_none cfg p e c _ _ he

theorem skipSlashes_isSome {s : List Nat} {i : Nat} (h : i ≤ s.length) : ∃ j, skipSlashes s i = some j :=
  Option.ne_none_iff_exists'.mp (skipSlashes_ne_none h)

theorem slashskip_isSome {s : List Nat} {i : Nat} (h : i ≤ s.length) : ∃ j, slashskip s i = some j :=
  Option.ne_none_iff_exists'.mp (slashskip_ne_none h)

/-! ### No read outside the strings -/

/-- "started inside both strings ⇒ the result is not `oob`" -/
abbrev Safe (f : Cfg → List Nat → List Nat → Flags → Nat → Nat → Res) (cfg : Cfg) (p s : List Nat) :
    Flags → Nat → Nat → Prop :=
  fun fl pi si => pi ≤ p.length → si ≤ s.length → f cfg p s fl pi si ≠ .oob

/-- The six functions of the matcher never read outside either string (repaired code). -/
theorem safe_all (cfg : Cfg) (hg : cfg.guardClass = true) (p s : List Nat) :
    (∀ fl pi si, Safe matchAt cfg p s fl pi si) ∧
    (∀ fl pi si, Safe matchBody cfg p s fl pi si) ∧
    (∀ fl pi si, Safe unanch cfg p s fl pi si) ∧
    (∀ fl pi si, Safe pm cfg p s fl pi si) ∧
    (∀ fl pi si, Safe pmLoop cfg p s fl pi si) ∧
    (∀ fl pi si, Safe star cfg p s fl pi si) := by
  apply matchAt.mutual_induct cfg p s (motive1 := Safe matchAt cfg p s) (motive2 := Safe matchBody cfg p s)
    (motive3 := Safe unanch cfg p s) (motive4 := Safe pm cfg p s) (motive5 := Safe pmLoop cfg p s)
    (motive6 := Safe star cfg p s)
  all_goals (intros; dsimp only [Safe] at *; intro hpi hsi)
  all_goals (first | rw [matchAt_eq] | rw [matchBody_eq] | rw [unanch_eq] | rw [pm_eq] | rw [pmLoop_eq] | rw [star_eq])
  all_goals (try simp only [*])
  all_goals (try (first
    | exact absurd ‹rd p _ = none› (rd_ne_none ‹_›)
    | exact absurd ‹rd s _ = none› (rd_ne_none ‹_›)))
  all_goals (try simp [*])
  all_goals (try (first
    | (obtain ⟨a, ha⟩ := skipSlashes_isSome hpi; obtain ⟨b, hb⟩ := skipSlashes_isSome hsi
       exact ‹∀ (pi2 si2 : Nat), skipSlashes p _ = some pi2 → skipSlashes s _ = some si2 → False› a b ha hb)
    | (obtain ⟨a, ha⟩ := slashskip_isSome hpi; obtain ⟨b, hb⟩ := slashskip_isSome hsi
       exact ‹∀ (pi2 si2 : Nat), slashskip p _ = some pi2 → slashskip s _ = some si2 → False› a b ha hb)))
  all_goals grind [rd_none_iff, rd_some_lt, → rd_some_le, → skipStars_le, skipStars_ne_none, → skipSlashes_le,
    skipSlashes_ne_none, → slashskip_le, slashskip_ne_none, → classEnd_le, classEnd_ne_none, → dotSlash_le,
    dotSlash_ne_none, strchrSlash_ne_none, → strchrSlash_le, pmList_ne_none, → classEnd_ge]

/-! ### Narrow and wide variants agree on 7-bit strings -/

theorem sext_small8 {v : Nat} (h : v < 128) : sext 8 v = v := by
  unfold sext
  have : v % 2 ^ 8 = v := Nat.mod_eq_of_lt (by omega)
  simp [this]; omega

theorem sext_small32 {v : Nat} (h : v < 128) : sext 32 v = v := by
  unfold sext
  have : v % 2 ^ 32 = v := Nat.mod_eq_of_lt (by omega)
  simp [this]; omega

def Ascii (s : List Nat) : Prop := ∀ c ∈ s, c < 128

theorem rd_ascii {s : List Nat} (h : Ascii s) {i c : Nat} (hr : rd s i = some c) : c < 128 := by
  unfold rd at hr
  split at hr
  · cases hr; exact h _ (List.getElem_mem _)
  · split at hr
    · cases hr; omega
    · cases hr

theorem narrow_key {v : Nat} (h : v < 128) : narrow.key v = v := sext_small8 h
theorem wide_key {v : Nat} (h : v < 128) : wide.key v = v := sext_small32 h

theorem pmListLoop_nw (p : List Nat) (hp : Ascii p) (e c i rs : Nat) (hc : c < 128) (hrs : rs < 128) :
    pmListLoop narrow p e c i rs = pmListLoop wide p e c i rs := by
  fun_induction pmListLoop narrow p e c i rs
  all_goals (rw [pmListLoop.eq_1 wide]; simp only [*, if_true, if_false])
  all_goals (try simp_all)
  all_goals grind [narrow_key, wide_key, → rd_ascii]

theorem pmList_nw (p s : List Nat) (hp : Ascii p) (hs : Ascii s) {si d : Nat} (h : rd s si = some d) (st e : Nat) :
    pmList wide p st e d = pmList narrow p st e d := by
  have hd := rd_ascii hs h
  unfold pmList
  split
  · rfl
  · simp only [pmListLoop_nw p hp e d _ 0 hd (by decide)]

@[simp] theorem narrow_guard : narrow.guardClass = true := rfl
@[simp] theorem wide_guard : wide.guardClass = true := rfl

abbrev NW (f : Cfg → List Nat → List Nat → Flags → Nat → Nat → Res) (p s : List Nat) : Flags → Nat → Nat → Prop :=
  fun fl pi si => f wide p s fl pi si = f narrow p s fl pi si

theorem nw_all (p s : List Nat) (hp : Ascii p) (hs : Ascii s) :
    (∀ fl pi si, NW matchAt p s fl pi si) ∧ (∀ fl pi si, NW matchBody p s fl pi si) ∧
    (∀ fl pi si, NW unanch p s fl pi si) ∧ (∀ fl pi si, NW pm p s fl pi si) ∧
    (∀ fl pi si, NW pmLoop p s fl pi si) ∧ (∀ fl pi si, NW star p s fl pi si) := by
  apply matchAt.mutual_induct narrow p s (motive1 := NW matchAt p s) (motive2 := NW matchBody p s)
    (motive3 := NW unanch p s) (motive4 := NW pm p s) (motive5 := NW pmLoop p s) (motive6 := NW star p s)
  all_goals (intros; dsimp only [NW] at *; try simp only [dite_eq_ite] at *)
  all_goals (first
    | rw [matchAt_eq, matchAt_eq narrow] | rw [matchBody_eq, matchBody_eq narrow] | rw [unanch_eq, unanch_eq narrow]
    | rw [pm_eq, pm_eq narrow] | rw [pmLoop_eq, pmLoop_eq narrow] | rw [star_eq, star_eq narrow])
  all_goals (try simp only [*])
  all_goals (try simp [*])
  all_goals (try simp [*, pmList_nw p s hp hs ‹rd s _ = some _›])
  all_goals simp_all

end LA.Pm
