/-
Lemmas about the shared uuencode / b64encode write skeleton (`LA.LineFilter`):
the bytes passed downstream depend only on the concatenation of the writes.
-/
import LA.Model.LineFilter
namespace LA.LineFilter

variable (c : Codec)

theorem encFull_eq (d : List Nat) :
    encFull c d = if c.lbytes ≤ d.length then
      (c.encLine (d.take c.lbytes) ++ (encFull c (d.drop c.lbytes)).1, (encFull c (d.drop c.lbytes)).2)
    else ([], d) := by
  rw [encFull]
  have : (c.lbytes ≤ (d.take c.lbytes).length) ↔ c.lbytes ≤ d.length := by
    rw [List.length_take]; omega
  by_cases h : c.lbytes ≤ d.length
  · have h' := this.mpr h
    simp only [h, h', dite_true, if_true]
  · have h' : ¬ c.lbytes ≤ (d.take c.lbytes).length := fun x => h (this.mp x)
    simp only [h, h', dite_false, if_false]

theorem encFull_short (d : List Nat) (h : d.length < c.lbytes) : encFull c d = ([], d) := by
  rw [encFull_eq]; simp; omega

theorem encFull_rem_lt (d : List Nat) : (encFull c d).2.length < c.lbytes := by
  induction hn : d.length using Nat.strongRecOn generalizing d with
  | _ n ih =>
    rw [encFull_eq]
    by_cases h : c.lbytes ≤ d.length
    · simp only [h, if_true]
      have := c.lpos
      exact ih (d.drop c.lbytes).length (by simp; omega) _ rfl
    · simp only [h, if_false]; omega

/-- `d` splits into the part that was encoded as full lines and the remainder. -/
theorem encFull_split (d : List Nat) :
    ∃ d1, d = d1 ++ (encFull c d).2 ∧ encFull c d1 = ((encFull c d).1, []) := by
  induction hn : d.length using Nat.strongRecOn generalizing d with
  | _ n ih =>
    by_cases h : c.lbytes ≤ d.length
    · have hp := c.lpos
      obtain ⟨d1, h1, h2⟩ := ih (d.drop c.lbytes).length (by simp; omega) _ rfl
      refine ⟨d.take c.lbytes ++ d1, ?_, ?_⟩
      · rw [encFull_eq c d]; simp only [h, if_true]
        rw [List.append_assoc, ← h1, List.take_append_drop]
      · rw [encFull_eq c d]; simp only [h, if_true]
        rw [encFull_eq c (d.take c.lbytes ++ d1)]
        have hl : (d.take c.lbytes).length = c.lbytes := by simp [List.length_take]; omega
        have h3 : c.lbytes ≤ (d.take c.lbytes ++ d1).length := by simp [hl]
        simp only [h3, if_true]
        rw [List.take_append_of_le_length (by omega), List.drop_append_of_le_length (by omega)]
        rw [List.take_of_length_le (by omega), List.drop_of_length_le (by omega)]
        simp [h2]
    · refine ⟨[], ?_, ?_⟩
      · rw [encFull_eq]; simp [h]
      · rw [encFull_eq c d]; simp only [h, if_false]
        rw [encFull_short c [] (by simpa using c.lpos)]

/-- Encoding after a part that consists of full lines only. -/
theorem encFull_append (p d : List Nat) (hp : (encFull c p).2 = []) :
    encFull c (p ++ d) = ((encFull c p).1 ++ (encFull c d).1, (encFull c d).2) := by
  induction hn : p.length using Nat.strongRecOn generalizing p with
  | _ n ih =>
    by_cases h : c.lbytes ≤ p.length
    · have hpos := c.lpos
      rw [encFull_eq c p] at hp ⊢
      simp only [h, if_true] at hp ⊢
      rw [encFull_eq c (p ++ d)]
      have h3 : c.lbytes ≤ (p ++ d).length := by simp; omega
      simp only [h3, if_true]
      rw [List.take_append_of_le_length h, List.drop_append_of_le_length h]
      rw [ih (p.drop c.lbytes).length (by simp; omega) _ hp rfl]
      simp
    · rw [encFull_eq c p] at hp
      simp only [h, if_false] at hp
      subst hp
      simp [encFull_short c [] (by simpa using c.lpos)]

theorem encFull_exact (d : List Nat) (h : d.length = c.lbytes) : encFull c d = (c.encLine d, []) := by
  rw [encFull_eq]
  have hp := c.lpos
  simp only [h, Nat.le_refl, if_true]
  rw [List.take_of_length_le (by omega), List.drop_of_length_le (by omega)]
  rw [encFull_short c [] (by simpa using hp)]
  simp

theorem encAll_eq (x : List Nat) :
    encAll c x = (encFull c x).1 ++ (if (encFull c x).2 = [] then [] else c.encLine (encFull c x).2) := by
  induction hn : x.length using Nat.strongRecOn generalizing x with
  | _ n ih =>
    rw [encAll, encFull_eq]
    by_cases h : c.lbytes ≤ x.length
    · have hp := c.lpos
      simp only [h, dite_true, if_true]
      rw [ih (x.drop c.lbytes).length (by simp; omega) _ rfl]
      simp
    · simp only [h, dite_false, if_false]
      simp

/-! the `bs` flush loop never changes what has been produced in total -/

theorem flushLoop_spec (bs : Nat) (buf : List Nat) :
    (flushLoop bs buf).2.flatten ++ (flushLoop bs buf).1 = buf := by
  induction hn : buf.length using Nat.strongRecOn generalizing buf with
  | _ n ih =>
    rw [flushLoop]
    by_cases h : 0 < bs ∧ bs ≤ buf.length
    · simp only [h, and_self, dite_true]
      have := ih (buf.drop bs).length (by simp; omega) _ rfl
      simp only [List.flatten_cons, List.append_assoc]
      rw [this, List.take_append_drop]
    · simp [h]

theorem flushLoop_blocks (bs : Nat) (buf : List Nat) : ∀ b ∈ (flushLoop bs buf).2, b.length = bs := by
  induction hn : buf.length using Nat.strongRecOn generalizing buf with
  | _ n ih =>
    rw [flushLoop]
    by_cases h : 0 < bs ∧ bs ≤ buf.length
    · simp only [h, and_self, dite_true]
      intro b hb
      simp only [List.mem_cons] at hb
      rcases hb with hb | hb
      · subst hb; simp [List.length_take]; omega
      · exact ih (buf.drop bs).length (by simp; omega) _ rfl b hb
    · simp [h]

/-- Total text produced so far: what went downstream plus what is still buffered. -/
def produced (s : WState) : List Nat := s.emitted.flatten ++ s.buf

def LenOk (s : WState) : Prop := s.blen = s.buf.length

theorem buf_append (s : WState) (t : List Nat) : (s.append t).buf = s.buf ++ t := by
  simp [WState.append, WState.buf]

theorem lenOk_append (s : WState) (t : List Nat) (h : LenOk s) : LenOk (s.append t) := by
  unfold LenOk at *; rw [buf_append]; simp [WState.append, h]

theorem flushBs_spec (bs : Nat) (s : WState) (h : LenOk s) :
    produced (flushBs bs s) = produced s ∧ (flushBs bs s).hold = s.hold ∧ LenOk (flushBs bs s) := by
  unfold flushBs
  by_cases hc : 0 < bs ∧ bs ≤ s.blen
  · simp only [hc, and_self, if_true]
    refine ⟨?_, ?_, ?_⟩
    · simp only [produced, WState.buf, List.reverse_cons, List.reverse_nil, List.nil_append,
        List.flatten_append, List.flatten_cons, List.flatten_nil, List.append_nil, List.append_assoc]
      have := flushLoop_spec bs s.pieces.reverse.flatten
      rw [this]
    · trivial
    · simp [LenOk, WState.buf]
  · simp only [hc, if_false]; exact ⟨trivial, trivial, h⟩

theorem encodeRest_spec (bs : Nat) (s : WState) (d : List Nat) (h : LenOk s) :
    produced (encodeRest c bs s d) = produced s ++ (encFull c d).1 ∧
    (encodeRest c bs s d).hold = (encFull c d).2 ∧ LenOk (encodeRest c bs s d) := by
  unfold encodeRest
  have hl : LenOk { s.append (encFull c d).1 with hold := (encFull c d).2 } := by
    have := lenOk_append s (encFull c d).1 h
    simpa [LenOk, WState.buf, WState.append] using this
  obtain ⟨a1, a2, a3⟩ := flushBs_spec bs _ hl
  refine ⟨?_, ?_, a3⟩
  · rw [a1]; simp [produced, WState.buf, WState.append]
  · rw [a2]

/-- Invariant of the write filter after the writes `W` (concatenated). -/
structure Inv (mode : Nat) (name : List Nat) (s : WState) (W : List Nat) : Prop where
  lenOk : LenOk s
  holdLt : s.hold.length < c.lbytes
  split : ∃ P, W = P ++ s.hold ∧ (encFull c P).2 = [] ∧ produced s = header c mode name ++ (encFull c P).1

theorem inv_open (mode : Nat) (name : List Nat) : Inv c mode name (open_ c mode name) [] := by
  refine ⟨?_, ?_, ⟨[], ?_, ?_, ?_⟩⟩
  · simp [LenOk, open_, WState.append, WState.buf]
  · simpa [open_, WState.append] using c.lpos
  · simp [open_, WState.append]
  · rw [encFull_short c [] (by simpa using c.lpos)]
  · rw [encFull_short c [] (by simpa using c.lpos)]
    simp [produced, open_, WState.append, WState.buf]

theorem inv_write (mode : Nat) (name : List Nat) (bs : Nat) (s : WState) (W d : List Nat)
    (hi : Inv c mode name s W) : Inv c mode name (write c bs s d) (W ++ d) := by
  obtain ⟨hl, hh, P, hW, hP, hprod⟩ := hi
  unfold write
  by_cases hd : d = []
  · subst hd; simp only [if_true, List.append_nil]; exact ⟨hl, hh, P, hW, hP, hprod⟩
  · simp only [hd, if_false]
    by_cases hhold : s.hold = []
    · -- no bytes held
      simp only [hhold, ne_eq, not_true_eq_false, if_false]
      obtain ⟨e1, e2, e3⟩ := encodeRest_spec c bs s d hl
      obtain ⟨d1, f1, f2⟩ := encFull_split c d
      refine ⟨e3, by rw [e2]; exact encFull_rem_lt c d, P ++ d1, ?_, ?_, ?_⟩
      · rw [e2, hW, hhold]; simp only [List.append_nil, List.append_assoc]; rw [← f1]
      · rw [encFull_append c P d1 hP, f2]
      · rw [e1, hprod, encFull_append c P d1 hP, f2]; simp
    · simp only [hhold, ne_eq, not_false_eq_true, if_true]
      by_cases hlt : (s.hold ++ d.take (min (c.lbytes - s.hold.length) d.length)).length < c.lbytes
      · -- still not a full line: everything went into `hold`
        simp only [hlt, if_true]
        have hk : min (c.lbytes - s.hold.length) d.length = d.length := by
          simp [List.length_take] at hlt
          omega
        refine ⟨hl, ?_, P, ?_, hP, hprod⟩
        · simpa using hlt
        · simp only [hk, List.take_length]; rw [hW, List.append_assoc]
      · simp only [hlt, if_false]
        -- `hold` filled up to exactly LBYTES
        have hk : (s.hold ++ d.take (min (c.lbytes - s.hold.length) d.length)).length = c.lbytes := by
          simp [List.length_take] at hlt ⊢
          omega
        generalize hk' : min (c.lbytes - s.hold.length) d.length = k at *
        have hl2 : LenOk { s.append (c.encLine (s.hold ++ d.take k)) with hold := [] } := by
          have := lenOk_append s (c.encLine (s.hold ++ d.take k)) hl
          simpa [LenOk, WState.buf, WState.append] using this
        obtain ⟨e1, e2, e3⟩ := encodeRest_spec c bs _ (d.drop k) hl2
        obtain ⟨d1, f1, f2⟩ := encFull_split c (d.drop k)
        have hPh : (encFull c (P ++ (s.hold ++ d.take k))).2 = [] ∧
            (encFull c (P ++ (s.hold ++ d.take k))).1 = (encFull c P).1 ++ c.encLine (s.hold ++ d.take k) := by
          rw [encFull_append c P _ hP, encFull_exact c _ hk]; simp
        refine ⟨e3, by rw [e2]; exact encFull_rem_lt c _, P ++ (s.hold ++ d.take k) ++ d1, ?_, ?_, ?_⟩
        · rw [e2, hW]
          simp only [List.append_assoc]
          rw [← f1, List.take_append_drop]
        · rw [encFull_append c _ d1 hPh.1, f2]
        · rw [e1, encFull_append c _ d1 hPh.1, f2, hPh.2]
          have : produced { s.append (c.encLine (s.hold ++ d.take k)) with hold := [] } =
              produced s ++ c.encLine (s.hold ++ d.take k) := by
            simp [produced, WState.buf, WState.append]
          rw [this, hprod]; simp

theorem inv_foldl (mode : Nat) (name : List Nat) (bs : Nat) (chunks : List (List Nat)) (s : WState) (W : List Nat)
    (hi : Inv c mode name s W) :
    Inv c mode name (chunks.foldl (write c bs) s) (W ++ chunks.flatten) := by
  induction chunks generalizing s W with
  | nil => simpa using hi
  | cons d rest ih =>
    simp only [List.foldl_cons, List.flatten_cons]
    rw [← List.append_assoc]
    exact ih _ _ (inv_write c mode name bs s W d hi)

theorem close_output (mode : Nat) (name : List Nat) (s : WState) (W : List Nat) (hi : Inv c mode name s W) :
    output (close c s) = encStream c mode name W := by
  obtain ⟨hl, hh, P, hW, hP, hprod⟩ := hi
  have hall : encAll c W = (encFull c P).1 ++ (if s.hold = [] then [] else c.encLine s.hold) := by
    rw [encAll_eq, hW, encFull_append c P s.hold hP, encFull_short c s.hold hh]
    simp
  unfold encStream
  rw [hall]
  unfold produced at hprod
  unfold close output
  by_cases hhold : s.hold = []
  · simp only [hhold, ne_eq, not_true_eq_false, if_false, if_true, List.append_nil]
    simp only [List.flatten_append, List.flatten_cons, List.flatten_nil, List.append_nil, buf_append]
    rw [← List.append_assoc, hprod]
  · simp only [hhold, ne_eq, not_false_eq_true, if_true, if_false]
    simp only [List.flatten_append, List.flatten_cons, List.flatten_nil, List.append_nil, buf_append]
    rw [← List.append_assoc, ← List.append_assoc, hprod]
    simp

/-- **Chunking independence**: what the filter writes is `encStream` of the
concatenation of the writes, for every `bytes_per_block`. -/
theorem run_output (bpb mode : Nat) (name : List Nat) (chunks : List (List Nat)) :
    output (run c bpb mode name chunks) = encStream c mode name chunks.flatten := by
  unfold run
  have := inv_foldl c mode name (blockSize c bpb) chunks _ [] (inv_open c mode name)
  simpa using close_output c mode name _ _ this

end LA.LineFilter
