/-
`__archive_read_filter_seek` as it was found (before the three `fix:` commits on archive_read.c),
kept next to the model of the repaired code so that the defects are stated and checked at the
model level as well:

* SEEK_SET / SEEK_CUR chose the data node with `begin_position + total_size - 1 > offset`
  (instead of `begin_position + total_size > offset`): the offset of the LAST byte of every
  node but the last was attributed to the following node, where `offset - begin_position`
  is -1, and the seek failed with ARCHIVE_FATAL although the target is inside the stream;
* SEEK_END walked back with `offset += total_size; if (cursor == 0) break;` (the size of the
  first node was added once too often for targets before the start of the stream) and had no
  range check at all: a target before the start landed `total_size[0]` bytes too far and
  succeeded; a target behind the end was handed to the seek callback and, with a file-like
  callback, gave a position behind the end.

Only the differing pieces are redefined; everything else is the model (LA/Model/ReadAhead.lean).
-/
import LA.Model.ReadAhead
namespace LA.RA.AsFound

/-- SEEK_SET as found: `- 1 > offset` is `> offset + 1` in both walks; the range check uses the
real offset. -/
def seekSet (s : State) (offset : Int) : Int × State :=
  match walkKnown (some (offset + 1)) (s.nodes.length - 1) 0 s with
  | .fail r s1 => (r, s1)
  | .at_ c s1 =>
    match walkProbe (some (offset + 1)) (s.nodes.length - 1 - c) c s1 with
    | .fail r s2 => (r, s2)
    | .at_ c s2 =>
      match s2.begins[c]? with
      | some b => seekIn s2 c (offset - b)
      | none => (oob, s2)

/-- Third walk of SEEK_END as found: `offset += total_size` before the test for the first node. -/
def walkBack (s : State) : Nat → Int → Int → Option (Nat × Int × Int)
  | 0, r, offset =>
    match s.begins[0]?, s.sizes[0]? with
    | some b, some sz => if r + offset ≥ b then some (0, r, offset) else some (0, r, offset + sz)
    | _, _ => none
  | c + 1, r, offset =>
    match s.begins[c + 1]?, s.sizes[c + 1]?, s.begins[c]?, s.sizes[c]? with
    | some b, some sz, some b', some sz' =>
      if r + offset ≥ b then some (c + 1, r, offset)
      else walkBack s c (b' + sz') (offset + sz)
    | _, _, _, _ => none

/-- The last step as found in the SEEK_END branch: no range check. -/
def seekInUnchecked (s : State) (c : Nat) (off : Int) : Int × State :=
  match s.begins[c]? with
  | some b =>
    let r := clientSeek (switchTo s c) .set off
    if r.1 < 0 then r else finishSeek r.2 (r.1 + b)
  | none => (oob, s)

def seekEnd (s : State) (offset : Int) : Int × State :=
  match walkKnown none (s.nodes.length - 1) 0 s with
  | .fail r s1 => (r, s1)
  | .at_ c s1 =>
    match walkProbe none (s.nodes.length - 1 - c) c s1 with
    | .fail r s2 => (r, s2)
    | .at_ c s2 =>
      match s2.begins[c]?, s2.sizes[c]? with
      | some b, some sz =>
        match walkBack s2 c (b + sz) offset with
        | some (c', r, off) =>
          match s2.begins[c']? with
          | some b' => seekInUnchecked s2 c' ((r + off) - b')
          | none => (oob, s2)
        | none => (oob, s2)
      | _, _ => (oob, s2)

end LA.RA.AsFound
