/-
Helper lemmas for C04, part 13: the process environment.  No call changes the
umask; the working directory is moved only by `chdir` inside
`edit_deep_directories` and is put back by `fchdir(restore_pwd)` before
`archive_write_header` returns — for pathnames of any length.
-/
import LA.Lemmas.XtrConfine
set_option linter.unusedSimpArgs false
set_option linter.unusedVariables false
namespace LA.Xtr
open LA.FS LA.PathClean

/-- Calls that neither move the process nor touch `restore_pwd`. -/
def Plain : Sys → Prop
  | .chdir _ | .rOpenCwd | .rFchdir | .rClose => False
  | _ => True

/-- Calls that leave `restore_pwd` alone (a `chdir` is one of them). -/
def KeepsRfd : Sys → Prop
  | .rOpenCwd | .rFchdir | .rClose => False
  | _ => True

theorem plain_keepsRfd {s : Sys} (h : Plain s) : KeepsRfd s := by
  cases s <;> first | trivial | exact h

theorem exec_umask (s : Sys) (pr : Proc) : (exec s pr).2.umask = pr.umask := by
  cases s <;> simp only [exec, doUnlink, fail] <;> (repeat' split) <;> first | rfl | simp

theorem exec_plain {s : Sys} (h : Plain s) (pr : Proc) :
    (exec s pr).2.cwd = pr.cwd ∧ (exec s pr).2.rfd = pr.rfd := by
  cases s <;> first
    | (exfalso; simpa [Plain] using h)
    | (simp only [exec, doUnlink, fail] <;> (repeat' split) <;> first | exact ⟨rfl, rfl⟩ | simp)

theorem exec_keepsRfd {s : Sys} (h : KeepsRfd s) (pr : Proc) : (exec s pr).2.rfd = pr.rfd := by
  cases s <;> first
    | (exfalso; simpa [KeepsRfd] using h)
    | (simp only [exec, doUnlink, fail] <;> (repeat' split) <;> first | rfl | simp)

theorem run_umask {α} (m : Prog α) (pr : Proc) : (m.run pr).2.umask = pr.umask := by
  induction m generalizing pr with
  | ret a => rfl
  | call s k ih => simp only [Prog.run]; rw [ih, exec_umask]

theorem run_plain {α} {m : Prog α} (h : AllCalls Plain m) (pr : Proc) :
    (m.run pr).2.cwd = pr.cwd ∧ (m.run pr).2.rfd = pr.rfd := by
  induction m generalizing pr with
  | ret a => exact ⟨rfl, rfl⟩
  | call s k ih =>
    simp only [Prog.run]
    have h1 := exec_plain h.1 pr
    have h2 := ih (exec s pr).1 (h.2 _) (exec s pr).2
    exact ⟨h2.1.trans h1.1, h2.2.trans h1.2⟩

theorem run_keepsRfd {α} {m : Prog α} (h : AllCalls KeepsRfd m) (pr : Proc) : (m.run pr).2.rfd = pr.rfd := by
  induction m generalizing pr with
  | ret a => rfl
  | call s k ih =>
    simp only [Prog.run]
    exact (ih (exec s pr).1 (h.2 _) (exec s pr).2).trans (exec_keepsRfd h.1 pr)

/-! ### the writer's programs are plain, except `edit_deep_directories` -/

theorem plain_checkLoop (fl : XFlags) (ln : Bool) : ∀ (l hd : List Name), AllCalls Plain (checkLoop fl ln hd l) := by
  intro l
  induction l with
  | nil => intro hd; rw [checkLoop]; trivial
  | cons c rest ih =>
    intro hd
    rw [checkLoop]
    allcalls
    iterate 6 (all_goals (first | exact ih _ | allcalls))

theorem plain_checkSymlinks (fl : XFlags) (ln : Bool) (q : List Nat) : AllCalls Plain (checkSymlinks fl ln q) := by
  unfold checkSymlinks
  split
  · trivial
  · refine allCalls_bind' (allCalls_sys trivial) (fun _ => ?_)
    refine allCalls_bind' (plain_checkLoop fl ln _ _) (fun _ => ?_)
    exact allCalls_bind' (allCalls_sys trivial) (fun _ => trivial)

theorem plain_createDir (fl : XFlags) (um : Nat) :
    ∀ (n : Nat) (p : List Nat), p.length = n → AllCalls Plain (createDir fl um p) := by
  intro n
  induction n using Nat.strongRecOn with
  | _ n ih =>
    intro p hn
    have hdb := dirBase_eq p
    rw [createDir]
    split
    rename_i slash base hdbe
    rw [hdbe] at hdb
    have hrec : ∀ d, slash = some d → AllCalls Plain (createDir fl um d) := by
      intro d hd
      subst hd
      simp only at hdb
      exact ih d.length (by rw [← hn, hdb.1]; simp) d rfl
    allcalls
    iterate 8 (all_goals (first | (rename_i d _ _; exact hrec d rfl) | allcalls))

theorem plain_createParentDir (fl : XFlags) (um : Nat) (name : List Nat) :
    AllCalls Plain (createParentDir fl um name) := by
  unfold createParentDir
  split
  · trivial
  · exact plain_createDir fl um _ _ rfl

theorem plain_createObject (fl : XFlags) (um : Nat) (e : Entry) (name : List Nat) (es : ES) :
    AllCalls Plain (createObject fl um e name es) := by
  unfold createObject
  allcalls
  iterate 8 (all_goals (first | exact plain_checkSymlinks _ _ _ | allcalls))

theorem plain_restoreEntry (fl : XFlags) (um : Nat) (e : Entry) (name : List Nat) (es : ES) :
    AllCalls Plain (restoreEntry fl um e name es) := by
  unfold restoreEntry
  allcalls
  iterate 12 (all_goals (first | exact plain_createObject _ _ _ _ _ | exact plain_createParentDir _ _ _ | allcalls))

theorem plain_writeData (w : Writer) (d : List Nat) : AllCalls Plain (writeData w d) := by
  unfold writeData
  allcalls

theorem plain_finishEntry (w : Writer) : AllCalls Plain (finishEntry w) := by
  unfold finishEntry
  allcalls
  iterate 6 (all_goals (first | allcalls))

theorem plain_applyFixup (fl : XFlags) (p : Fixup) : AllCalls Plain (applyFixup fl p) := by
  unfold applyFixup
  allcalls
  iterate 10 (all_goals (first | exact plain_checkSymlinks _ _ _ | allcalls))

theorem plain_applyFixups (fl : XFlags) : ∀ l, AllCalls Plain (applyFixups fl l) := by
  intro l
  induction l with
  | nil => trivial
  | cons p r ih => unfold applyFixups; exact allCalls_bind' (plain_applyFixup fl p) (fun _ => ih)

theorem plain_close (w : Writer) : AllCalls Plain (close w) := by
  unfold close
  refine allCalls_bind' (plain_finishEntry w) (fun r => ?_)
  exact allCalls_bind' (plain_applyFixups _ _) (fun _ => trivial)

theorem keepsRfd_editLoop (fl : XFlags) (um : Nat) :
    ∀ (n : Nat) (name : List Nat), name.length = n → AllCalls KeepsRfd (editLoop fl um name) := by
  intro n
  induction n using Nat.strongRecOn with
  | _ n ih =>
    intro name hn
    rw [editLoop]
    split
    · trivial
    · split
      · trivial
      · rename_i i hi
        have hpos := slashAtMost_pos name _ i hi
        have hp : pathMax = 4096 := rfl
        refine allCalls_bind' (allCalls_mono (fun s => plain_keepsRfd) (plain_createDir fl um _ _ rfl)) (fun x => ?_)
        refine allCalls_bind' ?_ (fun b => ?_)
        · split
          · exact allCalls_bind' (allCalls_sys trivial) (fun _ => trivial)
          · trivial
        · split
          · trivial
          · refine allCalls_bind' (ih _ ?_ _ rfl) (fun _ => trivial)
            simp only [List.length_drop]; omega

/-- The process stands in `X` and holds no `restore_pwd`. -/
def EnvOK (X : List Name) (pr : Proc) : Prop := pr.cwd = X ∧ pr.rfd = none

theorem triple_plain {α} {m : Prog α} (h : AllCalls Plain m) (P : List Name → Option (List Name) → Prop) :
    Triple (fun pr => P pr.cwd pr.rfd) m (fun _ pr' => P pr'.cwd pr'.rfd) := by
  intro pr hp
  have := run_plain h pr
  rw [this.1, this.2]; exact hp

theorem triple_keepsRfd {α} {m : Prog α} (h : AllCalls KeepsRfd m) (P : Option (List Name) → Prop) :
    Triple (fun pr => P pr.rfd) m (fun _ pr' => P pr'.rfd) := by
  intro pr hp
  rw [run_keepsRfd h pr]; exact hp

/-- `archive_write_header`, for a pathname of any length: the working directory is the same
afterwards (and no `restore_pwd` is left open). -/
theorem header_env (X : List Name) (w : Writer) (e : Entry) :
    Triple (EnvOK X) (header w e) (fun _ pr' => EnvOK X pr') := by
  have hpl : ∀ {α} {m : Prog α}, AllCalls Plain m → Triple (EnvOK X) m (fun _ pr' => EnvOK X pr') :=
    fun h => triple_plain h (fun c r => c = X ∧ r = none)
  unfold header
  simp only []
  split
  · rename_i name hcl
    refine triple_ite (fun _ => triple_pure (fun _ h => h)) (fun _ => ?_)
    refine triple_bind (hpl (allCalls_sys trivial)) (fun u => ?_)
    refine triple_bind (Q := fun _ pr' => EnvOK X pr') ?_ (fun chk => ?_)
    · split
      · exact hpl (plain_checkSymlinks _ _ _)
      · exact triple_pure (fun _ h => h)
    · refine triple_ite (fun _ => triple_pure (fun _ h => h)) (fun _ => ?_)
      cases hdeep : decide (name.length ≥ pathMax) with
      | false =>
        simp only [Bool.false_eq_true, if_false, prog_pure_bind]
        refine triple_bind (hpl (plain_restoreEntry _ _ _ _ _)) (fun r => ?_)
        exact triple_pure (fun _ h => h)
      | true =>
        simp only [if_true]
        -- restore_pwd = open("."), the chdir()s, restore_entry, fchdir(restore_pwd)
        refine triple_bind (Q := fun _ pr' => pr'.rfd = some X) ?_ (fun x => ?_)
        · refine triple_bind (Q := fun _ pr' => pr'.rfd = some X) ?_ (fun _ => ?_)
          · refine triple_sys ?_
            intro pr hp
            simp only [exec]; exact congrArg some hp.1
          · exact triple_keepsRfd (keepsRfd_editLoop _ _ _ _ rfl) (fun r => r = some X)
        · obtain ⟨name2, fxd⟩ := x
          simp only []
          refine triple_bind (Q := fun _ pr' => pr'.rfd = some X) ?_ (fun r => ?_)
          · exact triple_keepsRfd (allCalls_mono (fun s => plain_keepsRfd) (plain_restoreEntry _ _ _ _ _))
              (fun r => r = some X)
          · obtain ⟨ret, es⟩ := r
            simp only []
            refine triple_bind (Q := fun _ pr' => EnvOK X pr') ?_ (fun _ => triple_pure (fun _ h => h))
            refine triple_bind (Q := fun _ pr' => pr'.cwd = X ∧ pr'.rfd = some X) ?_ (fun r1 => ?_)
            · refine triple_sys ?_
              intro pr hp
              simp only [exec, hp]
              exact ⟨trivial, trivial⟩
            · refine triple_bind (Q := fun _ pr' => EnvOK X pr') ?_ (fun _ => triple_pure (fun _ h => h))
              refine triple_sys ?_
              intro pr hp
              simp only [exec]
              exact ⟨hp.1, rfl⟩
  · exact triple_pure (fun _ h => h)


theorem envOK_plain {α} {X : List Name} {m : Prog α} (h : AllCalls Plain m) :
    Triple (EnvOK X) m (fun _ pr' => EnvOK X pr') := triple_plain h (fun c r => c = X ∧ r = none)

theorem extractEntry_env (X : List Name) (w : Writer) (e : Entry) :
    Triple (EnvOK X) (extractEntry w e) (fun _ pr' => EnvOK X pr') := by
  unfold extractEntry
  refine triple_bind (header_env X w e) (fun r1 => ?_)
  obtain ⟨h, w1⟩ := r1
  simp only []
  refine triple_bind (Q := fun _ pr' => EnvOK X pr') ?_ (fun d => ?_)
  · exact triple_ite (fun _ => envOK_plain (plain_writeData _ _)) (fun _ => triple_pure (fun _ h => h))
  · exact triple_bind (envOK_plain (plain_finishEntry _)) (fun r2 => triple_pure (fun _ h => h))

theorem extractAll_env (X : List Name) : ∀ (es : List Entry) (w : Writer),
    Triple (EnvOK X) (extractAll w es) (fun _ pr' => EnvOK X pr') := by
  intro es
  induction es with
  | nil => intro w; exact triple_pure (fun _ h => h)
  | cons e es ih =>
    intro w
    unfold extractAll
    refine triple_bind (extractEntry_env X w e) (fun r1 => ?_)
    exact triple_bind (ih _) (fun r2 => triple_pure (fun _ h => h))

/-- A whole extraction, pathnames of any length: the process ends where it started. -/
theorem extractArchive_env (X : List Name) (fl : XFlags) (es : List Entry) :
    Triple (EnvOK X) (extractArchive fl es) (fun _ pr' => EnvOK X pr') := by
  unfold extractArchive
  refine triple_bind (extractAll_env X es _) (fun r => ?_)
  exact triple_bind (envOK_plain (plain_close _)) (fun r2 => triple_pure (fun _ h => h))

end LA.Xtr
