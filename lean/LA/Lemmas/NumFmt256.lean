/- Base-256 numeric fields: `format_256` against `tar_atol256` (C10). Core Lean only. -/
import LA.Lemmas.NumFmt
namespace LA.NumFmt

/-- The low `s` base-256 digits of `u`, most significant first. -/
def natBE : Nat → Nat → List Nat
  | _, 0 => []
  | u, s + 1 => (u / 256 ^ s % 256) :: natBE u s

theorem natBE_snoc (u s : Nat) : natBE u (s + 1) = natBE (u / 256) s ++ [u % 256] := by
  induction s with
  | zero => simp [natBE]
  | succ s ih =>
    rw [natBE, ih]
    simp only [natBE, List.cons_append]
    congr 2
    rw [Nat.div_div_eq_div_mul, Nat.pow_succ, Nat.mul_comm]

/-- Splitting off the lowest base-256 digit of `v mod 256^(s+1)` (floor division on `Int`). -/
theorem emod_pow_succ_256 (v : Int) (X : Nat) (hX : 0 < X) :
    (v % ((256 * X : Nat) : Int)).toNat / 256 = ((v / 256) % (X : Int)).toNat ∧
    (v % ((256 * X : Nat) : Int)).toNat % 256 = (v % 256).toNat := by
  have e1 := Int.mul_ediv_add_emod v 256
  have e2 := Int.mul_ediv_add_emod (v / 256) (X : Int)
  have r1 := Int.emod_nonneg v (by decide : (256 : Int) ≠ 0)
  have r2 := Int.emod_lt_of_pos v (by decide : (0 : Int) < 256)
  have hXi : (0 : Int) < (X : Int) := by omega
  have s1 := Int.emod_nonneg (v / 256) (by omega : (X : Int) ≠ 0)
  have s2 := Int.emod_lt_of_pos (v / 256) hXi
  have hc : ((256 * X : Nat) : Int) = 256 * (X : Int) := by rw [Int.natCast_mul]; rfl
  rw [hc]
  -- v = (256 X) * q2 + (256 r2 + r)
  have hv : v = (256 * (v / 256 % (X : Int)) + v % 256) + (256 * (X : Int)) * (v / 256 / (X : Int)) := by
    rw [Int.mul_assoc]; omega
  have hm : v % (256 * (X : Int)) = 256 * (v / 256 % (X : Int)) + v % 256 := by
    conv => lhs; rw [hv]
    rw [Int.add_mul_emod_self_left]
    apply Int.emod_eq_of_lt
    · omega
    · omega
  rw [hm]
  constructor <;> omega

theorem be256_eq_natBE (v : Int) (s : Nat) : be256 v s = natBE (v % ((256 ^ s : Nat) : Int)).toNat s := by
  induction s generalizing v with
  | zero => rfl
  | succ s ih =>
    rw [be256, natBE_snoc, ih]
    have hp : 0 < 256 ^ s := Nat.pow_pos (by decide)
    have hpow : (256 : Nat) ^ (s + 1) = 256 * 256 ^ s := by rw [Nat.pow_succ, Nat.mul_comm]
    obtain ⟨h1, h2⟩ := emod_pow_succ_256 v (256 ^ s) hp
    rw [hpow, h1, h2]

/-- `tar_atol256` on an 8-byte field: bit 6 of the first byte is the sign, bit 7 is ignored. -/
theorem tarAtol256_eight (b0 b1 b2 b3 b4 b5 b6 b7 : Nat)
    (_h0 : b0 < 256) (h1 : b1 < 256) (h2 : b2 < 256) (h3 : b3 < 256) (h4 : b4 < 256) (h5 : b5 < 256)
    (h6 : b6 < 256) (h7 : b7 < 256) :
    tarAtol256 [b0, b1, b2, b3, b4, b5, b6, b7]
      = if b0 / 64 % 2 = 1
        then ((((b0 % 128 + 128) * 72057594037927936 + b1 * 281474976710656 + b2 * 1099511627776 + b3 * 4294967296
                + b4 * 16777216 + b5 * 65536 + b6 * 256 + b7 : Nat) : Int) - 18446744073709551616)
        else (((b0 % 128) * 72057594037927936 + b1 * 281474976710656 + b2 * 1099511627776 + b3 * 4294967296
                + b4 * 16777216 + b5 * 65536 + b6 * 256 + b7 : Nat) : Int) := by
  unfold tarAtol256
  have hz : (0 + 1 + 1 + 1 + 1 + 1 + 1 + 1 + 1 - 8) = 0 := rfl
  simp only [List.length_cons, List.length_nil, hz, skipHigh, accum256, toI64]
  by_cases hneg : b0 / 64 % 2 = 1
  · simp only [hneg, decide_true, if_true]
    have hc : ¬(decide (b0 % 128 + 128 ≥ 128) ≠ true) := by simp
    rw [if_neg hc]
    split <;> omega
  · simp only [hneg, decide_false, if_false, Bool.false_eq_true]
    have hc : ¬(decide (b0 % 128 ≥ 128) ≠ false) := by simp; omega
    rw [if_neg hc]
    split <;> omega
theorem format256_8_eq (v : Int) :
    format256 v 8 =
      let u := (v % 18446744073709551616).toNat
      [u / 72057594037927936 % 256 % 128 + 128, u / 281474976710656 % 256, u / 1099511627776 % 256,
       u / 4294967296 % 256, u / 16777216 % 256, u / 65536 % 256, u / 256 % 256, u % 256] := by
  unfold format256
  rw [be256_eq_natBE]
  simp only [natBE, Nat.reducePow, Nat.div_one]
  rfl

theorem tarAtol_format256_8 (v : Int) (h1 : -4611686018427387904 ≤ v) (h2 : v < 4611686018427387904) :
    tarAtol (format256 v 8) = v := by
  rw [format256_8_eq]
  simp only []
  generalize hu : (v % 18446744073709551616).toNat = u
  have hu' : (u : Int) = v % 18446744073709551616 := by omega
  unfold tarAtol
  have hge : u / 72057594037927936 % 256 % 128 + 128 ≥ 128 := by omega
  simp only [if_pos hge]
  rw [tarAtol256_eight _ _ _ _ _ _ _ _ (by omega) (by omega) (by omega) (by omega) (by omega) (by omega) (by omega) (by omega)]
  split <;> omega

/-- In an 8-byte field the value 2^62 comes back as -2^62: the sign is taken from bit 62. -/
theorem format256_8_not_exact : tarAtol (format256 4611686018427387904 8) = -4611686018427387904 := by decide

theorem toI64_lo (n : Nat) (h : n < 9223372036854775808) : toI64 n = (n : Int) := by
  unfold toI64
  have : n % 18446744073709551616 = n := Nat.mod_eq_of_lt (by omega)
  simp only [this, if_pos h]

theorem toI64_hi (n : Nat) (h1 : 9223372036854775808 ≤ n) (h2 : n < 18446744073709551616) :
    toI64 n = (n : Int) - 18446744073709551616 := by
  unfold toI64
  have : n % 18446744073709551616 = n := Nat.mod_eq_of_lt h2
  simp only [this, if_neg (by omega : ¬ n < 9223372036854775808)]

/-- `tar_atol256` on a 12-byte field whose four high bytes are pure sign extension. -/
theorem tarAtol256_twelve_pos (b4 b5 b6 b7 b8 b9 b10 b11 : Nat)
    (h4 : b4 < 128) (h5 : b5 < 256) (h6 : b6 < 256) (h7 : b7 < 256) (h8 : b8 < 256) (h9 : b9 < 256)
    (h10 : b10 < 256) (h11 : b11 < 256) :
    tarAtol256 [128, 0, 0, 0, b4, b5, b6, b7, b8, b9, b10, b11]
      = ((b4 * 72057594037927936 + b5 * 281474976710656 + b6 * 1099511627776 + b7 * 4294967296
            + b8 * 16777216 + b9 * 65536 + b10 * 256 + b11 : Nat) : Int) := by
  unfold tarAtol256
  have hz : (0 + 1 + 1 + 1 + 1 + 1 + 1 + 1 + 1 + 1 + 1 + 1 + 1 - 8) = 4 := rfl
  simp only [List.length_cons, List.length_nil, hz, skipHigh]
  have hneg : ¬ (128 / 64 % 2 = 1) := by decide
  simp only [hneg, decide_false, if_false, Bool.false_eq_true, ne_eq, not_true_eq_false, Nat.reduceMod]
  have hc : ¬(decide (b4 ≥ 128) ≠ false) := by simp; omega
  rw [if_neg hc]
  simp only [accum256]
  rw [toI64_lo _ (by omega)]
  omega

theorem tarAtol256_twelve_neg (b4 b5 b6 b7 b8 b9 b10 b11 : Nat)
    (h4 : 128 ≤ b4) (h4' : b4 < 256) (h5 : b5 < 256) (h6 : b6 < 256) (h7 : b7 < 256) (h8 : b8 < 256) (h9 : b9 < 256)
    (h10 : b10 < 256) (h11 : b11 < 256) :
    tarAtol256 [255, 255, 255, 255, b4, b5, b6, b7, b8, b9, b10, b11]
      = ((b4 * 72057594037927936 + b5 * 281474976710656 + b6 * 1099511627776 + b7 * 4294967296
            + b8 * 16777216 + b9 * 65536 + b10 * 256 + b11 : Nat) : Int) - 18446744073709551616 := by
  unfold tarAtol256
  have hz : (0 + 1 + 1 + 1 + 1 + 1 + 1 + 1 + 1 + 1 + 1 + 1 + 1 - 8) = 4 := rfl
  simp only [List.length_cons, List.length_nil, hz, skipHigh]
  have hneg : (255 / 64 % 2 = 1) := by decide
  simp only [hneg, decide_true, if_true, ne_eq, not_true_eq_false, Nat.reduceMod, Nat.reduceAdd, if_false]
  have hc : ¬(decide (b4 ≥ 128) ≠ true) := by simp; omega
  rw [if_neg hc]
  simp only [accum256]
  rw [toI64_hi _ (by omega) (by omega)]
  omega

theorem format256_12_eq (v : Int) :
    format256 v 12 =
      let u := (v % 79228162514264337593543950336).toNat
      [u / 309485009821345068724781056 % 256 % 128 + 128, u / 1208925819614629174706176 % 256,
       u / 4722366482869645213696 % 256, u / 18446744073709551616 % 256,
       u / 72057594037927936 % 256, u / 281474976710656 % 256, u / 1099511627776 % 256,
       u / 4294967296 % 256, u / 16777216 % 256, u / 65536 % 256, u / 256 % 256, u % 256] := by
  unfold format256
  rw [be256_eq_natBE]
  simp only [natBE, Nat.reducePow, Nat.div_one]
  rfl

/-- A 12-byte base-256 field (the tar size field) holds every `int64_t` exactly. -/
theorem tarAtol_format256_12 (v : Int) (hv : isI64 v) : tarAtol (format256 v 12) = v := by
  obtain ⟨h1, h2⟩ := hv
  unfold I64_MIN at h1; unfold I64_MAX at h2
  rw [format256_12_eq]
  simp only []
  generalize hu : (v % 79228162514264337593543950336).toNat = u
  have hu' : (u : Int) = v % 79228162514264337593543950336 := by omega
  unfold tarAtol
  have hge : u / 309485009821345068724781056 % 256 % 128 + 128 ≥ 128 := by omega
  simp only [if_pos hge]
  by_cases hs : 0 ≤ v
  · have e0 : u / 309485009821345068724781056 % 256 % 128 + 128 = 128 := by omega
    have e1 : u / 1208925819614629174706176 % 256 = 0 := by omega
    have e2 : u / 4722366482869645213696 % 256 = 0 := by omega
    have e3 : u / 18446744073709551616 % 256 = 0 := by omega
    rw [e0, e1, e2, e3, tarAtol256_twelve_pos _ _ _ _ _ _ _ _ (by omega) (by omega) (by omega) (by omega) (by omega) (by omega) (by omega) (by omega)]
    omega
  · have e0 : u / 309485009821345068724781056 % 256 % 128 + 128 = 255 := by omega
    have e1 : u / 1208925819614629174706176 % 256 = 255 := by omega
    have e2 : u / 4722366482869645213696 % 256 = 255 := by omega
    have e3 : u / 18446744073709551616 % 256 = 255 := by omega
    rw [e0, e1, e2, e3, tarAtol256_twelve_neg _ _ _ _ _ _ _ _ (by omega) (by omega) (by omega) (by omega) (by omega) (by omega) (by omega) (by omega) (by omega)]
    omega

/-- The pax writer stores a negative mtime base-256 in 11 bytes (`USTAR_mtime_max_size`) of a
field the reader parses as 12 bytes: the terminating blank becomes the low byte. -/
theorem format256_11_in_12_not_exact : tarAtol (format256 (-1) 11 ++ [32]) = -224 := by decide

end LA.NumFmt
