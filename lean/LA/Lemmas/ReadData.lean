/-
Specification of `archive_read_data` over block scripts and the simulation
lemmas that tie `LA.RD.readLoop` to it (used by `LA.Props.C06`).

`image pos bl t` is what a reader that is at output offset `pos` still has to
deliver for the block list `bl` and the end offset `t` reported with EOF: every
hole zero-filled, up to the first block whose offset lies below the cursor
(`Ending.disorder`) or to the end (`Ending.eof`).
-/
import LA.Model.ReadData
namespace LA.RD

abbrev Block := Int × List Nat

/-- A well-behaved `read_data` result: ARCHIVE_OK with a block stored. -/
def evOfBlock (b : Block) : Ev := { st := .ok, out := some b }

def zeros (n : Nat) : List Nat := List.replicate n 0

@[simp] theorem zeros_length (n : Nat) : (zeros n).length = n := by simp [zeros]

inductive Ending | eof | disorder
  deriving DecidableEq, Repr

def image (pos : Int) : List Block → Option Int → List Nat × Ending
  | [], t => (zeros ((t.getD pos) - pos).toNat, .eof)
  | (o, bs) :: r, t =>
    if o < pos then ([], .disorder)
    else
      let x := image (o + bs.length) r t
      (zeros (o - pos).toNat ++ bs ++ x.1, x.2)

/-- Offset just after the last block (the cursor itself when there is none). -/
def endCursor (pos : Int) : List Block → Int
  | [] => pos
  | (o, bs) :: r => endCursor (o + bs.length) r

/-- Offsets increase and blocks do not overlap, starting at `pos`. -/
def Ordered (pos : Int) : List Block → Prop
  | [] => True
  | (o, bs) :: r => pos ≤ o ∧ Ordered (o + bs.length) r

theorem image_eof_iff (pos : Int) (bl : List Block) (t : Option Int) :
    (image pos bl t).2 = .eof ↔ Ordered pos bl := by
  induction bl generalizing pos with
  | nil => simp [image, Ordered]
  | cons b r ih =>
    obtain ⟨o, bs⟩ := b
    unfold image Ordered
    by_cases h : o < pos
    · simp [h]; omega
    · simp only [h, if_false]
      rw [ih]
      constructor
      · intro x; exact ⟨by omega, x⟩
      · intro x; exact x.2

/-- What the handle still has to deliver, as seen from its `read_data_*` members
and the blocks `bl` its format will still produce. -/
def pend (h : H) (bl : List Block) : List Nat × Ending :=
  if h.rd.off < h.rd.outOff then ([], .disorder)
  else
    let x := image (h.rd.off + h.rd.blk.length) bl h.term.off
    (zeros (h.rd.off - h.rd.outOff).toNat ++ h.rd.blk ++ x.1, x.2)

/-- The handle is inside the body of an entry whose remaining script is the
error-free block list `bl` followed by EOF, and the end offset reported with
EOF (if any) is not before the end of the data. -/
structure Inv (h : H) (bl : List Block) : Prop where
  st : h.state = .data
  evs : h.evs = bl.map evOfBlock
  term : h.term.st = .eof
  endOk : ∀ t, h.term.off = some t → endCursor (h.rd.off + h.rd.blk.length) bl ≤ t

theorem padLen_eq (rd : RDState) (s : Nat) (h : ¬ rd.off < rd.outOff) :
    padLen rd s = Nat.min s (rd.off - rd.outOff).toNat := by
  unfold padLen
  split
  · simp only [Nat.min_def]; split <;> omega
  · split
    · simp only [Nat.min_def]; split <;> omega
    · simp only [Nat.min_def]; split <;> omega

theorem take_gap (g : Nat) (blk x : List Nat) (n : Nat) (hn : n ≤ g) :
    (zeros g ++ blk ++ x).take n = zeros n ∧ (zeros g ++ blk ++ x).drop n = zeros (g - n) ++ blk ++ x := by
  constructor
  · rw [List.append_assoc, List.take_append_of_le_length (by simpa using hn)]
    simp [zeros, List.take_replicate, Nat.min_eq_left hn]
  · rw [List.append_assoc, List.drop_append_of_le_length (by simpa using hn)]
    simp [zeros, List.drop_replicate]

theorem take_blk (g : Nat) (blk x : List Nat) (j : Nat) (hj : j ≤ blk.length) :
    (zeros g ++ blk ++ x).take (g + j) = zeros g ++ blk.take j ∧
    (zeros g ++ blk ++ x).drop (g + j) = blk.drop j ++ x := by
  constructor
  · rw [List.append_assoc]
    have := List.take_length_add_append (l₁ := zeros g) (l₂ := blk ++ x) j
    simp only [zeros_length] at this
    rw [this, List.take_append_of_le_length hj]
  · rw [List.append_assoc]
    have := List.drop_length_add_append (l₁ := zeros g) (l₂ := blk ++ x) j
    simp only [zeros_length] at this
    rw [this, List.drop_append_of_le_length hj]

theorem padCopy_le (h : H) (s : Nat) (acc : List Nat) (hlt : ¬ h.rd.off < h.rd.outOff)
    (hs : s ≤ (h.rd.off - h.rd.outOff).toNat) :
    padCopy h s acc = .more { h with rd := { h.rd with outOff := h.rd.outOff + (s : Int) } } 0 (acc ++ zeros s) := by
  unfold padCopy
  have hp : padLen h.rd s = s := by rw [padLen_eq _ _ hlt]; exact Nat.min_eq_left hs
  simp only [hlt, if_false, hp, Nat.sub_self, Nat.lt_irrefl, zeros]

theorem padCopy_gt (h : H) (s : Nat) (acc : List Nat) (hlt : ¬ h.rd.off < h.rd.outOff)
    (hs : (h.rd.off - h.rd.outOff).toNat < s) :
    padCopy h s acc =
      .more { h with rd := { h.rd with
                blk := h.rd.blk.drop (Nat.min h.rd.blk.length (s - (h.rd.off - h.rd.outOff).toNat)),
                outOff := h.rd.outOff + ((h.rd.off - h.rd.outOff).toNat : Int) +
                  ((Nat.min h.rd.blk.length (s - (h.rd.off - h.rd.outOff).toNat) : Nat) : Int),
                off := h.rd.off + ((Nat.min h.rd.blk.length (s - (h.rd.off - h.rd.outOff).toNat) : Nat) : Int) } }
        (s - (h.rd.off - h.rd.outOff).toNat - Nat.min h.rd.blk.length (s - (h.rd.off - h.rd.outOff).toNat))
        (acc ++ zeros (h.rd.off - h.rd.outOff).toNat ++
          h.rd.blk.take (Nat.min h.rd.blk.length (s - (h.rd.off - h.rd.outOff).toNat))) := by
  unfold padCopy
  have hp : padLen h.rd s = (h.rd.off - h.rd.outOff).toNat := by
    rw [padLen_eq _ _ hlt]; exact Nat.min_eq_right (Nat.le_of_lt hs)
  have hpos : s - (h.rd.off - h.rd.outOff).toNat > 0 := by omega
  simp only [hlt, if_false, hp, hpos, if_true, zeros]

theorem padCopy_spec {h : H} {bl : List Block} (hi : Inv h bl) (s : Nat) (acc : List Nat) :
    (h.rd.off < h.rd.outOff ∧ padCopy h s acc = .done (.err .retry acc) h ∧ pend h bl = ([], .disorder)) ∨
    (¬ h.rd.off < h.rd.outOff ∧ ∃ h' s' k, padCopy h s acc = .more h' s' (acc ++ (pend h bl).1.take k) ∧
        k + s' = s ∧ k ≤ (pend h bl).1.length ∧ Inv h' bl ∧
        pend h' bl = ((pend h bl).1.drop k, (pend h bl).2)) := by
  by_cases hlt : h.rd.off < h.rd.outOff
  · left
    refine ⟨hlt, ?_, ?_⟩
    · unfold padCopy; simp [hlt]
    · unfold pend; simp [hlt]
  · right
    refine ⟨hlt, ?_⟩
    have hP : pend h bl = (zeros (h.rd.off - h.rd.outOff).toNat ++ h.rd.blk ++
        (image (h.rd.off + h.rd.blk.length) bl h.term.off).1,
        (image (h.rd.off + h.rd.blk.length) bl h.term.off).2) := by
      unfold pend; simp [hlt]
    by_cases hs : s ≤ (h.rd.off - h.rd.outOff).toNat
    · refine ⟨{ h with rd := { h.rd with outOff := h.rd.outOff + (s : Int) } }, 0, s, ?_, by omega, ?_, ?_, ?_⟩
      · rw [padCopy_le h s acc hlt hs, hP, (take_gap _ _ _ s hs).1]
      · rw [hP]; simp; omega
      · exact ⟨hi.st, hi.evs, hi.term, hi.endOk⟩
      · rw [hP]
        have hn : ¬ h.rd.off < h.rd.outOff + (s : Int) := by omega
        have hg : (h.rd.off - (h.rd.outOff + (s : Int))).toNat = (h.rd.off - h.rd.outOff).toNat - s := by omega
        simp only [pend, hn, if_false, hg, (take_gap _ _ _ s hs).2]
    · have hs' : (h.rd.off - h.rd.outOff).toNat < s := by omega
      have hj : Nat.min h.rd.blk.length (s - (h.rd.off - h.rd.outOff).toNat) ≤ h.rd.blk.length := Nat.min_le_left _ _
      have hj2 : Nat.min h.rd.blk.length (s - (h.rd.off - h.rd.outOff).toNat) ≤ s - (h.rd.off - h.rd.outOff).toNat :=
        Nat.min_le_right _ _
      refine ⟨{ h with rd := { h.rd with
                blk := h.rd.blk.drop (Nat.min h.rd.blk.length (s - (h.rd.off - h.rd.outOff).toNat)),
                outOff := h.rd.outOff + ((h.rd.off - h.rd.outOff).toNat : Int) +
                  ((Nat.min h.rd.blk.length (s - (h.rd.off - h.rd.outOff).toNat) : Nat) : Int),
                off := h.rd.off + ((Nat.min h.rd.blk.length (s - (h.rd.off - h.rd.outOff).toNat) : Nat) : Int) } },
        s - (h.rd.off - h.rd.outOff).toNat - Nat.min h.rd.blk.length (s - (h.rd.off - h.rd.outOff).toNat),
        (h.rd.off - h.rd.outOff).toNat + Nat.min h.rd.blk.length (s - (h.rd.off - h.rd.outOff).toNat),
        ?_, by omega, ?_, ?_, ?_⟩
      · rw [padCopy_gt h s acc hlt hs', hP, (take_blk _ _ _ _ hj).1, List.append_assoc]
      · rw [hP]; simp; omega
      · refine ⟨hi.st, hi.evs, hi.term, ?_⟩
        intro t ht
        have := hi.endOk t ht
        simp only [List.length_drop]
        have e : h.rd.off + ((Nat.min h.rd.blk.length (s - (h.rd.off - h.rd.outOff).toNat) : Nat) : Int) +
            ((h.rd.blk.length - Nat.min h.rd.blk.length (s - (h.rd.off - h.rd.outOff).toNat) : Nat) : Int)
            = h.rd.off + (h.rd.blk.length : Int) := by omega
        rw [e]; exact this
      · rw [hP]
        simp only [pend, List.length_drop]
        rw [(take_blk _ _ _ _ hj).2]
        have hn : ¬ (h.rd.off + ((Nat.min h.rd.blk.length (s - (h.rd.off - h.rd.outOff).toNat) : Nat) : Int) <
            h.rd.outOff + ((h.rd.off - h.rd.outOff).toNat : Int) +
              ((Nat.min h.rd.blk.length (s - (h.rd.off - h.rd.outOff).toNat) : Nat) : Int)) := by omega
        have hg : (h.rd.off + ((Nat.min h.rd.blk.length (s - (h.rd.off - h.rd.outOff).toNat) : Nat) : Int) -
            (h.rd.outOff + ((h.rd.off - h.rd.outOff).toNat : Int) +
              ((Nat.min h.rd.blk.length (s - (h.rd.off - h.rd.outOff).toNat) : Nat) : Int))).toNat = 0 := by omega
        have e : h.rd.off + ((Nat.min h.rd.blk.length (s - (h.rd.off - h.rd.outOff).toNat) : Nat) : Int) +
            ((h.rd.blk.length - Nat.min h.rd.blk.length (s - (h.rd.off - h.rd.outOff).toNat) : Nat) : Int)
            = h.rd.off + (h.rd.blk.length : Int) := by omega
        simp only [hn, if_false, hg, e, zeros, List.replicate_zero, List.nil_append]

/-- `pend` and `Inv` only look at the offsets, the current block, the state, the
script and its terminal. -/
theorem pend_congr {h h' : H} (bl : List Block) (h1 : h'.rd.off = h.rd.off) (h2 : h'.rd.outOff = h.rd.outOff)
    (h3 : h'.rd.blk = h.rd.blk) (h4 : h'.term = h.term) : pend h' bl = pend h bl := by
  unfold pend; rw [h1, h2, h3, h4]

theorem Inv_congr {h h' : H} {bl : List Block} (hi : Inv h bl) (h0 : h'.state = h.state) (he : h'.evs = h.evs)
    (h1 : h'.rd.off = h.rd.off) (h3 : h'.rd.blk = h.rd.blk) (h4 : h'.term = h.term) : Inv h' bl :=
  ⟨by rw [h0]; exact hi.st, by rw [he]; exact hi.evs, by rw [h4]; exact hi.term,
   by rw [h1, h3, h4]; exact hi.endOk⟩

theorem fetch_spec {h : H} {bl : List Block} (hi : Inv h bl)
    (hc : h.rd.off = h.rd.outOff ∧ h.rd.blk = []) (s : Nat) :
    (bl = [] ∧ ∃ h2, fetch h s = (.eof, h2) ∧ Inv h2 [] ∧ pend h2 [] = pend h [] ∧
        h2.rd.outOff ≤ h2.rd.off ∧ pend h2 [] = (zeros (h2.rd.off - h2.rd.outOff).toNat, .eof)) ∨
    (∃ b r, bl = b :: r ∧ ∃ h2, fetch h s = (.ok, h2) ∧ Inv h2 r ∧ pend h2 r = pend h bl) := by
  obtain ⟨hc1, hc2⟩ := hc
  cases bl with
  | nil =>
    left
    refine ⟨rfl, ?_⟩
    have hev : h.evs = [] := by rw [hi.evs]; rfl
    cases hto : h.term.off with
    | none =>
      refine ⟨{ h with rd := { h.rd with posix := true, requested := s } }, ?_, ?_, ?_, ?_, ?_⟩
      · simp [fetch, dataBlock, hi.st, hev, hi.term, TSt.toSt, hto, store]
      · exact Inv_congr hi rfl rfl rfl rfl rfl
      · exact pend_congr _ rfl rfl rfl rfl
      · simp; omega
      · have hn2 : ¬ h.rd.outOff < h.rd.outOff := by omega
        simp [pend, hn2, image, hto, hc2, hc1, zeros]
    | some t =>
      have hle := hi.endOk t hto
      simp only [endCursor, hc2, List.length_nil] at hle
      refine ⟨{ h with rd := { h.rd with posix := true, requested := s, off := t, blk := [] } }, ?_, ?_, ?_, ?_, ?_⟩
      · simp [fetch, dataBlock, hi.st, hev, hi.term, TSt.toSt, hto, store]
      · refine ⟨hi.st, hi.evs, hi.term, ?_⟩
        intro t' ht'
        simp only [hto, Option.some.injEq] at ht'
        subst ht'
        simp [endCursor]
      · have hn1 : ¬ t < h.rd.outOff := by omega
        have hn2 : ¬ h.rd.outOff < h.rd.outOff := by omega
        simp [pend, hn1, hn2, image, hto, hc2, hc1, zeros]
      · simp; omega
      · have hn1 : ¬ t < h.rd.outOff := by omega
        simp [pend, hn1, image, hto, zeros]
  | cons b r =>
    right
    obtain ⟨o, bs⟩ := b
    refine ⟨(o, bs), r, rfl, ?_⟩
    have hev : h.evs = evOfBlock (o, bs) :: r.map evOfBlock := by rw [hi.evs]; rfl
    refine ⟨{ h with rd := { h.rd with posix := true, requested := s, off := o, blk := bs },
                     evs := r.map evOfBlock, evpos := h.evpos + 1 }, ?_, ?_, ?_⟩
    · simp [fetch, dataBlock, hi.st, hev, evOfBlock, store]
    · refine ⟨hi.st, rfl, hi.term, ?_⟩
      intro t ht
      have := hi.endOk t ht
      simpa [endCursor, hc2] using this
    · have hn2 : ¬ h.rd.outOff < h.rd.outOff := by omega
      by_cases hlt : o < h.rd.outOff
      · simp [pend, hlt, hn2, image, hc2, hc1, zeros]
      · simp [pend, hlt, hn2, image, hc2, hc1, zeros]

theorem step_spec {h : H} {bl : List Block} (hi : Inv h bl) (s : Nat) (acc : List Nat) :
    (∃ h', step h s acc = .done (.ok acc) h' ∧ pend h bl = ([], .eof) ∧ Inv h' [] ∧ pend h' [] = ([], .eof)) ∨
    (∃ h' bl', step h s acc = .done (.err .retry acc) h' ∧ pend h bl = ([], .disorder) ∧ Inv h' bl' ∧
        pend h' bl' = ([], .disorder)) ∨
    (∃ h' s' k bl', step h s acc = .more h' s' (acc ++ (pend h bl).1.take k) ∧ k + s' = s ∧
        k ≤ (pend h bl).1.length ∧ Inv h' bl' ∧ pend h' bl' = ((pend h bl).1.drop k, (pend h bl).2)) := by
  by_cases hc : h.rd.off = h.rd.outOff ∧ h.rd.blk = []
  · rcases fetch_spec hi hc s with ⟨rfl, h2, hf, hi2, hp2, hge, hz⟩ | ⟨b, r, rfl, h2, hf, hi2, hp2⟩
    · by_cases hle : h2.rd.off ≤ h2.rd.outOff
      · left
        refine ⟨h2, ?_, ?_, hi2, ?_⟩
        · unfold step; simp [hc, hf, hle]
        · rw [← hp2, hz]
          have : (h2.rd.off - h2.rd.outOff).toNat = 0 := by omega
          simp [this, zeros]
        · rw [hz]
          have : (h2.rd.off - h2.rd.outOff).toNat = 0 := by omega
          simp [this, zeros]
      · right; right
        have hst : step h s acc = padCopy h2 s acc := by unfold step; simp [hc, hf, hle]
        rcases padCopy_spec hi2 s acc with ⟨hlt, _⟩ | ⟨_, h', s', k, he, h1, h2', h3, h4⟩
        · omega
        · refine ⟨h', s', k, [], ?_, h1, ?_, h3, ?_⟩
          · rw [hst, he, hp2]
          · rw [← hp2]; exact h2'
          · rw [h4, hp2]
    · have hst : step h s acc = padCopy h2 s acc := by unfold step; simp [hc, hf]
      rcases padCopy_spec hi2 s acc with ⟨_, he, hd⟩ | ⟨_, h', s', k, he, h1, h2', h3, h4⟩
      · right; left
        exact ⟨h2, r, by rw [hst, he], by rw [← hp2, hd], hi2, hd⟩
      · right; right
        refine ⟨h', s', k, r, ?_, h1, ?_, h3, ?_⟩
        · rw [hst, he, hp2]
        · rw [← hp2]; exact h2'
        · rw [h4, hp2]
  · have hst : step h s acc = padCopy h s acc := by unfold step; simp [hc]
    rcases padCopy_spec hi s acc with ⟨_, he, hd⟩ | ⟨_, h', s', k, he, h1, h2', h3, h4⟩
    · right; left
      exact ⟨h, bl, by rw [hst, he], hd, hi, hd⟩
    · right; right
      exact ⟨h', s', k, bl, by rw [hst, he], h1, h2', h3, h4⟩

/-- **Exact behaviour of `archive_read_data` on an error-free script.**  With
`(P, e) = pend h bl`: the call delivers the next `s` bytes of `P`; if `P` runs out
first it returns what is left (short count, end of data) when the blocks are in
order, and ARCHIVE_RETRY when a block lies below the output offset. -/
theorem readLoop_spec (h : H) (s : Nat) (acc : List Nat) (bl : List Block) (hi : Inv h bl) :
    ∃ h' bl', Inv h' bl' ∧
      readLoop h s acc =
        ((if s ≤ (pend h bl).1.length ∨ (pend h bl).2 = .eof then Ret.ok (acc ++ (pend h bl).1.take s)
          else Ret.err .retry (acc ++ (pend h bl).1)), h') ∧
      pend h' bl' = ((pend h bl).1.drop s, (pend h bl).2) := by
  fun_induction readLoop h s acc generalizing bl with
  | case1 h acc =>
    refine ⟨{ h with rd := { h.rd with posix := false, requested := 0 } }, bl,
      Inv_congr hi rfl rfl rfl rfl rfl, ?_, ?_⟩
    · simp
    · have := pend_congr (h := h) (h' := { h with rd := { h.rd with posix := false, requested := 0 } }) bl
        rfl rfl rfl rfl
      rw [this]; simp
  | case2 h s acc hs r h' hst =>
    rcases step_spec hi s acc with ⟨g, he, hp, hi', hp'⟩ | ⟨g, bl', he, hp, hi', hp'⟩ | ⟨g, s', k, bl', he, _⟩
    · rw [hst] at he; injection he with e1 e2; subst e1 e2
      exact ⟨_, [], hi', by simp [hp], by simp [hp, hp']⟩
    · rw [hst] at he; injection he with e1 e2; subst e1 e2
      refine ⟨_, bl', hi', ?_, by simp [hp, hp']⟩
      have : ¬ s ≤ 0 := by omega
      simp [hp, this]
    · rw [hst] at he; cases he
  | case3 h s acc hs h' s' acc' hst ih =>
    rcases step_spec hi s acc with ⟨g, he, _⟩ | ⟨g, bl', he, _⟩ | ⟨g, s'', k, bl', he, h1, h2, hi', hp'⟩
    · rw [hst] at he; cases he
    · rw [hst] at he; cases he
    · rw [hst] at he; injection he with e1 e2 e3; subst e1 e2 e3
      obtain ⟨h'', bl'', hi'', hr, hp''⟩ := ih bl' hi'
      refine ⟨h'', bl'', hi'', ?_, ?_⟩
      · rw [hr, hp']
        simp only [List.length_drop, List.append_assoc]
        have hc : (s' ≤ (pend h bl).1.length - k ∨ (pend h bl).2 = .eof) ↔
            (s ≤ (pend h bl).1.length ∨ (pend h bl).2 = .eof) := by
          constructor
          · intro x; rcases x with x | x
            · left; omega
            · right; exact x
          · intro x; rcases x with x | x
            · left; omega
            · right; exact x
        have ht : (pend h bl).1.take k ++ ((pend h bl).1.drop k).take s' = (pend h bl).1.take s := by
          rw [← h1, List.take_add]
        have hd : (pend h bl).1.take k ++ (pend h bl).1.drop k = (pend h bl).1 := List.take_append_drop _ _
        by_cases hx : s ≤ (pend h bl).1.length ∨ (pend h bl).2 = .eof
        · rw [if_pos (hc.mpr hx), if_pos hx, ht]
        · rw [if_neg (fun y => hx (hc.mp y)), if_neg hx, hd]
      · rw [hp'', hp']
        simp only [List.drop_drop, h1]

end LA.RD
