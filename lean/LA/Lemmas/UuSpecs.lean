/-
The two concrete stream descriptions: what `archive_write_add_filter_uuencode.c`
and `archive_write_add_filter_b64encode.c` write, line by line, and that
`uudecode_filter_read` handles every one of these lines as expected.
-/
import LA.Lemmas.UuStream
namespace LA.UuRead
open LA.Gen.UuTables LA.LineFilter

/-- A `name` option the reader can cope with: non-empty, printable ASCII, and a
`begin` line that fits the reader's line-length limit. -/
structure NameOk (name : List Nat) : Prop where
  ne : name ≠ []
  printable : Printable name
  short : name.length + 24 ≤ maxLineLength

theorem octal3_printable (mode : Nat) : Printable (octal3 mode) := by
  intro c hc
  simp only [octal3, List.mem_cons, List.mem_nil_iff, or_false] at hc
  rcases hc with h | h | h <;> omega

theorem printable_append {a b : List Nat} (ha : Printable a) (hb : Printable b) : Printable (a ++ b) := by
  intro c hc
  rcases List.mem_append.mp hc with h | h
  · exact ha c h
  · exact hb c h

theorem lineStep_findHead (total len : Nat) (b : List Nat) (md : Meta) (h : total + len < bidMaxRead) :
    lineStep .findHead total len b 1 md = .next (headLine b 1 md).1 [] (headLine b 1 md).2 := by
  simp only [lineStep]
  rw [if_neg (by omega)]

theorem limits : outBuffSize = 65536 ∧ maxLineLength = 34816 ∧ bidMaxRead = 131072 := by decide

/-! ### uuencode -/

theorem headLine_uu (mode : Nat) (name : List Nat) (hn : name ≠ []) (md : Meta) :
    (headLine (header LA.Uu.codec mode name) 1 md).1 = .readUU := by
  have hl : 1 ≤ name.length := List.length_pos_iff.mpr hn
  simp only [headLine, header, LA.Uu.codec, uuBegin, octal3, List.cons_append, List.nil_append,
    List.length_cons, List.length_append, List.length_nil]
  have h1 : (name.length + (0 + 1) + 1 + 1 + 1 + 1 + 1 + 1 + 1 + 1 + 1 + 1 - 1 ≥ 11) := by omega
  simp [hl, isOct]
  rw [if_pos (by omega)]

def uuHdr (mode : Nat) (name : List Nat) : Item :=
  { body := uuBegin ++ octal3 mode ++ [32] ++ name, ph := .findHead, ph' := .readUU, out := [],
    mdf := fun md => (headLine (header LA.Uu.codec mode name) 1 md).2 }

def uuData (p : List Nat) : Item :=
  { body := LA.Uu.ch p.length :: LA.Uu.triples p, ph := .readUU, ph' := .readUU, out := p, mdf := id }

def uuT1 : Item := { body := [96], ph := .readUU, ph' := .uuEnd, out := [], mdf := id }
def uuT2 : Item := { body := [101, 110, 100], ph := .uuEnd, ph' := .findHead, out := [], mdf := id }

theorem uuHdr_line (mode : Nat) (name : List Nat) : (uuHdr mode name).line = header LA.Uu.codec mode name := by
  simp [uuHdr, Item.line, header, LA.Uu.codec]

theorem uuHdr_ok (mode : Nat) (name : List Nat) (hn : NameOk name) : ItemOk (uuHdr mode name) := by
  obtain ⟨l1, l2, l3⟩ := limits
  have hlen : (uuHdr mode name).len = name.length + 11 := by
    simp [uuHdr, Item.len, uuBegin, octal3]
  refine ⟨?_, Or.inr rfl, ?_, by simp [uuHdr], fun _ => rfl, ⟨by simp [uuHdr], by simp [uuHdr]⟩, ?_, ?_⟩
  · simp only [uuHdr]
    refine printable_append (printable_append (printable_append ?_ (octal3_printable mode)) ?_) hn.printable
    · intro c hc; simp [uuBegin] at hc; omega
    · intro c hc; simp at hc; omega
  · have := hn.short; omega
  · intro total md ht _
    have := hn.short
    rw [show (uuHdr mode name).ph = .findHead from rfl, lineStep_findHead _ _ _ _ (by omega), uuHdr_line,
      headLine_uu mode name hn.ne]
    rfl
  · intro total md h; simp [uuHdr, needsRoom] at h

theorem uuData_ok (p : List Nat) (hb : Bytes p) (h1 : 0 < p.length) (h45 : p.length ≤ LA.Uu.codec.lbytes) :
    ItemOk (uuData p) := by
  obtain ⟨l1, l2, l3⟩ := limits
  have h45' : p.length ≤ 45 := h45
  obtain ⟨body, e1, e2, e3⟩ := uu_encLine_body p hb h45'
  have hbody : body = (uuData p).body := by
    have : LA.Uu.encLine p = (uuData p).body ++ [10] := by simp [LA.Uu.encLine, uuData]
    rw [this] at e1; exact (List.append_cancel_right e1).symm
  have hline : (uuData p).line = LA.Uu.encLine p := by simp [Item.line, uuData, LA.Uu.encLine]
  have hlen : (uuData p).len = 2 + (p.length + 2) / 3 * 4 := by
    simp only [Item.len, ← hbody, e3]; omega
  refine ⟨hbody ▸ e2, Or.inl (by omega), by omega, ?_, by simp [uuData, needsRoom],
    ⟨by simp [uuData], by simp [uuData]⟩, ?_, ?_⟩
  · simp only [show (uuData p).out = p from rfl]; omega
  · intro total md _ hroom
    have hroom' := hroom rfl
    rw [show (uuData p).ph = .readUU from rfl, hline]
    simp only [lineStep]
    rw [if_neg (by omega), uuLine_enc p hb h1 h45']
    rfl
  · intro total md _ hfull
    rw [show (uuData p).ph = .readUU from rfl]
    simp only [lineStep]
    rw [if_pos hfull]

theorem uuT1_ok : ItemOk uuT1 := by
  obtain ⟨l1, l2, l3⟩ := limits
  refine ⟨by intro c hc; simp [uuT1] at hc; omega, Or.inl (by simp [uuT1, Item.len]; omega),
    by simp [uuT1, Item.len]; omega, by simp [uuT1], by simp [uuT1, needsRoom],
    ⟨by simp [uuT1], by simp [uuT1]⟩, ?_, ?_⟩
  · intro total md _ hroom
    have hroom' := hroom rfl
    have h4 : ¬ (total + 2 * 2 > outBuffSize) := by simp [uuT1, Item.len] at hroom'; omega
    simp [uuT1, Item.len, Item.line, lineStep, h4, uuLine_end]
  · intro total md _ hfull
    have h4 : total + 2 * 2 > outBuffSize := by simpa [uuT1, Item.len] using hfull
    simp [uuT1, Item.len, Item.line, lineStep, h4]

theorem uuT2_ok : ItemOk uuT2 := by
  obtain ⟨l1, l2, l3⟩ := limits
  refine ⟨by intro c hc; simp [uuT2] at hc; omega, Or.inr rfl,
    by simp [uuT2, Item.len]; omega, by simp [uuT2], fun _ => rfl,
    ⟨by simp [uuT2], by simp [uuT2]⟩, ?_, ?_⟩
  · intro total md _ _
    simp [uuT2, Item.len, Item.line, lineStep]
  · intro total md h; simp [uuT2, needsRoom] at h

def uuSpec (mode : Nat) (name : List Nat) (hn : NameOk name) : StreamSpec LA.Uu.codec mode name :=
  { dph := .readUU, hdr := uuHdr mode name, mkData := uuData, tl := [uuT1, uuT2],
    hdrLine := uuHdr_line mode name, hdrPh := ⟨rfl, rfl, rfl⟩, hdrOk := uuHdr_ok mode name hn,
    dataLine := fun p => by simp [Item.line, uuData, LA.Uu.codec, LA.Uu.encLine],
    dataPh := fun p => ⟨rfl, rfl, rfl⟩, dataOk := uuData_ok,
    tlText := by simp [text, Item.line, uuT1, uuT2, LA.Uu.codec, uuTrailer],
    tlChain := ⟨rfl, rfl, trivial⟩,
    tlOk := by
      intro it hit; simp at hit
      rcases hit with rfl | rfl
      · exact uuT1_ok
      · exact uuT2_ok,
    tlOut := by intro it hit; simp at hit; rcases hit with rfl | rfl <;> rfl,
    dphData := rfl, tlEnd := rfl }


/-! ### b64encode -/

theorem headLine_b64 (mode : Nat) (name : List Nat) (hn : name ≠ []) (md : Meta) :
    (headLine (header LA.B64.codec mode name) 1 md).1 = .readB64 := by
  have hl : 1 ≤ name.length := List.length_pos_iff.mpr hn
  simp only [headLine, header, LA.B64.codec, b64Begin, uuBegin, octal3, List.cons_append, List.nil_append,
    List.length_cons, List.length_append, List.length_nil]
  simp [hl, isOct]
  rw [if_pos (by omega)]

def b64Hdr (mode : Nat) (name : List Nat) : Item :=
  { body := b64Begin ++ octal3 mode ++ [32] ++ name, ph := .findHead, ph' := .readB64, out := [],
    mdf := fun md => (headLine (header LA.B64.codec mode name) 1 md).2 }

def b64Data (p : List Nat) : Item :=
  { body := LA.B64.triples p, ph := .readB64, ph' := .readB64, out := p, mdf := id }

def b64T : Item := { body := [61, 61, 61, 61], ph := .readB64, ph' := .findHead, out := [], mdf := id }

theorem b64Hdr_line (mode : Nat) (name : List Nat) : (b64Hdr mode name).line = header LA.B64.codec mode name := by
  simp [b64Hdr, Item.line, header, LA.B64.codec]

theorem b64Hdr_ok (mode : Nat) (name : List Nat) (hn : NameOk name) : ItemOk (b64Hdr mode name) := by
  obtain ⟨l1, l2, l3⟩ := limits
  have hlen : (b64Hdr mode name).len = name.length + 18 := by
    simp [b64Hdr, Item.len, b64Begin, octal3]
  refine ⟨?_, Or.inr rfl, ?_, by simp [b64Hdr], fun _ => rfl, ⟨by simp [b64Hdr], by simp [b64Hdr]⟩, ?_, ?_⟩
  · simp only [b64Hdr]
    refine printable_append (printable_append (printable_append ?_ (octal3_printable mode)) ?_) hn.printable
    · intro c hc; simp [b64Begin] at hc; omega
    · intro c hc; simp at hc; omega
  · have := hn.short; omega
  · intro total md ht _
    have := hn.short
    rw [show (b64Hdr mode name).ph = .findHead from rfl, lineStep_findHead _ _ _ _ (by omega), b64Hdr_line,
      headLine_b64 mode name hn.ne]
    rfl
  · intro total md h; simp [b64Hdr, needsRoom] at h

theorem b64Data_ok (p : List Nat) (hb : Bytes p) (h1 : 0 < p.length) (h57 : p.length ≤ LA.B64.codec.lbytes) :
    ItemOk (b64Data p) := by
  obtain ⟨l1, l2, l3⟩ := limits
  have h57' : p.length ≤ 57 := h57
  have hline : (b64Data p).line = LA.B64.encLine p := by simp [Item.line, b64Data, LA.B64.encLine]
  have hlen : (b64Data p).len = 1 + (p.length + 2) / 3 * 4 := by
    simp only [Item.len, b64Data, b64_triples_length]; omega
  refine ⟨b64_triples_printable p hb, Or.inl (by omega), by omega, ?_, by simp [b64Data, needsRoom],
    ⟨by simp [b64Data], by simp [b64Data]⟩, ?_, ?_⟩
  · simp only [show (b64Data p).out = p from rfl]; omega
  · intro total md _ hroom
    have hroom' := hroom rfl
    rw [show (b64Data p).ph = .readB64 from rfl, hline]
    simp only [lineStep]
    rw [if_neg (by omega), b64Line_enc p hb h1]
    rfl
  · intro total md _ hfull
    rw [show (b64Data p).ph = .readB64 from rfl]
    simp only [lineStep]
    rw [if_pos hfull]

theorem b64T_ok : ItemOk b64T := by
  obtain ⟨l1, l2, l3⟩ := limits
  refine ⟨by intro c hc; simp [b64T] at hc; omega, Or.inl (by simp [b64T, Item.len]; omega),
    by simp [b64T, Item.len]; omega, by simp [b64T], by simp [b64T, needsRoom],
    ⟨by simp [b64T], by simp [b64T]⟩, ?_, ?_⟩
  · intro total md _ hroom
    have hroom' := hroom rfl
    have h4 : ¬ (total + 5 * 2 > outBuffSize) := by simp [b64T, Item.len] at hroom'; omega
    simp [b64T, Item.len, Item.line, lineStep, h4, b64Line_end]
  · intro total md _ hfull
    have h4 : total + 5 * 2 > outBuffSize := by simpa [b64T, Item.len] using hfull
    simp [b64T, Item.len, Item.line, lineStep, h4]

def b64Spec (mode : Nat) (name : List Nat) (hn : NameOk name) : StreamSpec LA.B64.codec mode name :=
  { dph := .readB64, hdr := b64Hdr mode name, mkData := b64Data, tl := [b64T],
    hdrLine := b64Hdr_line mode name, hdrPh := ⟨rfl, rfl, rfl⟩, hdrOk := b64Hdr_ok mode name hn,
    dataLine := fun p => by simp [Item.line, b64Data, LA.B64.codec, LA.B64.encLine],
    dataPh := fun p => ⟨rfl, rfl, rfl⟩, dataOk := b64Data_ok,
    tlText := by simp [text, Item.line, b64T, LA.B64.codec, b64Trailer],
    tlChain := ⟨rfl, trivial⟩,
    tlOk := by intro it hit; simp at hit; subst hit; exact b64T_ok,
    tlOut := by intro it hit; simp at hit; subst hit; rfl,
    dphData := rfl, tlEnd := rfl }

end LA.UuRead
