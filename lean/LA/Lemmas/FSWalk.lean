/-
Helper lemmas for C04, part 4: the kernel walk along a prefix that holds no
symlink is a plain descent through directory entries.
-/
import LA.Lemmas.FSConfine
namespace LA.FS

/-- Descending from subtree `t` along `cs`: every component that exists is a
directory (the descent goes on) or a non-symlink (the descent stops there). -/
def NoLinkT (fs : FS) : Tree → List Name → Prop
  | _, [] => True
  | t, c :: rest => match t.child c with
    | none => True
    | some t' => if t'.isDir = true then NoLinkT fs t' rest else isLnk fs t' = false

/-- The same, from a position. -/
def NoLinkAt (fs : FS) (pos : List Name) (cs : List Name) : Prop :=
  ∀ t, get fs.root pos = some t → NoLinkT fs t cs

def NoDots (cs : List Name) : Prop := ∀ c ∈ cs, c ≠ DOTN ∧ c ≠ DOTDOTN

theorem noLinkT_prefix (fs : FS) : ∀ (cs cs' : List Name) (t : Tree), cs' <+: cs → NoLinkT fs t cs → NoLinkT fs t cs' := by
  intro cs
  induction cs with
  | nil => intro cs' t h _; have := List.prefix_nil.mp h; subst this; trivial
  | cons c cs ih =>
    intro cs' t hp h
    cases cs' with
    | nil => trivial
    | cons c' cs' =>
      obtain ⟨hcc, hp'⟩ := List.cons_prefix_cons.mp hp
      subst hcc
      simp only [NoLinkT] at h ⊢
      cases hc : t.child c' with
      | none => trivial
      | some t' =>
        simp only [hc] at h ⊢
        by_cases hd : t'.isDir = true
        · simp only [hd, if_true] at h ⊢; exact ih cs' t' hp' h
        · simp only [hd] at h ⊢; exact h

theorem noLinkAt_prefix {fs : FS} {pos cs cs' : List Name} (hp : cs' <+: cs) (h : NoLinkAt fs pos cs) :
    NoLinkAt fs pos cs' := fun t ht => noLinkT_prefix fs cs cs' t hp (h t ht)

theorem isLnk_dir {fs : FS} {t : Tree} (h : t.isDir = true) : isLnk fs t = false := by
  cases t with
  | dir => rfl
  | file => simp [Tree.isDir] at h

/-- The kernel walk along a symlink-free, dot-free component list goes nowhere
but down: it ends at `pos ++ cs`. -/
theorem walk_noLink (fs : FS) (b : Nat) : ∀ (cs pos : List Name) (t : Tree), NoDots cs →
    get fs.root pos = some t → NoLinkT fs t cs → ∀ r, walk fs b pos cs = .ok r → r = pos ++ cs := by
  intro cs
  induction cs with
  | nil => intro pos t _ _ _ r h; rw [walk] at h; simp at h; simp [h]
  | cons c rest ih =>
    intro pos t hnd hget hnl r h
    have hc := hnd c (by simp)
    have hnd' : NoDots rest := fun x hx => hnd x (by simp [hx])
    rw [walk] at h
    simp only [hget] at h
    cases t with
    | file i => simp at h
    | dir m mt es =>
      simp only [hc.1, hc.2, if_false] at h
      split at h
      · simp at h
      · simp only [NoLinkT] at hnl
        split at h
        · simp at h
        · rename_i m' mt' es' hch
          simp only [hch, Tree.isDir, if_true] at hnl
          have hg : get fs.root (pos ++ [c]) = some (.dir m' mt' es') := by
            rw [get_snoc, hget]; exact hch
          have := ih (pos ++ [c]) _ hnd' hg hnl r h
          simp [this]
        · rename_i i hch
          simp only [hch, Tree.isDir] at hnl
          simp only [isLnk] at hnl
          split at h
          · rename_i tg hf; simp [hf] at hnl
          · split at h
            · rename_i hr; subst hr; simp at h; simp [h]
            · simp at h
          · simp at h

/-- … so it stays below wherever it started. -/
theorem walk_noLink_prefix {fs : FS} {b : Nat} {cs pos T : List Name} (hT : T <+: pos) (hnd : NoDots cs)
    (hnl : NoLinkAt fs pos cs) {r : List Name} (h : walk fs b pos cs = .ok r) : T <+: r := by
  cases hget : get fs.root pos with
  | none =>
    cases cs with
    | nil => rw [walk] at h; simp at h; subst h; exact hT
    | cons c rest => rw [walk] at h; simp [hget] at h
  | some t =>
    have := walk_noLink fs b cs pos t hnd hget (hnl t hget) r h
    subst this
    exact List.IsPrefix.trans hT (List.prefix_append _ _)

end LA.FS

namespace LA.FS

/-- The same with "." components allowed (they are walked over in place). -/
theorem walk_noLink_dots (fs : FS) (b : Nat) : ∀ (cs pos : List Name) (t : Tree), (∀ c ∈ cs, c ≠ DOTDOTN) →
    get fs.root pos = some t → NoLinkT fs t (cs.filter (fun c => !(c == DOTN))) →
    ∀ r, walk fs b pos cs = .ok r → r = pos ++ cs.filter (fun c => !(c == DOTN)) := by
  intro cs
  induction cs with
  | nil => intro pos t _ _ _ r h; rw [walk] at h; simp at h; simp [h]
  | cons c rest ih =>
    intro pos t hnd hget hnl r h
    have hc := hnd c (by simp)
    have hnd' : ∀ x ∈ rest, x ≠ DOTDOTN := fun x hx => hnd x (by simp [hx])
    rw [walk] at h
    simp only [hget] at h
    cases t with
    | file i => simp at h
    | dir m mt es =>
      by_cases hdot : c = DOTN
      · subst hdot
        simp only [↓reduceIte] at h
        have : (DOTN :: rest).filter (fun c => !(c == DOTN)) = rest.filter (fun c => !(c == DOTN)) := by
          rw [List.filter_cons]; simp
        rw [this] at hnl ⊢
        exact ih pos _ hnd' hget hnl r h
      · have hf : (c :: rest).filter (fun c => !(c == DOTN)) = c :: rest.filter (fun c => !(c == DOTN)) := by
          have : (c == DOTN) = false := by simpa using hdot
          rw [List.filter_cons]; simp [this]
        rw [hf] at hnl ⊢
        simp only [hdot, hc, if_false] at h
        split at h
        · simp at h
        · simp only [NoLinkT] at hnl
          split at h
          · simp at h
          · rename_i m' mt' es' hch
            simp only [hch, Tree.isDir, if_true] at hnl
            have hg : get fs.root (pos ++ [c]) = some (.dir m' mt' es') := by
              rw [get_snoc, hget]; exact hch
            have := ih (pos ++ [c]) _ hnd' hg hnl r h
            simp [this]
          · rename_i i hch
            simp only [hch, Tree.isDir] at hnl
            simp only [isLnk] at hnl
            split at h
            · rename_i tg hf2; simp [hf2] at hnl
            · split at h
              · rename_i hr; subst hr; simp at h; simp [h]
              · simp at h
            · simp at h

def LenOK (cs : List Name) : Prop := ∀ c ∈ cs, ¬ c.length > nameMax

/-- Along an existing chain of directories the kernel walk is the plain descent. -/
theorem walk_chain (fs : FS) (b : Nat) : ∀ (cs pos : List Name), NoDots cs → LenOK cs →
    (∃ t, get fs.root (pos ++ cs) = some t ∧ t.isDir = true) → walk fs b pos cs = .ok (pos ++ cs) := by
  intro cs
  induction cs with
  | nil => intro pos _ _ _; rw [walk]; simp
  | cons c rest ih =>
    intro pos hnd hlen ⟨t, hget, hdir⟩
    have hc := hnd c (by simp)
    rw [get_append] at hget
    cases h0 : get fs.root pos with
    | none => rw [h0] at hget; simp at hget
    | some t0 =>
      rw [h0] at hget
      simp only [Option.bind_some, get_cons] at hget
      cases h1 : t0.child c with
      | none => rw [h1] at hget; simp at hget
      | some t1 =>
        rw [h1] at hget
        simp only [Option.bind_some] at hget
        have ht0 := isDir_of_child h1
        have ht1 : t1.isDir = true := by
          cases rest with
          | nil => simp at hget; subst hget; exact hdir
          | cons c2 r2 =>
            rw [get_cons] at hget
            cases h2 : t1.child c2 with
            | none => rw [h2] at hget; simp at hget
            | some t2 => exact isDir_of_child h2
        rw [walk]
        simp only [h0]
        cases t0 with
        | file i => simp [Tree.isDir] at ht0
        | dir m mt es =>
          simp only [hc.1, hc.2, if_false, hlen c (by simp), h1]
          cases t1 with
          | file i => simp [Tree.isDir] at ht1
          | dir m1 mt1 es1 =>
            simp only []
            have := ih (pos ++ [c]) (fun x hx => hnd x (by simp [hx])) (fun x hx => hlen x (by simp [hx]))
              ⟨t, by rw [List.append_assoc, get_append, h0]; simp [get_cons, h1, hget], hdir⟩
            rw [this]; simp

/-- A successful walk along a symlink-free prefix passed the NAME_MAX test at every component. -/
theorem walk_ok_len (fs : FS) (b : Nat) : ∀ (cs pos : List Name) (t : Tree), NoDots cs →
    get fs.root pos = some t → NoLinkT fs t cs → ∀ r, walk fs b pos cs = .ok r → LenOK cs := by
  intro cs
  induction cs with
  | nil => intro _ _ _ _ _ _ _ c hc; simp at hc
  | cons c rest ih =>
    intro pos t hnd hget hnl r h
    have hc := hnd c (by simp)
    have hnd' : NoDots rest := fun x hx => hnd x (by simp [hx])
    rw [walk] at h
    simp only [hget] at h
    cases t with
    | file i => simp at h
    | dir m mt es =>
      simp only [hc.1, hc.2, if_false] at h
      split at h
      · simp at h
      · rename_i hl
        simp only [NoLinkT] at hnl
        split at h
        · simp at h
        · rename_i m' mt' es' hch
          simp only [hch, Tree.isDir, if_true] at hnl
          have hg : get fs.root (pos ++ [c]) = some (.dir m' mt' es') := by
            rw [get_snoc, hget]; exact hch
          have := ih (pos ++ [c]) _ hnd' hg hnl r h
          intro x hx
          simp at hx
          rcases hx with rfl | hx
          · exact hl
          · exact this x hx
        · rename_i i hch
          split at h
          · simp only [hch, Tree.isDir, isLnk] at hnl
            rename_i tg hf; simp [hf] at hnl
          · split at h
            · rename_i hr; subst hr
              intro x hx; simp at hx; subst hx; exact hl
            · simp at h
          · simp at h


end LA.FS
