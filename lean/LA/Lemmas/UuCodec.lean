/-
Line-level lemmas: what `uu_encode` / `la_b64_encode` write, the corresponding
cases of `uudecode_filter_read` read back.
-/
import LA.Model.Uu
import LA.Model.B64
import LA.Model.UuRead
namespace LA.UuRead
open LA.Gen.UuTables

/-- A list of bytes. -/
def Bytes (x : List Nat) : Prop := ∀ b ∈ x, b < 256

theorem Bytes.cons {a : Nat} {x : List Nat} (h : Bytes (a :: x)) : a < 256 ∧ Bytes x :=
  ⟨h a (by simp), fun b hb => h b (by simp [hb])⟩

/-- Printable ASCII: the characters `get_line` accepts inside a line. -/
def Printable (x : List Nat) : Prop := ∀ c ∈ x, 32 ≤ c ∧ c ≤ 126

theorem cls_printable {c : Nat} (h : 32 ≤ c ∧ c ≤ 126) : cls c = 1 := by
  simp only [cls]
  rw [if_neg (by omega), if_neg (by omega), if_pos h]

/-! ### uuencode -/

theorem uu_ch_range (x : Nat) (h : x < 64) : 33 ≤ LA.Uu.ch x ∧ LA.Uu.ch x ≤ 96 := by
  unfold LA.Uu.ch; split <;> omega

theorem uuchar_ch (x : Nat) (h : x < 64) : uuchar (LA.Uu.ch x) = true := by
  have := uu_ch_range x h
  simp [uuchar]; omega

theorem udec_ch (x : Nat) (h : x < 64) : udec (LA.Uu.ch x) = x := by
  unfold udec LA.Uu.ch; split <;> omega

theorem uuchar_96 : uuchar 96 = true := by decide

theorem triples_length : ∀ (p : List Nat), (LA.Uu.triples p).length = (p.length + 2) / 3 * 4
  | [] => by simp [LA.Uu.triples]
  | [a] => by simp [LA.Uu.triples]
  | [a, b] => by simp [LA.Uu.triples]
  | a :: b :: c :: rest => by
    have ih := triples_length rest
    simp only [LA.Uu.triples, List.length_cons, ih]
    omega

theorem triples_printable : ∀ (p : List Nat), Bytes p → Printable (LA.Uu.triples p)
  | [], _ => by intro c hc; simp [LA.Uu.triples] at hc
  | [a], hb => by
    have ha := (Bytes.cons hb).1
    intro c hc
    simp only [LA.Uu.triples, List.mem_cons, List.mem_nil_iff, or_false] at hc
    have h1 := uu_ch_range (a / 4) (by omega)
    have h2 := uu_ch_range (a % 4 * 16) (by omega)
    rcases hc with h | h | h | h <;> omega
  | [a, b], hb => by
    have ha := (Bytes.cons hb).1
    have hb' := (Bytes.cons (Bytes.cons hb).2).1
    intro c hc
    simp only [LA.Uu.triples, List.mem_cons, List.mem_nil_iff, or_false] at hc
    have h1 := uu_ch_range (a / 4) (by omega)
    have h2 := uu_ch_range (a % 4 * 16 + b / 16) (by omega)
    have h3 := uu_ch_range (b % 16 * 4) (by omega)
    rcases hc with h | h | h | h <;> omega
  | a :: b :: c' :: rest, hb => by
    have ha := (Bytes.cons hb).1
    have hb' := (Bytes.cons (Bytes.cons hb).2).1
    have hc' := (Bytes.cons (Bytes.cons (Bytes.cons hb).2).2).1
    have hr := (Bytes.cons (Bytes.cons (Bytes.cons hb).2).2).2
    have ih := triples_printable rest hr
    intro c hc
    simp only [LA.Uu.triples, List.mem_cons] at hc
    have h1 := uu_ch_range (a / 4) (by omega)
    have h2 := uu_ch_range (a % 4 * 16 + b / 16) (by omega)
    have h3 := uu_ch_range (b % 16 * 4 + c' / 64) (by omega)
    have h4 := uu_ch_range (c' % 64) (by omega)
    rcases hc with h | h | h | h | h
    · omega
    · omega
    · omega
    · omega
    · exact ih c h

/-- The `ST_READ_UU` group loop inverts `uu_encode`'s groups. -/
theorem uuGroups_triples : ∀ (p : List Nat), Bytes p → ∀ (tail : List Nat),
    uuGroups p.length (LA.Uu.triples p ++ tail) = .ok p
  | [], _, tail => by unfold uuGroups; simp
  | [a], hb, tail => by
    have ha := (Bytes.cons hb).1
    unfold uuGroups
    simp only [LA.Uu.triples, List.length_cons, List.length_nil, List.cons_append]
    simp [uuchar_ch (a / 4) (by omega), uuchar_ch (a % 4 * 16) (by omega),
      udec_ch (a / 4) (by omega), udec_ch (a % 4 * 16) (by omega)]
    omega
  | [a, b], hb, tail => by
    have ha := (Bytes.cons hb).1
    have hb' := (Bytes.cons (Bytes.cons hb).2).1
    unfold uuGroups
    simp only [LA.Uu.triples, List.length_cons, List.length_nil, List.cons_append]
    simp [uuchar_ch (a / 4) (by omega), uuchar_ch (a % 4 * 16 + b / 16) (by omega),
      uuchar_ch (b % 16 * 4) (by omega),
      udec_ch (a / 4) (by omega), udec_ch (a % 4 * 16 + b / 16) (by omega), udec_ch (b % 16 * 4) (by omega)]
    omega
  | a :: b :: c :: rest, hb, tail => by
    have ha := (Bytes.cons hb).1
    have hb' := (Bytes.cons (Bytes.cons hb).2).1
    have hc' := (Bytes.cons (Bytes.cons (Bytes.cons hb).2).2).1
    have hr := (Bytes.cons (Bytes.cons (Bytes.cons hb).2).2).2
    have ih' := uuGroups_triples rest hr tail
    unfold uuGroups
    simp only [LA.Uu.triples, List.length_cons, List.cons_append]
    simp [uuchar_ch (a / 4) (by omega), uuchar_ch (a % 4 * 16 + b / 16) (by omega),
      uuchar_ch (b % 16 * 4 + c / 64) (by omega), uuchar_ch (c % 64) (by omega),
      udec_ch (a / 4) (by omega), udec_ch (a % 4 * 16 + b / 16) (by omega),
      udec_ch (b % 16 * 4 + c / 64) (by omega), udec_ch (c % 64) (by omega), ih', DecR.cons]
    omega

/-- `ST_READ_UU` on a line written by `uu_encode` gives back the bytes. -/
theorem uuLine_enc (p : List Nat) (hb : Bytes p) (h1 : 0 < p.length) (h45 : p.length ≤ 45) :
    uuLine (LA.Uu.encLine p) 1 = .data p := by
  unfold uuLine LA.Uu.encLine
  have hl := triples_length p
  simp only [List.cons_append, List.length_cons, List.length_append, List.length_nil]
  have hu := uuchar_ch p.length (by omega)
  have hd := udec_ch p.length (by omega)
  simp only [hu, hd, Bool.not_true, Bool.false_or]
  have h2 : ¬ (decide ((LA.Uu.triples p).length + (0 + 1) + 1 - 1 = 0) = true) := by simp
  simp only [h2, if_false]
  have h3 : ¬ (p.length > (LA.Uu.triples p).length + (0 + 1) + 1 - 1 - 1) := by rw [hl]; omega
  have h4 : ¬ (p.length = 0) := by omega
  have h5 : p.length ≤ (LA.Uu.triples p).length := by rw [hl]; omega
  simp [h4, h5, uuGroups_triples p hb [10]]

theorem uuLine_end : uuLine [96, 10] 1 = .toPhase .uuEnd := by decide

theorem uu_encLine_body (p : List Nat) (hb : Bytes p) (h45 : p.length ≤ 45) :
    ∃ body, LA.Uu.encLine p = body ++ [10] ∧ Printable body ∧ body.length = 1 + (p.length + 2) / 3 * 4 := by
  refine ⟨LA.Uu.ch p.length :: LA.Uu.triples p, by simp [LA.Uu.encLine], ?_, by simp [triples_length]; omega⟩
  intro c hc
  simp only [List.mem_cons] at hc
  rcases hc with h | h
  · have := uu_ch_range p.length (by omega); omega
  · exact triples_printable p hb c h

/-! ### base64 -/

theorem b64_ch_facts : ∀ x, x < 64 →
    (b64ok (LA.B64.ch x) = true ∧ b64num (LA.B64.ch x) = some x ∧ LA.B64.ch x ≠ 61 ∧
      43 ≤ LA.B64.ch x ∧ LA.B64.ch x ≤ 122) := by decide

theorem b64_triples_length : ∀ (p : List Nat), (LA.B64.triples p).length = (p.length + 2) / 3 * 4
  | [] => by simp [LA.B64.triples]
  | [a] => by simp [LA.B64.triples]
  | [a, b] => by simp [LA.B64.triples]
  | a :: b :: c :: rest => by
    have ih := b64_triples_length rest
    simp only [LA.B64.triples, List.length_cons, ih]
    omega

theorem b64_triples_printable : ∀ (p : List Nat), Bytes p → Printable (LA.B64.triples p)
  | [], _ => by intro c hc; simp [LA.B64.triples] at hc
  | [a], hb => by
    have ha := (Bytes.cons hb).1
    intro c hc
    simp only [LA.B64.triples, List.mem_cons, List.mem_nil_iff, or_false] at hc
    have h1 := b64_ch_facts (a / 4) (by omega)
    have h2 := b64_ch_facts (a % 4 * 16) (by omega)
    rcases hc with h | h | h | h <;> omega
  | [a, b], hb => by
    have ha := (Bytes.cons hb).1
    have hb' := (Bytes.cons (Bytes.cons hb).2).1
    intro c hc
    simp only [LA.B64.triples, List.mem_cons, List.mem_nil_iff, or_false] at hc
    have h1 := b64_ch_facts (a / 4) (by omega)
    have h2 := b64_ch_facts (a % 4 * 16 + b / 16) (by omega)
    have h3 := b64_ch_facts (b % 16 * 4) (by omega)
    rcases hc with h | h | h | h <;> omega
  | a :: b :: c' :: rest, hb => by
    have ha := (Bytes.cons hb).1
    have hb' := (Bytes.cons (Bytes.cons hb).2).1
    have hc' := (Bytes.cons (Bytes.cons (Bytes.cons hb).2).2).1
    have hr := (Bytes.cons (Bytes.cons (Bytes.cons hb).2).2).2
    have ih := b64_triples_printable rest hr
    intro c hc
    simp only [LA.B64.triples, List.mem_cons] at hc
    have h1 := b64_ch_facts (a / 4) (by omega)
    have h2 := b64_ch_facts (a % 4 * 16 + b / 16) (by omega)
    have h3 := b64_ch_facts (b % 16 * 4 + c' / 64) (by omega)
    have h4 := b64_ch_facts (c' % 64) (by omega)
    rcases hc with h | h | h | h | h
    · omega
    · omega
    · omega
    · omega
    · exact ih c h

/-- The `ST_READ_BASE64` group loop inverts `la_b64_encode`'s groups; it stops
either with `l = 0` or at a `'='`. -/
theorem b64Groups_triples : ∀ (p : List Nat), Bytes p → ∀ (tail : List Nat),
    ∃ l' c', b64Groups ((LA.B64.triples p).length : Int) (LA.B64.triples p ++ tail) = some (p, l', c') ∧
      (l' = 0 ∨ c' = some 61)
  | [], _, tail => by
    unfold b64Groups; simp only [LA.B64.triples, List.length_nil, List.nil_append]
    exact ⟨0, tail.head?, by simp, Or.inl rfl⟩
  | [a], hb, tail => by
    have ha := (Bytes.cons hb).1
    obtain ⟨a1, a2, a3, _, _⟩ := b64_ch_facts (a / 4) (by omega)
    obtain ⟨b1, b2, b3, _, _⟩ := b64_ch_facts (a % 4 * 16) (by omega)
    unfold b64Groups
    simp only [LA.B64.triples, List.length_cons, List.length_nil, List.cons_append]
    simp [a1, a2, b1, b2]
    exact ⟨2, some 61, ⟨by omega, rfl, rfl⟩, Or.inr rfl⟩
  | [a, b], hb, tail => by
    have ha := (Bytes.cons hb).1
    have hb' := (Bytes.cons (Bytes.cons hb).2).1
    obtain ⟨a1, a2, a3, _, _⟩ := b64_ch_facts (a / 4) (by omega)
    obtain ⟨b1, b2, b3, _, _⟩ := b64_ch_facts (a % 4 * 16 + b / 16) (by omega)
    obtain ⟨c1, c2, c3, _, _⟩ := b64_ch_facts (b % 16 * 4) (by omega)
    unfold b64Groups
    simp only [LA.B64.triples, List.length_cons, List.length_nil, List.cons_append]
    simp [a1, a2, b1, b2, c1, c2, c3]
    exact ⟨1, some 61, ⟨⟨by omega, by omega⟩, rfl, rfl⟩, Or.inr rfl⟩
  | a :: b :: c :: rest, hb, tail => by
    have ha := (Bytes.cons hb).1
    have hb' := (Bytes.cons (Bytes.cons hb).2).1
    have hc' := (Bytes.cons (Bytes.cons (Bytes.cons hb).2).2).1
    have hr := (Bytes.cons (Bytes.cons (Bytes.cons hb).2).2).2
    obtain ⟨l', c', ih1, ih2⟩ := b64Groups_triples rest hr tail
    obtain ⟨a1, a2, a3, _, _⟩ := b64_ch_facts (a / 4) (by omega)
    obtain ⟨b1, b2, b3, _, _⟩ := b64_ch_facts (a % 4 * 16 + b / 16) (by omega)
    obtain ⟨c1, c2, c3, _, _⟩ := b64_ch_facts (b % 16 * 4 + c / 64) (by omega)
    obtain ⟨d1, d2, d3, _, _⟩ := b64_ch_facts (c % 64) (by omega)
    refine ⟨l', c', ?_, ih2⟩
    unfold b64Groups
    simp only [LA.B64.triples, List.length_cons, List.cons_append]
    have e1 : ¬ ((((LA.B64.triples rest).length + 1 + 1 + 1 + 1 : Nat) : Int) ≤ 0) := by omega
    have e2 : ¬ ((((LA.B64.triples rest).length + 1 + 1 + 1 + 1 : Nat) : Int) - 2 ≤ 0) := by omega
    have e3 : ¬ ((((LA.B64.triples rest).length + 1 + 1 + 1 + 1 : Nat) : Int) - 2 - 1 ≤ 0) := by omega
    have e4 : (((LA.B64.triples rest).length + 1 + 1 + 1 + 1 : Nat) : Int) - 2 - 1 - 1 = ((LA.B64.triples rest).length : Int) := by omega
    simp only [e1, e2, e3, e4, if_false, a1, a2, b1, b2, c1, c2, c3, d1, d2, d3, ih1, Bool.not_true,
      Bool.false_eq_true, or_false, if_false]
    have o1 : (a / 4 * 262144 + (a % 4 * 16 + b / 16) * 4096) / 65536 = a := by omega
    have o2 : (a / 4 * 262144 + (a % 4 * 16 + b / 16) * 4096 + (b % 16 * 4 + c / 64) * 64) / 256 % 256 = b := by omega
    have o3 : (a / 4 * 262144 + (a % 4 * 16 + b / 16) * 4096 + (b % 16 * 4 + c / 64) * 64 + c % 64) % 256 = c := by omega
    rw [o1, o2, o3]; simp

/-- `ST_READ_BASE64` on a line written by `la_b64_encode` gives back the bytes. -/
theorem b64Line_enc (p : List Nat) (hb : Bytes p) (h1 : 0 < p.length) :
    b64Line (LA.B64.encLine p) 1 = .data p := by
  obtain ⟨l', c', g1, g2⟩ := b64Groups_triples p hb [10]
  unfold b64Line LA.B64.encLine
  have hne : ¬ ((LA.B64.triples p ++ [10]).take 3 = [61, 61, 61]) := by
    match p, hb, h1 with
    | a :: rest, hb, _ =>
      have ha := (Bytes.cons hb).1
      have := b64_ch_facts (a / 4) (by omega)
      cases rest with
      | nil => simp [LA.B64.triples]; omega
      | cons b rest =>
        cases rest with
        | nil => simp [LA.B64.triples]; omega
        | cons c rest => simp [LA.B64.triples]; omega
  have hl : ((LA.B64.triples p ++ [10]).length - 1 : Nat) = (LA.B64.triples p).length := by simp
  simp only [hne, and_false, if_false, hl, g1]
  rcases g2 with g2 | g2
  · subst g2; cases c' <;> simp
  · subst g2; simp

theorem b64Line_end : b64Line [61, 61, 61, 61, 10] 1 = .toPhase .findHead := by decide

theorem b64_encLine_body (p : List Nat) (hb : Bytes p) :
    ∃ body, LA.B64.encLine p = body ++ [10] ∧ Printable body ∧ body.length = (p.length + 2) / 3 * 4 :=
  ⟨LA.B64.triples p, rfl, b64_triples_printable p hb, b64_triples_length p⟩

end LA.UuRead
