/-
C12: the directory walker (`capture`) visits every object of the tree exactly once,
under its own path, parents before children.
-/
import LA.Lemmas.TreeDefs
namespace LA.Tree

/-! ### Entries -/

theorem Node.entry_path (p : Path) (x : Node) : (x.entry p).path = p := by
  cases x <;> rfl

theorem Node.entry_fresh (p : Path) (x : Node) :
    (x.entry p).hardlink = none ∧ (x.entry p).sizeSet = true := by
  cases x <;> exact ⟨rfl, rfl⟩

theorem Node.entry_dir (p : Path) (m : Meta) (cs : Forest) : ((Node.dir m cs).entry p).ftype = .dir := rfl

/-! ### The walk is a permutation of the depth-first enumeration -/

mutual
theorem Forest.count_walk (a : Entry) : (p : Path) → (cs : Forest) →
    (cs.level p).count a + (cs.sub p).count a = (cs.objects p).count a
  | p, .nil => by simp [Forest.level, Forest.sub, Forest.objects]
  | p, .cons n x rest => by
    have h1 := Forest.count_walk a p rest
    have h2 := Node.count_walk a (p ++ [n]) x
    simp only [Forest.level, Forest.sub, Forest.objects, List.count_append, List.count_cons] at *
    omega
theorem Node.count_walk (a : Entry) : (p : Path) → (x : Node) →
    (x.entry p :: x.inside p).count a = (x.objects p).count a
  | p, .dir m cs => by
    have h := Forest.count_walk a p cs
    simp only [Node.inside, Node.objects, List.count_cons, List.count_append] at *
    omega
  | p, .leaf i => by simp [Node.inside, Node.objects]
end

theorem Forest.walk_perm (p : Path) (cs : Forest) : (cs.level p ++ cs.sub p).Perm (cs.objects p) := by
  rw [List.perm_iff_count]; intro a
  rw [List.count_append]; exact Forest.count_walk a p cs

theorem Node.walk_perm (p : Path) (x : Node) : (x.entry p :: x.inside p).Perm (x.objects p) := by
  rw [List.perm_iff_count]; intro a
  exact Node.count_walk a p x

/-- The walker's order (all children of a directory, then the sub-directories last-pushed-first)
is a permutation of the depth-first enumeration of the tree's objects. -/
theorem capture_perm_objects (t : Node) : (capture t).Perm (t.objects []) :=
  Node.walk_perm [] t

/-! ### Paths of the objects -/

mutual
theorem Forest.objects_path : (p : Path) → (cs : Forest) →
    ∀ e ∈ cs.objects p, ∃ n r, n ∈ cs.names ∧ e.path = p ++ n :: r
  | p, .nil => by simp [Forest.objects]
  | p, .cons n x rest => by
    intro e he
    simp only [Forest.objects, List.mem_append] at he
    rcases he with he | he
    · obtain ⟨r, hr⟩ := Node.objects_path (p ++ [n]) x e he
      exact ⟨n, r, by simp [Forest.names], by simp [hr]⟩
    · obtain ⟨n', r, hn, hr⟩ := Forest.objects_path p rest e he
      exact ⟨n', r, by simp [Forest.names, hn], hr⟩
theorem Node.objects_path : (p : Path) → (x : Node) →
    ∀ e ∈ x.objects p, ∃ r, e.path = p ++ r
  | p, .dir m cs => by
    intro e he
    simp only [Node.objects, List.mem_cons] at he
    rcases he with he | he
    · exact ⟨[], by simp [he, Node.entry_path]⟩
    · obtain ⟨n, r, _, hr⟩ := Forest.objects_path p cs e he
      exact ⟨n :: r, hr⟩
  | p, .leaf i => by
    intro e he
    simp only [Node.objects, List.mem_singleton] at he
    exact ⟨[], by simp [he, Node.entry_path]⟩
end

mutual
theorem Forest.objects_nodup : (p : Path) → (cs : Forest) → cs.namesOk = true →
    ((cs.objects p).map (·.path)).Nodup
  | p, .nil, _ => by simp [Forest.objects]
  | p, .cons n x rest, h => by
    simp only [Forest.namesOk, Bool.and_eq_true, Bool.not_eq_true', List.contains_eq_mem,
      decide_eq_false_iff_not] at h
    obtain ⟨⟨⟨_, hn⟩, hx⟩, hr⟩ := h
    simp only [Forest.objects, List.map_append]
    rw [List.nodup_append]
    refine ⟨Node.objects_nodup (p ++ [n]) x hx, Forest.objects_nodup p rest hr, ?_⟩
    intro a ha b hb hab
    simp only [List.mem_map] at ha hb
    obtain ⟨ea, hea, rfl⟩ := ha
    obtain ⟨eb, heb, rfl⟩ := hb
    obtain ⟨r, hr1⟩ := Node.objects_path (p ++ [n]) x ea hea
    obtain ⟨n', r', hn', hr2⟩ := Forest.objects_path p rest eb heb
    rw [hr1, hr2] at hab
    simp only [List.append_assoc, List.append_cancel_left_eq, List.cons_append, List.nil_append,
      List.cons.injEq] at hab
    exact hn (hab.1 ▸ hn')
theorem Node.objects_nodup : (p : Path) → (x : Node) → x.namesOk = true →
    ((x.objects p).map (·.path)).Nodup
  | p, .dir m cs, h => by
    simp only [Node.namesOk] at h
    simp only [Node.objects, List.map_cons, List.nodup_cons, Node.entry_path]
    refine ⟨?_, Forest.objects_nodup p cs h⟩
    intro hp
    simp only [List.mem_map] at hp
    obtain ⟨e, he, hpe⟩ := hp
    obtain ⟨n, r, _, hr⟩ := Forest.objects_path p cs e he
    rw [hr] at hpe
    have := congrArg List.length hpe
    simp at this
  | p, .leaf i, _ => by simp [Node.objects]
end

/-- Distinct valid sibling names ⇒ every object has its own path. -/
theorem objects_paths_nodup (t : Node) (h : t.namesOk = true) : ((t.objects []).map (·.path)).Nodup :=
  Node.objects_nodup [] t h

theorem capture_paths_nodup (t : Node) (h : t.namesOk = true) : ((capture t).map (·.path)).Nodup :=
  ((capture_perm_objects t).map (·.path)).nodup_iff.mpr (objects_paths_nodup t h)

/-! ### Head and freshness -/

theorem Node.inside_path_ne (p : Path) (x : Node) : ∀ e ∈ x.inside p, e.path ≠ p := by
  cases x with
  | leaf i => simp [Node.inside]
  | dir m cs =>
    intro e he hp
    simp only [Node.inside] at he
    have he' := (Forest.walk_perm p cs).mem_iff.mp he
    obtain ⟨n, r, _, hr⟩ := Forest.objects_path p cs e he'
    rw [hr] at hp
    have := congrArg List.length hp
    simp at this

/-- The first entry is the root; no other entry has the empty path. -/
theorem capture_head (t : Node) : ∃ r, capture t = t.entry [] :: r ∧ (∀ e ∈ r, e.path ≠ []) :=
  ⟨t.inside [], rfl, Node.inside_path_ne [] t⟩

mutual
theorem Forest.objects_fresh : (p : Path) → (cs : Forest) →
    ∀ e ∈ cs.objects p, e.hardlink = none ∧ e.sizeSet = true
  | p, .nil => by simp [Forest.objects]
  | p, .cons n x rest => by
    intro e he
    simp only [Forest.objects, List.mem_append] at he
    rcases he with he | he
    · exact Node.objects_fresh (p ++ [n]) x e he
    · exact Forest.objects_fresh p rest e he
theorem Node.objects_fresh : (p : Path) → (x : Node) →
    ∀ e ∈ x.objects p, e.hardlink = none ∧ e.sizeSet = true
  | p, .dir m cs => by
    intro e he
    simp only [Node.objects, List.mem_cons] at he
    rcases he with he | he
    · rw [he]; exact Node.entry_fresh p _
    · exact Forest.objects_fresh p cs e he
  | p, .leaf i => by
    intro e he
    simp only [Node.objects, List.mem_singleton] at he
    rw [he]; exact Node.entry_fresh p _
end

/-- Every entry's hardlink is none and its size is set. -/
theorem capture_fresh (t : Node) : ∀ e ∈ capture t, e.hardlink = none ∧ e.sizeSet = true :=
  fun e he => Node.objects_fresh [] t e ((capture_perm_objects t).mem_iff.mp he)

/-! ### Parents first -/

/-- The directories available after the entries `l` went by, starting from `ds`. -/
def avail : List Path → List Entry → List Path
  | ds, [] => ds
  | ds, e :: r => avail (if e.ftype = .dir then e.path :: ds else ds) r

theorem mem_avail {d : Path} : (l : List Entry) → (ds : List Path) → d ∈ ds → d ∈ avail ds l
  | [], _, h => h
  | e :: r, ds, h => by
    simp only [avail]
    apply mem_avail r
    split
    · exact List.mem_cons_of_mem _ h
    · exact h

theorem parentsOk_append : (a b : List Entry) → (ds : List Path) →
    (ParentsOk ds (a ++ b) ↔ ParentsOk ds a ∧ ParentsOk (avail ds a) b)
  | [], b, ds => by simp [ParentsOk, avail]
  | e :: r, b, ds => by
    simp only [List.cons_append, ParentsOk, avail, parentsOk_append r b, and_assoc]

mutual
theorem Forest.walk_parents : (p : Path) → (cs : Forest) → (ds : List Path) → p ∈ ds →
    ParentsOk ds (cs.level p ++ cs.sub p)
  | p, .nil, ds, _ => by simp [Forest.level, Forest.sub, ParentsOk]
  | p, .cons n x rest, ds, h => by
    simp only [Forest.level, Forest.sub, List.cons_append, ParentsOk, Node.entry_path]
    refine ⟨by simp, by simp [h], ?_⟩
    rw [← List.append_assoc, parentsOk_append]
    constructor
    · apply Forest.walk_parents p rest
      split
      · exact List.mem_cons_of_mem _ h
      · exact h
    · cases x with
      | leaf i => simp [Node.inside, ParentsOk]
      | dir m cs =>
        apply Node.walk_parents (p ++ [n]) (.dir m cs)
        apply mem_avail
        simp [Node.entry_dir]
theorem Node.walk_parents : (p : Path) → (x : Node) → (ds : List Path) → p ∈ ds →
    ParentsOk ds (x.inside p)
  | p, .dir m cs, ds, h => by
    simp only [Node.inside]
    exact Forest.walk_parents p cs ds h
  | p, .leaf i, ds, _ => by simp [Node.inside, ParentsOk]
end

/-- A directory is always emitted before everything below it: each entry's parent directory is
the root or the path of an earlier directory entry. -/
theorem capture_parents (m : Meta) (cs : Forest) : ParentsOk [[]] ((Node.dir m cs).inside []) :=
  Node.walk_parents [] (.dir m cs) [[]] (by simp)

end LA.Tree
