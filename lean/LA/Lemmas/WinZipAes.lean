/- Helper lemmas for `LA.WinZipAes`. -/
import LA.Model.WinZipAes
import LA.Lemmas.Ctr
import LA.Lemmas.ZipCrypt
import LA.Lemmas.Passphrase
set_option linter.unusedSimpArgs false
namespace LA.WinZipAes
open LA.Passphrase (P St)
open LA.Gen.Crypt

/-- the derived key material of the writer -/
def dkW (pr : Prims) (enc : Enc) (pw : P) (salt : List UInt8) : List UInt8 :=
  pr.kdf pw salt kdfRoundsW (enc.keyLen * 2 + 2)

/-- the cipher text the writer produces for a payload -/
def cipherOf (pr : Prims) (enc : Enc) (pw : P) (salt : List UInt8) (payload : List UInt8) : List UInt8 :=
  LA.Ctr.xorStream (LA.Ctr.ksByte (pr.aes ((dkW pr enc pw salt).take enc.keyLen)) 0) 0 payload

def macOf (pr : Prims) (enc : Enc) (pw : P) (salt : List UInt8) (ct : List UInt8) : List UInt8 :=
  (pr.hmac (((dkW pr enc pw salt).drop enc.keyLen).take enc.keyLen) ct).take authCodeSize

theorem run_init (E : LA.Ctr.Block → LA.Ctr.Block) (chunks : List (List UInt8)) :
    ∃ c os, LA.Ctr.run E LA.Ctr.init chunks = some (c, os) ∧
      os.flatten = LA.Ctr.xorStream (LA.Ctr.ksByte E 0) 0 chunks.flatten := by
  rw [LA.Ctr.init_eq_initAt]
  obtain ⟨c, os, h1, h2, _⟩ := LA.Ctr.run_spec E 0 chunks 0 (LA.Ctr.initAt 0) (LA.Ctr.inv_initAt E 0)
  exact ⟨c, os, h1, h2⟩

theorem dk_get (pr : Prims) (hkdf : ∀ p s r n, (pr.kdf p s r n).length = n) (enc : Enc) (pw : P)
    (salt : List UInt8) (i : Nat) (hi : i < enc.keyLen * 2 + 2) :
    ∃ v, (dkW pr enc pw salt)[i]? = some v := by
  have : i < (dkW pr enc pw salt).length := by rw [dkW, hkdf]; exact hi
  exact ⟨_, List.getElem?_eq_getElem this⟩

/-- Shape of what the writer emits. -/
theorem writeEntry_eq (pr : Prims) (hkdf : ∀ p s r n, (pr.kdf p s r n).length = n)
    (enc : Enc) (pw : P) (salt : List UInt8) (payload : List (List UInt8)) :
    ∃ v0 v1, (dkW pr enc pw salt)[enc.keyLen * 2]? = some v0 ∧
      (dkW pr enc pw salt)[enc.keyLen * 2 + 1]? = some v1 ∧
      writeEntry pr enc pw salt payload = some
        { bytes := salt.take enc.saltLen ++ [v0, v1] ++ cipherOf pr enc pw salt payload.flatten ++
            macOf pr enc pw salt (cipherOf pr enc pw salt payload.flatten),
          compressedWritten := (salt.take enc.saltLen ++ [v0, v1]).length +
            (cipherOf pr enc pw salt payload.flatten).length + authCodeSize } := by
  obtain ⟨v0, h0⟩ := dk_get pr hkdf enc pw salt (enc.keyLen * 2) (by omega)
  obtain ⟨v1, h1⟩ := dk_get pr hkdf enc pw salt (enc.keyLen * 2 + 1) (by omega)
  refine ⟨v0, v1, h0, h1, ?_⟩
  obtain ⟨c, os, hr, hf⟩ := run_init (pr.aes ((dkW pr enc pw salt).take enc.keyLen)) payload
  unfold dkW at h0 h1 hr hf
  simp only [writeEntry, h0, h1, hr, hf, cipherOf, macOf, dkW]

theorem pwvMatches_self (pr : Prims) (enc : Enc) (pw : P) (salt : List UInt8) (v0 v1 : UInt8)
    (h0 : (dkW pr enc pw salt)[enc.keyLen * 2]? = some v0)
    (h1 : (dkW pr enc pw salt)[enc.keyLen * 2 + 1]? = some v1) :
    pwvMatches pr salt enc.keyLen [v0, v1] pw = true := by
  have hr : kdfRoundsR = kdfRoundsW := rfl
  unfold dkW at h0 h1
  simp [pwvMatches, hr, h0, h1]

theorem strengthR_enc (enc : Enc) : strengthR enc.strengthByte = some (enc.saltLen, enc.keyLen) := by
  cases enc <;> rfl

theorem cipherOf_length (pr : Prims) (enc : Enc) (pw : P) (salt payload : List UInt8) :
    (cipherOf pr enc pw salt payload).length = payload.length := by
  simp [cipherOf, LA.Ctr.xorStream_length]

/-- The reader on a well-formed entry area `salt ‖ pv ‖ ct ‖ mac` followed by anything,
once the retry loop has settled on a passphrase: every field is taken from its place,
the cipher text is decrypted with the key derived from that passphrase, and the
status is decided by the comparison of the two authentication codes alone. -/
theorem readEntry_layout (pr : Prims) (strength saltLen keyLen : Nat)
    (hs : strengthR strength = some (saltLen, keyLen))
    (salt pv ct mac trailing : List UInt8)
    (hsl : salt.length = saltLen) (hpv : pv.length = 2) (hml : mac.length = authCodeSizeR)
    (st st' : St) (pw : P) (t : Nat)
    (hfound : LA.Passphrase.retryLoop retryCapAes (pwvMatches pr salt keyLen pv) st 0 = .found st' pw t) :
    readEntry pr strength (saltLen + 2 + ct.length + authCodeSizeR) (salt ++ pv ++ ct ++ mac ++ trailing) st =
      { status := if (pr.hmac (((pr.kdf pw salt kdfRoundsR (keyLen * 2 + 2)).drop keyLen).take keyLen) ct).take
                      authCodeSizeR == mac then .ok else .warn,
        data := LA.Ctr.xorStream (LA.Ctr.ksByte (pr.aes ((pr.kdf pw salt kdfRoundsR (keyLen * 2 + 2)).take keyLen)) 0) 0 ct,
        st := st',
        consumed := saltLen + 2 + ct.length + authCodeSizeR } := by
  have hlen : ¬ (salt ++ pv ++ ct ++ mac ++ trailing).length < saltLen + 2 := by
    simp [List.length_append, hsl, hpv] <;> omega
  have htake : (salt ++ pv ++ ct ++ mac ++ trailing).take saltLen = salt := by
    rw [← hsl]; simp [List.append_assoc, List.take_append_of_le_length]
  have hdrop : (salt ++ pv ++ ct ++ mac ++ trailing).drop saltLen = pv ++ ct ++ mac ++ trailing := by
    rw [← hsl]; simp [List.append_assoc]
  have hpvt : (pv ++ ct ++ mac ++ trailing).take 2 = pv := by
    rw [← hpv]; simp [List.append_assoc, List.take_append_of_le_length]
  have hbody : (salt ++ pv ++ ct ++ mac ++ trailing).drop (saltLen + 2) = ct ++ mac ++ trailing := by
    rw [← hsl, ← hpv]
    have : salt ++ pv ++ ct ++ mac ++ trailing = (salt ++ pv) ++ (ct ++ mac ++ trailing) := by
      simp [List.append_assoc]
    rw [this, ← List.length_append, List.drop_left']
    rfl
  have hct : (ct ++ mac ++ trailing).take ct.length = ct := by
    simp [List.append_assoc, List.take_append_of_le_length]
  have hmacd : ((ct ++ mac ++ trailing).drop ct.length).take authCodeSizeR = mac := by
    rw [← hml]; simp [List.append_assoc, List.take_append_of_le_length]
  have hc1 : ¬ saltLen + 2 + ct.length + authCodeSizeR < saltLen + 2 + authCodeSizeR := by omega
  have hrem : saltLen + 2 + ct.length + authCodeSizeR - (saltLen + 2 + authCodeSizeR) = ct.length := by omega
  have hc2 : ¬ (ct ++ mac ++ trailing).length < ct.length + authCodeSizeR := by
    simp [List.length_append, hml] <;> omega
  obtain ⟨c, os, hr, hf⟩ := run_init (pr.aes ((pr.kdf pw salt kdfRoundsR (keyLen * 2 + 2)).take keyLen)) [ct]
  simp only [List.flatten_cons, List.flatten_nil, List.append_nil] at hf
  simp only [readEntry, hs, hlen, if_false, htake, hdrop, hpvt, hfound, hc1, hrem, hbody, hc2, hct, hr,
    hf, hmacd]

end LA.WinZipAes
