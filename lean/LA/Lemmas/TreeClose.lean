/-
C12: the fix-up loop of `_archive_write_disk_close` (`closeDisk`).

* `fixup_order`: a directory's fix-up is applied after the fix-ups of all its descendants.
* `closeDisk_spec`: on a `CloseReady` state the loop keeps every name, leaves the
  non-directories alone and gives each directory with a fix-up exactly that fix-up's
  mode / mtime (for root and non-root callers).
-/
import LA.Lemmas.TreeDefs
namespace LA.Tree

/-! ### `FS.lookup` -/

theorem FS.lookup_cons (a : Path) (n : FNode) (fs : FS) (p : Path) :
    FS.lookup ((a, n) :: fs) p = if a = p then some n else FS.lookup fs p := by
  unfold FS.lookup
  by_cases h : a = p
  · simp [h]
  · simp [h]

theorem FS.mem_of_lookup {fs : FS} {p : Path} {n : FNode} (h : fs.lookup p = some n) :
    (p, n) ∈ fs := by
  induction fs with
  | nil => simp [FS.lookup] at h
  | cons x fs ih =>
    obtain ⟨a, m⟩ := x
    rw [FS.lookup_cons] at h
    split at h
    · next e => cases h; subst e; exact List.mem_cons_self
    · exact List.mem_cons_of_mem _ (ih h)

theorem FS.lookup_of_mem {fs : FS} (hn : (fs.map (·.1)).Nodup) {p : Path} {n : FNode}
    (h : (p, n) ∈ fs) : fs.lookup p = some n := by
  induction fs with
  | nil => cases h
  | cons x fs ih =>
    obtain ⟨a, m⟩ := x
    rw [List.map_cons, List.nodup_cons] at hn
    rw [FS.lookup_cons]
    rcases List.mem_cons.mp h with e | h'
    · cases e; simp
    · have hne : a ≠ p := by
        rintro rfl
        exact hn.1 (List.mem_map.mpr ⟨(a, n), h', rfl⟩)
      simp [hne, ih hn.2 h']

/-! ### Changing the node at one path -/

/-- Apply `g` to the node(s) named `p`. -/
def modAt (fs : FS) (p : Path) (g : FNode → FNode) : FS :=
  fs.map fun x => if x.1 = p then (x.1, g x.2) else x

theorem modAt_names (fs : FS) (p : Path) (g : FNode → FNode) :
    (modAt fs p g).map (·.1) = fs.map (·.1) := by
  unfold modAt
  rw [List.map_map]
  apply List.map_congr_left
  intro x _
  simp only [Function.comp]
  split <;> rfl

theorem lookup_modAt (fs : FS) (p : Path) (g : FNode → FNode) (q : Path) :
    (modAt fs p g).lookup q = if p = q then (fs.lookup q).map g else fs.lookup q := by
  induction fs with
  | nil => simp [modAt, FS.lookup]
  | cons x fs ih =>
    obtain ⟨a, m⟩ := x
    have hc : modAt ((a, m) :: fs) p g = (if a = p then (a, g m) else (a, m)) :: modAt fs p g := rfl
    rw [hc]
    by_cases hap : a = p
    · subst hap
      rw [if_pos rfl, FS.lookup_cons, FS.lookup_cons, ih]
      by_cases haq : a = q
      · simp [haq]
      · simp [haq]
    · rw [if_neg hap, FS.lookup_cons, FS.lookup_cons, ih]
      by_cases haq : a = q
      · subst haq
        have : ¬ p = a := fun e => hap e.symm
        simp [this]
      · simp [haq]

theorem mem_modAt {fs : FS} {p : Path} {g : FNode → FNode} {q : Path} {n' : FNode}
    (h : (q, n') ∈ modAt fs p g) : ∃ n, (q, n) ∈ fs ∧ (n' = n ∨ n' = g n) := by
  unfold modAt at h
  obtain ⟨⟨a, m⟩, hm, he⟩ := List.mem_map.mp h
  by_cases hap : a = p
  · simp only [hap, if_true] at he
    cases he
    exact ⟨m, hap ▸ hm, Or.inr rfl⟩
  · simp only [hap, if_false] at he
    cases he
    exact ⟨_, hm, Or.inl rfl⟩

theorem modAt_id (fs : FS) (p : Path) (g : FNode → FNode) (hg : ∀ n, g n = n) :
    modAt fs p g = fs := by
  unfold modAt
  conv => rhs; rw [← List.map_id fs]
  apply List.map_congr_left
  intro x _
  simp [hg]

/-- The part of `CloseReady` that makes `FS.update ino` change exactly one directory. -/
structure Good (fs : FS) : Prop where
  nodupPaths : (fs.map (·.1)).Nodup
  dirInoUnique : ∀ p n q m, (p, n) ∈ fs → (q, m) ∈ fs → n.kind = .dir → n.ino = m.ino → p = q

theorem Good.modAt {fs : FS} (h : Good fs) (p : Path) (g : FNode → FNode)
    (hg : ∀ n, (g n).ino = n.ino ∧ (g n).kind = n.kind) : Good (modAt fs p g) := by
  refine ⟨by rw [modAt_names]; exact h.nodupPaths, ?_⟩
  intro a n b m ha hb hk hi
  obtain ⟨n0, hn0, hn⟩ := mem_modAt ha
  obtain ⟨m0, hm0, hm⟩ := mem_modAt hb
  have h1 : n.ino = n0.ino ∧ n.kind = n0.kind := by
    rcases hn with e | e
    · rw [e]; exact ⟨rfl, rfl⟩
    · rw [e]; exact hg n0
  have h2 : m.ino = m0.ino := by
    rcases hm with e | e
    · rw [e]
    · rw [e]; exact (hg m0).1
  exact h.dirInoUnique a n0 b m0 hn0 hm0 (h1.2 ▸ hk) (by rw [← h1.1, hi, h2])

theorem update_eq_modAt {fs : FS} (h : Good fs) {p : Path} {n : FNode}
    (hl : fs.lookup p = some n) (hk : n.kind = .dir) (g : FNode → FNode) :
    fs.update n.ino g = modAt fs p g := by
  unfold FS.update modAt
  apply List.map_congr_left
  rintro ⟨a, m⟩ hx
  have hpn := FS.mem_of_lookup hl
  by_cases hap : a = p
  · subst hap
    have : fs.lookup a = some m := FS.lookup_of_mem h.nodupPaths hx
    rw [hl] at this
    cases this
    simp
  · have hne : ¬ m.ino = n.ino := by
      intro e
      exact hap (h.dirInoUnique p n a m hpn hx hk e.symm).symm
    simp [hap, hne]

theorem update_update (fs : FS) (i : Nat) (g1 g2 : FNode → FNode) (hg : ∀ x, (g1 x).ino = x.ino) :
    (fs.update i g1).update i g2 = fs.update i fun x => g2 (g1 x) := by
  unfold FS.update
  rw [List.map_map]
  apply List.map_congr_left
  rintro ⟨a, m⟩ _
  by_cases h : m.ino = i
  · simp [h, hg]
  · simp [h]

/-! ### One turn of the loop -/

/-- What a fix-up does to its directory. -/
def fixNode (f : Fixup) (n : FNode) : FNode :=
  { n with mode := if f.doMode then f.mode &&& 0o7777 else n.mode,
           mtime := if f.doTimes then some f.mtime else n.mtime }

/-- The intended effect of one fix-up. -/
def setAt (fs : FS) (f : Fixup) : FS := modAt fs f.path (fixNode f)

theorem applyFixup_eq (o : Opts) {fs : FS} (h : Good fs) (f : Fixup) {n : FNode}
    (hl : fs.lookup f.path = some n) (hk : n.kind = .dir) (hr : fs.reach o.root f.path = true) :
    applyFixup o fs f = setAt fs f := by
  unfold applyFixup setAt
  rw [hl]
  simp only [hk, hr, beq_self_eq_true, Bool.and_self, if_true]
  cases hT : f.doTimes <;> cases hM : f.doMode
  · simp only [Bool.false_eq_true, if_false]
    rw [modAt_id]
    intro x
    simp [fixNode, hT, hM]
  · simp only [Bool.false_eq_true, if_false, if_true]
    rw [update_eq_modAt h hl hk]
    congr 1
    funext x
    simp [fixNode, hT, hM]
  · simp only [Bool.false_eq_true, if_false, if_true]
    rw [update_eq_modAt h hl hk]
    congr 1
    funext x
    simp [fixNode, hT, hM]
  · simp only [if_true]
    rw [update_update, update_eq_modAt h hl hk]
    · congr 1
      funext x
      simp [fixNode, hT, hM]
    · intro x; rfl

theorem fixNode_ino_kind (f : Fixup) (n : FNode) :
    (fixNode f n).ino = n.ino ∧ (fixNode f n).kind = n.kind := ⟨rfl, rfl⟩

theorem Good.foldl_setAt {fs : FS} (h : Good fs) (l : List Fixup) : Good (l.foldl setAt fs) := by
  induction l generalizing fs with
  | nil => exact h
  | cons a l ih => exact ih (h.modAt a.path (fixNode a) (fixNode_ino_kind a))

theorem foldl_setAt_names (fs : FS) (l : List Fixup) :
    (l.foldl setAt fs).map (·.1) = fs.map (·.1) := by
  induction l generalizing fs with
  | nil => rfl
  | cons a l ih => rw [List.foldl_cons, ih, setAt, modAt_names]

theorem foldl_setAt_lookup_other (fs : FS) (l : List Fixup) (p : Path)
    (h : ∀ g ∈ l, g.path ≠ p) : (l.foldl setAt fs).lookup p = fs.lookup p := by
  induction l generalizing fs with
  | nil => rfl
  | cons a l ih =>
    rw [List.foldl_cons, ih _ (fun g hg => h g (List.mem_cons_of_mem _ hg)), setAt, lookup_modAt,
      if_neg (h a List.mem_cons_self)]

theorem foldl_setAt_lookup_self (fs : FS) (l : List Fixup) (hn : (l.map (·.path)).Nodup)
    (g : Fixup) (hg : g ∈ l) :
    (l.foldl setAt fs).lookup g.path = (fs.lookup g.path).map (fixNode g) := by
  induction l generalizing fs with
  | nil => cases hg
  | cons a l ih =>
    rw [List.map_cons, List.nodup_cons] at hn
    rw [List.foldl_cons]
    rcases List.mem_cons.mp hg with e | hg'
    · subst e
      rw [foldl_setAt_lookup_other, setAt, lookup_modAt, if_pos rfl]
      intro b hb e
      exact hn.1 (List.mem_map.mpr ⟨b, hb, e⟩)
    · rw [ih _ hn.2 hg', setAt, lookup_modAt, if_neg]
      intro e
      exact hn.1 (List.mem_map.mpr ⟨g, hg', e.symm⟩)

/-! ### Prefixes -/

theorem path_split (p : Path) (k : Nat) (hk : k < p.length) :
    p = p.take k ++ p[k] :: p.drop (k + 1) := by
  rw [← List.drop_eq_getElem_cons hk, List.take_append_drop]

/-- In a prefix-closed tree every proper prefix of an existing path is a directory. -/
theorem prefix_dirs {fs : FS}
    (hpc : ∀ p n, (p, n) ∈ fs → p ≠ [] → ∃ d, fs.lookup p.dropLast = some d ∧ d.kind = .dir)
    (m : Nat) : ∀ (p : Path) (n : FNode), p.length = m → fs.lookup p = some n →
      ∀ k, k < m → ∃ d, fs.lookup (p.take k) = some d ∧ d.kind = .dir := by
  induction m with
  | zero => intro p n _ _ k hk; omega
  | succ m ih =>
    intro p n hlen hl k hk
    have hne : p ≠ [] := by intro e; subst e; simp at hlen
    obtain ⟨d, hd, hdk⟩ := hpc p n (FS.mem_of_lookup hl) hne
    have hdl : p.dropLast = p.take m := by rw [List.dropLast_eq_take, hlen]; rfl
    by_cases hkm : k = m
    · subst hkm
      exact ⟨d, hdl ▸ hd, hdk⟩
    · have hlt : k < m := by omega
      have := ih p.dropLast d (by simp [hlen]) hd k hlt
      rwa [hdl, List.take_take, Nat.min_eq_left (Nat.le_of_lt hlt)] at this

/-! ### The loop -/

theorem foldl_applyFixup_eq (o : Opts) (fs0 : FS) (l : List Fixup) (h : CloseReady o fs0 l) :
    ∀ (todo done : List Fixup), sortDir l = done ++ todo →
      todo.foldl (applyFixup o) (done.foldl setAt fs0) = todo.foldl setAt (done.foldl setAt fs0) := by
  intro todo
  induction todo with
  | nil => intro done _; rfl
  | cons f todo ih =>
    intro done hs
    have hgood : Good (done.foldl setAt fs0) :=
      Good.foldl_setAt ⟨h.nodupPaths, h.dirInoUnique⟩ done
    have hnd : ((done ++ f :: todo).map (·.path)).Nodup := hs ▸ sortDir_nodup l h.fxNodup
    have hfl : f ∈ l := (sortDir_mem l f).mp (by rw [hs]; simp)
    -- `f` has not been processed yet
    have hfresh : ∀ g ∈ done, g.path ≠ f.path := by
      intro g hg e
      rw [List.map_append, List.map_cons] at hnd
      exact (List.nodup_append.mp hnd).2.2 g.path (List.mem_map.mpr ⟨g, hg, rfl⟩) f.path
        List.mem_cons_self e
    obtain ⟨n, hn, hnk⟩ := h.fxDirs f hfl
    have hl : (done.foldl setAt fs0).lookup f.path = some n := by
      rw [foldl_setAt_lookup_other _ _ _ hfresh, hn]
    -- no ancestor of `f` has been processed yet
    have hanc : ∀ k, k < f.path.length → ∀ g ∈ done, g.path ≠ f.path.take k := by
      intro k hk g hg e
      obtain ⟨a, b, hab⟩ := List.append_of_mem hg
      have hs' : sortDir l = a ++ g :: (b ++ f :: todo) := by rw [hs, hab]; simp
      have hsplit : f.path = g.path ++ f.path[k] :: f.path.drop (k + 1) := by
        rw [e]; exact path_split f.path k hk
      exact sortDir_descendants_first l a (b ++ f :: todo) g f hs' _ _ hsplit (by simp)
    have hr : (done.foldl setAt fs0).reach o.root f.path = true := by
      unfold FS.reach
      rw [List.all_eq_true]
      intro k hk
      have hk' : k < f.path.length := List.mem_range.mp hk
      obtain ⟨d, hd, hdk⟩ := prefix_dirs h.prefixClosed f.path.length f.path n rfl hn k hk'
      rw [foldl_setAt_lookup_other _ _ _ (hanc k hk'), hd]
      have hopen := h.dirsOpen _ d (FS.mem_of_lookup hd) hdk
      rcases hopen with hroot | hx
      · simp [FNode.searchableDir, hdk, hroot]
      · simp [FNode.searchableDir, hdk, hx]
    rw [List.foldl_cons, List.foldl_cons, applyFixup_eq o hgood f hl hnk hr]
    have := ih (done ++ [f]) (by rw [hs]; simp)
    simpa [List.foldl_append] using this

theorem closeDisk_eq (o : Opts) (w : WD) (h : CloseReady o w.fs w.fixups) :
    closeDisk o w = (sortDir w.fixups).foldl setAt w.fs :=
  foldl_applyFixup_eq o w.fs w.fixups h (sortDir w.fixups) [] rfl

/-- The fix-up loop keeps all names, leaves non-directories alone, and gives every directory
that has a fix-up exactly the mode / mtime of that fix-up (other directories stay as they are),
provided the state left by the entries is `CloseReady`.  This holds for root and non-root:
when the fix-up of a directory runs, none of its ancestors has been fixed up yet (sorted order),
so they are all still searchable. -/
theorem closeDisk_spec (o : Opts) (w : WD) (h : CloseReady o w.fs w.fixups) :
    (closeDisk o w).map (·.1) = w.fs.map (·.1) ∧
    (∀ p n, w.fs.lookup p = some n → n.kind ≠ .dir → (closeDisk o w).lookup p = some n) ∧
    (∀ p n, w.fs.lookup p = some n → n.kind = .dir →
      ∃ n', (closeDisk o w).lookup p = some n' ∧ n'.kind = .dir ∧ n'.ino = n.ino ∧
        match w.fixups.find? (fun f => f.path == p) with
        | some f => n'.mode = (if f.doMode then f.mode &&& 0o7777 else n.mode) ∧
                    n'.mtime = (if f.doTimes then some f.mtime else n.mtime)
        | none => n' = n) := by
  rw [closeDisk_eq o w h]
  have hnd := sortDir_nodup w.fixups h.fxNodup
  refine ⟨foldl_setAt_names _ _, ?_, ?_⟩
  · intro p n hl hk
    rw [foldl_setAt_lookup_other _ _ _ ?_, hl]
    intro g hg e
    obtain ⟨m, hm, hmk⟩ := h.fxDirs g ((sortDir_mem _ g).mp hg)
    rw [e, hl] at hm
    cases hm
    exact hk hmk
  · intro p n hl hk
    cases hfind : w.fixups.find? (fun f => f.path == p) with
    | none =>
      refine ⟨n, ?_, hk, rfl, rfl⟩
      rw [foldl_setAt_lookup_other _ _ _ ?_, hl]
      intro g hg e
      have := List.find?_eq_none.mp hfind g ((sortDir_mem _ g).mp hg)
      simp [e] at this
    | some f =>
      have hfm : f ∈ w.fixups := List.mem_of_find?_eq_some hfind
      have hfp : f.path = p := by simpa using List.find?_some hfind
      refine ⟨fixNode f n, ?_, hk, rfl, rfl, rfl⟩
      rw [← hfp, foldl_setAt_lookup_self _ _ hnd f ((sortDir_mem _ f).mpr hfm), hfp, hl]
      rfl

/-! ### Order -/

/-- In the order in which `_archive_write_disk_close` applies the fix-ups, the fix-up of a
directory comes strictly after the fix-up of each of its descendants. -/
theorem fixup_order (l : List Fixup) (hn : (l.map (·.path)).Nodup) (f g : Fixup) (hf : f ∈ l) (hg : g ∈ l)
    (n : Name) (r : Path) (hd : g.path = f.path ++ n :: r) :
    ∃ a b c, sortDir l = a ++ g :: b ++ f :: c := by
  have _ := hn
  obtain ⟨pre, post, hs⟩ := List.append_of_mem ((sortDir_mem l f).mpr hf)
  have hnp : g ∉ post := sortDir_descendants_first l pre post f g hs n r hd
  have hne : g ≠ f := by
    intro e
    rw [e] at hd
    have := congrArg List.length hd
    simp at this
  have hgs : g ∈ pre ++ f :: post := hs ▸ (sortDir_mem l g).mpr hg
  have hgp : g ∈ pre := by
    rcases List.mem_append.mp hgs with h1 | h1
    · exact h1
    · rcases List.mem_cons.mp h1 with h2 | h2
      · exact absurd h2 hne
      · exact absurd h2 hnp
  obtain ⟨a, b, hab⟩ := List.append_of_mem hgp
  exact ⟨a, b, post, by rw [hs, hab]⟩

end LA.Tree
