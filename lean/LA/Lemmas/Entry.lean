/-
Helper definitions and lemmas for C14 (model: LA/Model/Entry.lean).

* bit-vector identities used by the flag word `ae_set` and the mode word;
* `fixNs` in closed form;
* the *group view*: the entry is a product of small state machines (one per
  group of fields that setters and getters of the same name share).  `view G e`
  is the part of `e` that group `G` consists of, `touches op G` says whether an
  operation can change it, `Getter`/`obs` are the public getters as data.
-/
import LA.Model.Entry
namespace LA.Entry
open LA.Gen.EntryBits

/-! ### bit-vector identities -/

theorem bv_or_and_self {w} (s a : BitVec w) : (s ||| a) &&& a = a := by
  ext i hi; simp only [BitVec.getElem_and, BitVec.getElem_or]
  cases s[i] <;> cases a[i] <;> rfl

theorem bv_andnot_and_self {w} (s a : BitVec w) : (s &&& ~~~a) &&& a = 0 := by
  ext i hi; simp

theorem bv_or_and_disj {w} (s a b : BitVec w) (h : a &&& b = 0) : (s ||| a) &&& b = s &&& b := by
  ext i hi
  have := congrArg (fun x => x[i]) h
  simp at this
  simp only [BitVec.getElem_and, BitVec.getElem_or]
  revert this; cases s[i] <;> cases a[i] <;> cases b[i] <;> simp

theorem bv_andnot_and_disj {w} (s a b : BitVec w) (h : a &&& b = 0) : (s &&& ~~~a) &&& b = s &&& b := by
  ext i hi
  have := congrArg (fun x => x[i]) h
  simp at this
  simp only [BitVec.getElem_and, BitVec.getElem_not]
  revert this; cases s[i] <;> cases a[i] <;> cases b[i] <;> simp

/-- `set_filetype` seen through `filetype`. -/
theorem bv_ft_ft (m k t : BitVec 32) : k &&& ((m &&& ~~~k) ||| (k &&& t)) = k &&& t := by
  ext i hi; simp only [BitVec.getElem_and, BitVec.getElem_or, BitVec.getElem_not]
  cases m[i] <;> cases k[i] <;> cases t[i] <;> rfl
/-- `set_filetype` seen through `perm`. -/
theorem bv_ft_perm (m k t : BitVec 32) : ~~~k &&& ((m &&& ~~~k) ||| (k &&& t)) = ~~~k &&& m := by
  ext i hi; simp only [BitVec.getElem_and, BitVec.getElem_or, BitVec.getElem_not]
  cases m[i] <;> cases k[i] <;> cases t[i] <;> rfl
/-- `set_perm` seen through `perm`. -/
theorem bv_perm_perm (m k p : BitVec 32) : ~~~k &&& ((m &&& k) ||| (~~~k &&& p)) = ~~~k &&& p := by
  ext i hi; simp only [BitVec.getElem_and, BitVec.getElem_or, BitVec.getElem_not]
  cases m[i] <;> cases k[i] <;> cases p[i] <;> rfl
/-- `set_perm` seen through `filetype`. -/
theorem bv_perm_ft (m k p : BitVec 32) : k &&& ((m &&& k) ||| (~~~k &&& p)) = k &&& m := by
  ext i hi; simp only [BitVec.getElem_and, BitVec.getElem_or, BitVec.getElem_not]
  cases m[i] <;> cases k[i] <;> cases p[i] <;> rfl
/-- the mode word is its file-type part together with its permission part -/
theorem bv_split (m k : BitVec 32) : (k &&& m) ||| (~~~k &&& m) = m := by
  ext i hi; simp only [BitVec.getElem_and, BitVec.getElem_or, BitVec.getElem_not]
  cases m[i] <;> cases k[i] <;> rfl

/-! ### FIX_NS in closed form -/

theorem tdivmod_facts (ns : Int) :
    1000000000 * ns.tdiv 1000000000 + ns.tmod 1000000000 = ns ∧ ns.tmod 1000000000 < 1000000000 ∧
    -1000000000 < ns.tmod 1000000000 ∧ (0 ≤ ns → 0 ≤ ns.tmod 1000000000) ∧ (ns ≤ 0 → ns.tmod 1000000000 ≤ 0) := by
  refine ⟨Int.mul_tdiv_add_tmod ns _, Int.tmod_lt_of_pos _ (by decide), Int.lt_tmod_of_pos _ (by decide),
    Int.tmod_nonneg _, ?_⟩
  intro h
  have := Int.tmod_nonneg 1000000000 (a := -ns) (by omega)
  rw [Int.neg_tmod] at this; omega

theorem inI64_iff (x : Int) : inI64 x = true ↔ (-9223372036854775808 ≤ x ∧ x ≤ 9223372036854775807) := by
  unfold inI64 INT64_MIN INT64_MAX
  rw [Bool.and_eq_true, decide_eq_true_iff, decide_eq_true_iff]

/-- The macro computes floor division and the non-negative remainder of the total
number of nanoseconds, and is defined exactly when the quotient is an `int64`. -/
theorem fixNs_spec (t ns : Int) (ht : inI64 t = true) :
    fixNs t ns = if inI64 ((t * 1000000000 + ns) / 1000000000) then
      some ((t * 1000000000 + ns) / 1000000000, (t * 1000000000 + ns) % 1000000000) else none := by
  obtain ⟨h1, h2, h3, h4, h5⟩ := tdivmod_facts ns
  unfold fixNs
  have hN : ((nsPerSec : Nat) : Int) = 1000000000 := by decide
  simp only [hN]
  generalize ns.tdiv 1000000000 = q at *
  generalize ns.tmod 1000000000 = r at *
  have e1 : (t * 1000000000 + ns) / 1000000000 = if r < 0 then t + q - 1 else t + q := by split <;> omega
  have e2 : (t * 1000000000 + ns) % 1000000000 = if r < 0 then r + 1000000000 else r := by split <;> omega
  rw [e1, e2]
  rw [inI64_iff] at ht
  simp only [Bool.not_eq_true', ← Bool.not_eq_true, inI64_iff]
  by_cases hr : r < 0
  · simp only [hr, if_true]
    repeat' split
    all_goals first | rfl | omega
  · simp only [hr, if_false]
    repeat' split
    all_goals first | rfl | omega

theorem fixNs_zero : fixNs 0 0 = some (0, 0) := by decide

/-! ### getters as data -/

inductive Val
  | int (i : Int) | nat (n : Nat) | bool (b : Bool) | bv (m : BitVec 32) | str (s : Option Bytes)
  | chars (l : List Char) | pair (a b : Nat) | blocks (l : List (Int × Int)) | xattrs (l : List (Bytes × Bytes))
  | stat (s : StatRec)
  deriving DecidableEq, Repr

/-- The public getters (each constructor names the C function(s)).  The three
views (`X`, `X_utf8`, `X_w`) of a string are one getter: see the model's header. -/
inductive Getter
  | timeSec (f : TimeField) | timeNsec (f : TimeField) | timeIsSet (f : TimeField)
  | dev | devmajor | devminor | devIsSet | rdev | rdevmajor | rdevminor | rdevIsSet
  | ino | inoIsSet | nlink | uid | uidIsSet | gid | gidIsSet | size | sizeIsSet
  | mode | filetype | filetypeIsSet | perm | permIsSet | strmode
  | str (f : StrField) | hardlink | hardlinkIsSet | symlink
  | fflags
  /-- `archive_entry_fflags_text` -/
  | fflagsText
  | symlinkType | isDataEncrypted | isMetadataEncrypted | isEncrypted
  /-- `archive_entry_sparse_count` -/
  | sparseCount
  /-- what `sparse_reset` followed by `sparse_next` until WARN enumerates -/
  | sparseBlocks
  | xattrCount
  /-- what `xattr_reset` followed by `xattr_next` until WARN enumerates -/
  | xattrList
  | macMetadata | digest (t : Int)
  /-- the `struct stat` `archive_entry_stat` returns -/
  | stat
  deriving DecidableEq, Repr

def obs : Getter → Entry → Val
  | .timeSec f, e => .int (timeSec f e) | .timeNsec f, e => .nat (timeNsec f e) | .timeIsSet f, e => .bool (timeIsSet f e)
  | .dev, e => .nat (dev e) | .devmajor, e => .nat (devmajor e) | .devminor, e => .nat (devminor e)
  | .devIsSet, e => .bool (devIsSet e)
  | .rdev, e => .nat (rdev e) | .rdevmajor, e => .nat (rdevmajor e) | .rdevminor, e => .nat (rdevminor e)
  | .rdevIsSet, e => .bool (rdevIsSet e)
  | .ino, e => .int (ino e) | .inoIsSet, e => .bool (inoIsSet e) | .nlink, e => .nat (nlink e)
  | .uid, e => .int (uid e) | .uidIsSet, e => .bool (uidIsSet e) | .gid, e => .int (gid e) | .gidIsSet, e => .bool (gidIsSet e)
  | .size, e => .int (size e) | .sizeIsSet, e => .bool (sizeIsSet e)
  | .mode, e => .bv (mode e) | .filetype, e => .bv (filetype e) | .filetypeIsSet, e => .bool (filetypeIsSet e)
  | .perm, e => .bv (perm e) | .permIsSet, e => .bool (permIsSet e) | .strmode, e => .chars (strmode e)
  | .str f, e => .str (getStr f e) | .hardlink, e => .str (hardlink e) | .hardlinkIsSet, e => .bool (hardlinkIsSet e)
  | .symlink, e => .str (symlink e)
  | .fflags, e => .pair (fflags e).1 (fflags e).2 | .fflagsText, e => .str (fflagsTextV e)
  | .symlinkType, e => .int (symlinkType e)
  | .isDataEncrypted, e => .bool (isDataEncrypted e) | .isMetadataEncrypted, e => .bool (isMetadataEncrypted e)
  | .isEncrypted, e => .nat (isEncrypted e)
  | .sparseCount, e => .nat (sparseCount e).2 | .sparseBlocks, e => .blocks (sparseCount e).1.sparse
  | .xattrCount, e => .nat (xattrCount e) | .xattrList, e => .xattrs e.xattrs
  | .macMetadata, e => .str (macMetadata e) | .digest t, e => .str (digest e t)
  | .stat, e => .stat (stat e).2

/-! ### groups of fields -/

inductive Group
  | time (f : TimeField) | size | sparse | dev | rdev | ino | nlink | uid | gid
  | filetype | perm | modeWord | str (f : StrField) | link | strmode
  | fflags | symlinkType | encryption | xattr | mac | digest
  /-- everything `archive_entry_stat` reads, plus its cache -/
  | statAll
  deriving DecidableEq, Repr

/-- The part of an entry a group consists of, as plain data. -/
structure View where
  bits : List Bool := []
  ints : List Int := []
  nats : List Nat := []
  strs : List (Option Bytes) := []
  bvs : List (BitVec 32) := []
  enc : BitVec 8 := 0
  blocks : List (Int × Int) := []
  cur : Option Nat := none
  xattrs : List (Bytes × Bytes) := []
  digests : List Bytes := []
  st : StatRec := {}
  deriving DecidableEq, Repr

def view : Group → Entry → View
  | .time f, e => { bits := [e.has f.flag], ints := [timeSec f e], nats := [timeNsec f e] }
  | .size, e => { bits := [e.has fSIZE], nats := [e.aest_size] }
  | .sparse, e => { nats := [e.aest_size], blocks := e.sparse, cur := e.sparse_p }
  | .dev, e => { bits := [e.has fDEV, e.aest_dev_is_broken_down], nats := [e.aest_dev, e.aest_devmajor, e.aest_devminor] }
  | .rdev, e => { bits := [e.has fRDEV, e.aest_rdev_is_broken_down], nats := [e.aest_rdev, e.aest_rdevmajor, e.aest_rdevminor] }
  | .ino, e => { bits := [e.has fINO], ints := [e.aest_ino] }
  | .nlink, e => { nats := [e.aest_nlink] }
  | .uid, e => { bits := [e.has fUID], ints := [e.aest_uid] }
  | .gid, e => { bits := [e.has fGID], ints := [e.aest_gid] }
  | .filetype, e => { bits := [e.has fFILETYPE], bvs := [mIFMT &&& e.mode] }
  | .perm, e => { bits := [e.has fPERM], bvs := [~~~mIFMT &&& e.mode] }
  | .modeWord, e => { bvs := [e.mode] }
  | .str f, e => { strs := [e.str f] }
  | .link, e => { bits := [e.has fHARDLINK, e.has fSYMLINK], strs := [e.ae_linkname] }
  | .strmode, e => { bits := [e.has fHARDLINK, e.has fSYMLINK], strs := [e.ae_linkname], bvs := [e.mode] }
  | .fflags, e => { nats := [e.ae_fflags_set, e.ae_fflags_clear], strs := [e.ae_fflags_text] }
  | .symlinkType, e => { ints := [e.ae_symlink_type] }
  | .encryption, e => { enc := e.encryption }
  | .xattr, e => { xattrs := e.xattrs, nats := [e.xattr_p] }
  | .mac, e => { strs := [e.mac_metadata] }
  | .digest, e => { digests := e.digests }
  | .statAll, e =>
    { bits := [e.has fRDEV, e.aest_dev_is_broken_down, e.aest_rdev_is_broken_down, e.stat_valid],
      ints := [e.aest_atime, e.aest_ctime, e.aest_mtime, e.aest_gid, e.aest_ino, e.aest_uid],
      nats := [e.aest_atime_nsec, e.aest_ctime_nsec, e.aest_mtime_nsec, e.aest_nlink, e.aest_size,
               e.aest_dev, e.aest_devmajor, e.aest_devminor, e.aest_rdev, e.aest_rdevmajor, e.aest_rdevminor],
      bvs := [e.mode], st := e.stat_cache }

/-- The group a getter reads. -/
def Getter.group : Getter → Group
  | .timeSec f | .timeNsec f | .timeIsSet f => .time f
  | .dev | .devmajor | .devminor | .devIsSet => .dev
  | .rdev | .rdevmajor | .rdevminor | .rdevIsSet => .rdev
  | .ino | .inoIsSet => .ino | .nlink => .nlink | .uid | .uidIsSet => .uid | .gid | .gidIsSet => .gid
  | .size | .sizeIsSet => .size
  | .mode => .modeWord | .filetype | .filetypeIsSet => .filetype | .perm | .permIsSet => .perm | .strmode => .strmode
  | .str f => .str f | .hardlink | .hardlinkIsSet | .symlink => .link
  | .fflags | .fflagsText => .fflags | .symlinkType => .symlinkType
  | .isDataEncrypted | .isMetadataEncrypted | .isEncrypted => .encryption
  | .sparseCount | .sparseBlocks => .sparse | .xattrCount | .xattrList => .xattr
  | .macMetadata => .mac | .digest _ => .digest | .stat => .statAll

def statGroups : List Group :=
  [.time .atime, .time .ctime, .time .mtime, .time .birthtime, .dev, .gid, .uid, .ino, .nlink, .rdev, .size, .sparse,
   .filetype, .perm, .modeWord, .strmode, .statAll]

/-- Can this operation change this group?  (`relevant` in the history theorems.) -/
def touches : Op → Group → Bool
  | .setTime f _ _, G | .unsetTime f, G => G == .time f || G == .statAll
  | .setSize _, G | .unsetSize, G => G == .size || G == .sparse || G == .statAll
  | .setDev _, G | .setDevmajor _, G | .setDevminor _, G => G == .dev || G == .statAll
  | .setRdev _, G | .setRdevmajor _, G | .setRdevminor _, G => G == .rdev || G == .statAll
  | .setIno _, G => G == .ino || G == .statAll
  | .setNlink _, G => G == .nlink || G == .statAll
  | .setUid _, G => G == .uid || G == .statAll
  | .setGid _, G => G == .gid || G == .statAll
  | .setMode _, G => G == .filetype || G == .perm || G == .modeWord || G == .strmode || G == .statAll
  | .setPerm _, G => G == .perm || G == .modeWord || G == .strmode || G == .statAll
  | .setFiletype _, G => G == .filetype || G == .modeWord || G == .strmode || G == .statAll
  | .setStr f _, G => G == .str f
  | .setHardlink _, G | .copyHardlink _, G | .setSymlink _, G | .setLink _, G
  | .setLinkToHardlink, G | .setLinkToSymlink, G => G == .link || G == .strmode
  | .setFflags _ _, G | .copyFflagsText _, G | .fflagsText, G => G == .fflags
  | .setSymlinkType _, G => G == .symlinkType
  | .setIsDataEncrypted _, G | .setIsMetadataEncrypted _, G => G == .encryption
  | .sparseAdd _ _, G | .sparseClear, G | .sparseCount, G | .sparseReset, G | .sparseNext, G => G == .sparse
  | .xattrAdd _ _, G | .xattrClear, G | .xattrReset, G | .xattrNext, G => G == .xattr
  | .copyMacMetadata _, G => G == .mac
  | .setDigest _ _, G => G == .digest
  | .copyStat _, G => statGroups.contains G
  | .stat, G => G == .statAll
  | .clear, _ => true

/-! ### flag tests on an updated flag word -/

theorem hasF_or_self (s a : Flags) (h : a ≠ 0#32) : hasF (s ||| a) a = true := by
  simp [hasF, bv_or_and_self, h]
theorem hasF_andnot_self (s a : Flags) : hasF (s &&& ~~~a) a = false := by
  simp [hasF, bv_andnot_and_self]
theorem hasF_or_disj (s a b : Flags) (h : a &&& b = 0) : hasF (s ||| a) b = hasF s b := by
  simp [hasF, bv_or_and_disj _ _ _ h]
theorem hasF_andnot_disj (s a b : Flags) (h : a &&& b = 0) : hasF (s &&& ~~~a) b = hasF s b := by
  simp [hasF, bv_andnot_and_disj _ _ _ h]
theorem hasF_or_assoc (s a b c : Flags) : hasF (s ||| (a ||| b)) c = hasF ((s ||| a) ||| b) c := by
  rw [BitVec.or_assoc]
theorem hasF_zero (f : Flags) : hasF 0 f = false := by simp [hasF]

theorem hasF_ite (c : Prop) {inst : Decidable c} (x y f : Flags) :
    hasF (@ite _ c inst x y) f = @ite _ c inst (hasF x f) (hasF y f) := by split <;> rfl

theorem view_ite (G : Group) (c : Prop) {inst : Decidable c} (a b : Entry) :
    view G (@ite _ c inst a b) = @ite _ c inst (view G a) (view G b) := by split <;> rfl

theorem view_cond (G : Group) (c : Bool) (a b : Entry) :
    view G (bif c then a else b) = bif c then view G a else view G b := by cases c <;> rfl
theorem hasF_cond (c : Bool) (x y f : Flags) :
    hasF (bif c then x else y) f = bif c then hasF x f else hasF y f := by cases c <;> rfl

theorem sparseCount_fst (e : Entry) :
    (sparseCount e).1 = bif sparseWhole (size e) e.sparse then sparseClear e else e := by
  unfold sparseCount; cases sparseWhole (size e) e.sparse <;> rfl
theorem sparseCount_snd (e : Entry) :
    (sparseCount e).2 = bif sparseWhole (size e) e.sparse then 0 else e.sparse.length := by
  unfold sparseCount; cases sparseWhole (size e) e.sparse <;> rfl

/- Congruence of one setter with respect to every group view: case split on the
group, unfold the setter, normalise the flag tests, rewrite with the hypothesis. -/
set_option hygiene false in
macro "entry_view" defs:Lean.Parser.Tactic.simpLemma,* : tactic => `(tactic| (
  cases G <;> (try (rename_i f'; cases f')) <;>
    simp only [view, View.mk.injEq, List.cons.injEq, and_true, true_and, Entry.has, timeSec, timeNsec, Entry.str,
      TimeField.flag] at h <;>
    (try simp only [$defs,*, view_ite, view_cond]) <;>
    simp (disch := decide) [view, Entry.has, hasF_ite, hasF_cond, hasF_or_assoc, hasF_or_self, hasF_andnot_self, hasF_or_disj, hasF_andnot_disj,
      timeSec, timeNsec, Entry.str, TimeField.flag, bv_ft_ft, bv_ft_perm, bv_perm_perm, bv_perm_ft, h, $defs,*]))

/- Same with the definitions to unfold before `view` is pushed through `if` (`outer`) named separately. -/
set_option hygiene false in
macro "entry_view2" outer:Lean.Parser.Tactic.simpLemma,* " | " defs:Lean.Parser.Tactic.simpLemma,* : tactic => `(tactic| (
  cases G <;> (try (rename_i f'; cases f')) <;>
    simp only [view, View.mk.injEq, List.cons.injEq, and_true, true_and, Entry.has, timeSec, timeNsec, Entry.str,
      TimeField.flag] at h <;>
    (try simp only [$outer,*, view_ite, view_cond]) <;>
    simp (disch := decide) [view, Entry.has, hasF_ite, hasF_cond, hasF_or_assoc, hasF_or_self, hasF_andnot_self, hasF_or_disj, hasF_andnot_disj,
      timeSec, timeNsec, Entry.str, TimeField.flag, bv_ft_ft, bv_ft_perm, bv_perm_perm, bv_perm_ft, h, $outer,*, $defs,*]))

set_option hygiene false in
macro "entry_frame2" outer:Lean.Parser.Tactic.simpLemma,* " | " defs:Lean.Parser.Tactic.simpLemma,* : tactic => `(tactic| (
  cases G <;> (try (rename_i f'; cases f')) <;> simp [touches, statGroups] at ht <;>
    (try simp only [$outer,*, view_ite, view_cond]) <;>
    simp (disch := decide) [view, Entry.has, hasF_ite, hasF_cond, hasF_or_assoc, hasF_or_self, hasF_andnot_self, hasF_or_disj, hasF_andnot_disj,
      timeSec, timeNsec, Entry.str, TimeField.flag, bv_ft_ft, bv_ft_perm, bv_perm_perm, bv_perm_ft, $outer,*, $defs,*]))

/- Frame property of one setter: case split on the group; the groups the setter
touches are excluded by `ht`, every other view is unchanged. -/
set_option hygiene false in
macro "entry_frame" defs:Lean.Parser.Tactic.simpLemma,* : tactic => `(tactic| (
  cases G <;> (try (rename_i f'; cases f')) <;> simp [touches, statGroups] at ht <;>
    (try simp only [$defs,*, view_ite, view_cond]) <;>
    simp (disch := decide) [view, Entry.has, hasF_ite, hasF_cond, hasF_or_assoc, hasF_or_self, hasF_andnot_self, hasF_or_disj, hasF_andnot_disj,
      timeSec, timeNsec, Entry.str, TimeField.flag, bv_ft_ft, bv_ft_perm, bv_perm_perm, bv_perm_ft, $defs,*]))

end LA.Entry
