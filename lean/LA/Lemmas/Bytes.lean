/- Byte-block lemmas: `poke` (memcpy into a block), `slice`, fixed-width C strings. Core Lean only. -/
import LA.Model.Codec
namespace LA.Codec

theorem poke_length (h : List Nat) (off : Nat) (bs : List Nat) (hle : off + bs.length ≤ h.length) :
    (poke h off bs).length = h.length := by
  unfold poke
  simp only [List.length_append, List.length_take, List.length_drop]
  omega

theorem slice_length (h : List Nat) (o n : Nat) (hle : o + n ≤ h.length) : (slice h o n).length = n := by
  unfold slice; simp only [List.length_take, List.length_drop]; omega

/-- A range that the write does not touch. -/
theorem slice_poke_disjoint (h : List Nat) (off : Nat) (bs : List Nat) (o n : Nat)
    (hle : off + bs.length ≤ h.length) (hd : o + n ≤ off ∨ off + bs.length ≤ o) :
    slice (poke h off bs) o n = slice h o n := by
  unfold slice poke
  apply List.ext_getElem?
  intro i
  simp only [List.getElem?_take, List.getElem?_drop, List.getElem?_append, List.length_take,
    List.length_append]
  have hm : min off h.length = off := by omega
  rw [hm]
  by_cases hi : i < n
  · simp only [if_pos hi]
    rcases hd with hd | hd
    · have a : o + i < off + bs.length := by omega
      have b : o + i < off := by omega
      simp only [a, b, if_true]
    · have a : ¬ o + i < off + bs.length := by omega
      simp only [a, if_false]
      congr 1; omega
  · simp only [if_neg hi]

/-- Reading the written range (and possibly beyond it). -/
theorem slice_poke_own (h : List Nat) (off : Nat) (bs : List Nat) (n : Nat)
    (hle : off + bs.length ≤ h.length) (hn : bs.length ≤ n) :
    slice (poke h off bs) off n = bs ++ slice h (off + bs.length) (n - bs.length) := by
  unfold slice poke
  apply List.ext_getElem?
  intro i
  simp only [List.getElem?_take, List.getElem?_drop, List.getElem?_append, List.length_take,
    List.length_append]
  have hm : min off h.length = off := by omega
  rw [hm]
  by_cases hb : i < bs.length
  · have a : i < n := by omega
    have b : off + i < off + bs.length := by omega
    have c : ¬ off + i < off := by omega
    simp only [a, b, c, hb, if_true, if_false]
    congr 1; omega
  · have b : ¬ off + i < off + bs.length := by omega
    simp only [b, hb, if_false]
    by_cases hi : i < n
    · have d : i - bs.length < n - bs.length := by omega
      simp only [hi, d, if_true]
      congr 1; omega
    · have d : ¬ i - bs.length < n - bs.length := by omega
      simp only [hi, d, if_false]

theorem applyWrites_length (h : List Nat) (ws : List (Nat × List Nat))
    (hin : ∀ w ∈ ws, w.1 + w.2.length ≤ h.length) : (applyWrites h ws).length = h.length := by
  induction ws generalizing h with
  | nil => rfl
  | cons w ws ih =>
    have hw := hin w (List.mem_cons_self ..)
    rw [applyWrites, ih]
    · exact poke_length _ _ _ hw
    · intro w' hw'; rw [poke_length _ _ _ hw]; exact hin w' (List.mem_cons_of_mem _ hw')

theorem slice_applyWrites_untouched (h : List Nat) (ws : List (Nat × List Nat)) (o n : Nat)
    (hin : ∀ w ∈ ws, w.1 + w.2.length ≤ h.length)
    (hd : ∀ w ∈ ws, o + n ≤ w.1 ∨ w.1 + w.2.length ≤ o) :
    slice (applyWrites h ws) o n = slice h o n := by
  induction ws generalizing h with
  | nil => rfl
  | cons w ws ih =>
    have hw := hin w (List.mem_cons_self ..)
    rw [applyWrites, ih]
    · exact slice_poke_disjoint _ _ _ _ _ hw (hd w (List.mem_cons_self ..))
    · intro w' hw'; rw [poke_length _ _ _ hw]; exact hin w' (List.mem_cons_of_mem _ hw')
    · intro w' hw'; exact hd w' (List.mem_cons_of_mem _ hw')

/-- The field at `off` of width `n` after a sequence of writes of which exactly one,
`(off, bs)`, touches it. -/
theorem slice_applyWrites_own (h : List Nat) (ws1 ws2 : List (Nat × List Nat)) (off : Nat) (bs : List Nat)
    (n : Nat) (hn : bs.length ≤ n) (hfield : off + n ≤ h.length)
    (hin1 : ∀ w ∈ ws1, w.1 + w.2.length ≤ h.length) (hin2 : ∀ w ∈ ws2, w.1 + w.2.length ≤ h.length)
    (hd1 : ∀ w ∈ ws1, off + n ≤ w.1 ∨ w.1 + w.2.length ≤ off)
    (hd2 : ∀ w ∈ ws2, off + n ≤ w.1 ∨ w.1 + w.2.length ≤ off) :
    slice (applyWrites h (ws1 ++ (off, bs) :: ws2)) off n
      = bs ++ slice h (off + bs.length) (n - bs.length) := by
  induction ws1 generalizing h with
  | nil =>
    simp only [List.nil_append, applyWrites]
    have hle : off + bs.length ≤ h.length := by omega
    rw [slice_applyWrites_untouched _ _ _ _ (by intro w hw; rw [poke_length _ _ _ hle]; exact hin2 w hw) hd2]
    exact slice_poke_own _ _ _ _ hle hn
  | cons w ws ih =>
    have hw := hin1 w (List.mem_cons_self ..)
    have hdw := hd1 w (List.mem_cons_self ..)
    simp only [List.cons_append, applyWrites]
    rw [ih]
    · congr 1
      exact slice_poke_disjoint _ _ _ _ _ hw (by omega)
    · rw [poke_length _ _ _ hw]; exact hfield
    · intro w' hw'; rw [poke_length _ _ _ hw]; exact hin1 w' (List.mem_cons_of_mem _ hw')
    · intro w' hw'; rw [poke_length _ _ _ hw]; exact hin2 w' hw'
    · intro w' hw'; exact hd1 w' (List.mem_cons_of_mem _ hw')

/-! ### fixed-width C strings -/

/-- No NUL byte: a C string. -/
def noNul (s : List Nat) : Prop := ∀ c ∈ s, c ≠ 0

theorem cstr_append_zero (s : List Nat) (r : List Nat) (hs : noNul s) : cstr (s ++ 0 :: r) = s := by
  unfold cstr
  induction s with
  | nil => simp
  | cons c s ih =>
    have hc : c ≠ 0 := hs c (List.mem_cons_self ..)
    simp only [List.cons_append, List.takeWhile_cons]
    simp only [hc, ne_eq, not_false_eq_true, decide_true, if_true]
    congr 1
    exact ih (fun c' hc' => hs c' (List.mem_cons_of_mem _ hc'))

theorem cstr_full (s : List Nat) (hs : noNul s) : cstr s = s := by
  unfold cstr
  induction s with
  | nil => rfl
  | cons c s ih =>
    have hc : c ≠ 0 := hs c (List.mem_cons_self ..)
    simp only [List.takeWhile_cons, hc, ne_eq, not_false_eq_true, decide_true, if_true]
    congr 1
    exact ih (fun c' hc' => hs c' (List.mem_cons_of_mem _ hc'))

/-- A string stored at the start of a zero-filled field reads back as itself, whether or not
it fills the field completely. -/
theorem cstr_field (s : List Nat) (k : Nat) (hs : noNul s) : cstr (s ++ List.replicate k 0) = s := by
  cases k with
  | zero => simp [cstr_full s hs]
  | succ k => rw [List.replicate_succ]; exact cstr_append_zero s _ hs

end LA.Codec
