/- Byte-block lemmas: `poke` (memcpy into a block), `slice`, fixed-width C strings. Core Lean only. -/
import LA.Model.Codec
namespace LA.Codec

theorem poke_length (h : List Nat) (off : Nat) (bs : List Nat) (hle : off + bs.length ≤ h.length) :
    (poke h off bs).length = h.length := by
  unfold poke
  simp only [List.length_append, List.length_take, List.length_drop]
  omega

theorem slice_length (h : List Nat) (o n : Nat) (hle : o + n ≤ h.length) : (slice h o n).length = n := by
  unfold slice; simp only [List.length_take, List.length_drop]; omega

/-- A range that the write does not touch. -/
theorem slice_poke_disjoint (h : List Nat) (off : Nat) (bs : List Nat) (o n : Nat)
    (hle : off + bs.length ≤ h.length) (hd : o + n ≤ off ∨ off + bs.length ≤ o) :
    slice (poke h off bs) o n = slice h o n := by
  unfold slice poke
  apply List.ext_getElem?
  intro i
  simp only [List.getElem?_take, List.getElem?_drop, List.getElem?_append, List.length_take,
    List.length_append]
  have hm : min off h.length = off := by omega
  rw [hm]
  by_cases hi : i < n
  · simp only [if_pos hi]
    rcases hd with hd | hd
    · have a : o + i < off + bs.length := by omega
      have b : o + i < off := by omega
      simp only [a, b, if_true]
    · have a : ¬ o + i < off + bs.length := by omega
      simp only [a, if_false]
      congr 1; omega
  · simp only [if_neg hi]

/-- Reading the written range (and possibly beyond it). -/
theorem slice_poke_own (h : List Nat) (off : Nat) (bs : List Nat) (n : Nat)
    (hle : off + bs.length ≤ h.length) (hn : bs.length ≤ n) :
    slice (poke h off bs) off n = bs ++ slice h (off + bs.length) (n - bs.length) := by
  unfold slice poke
  apply List.ext_getElem?
  intro i
  simp only [List.getElem?_take, List.getElem?_drop, List.getElem?_append, List.length_take,
    List.length_append]
  have hm : min off h.length = off := by omega
  rw [hm]
  by_cases hb : i < bs.length
  · have a : i < n := by omega
    have b : off + i < off + bs.length := by omega
    have c : ¬ off + i < off := by omega
    simp only [a, b, c, hb, if_true, if_false]
    congr 1; omega
  · have b : ¬ off + i < off + bs.length := by omega
    simp only [b, hb, if_false]
    by_cases hi : i < n
    · have d : i - bs.length < n - bs.length := by omega
      simp only [hi, d, if_true]
      congr 1; omega
    · have d : ¬ i - bs.length < n - bs.length := by omega
      simp only [hi, d, if_false]

theorem applyWrites_length (h : List Nat) (ws : List (Nat × List Nat))
    (hin : ∀ w ∈ ws, w.1 + w.2.length ≤ h.length) : (applyWrites h ws).length = h.length := by
  induction ws generalizing h with
  | nil => rfl
  | cons w ws ih =>
    have hw := hin w (List.mem_cons_self ..)
    rw [applyWrites, ih]
    · exact poke_length _ _ _ hw
    · intro w' hw'; rw [poke_length _ _ _ hw]; exact hin w' (List.mem_cons_of_mem _ hw')

theorem slice_applyWrites_untouched (h : List Nat) (ws : List (Nat × List Nat)) (o n : Nat)
    (hin : ∀ w ∈ ws, w.1 + w.2.length ≤ h.length)
    (hd : ∀ w ∈ ws, o + n ≤ w.1 ∨ w.1 + w.2.length ≤ o) :
    slice (applyWrites h ws) o n = slice h o n := by
  induction ws generalizing h with
  | nil => rfl
  | cons w ws ih =>
    have hw := hin w (List.mem_cons_self ..)
    rw [applyWrites, ih]
    · exact slice_poke_disjoint _ _ _ _ _ hw (hd w (List.mem_cons_self ..))
    · intro w' hw'; rw [poke_length _ _ _ hw]; exact hin w' (List.mem_cons_of_mem _ hw')
    · intro w' hw'; exact hd w' (List.mem_cons_of_mem _ hw')

/-- The field at `off` of width `n` after a sequence of writes of which exactly one,
`(off, bs)`, touches it. -/
theorem slice_applyWrites_own (h : List Nat) (ws1 ws2 : List (Nat × List Nat)) (off : Nat) (bs : List Nat)
    (n : Nat) (hn : bs.length ≤ n) (hfield : off + n ≤ h.length)
    (hin1 : ∀ w ∈ ws1, w.1 + w.2.length ≤ h.length) (hin2 : ∀ w ∈ ws2, w.1 + w.2.length ≤ h.length)
    (hd1 : ∀ w ∈ ws1, off + n ≤ w.1 ∨ w.1 + w.2.length ≤ off)
    (hd2 : ∀ w ∈ ws2, off + n ≤ w.1 ∨ w.1 + w.2.length ≤ off) :
    slice (applyWrites h (ws1 ++ (off, bs) :: ws2)) off n
      = bs ++ slice h (off + bs.length) (n - bs.length) := by
  induction ws1 generalizing h with
  | nil =>
    simp only [List.nil_append, applyWrites]
    have hle : off + bs.length ≤ h.length := by omega
    rw [slice_applyWrites_untouched _ _ _ _ (by intro w hw; rw [poke_length _ _ _ hle]; exact hin2 w hw) hd2]
    exact slice_poke_own _ _ _ _ hle hn
  | cons w ws ih =>
    have hw := hin1 w (List.mem_cons_self ..)
    have hdw := hd1 w (List.mem_cons_self ..)
    simp only [List.cons_append, applyWrites]
    rw [ih]
    · congr 1
      exact slice_poke_disjoint _ _ _ _ _ hw (by omega)
    · rw [poke_length _ _ _ hw]; exact hfield
    · intro w' hw'; rw [poke_length _ _ _ hw]; exact hin1 w' (List.mem_cons_of_mem _ hw')
    · intro w' hw'; rw [poke_length _ _ _ hw]; exact hin2 w' hw'
    · intro w' hw'; exact hd1 w' (List.mem_cons_of_mem _ hw')

/-! ### a table of disjoint fields, each written at most once from its start -/

structure FieldW where
  off : Nat
  width : Nat
  bytes : List Nat

def FieldW.disjoint (a b : FieldW) : Prop := a.off + a.width ≤ b.off ∨ b.off + b.width ≤ a.off
instance (a b : FieldW) : Decidable (a.disjoint b) := by unfold FieldW.disjoint; infer_instance

def fieldWrites (fs : List FieldW) : List (Nat × List Nat) := fs.map fun f => (f.off, f.bytes)

/-- After writing every field of a table of pairwise disjoint fields, each field holds its
bytes followed by what the block had there before. -/
theorem field_read (h : List Nat) (fs : List FieldW)
    (hfit : ∀ f ∈ fs, f.bytes.length ≤ f.width ∧ f.off + f.width ≤ h.length)
    (hdis : fs.Pairwise FieldW.disjoint) (f : FieldW) (hf : f ∈ fs) :
    slice (applyWrites h (fieldWrites fs)) f.off f.width
      = f.bytes ++ slice h (f.off + f.bytes.length) (f.width - f.bytes.length) := by
  induction fs generalizing h with
  | nil => cases hf
  | cons g gs ih =>
    have hg := hfit g (List.mem_cons_self ..)
    have hgle : g.off + g.bytes.length ≤ h.length := by omega
    rw [List.pairwise_cons] at hdis
    simp only [fieldWrites, List.map_cons, applyWrites]
    have hin : ∀ w ∈ fieldWrites gs, w.1 + w.2.length ≤ (poke h g.off g.bytes).length := by
      intro w hw
      simp only [fieldWrites, List.mem_map] at hw
      obtain ⟨f', hf', rfl⟩ := hw
      rw [poke_length _ _ _ hgle]
      have := hfit f' (List.mem_cons_of_mem _ hf'); simp only []; omega
    rcases List.mem_cons.1 hf with rfl | hf'
    · -- the field written first: none of the later writes touches it
      have hd : ∀ w ∈ fieldWrites gs, f.off + f.width ≤ w.1 ∨ w.1 + w.2.length ≤ f.off := by
        intro w hw
        simp only [fieldWrites, List.mem_map] at hw
        obtain ⟨f', hf', rfl⟩ := hw
        have hd := hdis.1 f' hf'
        have := hfit f' (List.mem_cons_of_mem _ hf')
        unfold FieldW.disjoint at hd; simp only []; omega
      show slice (applyWrites (poke h f.off f.bytes) (fieldWrites gs)) f.off f.width = _
      rw [slice_applyWrites_untouched _ _ _ _ hin hd]
      exact slice_poke_own _ _ _ _ hgle hg.1
    · have hdg := hdis.1 f hf'
      have hff := hfit f (List.mem_cons_of_mem _ hf')
      have := ih (poke h g.off g.bytes)
        (by intro f' hf''; rw [poke_length _ _ _ hgle]; exact hfit f' (List.mem_cons_of_mem _ hf''))
        hdis.2 hf'
      show slice (applyWrites (poke h g.off g.bytes) (fieldWrites gs)) f.off f.width = _
      rw [this]
      unfold FieldW.disjoint at hdg
      congr 1
      exact slice_poke_disjoint _ _ _ _ _ hgle (by omega)

/-- A range outside every field of the table is untouched. -/
theorem field_untouched (h : List Nat) (fs : List FieldW) (o n : Nat)
    (hfit : ∀ f ∈ fs, f.bytes.length ≤ f.width ∧ f.off + f.width ≤ h.length)
    (hd : ∀ f ∈ fs, o + n ≤ f.off ∨ f.off + f.width ≤ o) :
    slice (applyWrites h (fieldWrites fs)) o n = slice h o n := by
  apply slice_applyWrites_untouched
  · intro w hw
    simp only [fieldWrites, List.mem_map] at hw
    obtain ⟨f, hf, rfl⟩ := hw
    have := hfit f hf; simp only []; omega
  · intro w hw
    simp only [fieldWrites, List.mem_map] at hw
    obtain ⟨f, hf, rfl⟩ := hw
    have := hfit f hf; have := hd f hf; simp only []; omega

theorem fieldWrites_length (h : List Nat) (fs : List FieldW)
    (hfit : ∀ f ∈ fs, f.bytes.length ≤ f.width ∧ f.off + f.width ≤ h.length) :
    (applyWrites h (fieldWrites fs)).length = h.length := by
  apply applyWrites_length
  intro w hw
  simp only [fieldWrites, List.mem_map] at hw
  obtain ⟨f, hf, rfl⟩ := hw
  have := hfit f hf; simp only []; omega

/-! ### zero zones, byte range -/

theorem slice_eq_replicate (h : List Nat) (o n : Nat) (c : Nat) (hle : o + n ≤ h.length)
    (hz : ∀ i, o ≤ i → i < o + n → h[i]? = some c) : slice h o n = List.replicate n c := by
  unfold slice
  apply List.ext_getElem?
  intro i
  simp only [List.getElem?_take, List.getElem?_drop, List.getElem?_replicate]
  by_cases hi : i < n
  · simp only [if_pos hi]; exact hz (o + i) (by omega) (by omega)
  · simp only [if_neg hi]

/-- Checkable form of "bytes `a … b-1` of `h` are all `c`". -/
theorem zone_of_all (h : List Nat) (a b c : Nat) (hall : ((h.drop a).take (b - a)).all (· == c) = true) :
    ∀ i, a ≤ i → i < b → i < h.length → h[i]? = some c := by
  intro i hai hib hil
  rw [List.all_eq_true] at hall
  have hmem : h[i] ∈ (h.drop a).take (b - a) := by
    rw [List.mem_iff_getElem]
    refine ⟨i - a, by simp only [List.length_take, List.length_drop]; omega, ?_⟩
    simp only [List.getElem_take, List.getElem_drop]
    congr 1; omega
  have := hall _ hmem
  rw [List.getElem?_eq_getElem hil]
  simp only [beq_iff_eq] at this
  rw [this]

/-- Every byte is a byte. -/
def isBytes (s : List Nat) : Prop := ∀ c ∈ s, c < 256

theorem isBytes_poke (h : List Nat) (off : Nat) (bs : List Nat) (hh : isBytes h) (hb : isBytes bs) :
    isBytes (poke h off bs) := by
  intro c hc
  unfold poke at hc
  simp only [List.mem_append] at hc
  rcases hc with (hc | hc) | hc
  · exact hh c (List.mem_of_mem_take hc)
  · exact hb c hc
  · exact hh c (List.mem_of_mem_drop hc)

theorem isBytes_applyWrites (h : List Nat) (ws : List (Nat × List Nat)) (hh : isBytes h)
    (hw : ∀ w ∈ ws, isBytes w.2) : isBytes (applyWrites h ws) := by
  induction ws generalizing h with
  | nil => exact hh
  | cons w ws ih =>
    rw [applyWrites]
    exact ih _ (isBytes_poke _ _ _ hh (hw w (List.mem_cons_self ..))) (fun w' hw' => hw w' (List.mem_cons_of_mem _ hw'))

theorem sumBytes_le (h : List Nat) (hh : isBytes h) : sumBytes h ≤ 255 * h.length := by
  unfold sumBytes
  have key : ∀ (l : List Nat) (acc : Nat), (∀ c ∈ l, c < 256) → l.foldl (· + ·) acc ≤ acc + 255 * l.length := by
    intro l
    induction l with
    | nil => intro acc _; simp
    | cons c l ih =>
      intro acc hl
      simp only [List.foldl_cons, List.length_cons]
      have hc := hl c (List.mem_cons_self ..)
      have := ih (acc + c) (fun c' hc' => hl c' (List.mem_cons_of_mem _ hc'))
      omega
  have := key h 0 hh
  omega

theorem sumBytes_append (a b : List Nat) : sumBytes (a ++ b) = sumBytes a + sumBytes b := by
  unfold sumBytes
  have key : ∀ (l : List Nat) (acc : Nat), l.foldl (· + ·) acc = acc + l.foldl (· + ·) 0 := by
    intro l
    induction l with
    | nil => intro acc; simp
    | cons c l ih => intro acc; simp only [List.foldl_cons]; rw [ih (acc + c), ih (0 + c)]; omega
  rw [List.foldl_append, key b]

/-- A block is its three consecutive slices. -/
theorem split3 (h : List Nat) (a b : Nat) (hab : a + b ≤ h.length) :
    h = slice h 0 a ++ slice h a b ++ slice h (a + b) (h.length - (a + b)) := by
  unfold slice
  have h1 : (h.drop (a + b)).take (h.length - (a + b)) = h.drop (a + b) := by
    apply List.take_of_length_le; simp only [List.length_drop]; omega
  have h2 : h.drop (a + b) = (h.drop a).drop b := by rw [List.drop_drop]
  rw [h1, h2, List.drop_zero, List.append_assoc, List.take_append_drop, List.take_append_drop]

/-! ### fixed-width C strings -/

/-- No NUL byte: a C string. -/
def noNul (s : List Nat) : Prop := ∀ c ∈ s, c ≠ 0

theorem cstr_append_zero (s : List Nat) (r : List Nat) (hs : noNul s) : cstr (s ++ 0 :: r) = s := by
  unfold cstr
  induction s with
  | nil => simp
  | cons c s ih =>
    have hc : c ≠ 0 := hs c (List.mem_cons_self ..)
    simp only [List.cons_append, List.takeWhile_cons]
    simp only [hc, ne_eq, not_false_eq_true, decide_true, if_true]
    congr 1
    exact ih (fun c' hc' => hs c' (List.mem_cons_of_mem _ hc'))

theorem cstr_full (s : List Nat) (hs : noNul s) : cstr s = s := by
  unfold cstr
  induction s with
  | nil => rfl
  | cons c s ih =>
    have hc : c ≠ 0 := hs c (List.mem_cons_self ..)
    simp only [List.takeWhile_cons, hc, ne_eq, not_false_eq_true, decide_true, if_true]
    congr 1
    exact ih (fun c' hc' => hs c' (List.mem_cons_of_mem _ hc'))

/-- A string stored at the start of a zero-filled field reads back as itself, whether or not
it fills the field completely. -/
theorem cstr_field (s : List Nat) (k : Nat) (hs : noNul s) : cstr (s ++ List.replicate k 0) = s := by
  cases k with
  | zero => simp [cstr_full s hs]
  | succ k => rw [List.replicate_succ]; exact cstr_append_zero s _ hs

end LA.Codec
