/-
Helper lemmas for the seekable client, part 2: the block cutter `chop`, positioning the
client (`place`), `client_switch_proxy` and `client_seek_proxy`.
-/
import LA.Lemmas.ReadAheadSeek
set_option linter.unusedSimpArgs false
set_option linter.unusedVariables false
namespace LA.RA

/-! ### `chop` -/

theorem chopFuel_flatten (f : Nat → Nat) (fuel off : Nat) (bytes : List Nat) (h : bytes.length ≤ fuel) :
    (chopFuel f fuel off bytes).flatten = bytes := by
  induction fuel generalizing off bytes with
  | zero =>
    have : bytes = [] := List.eq_nil_of_length_eq_zero (by omega)
    simp [chopFuel, this]
  | succ n ih =>
    unfold chopFuel
    by_cases hb : bytes = []
    · simp [hb]
    · simp only [hb, if_false, List.flatten_cons]
      have hk : 1 ≤ Nat.max 1 (f off) := Nat.le_max_left _ _
      have hl : 0 < bytes.length := List.length_pos_iff.mpr hb
      rw [ih _ _ (by simp; omega), List.take_append_drop]

theorem chopFuel_ok (f : Nat → Nat) (fuel off : Nat) (bytes : List Nat) : SrcOk (chopFuel f fuel off bytes) := by
  induction fuel generalizing off bytes with
  | zero => simp [chopFuel, SrcOk]
  | succ n ih =>
    unfold chopFuel
    by_cases hb : bytes = []
    · simp [hb, SrcOk]
    · simp only [hb, if_false]
      intro x hx
      rcases List.mem_cons.mp hx with rfl | hm
      · have hk : 1 ≤ Nat.max 1 (f off) := Nat.le_max_left _ _
        have hl : 0 < bytes.length := List.length_pos_iff.mpr hb
        intro hn
        have h0 : (bytes.take (Nat.max 1 (f off))).length = 0 := by rw [hn]; rfl
        rw [List.length_take] at h0
        generalize Nat.max 1 (f off) = k at *
        omega
      · exact ih _ _ x hm

theorem chop_flatten (f : Nat → Nat) (off : Nat) (bytes : List Nat) : (chop f off bytes).flatten = bytes :=
  chopFuel_flatten f _ off bytes (Nat.le_refl _)

theorem chop_ok (f : Nat → Nat) (off : Nat) (bytes : List Nat) : SrcOk (chop f off bytes) :=
  chopFuel_ok f _ off bytes

theorem chopNodes_flatten (blk : Nat → Nat → Nat) (i : Nat) (ns : List (List Nat)) :
    (chopNodes blk i ns).flatten.flatten = ns.flatten := by
  induction ns generalizing i with
  | nil => simp [chopNodes]
  | cons n rest ih => simp [chopNodes, chop_flatten, ih]

theorem chopNodes_length (blk : Nat → Nat → Nat) (i : Nat) (ns : List (List Nat)) :
    (chopNodes blk i ns).length = ns.length := by
  induction ns generalizing i with
  | nil => simp [chopNodes]
  | cons n rest ih => simp [chopNodes, ih]

theorem chopNodes_ok (blk : Nat → Nat → Nat) (i : Nat) (ns : List (List Nat)) :
    ∀ n ∈ chopNodes blk i ns, SrcOk n := by
  induction ns generalizing i with
  | nil => simp [chopNodes]
  | cons n rest ih =>
    intro x hx
    simp only [chopNodes, List.mem_cons] at hx
    rcases hx with rfl | hx
    · exact chop_ok _ _ _
    · exact ih _ x hx

/-! ### Positions in a list of nodes -/

/-- The whole stream. -/
def allBytes (s : State) : List Nat := s.nodes.flatten

/-- Stream offset of the first byte of node `i` (`dataset[i].begin_position` once known). -/
def prefixLen (ns : List (List Nat)) (i : Nat) : Nat := (ns.take i).flatten.length

theorem prefixLen_zero (ns : List (List Nat)) : prefixLen ns 0 = 0 := by simp [prefixLen]

theorem prefixLen_succ (ns : List (List Nat)) (i : Nat) (h : i < ns.length) :
    prefixLen ns (i + 1) = prefixLen ns i + (ns[i]?.getD []).length := by
  unfold prefixLen
  rw [List.take_succ, List.flatten_append, List.length_append]
  simp [List.getElem?_eq_getElem h]

theorem prefixLen_all (ns : List (List Nat)) (i : Nat) (h : ns.length ≤ i) :
    prefixLen ns i = ns.flatten.length := by
  unfold prefixLen; rw [List.take_of_length_le h]

theorem prefixLen_mono (ns : List (List Nat)) (i j : Nat) (h : i ≤ j) : prefixLen ns i ≤ prefixLen ns j := by
  induction j with
  | zero => have : i = 0 := by omega
            subst this; exact Nat.le_refl _
  | succ k ih =>
    by_cases hik : i = k + 1
    · subst hik; exact Nat.le_refl _
    · have h1 := ih (by omega)
      by_cases hk : k < ns.length
      · rw [prefixLen_succ ns k hk]; omega
      · rw [prefixLen_all ns (k + 1) (by omega), ← prefixLen_all ns k (by omega)]; exact h1

theorem prefixLen_le (ns : List (List Nat)) (i : Nat) : prefixLen ns i ≤ ns.flatten.length := by
  by_cases h : ns.length ≤ i
  · rw [prefixLen_all ns i h]; exact Nat.le_refl _
  · rw [← prefixLen_all ns ns.length (Nat.le_refl _)]; exact prefixLen_mono ns i ns.length (by omega)

theorem flatten_drop_mid (A : List (List Nat)) (x : List Nat) (B : List (List Nat)) (off : Nat)
    (ho : off ≤ x.length) :
    (A ++ x :: B).flatten.drop (A.flatten.length + off) = x.drop off ++ B.flatten := by
  rw [List.flatten_append, List.flatten_cons, List.drop_append]
  have hd : A.flatten.drop (A.flatten.length + off) = [] := List.drop_of_length_le (by omega)
  have hlen : A.flatten.length + off - A.flatten.length = off := by omega
  rw [hd, hlen, List.nil_append, List.drop_append]
  have : off - x.length = 0 := by omega
  rw [this]; simp

/-- Dropping up to a point inside node `c`. -/
theorem flatten_drop_node (ns : List (List Nat)) (c off : Nat) (hc : c < ns.length)
    (ho : off ≤ (ns[c]?.getD []).length) :
    ns.flatten.drop (prefixLen ns c + off) = (ns[c]?.getD []).drop off ++ (ns.drop (c + 1)).flatten := by
  unfold prefixLen
  have h1 : ns.take c ++ (ns[c] :: ns.drop (c + 1)) = ns := by
    rw [← List.drop_eq_getElem_cons hc, List.take_append_drop]
  have hg : ns[c]?.getD [] = ns[c] := by simp [List.getElem?_eq_getElem hc]
  rw [hg] at ho ⊢
  have := flatten_drop_mid (ns.take c) ns[c] (ns.drop (c + 1)) off ho
  rw [h1] at this
  exact this

/-! ### `place` -/

theorem place_cursor (s : State) (e c off : Nat) (hc : c < s.nodes.length) : cursor (place s e c off) = c := by
  simp [cursor, place, chopNodes_length]
  omega

theorem place_tail (s : State) (e c off : Nat) :
    tailBytes (place s e c off) = (nodeAt s c).drop off ++ (s.nodes.drop (c + 1)).flatten := by
  simp [tailBytes, place, chop_flatten, chopNodes_flatten]

theorem place_srcOk (s : State) (e c off : Nat) :
    SrcOk (place s e c off).src ∧ ∀ n ∈ (place s e c off).later, SrcOk n := by
  simp only [place]
  exact ⟨chop_ok _ _ _, chopNodes_ok _ _ _⟩

@[simp] theorem place_nodes (s : State) (e c off : Nat) : (place s e c off).nodes = s.nodes := rfl
@[simp] theorem place_begins (s : State) (e c off : Nat) : (place s e c off).begins = s.begins := rfl
@[simp] theorem place_sizes (s : State) (e c off : Nat) : (place s e c off).sizes = s.sizes := rfl
@[simp] theorem place_seeks (s : State) (e c off : Nat) : (place s e c off).seeks = s.seeks := rfl
@[simp] theorem place_hasSeeker (s : State) (e c off : Nat) : (place s e c off).hasSeeker = s.hasSeeker := rfl
@[simp] theorem nodeAt_place (s : State) (e c off i : Nat) : nodeAt (place s e c off) i = nodeAt s i := rfl

/-- What `client_switch_proxy` / `client_seek_proxy` / the node walks leave alone: everything
of the filter proper and the description of the source. -/
structure Filt (s s' : State) : Prop where
  bufSize : s'.bufSize = s.bufSize
  next : s'.next = s.next
  cb : s'.cb = s.cb
  cblk : s'.cblk = s.cblk
  cnext : s'.cnext = s.cnext
  cavail : s'.cavail = s.cavail
  position : s'.position = s.position
  eof : s'.eof = s.eof
  fatal : s'.fatal = s.fatal
  skips : s'.skips = s.skips
  noSkipper : s'.noSkipper = s.noSkipper
  hasSeeker : s'.hasSeeker = s.hasSeeker
  canSeek : s'.canSeek = s.canSeek
  canSkip : s'.canSkip = s.canSkip
  nodes : s'.nodes = s.nodes
  blk : s'.blk = s.blk
  term : s'.term = s.term

theorem Filt.refl (s : State) : Filt s s := by constructor <;> rfl

theorem Filt.trans {a b c : State} (h1 : Filt a b) (h2 : Filt b c) : Filt a c :=
  ⟨h2.bufSize.trans h1.bufSize, h2.next.trans h1.next, h2.cb.trans h1.cb, h2.cblk.trans h1.cblk,
   h2.cnext.trans h1.cnext, h2.cavail.trans h1.cavail, h2.position.trans h1.position, h2.eof.trans h1.eof,
   h2.fatal.trans h1.fatal, h2.skips.trans h1.skips, h2.noSkipper.trans h1.noSkipper,
   h2.hasSeeker.trans h1.hasSeeker, h2.canSeek.trans h1.canSeek, h2.canSkip.trans h1.canSkip,
   h2.nodes.trans h1.nodes, h2.blk.trans h1.blk, h2.term.trans h1.term⟩

theorem place_filt (s : State) (e c off : Nat) : Filt s (place s e c off) := by constructor <;> rfl

theorem switchTo_filt (s : State) (c : Nat) : Filt s (switchTo s c) := by
  unfold switchTo; split
  · exact Filt.refl _
  · exact place_filt _ _ _ _

theorem switchTo_cache (s : State) (c : Nat) :
    (switchTo s c).begins = s.begins ∧ (switchTo s c).sizes = s.sizes ∧ (switchTo s c).seeks = s.seeks := by
  unfold switchTo; split <;> simp

theorem switchTo_cursor (s : State) (c : Nat) (hc : c < s.nodes.length) : cursor (switchTo s c) = c := by
  unfold switchTo; split
  · assumption
  · exact place_cursor _ _ _ _ hc

theorem clientSeek_filt (s : State) (w : Whence) (off : Int) : Filt s (clientSeek s w off).2 := by
  unfold clientSeek
  generalize seekTarget s w off = np
  split
  · exact Filt.refl _
  · simp only []
    split
    · constructor <;> rfl
    · split
      · constructor <;> rfl
      · constructor <;> rfl

theorem clientSeek_cache (s : State) (w : Whence) (off : Int) :
    (clientSeek s w off).2.begins = s.begins ∧ (clientSeek s w off).2.sizes = s.sizes := by
  unfold clientSeek
  generalize seekTarget s w off = np
  split
  · simp
  · simp only []
    split
    · simp
    · split <;> simp

/-- `client_seek_proxy` with a seek callback: it fails (the script says so, or the resulting
offset would be negative) and leaves the client where it was, or it reports an offset and the
client stands there. -/
theorem clientSeek_spec (s : State) (w : Whence) (off : Int) (hs : s.hasSeeker = true) :
    ((clientSeek s w off).1 < 0 ∧ (clientSeek s w off).2 = { s with seeks := s.seeks.tail } ∧
      (SeeksOk s.seeks → seekTarget s w off < 0)) ∨
    (0 ≤ (clientSeek s w off).1 ∧ 0 ≤ seekTarget s w off ∧ (clientSeek s w off).1 ≤ seekTarget s w off ∧
      (clientSeek s w off).2 =
        place { s with seeks := s.seeks.tail } (s.epoch + 1) (cursor s) (clientSeek s w off).1.toNat ∧
      (SeeksOk s.seeks ∨ w ≠ .set → (clientSeek s w off).1 = seekTarget s w off)) := by
  have hans : SeeksOk s.seeks → (s.seeks.head?).getD 0 = 0 := by
    intro h
    cases hq : s.seeks with
    | nil => rfl
    | cons a t => simp; exact h a (by simp [hq])
  unfold clientSeek
  have hc : ¬ ((!s.hasSeeker) = true) := by simp [hs]
  rw [if_neg hc]
  generalize seekTarget s w off = np at *
  generalize (s.seeks.head?).getD 0 = ans at *
  simp only []
  by_cases h1 : ans < 0
  · rw [if_pos h1]
    left
    exact ⟨h1, rfl, fun h => by have := hans h; omega⟩
  · rw [if_neg h1]
    by_cases h2 : np < 0
    · rw [if_pos h2]
      left
      exact ⟨by omega, rfl, fun _ => h2⟩
    · rw [if_neg h2]
      right
      have hnp : ((np.toNat : Nat) : Int) = np := by omega
      by_cases h3 : ans > 0 ∧ w = .set
      · rw [if_pos h3]
        have hle : np.toNat - np.toNat % ans.toNat ≤ np.toNat := Nat.sub_le _ _
        refine ⟨by omega, by omega, by omega, by rw [Int.toNat_natCast], ?_⟩
        rintro (h | h)
        · have := hans h; omega
        · exact absurd h3.2 h
      · rw [if_neg h3]
        exact ⟨by omega, by omega, by omega, by rw [Int.toNat_natCast], fun _ => hnp⟩

end LA.RA
