/-
C12 helper: `sortDir` (model of `sort_dir_list` in archive_write_disk_posix.c)
is a permutation, sorts descending by `strcmp`, and therefore puts every
directory after all of its descendants.
-/
import LA.Model.Tree
namespace LA.Tree

/-! ### Order facts on `List Nat` -/

private theorem ln_lt_asymm {a b : List Nat} (h : a < b) : ¬ (b < a) :=
  fun h' => List.lt_irrefl a (List.lt_trans h h')

/-- `¬ (b < a)` (i.e. `a ≤ b`), `b < c` give `a < c`. -/
private theorem ln_lt_of_not_lt_of_lt {a b c : List Nat} (h₁ : ¬ (b < a)) (h₂ : b < c) : a < c :=
  List.lt_of_le_of_lt (List.not_lt.mp h₁) h₂

private theorem ln_lt_append_cons (l : List Nat) (c : Nat) (m : List Nat) : l < l ++ c :: m := by
  induction l with
  | nil => exact List.nil_lt_cons c m
  | cons x l ih =>
    rw [List.cons_append, List.cons_lt_cons_iff]
    exact Or.inr ⟨rfl, ih⟩

/-! ### `mergeFix` -/

theorem mergeFix_perm (a b : List Fixup) : (mergeFix a b).Perm (a ++ b) := by
  fun_induction mergeFix a b with
  | case1 b => simp
  | case2 a _ => simp
  | case3 x a y b hgt ih =>
    exact (List.Perm.cons x ih)
  | case4 x a y b hgt ih =>
    have h1 : (y :: mergeFix (x :: a) b).Perm (y :: (x :: a ++ b)) := List.Perm.cons y ih
    exact h1.trans (List.perm_middle.symm)

/-- The order `sortDir` produces: nothing later is strictly `strcmp`-greater. -/
private abbrev Desc (x y : Fixup) : Prop := ¬ (joined x.path < joined y.path)

private theorem mergeFix_sorted (a b : List Fixup)
    (ha : a.Pairwise Desc) (hb : b.Pairwise Desc) : (mergeFix a b).Pairwise Desc := by
  fun_induction mergeFix a b with
  | case1 b => exact hb
  | case2 a _ => exact ha
  | case3 x a y b hgt ih =>
    have hxa := (List.pairwise_cons.mp ha)
    have hyb := (List.pairwise_cons.mp hb)
    have hlt : joined y.path < joined x.path := by
      simpa [nameGt] using hgt
    refine List.pairwise_cons.mpr ⟨?_, ih hxa.2 hb⟩
    intro z hz
    have hz' : z ∈ a ++ y :: b := (mergeFix_perm a (y :: b)).mem_iff.mp hz
    rcases List.mem_append.mp hz' with hza | hzyb
    · exact hxa.1 z hza
    · rcases List.mem_cons.mp hzyb with rfl | hzb
      · exact ln_lt_asymm hlt
      · intro hxz
        exact hyb.1 z hzb (List.lt_trans hlt hxz)
  | case4 x a y b hgt ih =>
    have hxa := (List.pairwise_cons.mp ha)
    have hyb := (List.pairwise_cons.mp hb)
    have hnlt : ¬ (joined y.path < joined x.path) := by
      simpa [nameGt] using hgt
    refine List.pairwise_cons.mpr ⟨?_, ih ha hyb.2⟩
    intro z hz
    have hz' : z ∈ (x :: a) ++ b := (mergeFix_perm (x :: a) b).mem_iff.mp hz
    rcases List.mem_append.mp hz' with hzxa | hzb
    · rcases List.mem_cons.mp hzxa with rfl | hza
      · exact hnlt
      · intro hyz
        -- x ≤ y < z, so x < z, contradicting sortedness of `x :: a`
        exact hxa.1 z hza (ln_lt_of_not_lt_of_lt hnlt hyz)
    · exact hyb.1 z hzb

/-! ### `sortDir` -/

theorem sortDir_perm (l : List Fixup) : (sortDir l).Perm l := by
  fun_induction sortDir l with
  | case1 l h => exact List.Perm.refl l
  | case2 l h k ih1 ih2 =>
    refine (mergeFix_perm _ _).trans ?_
    have := List.Perm.append ih1 ih2
    rwa [List.take_append_drop] at this

/-- sorted descending: nothing later in the list is strictly greater (by strcmp) than something earlier -/
theorem sortDir_sorted (l : List Fixup) :
    (sortDir l).Pairwise fun x y => ¬ (joined x.path < joined y.path) := by
  fun_induction sortDir l with
  | case1 l h =>
    match l, h with
    | [], _ => exact List.Pairwise.nil
    | [x], _ => exact List.pairwise_singleton _ _
    | _ :: _ :: _, h => simp at h; omega
  | case2 l h k ih1 ih2 => exact mergeFix_sorted _ _ ih1 ih2

/-- a path is strcmp-smaller than each of its proper extensions -/
theorem joined_lt_of_prefix (p : Path) (n : Name) (r : Path) : joined p < joined (p ++ n :: r) := by
  unfold joined
  rw [List.cons_lt_cons_iff]
  refine Or.inr ⟨rfl, ?_⟩
  rw [List.flatMap_append, List.flatMap_cons, List.cons_append]
  exact ln_lt_append_cons _ _ _

/-- hence: in the sorted fix-up list a directory comes after every one of its descendants -/
theorem sortDir_descendants_first (l : List Fixup) (pre post : List Fixup) (f g : Fixup)
    (h : sortDir l = pre ++ f :: post) (n : Name) (r : Path) (hg : g.path = f.path ++ n :: r) :
    g ∉ post := by
  intro hmem
  have hs := sortDir_sorted l
  rw [h] at hs
  have hs2 := (List.pairwise_append.mp hs).2.1
  have hfg := (List.pairwise_cons.mp hs2).1 g hmem
  apply hfg
  rw [hg]
  exact joined_lt_of_prefix f.path n r

theorem sortDir_mem (l : List Fixup) (f : Fixup) : f ∈ sortDir l ↔ f ∈ l :=
  (sortDir_perm l).mem_iff

theorem sortDir_nodup (l : List Fixup) (h : (l.map (·.path)).Nodup) :
    ((sortDir l).map (·.path)).Nodup :=
  (((sortDir_perm l).map (·.path)).nodup_iff).mpr h

end LA.Tree
