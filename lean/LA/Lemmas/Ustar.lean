/-
Lemmas for the ustar header writer model (`LA.Ustar`): every store preserves
definedness, the template copy defines all 512 cells.
-/
import LA.Lemmas.ClientWrite
import LA.Model.Ustar
namespace LA.Ustar
open LA.CW LA.Gen.WriteLayout

set_option maxRecDepth 8192 in
/-- The extracted `memcpy(h, &template_header, N)` covers the whole header. -/
theorem template_covers : (templateHeader.take templateCopyLen).length = 512 := by decide

theorem store_defined {h h' : List Cell} {off : Nat} {bs : List Nat} (hs : store h off bs = some h')
    (hd : ∀ c ∈ h, c.isSome = true) : h'.length = h.length ∧ ∀ c ∈ h', c.isSome = true := by
  refine ⟨poke_length hs, ?_⟩
  unfold store poke at hs
  split at hs
  · injection hs with hs; subst hs
    intro c hc
    rcases List.mem_append.mp hc with hc | hc
    · rcases List.mem_append.mp hc with hc | hc
      · exact hd c (List.mem_of_mem_take hc)
      · obtain ⟨b, _, rfl⟩ := List.mem_map.mp hc; rfl
    · exact hd c (List.mem_of_mem_drop hc)
  · cases hs

theorem applyStores_defined : ∀ {ss : List Store} {h h' : List Cell}, applyStores h ss = some h' →
    (∀ c ∈ h, c.isSome = true) → h'.length = h.length ∧ ∀ c ∈ h', c.isSome = true := by
  intro ss
  induction ss with
  | nil => intro h h' hs hd; simp only [applyStores, Option.some.injEq] at hs; subst hs; exact ⟨rfl, hd⟩
  | cons s r ih =>
    intro h h' hs hd
    obtain ⟨off, bs⟩ := s
    simp only [applyStores] at hs
    cases hst : store h off bs with
    | none => rw [hst] at hs; cases hs
    | some h1 =>
      rw [hst] at hs
      have h1d := store_defined hst hd
      have := ih hs h1d.2
      exact ⟨by rw [this.1, h1d.1], this.2⟩

/-- The template copy into the fresh array, followed by any stores, leaves no cell undefined. -/
theorem applyStores_template {n : Nat} {T : List Nat} {fs : List Store} {h1 : List Cell} (hT : T.length = n)
    (hs : applyStores (List.replicate n none) ((0, T) :: fs) = some h1) :
    h1.length = n ∧ ∀ c ∈ h1, c.isSome = true := by
  have h0 : store (List.replicate n none) 0 T = some (T.map some) := by
    simp only [store, poke, List.length_map, hT, List.length_replicate, Nat.zero_add, Nat.le_refl, if_true,
      List.take_zero, List.nil_append]
    rw [List.drop_of_length_le (by simp)]; simp
  have hdef0 : ∀ c ∈ T.map some, c.isSome = true := by
    intro c hc; obtain ⟨b, _, rfl⟩ := List.mem_map.mp hc; rfl
  simp only [applyStores, h0] at hs
  have := applyStores_defined hs hdef0
  exact ⟨by rw [this.1, List.length_map, hT], this.2⟩

/-- Whenever `formatHeader` produces a header it has 512 cells, all stored to. -/
theorem formatHeader_defined (e : Entry) (st : Int) (h : List Cell) (hh : formatHeader e = some (st, h)) :
    h.length = 512 ∧ ∀ c ∈ h, c.isSome = true := by
  unfold formatHeader at hh
  simp only [] at hh
  cases h1s : applyStores (List.replicate 512 none) ((0, templateHeader.take templateCopyLen) :: (fieldStores e).2) with
  | none => rw [h1s] at hh; cases hh
  | some h1 =>
    rw [h1s] at hh
    have h1d := applyStores_template template_covers h1s
    simp only [] at hh
    cases hr : readAll (h1.take 512) with
    | none => rw [hr] at hh; cases hh
    | some bytes =>
      rw [hr] at hh
      simp only [] at hh
      cases h2s : applyStores h1 [(checksum_offset + 6, [0]),
          (checksum_offset, (formatOctal ((List.foldl (fun x1 x2 => x1 + x2) 0 bytes : Nat) : Int) 6).1)] with
      | none => rw [h2s] at hh; cases hh
      | some h2 =>
        rw [h2s] at hh
        injection hh with hh
        injection hh with _ hh
        subst hh
        have := applyStores_defined h2s h1d.2
        exact ⟨by rw [this.1, h1d.1], this.2⟩

end LA.Ustar
