/- Lemmas about the ustar header writer and the tar header reader (C10, C02). Core Lean only. -/
import LA.Lemmas.Bytes
import LA.Lemmas.NumFmt
namespace LA.Codec
open LA.NumFmt LA.Gen.TarLayout

/-! ### `strchr` -/

theorem findSlash_some (s : List Nat) (k : Nat) (h : findSlash s = some k) :
    k < s.length ∧ s[k]? = some slash := by
  induction s generalizing k with
  | nil => simp [findSlash] at h
  | cons c r ih =>
    simp only [findSlash] at h
    by_cases hc : c = slash
    · rw [if_pos hc] at h; cases h; simp [hc]
    · rw [if_neg hc] at h
      cases hr : findSlash r with
      | none => rw [hr] at h; simp at h
      | some j =>
        rw [hr] at h; simp at h; subst h
        have := ih j hr
        simp only [List.length_cons, List.getElem?_cons_succ]
        exact ⟨by omega, this.2⟩

theorem findSlashFrom_some (s : List Nat) (i p : Nat) (h : findSlashFrom s i = some p) :
    i ≤ p ∧ p < s.length ∧ s[p]? = some slash := by
  unfold findSlashFrom at h
  cases hr : findSlash (s.drop i) with
  | none => rw [hr] at h; simp at h
  | some j =>
    rw [hr] at h; simp at h; subst h
    have := findSlash_some _ _ hr
    simp only [List.length_drop, List.getElem?_drop] at this
    refine ⟨by omega, by omega, ?_⟩
    rw [Nat.add_comm]; exact this.2

theorem ustarSep_some (pp : List Nat) (p : Nat) (h : ustarSep pp = some p) :
    pp.length - ustar_name_size - 1 ≤ p ∧ 0 < p ∧ p < pp.length ∧ pp[p]? = some slash := by
  unfold ustarSep at h
  cases h0 : findSlashFrom pp (pp.length - ustar_name_size - 1) with
  | none => rw [h0] at h; cases h
  | some j =>
    rw [h0] at h
    have hj := findSlashFrom_some _ _ _ h0
    cases j with
    | zero =>
      simp only [] at h
      have := findSlashFrom_some _ _ _ h
      exact ⟨by omega, by omega, this.2.1, this.2.2⟩
    | succ j =>
      simp only [] at h
      cases h
      exact ⟨hj.1, by omega, hj.2.1, hj.2.2⟩

/-- What an accepted prefix/name split guarantees. -/
theorem ustarSplit_split (pp : List Nat) (p : Nat) (h : ustarSplit pp = .split p) :
    0 < p ∧ p ≤ ustar_prefix_size ∧ p + 1 < pp.length ∧ pp.length - (p + 1) ≤ ustar_name_size
    ∧ pp[p]? = some slash := by
  unfold ustarSplit at h
  by_cases hlen : pp.length ≤ ustar_name_size
  · rw [if_pos hlen] at h; cases h
  · rw [if_neg hlen] at h
    cases hq : ustarSep pp with
    | none => rw [hq] at h; cases h
    | some k =>
      rw [hq] at h
      simp only [] at h
      by_cases h1 : k + 1 = pp.length
      · rw [if_pos h1] at h; cases h
      · rw [if_neg h1] at h
        by_cases h2 : k > ustar_prefix_size
        · rw [if_pos h2] at h; cases h
        · rw [if_neg h2] at h
          cases h
          have hk := ustarSep_some _ _ hq
          refine ⟨hk.2.1, by omega, by omega, ?_, hk.2.2.2⟩
          simp only [ustar_name_size] at *; omega

theorem ustarSplit_whole (pp : List Nat) (h : ustarSplit pp = .whole) : pp.length ≤ ustar_name_size := by
  unfold ustarSplit at h
  by_cases hlen : pp.length ≤ ustar_name_size
  · exact hlen
  · rw [if_neg hlen] at h
    cases hq : ustarSep pp with
    | none => rw [hq] at h; cases h
    | some k =>
      rw [hq] at h
      simp only [] at h
      split at h
      · cases h
      · split at h <;> cases h

/-! ### the header as a table of fields -/

def splitPrefix (path : List Nat) : List Nat := match ustarSplit path with | .split p => path.take p | _ => []
def splitName (path : List Nat) : List Nat :=
  match ustarSplit path with | .whole => path | .split p => path.drop (p + 1) | .tooLong => []

/-- The fields of the header with the widths the *reader* uses (`struct archive_entry_header_ustar`). -/
def ustarFields (e : Entry) (path : List Nat) (size : Int) : List FieldW :=
  let nf := ustarNumFields e size
  [ ⟨ustar_prefix_offset, rd_prefix_size, splitPrefix path⟩,
    ⟨ustar_name_offset, rd_name_size, splitName path⟩,
    ⟨ustar_linkname_offset, rd_linkname_size, (tarLink e).take ustar_linkname_size⟩,
    ⟨ustar_uname_offset, rd_uname_size, e.uname.take ustar_uname_size⟩,
    ⟨ustar_gname_offset, rd_gname_size, e.gname.take ustar_gname_size⟩ ] ++
  (nf.zip [rd_mode_size, rd_uid_size, rd_gid_size, rd_size_size, rd_mtime_size, rd_rdevmajor_size, rd_rdevminor_size]).map
    (fun fw => ⟨fw.1.off, fw.2, fw.1.bytes true⟩) ++
  [ ⟨ustar_typeflag_offset, rd_typeflag_size, match ustarType e none with | some t => [t] | none => []⟩ ]

theorem ustarWrites_eq_fields (e : Entry) (path : List Nat) (size : Int) :
    ustarWrites e path size none true = fieldWrites (ustarFields e path size) := by
  simp only [ustarWrites, ustarFields, fieldWrites, ustarNumFields, splitPrefix, splitName,
    List.map, List.zip, List.zipWith, List.cons_append, List.nil_append]
  rfl

theorem ustarFields_disjoint (e : Entry) (path : List Nat) (size : Int) :
    (ustarFields e path size).Pairwise FieldW.disjoint := by
  simp only [ustarFields, ustarNumFields, List.map, List.zip, List.zipWith, List.cons_append, List.nil_append,
    List.pairwise_cons, List.mem_cons, List.mem_nil_iff, or_false, forall_eq_or_imp, forall_eq, FieldW.disjoint,
    List.Pairwise.nil, List.not_mem_nil, false_imp_iff, implies_true, and_true,
    ustar_prefix_offset, ustar_name_offset, ustar_linkname_offset, ustar_uname_offset, ustar_gname_offset,
    ustar_mode_offset, ustar_uid_offset, ustar_gid_offset, ustar_size_offset, ustar_mtime_offset,
    ustar_rdevmajor_offset, ustar_rdevminor_offset, ustar_typeflag_offset,
    rd_prefix_size, rd_name_size, rd_linkname_size, rd_uname_size, rd_gname_size, rd_mode_size, rd_uid_size,
    rd_gid_size, rd_size_size, rd_mtime_size, rd_rdevmajor_size, rd_rdevminor_size, rd_typeflag_size]
  omega

set_option maxRecDepth 8192 in
theorem ustar_template_length : ustar_template.length = 512 := by decide

theorem numfield_bytes_length (f : NumField) : (f.bytes true).length = if f.active then f.size else 0 := by
  unfold NumField.bytes
  by_cases h : f.active
  · simp only [h, if_true]
    rw [ustarFormatNumber]; simp only [if_true]
    rw [ustarFormatOctal_eq]; split
    · simp
    · split <;> simp [octHead_length]
  · simp [h]

theorem splitPrefix_length (path : List Nat) : (splitPrefix path).length ≤ rd_prefix_size := by
  unfold splitPrefix
  cases h : ustarSplit path with
  | whole => simp
  | tooLong => simp
  | split p =>
    have := ustarSplit_split _ _ h
    simp only [List.length_take, rd_prefix_size, ustar_prefix_size] at *; omega

theorem splitName_length (path : List Nat) : (splitName path).length ≤ rd_name_size := by
  unfold splitName
  cases h : ustarSplit path with
  | whole => have := ustarSplit_whole _ h; simp only [rd_name_size, ustar_name_size] at *; omega
  | tooLong => simp
  | split p =>
    have := ustarSplit_split _ _ h
    simp only [List.length_drop, rd_name_size, ustar_name_size] at *; omega

theorem ustarFields_fit (e : Entry) (path : List Nat) (size : Int) :
    ∀ f ∈ ustarFields e path size, f.bytes.length ≤ f.width ∧ f.off + f.width ≤ ustar_template.length := by
  rw [ustar_template_length]
  have hp := splitPrefix_length path
  have hn := splitName_length path
  simp only [ustarFields, ustarNumFields, List.map, List.zip, List.zipWith, List.cons_append, List.nil_append,
    List.mem_cons, List.mem_nil_iff, or_false, forall_eq_or_imp, forall_eq, numfield_bytes_length,
    List.length_take, ↓reduceIte,
    ustar_prefix_offset, ustar_name_offset, ustar_linkname_offset, ustar_uname_offset, ustar_gname_offset,
    ustar_mode_offset, ustar_uid_offset, ustar_gid_offset, ustar_size_offset, ustar_mtime_offset,
    ustar_rdevmajor_offset, ustar_rdevminor_offset, ustar_typeflag_offset,
    ustar_linkname_size, ustar_uname_size, ustar_gname_size, ustar_mode_size, ustar_uid_size, ustar_gid_size,
    ustar_size_size, ustar_mtime_size, ustar_rdevmajor_size, ustar_rdevminor_size,
    rd_prefix_size, rd_name_size, rd_linkname_size, rd_uname_size, rd_gname_size, rd_mode_size, rd_uid_size,
    rd_gid_size, rd_size_size, rd_mtime_size, rd_rdevmajor_size, rd_rdevminor_size, rd_typeflag_size] at *
  refine ⟨by omega, by omega, by omega, by omega, by omega, ?_⟩
  refine ⟨by omega, by omega, by omega, by omega, by omega, ?_, ?_, ?_⟩
  · split <;> omega
  · split <;> omega
  · split <;> simp

/-- The header before the checksum is stored. -/
def ustarPre (e : Entry) (path : List Nat) (size : Int) : List Nat :=
  applyWrites ustar_template (ustarWrites e path size none true)

theorem ustarPre_length (e : Entry) (path : List Nat) (size : Int) : (ustarPre e path size).length = 512 := by
  unfold ustarPre
  rw [ustarWrites_eq_fields, fieldWrites_length _ _ (ustarFields_fit e path size), ustar_template_length]

/-- Reading one field of the table out of the pre-checksum header. -/
theorem ustarPre_field (e : Entry) (path : List Nat) (size : Int) (f : FieldW) (hf : f ∈ ustarFields e path size) :
    slice (ustarPre e path size) f.off f.width
      = f.bytes ++ slice ustar_template (f.off + f.bytes.length) (f.width - f.bytes.length) := by
  unfold ustarPre
  rw [ustarWrites_eq_fields]
  exact field_read _ _ (ustarFields_fit e path size) (ustarFields_disjoint e path size) f hf

/-! ### what the template holds around the fields -/

section template
set_option maxRecDepth 16384

theorem tpl_zero_name : ((ustar_template.drop 0).take (100 - 0)).all (· == 0) = true := by decide
theorem tpl_zero_link : ((ustar_template.drop 157).take (257 - 157)).all (· == 0) = true := by decide
theorem tpl_zero_names : ((ustar_template.drop 265).take (329 - 265)).all (· == 0) = true := by decide
theorem tpl_zero_prefix : ((ustar_template.drop 345).take (500 - 345)).all (· == 0) = true := by decide
theorem tpl_mode_tail : slice ustar_template 106 2 = [32, 0] := by decide
theorem tpl_uid_tail : slice ustar_template 114 2 = [32, 0] := by decide
theorem tpl_gid_tail : slice ustar_template 122 2 = [32, 0] := by decide
theorem tpl_size_tail : slice ustar_template 135 1 = [32] := by decide
theorem tpl_mtime_tail : slice ustar_template 147 1 = [32] := by decide
theorem tpl_rdevmajor_tail : slice ustar_template 335 2 = [32, 0] := by decide
theorem tpl_rdevminor_tail : slice ustar_template 343 2 = [32, 0] := by decide
theorem tpl_rdevmajor : slice ustar_template 329 8 = [48, 48, 48, 48, 48, 48, 32, 0] := by decide
theorem tpl_rdevminor : slice ustar_template 337 8 = [48, 48, 48, 48, 48, 48, 32, 0] := by decide
theorem tpl_typeflag : slice ustar_template 156 1 = [48] := by decide
theorem tpl_magic : slice ustar_template 257 8 = [117, 115, 116, 97, 114, 0, 48, 48] := by decide
theorem tpl_checksum : slice ustar_template 148 8 = [32, 32, 32, 32, 32, 32, 32, 32] := by decide
theorem tpl_isBytes : ustar_template.all (· < 256) = true := by decide

end template

theorem tpl_zero_slice (a b : Nat) (hall : ((ustar_template.drop a).take (b - a)).all (· == 0) = true)
    (o n : Nat) (ha : a ≤ o) (hb : o + n ≤ b) (hb512 : b ≤ 512) :
    slice ustar_template o n = List.replicate n 0 := by
  apply slice_eq_replicate
  · rw [ustar_template_length]; omega
  · intro i h1 h2
    exact zone_of_all _ a b 0 hall i (by omega) (by omega) (by rw [ustar_template_length]; omega)

/-- A string field of the pre-checksum header: the stored bytes, then zeros. -/
theorem ustarPre_string (e : Entry) (path : List Nat) (size : Int) (f : FieldW) (hf : f ∈ ustarFields e path size)
    (a b : Nat) (hall : ((ustar_template.drop a).take (b - a)).all (· == 0) = true)
    (ha : a ≤ f.off) (hb : f.off + f.width ≤ b) (hb512 : b ≤ 512) :
    slice (ustarPre e path size) f.off f.width = f.bytes ++ List.replicate (f.width - f.bytes.length) 0 := by
  rw [ustarPre_field e path size f hf]
  have := (ustarFields_fit e path size f hf).1
  rw [tpl_zero_slice a b hall _ _ (by omega) (by omega) hb512]

end LA.Codec
