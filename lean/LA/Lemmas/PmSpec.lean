/-
Declarative facts about the matcher model (`LA.Pm`): what `*`, `?`, literals,
the unanchored start and the end of the pattern mean, stated without
reference to the control flow of the C.
-/
import LA.Lemmas.Pm
set_option linter.unusedSimpArgs false
namespace LA.Pm

/-- The C-string invariant: no NUL inside the string. -/
def NoNul (s : List Nat) : Prop := ∀ c ∈ s, c ≠ 0

theorem rd_of_lt {s : List Nat} {i : Nat} (h : i < s.length) : rd s i = some s[i] := by
  simp [rd, h]

theorem rd_getElem {s : List Nat} {i c : Nat} (h : rd s i = some c) (hl : i < s.length) : s[i] = c := by
  rw [rd_of_lt hl] at h; exact Option.some.inj h

theorem rd_inside {s : List Nat} (hs : NoNul s) {i : Nat} (h : i < s.length) :
    ∃ c, rd s i = some c ∧ c ≠ 0 ∧ c = s[i] :=
  ⟨s[i], rd_of_lt h, hs _ (List.getElem_mem _), rfl⟩

theorem rd_zero_iff {s : List Nat} (hs : NoNul s) {i : Nat} : rd s i = some 0 ↔ i = s.length := by
  constructor
  · intro h
    rcases Nat.lt_trichotomy i s.length with hl | hl | hl
    · obtain ⟨c, hc, hc0, _⟩ := rd_inside hs hl
      rw [h] at hc; cases hc; exact absurd rfl hc0
    · exact hl
    · have := rd_le h; omega
  · rintro rfl; exact rd_len s

/-! ### `*` -/

/-- The `while (*s)` loop of the `*` case succeeds iff the rest of the pattern
matches at some position of the subject **before its terminator**. -/
theorem star_yes_iff (cfg : Cfg) (hg : cfg.guardClass = true) (p s : List Nat) (hs : NoNul s) (fl : Flags)
    (pj : Nat) (hpj : pj ≤ p.length) (si : Nat) (hsi : si ≤ s.length) :
    star cfg p s fl pj si = .yes ↔
      ∃ sj, si ≤ sj ∧ sj < s.length ∧ matchAt cfg p s fl pj sj = .yes := by
  induction hn : s.length - si generalizing si with
  | zero =>
    have : si = s.length := by omega
    subst this
    rw [star_eq]; simp [rd_len]; intro sj h1 h2; omega
  | succ n ih =>
    have hlt : si < s.length := by omega
    obtain ⟨c, hc, hc0, _⟩ := rd_inside hs hlt
    rw [star_eq]; simp only [hc, hc0, if_false]
    have hsafe := (safe_all cfg hg p s).1 fl pj si hpj hsi
    cases hm : matchAt cfg p s fl pj si with
    | oob => exact absurd hm hsafe
    | yes => simp; exact ⟨si, Nat.le_refl _, hlt, hm⟩
    | no =>
      simp only []
      rw [ih (si + 1) (by omega) (by omega)]
      constructor
      · rintro ⟨sj, h1, h2, h3⟩; exact ⟨sj, by omega, h2, h3⟩
      · rintro ⟨sj, h1, h2, h3⟩
        rcases Nat.eq_or_lt_of_le h1 with rfl | h
        · rw [hm] at h3; cases h3
        · exact ⟨sj, h, h2, h3⟩

/-- `pmLoop` at a run of `*`. -/
theorem pmLoop_star_iff (cfg : Cfg) (hg : cfg.guardClass = true) (p s : List Nat) (hs : NoNul s) (fl : Flags)
    (pi si pj : Nat) (hstar : rd p pi = some C_STAR) (hpj : skipStars p pi = some pj)
    (hsi : si ≤ s.length) :
    pmLoop cfg p s fl pi si = .yes ↔
      rd p pj = some 0 ∨ ∃ sj, si ≤ sj ∧ sj < s.length ∧ matchAt cfg p s fl pj sj = .yes := by
  have hle := skipStars_le hpj
  obtain ⟨c', hc'⟩ := rd_isSome hle
  rw [pmLoop_eq]; simp only [hstar, hpj, hc']
  by_cases h0 : c' = 0
  · subst h0; simp
  · have : (42 : Nat) ≠ 0 := by decide
    simp only [h0, if_false, Option.some.injEq, false_or, this, (by decide : (42 : Nat) ≠ 63), if_true]
    exact star_yes_iff cfg hg p s hs fl pj hle si hsi

theorem pm_question' (cfg : Cfg) (p s : List Nat) (fl : Flags) (pi si : Nat) (hs : NoNul s)
    (hq : rd p pi = some C_QUEST) (hsi : si < s.length) :
    pmLoop cfg p s fl pi si = pmLoop cfg p s fl (pi + 1) (si + 1) := by
  obtain ⟨c, hc, hc0, _⟩ := rd_inside hs hsi
  rw [pmLoop_eq]; simp [hq, hc, hc0]

theorem pm_question_at_end' (cfg : Cfg) (p s : List Nat) (fl : Flags) (pi : Nat)
    (hq : rd p pi = some C_QUEST) :
    pmLoop cfg p s fl pi s.length = .no := by
  rw [pmLoop_eq]; simp [hq, rd_len]

/-! ### literals -/

/-- A character with no special meaning anywhere in a pattern. -/
def Lit (c : Nat) : Prop :=
  c ≠ 0 ∧ c ≠ C_STAR ∧ c ≠ C_QUEST ∧ c ≠ C_LBRACK ∧ c ≠ C_BSL ∧ c ≠ C_SLASH ∧ c ≠ C_DOLLAR

theorem dotSlash_noSlash {s : List Nat} (hs : ∀ c ∈ s, c ≠ C_SLASH) (i : Nat) (hi : i ≤ s.length) :
    dotSlash s i = some i := by
  unfold dotSlash
  obtain ⟨c, hc⟩ := rd_isSome hi
  simp only [hc]
  split
  · rename_i hd; subst hd
    have h1 : i + 1 ≤ s.length := rd_lt hc (by decide)
    obtain ⟨d, hd⟩ := rd_isSome h1
    simp only [hd]
    have : d ≠ C_SLASH := by
      intro h; subst h
      have hl := rd_lt hd (by decide)
      exact hs _ (List.getElem_mem hl) (rd_getElem hd hl)
    simp [this]
  · rfl

theorem pmLoop_literal (cfg : Cfg) (p s : List Nat) (fl : Flags) (hp : ∀ c ∈ p, Lit c) (hs : NoNul s)
    (hns : ∀ c ∈ s, c ≠ C_SLASH) (pi si : Nat) (hpi : pi ≤ p.length) (hsi : si ≤ s.length) :
    pmLoop cfg p s fl pi si = .ofBool (p.drop pi = s.drop si) := by
  induction hn : p.length - pi generalizing pi si with
  | zero =>
    have : pi = p.length := by omega
    subst this
    obtain ⟨d, hd⟩ := rd_isSome hsi
    have hne : d ≠ C_SLASH := by
      intro h; subst h
      have hl := rd_lt hd (by decide)
      exact hns _ (List.getElem_mem hl) (rd_getElem hd hl)
    rw [pmLoop_eq]; simp only [rd_len, hd, if_true, hne, if_false]
    have : d = 0 ↔ si = s.length := by
      rw [← rd_zero_iff hs]; constructor
      · rintro rfl; exact hd
      · intro h; rw [h] at hd; cases hd; rfl
    by_cases h0 : d = 0
    · have := this.mp h0; subst this; simp [h0]
    · have hlt : si < s.length := by have := mt this.mpr h0; omega
      have : ¬ s.length ≤ si := by omega
      simp [h0, List.drop_eq_nil_iff, this]
  | succ n ih =>
    have hlt : pi < p.length := by omega
    have hc := rd_of_lt hlt
    obtain ⟨h0, h1, h2, h3, h4, h5, h6⟩ := hp _ (List.getElem_mem hlt)
    obtain ⟨c1, hc1⟩ := rd_isSome (show pi + 1 ≤ p.length by omega)
    obtain ⟨d, hd⟩ := rd_isSome hsi
    rw [pmLoop_eq]; simp only [hc, hc1, hd, h0, h1, h2, h3, h4, h5, h6, if_false, false_and]
    have hpd : p.drop pi = p[pi] :: p.drop (pi + 1) := List.drop_eq_getElem_cons hlt
    by_cases hcd : p[pi] = d
    · have hd0 : d ≠ 0 := hcd ▸ h0
      have hsl := rd_lt hd hd0
      have hsd : s.drop si = s[si] :: s.drop (si + 1) := List.drop_eq_getElem_cons hsl
      have hds : s[si] = d := rd_getElem hd hsl
      have hiff : (p.drop pi = s.drop si) ↔ (p.drop (pi + 1) = s.drop (si + 1)) := by
        rw [hpd, hsd, List.cons.injEq]
        exact ⟨fun h => h.2, fun h => ⟨by rw [hcd, hds], h⟩⟩
      simp only [hcd, ne_eq, not_true, if_false]
      rw [ih (pi + 1) (si + 1) (by omega) (by omega) (by omega)]
      simp only [hiff]
    · simp only [ne_eq, hcd, not_false_eq_true, if_true]
      have : ¬ (p.drop pi = s.drop si) := by
        rw [hpd]
        rcases Nat.lt_or_ge si s.length with hsl | hsl
        · rw [List.drop_eq_getElem_cons hsl, List.cons.injEq]
          exact fun h => hcd (by rw [h.1, rd_getElem hd hsl])
        · rw [List.drop_eq_nil_iff.mpr hsl]; exact List.cons_ne_nil _ _
      simp [Res.ofBool, this]

/-- A literal pattern followed in the subject by `/…`: with `PATHMATCH_NO_ANCHOR_END` it matches. -/
theorem pmLoop_literal_dir (cfg : Cfg) (p rest : List Nat) (fl : Flags) (hf : fl.noEnd = true)
    (hp : ∀ c ∈ p, Lit c) (pi : Nat) (hpi : pi ≤ p.length) :
    pmLoop cfg p (p ++ C_SLASH :: rest) fl pi pi = .yes := by
  induction hn : p.length - pi generalizing pi with
  | zero =>
    have : pi = p.length := by omega
    subst this
    have hs : rd (p ++ C_SLASH :: rest) p.length = some C_SLASH := by
      rw [rd_of_lt (by simp)]; simp
    rw [pmLoop_eq]; simp [rd_len, hs, hf]
  | succ n ih =>
    have hlt : pi < p.length := by omega
    have hc := rd_of_lt hlt
    obtain ⟨h0, h1, h2, h3, h4, h5, h6⟩ := hp _ (List.getElem_mem hlt)
    obtain ⟨c1, hc1⟩ := rd_isSome (show pi + 1 ≤ p.length by omega)
    have hs : rd (p ++ C_SLASH :: rest) pi = some p[pi] := by
      rw [rd_of_lt (by simp; omega)]; simp [List.getElem_append_left hlt]
    rw [pmLoop_eq]; simp only [hc, hc1, hs, h0, h1, h2, h3, h4, h5, h6, if_false, false_and, ne_eq,
      not_true, if_false]
    exact ih (pi + 1) (by omega) (by omega)

/-! ### unanchored start -/

theorem strchrSlash_none_iff {s : List Nat} (hs : NoNul s) {i : Nat} (hi : i ≤ s.length) :
    strchrSlash s i = some none ↔ ∀ j, i ≤ j → (h : j < s.length) → s[j] ≠ C_SLASH := by
  induction hn : s.length - i generalizing i with
  | zero =>
    have : i = s.length := by omega
    subst this
    rw [strchrSlash_eq]; simp [rd_len]; intro j h1 h2; omega
  | succ n ih =>
    have hlt : i < s.length := by omega
    obtain ⟨c, hc, hc0, hci⟩ := rd_inside hs hlt
    rw [strchrSlash_eq]; simp only [hc]
    · by_cases h47 : c = C_SLASH
      · simp only [h47, if_true]
        constructor
        · intro h; cases h
        · intro h; exact absurd (hci ▸ h47) (h i (Nat.le_refl _) hlt)
      · simp only [h47, if_false, hc0]
        rw [ih (by omega) (by omega)]
        constructor
        · intro h j h1 h2
          rcases Nat.eq_or_lt_of_le h1 with rfl | h'
          · exact hci ▸ h47
          · exact h j h' h2
        · intro h j h1 h2; exact h j (by omega) h2

theorem strchrSlash_some_iff {s : List Nat} (hs : NoNul s) {i : Nat} (hi : i ≤ s.length) (j : Nat) :
    strchrSlash s i = some (some j) ↔
      i ≤ j ∧ ∃ h : j < s.length, s[j] = C_SLASH ∧ ∀ k, i ≤ k → (hk : k < j) → s[k] ≠ C_SLASH := by
  induction hn : s.length - i generalizing i with
  | zero =>
    have : i = s.length := by omega
    subst this
    rw [strchrSlash_eq]; simp [rd_len]; intro h1 h2; omega
  | succ n ih =>
    have hlt : i < s.length := by omega
    obtain ⟨c, hc, hc0, hci⟩ := rd_inside hs hlt
    rw [strchrSlash_eq]; simp only [hc]
    · by_cases h47 : c = C_SLASH
      · simp only [h47, if_true]
        constructor
        · intro h; cases h
          exact ⟨Nat.le_refl _, hlt, hci ▸ h47, fun k h1 h2 => by omega⟩
        · rintro ⟨h1, h2, h3, h4⟩
          rcases Nat.eq_or_lt_of_le h1 with rfl | h'
          · rfl
          · exact absurd (hci ▸ h47) (h4 i (Nat.le_refl _) h')
      · simp only [h47, if_false, hc0]
        rw [ih (by omega) (by omega)]
        constructor
        · rintro ⟨h1, h2, h3, h4⟩
          refine ⟨by omega, h2, h3, fun k hk1 hk2 => ?_⟩
          rcases Nat.eq_or_lt_of_le hk1 with rfl | h'
          · exact hci ▸ h47
          · exact h4 k h' hk2
        · rintro ⟨h1, h2, h3, h4⟩
          have : i ≠ j := by rintro rfl; exact h47 (hci ▸ h3)
          exact ⟨by omega, h2, h3, fun k hk1 hk2 => h4 k (by omega) hk2⟩

/-- Start of the first path element tried by the unanchored loop: a leading '/' is skipped. -/
def firstStart (s : List Nat) (si : Nat) : Nat :=
  if rd s si = some C_SLASH then si + 1 else si

/-- `k` is a position the unanchored loop tries: the first start, or just after a '/' at or behind it. -/
def ElemStart (s : List Nat) (si k : Nat) : Prop :=
  k = firstStart s si ∨ ∃ j, firstStart s si ≤ j ∧ ∃ h : j < s.length, s[j] = C_SLASH ∧ k = j + 1

/-- With `PATHMATCH_NO_ANCHOR_START` the matcher succeeds iff `pm()` succeeds at the start
of some path element (the position after any '/', or the very beginning). -/
theorem unanch_yes_iff (cfg : Cfg) (hg : cfg.guardClass = true) (p s : List Nat) (hs : NoNul s) (fl : Flags)
    (pi : Nat) (hpi : pi ≤ p.length) (si : Nat) (hsi : si ≤ s.length) :
    unanch cfg p s fl pi si = .yes ↔ ∃ k, ElemStart s si k ∧ pm cfg p s fl pi k = .yes := by
  induction hn : s.length - si using Nat.strongRecOn generalizing si with
  | _ n ih =>
    obtain ⟨d, hd⟩ := rd_isSome hsi
    have hk0 : (if d = C_SLASH then si + 1 else si) = firstStart s si := by
      unfold firstStart; rw [hd]; by_cases h : d = C_SLASH <;> simp [h]
    have hk0le : firstStart s si ≤ s.length := by
      rw [← hk0]; split
      · rename_i h; subst h; exact rd_lt hd (by decide)
      · exact hsi
    have hk0ge : si ≤ firstStart s si := by rw [← hk0]; split <;> omega
    rw [unanch_eq]; simp only [hd, hk0]
    have hsafe := (safe_all cfg hg p s).2.2.2.1 fl pi (firstStart s si) hpi hk0le
    cases hm : pm cfg p s fl pi (firstStart s si) with
    | oob => exact absurd hm hsafe
    | yes => simp; exact ⟨_, .inl rfl, hm⟩
    | no =>
      simp only []
      cases hc : strchrSlash s (firstStart s si) with
      | none => exact absurd hc (strchrSlash_ne_none hk0le)
      | some o =>
        cases o with
        | none =>
          simp only []
          have hno := (strchrSlash_none_iff hs hk0le).mp hc
          constructor
          · intro h; cases h
          · rintro ⟨k, hk | ⟨j, h1, h2, h3, _⟩, hy⟩
            · subst hk; rw [hm] at hy; cases hy
            · exact absurd h3 (hno j h1 h2)
        | some sj =>
          simp only []
          obtain ⟨h1, h2, h3, h4⟩ := (strchrSlash_some_iff hs hk0le sj).mp hc
          have hfs : firstStart s sj = sj + 1 := by
            unfold firstStart; rw [rd_of_lt h2, h3]; simp
          have hsisj : si < sj := by
            rcases Nat.eq_or_lt_of_le (Nat.le_trans hk0ge h1) with heq | hlt
            · subst heq
              have : d = C_SLASH := by rw [← rd_getElem hd h2]; exact h3
              rw [← hk0] at h1; simp [this] at h1; omega
            · exact hlt
          rw [ih (s.length - sj) (by omega) sj (by omega) rfl]
          constructor
          · rintro ⟨k, hk | ⟨j, hj1, hj2, hj3, hj4⟩, hy⟩
            · exact ⟨k, .inr ⟨sj, h1, h2, h3, by rw [hk, hfs]⟩, hy⟩
            · exact ⟨k, .inr ⟨j, by rw [hfs] at hj1; omega, hj2, hj3, hj4⟩, hy⟩
          · rintro ⟨k, hk | ⟨j, hj1, hj2, hj3, hj4⟩, hy⟩
            · subst hk; rw [hm] at hy; cases hy
            · rcases Nat.lt_trichotomy j sj with hlt | heq | hgt
              · exact absurd hj3 (h4 j hj1 hlt)
              · subst heq; exact ⟨k, .inl (by rw [hfs, hj4]), hy⟩
              · exact ⟨k, .inr ⟨j, by rw [hfs]; omega, hj2, hj3, hj4⟩, hy⟩

end LA.Pm
