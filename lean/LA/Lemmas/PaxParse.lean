/- The pax record writer against the record parser (C02). Core Lean only. -/
import LA.Lemmas.Pax
import LA.Model.NumFmt
namespace LA.Pax
open LA.NumFmt

theorem parseLen_decDigits (n : Nat) : ∀ (l : Nat) (t : List Nat),
    l * 10 ^ (decDigits n).length + n ≤ 99999999 →
    parseLen (decDigits n ++ t) l = parseLen t (l * 10 ^ (decDigits n).length + n) := by
  induction n using Nat.strongRecOn with
  | _ n ih =>
    intro l t hb
    rw [decDigits] at hb ⊢
    by_cases h10 : n < 10
    · rw [dif_pos h10] at hb ⊢
      simp only [List.length_singleton, Nat.pow_one, List.singleton_append] at hb ⊢
      rw [parseLen]
      have h1 : ¬ (48 + n = 32) := by omega
      have h2 : 48 ≤ 48 + n ∧ 48 + n ≤ 57 := by omega
      have h3 : ¬ (l * 10 + (48 + n - 48) > 99999999) := by omega
      rw [if_neg h1, if_pos h2, if_neg h3]
      congr 1; omega
    · rw [dif_neg h10] at hb ⊢
      simp only [List.length_append, List.length_singleton] at hb ⊢
      have hpow : 10 ^ ((decDigits (n / 10)).length + 1) = 10 ^ (decDigits (n / 10)).length * 10 := Nat.pow_succ ..
      rw [hpow] at hb ⊢
      have hdm : 10 * (n / 10) + n % 10 = n := Nat.div_add_mod n 10
      have hmul : l * (10 ^ (decDigits (n / 10)).length * 10) = l * 10 ^ (decDigits (n / 10)).length * 10 := by
        rw [Nat.mul_assoc]
      have hb' : l * 10 ^ (decDigits (n / 10)).length + n / 10 ≤ 99999999 := by omega
      rw [List.append_assoc, ih (n / 10) (by omega) l _ hb']
      simp only [List.singleton_append]
      rw [parseLen]
      have h1 : ¬ (48 + n % 10 = 32) := by omega
      have h2 : 48 ≤ 48 + n % 10 ∧ 48 + n % 10 ≤ 57 := by omega
      have h3 : ¬ ((l * 10 ^ (decDigits (n / 10)).length + n / 10) * 10 + (48 + n % 10 - 48) > 99999999) := by omega
      rw [if_neg h1, if_pos h2, if_neg h3]
      congr 1; omega

theorem parseLen_number (n : Nat) (t : List Nat) (hn : n ≤ 99999999) :
    parseLen (decDigits n ++ 32 :: t) 0 = some (n, t) := by
  rw [parseLen_decDigits n 0 _ (by omega)]
  simp only [Nat.zero_mul, Nat.zero_add]
  rw [parseLen, if_pos rfl]

theorem decDigits_length_le (n : Nat) (hn : n ≤ 99999999) : (decDigits n).length ≤ 8 := by
  by_cases h0 : n = 0
  · subst h0; rw [decDigits]; simp
  · obtain ⟨b1, b2, b3⟩ := nd_bounds n (by omega)
    have hl := decDigits_length (nd n) n b3 b1 b2
    rw [hl]
    rcases Nat.lt_or_ge (nd n) 9 with h | h
    · omega
    · have : 10 ^ 8 ≤ 10 ^ (nd n - 1) := Nat.pow_le_pow_right (by decide) (by omega)
      have h8 : (10 : Nat) ^ 8 = 100000000 := by decide
      omega

theorem findEq_key (key t : List Nat) (lim : Nat) (hk : ∀ c ∈ key, c ≠ 61) (hl : key.length < lim) :
    findEq (key ++ 61 :: t) lim = some key.length := by
  induction key generalizing lim with
  | nil =>
    obtain ⟨l', rfl⟩ : ∃ l', lim = l' + 1 := ⟨lim - 1, by simp at hl; omega⟩
    simp [findEq]
  | cons c r ih =>
    obtain ⟨l', rfl⟩ : ∃ l', lim = l' + 1 := ⟨lim - 1, by simp at hl; omega⟩
    simp only [List.cons_append, findEq]
    have hc : c ≠ 61 := hk c (List.mem_cons_self ..)
    rw [if_neg hc, ih l' (fun c' h => hk c' (List.mem_cons_of_mem _ h)) (by simp at hl; omega)]
    simp

/-- **One record**: what `add_pax_attr_binary` appends is taken apart again by the reader's loop, for
any value bytes (newlines, '=' and NULs included); the key is non-empty and has no '='. -/
theorem parseRecord_record (key value rest : List Nat) (hk : key ≠ []) (hkeq : ∀ c ∈ key, c ≠ 61)
    (hlen : recordLen key value ≤ 99999999) :
    parseRecord (record key value ++ rest) = some (key, value, rest) := by
  have hdig := recordLen_digits key value
  generalize hL : recordLen key value = L at *
  have hd8 := decDigits_length_le L hlen
  generalize hD : decDigits L = D at *
  have hrec : record key value = D ++ 32 :: (key ++ 61 :: (value ++ [10])) := by
    unfold record; rw [hL, hD]; simp
  have hreclen : (record key value).length = L := by
    rw [hrec]; simp only [List.length_append, List.length_cons, List.length_nil]; omega
  unfold parseRecord
  simp only []
  generalize hWdef : (512 : Nat) = W
  have hW : 512 ≤ W := by omega
  -- the window
  have hw : (record key value ++ rest).take W = D ++ 32 :: ((key ++ 61 :: (value ++ [10]) ++ rest).take (W - D.length - 1)) := by
    rw [hrec, List.append_assoc, List.take_append, List.take_of_length_le (by omega)]
    congr 1
    rw [List.cons_append]
    have : W - D.length = (W - D.length - 1) + 1 := by omega
    rw [this, List.take_succ_cons]
    simp only [Nat.add_sub_cancel]
  rw [hw, ← hD, parseLen_number L _ hlen, hD]
  simp only []
  have hwl : (D ++ 32 :: ((key ++ 61 :: (value ++ [10]) ++ rest).take (W - D.length - 1))).length
      - ((key ++ 61 :: (value ++ [10]) ++ rest).take (W - D.length - 1)).length = D.length + 1 := by
    simp only [List.length_append, List.length_cons]; omega
  rw [hwl]
  have htot : (record key value ++ rest).length = L + rest.length := by rw [List.length_append, hreclen]
  rw [if_neg (by omega)]
  rw [if_neg (by omega)]
  have hdrop : (record key value ++ rest).drop (D.length + 1) = key ++ 61 :: (value ++ [10] ++ rest) := by
    rw [hrec]
    have : (D ++ 32 :: (key ++ 61 :: (value ++ [10])) ++ rest) = (D ++ [32]) ++ (key ++ 61 :: (value ++ [10] ++ rest)) := by simp
    rw [this]
    have hl : (D ++ [32]).length = D.length + 1 := by simp
    rw [← hl, List.drop_left]
  rw [hdrop, findEq_key key _ _ hkeq (by omega)]
  obtain ⟨k', hk'⟩ : ∃ k', key.length = k' + 1 := ⟨key.length - 1, by
    have : key.length ≠ 0 := fun h => hk (List.eq_nil_of_length_eq_zero h)
    omega⟩
  rw [hk']
  simp only []
  rw [← hk']
  have hkey : (key ++ 61 :: (value ++ [10] ++ rest)).take key.length = key := List.take_left
  rw [hkey]
  rw [if_neg (by omega)]
  have hval : ((record key value ++ rest).drop (D.length + 1 + key.length + 1)).take (L - (D.length + 1 + key.length + 1) - 1) = value := by
    rw [hrec]
    have : (D ++ 32 :: (key ++ 61 :: (value ++ [10])) ++ rest) = (D ++ [32] ++ key ++ [61]) ++ (value ++ ([10] ++ rest)) := by simp
    rw [this]
    have hl : (D ++ [32] ++ key ++ [61]).length = D.length + 1 + key.length + 1 := by simp; omega
    rw [← hl, List.drop_left]
    have : L - (D ++ [32] ++ key ++ [61]).length - 1 = value.length := by rw [hl]; omega
    rw [this, List.take_left]
  rw [hval]
  have hnl : ((record key value ++ rest).drop (L - 1)).head? = some 10 := by
    rw [hrec]
    have : (D ++ 32 :: (key ++ 61 :: (value ++ [10])) ++ rest) = (D ++ [32] ++ key ++ [61] ++ value) ++ (10 :: rest) := by simp
    rw [this]
    have hl : (D ++ [32] ++ key ++ [61] ++ value).length = L - 1 := by simp; omega
    rw [← hl, List.drop_left]; rfl
  rw [hnl]
  simp only [ne_eq, not_true_eq_false, if_false]
  have hrest : (record key value ++ rest).drop L = rest := by rw [← hreclen, List.drop_left]
  rw [hrest]

/-- What the writer hands to `add_pax_attr*`: a non-empty key without '=' and a record of at most
99999999 bytes. -/
def RecordOK (kv : List Nat × List Nat) : Prop :=
  kv.1 ≠ [] ∧ (∀ c ∈ kv.1, c ≠ 61) ∧ recordLen kv.1 kv.2 ≤ 99999999

theorem record_ne_nil (k v : List Nat) : record k v ≠ [] := by
  unfold record; simp

theorem parseRecords_records (kvs : List (List Nat × List Nat)) (h : ∀ kv ∈ kvs, RecordOK kv) :
    parseRecords kvs.length (kvs.flatMap fun kv => record kv.1 kv.2) = some kvs := by
  induction kvs with
  | nil => rfl
  | cons kv r ih =>
    obtain ⟨hk, hkeq, hlen⟩ := h kv (List.mem_cons_self ..)
    simp only [List.length_cons, List.flatMap_cons, parseRecords]
    have hne : record kv.1 kv.2 ++ List.flatMap (fun kv => record kv.1 kv.2) r ≠ [] := by
      intro hh
      exact record_ne_nil kv.1 kv.2 (List.append_eq_nil_iff.1 hh).1
    rw [if_neg hne, parseRecord_record kv.1 kv.2 _ hk hkeq hlen]
    simp only []
    rw [ih (fun kv' h' => h kv' (List.mem_cons_of_mem _ h'))]
    rfl

/-! ### decimal attribute values: `format_int` against `tar_atol10` -/

theorem atolLoop_decDigits (n : Nat) : ∀ (l : Nat) (t : List Nat),
    l * 10 ^ (decDigits n).length + n < 9223372036854775800 →
    atolLoop 10 922337203685477580 7 (decDigits n ++ t) l
      = atolLoop 10 922337203685477580 7 t (l * 10 ^ (decDigits n).length + n) := by
  induction n using Nat.strongRecOn with
  | _ n ih =>
    intro l t hb
    rw [decDigits] at hb ⊢
    by_cases h10 : n < 10
    · rw [dif_pos h10] at hb ⊢
      simp only [List.length_singleton, Nat.pow_one, List.singleton_append] at hb ⊢
      rw [atolLoop]
      have h2 : c0 ≤ 48 + n ∧ 48 + n < c0 + 10 := by simp only [c0]; omega
      rw [if_pos h2]
      have h3 : ¬ (l > 922337203685477580 ∨ l = 922337203685477580 ∧ 48 + n - c0 ≥ 7) := by simp only [c0]; omega
      simp only [h3, if_false]
      congr 1; simp only [c0]; omega
    · rw [dif_neg h10] at hb ⊢
      simp only [List.length_append, List.length_singleton] at hb ⊢
      have hpow : 10 ^ ((decDigits (n / 10)).length + 1) = 10 ^ (decDigits (n / 10)).length * 10 := Nat.pow_succ ..
      rw [hpow] at hb ⊢
      have hmul : l * (10 ^ (decDigits (n / 10)).length * 10) = l * 10 ^ (decDigits (n / 10)).length * 10 := by
        rw [Nat.mul_assoc]
      have hb' : l * 10 ^ (decDigits (n / 10)).length + n / 10 < 9223372036854775800 := by omega
      rw [List.append_assoc, ih (n / 10) (by omega) l _ hb']
      simp only [List.singleton_append]
      rw [atolLoop]
      have h2 : c0 ≤ 48 + n % 10 ∧ 48 + n % 10 < c0 + 10 := by simp only [c0]; omega
      rw [if_pos h2]
      have h3 : ¬ (l * 10 ^ (decDigits (n / 10)).length + n / 10 > 922337203685477580 ∨
          l * 10 ^ (decDigits (n / 10)).length + n / 10 = 922337203685477580 ∧ 48 + n % 10 - c0 ≥ 7) := by
        simp only [c0]; omega
      simp only [h3, if_false]
      congr 1; simp only [c0]; omega

/-- A non-negative number `format_int` wrote is read back by `tar_atol10` (`pax_attribute_read_number`:
uid, gid, size, the seconds of a time stamp …). -/
theorem tarAtol10_decDigits (n : Nat) (hn : n < 9223372036854775800) : tarAtol10 (decDigits n) = (n : Int) := by
  unfold tarAtol10 tarAtolBaseN
  have hloop := atolLoop_decDigits n 0 [] (by omega)
  simp only [List.append_nil, Nat.zero_mul, Nat.zero_add, atolLoop] at hloop
  -- the first byte is a digit: neither blank nor '-'
  have hhead : ∃ c r, decDigits n = c :: r ∧ 48 ≤ c ∧ c ≤ 57 := by
    have : ∀ m, ∃ c r, decDigits m = c :: r ∧ 48 ≤ c ∧ c ≤ 57 := by
      intro m
      induction m using Nat.strongRecOn with
      | _ m ihm =>
        rw [decDigits]
        by_cases h10 : m < 10
        · rw [dif_pos h10]; exact ⟨48 + m, [], rfl, by omega, by omega⟩
        · rw [dif_neg h10]
          obtain ⟨c, r, h, h1, h2⟩ := ihm (m / 10) (by omega)
          exact ⟨c, r ++ [48 + m % 10], by rw [h]; rfl, h1, h2⟩
    exact this n
  obtain ⟨c, r, hcr, hc1, hc2⟩ := hhead
  have hdb : dropBlanks (decDigits n) = decDigits n := by
    rw [hcr]; simp only [dropBlanks]
    have : ¬ (c = sp ∨ c = 9) := by simp only [sp]; omega
    rw [if_neg this]
  simp only [hdb]
  have h1 : (9223372036854775807 : Nat) / 10 = 922337203685477580 := by decide
  have h2 : (9223372036854775807 : Nat) % 10 = 7 := by decide
  split
  · rename_i rest heq
    rw [hcr] at heq
    simp only [List.cons.injEq] at heq
    omega
  · rw [h1, h2, hloop]

end LA.Pax
