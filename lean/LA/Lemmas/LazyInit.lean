/- Invariant proof for the lazy-initialisation machine of `LA.Model.LazyInit`. -/
import LA.Model.LazyInit
namespace LA.LazyInit

/-- Slot `i` already holds its final value. -/
def Good (f : Nat → Nat) (m : Mem) (i : Nat) : Prop := m.tbl[i]? = some (f i)

/-- No table store is sequenced after the store of the flag. -/
def FlagLast : List Instr → Prop
  | [] => True
  | .setFlag :: rest => (∀ i v, Instr.store i v ∉ rest) ∧ FlagLast rest
  | _ :: rest => FlagLast rest

/-- What a thread must satisfy, in memory `m`, for its look-ups to be right. -/
structure TInv (f : Nat → Nat) (n : Nat) (m : Mem) (t : Thread) : Prop where
  /-- every store it will still do writes the final value of an existing slot -/
  stores : ∀ i v, Instr.store i v ∈ t.init ++ t.use → i < n ∧ v = f i
  /-- the flag is stored after the table -/
  flagLast : FlagLast t.init
  /-- no look-up inside the initialisation -/
  noRead : ∀ j, Instr.read j ∉ t.init
  /-- every slot is already final or the thread will still fill it before it looks anything up -/
  covers : ∀ i, i < n → Good f m i ∨ Instr.store i (f i) ∈ t.init
  /-- what it has looked up so far is the final table -/
  obsOk : ∀ p ∈ t.obs, p.2 = (final f n)[p.1]?

/-- Global invariant: the table keeps its size; flag set means table complete. -/
structure GInv (f : Nat → Nat) (n : Nat) (m : Mem) : Prop where
  len : m.tbl.length = n
  flagOk : m.flag = true → ∀ i, i < n → Good f m i

theorem final_get (f : Nat → Nat) (n j : Nat) : (final f n)[j]? = if j < n then some (f j) else none := by
  unfold final
  by_cases h : j < n <;> simp [h]

theorem read_final {f : Nat → Nat} {n : Nat} {m : Mem} (hl : m.tbl.length = n)
    (hg : ∀ i, i < n → Good f m i) (j : Nat) : m.tbl[j]? = (final f n)[j]? := by
  rw [final_get]
  by_cases h : j < n
  · simp only [h, if_true]; exact hg j h
  · simp only [h, if_false]
    exact List.getElem?_eq_none (by omega)

/-- A store of a final value keeps final slots final. -/
theorem good_store {f : Nat → Nat} {m : Mem} {i k : Nat} (h : Good f m i) :
    Good f { m with tbl := m.tbl.set k (f k) } i := by
  unfold Good at *
  simp only
  by_cases hk : k = i
  · subst hk
    have : k < m.tbl.length := by
      rcases Nat.lt_or_ge k m.tbl.length with hlt | hge
      · exact hlt
      · rw [List.getElem?_eq_none hge] at h; cases h
    simp [this]
  · simp [hk, h]

theorem good_store_self {f : Nat → Nat} {m : Mem} {k : Nat} (hk : k < m.tbl.length) :
    Good f { m with tbl := m.tbl.set k (f k) } k := by
  unfold Good
  simp [hk]

/-- Memory only gets better: the table keeps its size and final slots stay final. -/
structure Le (f : Nat → Nat) (m m' : Mem) : Prop where
  len : m'.tbl.length = m.tbl.length
  good : ∀ i, Good f m i → Good f m' i

theorem TInv.mono {f : Nat → Nat} {n : Nat} {m m' : Mem} {t : Thread} (h : TInv f n m t) (hle : Le f m m') :
    TInv f n m' t :=
  { stores := h.stores, flagLast := h.flagLast, noRead := h.noRead, obsOk := h.obsOk,
    covers := fun i hi => (h.covers i hi).imp (hle.good i) id }

/-- Effect of one instruction that is not a skipping `checkFlag`. -/
theorem apply_le {f : Nat → Nat} {n : Nat} {m : Mem} (ins : Instr)
    (hs : ∀ i v, ins = .store i v → i < n ∧ v = f i) : Le f m (m.apply ins) := by
  cases ins with
  | checkFlag => exact ⟨rfl, fun _ h => h⟩
  | read j => exact ⟨rfl, fun _ h => h⟩
  | setFlag => exact ⟨rfl, fun _ h => h⟩
  | store i v =>
    obtain ⟨_, hv⟩ := hs i v rfl
    subst hv
    exact ⟨by simp [Mem.apply], fun k hk => good_store hk⟩

/-- **One step of one thread keeps both invariants** and only improves memory. -/
theorem stepThread_inv {f : Nat → Nat} {n : Nat} {m : Mem} {t : Thread}
    (hg : GInv f n m) (ht : TInv f n m t) :
    GInv f n (stepThread m t).1 ∧ TInv f n (stepThread m t).1 (stepThread m t).2 ∧ Le f m (stepThread m t).1 := by
  unfold stepThread
  split
  · -- an instruction of the initialisation
    rename_i ins rest hinit
    split
    · -- `if (flag) return;` taken
      rename_i hc
      refine ⟨hg, ?_, ⟨rfl, fun _ h => h⟩⟩
      exact { stores := fun i v hmem => ht.stores i v (by simp at hmem; simp [hmem])
              flagLast := trivial
              noRead := fun j => by simp
              covers := fun i hi => Or.inl (hg.flagOk hc.2 i hi)
              obsOk := ht.obsOk }
    · rename_i hc
      have hst : ∀ i v, ins = .store i v → i < n ∧ v = f i := fun i v e =>
        ht.stores i v (by rw [hinit, e]; simp)
      have hle := apply_le (m := m) ins hst
      have hnr : ∀ j, ins ≠ .read j := fun j e => ht.noRead j (by rw [hinit, e]; simp)
      have hobs : observe m ins = [] := by
        cases ins <;> simp [observe]
        exact hnr _ rfl
      refine ⟨?_, ?_, hle⟩
      · -- global invariant
        refine ⟨by rw [hle.len]; exact hg.len, ?_⟩
        intro hflag i hi
        cases ins with
        | checkFlag => exact hg.flagOk hflag i hi
        | read j => exact hg.flagOk hflag i hi
        | store k v => exact hle.good i (hg.flagOk hflag i hi)
        | setFlag =>
          have hfl := ht.flagLast
          rw [hinit] at hfl
          rcases ht.covers i hi with h | h
          · exact h
          · rw [hinit] at h
            simp at h
            exact absurd h (hfl.1 i (f i))
      · -- thread invariant
        refine { stores := ?_, flagLast := ?_, noRead := ?_, covers := ?_, obsOk := ?_ }
        · intro i v hmem
          exact ht.stores i v (by rw [hinit]; simp at hmem ⊢; exact Or.inr hmem)
        · have hfl := ht.flagLast
          rw [hinit] at hfl
          cases ins <;> first | exact hfl | exact hfl.2
        · intro j hmem
          exact ht.noRead j (by rw [hinit]; simp [hmem])
        · intro i hi
          rcases ht.covers i hi with h | h
          · exact Or.inl (hle.good i h)
          · rw [hinit] at h
            simp only [List.mem_cons] at h
            rcases h with h | h
            · left
              subst h
              simp only [Mem.apply]
              exact good_store_self (by rw [hg.len]; exact hi)
            · exact Or.inr h
        · simp only [hobs, List.append_nil]
          exact ht.obsOk
  · -- initialisation over: the look-ups
    rename_i hinit
    have hall : ∀ i, i < n → Good f m i := fun i hi => by
      rcases ht.covers i hi with h | h
      · exact h
      · rw [hinit] at h; cases h
    split
    · rename_i ins rest huse
      have hst : ∀ i v, ins = .store i v → i < n ∧ v = f i := fun i v e =>
        ht.stores i v (by rw [huse, e]; simp)
      have hle := apply_le (m := m) ins hst
      refine ⟨⟨by rw [hle.len]; exact hg.len, fun _ i hi => hle.good i (hall i hi)⟩, ?_, hle⟩
      refine { stores := ?_, flagLast := by simp [hinit, FlagLast], noRead := by simp [hinit],
               covers := fun i hi => Or.inl (hle.good i (hall i hi)), obsOk := ?_ }
      · intro i v hmem
        exact ht.stores i v (by
          rw [huse]
          simp only [List.mem_append, List.mem_cons] at hmem ⊢
          rcases hmem with h | h
          · exact Or.inl h
          · exact Or.inr (Or.inr h))
      · intro p hp
        simp only [List.mem_append] at hp
        rcases hp with hp | hp
        · exact ht.obsOk p hp
        · cases ins with
          | read j =>
            simp [observe] at hp
            subst hp
            exact read_final hg.len hall j
          | checkFlag => simp [observe] at hp
          | setFlag => simp [observe] at hp
          | store i v => simp [observe] at hp
    · exact ⟨hg, ht, ⟨rfl, fun _ h => h⟩⟩

/-- Invariant of the whole system. -/
def SInv (f : Nat → Nat) (n : Nat) (s : Sys) : Prop := GInv f n s.mem ∧ ∀ t ∈ s.thr, TInv f n s.mem t

theorem step_inv {f : Nat → Nat} {n : Nat} {s : Sys} (h : SInv f n s) (k : Nat) : SInv f n (s.step k) := by
  unfold Sys.step
  split
  · exact h
  · rename_i t hk
    have htm : t ∈ s.thr := List.mem_of_getElem? hk
    obtain ⟨hg', ht', hle⟩ := stepThread_inv h.1 (h.2 t htm)
    refine ⟨hg', ?_⟩
    intro u hu
    rcases List.mem_or_eq_of_mem_set hu with hu | hu
    · exact (h.2 u hu).mono hle
    · exact hu ▸ ht'

theorem run_inv {f : Nat → Nat} {n : Nat} (ks : List Nat) {s : Sys} (h : SInv f n s) : SInv f n (s.run ks) := by
  induction ks generalizing s with
  | nil => exact h
  | cons k ks ih => exact ih (step_inv h k)

/-- A thread program is safe to start in fresh memory when: stores write final values, the flag comes
last, look-ups come after the initialisation, and the initialisation fills every slot. -/
structure WellFormed (f : Nat → Nat) (n : Nat) (t : Thread) : Prop where
  stores : ∀ i v, Instr.store i v ∈ t.init ++ t.use → i < n ∧ v = f i
  flagLast : FlagLast t.init
  noRead : ∀ j, Instr.read j ∉ t.init
  fills : ∀ i, i < n → Instr.store i (f i) ∈ t.init
  fresh : t.obs = []

theorem start_inv {f : Nat → Nat} {n : Nat} {ts : List Thread} (h : ∀ t ∈ ts, WellFormed f n t) :
    SInv f n (start n ts) :=
  ⟨⟨by simp [start, bss], by simp [start, bss]⟩,
   fun t ht => { stores := (h t ht).stores, flagLast := (h t ht).flagLast, noRead := (h t ht).noRead,
                 covers := fun i hi => Or.inr ((h t ht).fills i hi),
                 obsOk := by simp [(h t ht).fresh] }⟩

theorem mem_fill {f : Nat → Nat} {n i v : Nat} : Instr.store i v ∈ fill f n ↔ i < n ∧ v = f i := by
  simp only [fill, List.mem_map, List.mem_range, Instr.store.injEq]
  constructor
  · rintro ⟨a, ha, rfl, rfl⟩; exact ⟨ha, rfl⟩
  · rintro ⟨h, rfl⟩; exact ⟨i, h, rfl, rfl⟩

theorem not_mem_reads_store {js : List Nat} {i v : Nat} : Instr.store i v ∉ reads js := by
  simp [reads]

theorem read_not_mem_fill {f : Nat → Nat} {n j : Nat} : Instr.read j ∉ fill f n := by
  simp [fill]

theorem flagLast_fill (f : Nat → Nat) (n : Nat) (tail : List Instr) (h : FlagLast tail) :
    FlagLast (fill f n ++ tail) := by
  unfold fill
  generalize List.range n = l
  induction l with
  | nil => simpa using h
  | cons a l ih => simpa [FlagLast] using ih

theorem wf_fillThenFlag (f : Nat → Nat) (n : Nat) (js : List Nat) : WellFormed f n (fillThenFlag f n js) where
  stores := fun i v h => by
    simp only [fillThenFlag, reads, List.cons_append, List.mem_cons, List.mem_append, List.mem_map,
      reduceCtorEq, false_or, or_false, and_false, exists_false] at h
    exact mem_fill.mp (by simpa using h)
  flagLast := by
    show FlagLast (.checkFlag :: (fill f n ++ [.setFlag]))
    simp only [FlagLast]
    exact flagLast_fill f n _ (by simp [FlagLast])
  noRead := fun j h => by
    simp only [fillThenFlag, List.mem_cons, List.mem_append, reduceCtorEq, false_or] at h
    rcases h with h | h
    · exact read_not_mem_fill h
    · simp at h
  fills := fun i hi => by
    simp only [fillThenFlag, List.mem_cons, List.mem_append, reduceCtorEq, false_or]
    exact Or.inl (mem_fill.mpr ⟨hi, rfl⟩)
  fresh := rfl

theorem wf_idempotentFill (f : Nat → Nat) (n : Nat) (js : List Nat) : WellFormed f n (idempotentFill f n js) where
  stores := fun i v h => by
    simp only [idempotentFill, List.mem_append] at h
    rcases h with h | h
    · exact mem_fill.mp h
    · exact absurd h not_mem_reads_store
  flagLast := by
    have := flagLast_fill f n [] trivial
    simpa [idempotentFill] using this
  noRead := fun j h => read_not_mem_fill h
  fills := fun i hi => mem_fill.mpr ⟨hi, rfl⟩
  fresh := rfl

end LA.LazyInit

/-! ### Every look-up is answered: a finished thread has observed its whole `use` list -/
namespace LA.LazyInit

/-- The slots a list of instructions will still look up. -/
def pending : List Instr → List Nat
  | [] => []
  | .read j :: rest => j :: pending rest
  | _ :: rest => pending rest

/-- Progress relation between a thread as started (`t0`) and as it is now. -/
def Tracks (t0 t : Thread) : Prop :=
  (∀ j, Instr.read j ∉ t.init) ∧ t.obs.map Prod.fst ++ pending t.use = pending t0.use

theorem observe_fst (m : Mem) (ins : Instr) : (observe m ins).map Prod.fst = pending [ins] := by
  cases ins <;> simp [observe, pending]

theorem pending_cons (ins : Instr) (rest : List Instr) : pending (ins :: rest) = pending [ins] ++ pending rest := by
  cases ins <;> simp [pending]

theorem stepThread_tracks {t0 t : Thread} (m : Mem) (h : Tracks t0 t) : Tracks t0 (stepThread m t).2 := by
  obtain ⟨hnr, heq⟩ := h
  unfold stepThread
  split
  · rename_i ins rest hinit
    split
    · exact ⟨by simp, heq⟩
    · refine ⟨fun j hj => hnr j (by rw [hinit]; simp [hj]), ?_⟩
      have : observe m ins = [] := by
        cases ins with
        | read j => exact absurd (by rw [hinit]; simp) (hnr j)
        | checkFlag => rfl
        | setFlag => rfl
        | store i v => rfl
      simpa [this] using heq
  · rename_i hinit
    split
    · rename_i ins rest huse
      refine ⟨by simp [hinit], ?_⟩
      rw [huse, pending_cons] at heq
      simp only [List.map_append, observe_fst, List.append_assoc]
      exact heq
    · exact ⟨hnr, heq⟩

/-- All threads of a system track the pool they were started from. -/
def STracks (ts : List Thread) (s : Sys) : Prop :=
  s.thr.length = ts.length ∧ ∀ (k : Nat) (t0 t : Thread), ts[k]? = some t0 → s.thr[k]? = some t → Tracks t0 t

theorem step_tracks {ts : List Thread} {s : Sys} (h : STracks ts s) (k : Nat) : STracks ts (s.step k) := by
  unfold Sys.step
  split
  · exact h
  · rename_i t hk
    refine ⟨by simp [h.1], ?_⟩
    intro i t0 u h0 hu
    simp only [List.getElem?_set] at hu
    by_cases hik : k = i
    · subst hik
      have hlt : k < s.thr.length := by
        rcases Nat.lt_or_ge k s.thr.length with hlt | hge
        · exact hlt
        · rw [List.getElem?_eq_none hge] at hk; cases hk
      simp [hlt] at hu
      subst hu
      exact stepThread_tracks s.mem (h.2 k t0 t h0 hk)
    · simp [hik] at hu
      exact h.2 i t0 u h0 hu

theorem run_tracks {ts : List Thread} (ks : List Nat) {s : Sys} (h : STracks ts s) : STracks ts (s.run ks) := by
  induction ks generalizing s with
  | nil => exact h
  | cons k ks ih => exact ih (step_tracks h k)

theorem start_tracks {f : Nat → Nat} {n : Nat} {ts : List Thread} (h : ∀ t ∈ ts, WellFormed f n t) :
    STracks ts (start n ts) := by
  refine ⟨rfl, ?_⟩
  intro k t0 t h0 ht
  have : t0 = t := by simp [start] at ht; rw [h0] at ht; exact Option.some.inj ht
  subst this
  exact ⟨(h t0 (List.mem_of_getElem? h0)).noRead, by simp [(h t0 (List.mem_of_getElem? h0)).fresh]⟩

theorem obs_eq_of_ok {f : Nat → Nat} {n : Nat} (obs : List (Nat × Option Nat))
    (h : ∀ p ∈ obs, p.2 = (final f n)[p.1]?) :
    obs = (obs.map Prod.fst).map (fun j => (j, (final f n)[j]?)) := by
  induction obs with
  | nil => rfl
  | cons p ps ih =>
    have hp := h p (by simp)
    simp only [List.map_cons, List.cons.injEq]
    exact ⟨by rw [← hp], ih (fun q hq => h q (by simp [hq]))⟩

theorem pending_reads (js : List Nat) : pending (reads js) = js := by
  induction js with
  | nil => rfl
  | cons j js ih => simpa [reads, pending] using ih

end LA.LazyInit
