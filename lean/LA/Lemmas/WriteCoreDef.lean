/-
Definedness through the write core (`LA.WC`): if the caller's data is
initialised, every byte offered to the client write callback by an API call is
initialised, and the pending bytes of the block buffer stay initialised — for
the raw and ustar writers, with or without a b64encode/uuencode filter.
-/
import LA.Lemmas.WriteCore
import LA.Lemmas.Ustar
namespace LA.WC
open LA.CW LA.Ustar

def CellsDef (l : List Cell) : Prop := ∀ c ∈ l, c.isSome = true
def OffersDef (evs : List Event) : Prop := ∀ e ∈ evs, CellsDef e.offer
/-- The block buffer, if allocated, is well-formed and its pending bytes are initialised. -/
def COk (o : Option CState) : Prop := ∀ cs, o = some cs → WInv cs ∧ CellsDef (pending cs)

theorem cellsDef_map_some (l : List Nat) : CellsDef (l.map some) := by
  intro c hc; obtain ⟨b, _, rfl⟩ := List.mem_map.mp hc; rfl

theorem cellsDef_zeros (n : Nat) : CellsDef (List.replicate n (some 0)) := by
  intro c hc; rw [List.eq_of_mem_replicate hc]; rfl

theorem cellsDef_append {a b : List Cell} (ha : CellsDef a) (hb : CellsDef b) : CellsDef (a ++ b) := by
  intro c hc
  rcases List.mem_append.mp hc with h | h
  · exact ha c h
  · exact hb c h

theorem cellsDef_take {a : List Cell} (n : Nat) (ha : CellsDef a) : CellsDef (a.take n) :=
  fun c hc => ha c (List.mem_of_mem_take hc)

theorem offersDef_nil : OffersDef [] := by intro e he; cases he

theorem offersDef_append {a b : List Event} (ha : OffersDef a) (hb : OffersDef b) : OffersDef (a ++ b) := by
  intro e he
  rcases List.mem_append.mp he with h | h
  · exact ha e h
  · exact hb e h

theorem cOk_none : COk none := by intro cs h; cases h

theorem readAll_def : ∀ {d : List Cell} {p : List Nat}, readAll d = some p → d = p.map some := by
  intro d
  induction d with
  | nil => intro p h; simp only [readAll, Option.some.injEq] at h; subst h; rfl
  | cons c r ih =>
    intro p h
    cases c with
    | none => simp [readAll] at h
    | some b =>
      simp only [readAll, Option.map_eq_some_iff] at h
      obtain ⟨q, hq, rfl⟩ := h
      rw [ih hq]; rfl

section
variable {σ : Type} (W : Writer σ)

theorem clientWrite_def (w : σ) (s : CState) (d : List Cell) (hw : WInv s) (hp : CellsDef (pending s))
    (hd : CellsDef d) :
    OffersDef (clientWrite W w s d).2.2.1 ∧ WInv (clientWrite W w s d).2.1 ∧
    CellsDef (pending (clientWrite W w s d).2.1) := by
  have h := clientWrite_spec W w s d hw
  have hall : CellsDef (pending s ++ d) := cellsDef_append hp hd
  exact ⟨fun e he c hc => hall c (h.offers e he c hc), h.winv, fun c hc => hall c (h.pend c hc)⟩

theorem clientClose_offers (w : σ) (s : CState) (bpb : Nat) (bil : Int) (hw : WInv s) :
    ∀ e ∈ (clientClose W w s bpb bil).2.1, ∀ c ∈ e.offer, c ∈ lastBlock s bpb bil := by
  unfold clientClose
  by_cases hf : s.fill = 0
  · simp [hf]
  · simp only [hf, ne_eq, not_false_eq_true, if_true]
    have hbl : s.bufSize - (s.bufSize - s.fill) = s.fill := by simp only [WInv] at hw; omega
    rw [hbl]
    by_cases hlt : s.fill < lastBlockTarget bpb bil s.fill
    · simp only [hlt, if_true]
      have h2 : lastBlockLen bpb bil s.fill = s.fill + (lastBlockTarget bpb bil s.fill - s.fill) := by
        unfold lastBlockLen; rw [if_pos hlt]; omega
      have h3 : padLen bpb bil s.fill = lastBlockTarget bpb bil s.fill - s.fill := by
        unfold padLen; rw [if_neg hf, h2]; omega
      cases hp : poke s.buf s.fill (List.replicate (lastBlockTarget bpb bil s.fill - s.fill) (some 0)) with
      | none => simp
      | some b =>
        simp only []
        have h1 := poke_take hp
        simp only [List.length_replicate] at h1
        apply ite_prop (fun r : St × List Event × σ => ∀ e ∈ r.2.1, ∀ c ∈ e.offer, c ∈ lastBlock s bpb bil)
        · intro _
          have := flushLoop_offers W w (b.take (lastBlockLen bpb bil s.fill))
          rw [h2, h1] at this
          intro e he c hc
          have := this e (by rw [h2, h1] at he; exact he) c hc
          rw [lastBlock, h3]; exact this
        · intro _; simp
    · simp only [hlt, if_false]
      have h2 : lastBlockLen bpb bil s.fill = s.fill := by unfold lastBlockLen; rw [if_neg hlt]
      have h3 : padLen bpb bil s.fill = 0 := by unfold padLen; rw [if_neg hf, h2]; omega
      apply ite_prop (fun r : St × List Event × σ => ∀ e ∈ r.2.1, ∀ c ∈ e.offer, c ∈ lastBlock s bpb bil)
      · intro _ e he c hc
        have := flushLoop_offers W w (s.buf.take (lastBlockLen bpb bil s.fill)) e he c hc
        rw [h2] at this
        rw [lastBlock, h3]; simpa [pending] using this
      · intro _; simp

theorem clientClose_def (w : σ) (s : CState) (bpb : Nat) (bil : Int) (hw : WInv s) (hp : CellsDef (pending s)) :
    OffersDef (clientClose W w s bpb bil).2.1 := by
  intro e he c hc
  have := clientClose_offers W w s bpb bil hw e he c hc
  exact cellsDef_append hp (cellsDef_zeros _) c this

/-- The per-call statement: offers initialised, buffer still fine. -/
def Dfn (r : Int × Handle × List Event × σ) : Prop := OffersDef r.2.2.1 ∧ COk r.2.1.cs

theorem dfn_nil (st : Int) (h : Handle) (w : σ) (hc : COk h.cs) : Dfn (st, h, [], w) := ⟨offersDef_nil, hc⟩

theorem clientFilterWrite_def (w : σ) (h : Handle) (d : List Cell) (hc : COk h.cs) (hd : CellsDef d) :
    Dfn (clientFilterWrite W w h d) := by
  unfold clientFilterWrite
  apply ite_prop Dfn
  · intro _; exact dfn_nil _ _ _ hc
  · intro _
    apply ite_prop Dfn
    · intro _; exact dfn_nil _ _ _ hc
    · intro _
      cases hcs : h.cs with
      | none => exact dfn_nil _ _ _ (by rw [hcs]; exact cOk_none)
      | some cs =>
        have h1 := hc cs hcs
        have h2 := clientWrite_def W w cs d h1.1 h1.2 hd
        refine ⟨h2.1, ?_⟩
        intro cs' hcs'
        simp only [Option.some.injEq] at hcs'
        subst hcs'
        exact ⟨h2.2.1, h2.2.2⟩

theorem encOutLoop_def (w : σ) (h : Handle) (bs : Nat) (enc : List Nat) (hc : COk h.cs) :
    OffersDef (encOutLoop W w h bs enc).2.2.2.1 ∧ COk (encOutLoop W w h bs enc).2.1.cs := by
  fun_induction encOutLoop W w h bs enc with
  | case1 w h enc hcond r hne => exact clientFilterWrite_def W w h _ hc (cellsDef_map_some _)
  | case2 w h enc hcond r hne t ih =>
    have h1 : Dfn r := clientFilterWrite_def W w h _ hc (cellsDef_map_some _)
    have h2 := ih h1.2
    exact ⟨offersDef_append h1.1 h2.1, h2.2⟩
  | case3 w h enc hcond => exact ⟨offersDef_nil, hc⟩

theorem encWrite_def (w : σ) (h : Handle) (e : EncState) (p : List Nat) (hc : COk h.cs) :
    Dfn (encWrite W w h e p) := by
  unfold encWrite
  simp only []
  apply ite_prop Dfn
  · intro _; exact dfn_nil _ _ _ hc
  · intro _; exact encOutLoop_def W w h _ _ hc

theorem output_def (w : σ) (h : Handle) (d : List Cell) (hc : COk h.cs) (hd : CellsDef d) :
    Dfn (output W w h d) := by
  unfold output
  cases h.enc with
  | none => exact clientFilterWrite_def W w h d hc hd
  | some e =>
    simp only []
    apply ite_prop Dfn
    · intro _; exact dfn_nil _ _ _ hc
    · intro _
      apply ite_prop Dfn
      · intro _; exact dfn_nil _ _ _ hc
      · intro _
        cases readAll d with
        | none => exact dfn_nil _ _ _ hc
        | some p => exact encWrite_def W w h e p hc

theorem writeNulls_def (w : σ) (h : Handle) (n : Nat) (hc : COk h.cs) : Dfn (writeNulls W w h n) := by
  fun_induction writeNulls W w h n with
  | case1 w h => exact dfn_nil _ _ _ hc
  | case2 w h n hl toWrite r hlt => exact output_def W w h _ hc (cellsDef_zeros _)
  | case3 w h n hl toWrite r hlt hz => exact output_def W w h _ hc (cellsDef_zeros _)
  | case4 w h n hl toWrite r hlt hz t ih =>
    have h1 : Dfn r := output_def W w h _ hc (cellsDef_zeros _)
    have h2 := ih h1.2
    exact ⟨offersDef_append h1.1 h2.1, h2.2⟩

theorem formatHeaderOp_def (w : σ) (h : Handle) (e : Entry) (hc : COk h.cs) : Dfn (formatHeaderOp W w h e) := by
  unfold formatHeaderOp
  cases h.fmt with
  | none => exact dfn_nil _ _ _ hc
  | raw =>
    simp only []
    apply ite_prop Dfn
    · intro _; exact dfn_nil _ _ _ hc
    · intro _
      apply ite_prop Dfn
      · intro _; exact dfn_nil _ _ _ hc
      · intro _; exact dfn_nil _ _ _ hc
  | ustar =>
    simp only []
    cases hfh : formatHeader (prepareEntry e) with
    | none => exact dfn_nil _ _ _ hc
    | some rh =>
      obtain ⟨ret, hdr⟩ := rh
      have hdef : CellsDef hdr := (formatHeader_defined _ _ _ hfh).2
      simp only []
      apply ite_prop Dfn
      · intro _; exact dfn_nil _ _ _ hc
      · intro _
        have ho := output_def W w h hdr hc hdef
        apply ite_prop Dfn
        · intro _; exact ho
        · intro _; exact ⟨ho.1, ho.2⟩

theorem formatDataOp_def (w : σ) (h : Handle) (d : List Cell) (hc : COk h.cs) (hd : CellsDef d) :
    Dfn (formatDataOp W w h d) := by
  unfold formatDataOp
  cases h.fmt with
  | none => exact dfn_nil _ _ _ hc
  | raw => exact output_def W w h d hc hd
  | ustar =>
    have ho := output_def W w h (d.take (if d.length > h.remaining then h.remaining else d.length)) hc
      (cellsDef_take _ hd)
    exact ⟨ho.1, ho.2⟩

theorem formatFinishEntry_def (w : σ) (h : Handle) (hc : COk h.cs) : Dfn (formatFinishEntry W w h) := by
  unfold formatFinishEntry
  cases h.fmt with
  | ustar =>
    have ho := writeNulls_def W w h (h.remaining + h.padding) hc
    exact ⟨ho.1, ho.2⟩
  | none => exact dfn_nil _ _ _ hc
  | raw => exact dfn_nil _ _ _ hc

theorem formatClose_def (w : σ) (h : Handle) (hc : COk h.cs) : Dfn (formatClose W w h) := by
  unfold formatClose
  cases h.fmt with
  | ustar => exact writeNulls_def W w h _ hc
  | none => exact dfn_nil _ _ _ hc
  | raw => exact dfn_nil _ _ _ hc

theorem setBil_cs (h : Handle) (v : Int) : (setBil h v).2.cs = h.cs := by
  unfold setBil; split <;> rfl

theorem encCloseStep_def (w : σ) (h : Handle) (hc : COk h.cs) : Dfn (encCloseStep W w h) := by
  unfold encCloseStep
  cases h.enc with
  | none => exact dfn_nil _ _ _ hc
  | some e =>
    simp only []
    apply ite_prop Dfn
    · intro _
      have ho := clientFilterWrite_def W w (setBil h 1).2
        (((if e.hold.length ≠ 0 then e.enc ++ e.kind.line e.hold else e.enc) ++ e.kind.trailer).map some)
        (by rw [setBil_cs]; exact hc) (cellsDef_map_some _)
      exact ⟨ho.1, ho.2⟩
    · intro _; exact dfn_nil _ _ _ hc

theorem clientCloseStep_def (w : σ) (h : Handle) (ret : Int) (hc : COk h.cs) : Dfn (clientCloseStep W w h ret) := by
  unfold clientCloseStep
  apply ite_prop Dfn
  · intro _
    cases hcs : h.cs with
    | none => exact dfn_nil _ _ _ (by rw [hcs]; exact cOk_none)
    | some cs =>
      have h1 := hc cs hcs
      exact ⟨clientClose_def W w cs h.bpb h.bil h1.1 h1.2, cOk_none⟩
  · intro _; exact dfn_nil _ _ _ hc

theorem filtersClose_def (w : σ) (h : Handle) (hc : COk h.cs) : Dfn (filtersClose W w h) := by
  unfold filtersClose
  have h1 := encCloseStep_def W w h hc
  have h2 := clientCloseStep_def W (encCloseStep W w h).2.2.2 (encCloseStep W w h).2.1
    (imin (encCloseStep W w h).1 ok) h1.2
  exact ⟨offersDef_append h1.1 h2.1, h2.2⟩

theorem apiFinishEntry_def (w : σ) (h : Handle) (hc : COk h.cs) : Dfn (apiFinishEntry W w h) := by
  unfold apiFinishEntry
  apply ite_prop Dfn
  · intro _; exact dfn_nil _ _ _ hc
  · intro _
    apply ite_prop Dfn
    · intro _
      have ho := formatFinishEntry_def W w h hc
      exact ⟨ho.1, ho.2⟩
    · intro _; exact dfn_nil _ _ _ hc

theorem apiData_def (w : σ) (h : Handle) (d : List Cell) (hc : COk h.cs) (hd : CellsDef d) :
    Dfn (apiData W w h d) := by
  unfold apiData
  apply ite_prop Dfn
  · intro _; exact dfn_nil _ _ _ hc
  · intro _; exact formatDataOp_def W w h d hc hd

theorem apiHeader_def (w : σ) (h : Handle) (e : Entry) (hc : COk h.cs) : Dfn (apiHeader W w h e) := by
  unfold apiHeader
  apply ite_prop Dfn
  · intro _; exact dfn_nil _ _ _ hc
  · intro _
    apply ite_prop Dfn
    · intro _; exact dfn_nil _ _ _ hc
    · intro _
      simp only []
      have hf := apiFinishEntry_def W w h hc
      generalize apiFinishEntry W w h = r at *
      apply ite_prop Dfn
      · intro _; exact ⟨hf.1, hf.2⟩
      · intro _
        apply ite_prop Dfn
        · intro _; exact hf
        · intro _
          have hh := formatHeaderOp_def W r.2.2.2 r.2.1 e hf.2
          generalize formatHeaderOp W r.2.2.2 r.2.1 e = r2 at *
          have hev : OffersDef (r.2.2.1 ++ r2.2.2.1) := offersDef_append hf.1 hh.1
          apply ite_prop Dfn
          · intro _; exact ⟨hev, hh.2⟩
          · intro _
            apply ite_prop Dfn
            · intro _; exact ⟨hev, hh.2⟩
            · intro _; exact ⟨hev, hh.2⟩

theorem apiClose_def (w : σ) (h : Handle) (hc : COk h.cs) : Dfn (apiClose W w h) := by
  unfold apiClose
  apply ite_prop Dfn
  · intro _; exact dfn_nil _ _ _ hc
  · intro _
    simp only []
    have hr : Dfn (if h.state = .data ∧ hasFinishEntry h = true then formatFinishEntry W w h else (ok, h, [], w)) := by
      apply ite_prop Dfn
      · intro _; exact formatFinishEntry_def W w h hc
      · intro _; exact dfn_nil _ _ _ hc
    generalize (if h.state = .data ∧ hasFinishEntry h = true then formatFinishEntry W w h else (ok, h, [], w)) = r at *
    have hr1 := formatClose_def W r.2.2.2 r.2.1 hr.2
    generalize formatClose W r.2.2.2 r.2.1 = r1 at *
    have hr2 := filtersClose_def W r1.2.2.2 r1.2.1 hr1.2
    generalize filtersClose W r1.2.2.2 r1.2.1 = r2 at *
    refine ⟨offersDef_append (offersDef_append hr.1 hr1.1) hr2.1, ?_⟩
    show COk (if r2.2.1.state ≠ .fatal then { r2.2.1 with state := .closed } else r2.2.1).cs
    split
    · exact hr2.2
    · exact hr2.2

theorem apiFree_def (w : σ) (h : Handle) (hc : COk h.cs) : Dfn (apiFree W w h) := by
  unfold apiFree
  apply ite_prop Dfn
  · intro _; exact apiClose_def W w h hc
  · intro _
    have h1 := filtersClose_def W w h hc
    exact ⟨h1.1, h1.2⟩

theorem cOk_clientOpen (n : Nat) : COk (some (clientOpen n)) := by
  intro cs h
  simp only [Option.some.injEq] at h; subst h
  exact ⟨(clientOpen_inv n).1, by intro c hc; simp at hc⟩

theorem clientOpenStep_cs (h : Handle) (hc : COk h.cs) : COk (clientOpenStep h).2.cs := by
  unfold clientOpenStep
  apply ite_prop (fun r : Int × Handle => COk r.2.cs)
  · intro _; exact hc
  · intro _
    simp only []
    apply ite_prop (fun r : Int × Handle => COk r.2.cs)
    · intro _; exact cOk_clientOpen _
    · intro _; exact cOk_none

theorem filtersOpen_cs (h : Handle) (hc : COk h.cs) : COk (filtersOpen h).2.cs := by
  unfold filtersOpen
  have h1 := clientOpenStep_cs h hc
  simp only []
  apply ite_prop (fun r : Int × Handle => COk r.2.cs)
  · intro _; exact h1
  · intro _
    cases (clientOpenStep h).2.enc with
    | none => exact h1
    | some e =>
      simp only []
      apply ite_prop (fun r : Int × Handle => COk r.2.cs)
      · intro _; exact h1
      · intro _; exact h1

/-- `archive_write_open2` establishes / keeps the invariant (a fresh buffer has nothing pending). -/
theorem apiOpen_def (w : σ) (h : Handle) (hc : COk h.cs) : Dfn (apiOpen W w h) := by
  unfold apiOpen
  apply ite_prop Dfn
  · intro _; exact dfn_nil _ _ _ hc
  · intro _
    simp only []
    have hfo := filtersOpen_cs { h with hasClient := true, cfState := .new } hc
    apply ite_prop Dfn
    · intro _
      have := filtersClose_def W w _ hfo
      exact ⟨this.1, cOk_none⟩
    · intro _; exact dfn_nil _ _ _ hfo

end
end LA.WC
