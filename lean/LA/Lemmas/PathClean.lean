/-
Helper lemmas for C04, part 1: the in-place loop of `cleanup_pathname_fsobj`
(`LA.PathClean.scan`) computes the component-level reference `cleanSpec`.
-/
import LA.Model.PathClean
namespace LA.PathClean

/-- A path component as it sits in a C string: no NUL, no '/'. -/
def Clean (c : List Nat) : Prop := ∀ x ∈ c, x ≠ 0 ∧ x ≠ SLASH

/-- What the loop writes for the surviving components: each one preceded by '/'
except possibly the first. -/
def emit : Bool → List (List Nat) → List Nat
  | _, [] => []
  | sep, c :: cs => (if sep then [SLASH] else []) ++ c ++ emit true cs

theorem set_mid {α} (pre : List α) (m : α) (ms X : List α) (v : α) :
    (pre ++ m :: ms ++ X).set pre.length v = pre ++ v :: ms ++ X := by
  induction pre with
  | nil => simp
  | cons a pre ih => simpa using ih

theorem get_mid (pre mid X : List Nat) (k : Nat) :
    (pre ++ mid ++ X)[pre.length + mid.length + k]? = X[k]? := by
  rw [List.getElem?_append_right (by simp)]
  simp

theorem get_mid0 (pre mid X : List Nat) :
    (pre ++ mid ++ X)[pre.length + mid.length]? = X[0]? := by
  simpa using get_mid pre mid X 0

theorem copyElem_spec : ∀ (c : List Nat), Clean c → ∀ (pre mid : List Nat) (t : Nat) (tl : List Nat),
    (t = 0 ∨ t = SLASH) →
    ∃ mid', mid'.length = mid.length ∧
      copyElem (pre ++ mid ++ (c ++ t :: tl)) (pre.length + mid.length) pre.length
        = some (pre ++ c ++ mid' ++ t :: tl, pre.length + mid.length + c.length, pre.length + c.length) := by
  intro c
  induction c with
  | nil =>
    intro _ pre mid t tl ht
    refine ⟨mid, rfl, ?_⟩
    unfold copyElem
    split
    · rename_i h; rw [get_mid0] at h; simp at h
    · rename_i c h; rw [get_mid0] at h; simp at h; subst h
      simp [ht]
  | cons x c ih =>
    intro hc pre mid t tl ht
    have hx := hc x (by simp)
    have hc' : Clean c := fun y hy => hc y (by simp [hy])
    unfold copyElem
    split
    · rename_i h; rw [get_mid0] at h; simp at h
    · rename_i c0 h; rw [get_mid0] at h; simp at h; subst h
      rw [if_neg (by simp [hx.1, hx.2])]
      rw [if_pos (by simp; omega)]
      cases mid with
      | nil =>
        obtain ⟨mid', hl, he⟩ := ih hc' (pre ++ [x]) [] t tl ht
        refine ⟨mid', by simpa using hl, ?_⟩
        have e1 : (pre ++ [] ++ (x :: c ++ t :: tl)).set pre.length x = pre ++ [x] ++ [] ++ (c ++ t :: tl) := by
          have := set_mid pre x [] (c ++ t :: tl) x
          simpa using this
        rw [e1]
        have e2 : pre.length + ([] : List Nat).length + 1 = (pre ++ [x]).length + ([] : List Nat).length := by simp
        have e3 : pre.length + 1 = (pre ++ [x]).length := by simp
        rw [e2, e3, he]
        simp; omega
      | cons m ms =>
        obtain ⟨mid', hl, he⟩ := ih hc' (pre ++ [x]) (ms ++ [x]) t tl ht
        refine ⟨mid', by simpa using hl, ?_⟩
        have e1 : (pre ++ m :: ms ++ (x :: c ++ t :: tl)).set pre.length x
            = pre ++ [x] ++ (ms ++ [x]) ++ (c ++ t :: tl) := by
          have := set_mid pre m ms (x :: c ++ t :: tl) x
          simpa using this
        rw [e1]
        have e2 : pre.length + (m :: ms).length + 1 = (pre ++ [x]).length + (ms ++ [x]).length := by
          simp; omega
        have e3 : pre.length + 1 = (pre ++ [x]).length := by simp
        rw [e2, e3, he]
        simp; omega


/-! ### one-step unfoldings of `scan` -/

theorem scan_nul {nd buf src dest sep} (h : buf[src]? = some 0) :
    scan nd buf src dest sep = .done buf dest sep := by
  rw [scan]; split
  · rename_i h'; rw [h] at h'; simp at h'
  · rename_i c h'; rw [h] at h'; simp at h'; subst h'; simp

theorem scan_slash {nd buf src dest sep} (h : buf[src]? = some SLASH) :
    scan nd buf src dest sep = scan nd buf (src + 1) dest sep := by
  rw [scan]; split
  · rename_i h'; rw [h] at h'; simp at h'
  · rename_i c h'; rw [h] at h'; simp at h'; subst h'; simp

theorem scan_stop {nd buf src dest sep c0} (h : buf[src]? = some c0) (h0 : c0 ≠ 0) (h1 : c0 ≠ SLASH)
    (hl : look nd buf src c0 = .stop) : scan nd buf src dest sep = .done buf dest sep := by
  rw [scan]; split
  · rename_i h'; rw [h] at h'; simp at h'
  · rename_i c h'; rw [h] at h'; simp at h'; subst h'; simp [h0, h1, hl]

theorem scan_fail {nd buf src dest sep c0} (h : buf[src]? = some c0) (h0 : c0 ≠ 0) (h1 : c0 ≠ SLASH)
    (hl : look nd buf src c0 = .fail) : scan nd buf src dest sep = .failed := by
  rw [scan]; split
  · rename_i h'; rw [h] at h'; simp at h'
  · rename_i c h'; rw [h] at h'; simp at h'; subst h'; simp [h0, h1, hl]

theorem scan_skip2 {nd buf src dest sep c0} (h : buf[src]? = some c0) (h0 : c0 ≠ 0) (h1 : c0 ≠ SLASH)
    (hl : look nd buf src c0 = .skip2) : scan nd buf src dest sep = scan nd buf (src + 2) dest sep := by
  rw [scan]; split
  · rename_i h'; rw [h] at h'; simp at h'
  · rename_i c h'; rw [h] at h'; simp at h'; subst h'; simp [h0, h1, hl]

theorem scan_copy {nd buf src dest sep c0 buf2 src2 dest2 c}
    (h : buf[src]? = some c0) (h0 : c0 ≠ 0) (h1 : c0 ≠ SLASH)
    (hl : look nd buf src c0 = .copy) (hd : dest < buf.length)
    (hc : copyElem (if sep = true then buf.set dest SLASH else buf) src (if sep = true then dest + 1 else dest)
            = some (buf2, src2, dest2))
    (h2 : buf2[src2]? = some c) :
    scan nd buf src dest sep =
      if c = 0 then .done buf2 dest2 sep else scan nd buf2 (src2 + 1) dest2 true := by
  rw [scan]; split
  · rename_i h'; rw [h] at h'; simp at h'
  · rename_i c' h'; rw [h] at h'; simp at h'; subst h'
    simp only [h0, h1, hl, hd, if_false, if_true]
    split
    · rename_i hh; rw [hc] at hh; simp at hh
    · rename_i b s d hh; rw [hc] at hh; simp at hh; obtain ⟨rfl, rfl, rfl⟩ := hh
      simp [h2]


/-! ### the `.` look-ahead on a buffer of known shape -/

theorem get_mid1 (pre mid : List Nat) (x : Nat) (X : List Nat) :
    (pre ++ mid ++ (x :: X))[pre.length + mid.length + 1]? = X[0]? := by
  rw [get_mid]; simp

theorem get_mid2 (pre mid : List Nat) (x y : Nat) (X : List Nat) :
    (pre ++ mid ++ (x :: y :: X))[pre.length + mid.length + 2]? = X[0]? := by
  rw [get_mid]; simp

theorem look_copy {nd : Bool} (pre mid : List Nat) (x : Nat) (c : List Nat) (t : Nat) (tl : List Nat)
    (hc : Clean (x :: c)) (ht : t = 0 ∨ t = SLASH)
    (hnd : x :: c ≠ [DOT]) (hdd : ¬ (nd = true ∧ x :: c = [DOT, DOT])) :
    look nd (pre ++ mid ++ ((x :: c) ++ t :: tl)) (pre.length + mid.length) x = .copy := by
  unfold look
  by_cases hx : x = DOT
  · subst hx
    simp only [if_true, List.cons_append]
    rw [get_mid1]
    cases c with
    | nil => simp at hnd
    | cons y c2 =>
      have hy := hc y (by simp)
      simp only [List.cons_append, List.getElem?_cons_zero]
      rw [if_neg hy.1, if_neg hy.2]
      by_cases hyd : y = DOT
      · subst hyd
        simp only [if_true]
        rw [get_mid2]
        cases c2 with
        | nil =>
          simp only [List.nil_append, List.getElem?_cons_zero]
          have : nd = false := by
            cases nd
            · rfl
            · exact absurd ⟨rfl, rfl⟩ hdd
          subst this; simp
        | cons z c3 =>
          have hz := hc z (by simp)
          simp only [List.cons_append, List.getElem?_cons_zero]
          rw [if_neg (by simp [hz.1, hz.2])]
      · rw [if_neg hyd]
  · rw [if_neg hx]

theorem look_stop {nd : Bool} (pre mid tl : List Nat) :
    look nd (pre ++ mid ++ ([DOT] ++ 0 :: tl)) (pre.length + mid.length) DOT = .stop := by
  unfold look
  simp only [if_true, List.cons_append, List.nil_append]
  rw [get_mid1]; simp

theorem look_skip2 {nd : Bool} (pre mid tl : List Nat) :
    look nd (pre ++ mid ++ ([DOT] ++ SLASH :: tl)) (pre.length + mid.length) DOT = .skip2 := by
  unfold look
  simp only [if_true, List.cons_append, List.nil_append]
  rw [get_mid1]; simp

theorem look_fail (pre mid tl : List Nat) (t : Nat) (ht : t = 0 ∨ t = SLASH) :
    look true (pre ++ mid ++ ([DOT, DOT] ++ t :: tl)) (pre.length + mid.length) DOT = .fail := by
  unfold look
  simp only [if_true, List.cons_append, List.nil_append]
  rw [get_mid1]
  simp only [List.getElem?_cons_zero]
  rw [if_neg (by decide), if_neg (by decide)]
  simp only [if_true]
  rw [get_mid2]
  simp only [List.getElem?_cons_zero]
  rcases ht with rfl | rfl <;> simp

/-! ### the loop invariant -/

/-- `joinSlash (c :: L) ++ [0]` seen as "component, terminator, rest". -/
def tailOf (L : List (List Nat)) : List Nat :=
  match L with
  | [] => [0]
  | _ :: _ => SLASH :: (joinSlash L ++ [0])

theorem join_view (c : List Nat) (L : List (List Nat)) :
    joinSlash (c :: L) ++ [0] = c ++ tailOf L := by
  cases L <;> simp [joinSlash, tailOf]

theorem keep_cons (c : List Nat) (L : List (List Nat)) :
    keep (c :: L) = if c = [] ∨ c = [DOT] then keep L else c :: keep L := by
  unfold keep
  rw [List.filter_cons]
  by_cases h1 : c = []
  · simp [h1]
  · by_cases h2 : c = [DOT]
    · simp [h2]
    · have e1 : (c == []) = false := by simpa using h1
      have e2 : (c == [DOT]) = false := by simpa using h2
      simp [h1, h2, e1, e2]

/-- Post-condition of `scan` started at a component boundary with the unread
input `joinSlash L` and `pre` already written. -/
def ScanPost (nd : Bool) (L : List (List Nat)) (pre mid : List Nat) (sep : Bool) (r : Scan) : Prop :=
  if nd = true ∧ L.any isDotDot = true then r = .failed
  else ∃ buf' sep', r = .done buf' (pre.length + (emit sep (keep L)).length) sep' ∧
      buf'.take (pre.length + (emit sep (keep L)).length) = pre ++ emit sep (keep L) ∧
      buf'.length = pre.length + mid.length + (joinSlash L).length + 1 ∧
      (keep L = [] → sep' = sep)

theorem any_dd_cons (c : List Nat) (L : List (List Nat)) :
    (c :: L).any isDotDot = (isDotDot c || L.any isDotDot) := List.any_cons

theorem joinSlash_cons_len (c : List Nat) (L : List (List Nat)) (h : L ≠ []) :
    (joinSlash (c :: L)).length = c.length + 1 + (joinSlash L).length := by
  cases L with
  | nil => exact absurd rfl h
  | cons d L => simp [joinSlash]; omega

/-- A skipped component (empty or ".") in front does not change the post-condition. -/
theorem ScanPost_skip {nd : Bool} {c : List Nat} {L : List (List Nat)} {pre mid mid' : List Nat} {sep : Bool}
    {r : Scan} (hc : c = [] ∨ c = [DOT]) (hL : L ≠ []) (hm : mid'.length = mid.length + c.length + 1)
    (h : ScanPost nd L pre mid' sep r) : ScanPost nd (c :: L) pre mid sep r := by
  have hdd : isDotDot c = false := by rcases hc with rfl | rfl <;> decide
  have hk : keep (c :: L) = keep L := by rw [keep_cons, if_pos hc]
  unfold ScanPost at h ⊢
  rw [any_dd_cons, hdd, Bool.false_or, hk, joinSlash_cons_len c L hL]
  split
  · rename_i hh; rw [if_pos hh] at h; exact h
  · rename_i hh; rw [if_neg hh] at h
    obtain ⟨b, s', h1, h2, h3, h4⟩ := h
    exact ⟨b, s', h1, h2, by rw [h3, hm]; omega, h4⟩

/-- A copied component in front. -/
theorem ScanPost_copy {nd : Bool} {c : List Nat} {L : List (List Nat)} {pre mid mid' : List Nat} {sep : Bool}
    {r : Scan} (hc1 : c ≠ []) (hc2 : c ≠ [DOT]) (hdd : ¬ (nd = true ∧ c = [DOT, DOT])) (hL : L ≠ [])
    (hm : (if sep = true then 1 else 0) + mid'.length = mid.length + 1)
    (h : ScanPost nd L (pre ++ (if sep = true then [SLASH] else []) ++ c) mid' true r) :
    ScanPost nd (c :: L) pre mid sep r := by
  have hk : keep (c :: L) = c :: keep L := by
    rw [keep_cons, if_neg (by simp [hc1, hc2])]
  unfold ScanPost at h ⊢
  rw [any_dd_cons, hk, joinSlash_cons_len c L hL]
  have hcond : (nd = true ∧ (isDotDot c || L.any isDotDot) = true) ↔ (nd = true ∧ L.any isDotDot = true) := by
    constructor
    · rintro ⟨h1, h2⟩
      refine ⟨h1, ?_⟩
      cases hcd : isDotDot c
      · simpa [hcd] using h2
      · exact absurd ⟨h1, by simpa [isDotDot] using hcd⟩ hdd
    · rintro ⟨h1, h2⟩; exact ⟨h1, by simp [h2]⟩
  by_cases hh : nd = true ∧ L.any isDotDot = true
  · rw [if_pos (hcond.mpr hh)]; rw [if_pos hh] at h; exact h
  · rw [if_neg (fun x => hh (hcond.mp x))]; rw [if_neg hh] at h
    obtain ⟨b, s', h1, h2, h3, _⟩ := h
    have el : (pre ++ (if sep = true then [SLASH] else []) ++ c).length + (emit true (keep L)).length
        = pre.length + (emit sep (c :: keep L)).length := by
      simp [emit]; omega
    have ee : pre ++ (if sep = true then [SLASH] else []) ++ c ++ emit true (keep L)
        = pre ++ emit sep (c :: keep L) := by simp [emit]
    refine ⟨b, s', by rw [← el]; exact h1, by rw [← el, ← ee]; exact h2, ?_, by simp⟩
    rw [h3]; simp only [List.length_append]; split at hm <;> simp_all <;> omega


theorem ScanPost_fail {c : List Nat} {L : List (List Nat)} {pre mid : List Nat} {sep : Bool}
    (hc : c = [DOT, DOT]) : ScanPost true (c :: L) pre mid sep .failed := by
  unfold ScanPost
  rw [if_pos ⟨rfl, by rw [any_dd_cons]; subst hc; simp [isDotDot]⟩]

theorem ScanPost_last_skip {nd : Bool} {c : List Nat} {pre mid buf : List Nat} {sep : Bool}
    (hc : c = [] ∨ c = [DOT]) (h1 : buf.take pre.length = pre)
    (h2 : buf.length = pre.length + mid.length + c.length + 1) :
    ScanPost nd [c] pre mid sep (.done buf pre.length sep) := by
  have hdd : isDotDot c = false := by rcases hc with rfl | rfl <;> decide
  have hk : keep [c] = [] := by rw [keep_cons, if_pos hc]; rfl
  unfold ScanPost
  rw [any_dd_cons, hdd, hk]
  rw [if_neg (by simp)]
  exact ⟨buf, sep, by simp [emit], by simpa [emit] using h1, by simpa [joinSlash] using h2, fun _ => rfl⟩

theorem ScanPost_last_copy {nd : Bool} {c : List Nat} {pre mid buf : List Nat} {sep s' : Bool}
    (hc1 : c ≠ []) (hc2 : c ≠ [DOT]) (hdd : ¬ (nd = true ∧ c = [DOT, DOT]))
    (h1 : buf.take ((pre ++ (if sep = true then [SLASH] else []) ++ c).length)
            = pre ++ (if sep = true then [SLASH] else []) ++ c)
    (h2 : buf.length = pre.length + mid.length + c.length + 1) :
    ScanPost nd [c] pre mid sep (.done buf ((pre ++ (if sep = true then [SLASH] else []) ++ c).length) s') := by
  have hk : keep [c] = [c] := by rw [keep_cons, if_neg (by simp [hc1, hc2])]; rfl
  unfold ScanPost
  rw [any_dd_cons, hk]
  have : ¬ (nd = true ∧ (isDotDot c || List.any [] isDotDot) = true) := by
    rintro ⟨ha, hb⟩
    apply hdd
    refine ⟨ha, ?_⟩
    simpa [isDotDot] using hb
  rw [if_neg this]
  have el : (pre ++ (if sep = true then [SLASH] else []) ++ c).length = pre.length + (emit sep [c]).length := by
    simp [emit]
  have ee : pre ++ (if sep = true then [SLASH] else []) ++ c = pre ++ emit sep [c] := by simp [emit]
  exact ⟨buf, s', by rw [el], by rw [← el, ← ee]; exact h1, by simpa [joinSlash] using h2, by simp⟩


theorem tailOf_ne (L : List (List Nat)) : ∃ t tl, tailOf L = t :: tl ∧ (t = 0 ∨ t = SLASH) := by
  cases L with
  | nil => exact ⟨0, [], rfl, Or.inl rfl⟩
  | cons a b => exact ⟨SLASH, _, rfl, Or.inr rfl⟩

theorem take_pre (pre X : List Nat) : (pre ++ X).take pre.length = pre := by simp

theorem scan_spec (nd : Bool) : ∀ (L : List (List Nat)), L ≠ [] → (∀ c ∈ L, Clean c) →
    ∀ (pre mid : List Nat) (sep : Bool), (sep = true → mid ≠ []) →
    ScanPost nd L pre mid sep
      (scan nd (pre ++ mid ++ (joinSlash L ++ [0])) (pre.length + mid.length) pre.length sep) := by
  intro L
  induction L with
  | nil => intro h; exact absurd rfl h
  | cons c L ih =>
    intro _ hcl pre mid sep hsep
    have hc : Clean c := hcl c (by simp)
    have hclL : ∀ d ∈ L, Clean d := fun d hd => hcl d (by simp [hd])
    rw [join_view]
    by_cases he : c = []
    · -- empty component: "Found '//', ignore second one." or the end of the string
      subst he
      cases L with
      | nil =>
        simp only [tailOf, List.nil_append]
        rw [scan_nul (by rw [get_mid0]; simp)]
        exact ScanPost_last_skip (Or.inl rfl) (by simp) (by simp; omega)
      | cons d L' =>
        simp only [tailOf, List.nil_append]
        rw [scan_slash (by rw [get_mid0]; simp)]
        have := ih (by simp) hclL pre (mid ++ [SLASH]) sep (by simp)
        have e1 : pre ++ (mid ++ [SLASH]) ++ (joinSlash (d :: L') ++ [0])
            = pre ++ mid ++ SLASH :: (joinSlash (d :: L') ++ [0]) := by simp
        have e2 : pre.length + (mid ++ [SLASH]).length = pre.length + mid.length + 1 := by simp; omega
        rw [e1, e2] at this
        exact ScanPost_skip (Or.inl rfl) (by simp) (by simp) this
    · obtain ⟨x, c', rfl⟩ : ∃ x c', c = x :: c' := by
        cases c with
        | nil => exact absurd rfl he
        | cons x c' => exact ⟨x, c', rfl⟩
      have hx := hc x (by simp)
      have hrd : (pre ++ mid ++ (x :: c' ++ tailOf L))[pre.length + mid.length]? = some x := by
        rw [get_mid0]; simp
      by_cases hd : x :: c' = [DOT]
      · -- "." : trailing → break, otherwise skip "./"
        simp only [List.cons.injEq] at hd
        obtain ⟨rfl, rfl⟩ := hd
        cases L with
        | nil =>
          simp only [tailOf] at hrd ⊢
          rw [scan_stop hrd hx.1 hx.2 (look_stop pre mid [])]
          exact ScanPost_last_skip (Or.inr rfl) (by simp) (by simp; omega)
        | cons d L' =>
          simp only [tailOf] at hrd ⊢
          rw [scan_skip2 hrd hx.1 hx.2 (look_skip2 pre mid _)]
          have := ih (by simp) hclL pre (mid ++ [DOT, SLASH]) sep (by simp)
          have e1 : pre ++ (mid ++ [DOT, SLASH]) ++ (joinSlash (d :: L') ++ [0])
              = pre ++ mid ++ ([DOT] ++ SLASH :: (joinSlash (d :: L') ++ [0])) := by simp
          have e2 : pre.length + (mid ++ [DOT, SLASH]).length = pre.length + mid.length + 2 := by simp; omega
          rw [e1, e2] at this
          exact ScanPost_skip (Or.inr rfl) (by simp) (by simp) this
      · by_cases hdd : nd = true ∧ x :: c' = [DOT, DOT]
        · -- ".." under SECURE_NODOTDOT
          obtain ⟨rfl, hdd⟩ := hdd
          simp only [List.cons.injEq] at hdd
          obtain ⟨rfl, rfl, rfl⟩ := hdd
          obtain ⟨t, tl, ht, ht2⟩ := tailOf_ne L
          rw [ht] at hrd ⊢
          rw [scan_fail hrd hx.1 hx.2 (look_fail pre mid tl t ht2)]
          exact ScanPost_fail rfl
        · -- the element is copied
          obtain ⟨t, tl, ht, ht2⟩ := tailOf_ne L
          have hlook := look_copy (nd := nd) pre mid x c' t tl hc ht2 hd hdd
          rw [ht] at hrd ⊢
          have key : ∀ (pre1 mid1 : List Nat),
              (if sep = true then (pre ++ mid ++ (x :: c' ++ t :: tl)).set pre.length SLASH
                else pre ++ mid ++ (x :: c' ++ t :: tl)) = pre1 ++ mid1 ++ (x :: c' ++ t :: tl) →
              pre1 = pre ++ (if sep = true then [SLASH] else []) →
              (if sep = true then 1 else 0) + mid1.length = mid.length →
              ScanPost nd ((x :: c') :: L) pre mid sep
                (scan nd (pre ++ mid ++ (x :: c' ++ t :: tl)) (pre.length + mid.length) pre.length sep) := by
            intro pre1 mid1 hb hp hm
            obtain ⟨mid2, hl2, hce⟩ := copyElem_spec (x :: c') hc pre1 mid1 t tl ht2
            have hsrc : pre.length + mid.length = pre1.length + mid1.length := by
              rw [hp]; simp only [List.length_append]; split at hm <;> simp_all <;> omega
            have hdst : (if sep = true then pre.length + 1 else pre.length) = pre1.length := by
              rw [hp]; split <;> simp
            have hce' : copyElem (if sep = true then (pre ++ mid ++ (x :: c' ++ t :: tl)).set pre.length SLASH
                  else pre ++ mid ++ (x :: c' ++ t :: tl)) (pre.length + mid.length)
                  (if sep = true then pre.length + 1 else pre.length)
                = some (pre1 ++ (x :: c') ++ mid2 ++ t :: tl, pre1.length + mid1.length + (x :: c').length,
                    pre1.length + (x :: c').length) := by
              rw [hb, hsrc, hdst]; exact hce
            have h2 : (pre1 ++ (x :: c') ++ mid2 ++ t :: tl)[pre1.length + mid1.length + (x :: c').length]? = some t := by
              have := get_mid0 (pre1 ++ (x :: c')) mid2 (t :: tl)
              have e : (pre1 ++ (x :: c')).length + mid2.length = pre1.length + mid1.length + (x :: c').length := by
                simp only [List.length_append]; omega
              rw [e] at this
              simpa using this
            rw [scan_copy hrd hx.1 hx.2 hlook (by simp; omega) hce' h2]
            cases L with
            | nil =>
              simp only [tailOf, List.cons.injEq] at ht
              obtain ⟨rfl, rfl⟩ := ht
              rw [if_pos rfl]
              have e : pre1.length + (x :: c').length
                  = (pre ++ (if sep = true then [SLASH] else []) ++ (x :: c')).length := by
                rw [hp]; simp only [List.length_append]
              rw [e]
              apply ScanPost_last_copy he hd hdd
              · rw [← hp]
                have : pre1 ++ x :: c' ++ mid2 ++ [0] = (pre1 ++ x :: c') ++ (mid2 ++ [0]) := by simp
                rw [this, take_pre]
              · simp only [List.length_append, List.length_cons, List.length_nil]
                rw [hp]; simp only [List.length_append]; split at hm <;> simp_all <;> omega
            | cons d L' =>
              simp only [tailOf, List.cons.injEq] at ht
              obtain ⟨rfl, rfl⟩ := ht
              rw [if_neg (by decide)]
              have := ih (by simp) hclL (pre1 ++ (x :: c')) (mid2 ++ [SLASH]) true (by simp)
              have e1 : pre1 ++ (x :: c') ++ (mid2 ++ [SLASH]) ++ (joinSlash (d :: L') ++ [0])
                  = pre1 ++ (x :: c') ++ mid2 ++ SLASH :: (joinSlash (d :: L') ++ [0]) := by simp
              have e2 : (pre1 ++ (x :: c')).length + (mid2 ++ [SLASH]).length
                  = pre1.length + mid1.length + (x :: c').length + 1 := by
                simp only [List.length_append, List.length_cons, List.length_nil]; omega
              have e3 : (pre1 ++ (x :: c')).length = pre1.length + (x :: c').length := by simp
              rw [e1, e2, e3, hp] at this
              rw [hp]
              refine ScanPost_copy he hd hdd (by simp) ?_ this
              simp only [List.length_append, List.length_cons, List.length_nil]; omega
          cases sep with
          | false =>
            exact key pre mid (by simp) (by simp) (by simp)
          | true =>
            obtain ⟨m, ms, rfl⟩ : ∃ m ms, mid = m :: ms := by
              cases mid with
              | nil => exact absurd rfl (hsep rfl)
              | cons m ms => exact ⟨m, ms, rfl⟩
            refine key (pre ++ [SLASH]) ms ?_ (by simp) (by simp; omega)
            simp only [if_true]
            have := set_mid pre m ms (x :: c' ++ t :: tl) SLASH
            simpa using this

/-! ### `splitSlash` / `joinSlash` -/

theorem splitSlash_ne_nil (p : List Nat) : splitSlash p ≠ [] := by
  induction p with
  | nil => simp [splitSlash]
  | cons c r ih =>
    unfold splitSlash
    split
    · simp
    · split <;> simp

theorem splitSlash_cons_slash (r : List Nat) : splitSlash (SLASH :: r) = [] :: splitSlash r := by
  simp [splitSlash]

theorem splitSlash_cons_other (c : List Nat) (x : Nat) (hx : x ≠ SLASH) :
    ∃ h t, splitSlash c = h :: t ∧ splitSlash (x :: c) = (x :: h) :: t := by
  cases hs : splitSlash c with
  | nil => exact absurd hs (splitSlash_ne_nil c)
  | cons h t => exact ⟨h, t, rfl, by simp [splitSlash, hx, hs]⟩

theorem joinSlash_cons_cons (x : Nat) (h : List Nat) (t : List (List Nat)) :
    joinSlash ((x :: h) :: t) = x :: joinSlash (h :: t) := by
  cases t <;> simp [joinSlash]

theorem join_split (p : List Nat) : joinSlash (splitSlash p) = p := by
  induction p with
  | nil => simp [splitSlash, joinSlash]
  | cons c r ih =>
    by_cases hc : c = SLASH
    · subst hc
      rw [splitSlash_cons_slash]
      cases hs : splitSlash r with
      | nil => exact absurd hs (splitSlash_ne_nil r)
      | cons h t => rw [hs] at ih; simp [joinSlash, ih]
    · obtain ⟨h, t, h1, h2⟩ := splitSlash_cons_other r c hc
      rw [h2, joinSlash_cons_cons, ← h1, ih]

theorem split_clean (p : List Nat) (hnul : ∀ x ∈ p, x ≠ 0) : ∀ c ∈ splitSlash p, Clean c := by
  induction p with
  | nil => intro c hc; simp [splitSlash] at hc; subst hc; intro x hx; simp at hx
  | cons a r ih =>
    have ih' := ih (fun x hx => hnul x (by simp [hx]))
    by_cases ha : a = SLASH
    · subst ha
      rw [splitSlash_cons_slash]
      intro c hc
      simp at hc
      rcases hc with rfl | hc
      · intro x hx; simp at hx
      · exact ih' c hc
    · obtain ⟨h, t, h1, h2⟩ := splitSlash_cons_other r a ha
      rw [h2]
      intro c hc
      simp at hc
      rcases hc with rfl | hc
      · intro x hx
        simp at hx
        rcases hx with rfl | hx
        · exact ⟨hnul _ (by simp), ha⟩
        · exact ih' h (by simp [h1]) x hx
      · exact ih' c (by simp [h1, hc])

/-! ### `emit` -/

theorem join_eq_emit (K : List (List Nat)) : ∀ c : List Nat, joinSlash (c :: K) = c ++ emit true K := by
  induction K with
  | nil => intro c; simp [joinSlash, emit]
  | cons d K ih => intro c; simp only [joinSlash] at ih ⊢; rw [ih d]; simp [emit]

theorem emit_true (K : List (List Nat)) :
    emit true K = match K with | [] => [] | _ :: _ => SLASH :: joinSlash K := by
  cases K with
  | nil => rfl
  | cons c K => simp only []; rw [join_eq_emit]; simp [emit]

theorem emit_false (K : List (List Nat)) : emit false K = joinSlash K := by
  cases K with
  | nil => rfl
  | cons c K => rw [join_eq_emit]; simp [emit]

theorem joinSlash_len_tail (c : List Nat) (L : List (List Nat)) :
    (joinSlash L).length ≤ (joinSlash (c :: L)).length := by
  cases L with
  | nil => simp [joinSlash]
  | cons d L => simp [joinSlash]; omega

theorem emit_keep_len (L : List (List Nat)) : ∀ sep : Bool,
    (emit sep (keep L)).length ≤ (if sep = true then 1 else 0) + (joinSlash L).length := by
  induction L with
  | nil => intro sep; simp [keep, emit]
  | cons c L ih =>
    intro sep
    rw [keep_cons]
    split
    · have := ih sep
      have := joinSlash_len_tail c L
      omega
    · simp only [emit, List.length_append]
      have h1 := ih true
      cases L with
      | nil => simp [keep, emit, joinSlash]; split <;> simp
      | cons d L' =>
        simp only [joinSlash, List.length_append, List.length_cons] at h1 ⊢
        simp only [if_true] at h1
        split <;> simp <;> omega

theorem keep_mem {L : List (List Nat)} {c : List Nat} (h : c ∈ keep L) : c ∈ L ∧ c ≠ [] ∧ c ≠ [DOT] := by
  simp only [keep, List.mem_filter] at h
  obtain ⟨h1, h2⟩ := h
  simp at h2
  exact ⟨h1, h2.1, h2.2⟩

theorem joinSlash_ne_nil {K : List (List Nat)} (hK : K ≠ []) (hne : ∀ c ∈ K, c ≠ []) : joinSlash K ≠ [] := by
  cases K with
  | nil => exact absurd rfl hK
  | cons c K =>
    have := hne c (by simp)
    cases K with
    | nil => simpa [joinSlash]
    | cons d K' => simp [joinSlash]


theorem keep_join_ne_nil (L : List (List Nat)) (h : keep L ≠ []) : joinSlash (keep L) ≠ [] :=
  joinSlash_ne_nil h (fun _ hc => (keep_mem hc).2.1)

theorem cleanup_eq_spec (f : Flags) (p : List Nat) (hnul : ∀ x ∈ p, x ≠ 0) :
    cleanup f p = cleanSpec f p := by
  cases p with
  | nil => simp [cleanup, cleanSpec]
  | cons c r =>
    have hc0 : c ≠ 0 := hnul c (by simp)
    have hr : ∀ x ∈ r, x ≠ 0 := fun x hx => hnul x (by simp [hx])
    unfold cleanup cleanSpec
    simp only [List.cons_append, List.getElem?_cons_zero, hc0, if_false, List.head?_cons,
      Option.some.injEq, reduceCtorEq]
    by_cases habs : c = SLASH
    · subst habs
      simp only [true_and, if_true, decide_true]
      by_cases hna : f.noabs = true
      · simp [hna]
      · rw [if_neg hna, if_neg hna]
        have hL := splitSlash_ne_nil r
        have hcl := split_clean r hr
        have key := scan_spec f.nodotdot (splitSlash r) hL hcl [] [SLASH] true (by simp)
        rw [join_split] at key
        simp only [List.nil_append, List.length_nil, List.length_cons, Nat.zero_add, List.cons_append] at key
        rw [splitSlash_cons_slash]
        have hany : ([] :: splitSlash r).any isDotDot = (splitSlash r).any isDotDot := by
          rw [any_dd_cons]; simp [isDotDot]
        have hkeep : keep ([] :: splitSlash r) = keep (splitSlash r) := by
          rw [keep_cons, if_pos (Or.inl rfl)]
        rw [hany, hkeep]
        unfold ScanPost at key
        split at key
        · rename_i hh; rw [key, if_pos hh]
        · rename_i hh; rw [if_neg hh]
          obtain ⟨b, s', h1, h2, h3, h4⟩ := key
          rw [h1]
          have hlen := emit_keep_len (splitSlash r) true
          rw [join_split] at hlen h3
          simp only [if_true] at hlen
          rw [emit_true] at h1 h2 hlen ⊢
          cases hk : keep (splitSlash r) with
          | nil =>
            rw [hk] at h4
            simp [h4 rfl, joinSlash, h3]
          | cons d K =>
            rw [hk] at h2 hlen
            simp only [List.nil_append] at h2
            simp only [List.length_cons, Nat.zero_add] at h2 hlen ⊢
            rw [if_neg (by omega), if_pos (by rw [h3]; simp; omega), h2]
    · simp only [habs, false_and, if_false, decide_false]
      have hL := splitSlash_ne_nil (c :: r)
      have hcl := split_clean (c :: r) hnul
      have key := scan_spec f.nodotdot (splitSlash (c :: r)) hL hcl [] [] false (by simp)
      rw [join_split] at key
      simp only [List.nil_append, List.length_nil, Nat.zero_add, List.cons_append] at key
      unfold ScanPost at key
      split at key
      · rename_i hh; rw [key, if_pos hh]
      · rename_i hh; rw [if_neg hh]
        obtain ⟨b, s', h1, h2, h3, h4⟩ := key
        rw [h1]
        have hlen := emit_keep_len (splitSlash (c :: r)) false
        rw [join_split] at hlen h3
        simp only [Bool.false_eq_true, if_false, Nat.zero_add] at hlen
        rw [emit_false] at h1 h2 hlen ⊢
        simp only [List.nil_append, List.length_nil, Nat.zero_add, List.length_cons] at h2 h3 hlen ⊢
        by_cases hk : keep (splitSlash (c :: r)) = []
        · rw [hk] at h4 ⊢
          simp [h4 rfl, joinSlash, h3]
        · have hne := keep_join_ne_nil _ hk
          have hpos : 0 < (joinSlash (keep (splitSlash (c :: r)))).length := List.length_pos_iff.mpr hne
          rw [if_neg (by omega), if_pos (by omega), h2, if_neg hne]

/-! ### `strip_absolute_path` -/

theorem tst_some_of_le {s : List Nat} {i : Nat} (f : Nat → Bool) (h : i ≤ s.length) :
    ∃ b, tst s i f = some b := by
  simp only [tst, rd]
  by_cases h1 : i < s.length
  · simp [h1]
  · have : i = s.length := by omega
    simp [this]

theorem tst_true_lt {s : List Nat} {i : Nat} {f : Nat → Bool} (hf : f 0 = false)
    (h : tst s i f = some true) : i < s.length := by
  simp only [tst, rd] at h
  split at h
  · assumption
  · split at h
    · simp [hf] at h
    · simp at h

theorem andRd_true {a : Option Bool} {b : Unit → Option Bool} (h : andRd a b = some true) :
    a = some true ∧ b () = some true := by
  unfold andRd at h
  split at h <;> simp_all

theorem andRd_some {a : Option Bool} {b : Unit → Option Bool} (ha : ∃ x, a = some x)
    (hb : a = some true → ∃ y, b () = some y) : ∃ z, andRd a b = some z := by
  obtain ⟨x, rfl⟩ := ha
  cases x with
  | false => exact ⟨false, rfl⟩
  | true => obtain ⟨y, hy⟩ := hb rfl; exact ⟨y, by simp [andRd, hy]⟩

theorem isSep0 : isSep 0 = false := by decide

theorem winPrefix_some (s : List Nat) : ∃ k, winPrefix s = some k ∧ k ≤ s.length := by
  unfold winPrefix
  have c1 : ∃ z, (andRd (tst s 0 isSep) fun _ => andRd (tst s 1 isSep) fun _ =>
        andRd (tst s 2 fun c => c == DOT || c == 63) fun _ => tst s 3 isSep) = some z := by
    apply andRd_some (tst_some_of_le _ (by omega))
    intro h0; have := tst_true_lt isSep0 h0
    apply andRd_some (tst_some_of_le _ (by omega))
    intro h1; have := tst_true_lt isSep0 h1
    apply andRd_some (tst_some_of_le _ (by omega))
    intro h2; have := tst_true_lt (by decide) h2
    exact tst_some_of_le _ (by omega)
  obtain ⟨z, hz⟩ := c1
  rw [hz]
  cases z with
  | false => exact ⟨0, rfl, by omega⟩
  | true =>
    simp only
    obtain ⟨_, h⟩ := andRd_true hz
    obtain ⟨_, h⟩ := andRd_true h
    obtain ⟨_, h⟩ := andRd_true h
    have l3 := tst_true_lt isSep0 h
    have c2 : ∃ z, (andRd (tst s 2 (· == 63)) fun _ => andRd (tst s 4 fun c => c == 85 || c == 117) fun _ =>
          andRd (tst s 5 fun c => c == 78 || c == 110) fun _ =>
          andRd (tst s 6 fun c => c == 67 || c == 99) fun _ => tst s 7 isSep) = some z := by
      apply andRd_some (tst_some_of_le _ (by omega))
      intro _
      apply andRd_some (tst_some_of_le _ (by omega))
      intro h4; have := tst_true_lt (by decide) h4
      apply andRd_some (tst_some_of_le _ (by omega))
      intro h5; have := tst_true_lt (by decide) h5
      apply andRd_some (tst_some_of_le _ (by omega))
      intro h6; have := tst_true_lt (by decide) h6
      exact tst_some_of_le _ (by omega)
    obtain ⟨z2, hz2⟩ := c2
    rw [hz2]
    cases z2 with
    | false => exact ⟨4, rfl, by omega⟩
    | true =>
      obtain ⟨_, h⟩ := andRd_true hz2
      obtain ⟨_, h⟩ := andRd_true h
      obtain ⟨_, h⟩ := andRd_true h
      obtain ⟨_, h⟩ := andRd_true h
      have := tst_true_lt isSep0 h
      exact ⟨8, rfl, by omega⟩

theorem stripSlashes_some (s : List Nat) : ∀ (n i : Nat), s.length + 1 - i = n → i ≤ s.length →
    ∃ j, stripSlashes s i = some j ∧ tst s j isSep = some false := by
  intro n
  induction n using Nat.strongRecOn with
  | _ n ih =>
    intro i hn hi
    unfold stripSlashes
    obtain ⟨b, hb⟩ := tst_some_of_le isSep hi
    split
    · rename_i h; rw [hb] at h; simp at h
    · rename_i h; exact ⟨i, rfl, h⟩
    · rename_i h
      have hlt := tst_true_lt isSep0 h
      have c1 : ∃ z, (andRd (tst s (i + 1) (· == DOT)) fun _ => andRd (tst s (i + 2) (· == DOT)) fun _ =>
          tst s (i + 3) isSep) = some z := by
        apply andRd_some (tst_some_of_le _ (by omega))
        intro h1; have := tst_true_lt (by decide) h1
        apply andRd_some (tst_some_of_le _ (by omega))
        intro h2; have := tst_true_lt (by decide) h2
        exact tst_some_of_le _ (by omega)
      obtain ⟨z, hz⟩ := c1
      rw [hz]
      cases z with
      | true =>
        obtain ⟨_, h'⟩ := andRd_true hz
        obtain ⟨_, h'⟩ := andRd_true h'
        have := tst_true_lt isSep0 h'
        exact ih _ (by omega) (i + 3) rfl (by omega)
      | false =>
        simp only
        have c2 : ∃ z, (andRd (tst s (i + 1) (· == DOT)) fun _ => tst s (i + 2) isSep) = some z := by
          apply andRd_some (tst_some_of_le _ (by omega))
          intro h1; have := tst_true_lt (by decide) h1
          exact tst_some_of_le _ (by omega)
        obtain ⟨z2, hz2⟩ := c2
        rw [hz2]
        cases z2 with
        | true =>
          obtain ⟨_, h'⟩ := andRd_true hz2
          have := tst_true_lt isSep0 h'
          exact ih _ (by omega) (i + 2) rfl (by omega)
        | false => exact ih _ (by omega) (i + 1) rfl (by omega)

theorem stripPass_some (s : List Nat) (i : Nat) (hi : i ≤ s.length) : ∃ j, stripPass s i = some j := by
  unfold stripPass
  have c : ∃ z, (andRd (tst s i isAlpha) fun _ => tst s (i + 1) (· == 58)) = some z := by
    apply andRd_some (tst_some_of_le _ hi)
    intro h; have := tst_true_lt (by decide) h
    exact tst_some_of_le _ (by omega)
  obtain ⟨z, hz⟩ := c
  rw [hz]
  cases z with
  | false => obtain ⟨j, hj, _⟩ := stripSlashes_some s _ i rfl hi; exact ⟨j, by simpa using hj⟩
  | true =>
    obtain ⟨_, h'⟩ := andRd_true hz
    have := tst_true_lt (f := (· == 58)) (by decide) h'
    obtain ⟨j, hj, _⟩ := stripSlashes_some s _ (i + 2) rfl (by omega)
    exact ⟨j, by simpa using hj⟩

theorem stripLoop_some (s : List Nat) : ∀ (n i : Nat), s.length + 1 - i = n → i ≤ s.length →
    ∃ k, stripLoop s i = some k ∧ i ≤ k ∧ k ≤ s.length ∧ stripPass s k = some k := by
  intro n
  induction n using Nat.strongRecOn with
  | _ n ih =>
    intro i hn hi
    obtain ⟨j, hj⟩ := stripPass_some s i hi
    have hge := stripPass_ge s i j hj
    have hle := stripPass_le s i j hj
    rw [stripLoop]
    split
    · rename_i h; rw [hj] at h; simp at h
    · rename_i j' h; rw [hj] at h; simp at h; subst h
      by_cases hji : j = i
      · subst hji; simp; exact ⟨hi, hj⟩
      · rw [if_neg hji]
        obtain ⟨k, h1, h2, h3, h4⟩ := ih _ (by omega) j rfl hle
        exact ⟨k, h1, by omega, h3, h4⟩

/-- A fixed point of `stripPass` is neither a separator nor a drive-letter prefix. -/
theorem stripPass_fix {s : List Nat} {k : Nat} (h : stripPass s k = some k) :
    tst s k isSep = some false ∧
    (andRd (tst s k isAlpha) fun _ => tst s (k + 1) (· == 58)) = some false := by
  unfold stripPass at h
  split at h
  · simp at h
  · rename_i d hd
    cases d with
    | true => have := stripSlashes_ge s _ _ rfl k h; simp at this; omega
    | false =>
      simp only [Bool.false_eq_true, if_false] at h
      refine ⟨?_, hd⟩
      unfold stripSlashes at h
      split at h
      · simp at h
      · assumption
      · exfalso
        split at h
        · simp at h
        · have := stripSlashes_ge s _ _ rfl k h; omega
        · split at h
          · simp at h
          · have := stripSlashes_ge s _ _ rfl k h; omega
          · have := stripSlashes_ge s _ _ rfl k h; omega

theorem stripAbsolute_spec (s : List Nat) : ∃ k, stripAbsolute s = some k ∧ k ≤ s.length ∧
    tst s k isSep = some false ∧
    (andRd (tst s k isAlpha) fun _ => tst s (k + 1) (· == 58)) = some false := by
  obtain ⟨w, hw, hwl⟩ := winPrefix_some s
  obtain ⟨k, h1, _, h3, h4⟩ := stripLoop_some s _ w rfl hwl
  exact ⟨k, by simp [stripAbsolute, hw, h1], h3, stripPass_fix h4⟩


/-! ### more `splitSlash` algebra -/

theorem splitSlash_append (a b : List Nat) :
    splitSlash (a ++ SLASH :: b) = splitSlash a ++ splitSlash b := by
  induction a with
  | nil => simp [splitSlash]
  | cons x a ih =>
    by_cases hx : x = SLASH
    · subst hx; simp [splitSlash_cons_slash, ih]
    · obtain ⟨h, t, h1, h2⟩ := splitSlash_cons_other a x hx
      obtain ⟨h', t', h1', h2'⟩ := splitSlash_cons_other (a ++ SLASH :: b) x hx
      rw [List.cons_append, h2', h2]
      rw [ih, h1] at h1'
      simp only [List.cons_append, List.cons.injEq] at h1'
      obtain ⟨rfl, rfl⟩ := h1'
      simp

theorem splitSlash_clean {c : List Nat} (hc : ∀ x ∈ c, x ≠ SLASH) : splitSlash c = [c] := by
  induction c with
  | nil => rfl
  | cons x c ih =>
    obtain ⟨h, t, h1, h2⟩ := splitSlash_cons_other c x (hc x (by simp))
    rw [ih (fun y hy => hc y (by simp [hy]))] at h1
    simp only [List.cons.injEq] at h1
    obtain ⟨rfl, rfl⟩ := h1
    exact h2

theorem split_join (K : List (List Nat)) (hK : K ≠ []) (hc : ∀ c ∈ K, ∀ x ∈ c, x ≠ SLASH) :
    splitSlash (joinSlash K) = K := by
  induction K with
  | nil => exact absurd rfl hK
  | cons c K ih =>
    cases K with
    | nil => simpa [joinSlash] using splitSlash_clean (hc c (by simp))
    | cons d K' =>
      simp only [joinSlash]
      rw [splitSlash_append, splitSlash_clean (hc c (by simp))]
      have := ih (by simp) (fun e he => hc e (by simp [he]))
      rw [this]; rfl

/-- Every spelling of a `..` component: at the start or after a '/', and at the
end or before a '/'. -/
theorem dotdot_spelled (a b : List Nat) (ha : a = [] ∨ ∃ a', a = a' ++ [SLASH])
    (hb : b = [] ∨ ∃ b', b = SLASH :: b') : [DOT, DOT] ∈ splitSlash (a ++ [DOT, DOT] ++ b) := by
  have h2 : [DOT, DOT] ∈ splitSlash ([DOT, DOT] ++ b) := by
    have e : splitSlash [DOT, DOT] = [[DOT, DOT]] := by decide
    rcases hb with rfl | ⟨b', rfl⟩
    · simp [e]
    · rw [splitSlash_append, e]; simp
  rcases ha with rfl | ⟨a', rfl⟩
  · simpa using h2
  · have : a' ++ [SLASH] ++ [DOT, DOT] ++ b = a' ++ SLASH :: ([DOT, DOT] ++ b) := by simp
    rw [this, splitSlash_append]
    exact List.mem_append_right _ h2

theorem any_isDotDot_iff (L : List (List Nat)) : L.any isDotDot = true ↔ [DOT, DOT] ∈ L := by
  simp [List.any_eq_true, isDotDot]


/-- The rewrite is in place: the result is never longer than the input. -/
theorem cleanup_len_le (f : Flags) (p q : List Nat) (hp : ∀ x ∈ p, x ≠ 0) (h : cleanup f p = .ok q) :
    q.length ≤ p.length := by
  rw [cleanup_eq_spec _ _ hp] at h
  unfold cleanSpec at h
  dsimp only at h
  have hlen := emit_keep_len (splitSlash p) false
  rw [emit_false, join_split] at hlen
  simp only [Bool.false_eq_true, if_false, Nat.zero_add] at hlen
  split at h
  · simp at h
  · rename_i hne
    have hpos : 0 < p.length := List.length_pos_iff.mpr hne
    split at h
    · simp at h
    · split at h
      · simp at h
      · split at h
        · rename_i habs
          simp only [Res.ok.injEq] at h; subst h
          cases p with
          | nil => simp at habs
          | cons c r =>
            simp only [List.head?_cons, Option.some.injEq] at habs; subst habs
            rw [splitSlash_cons_slash, keep_cons, if_pos (Or.inl rfl)]
            have := emit_keep_len (splitSlash r) false
            rw [emit_false, join_split] at this
            simp only [Bool.false_eq_true, if_false, Nat.zero_add] at this
            simp only [List.length_cons]; omega
        · split at h
          · simp only [Res.ok.injEq] at h; subst h; simp only [List.length_cons, List.length_nil]; omega
          · simp only [Res.ok.injEq] at h; subst h; exact hlen


end LA.PathClean
