/-
Helper lemmas for C19, part 3: header, finish_entry, close.

`Fin old new s`: nothing that can still happen on this handle changes what the
target name resolves to, and no temporary file is left (unless an unlink of it was
itself made to fail).
-/
import LA.Lemmas.SafeWriteData
namespace LA.SafeWrite

structure Fin (old new : Bytes) (s : S) : Prop where
  log : LogGood old new s.w
  notmp : Leak s.w ∨ s.w.fs.tmp = none
  wtmp : s.wd.tmpname = false
  data : s.wd.state = .data → s.wd.fd = false ∧ Pre old s.w.fs

/-! ### single calls -/

theorem sys_unlink_tmp (F : Nat → Bool) (w : World) :
    Leak (sys F w (.unlink .tmp)).1 ∨ (sys F w (.unlink .tmp)).1.fs.tmp = none := by
  rcases sys_res_cases F w (.unlink .tmp) with ⟨h1, _⟩ | ⟨_, h2, _⟩
  · left
    exact ⟨⟨.unlink .tmp, (sys F w (.unlink .tmp)).2, (sys F w (.unlink .tmp)).1.fs⟩,
      by rw [sys_log]; simp, rfl, h1⟩
  · right
    rw [h2]
    simp only [FS.step, FS.lookup]
    split
    · simp [FS.bind]
    · assumption

/-- The file system after the descriptor on the temporary file has been closed. -/
def closedFS (old c : Bytes) : FS :=
  { target := some 0, tmp := some 1, inodes := [old, c], fd := none, fdOn := .tmp }

theorem sys_close_shape {F : Nat → Bool} {w : World} {old c : Bytes} (h : w.fs = shapeFS old c) :
    (sys F w .close).1.fs = closedFS old c := by
  rcases sys_res_cases F w .close with ⟨_, h2⟩ | ⟨_, h2, _⟩ <;>
    (rw [h2, h]; simp [shapeFS, closedFS, FS.step])

theorem sys_rename_closed {F : Nat → Bool} {w : World} {old c : Bytes} (h : w.fs = closedFS old c) :
    ((sys F w (.rename .tmp .target)).2.isOk = false ∧ (sys F w (.rename .tmp .target)).1.fs = closedFS old c) ∨
    ((sys F w (.rename .tmp .target)).2.isOk = true ∧
      (sys F w (.rename .tmp .target)).1.fs = { closedFS old c with target := some 1, tmp := none }) := by
  rcases sys_res_cases F w (.rename .tmp .target) with ⟨h1, h2⟩ | ⟨_, h2, h3⟩
  · left; exact ⟨by rw [h1]; rfl, by rw [h2, h]; simp⟩
  · right
    rw [h2, h3, h]
    simp [closedFS, FS.step, FS.lookup, FS.bind, Res.ofOpt, Res.isOk]

/-! ### close_file_descriptor -/

theorem closeFd_spec {F : Nat → Bool} {cfg : Cfg} {s : S} (hleg : cfg.legacy.finishLeak = false)
    (ht : s.wd.tmpname = true) :
    (closeFd F cfg s).wd.fd = false ∧ (closeFd F cfg s).wd.tmpname = false ∧
    (closeFd F cfg s).wd.state = s.wd.state ∧
    (Leak (closeFd F cfg s).w ∨ (closeFd F cfg s).w.fs.tmp = none) := by
  unfold closeFd
  simp only [hleg]
  split
  · simp only [ht, Bool.not_false, Bool.and_self, ↓reduceIte]
    and_intros
    all_goals first | rfl | trivial | exact sys_unlink_tmp F _
  · rename_i hfd
    simp only [ht, Bool.not_false, Bool.and_self, ↓reduceIte]
    and_intros
    all_goals first | rfl | trivial | exact sys_unlink_tmp F _ | simpa using hfd

/-- An abandoned entry: the error paths of finish_entry. -/
structure Aborted (s : S) : Prop where
  fd : s.wd.fd = false
  tmp : s.wd.tmpname = false
  st : s.wd.state = .data
  notmp : Leak s.w ∨ s.w.fs.tmp = none

theorem closeFd_aborted {F : Nat → Bool} {cfg : Cfg} {s : S} (hleg : cfg.legacy.finishLeak = false)
    (ht : s.wd.tmpname = true) (hst : s.wd.state = .data) : Aborted (closeFd F cfg s) := by
  obtain ⟨h1, h2, h3, h4⟩ := closeFd_spec (F := F) hleg ht
  exact ⟨h1, h2, by rw [h3]; exact hst, h4⟩

/-! ### padding to the declared size -/

theorem padFallback_spec {F : Nat → Bool} {cfg : Cfg} {s : S} {old c : Bytes} (hs : Shape old c s)
    (hl1 : cfg.legacy.finishLeak = false) (hl2 : cfg.legacy.statTarget = false) :
    ((padFallback F cfg s).2 = none → ∃ c', Shape old c' (padFallback F cfg s).1 ∧
        (padFallback F cfg s).1.wd.incomplete = s.wd.incomplete ∧
        (c.length ≤ cfg.size → c' = padTo cfg.size c)) ∧
    ((padFallback F cfg s).2 ≠ none → Aborted (padFallback F cfg s).1) := by
  unfold padFallback
  simp only []
  have hs0 : Shape old c ⟨{ s.wd with pst := false }, s.w⟩ := ⟨hs.fs, hs.fd, hs.tmp, hs.st⟩
  have hfs := (lazyStat_frame F cfg ⟨{ s.wd with pst := false }, s.w⟩).fs_eq
  have hwd := lazyStat_wd F cfg ⟨{ s.wd with pst := false }, s.w⟩
  have hsz := lazyStat_shape (F := F) hs0 hl2
  generalize lazyStat F cfg ⟨{ s.wd with pst := false }, s.w⟩ = l at hfs hwd hsz ⊢
  have hfsl : l.1.w.fs = shapeFS old c := by rw [hfs]; exact hs.fs
  have hlt : l.1.wd.tmpname = true := by rw [hwd]; exact hs.tmp
  have hlst : l.1.wd.state = .data := by rw [hwd]; exact hs.st
  have hlfd : l.1.wd.fd = true := by rw [hwd]; exact hs.fd
  have hlinc : l.1.wd.incomplete = s.wd.incomplete := by rw [hwd]
  split
  · -- lazy_stat failed
    exact ⟨fun h => by simp at h, fun _ => closeFd_aborted hl1 hlt hlst⟩
  · rename_i sz hsome
    have hszc : sz = c.length := by
      rcases hsz with h | h
      · rw [h] at hsome; simp at hsome
      · rw [h] at hsome; exact (Option.some.inj hsome).symm
    split
    · rename_i hlt2
      have hfs1 : (sys F l.1.w (.lseek (cfg.size - 1))).1.fs = shapeFS old c := by
        rw [sys_noFx rfl]; exact hfsl
      split
      · exact ⟨fun h => by simp at h, fun _ => closeFd_aborted hl1 hlt hlst⟩
      · rcases sys_write_shape (F := F) hfs1 (cfg.size - 1) [0] with ⟨h1, _⟩ | ⟨h1, h2⟩
        · simp only [h1, Res.isOk, Bool.not_false, ↓reduceIte]
          exact ⟨fun h => by simp at h, fun _ => closeFd_aborted hl1 hlt hlst⟩
        · simp only [h1, Res.isOk, Bool.not_true, Bool.false_eq_true, ↓reduceIte]
          refine ⟨fun _ => ⟨_, ⟨h2, hlfd, hlt, hlst⟩, hlinc, fun _ => ?_⟩, fun h => absurd rfl h⟩
          rw [writeAt_append _ (by omega)]
          have : ([0] : Bytes) = zeros 1 := rfl
          rw [this, padTo_append_zeros (by omega)]
          congr 1; omega
    · rename_i hge
      refine ⟨fun _ => ⟨c, ⟨hfsl, hlfd, hlt, hlst⟩, hlinc, fun hle => ?_⟩, fun h => absurd rfl h⟩
      exact (padTo_of_le (by omega)).symm

theorem extendFile_spec {F : Nat → Bool} {cfg : Cfg} {s : S} {old c : Bytes} (hs : Shape old c s)
    (hl1 : cfg.legacy.finishLeak = false) (hl2 : cfg.legacy.statTarget = false) :
    ((extendFile F cfg s).2 = none → ∃ c', Shape old c' (extendFile F cfg s).1 ∧
        (extendFile F cfg s).1.wd.incomplete = s.wd.incomplete ∧
        (c.length = s.wd.fdOffset → c.length ≤ cfg.size → c' = padTo cfg.size c)) ∧
    ((extendFile F cfg s).2 ≠ none → Aborted (extendFile F cfg s).1) := by
  unfold extendFile
  simp only [hs.fd, Bool.not_true, Bool.false_eq_true, ↓reduceIte]
  split
  · rename_i heq
    refine ⟨fun _ => ⟨c, hs, rfl, fun hlen hle => ?_⟩, fun h => absurd rfl h⟩
    exact (padTo_of_le (by rw [hlen, heq]; exact Nat.le_refl _)).symm
  · rcases sys_ftruncate_shape (F := F) hs.fs cfg.size with ⟨h1, h2⟩ | ⟨h1, h2⟩
    · -- ftruncate made to fail
      simp only [h1, Res.isOk, Bool.not_false, true_and]
      split
      · exact ⟨fun h => by simp at h, fun _ => closeFd_aborted hl1 hs.tmp hs.st⟩
      · have hs1 : Shape old c ⟨s.wd, (sys F s.w (.ftruncate cfg.size)).1⟩ := ⟨h2, hs.fd, hs.tmp, hs.st⟩
        obtain ⟨p1, p2⟩ := padFallback_spec (F := F) hs1 hl1 hl2
        exact ⟨fun hn => by
          obtain ⟨c', q1, q2, q3⟩ := p1 hn
          exact ⟨c', q1, q2, fun _ hle => q3 hle⟩, p2⟩
    · simp only [h1, Res.isOk, Bool.not_true, Bool.false_eq_true, false_and, ↓reduceIte]
      have hs1 : Shape old (truncTo cfg.size c) ⟨s.wd, (sys F s.w (.ftruncate cfg.size)).1⟩ :=
        ⟨h2, hs.fd, hs.tmp, hs.st⟩
      obtain ⟨p1, p2⟩ := padFallback_spec (F := F) hs1 hl1 hl2
      refine ⟨fun hn => ?_, p2⟩
      obtain ⟨c', q1, q2, q3⟩ := p1 hn
      refine ⟨c', q1, q2, fun _ hle => ?_⟩
      have ht : truncTo cfg.size c = padTo cfg.size c := truncTo_of_le hle
      rw [q3 (by rw [ht]; simp; omega), ht, padTo_padTo (Nat.le_refl _)]

/-! ### fixups -/

theorem fixups_wd (F : Nat → Bool) (cfg : Cfg) (s : S) :
    ∃ t, (fixups F cfg s).1.wd = { s.wd with todoOwner := t } := by
  unfold fixups
  simp only []
  have ha : ∃ t, (if s.wd.todoOwner = true then setOwnership F s else (s, Status.ok)).1.wd
      = { s.wd with todoOwner := t } := by
    split
    · unfold setOwnership; simp only []
      repeat' split
      all_goals first | exact ⟨false, rfl⟩ | exact ⟨s.wd.todoOwner, rfl⟩
    · exact ⟨s.wd.todoOwner, rfl⟩
  obtain ⟨t, ht⟩ := ha
  generalize (if s.wd.todoOwner = true then setOwnership F s else (s, Status.ok)) = a at ht ⊢
  have hb : (if a.1.wd.todoMode = true then setMode F a.1 else (a.1, Status.ok)).1.wd = a.1.wd := by
    split <;> rfl
  generalize (if a.1.wd.todoMode = true then setMode F a.1 else (a.1, Status.ok)) = b at hb ⊢
  refine ⟨t, ?_⟩
  split
  · show (setTimes F b.1).1.wd = _
    unfold setTimes; simp only []; rw [hb, ht]
  · show b.1.wd = _
    rw [hb, ht]

/-! ### finish_metadata -/

theorem finishMetadata_spec {F : Nat → Bool} {cfg : Cfg} {s : S} {old new c : Bytes} (ret : Status)
    (hs : Shape old c s) (hpl : PL old new s.w) (hleg : cfg.legacy.renameAfterFailedWrite = false)
    (hc : s.wd.incomplete = false → c = new) :
    Fin old new (finishMetadata F cfg ret s).1 := by
  unfold finishMetadata
  simp only [hs.fd, hs.tmp, hleg, ↓reduceIte, Bool.not_false, Bool.and_true]
  have hpl1 : PL old new (sys F s.w .close).1 := sys_PL hpl rfl
  have hfs1 : (sys F s.w .close).1.fs = closedFS old c := sys_close_shape hs.fs
  split
  · -- incomplete: unlink instead of rename
    have hpl2 : PL old new (sys F (sys F s.w .close).1 (.unlink .tmp)).1 := sys_PL hpl1 rfl
    exact ⟨hpl2.2, sys_unlink_tmp F _, rfl, fun h => by simp at h⟩
  · rename_i hinc
    have hcn : c = new := hc (by simpa using hinc)
    rcases sys_rename_closed (F := F) hfs1 with ⟨h1, _⟩ | ⟨h1, h2⟩
    · -- rename failed: unlink
      simp only [h1, Bool.false_eq_true, ↓reduceIte]
      have hben : Op.benign (.rename .tmp .target) = false := rfl
      -- a failed rename leaves everything as it was
      have hpl2 : PL old new (sys F (sys F s.w .close).1 (.rename .tmp .target)).1 := by
        have hfs2 : (sys F (sys F s.w .close).1 (.rename .tmp .target)).1.fs = closedFS old c := by
          rcases sys_rename_closed (F := F) hfs1 with ⟨_, k⟩ | ⟨k, _⟩
          · exact k
          · rw [k] at h1; simp at h1
        have hpre : Pre old (closedFS old c) := ⟨rfl, rfl, by simp [closedFS], by simp [closedFS]⟩
        refine ⟨by rw [hfs2]; exact hpre, ?_⟩
        intro ev hev
        rw [sys_log] at hev
        rcases List.mem_append.mp hev with k | k
        · exact hpl1.2 ev k
        · simp only [List.mem_singleton] at k
          subst k
          show Good old new _
          rw [hfs2]; exact Or.inl hpre.view
      have hpl3 := sys_PL (F := F) (op := .unlink .tmp) hpl2 rfl
      exact ⟨hpl3.2, sys_unlink_tmp F _, rfl, fun h => by simp at h⟩
    · -- renamed: the target now is the complete new file
      simp only [h1, ↓reduceIte]
      refine ⟨?_, Or.inr (by rw [h2]), rfl, fun h => by simp at h⟩
      intro ev hev
      rw [sys_log] at hev
      rcases List.mem_append.mp hev with k | k
      · exact hpl1.2 ev k
      · simp only [List.mem_singleton] at k
        subst k
        show Good old new _
        rw [h2]
        right
        simp [FS.view, FS.lookup, closedFS, hcn]

/-! ### finish_entry -/

theorem aborted_fin {old new : Bytes} {s : S} (ha : Aborted s) (hpl : PL old new s.w) : Fin old new s :=
  ⟨hpl.2, ha.notmp, ha.tmp, fun _ => ⟨ha.fd, hpl.1⟩⟩

/-- finish_entry on an entry whose temporary file is open. -/
theorem finishEntry_data {F : Nat → Bool} {cfg : Cfg} {s : S} {old new c : Bytes}
    (hleg : cfg.legacy = {}) (hs : Shape old c s) (hpl : PL old new s.w)
    (hc : s.wd.incomplete = false → c.length = s.wd.fdOffset ∧ c.length ≤ cfg.size ∧ padTo cfg.size c = new) :
    Fin old new (finishEntry F cfg s).1 := by
  have hl1 : cfg.legacy.finishLeak = false := by rw [hleg]
  have hl2 : cfg.legacy.statTarget = false := by rw [hleg]
  have hl3 : cfg.legacy.renameAfterFailedWrite = false := by rw [hleg]
  unfold finishEntry
  simp only [hs.st]
  obtain ⟨e1, e2⟩ := extendFile_spec (F := F) (cfg := cfg) hs hl1 hl2
  have hple : PL old new (extendFile F cfg s).1.w := (extendFile_frame F cfg s).presPL hpl
  split
  · rename_i st hst
    exact aborted_fin (e2 (by rw [hst]; simp)) hple
  · rename_i hnone
    obtain ⟨c', hs', hinc', hc'⟩ := e1 hnone
    have hfr := fixups_frame F cfg (extendFile F cfg s).1
    obtain ⟨t, hwd⟩ := fixups_wd F cfg (extendFile F cfg s).1
    have hsf : Shape old c' (fixups F cfg (extendFile F cfg s).1).1 :=
      ⟨by rw [hfr.fs_eq]; exact hs'.fs, by rw [hwd]; exact hs'.fd, by rw [hwd]; exact hs'.tmp,
       by rw [hwd]; exact hs'.st⟩
    refine finishMetadata_spec _ hsf ((noFx_frame_benign hfr).presPL hple) hl3 ?_
    intro hi
    have hi0 : s.wd.incomplete = false := by rw [← hinc']; rw [hwd] at hi; exact hi
    obtain ⟨k1, k2, k3⟩ := hc hi0
    rw [hc' k1 k2, k3]

/-- finish_entry (and close, free) once the entry is settled. -/
theorem finishEntry_fin {F : Nat → Bool} {cfg : Cfg} {s : S} {old new : Bytes} (h : Fin old new s) :
    Fin old new (finishEntry F cfg s).1 := by
  unfold finishEntry
  split
  · exact h
  · exact h
  · rename_i hst
    obtain ⟨hfd, hpre⟩ := h.data hst
    have he : extendFile F cfg s = (s, none) := by unfold extendFile; simp [hfd]
    simp only [he]
    have hfr := fixups_frame F cfg s
    obtain ⟨t, hwd⟩ := fixups_wd F cfg s
    have hlog : LogGood old new (fixups F cfg s).1.w :=
      hfr.logGood_noFx (Or.inl hpre.view) h.log
    have hfd' : (fixups F cfg s).1.wd.fd = false := by rw [hwd]; exact hfd
    have htmp' : (fixups F cfg s).1.wd.tmpname = false := by rw [hwd]; exact h.wtmp
    unfold finishMetadata
    simp only [hfd', Bool.false_eq_true, ↓reduceIte]
    refine ⟨hlog, ?_, htmp', fun k => by simp at k⟩
    rcases h.notmp with k | k
    · exact Or.inl (hfr.presLeak k)
    · right; show (fixups F cfg s).1.w.fs.tmp = none; rw [hfr.fs_eq]; exact k

/-! ### header -/

theorem restoreEntry_frame (F : Nat → Bool) (cfg : Cfg) (s : S) (hsafe : cfg.safe = true) :
    Frame Op.benign F s.w (restoreEntry F cfg s).1.w := by
  unfold restoreEntry
  simp only [hsafe, ↓reduceIte]
  split
  · frame_auto
  · frame_auto
  · split
    · frame_auto
    · exact Frame.trans (by frame_auto) (laMktemp_frame F cfg ⟨s.wd, _⟩)

theorem sys_openExcl_init {F : Nat → Bool} {w : World} {old : Bytes} (h : w.fs = initFS old) :
    (sys F w (.openExcl .target)).1.fs = initFS old ∧
    ((sys F w (.openExcl .target)).2 = .inj ∨ (sys F w (.openExcl .target)).2 = .err) := by
  rcases sys_res_cases F w (.openExcl .target) with ⟨h1, h2⟩ | ⟨_, h2, h3⟩
  · exact ⟨by rw [h2, h]; simp, Or.inl h1⟩
  · refine ⟨by rw [h2, h]; simp [initFS, FS.step, FS.lookup], Or.inr ?_⟩
    rw [h3, h]; simp [initFS, FS.step, FS.lookup, Res.ofOpt]

theorem sys_mkstemp_init {F : Nat → Bool} {w : World} {old : Bytes} (h : w.fs = initFS old) :
    ((sys F w .mkstemp).2.isOk = false ∧ (sys F w .mkstemp).1.fs = initFS old) ∨
    ((sys F w .mkstemp).2.isOk = true ∧ (sys F w .mkstemp).1.fs = shapeFS old []) := by
  rcases sys_res_cases F w .mkstemp with ⟨h1, h2⟩ | ⟨_, h2, h3⟩
  · left; exact ⟨by rw [h1]; rfl, by rw [h2, h]; simp⟩
  · right
    rw [h2, h3, h]
    simp [initFS, shapeFS, FS.step, Res.ofOpt, Res.isOk]

theorem laMktemp_spec {F : Nat → Bool} {cfg : Cfg} {s : S} {old : Bytes} (hl : cfg.legacy.mktempLeak = false)
    (h : s.w.fs = initFS old) :
    ((laMktemp F cfg s).2 = true ∧ (laMktemp F cfg s).1.w.fs = shapeFS old [] ∧
        (laMktemp F cfg s).1.wd = { s.wd with tmpname := true, fd := true }) ∨
    ((laMktemp F cfg s).2 = false ∧ (laMktemp F cfg s).1.wd = { s.wd with tmpname := false } ∧
        (Leak (laMktemp F cfg s).1.w ∨ (laMktemp F cfg s).1.w.fs.tmp = none)) := by
  unfold laMktemp
  simp only [hl]
  rcases sys_mkstemp_init (F := F) h with ⟨h1, h2⟩ | ⟨h1, h2⟩
  · right
    simp only [h1, Bool.not_false, ↓reduceIte]
    and_intros
    all_goals first | rfl | trivial | exact Or.inr (by rw [h2]; rfl)
  · simp only [h1, Bool.not_true, Bool.false_eq_true, ↓reduceIte]
    split
    · right
      exact ⟨rfl, rfl, sys_unlink_tmp F _⟩
    · left
      exact ⟨rfl, by rw [sys_noFx rfl]; exact h2, rfl⟩

/-- `_archive_write_disk_header` over an existing regular file with SAFE_WRITES:
either the temporary file is open and empty, or the call failed and nothing is left. -/
theorem header_spec (F : Nat → Bool) (cfg : Cfg) (old new : Bytes) (hsafe : cfg.safe = true)
    (hleg : cfg.legacy = {}) :
    PL old new (header F cfg { fs := initFS old }).1.w ∧
    (((header F cfg { fs := initFS old }).2 = .ok ∧ Shape old [] (header F cfg { fs := initFS old }).1 ∧
        (header F cfg { fs := initFS old }).1.wd.incomplete = false ∧
        (header F cfg { fs := initFS old }).1.wd.offset = 0 ∧
        (header F cfg { fs := initFS old }).1.wd.fdOffset = 0) ∨
     ((header F cfg { fs := initFS old }).2 ≠ .ok ∧ Fin old new (header F cfg { fs := initFS old }).1)) := by
  have hl : cfg.legacy.mktempLeak = false := by rw [hleg]
  have hpre0 : Pre old (initFS old) := ⟨rfl, rfl, by simp [initFS], by simp [initFS]⟩
  have hpl0 : PL old new { fs := initFS old } := ⟨hpre0, fun ev h => by simp at h⟩
  have hplr : PL old new (restoreEntry F cfg ⟨{ todoOwner := cfg.owner }, { fs := initFS old }⟩).1.w :=
    (restoreEntry_frame F cfg _ hsafe).presPL hpl0
  -- what restore_entry returns
  have hr : ((restoreEntry F cfg ⟨{ todoOwner := cfg.owner }, { fs := initFS old }⟩).2 = .ok ∧
        (restoreEntry F cfg ⟨{ todoOwner := cfg.owner }, { fs := initFS old }⟩).1.w.fs = shapeFS old [] ∧
        (restoreEntry F cfg ⟨{ todoOwner := cfg.owner }, { fs := initFS old }⟩).1.wd
          = { todoOwner := cfg.owner, tmpname := true, fd := true }) ∨
      ((restoreEntry F cfg ⟨{ todoOwner := cfg.owner }, { fs := initFS old }⟩).2 = .failed ∧
        (restoreEntry F cfg ⟨{ todoOwner := cfg.owner }, { fs := initFS old }⟩).1.wd
          = { todoOwner := cfg.owner } ∧
        (Leak (restoreEntry F cfg ⟨{ todoOwner := cfg.owner }, { fs := initFS old }⟩).1.w ∨
          (restoreEntry F cfg ⟨{ todoOwner := cfg.owner }, { fs := initFS old }⟩).1.w.fs.tmp = none)) := by
    unfold restoreEntry
    simp only [hsafe, ↓reduceIte]
    obtain ⟨o1, o2⟩ := sys_openExcl_init (F := F) (w := { fs := initFS old }) (old := old) rfl
    rcases o2 with o2 | o2
    · simp only [o2]
      right
      and_intros
      all_goals first | rfl | trivial | exact Or.inr (by rw [o1]; rfl)
    · simp only [o2]
      have o3 : (sys F (sys F { fs := initFS old } (.openExcl .target)).1 (.lstat .target)).1.fs = initFS old := by
        rw [sys_noFx rfl]; exact o1
      split
      · right; exact ⟨rfl, rfl, Or.inr (by rw [o3]; rfl)⟩
      · rcases laMktemp_spec (F := F) (cfg := cfg)
            (s := ⟨{ todoOwner := cfg.owner }, (sys F (sys F { fs := initFS old } (.openExcl .target)).1 (.lstat .target)).1⟩)
            hl o3 with ⟨m1, m2, m3⟩ | ⟨m1, m2, m3⟩
        · left; simp only [m1, ↓reduceIte]
          and_intros
          all_goals first | rfl | trivial | exact m2 | exact m3
        · right; simp only [m1, Bool.false_eq_true, ↓reduceIte]
          and_intros
          all_goals first | rfl | trivial | exact m2 | exact m3
  unfold header
  simp only []
  rcases hr with ⟨r1, r2, r3⟩ | ⟨r1, r2, r3⟩
  · simp only [r1, ↓reduceIte]
    refine ⟨hplr, Or.inl ⟨trivial, ⟨r2, ?_, ?_, rfl⟩, ?_, ?_, ?_⟩⟩ <;> simp [r3]
  · simp only [r1, reduceCtorEq, ↓reduceIte]
    refine ⟨hplr, Or.inr ⟨by simp, hplr.2, r3, by rw [r2], fun h => ?_⟩⟩
    rw [r2] at h; simp at h

end LA.SafeWrite
