/-
Helper lemmas for the seekable client and `__archive_read_filter_seek`
(model: LA/Model/ReadAhead.lean, second half).  Part 1: what the sequential
operations leave alone, the block cutter `chop`, and positioning the client (`place`).
-/
import LA.Lemmas.ReadAheadRefine
set_option linter.unusedSimpArgs false
set_option linter.unusedVariables false
namespace LA.RA

/-! ### Fields that only `seek` touches -/

/-- `s'` agrees with `s` on everything that describes the source itself and on the
`dataset[]` bookkeeping. -/
structure Static (s s' : State) : Prop where
  noSkipper : s'.noSkipper = s.noSkipper
  hasSeeker : s'.hasSeeker = s.hasSeeker
  canSeek : s'.canSeek = s.canSeek
  canSkip : s'.canSkip = s.canSkip
  nodes : s'.nodes = s.nodes
  blk : s'.blk = s.blk
  term : s'.term = s.term
  begins : s'.begins = s.begins
  sizes : s'.sizes = s.sizes

theorem Static.refl (s : State) : Static s s := ⟨rfl, rfl, rfl, rfl, rfl, rfl, rfl, rfl, rfl⟩

theorem Static.trans {a b c : State} (h1 : Static a b) (h2 : Static b c) : Static a c :=
  ⟨h2.noSkipper.trans h1.noSkipper, h2.hasSeeker.trans h1.hasSeeker, h2.canSeek.trans h1.canSeek,
   h2.canSkip.trans h1.canSkip, h2.nodes.trans h1.nodes, h2.blk.trans h1.blk, h2.term.trans h1.term,
   h2.begins.trans h1.begins, h2.sizes.trans h1.sizes⟩

@[simp] theorem moveFwd_noSkipper (s : State) (m : Nat) : (moveFwd s m).noSkipper = s.noSkipper := by
  unfold moveFwd; split <;> rfl
@[simp] theorem enlarge_noSkipper (s : State) (m b : Nat) : (enlarge s m b).noSkipper = s.noSkipper := by
  unfold enlarge; split <;> rfl
@[simp] theorem moveFwd_hasSeeker (s : State) (m : Nat) : (moveFwd s m).hasSeeker = s.hasSeeker := by
  unfold moveFwd; split <;> rfl
@[simp] theorem enlarge_hasSeeker (s : State) (m b : Nat) : (enlarge s m b).hasSeeker = s.hasSeeker := by
  unfold enlarge; split <;> rfl
@[simp] theorem moveFwd_canSeek (s : State) (m : Nat) : (moveFwd s m).canSeek = s.canSeek := by
  unfold moveFwd; split <;> rfl
@[simp] theorem enlarge_canSeek (s : State) (m b : Nat) : (enlarge s m b).canSeek = s.canSeek := by
  unfold enlarge; split <;> rfl
@[simp] theorem moveFwd_nodes (s : State) (m : Nat) : (moveFwd s m).nodes = s.nodes := by
  unfold moveFwd; split <;> rfl
@[simp] theorem enlarge_nodes (s : State) (m b : Nat) : (enlarge s m b).nodes = s.nodes := by
  unfold enlarge; split <;> rfl
@[simp] theorem moveFwd_blk (s : State) (m : Nat) : (moveFwd s m).blk = s.blk := by
  unfold moveFwd; split <;> rfl
@[simp] theorem enlarge_blk (s : State) (m b : Nat) : (enlarge s m b).blk = s.blk := by
  unfold enlarge; split <;> rfl
@[simp] theorem moveFwd_begins (s : State) (m : Nat) : (moveFwd s m).begins = s.begins := by
  unfold moveFwd; split <;> rfl
@[simp] theorem enlarge_begins (s : State) (m b : Nat) : (enlarge s m b).begins = s.begins := by
  unfold enlarge; split <;> rfl
@[simp] theorem moveFwd_sizes (s : State) (m : Nat) : (moveFwd s m).sizes = s.sizes := by
  unfold moveFwd; split <;> rfl
@[simp] theorem enlarge_sizes (s : State) (m b : Nat) : (enlarge s m b).sizes = s.sizes := by
  unfold enlarge; split <;> rfl
@[simp] theorem moveFwd_seeks (s : State) (m : Nat) : (moveFwd s m).seeks = s.seeks := by
  unfold moveFwd; split <;> rfl
@[simp] theorem enlarge_seeks (s : State) (m b : Nat) : (enlarge s m b).seeks = s.seeks := by
  unfold enlarge; split <;> rfl
@[simp] theorem moveFwd_epoch (s : State) (m : Nat) : (moveFwd s m).epoch = s.epoch := by
  unfold moveFwd; split <;> rfl
@[simp] theorem enlarge_epoch (s : State) (m b : Nat) : (enlarge s m b).epoch = s.epoch := by
  unfold enlarge; split <;> rfl
@[simp] theorem moveFwd_over (s : State) (m : Nat) : (moveFwd s m).over = s.over := by
  unfold moveFwd; split <;> rfl
@[simp] theorem enlarge_over (s : State) (m b : Nat) : (enlarge s m b).over = s.over := by
  unfold enlarge; split <;> rfl
@[simp] theorem moveFwd_overNode (s : State) (m : Nat) : (moveFwd s m).overNode = s.overNode := by
  unfold moveFwd; split <;> rfl
@[simp] theorem enlarge_overNode (s : State) (m b : Nat) : (enlarge s m b).overNode = s.overNode := by
  unfold enlarge; split <;> rfl
@[simp] theorem enlarge_term (s : State) (m b : Nat) : (enlarge s m b).term = s.term := by
  unfold enlarge; split <;> rfl

/-- The sequential operations change nothing that describes the source or the `dataset[]`
bookkeeping, and (apart from the seeker branch of the skip, see `seekSkip`) nothing of the
seek callback's state. -/
def StaticF (s s' : State) : Prop :=
  s'.noSkipper = s.noSkipper ∧ s'.hasSeeker = s.hasSeeker ∧ s'.canSeek = s.canSeek ∧ s'.canSkip = s.canSkip ∧
  s'.nodes = s.nodes ∧ s'.blk = s.blk ∧ s'.term = s.term ∧ s'.begins = s.begins ∧ s'.sizes = s.sizes

theorem StaticF.toStatic {s s' : State} (h : StaticF s s') : Static s s' :=
  ⟨h.1, h.2.1, h.2.2.1, h.2.2.2.1, h.2.2.2.2.1, h.2.2.2.2.2.1, h.2.2.2.2.2.2.1, h.2.2.2.2.2.2.2.1, h.2.2.2.2.2.2.2.2⟩

theorem aheadLoop_staticF (s : State) (min : Nat) : StaticF s (aheadLoop s min).2 := by
  unfold StaticF
  fun_induction aheadLoop s min <;> simp_all +zetaDelta

theorem aheadLoop_seeks (s : State) (min : Nat) :
    (aheadLoop s min).2.seeks = s.seeks ∧ (aheadLoop s min).2.epoch = s.epoch := by
  fun_induction aheadLoop s min <;> simp_all +zetaDelta

theorem ahead_static (s : State) (min : Nat) : Static s (ahead s min).2 := by
  unfold ahead; split
  · exact Static.refl _
  · exact (aheadLoop_staticF s min).toStatic

theorem ahead_seeks (s : State) (min : Nat) : (ahead s min).2.seeks = s.seeks := by
  unfold ahead; split
  · rfl
  · exact (aheadLoop_seeks s min).1

theorem place_staticF (s : State) (e c off : Nat) : StaticF s (place s e c off) := by
  simp [StaticF, place]

theorem clientSeek_staticF (s : State) (w : Whence) (off : Int) : StaticF s (clientSeek s w off).2 := by
  unfold clientSeek
  generalize seekTarget s w off = np
  split
  · simp [StaticF]
  · simp only []
    split
    · simp [StaticF]
    · split
      · simp [StaticF]
      · simp [StaticF, place]

theorem clientSeek_seeks (s : State) (w : Whence) (off : Int) :
    (clientSeek s w off).2.seeks = s.seeks ∨ (clientSeek s w off).2.seeks = s.seeks.tail := by
  unfold clientSeek
  generalize seekTarget s w off = np
  split
  · left; rfl
  · simp only []
    split
    · right; rfl
    · split
      · right; rfl
      · right; simp [place]

theorem seekSkip_staticF (s : State) (n : Nat) : StaticF s (seekSkip s n).2 := by
  unfold seekSkip
  split
  · simp only []
    split <;> exact clientSeek_staticF _ _ _
  · simp [StaticF]

theorem skipLoop_staticF (s : State) (request total : Nat) (sk : List Int) :
    StaticF s (skipLoop s request total sk).2 ∧ (skipLoop s request total sk).2.seeks = s.seeks := by
  induction sk generalizing s request total with
  | nil => simp [skipLoop, StaticF]
  | cons g rest ih =>
    simp only [skipLoop]
    split
    · simp [StaticF]
    · split
      · simp [StaticF]
      · split
        · simp [StaticF]
        · have := ih { s with src := dropBytes s.src (Nat.min (Nat.min g.toNat request) (srcLen s.src)) }
            (request - Nat.min (Nat.min g.toNat request) (srcLen s.src))
            (total + Nat.min (Nat.min g.toNat request) (srcLen s.src))
          simpa [StaticF] using this

theorem readSkipLoop_staticF (s : State) (request total : Nat) :
    StaticF s (readSkipLoop s request total).2 ∧ (readSkipLoop s request total).2.seeks = s.seeks := by
  unfold StaticF
  fun_induction readSkipLoop s request total <;> simp_all +zetaDelta

theorem useBuffers_staticF (s : State) (n : Nat) :
    StaticF s (useBuffers s n).1 ∧ (useBuffers s n).1.seeks = s.seeks := by
  simp [useBuffers, StaticF]

theorem StaticF.trans {a b c : State} (h1 : StaticF a b) (h2 : StaticF b c) : StaticF a c := by
  unfold StaticF at *
  obtain ⟨a1, a2, a3, a4, a5, a6, a7, a8, a9⟩ := h1
  obtain ⟨b1, b2, b3, b4, b5, b6, b7, b8, b9⟩ := h2
  exact ⟨b1.trans a1, b2.trans a2, b3.trans a3, b4.trans a4, b5.trans a5, b6.trans a6, b7.trans a7, b8.trans a8, b9.trans a9⟩

theorem StaticF.refl (s : State) : StaticF s s := by simp [StaticF]

/-- All entries of the seek script are "behave". -/
def SeeksOk (l : List Int) : Prop := ∀ a ∈ l, a = 0

theorem SeeksOk.tail {l : List Int} (h : SeeksOk l) : SeeksOk l.tail :=
  fun a ha => h a (List.mem_of_mem_tail ha)

theorem advance_static (s : State) (n : Nat) :
    StaticF s (advance s n).2 ∧ (SeeksOk s.seeks → SeeksOk (advance s n).2.seeks) := by
  unfold advance
  split
  · exact ⟨StaticF.refl _, id⟩
  · obtain ⟨hu, hus⟩ := useBuffers_staticF s n
    generalize useBuffers s n = ub at *
    obtain ⟨s2, total⟩ := ub
    simp only [] at hu hus ⊢
    split
    · exact ⟨hu, fun h => by rw [hus]; exact h⟩
    · have h3 : StaticF s2 (if s2.canSkip then (if s2.noSkipper then seekSkip s2 (n - total) else skipLoop s2 (n - total) 0 s2.skips) else ((0 : Int), s2)).2 ∧
          (SeeksOk s2.seeks → SeeksOk (if s2.canSkip then (if s2.noSkipper then seekSkip s2 (n - total) else skipLoop s2 (n - total) 0 s2.skips) else ((0 : Int), s2)).2.seeks) := by
        split
        · split
          · refine ⟨seekSkip_staticF _ _, fun h => ?_⟩
            unfold seekSkip
            split
            · simp only []
              split <;> (rcases clientSeek_seeks s2 .cur ((n - total : Nat) : Int) with e | e <;> rw [e] <;> first | exact h | exact h.tail)
            · exact h
          · exact ⟨(skipLoop_staticF _ _ _ _).1, fun h => by rw [(skipLoop_staticF _ _ _ _).2]; exact h⟩
        · exact ⟨StaticF.refl _, id⟩
      generalize (if s2.canSkip then (if s2.noSkipper then seekSkip s2 (n - total) else skipLoop s2 (n - total) 0 s2.skips) else ((0 : Int), s2)) = sk at *
      obtain ⟨r, s3⟩ := sk
      simp only [] at h3 ⊢
      have h13 : StaticF s s3 := hu.trans h3.1
      have hs3 : SeeksOk s.seeks → SeeksOk s3.seeks := fun h => h3.2 (by rw [hus]; exact h)
      split
      · exact ⟨by simpa [StaticF] using h13, hs3⟩
      · split
        · exact ⟨by simpa [StaticF] using h13, hs3⟩
        · obtain ⟨q1, q2⟩ := readSkipLoop_staticF { s3 with position := s3.position + r.toNat } (n - total - r.toNat) (total + r.toNat)
          refine ⟨StaticF.trans (by simpa [StaticF] using h13) q1, fun h => ?_⟩
          rw [q2]; exact hs3 h

theorem consume_static (s : State) (n : Int) :
    Static s (consume s n).2 ∧ (SeeksOk s.seeks → SeeksOk (consume s n).2.seeks) := by
  unfold consume
  split
  · exact ⟨Static.refl _, id⟩
  · split
    · exact ⟨Static.refl _, id⟩
    · have := advance_static s n.toNat
      generalize advance s n.toNat = r at *
      obtain ⟨a, b⟩ := r
      simp only [] at this ⊢
      split <;> exact ⟨this.1.toStatic, this.2⟩

theorem noSeekSkip_of_static {s s' : State} (h : Static s s') (hn : NoSeekSkip s) : NoSeekSkip s' := by
  unfold NoSeekSkip at *
  rw [h.noSkipper, h.hasSeeker]; exact hn

end LA.RA
