/-
Helper lemmas for `__archive_read_filter_seek`, part 3: the `dataset[]` bookkeeping
(`begin_position` / `total_size`) and the three node walks.
-/
import LA.Lemmas.ReadAheadSeekClient
set_option linter.unusedSimpArgs false
set_option linter.unusedVariables false
namespace LA.RA

/-- Length of node `i`. -/
def nlen (ns : List (List Nat)) (i : Nat) : Nat := (ns[i]?.getD []).length

theorem prefixLen_succ' (ns : List (List Nat)) (i : Nat) (h : i < ns.length) :
    prefixLen ns (i + 1) = prefixLen ns i + nlen ns i := prefixLen_succ ns i h

theorem nodeAt_len (s : State) (i : Nat) : (nodeAt s i).length = nlen s.nodes i := rfl

/-- The `dataset[]` bookkeeping is sound: one entry per node, the first node begins at 0,
and whatever is recorded (≥ 0) is true. -/
structure CacheOk (s : State) : Prop where
  ne : 0 < s.nodes.length
  lb : s.begins.length = s.nodes.length
  lz : s.sizes.length = s.nodes.length
  b0 : s.begins[0]? = some 0
  bt : ∀ i b, s.begins[i]? = some b → 0 ≤ b → b = (prefixLen s.nodes i : Int)
  zt : ∀ i z, s.sizes[i]? = some z → 0 ≤ z → z = (nlen s.nodes i : Int)

/-- Positions of the nodes up to `c` and sizes of the nodes before `c` are recorded. -/
def Known (s : State) (c : Nat) : Prop :=
  (∀ j, j ≤ c → s.begins[j]? = some (prefixLen s.nodes j : Int)) ∧
  (∀ j, j < c → s.sizes[j]? = some (nlen s.nodes j : Int))

/-- Every node before `c` ends at or before the offset looked for (SEEK_SET walks). -/
def Passed (stopAt : Option Int) (ns : List (List Nat)) (c : Nat) : Prop :=
  ∀ off, stopAt = some off → ∀ j, j < c → (prefixLen ns (j + 1) : Int) ≤ off

theorem known_zero (s : State) (h : CacheOk s) : Known s 0 := by
  constructor
  · intro j hj
    have : j = 0 := by omega
    subst this
    rw [h.b0, prefixLen_zero]; rfl
  · intro j hj; omega

theorem passed_zero (stopAt : Option Int) (ns : List (List Nat)) : Passed stopAt ns 0 := by
  intro off _ j hj; omega

theorem holds_false {stopAt : Option Int} {e : Int} (h : ¬ holds stopAt e = true) :
    ∀ off, stopAt = some off → e ≤ off := by
  intro off ho
  subst ho
  simp [holds] at h
  exact h

/-- Same nodes and same bookkeeping: same facts. -/
theorem cacheOk_congr {s t : State} (hn : t.nodes = s.nodes) (hb : t.begins = s.begins) (hz : t.sizes = s.sizes)
    (h : CacheOk s) : CacheOk t :=
  { ne := by rw [hn]; exact h.ne, lb := by rw [hb, hn]; exact h.lb, lz := by rw [hz, hn]; exact h.lz,
    b0 := by rw [hb]; exact h.b0, bt := by rw [hb, hn]; exact h.bt, zt := by rw [hz, hn]; exact h.zt }

theorem known_congr {s t : State} {c : Nat} (hn : t.nodes = s.nodes) (hb : t.begins = s.begins) (hz : t.sizes = s.sizes)
    (h : Known s c) : Known t c := by
  unfold Known; rw [hn, hb, hz]; exact h

/-- `dataset[c + 1].begin_position = begin_position[c] + total_size[c]`. -/
theorem step_setBegin {s t : State} {c : Nat} (hn : t.nodes = s.nodes) (hz : t.sizes = s.sizes)
    (hb : t.begins = s.begins.set (c + 1) ((prefixLen s.nodes (c + 1) : Nat) : Int))
    (hc : CacheOk s) (hk : Known s c) (hzc : s.sizes[c]? = some (nlen s.nodes c : Int)) (hc1 : c + 1 < s.nodes.length) :
    CacheOk t ∧ Known t (c + 1) := by
  have hlt : c + 1 < s.begins.length := by rw [hc.lb]; exact hc1
  constructor
  · refine { ne := by rw [hn]; exact hc.ne, lb := by rw [hb, hn]; simp [hc.lb], lz := by rw [hz, hn]; exact hc.lz,
             b0 := ?_, bt := ?_, zt := by rw [hz, hn]; exact hc.zt }
    · rw [hb, List.getElem?_set_ne (by omega)]; exact hc.b0
    · intro i b hbi hb0
      rw [hb] at hbi; rw [hn]
      by_cases hi : i = c + 1
      · subst hi
        rw [List.getElem?_set_self hlt] at hbi
        exact (Option.some.inj hbi).symm
      · rw [List.getElem?_set_ne (by omega)] at hbi
        exact hc.bt i b hbi hb0
  · constructor
    · intro j hj
      rw [hb, hn]
      by_cases hjc : j = c + 1
      · subst hjc; rw [List.getElem?_set_self hlt]
      · rw [List.getElem?_set_ne (by omega)]; exact hk.1 j (by omega)
    · intro j hj
      rw [hz, hn]
      by_cases hjc : j = c
      · subst hjc; exact hzc
      · exact hk.2 j (by omega)

/-- `dataset[c].total_size = r` with the true size. -/
theorem step_setSize {s t : State} {c : Nat} (hn : t.nodes = s.nodes) (hb : t.begins = s.begins)
    (hz : t.sizes = s.sizes.set c ((nlen s.nodes c : Nat) : Int))
    (hc : CacheOk s) (hk : Known s c) (hcl : c < s.nodes.length) :
    CacheOk t ∧ Known t c ∧ t.sizes[c]? = some (nlen s.nodes c : Int) := by
  have hlt : c < s.sizes.length := by rw [hc.lz]; exact hcl
  refine ⟨?_, ?_, ?_⟩
  · refine { ne := by rw [hn]; exact hc.ne, lb := by rw [hb, hn]; exact hc.lb, lz := by rw [hz, hn]; simp [hc.lz],
             b0 := by rw [hb]; exact hc.b0, bt := by rw [hb, hn]; exact hc.bt, zt := ?_ }
    intro i z hzi hz0
    rw [hz] at hzi; rw [hn]
    by_cases hi : i = c
    · subst hi
      rw [List.getElem?_set_self hlt] at hzi
      exact (Option.some.inj hzi).symm
    · rw [List.getElem?_set_ne (by omega)] at hzi
      exact hc.zt i z hzi hz0
  · constructor
    · intro j hj; rw [hb, hn]; exact hk.1 j hj
    · intro j hj; rw [hz, hn, List.getElem?_set_ne (by omega)]; exact hk.2 j hj
  · rw [hz, List.getElem?_set_self hlt]

@[simp] theorem setBegin_nodes (s : State) (c : Nat) (b : Int) : (setBegin s c b).nodes = s.nodes := rfl
@[simp] theorem setBegin_sizes (s : State) (c : Nat) (b : Int) : (setBegin s c b).sizes = s.sizes := rfl
@[simp] theorem setBegin_begins (s : State) (c : Nat) (b : Int) : (setBegin s c b).begins = s.begins.set c b := rfl
@[simp] theorem setBegin_seeks (s : State) (c : Nat) (b : Int) : (setBegin s c b).seeks = s.seeks := rfl
@[simp] theorem setBegin_hasSeeker (s : State) (c : Nat) (b : Int) : (setBegin s c b).hasSeeker = s.hasSeeker := rfl
@[simp] theorem setSize_nodes (s : State) (c : Nat) (b : Int) : (setSize s c b).nodes = s.nodes := rfl
@[simp] theorem setSize_sizes (s : State) (c : Nat) (b : Int) : (setSize s c b).sizes = s.sizes.set c b := rfl
@[simp] theorem setSize_begins (s : State) (c : Nat) (b : Int) : (setSize s c b).begins = s.begins := rfl
@[simp] theorem setSize_seeks (s : State) (c : Nat) (b : Int) : (setSize s c b).seeks = s.seeks := rfl
@[simp] theorem setSize_hasSeeker (s : State) (c : Nat) (b : Int) : (setSize s c b).hasSeeker = s.hasSeeker := rfl
theorem setBegin_filt (s : State) (c : Nat) (b : Int) : Filt s (setBegin s c b) := by constructor <;> rfl
theorem setSize_filt (s : State) (c : Nat) (b : Int) : Filt s (setSize s c b) := by constructor <;> rfl

/-- What the node walks leave alone besides `Filt`: where the client stands. -/
def SameClient (s s' : State) : Prop :=
  s'.src = s.src ∧ s'.later = s.later ∧ s'.seeks = s.seeks ∧ s'.epoch = s.epoch ∧ s'.over = s.over ∧
  s'.overNode = s.overNode ∧ s'.sizes = s.sizes

/-- First walk: never fails, only `begins` changes, stops at a node whose position is recorded. -/
theorem walkKnown_spec (stopAt : Option Int) (left c : Nat) (s : State) (hc : CacheOk s) (hk : Known s c)
    (hp : Passed stopAt s.nodes c) (hl : c + left = s.nodes.length - 1) :
    ∃ c' s', walkKnown stopAt left c s = .at_ c' s' ∧ c ≤ c' ∧ c' ≤ s.nodes.length - 1 ∧ CacheOk s' ∧
      Known s' c' ∧ Passed stopAt s.nodes c' ∧ Filt s s' ∧ SameClient s s' := by
  induction left generalizing c s with
  | zero => exact ⟨c, s, rfl, Nat.le_refl _, by omega, hc, hk, hp, Filt.refl _, by simp [SameClient]⟩
  | succ n ih =>
    have hne := hc.ne
    have hcl : c < s.nodes.length := by omega
    have hb : s.begins[c]? = some (prefixLen s.nodes c : Int) := hk.1 c (Nat.le_refl _)
    have hz : ∃ z, s.sizes[c]? = some z := by
      have : c < s.sizes.length := by rw [hc.lz]; exact hcl
      exact ⟨s.sizes[c], List.getElem?_eq_getElem this⟩
    obtain ⟨z, hz⟩ := hz
    unfold walkKnown
    simp only [hb, hz]
    by_cases hstop : ((prefixLen s.nodes c : Nat) : Int) < 0 ∨ z < 0 ∨ holds stopAt ((prefixLen s.nodes c : Int) + z) = true
    · rw [if_pos hstop]
      exact ⟨c, s, rfl, Nat.le_refl _, by omega, hc, hk, hp, Filt.refl _, by simp [SameClient]⟩
    · rw [if_neg hstop]
      have hz0 : 0 ≤ z := by
        by_cases h : z < 0
        · exact absurd (Or.inr (Or.inl h)) hstop
        · omega
      have hzt : z = (nlen s.nodes c : Int) := hc.zt c z hz hz0
      have hnh : ¬ holds stopAt ((prefixLen s.nodes c : Int) + z) = true := fun h => hstop (Or.inr (Or.inr h))
      have hlt : c + 1 < s.begins.length := by rw [hc.lb]; omega
      rw [if_pos hlt]
      have hsum : (prefixLen s.nodes c : Int) + z = ((prefixLen s.nodes (c + 1) : Nat) : Int) := by
        rw [prefixLen_succ' s.nodes c hcl, hzt]; push_cast; rfl
      rw [hsum]
      have hc1 : c + 1 < s.nodes.length := by omega
      obtain ⟨hc', hk'⟩ := step_setBegin (s := s) (t := setBegin s (c + 1) ((prefixLen s.nodes (c + 1) : Nat) : Int))
        rfl rfl rfl hc hk (by rw [hz, hzt]) hc1
      have hp' : Passed stopAt s.nodes (c + 1) := by
        intro off ho j hj
        by_cases hjc : j = c
        · subst hjc
          have := holds_false hnh off ho
          rw [hsum] at this; exact this
        · exact hp off ho j (by omega)
      obtain ⟨c', s', e1, e2, e3, e4, e5, e6, e7, e8⟩ := ih (c + 1)
        (setBegin s (c + 1) ((prefixLen s.nodes (c + 1) : Nat) : Int)) hc' hk' hp' (by simp; omega)
      exact ⟨c', s', e1, by omega, e3, e4, e5, e6, (setBegin_filt _ _ _).trans e7, e8⟩

theorem seeksOk_head {l : List Int} (h : SeeksOk l) : (l.head?).getD 0 = 0 := by
  cases l with
  | nil => rfl
  | cons a t => simp; exact h a (by simp)

/-- Probing node `c`: `client_switch_proxy(c)` then `client_seek_proxy(0, SEEK_END)`.  It
fails only if the script says so; otherwise it reports the size of the node. -/
theorem probe_spec (s : State) (c : Nat) (hcl : c < s.nodes.length) (hs : s.hasSeeker = true) :
    Filt s (clientSeek (switchTo s c) .end_ 0).2 ∧ (clientSeek (switchTo s c) .end_ 0).2.begins = s.begins ∧
    (clientSeek (switchTo s c) .end_ 0).2.sizes = s.sizes ∧
    (clientSeek (switchTo s c) .end_ 0).2.seeks = s.seeks.tail ∧
    (((clientSeek (switchTo s c) .end_ 0).1 < 0 ∧ ¬ SeeksOk s.seeks) ∨
     ((clientSeek (switchTo s c) .end_ 0).1 = (nlen s.nodes c : Int) ∧ cursor (clientSeek (switchTo s c) .end_ 0).2 = c)) := by
  have hf1 := switchTo_filt s c
  obtain ⟨hb1, hz1, hq1⟩ := switchTo_cache s c
  have hcur := switchTo_cursor s c hcl
  have hs1 : (switchTo s c).hasSeeker = true := by rw [hf1.hasSeeker]; exact hs
  have hf2 := clientSeek_filt (switchTo s c) .end_ 0
  obtain ⟨hb2, hz2⟩ := clientSeek_cache (switchTo s c) .end_ 0
  have htgt : seekTarget (switchTo s c) .end_ 0 = (nlen s.nodes c : Int) := by
    simp only [seekTarget, hcur, Int.add_zero, nodeAt_len, hf1.nodes]
  refine ⟨hf1.trans hf2, hb2.trans hb1, hz2.trans hz1, ?_, ?_⟩
  · rcases clientSeek_spec (switchTo s c) .end_ 0 hs1 with ⟨a1, a2, a3⟩ | ⟨a1, a2, a3, a4, a5⟩
    · rw [a2]; simp [hq1]
    · rw [a4]; simp [hq1]
  · rcases clientSeek_spec (switchTo s c) .end_ 0 hs1 with ⟨a1, a2, a3⟩ | ⟨a1, a2, a3, a4, a5⟩
    · left
      refine ⟨a1, ?_⟩
      intro hok
      have := a3 (by rw [hq1]; exact hok)
      rw [htgt] at this; omega
    · right
      have hv := a5 (Or.inr (by simp))
      refine ⟨by rw [hv, htgt], ?_⟩
      have hlt : cursor (switchTo s c) < ({ (switchTo s c) with seeks := (switchTo s c).seeks.tail } : State).nodes.length := by
        show cursor (switchTo s c) < (switchTo s c).nodes.length
        rw [hcur, hf1.nodes]; exact hcl
      rw [a4, place_cursor _ _ _ _ hlt]; exact hcur

/-- Outcome of the second walk. -/
def ProbeDone (stopAt : Option Int) (s : State) (c' : Nat) (s' : State) : Prop :=
  c' ≤ s.nodes.length - 1 ∧ CacheOk s' ∧ Known s' c' ∧ s'.sizes[c']? = some (nlen s.nodes c' : Int) ∧
  Passed stopAt s.nodes c' ∧
  (holds stopAt ((prefixLen s.nodes c' : Int) + (nlen s.nodes c' : Int)) = true ∨ c' = s.nodes.length - 1) ∧
  Filt s s' ∧ (SeeksOk s.seeks → SeeksOk s'.seeks)

/-- One round of the second walk up to the recording of the size. -/
theorem probe_round (s : State) (c : Nat) (hc : CacheOk s) (hk : Known s c) (hcl : c < s.nodes.length)
    (hs : s.hasSeeker = true) :
    let r := clientSeek (switchTo s c) .end_ 0
    Filt s r.2 ∧ CacheOk r.2 ∧ r.2.begins = s.begins ∧
    ((r.1 < 0 ∧ ¬ SeeksOk s.seeks) ∨
     (¬ r.1 < 0 ∧ r.1 = (nlen s.nodes c : Int) ∧ c < r.2.sizes.length ∧ CacheOk (setSize r.2 c r.1) ∧
      Known (setSize r.2 c r.1) c ∧ (setSize r.2 c r.1).sizes[c]? = some (nlen s.nodes c : Int) ∧
      Filt s (setSize r.2 c r.1) ∧ (SeeksOk s.seeks → SeeksOk (setSize r.2 c r.1).seeks))) := by
  intro r
  obtain ⟨p1, p2, p3, p5, p4⟩ := probe_spec s c hcl hs
  have hr : r = clientSeek (switchTo s c) .end_ 0 := rfl
  rw [← hr] at p1 p2 p3 p4 p5
  have hck2 : CacheOk r.2 := cacheOk_congr p1.nodes p2 p3 hc
  have hk2 : Known r.2 c := known_congr p1.nodes p2 p3 hk
  refine ⟨p1, hck2, p2, ?_⟩
  rcases p4 with ⟨q1, q2⟩ | ⟨q1, q2⟩
  · left; exact ⟨q1, q2⟩
  · right
    obtain ⟨hck3, hk3, hz3⟩ := step_setSize (s := r.2) (t := setSize r.2 c r.1) (c := c)
      rfl rfl (by rw [p1.nodes, q1]; rfl) hck2 hk2 (by rw [p1.nodes]; exact hcl)
    rw [p1.nodes] at hz3
    refine ⟨by rw [q1]; omega, q1, by rw [p3, hc.lz]; exact hcl, hck3, hk3, hz3, p1.trans (setSize_filt _ _ _), ?_⟩
    intro h
    show SeeksOk r.2.seeks
    rw [p5]; exact h.tail

theorem walkProbe_spec (stopAt : Option Int) (left c : Nat) (s : State) (hc : CacheOk s) (hk : Known s c)
    (hp : Passed stopAt s.nodes c) (hl : c + left = s.nodes.length - 1) (hs : s.hasSeeker = true) :
    (∀ r s', walkProbe stopAt left c s = .fail r s' → r < 0 ∧ ¬ SeeksOk s.seeks ∧ CacheOk s' ∧ Filt s s') ∧
    (∀ c' s', walkProbe stopAt left c s = .at_ c' s' → c ≤ c' ∧ ProbeDone stopAt s c' s') := by
  induction left generalizing c s with
  | zero =>
    have hne := hc.ne
    have hcl : c < s.nodes.length := by omega
    obtain ⟨p1, p2, p3, p4⟩ := probe_round s c hc hk hcl hs
    have hb : s.begins[c]? = some (prefixLen s.nodes c : Int) := hk.1 c (Nat.le_refl _)
    unfold walkProbe
    simp only []
    generalize clientSeek (switchTo s c) .end_ 0 = r at *
    rcases p4 with ⟨q1, q2⟩ | ⟨q0, q1, q2, q3, q4, q5, q6, q7⟩
    · rw [if_pos q1]
      refine ⟨fun r' s' h => ?_, fun c' s' h => (by cases h)⟩
      cases h
      exact ⟨q1, q2, p2, p1⟩
    · rw [if_neg q0, p3, hb]
      simp only []
      rw [if_pos q2]
      by_cases hh : holds stopAt ((prefixLen s.nodes c : Int) + r.1) = true
      · rw [if_pos hh]
        refine ⟨fun r' s' h => (by cases h), fun c' s' h => ?_⟩
        cases h
        exact ⟨Nat.le_refl _, by omega, q3, q4, q5, hp, Or.inl (by rw [← q1]; exact hh), q6, q7⟩
      · rw [if_neg hh]
        refine ⟨fun r' s' h => (by cases h), fun c' s' h => ?_⟩
        cases h
        exact ⟨Nat.le_refl _, by omega, q3, q4, q5, hp, Or.inr (by omega), q6, q7⟩
  | succ n ih =>
    have hne := hc.ne
    have hcl : c < s.nodes.length := by omega
    obtain ⟨p1, p2, p3, p4⟩ := probe_round s c hc hk hcl hs
    have hb : s.begins[c]? = some (prefixLen s.nodes c : Int) := hk.1 c (Nat.le_refl _)
    unfold walkProbe
    simp only []
    generalize clientSeek (switchTo s c) .end_ 0 = r at *
    rcases p4 with ⟨q1, q2⟩ | ⟨q0, q1, q2, q3, q4, q5, q6, q7⟩
    · rw [if_pos q1]
      refine ⟨fun r' s' h => ?_, fun c' s' h => (by cases h)⟩
      cases h
      exact ⟨q1, q2, p2, p1⟩
    · rw [if_neg q0, p3, hb]
      simp only []
      rw [if_pos q2]
      by_cases hh : holds stopAt ((prefixLen s.nodes c : Int) + r.1) = true
      · rw [if_pos hh]
        refine ⟨fun r' s' h => (by cases h), fun c' s' h => ?_⟩
        cases h
        exact ⟨Nat.le_refl _, by omega, q3, q4, q5, hp, Or.inl (by rw [← q1]; exact hh), q6, q7⟩
      · rw [if_neg hh]
        have hlt1 : c + 1 < (setSize r.2 c r.1).begins.length := by
          show c + 1 < r.2.begins.length
          rw [p3, hc.lb]; omega
        rw [if_pos hlt1]
        -- the next node begins where this one ends
        have hsum : (prefixLen s.nodes c : Int) + r.1 = ((prefixLen s.nodes (c + 1) : Nat) : Int) := by
          rw [prefixLen_succ' s.nodes c hcl, q1]; push_cast; rfl
        rw [hsum]
        have hn3 : (setSize r.2 c r.1).nodes = s.nodes := q6.nodes
        obtain ⟨hck4, hk4⟩ := step_setBegin (s := setSize r.2 c r.1)
          (t := setBegin (setSize r.2 c r.1) (c + 1) ((prefixLen s.nodes (c + 1) : Nat) : Int)) (c := c)
          rfl rfl (by rw [hn3]; rfl) q3 q4 (by rw [hn3]; exact q5) (by rw [hn3]; omega)
        have hp4 : Passed stopAt s.nodes (c + 1) := by
          intro off ho j hj
          by_cases hjc : j = c
          · subst hjc
            have := holds_false hh off ho
            rw [hsum] at this; exact this
          · exact hp off ho j (by omega)
        have hn4 : (setBegin (setSize r.2 c r.1) (c + 1) ((prefixLen s.nodes (c + 1) : Nat) : Int)).nodes = s.nodes := hn3
        have hs4 : (setBegin (setSize r.2 c r.1) (c + 1) ((prefixLen s.nodes (c + 1) : Nat) : Int)).hasSeeker = true := by
          show r.2.hasSeeker = true; rw [p1.hasSeeker]; exact hs
        have hf4 : Filt s (setBegin (setSize r.2 c r.1) (c + 1) ((prefixLen s.nodes (c + 1) : Nat) : Int)) :=
          q6.trans (setBegin_filt _ _ _)
        obtain ⟨i1, i2⟩ := ih (c + 1) (setBegin (setSize r.2 c r.1) (c + 1) ((prefixLen s.nodes (c + 1) : Nat) : Int))
            hck4 hk4 (by rw [hn4]; exact hp4) (by rw [hn4]; omega) hs4
        constructor
        · intro r' s' h
          obtain ⟨j1, j2, j3, j4⟩ := i1 r' s' h
          exact ⟨j1, fun hok => j2 (q7 hok), j3, hf4.trans j4⟩
        · intro c' s' h
          obtain ⟨j0, j1, j2, j3, j4, j5, j6, j7, j8⟩ := i2 c' s' h
          rw [hn4] at j1 j4 j5 j6
          exact ⟨by omega, j1, j2, j3, j4, j5, j6, hf4.trans j7, fun hok => j8 (q7 hok)⟩

end LA.RA
