/-
Helper lemmas for C04, part 11: the programs of the writer only issue family
calls (`AllCalls (QCall Q)`), and the two calls that are not family calls
(`chmod`, `link`) are safe under what has been checked.
-/
import LA.Lemmas.XtrCheck
set_option linter.unusedSimpArgs false
set_option linter.unusedVariables false
namespace LA.Xtr
open LA.FS LA.PathClean

/-- What `createObject`/`restoreEntry`/… need to know about the checked path `name`
to see that a call on it (or its temporary name) is a family call of `Q`. -/
structure FamCtx (Q name : List Nat) : Prop where
  self : Fam Q name
  tmp : Fam Q (tmpName name)

macro "allcalls" : tactic => `(tactic| repeat (first
  | exact trivial
  | apply allCalls_bind'
  | apply allCalls_bind
  | apply allCalls_sys
  | intro _
  | split
  | exact FamCtx.self ‹_›
  | exact FamCtx.tmp ‹_›
  | exact ⟨rfl, FamCtx.self ‹_›, FamCtx.tmp ‹_›⟩
  | (simp only [QCall]; done)
  | (simp only [QCall])))

theorem allCalls_createObject_plain (Q name : List Nat) (hF : FamCtx Q name) (fl : XFlags) (um : Nat)
    (e : Entry) (es : ES) (hk : e.kind = .file ∨ e.kind = .dir ∨ e.kind = .fifo) :
    AllCalls (QCall Q) (createObject fl um e name es) := by
  unfold createObject
  rcases hk with hk | hk | hk <;> simp only [hk] <;> allcalls


/-- `p` is `name` or one of its ancestors. -/
def Anc (name p : List Nat) : Prop := p = name ∨ ∃ rest, name = p ++ SLASH :: rest

theorem anc_parent {name p d b : List Nat} (h : Anc name p) (hp : p = d ++ SLASH :: b) : Anc name d := by
  rcases h with rfl | ⟨rest, rfl⟩
  · exact Or.inr ⟨b, hp⟩
  · exact Or.inr ⟨b ++ SLASH :: rest, by rw [hp]; simp⟩

theorem allCalls_createDir (Q name : List Nat) (hQ : ∀ p, Anc name p → Fam Q p) (fl : XFlags) (um : Nat) :
    ∀ (n : Nat) (p : List Nat), p.length = n → Anc name p → AllCalls (QCall Q) (createDir fl um p) := by
  intro n
  induction n using Nat.strongRecOn with
  | _ n ih =>
    intro p hn ha
    have hF := hQ p ha
    have hdb := dirBase_eq p
    rw [createDir]
    split
    rename_i slash base hdbe
    rw [hdbe] at hdb
    have hrec : ∀ d, slash = some d → AllCalls (QCall Q) (createDir fl um d) := by
      intro d hd
      subst hd
      simp only at hdb
      exact ih d.length (by rw [← hn, hdb.1]; simp) d rfl (anc_parent ha hdb.1)
    split
    · split
      · rename_i d _ _; exact hrec d rfl
      · trivial
    · apply allCalls_bind'
      · exact allCalls_sys trivial
      · intro r
        apply allCalls_bind'
        · split
          · trivial
          · split
            · trivial
            · apply allCalls_bind'
              · exact allCalls_sys hF
              · intro r2; split <;> trivial
          · split
            · trivial
            · split
              · rename_i d _ _; exact hrec d rfl
              · trivial
          · trivial
        · intro a
          split
          split
          · trivial
          · apply allCalls_bind'
            · exact allCalls_sys hF
            · intro r3
              split
              · apply allCalls_bind'
                · exact allCalls_sys trivial
                · intro r4; split <;> trivial
              · split <;> trivial
          · trivial

theorem allCalls_createParentDir (Q name : List Nat) (hQ : ∀ p, Anc name p → Fam Q p) (fl : XFlags) (um : Nat) :
    AllCalls (QCall Q) (createParentDir fl um name) := by
  unfold createParentDir
  have hdb := dirBase_eq name
  split
  · trivial
  · rename_i d hd
    cases hh : dirBase name with
    | mk o b =>
      rw [hh] at hdb hd
      simp only at hd
      subst hd
      simp only at hdb
      exact allCalls_createDir Q name hQ fl um _ d rfl (Or.inr ⟨b, hdb.1⟩)

theorem allCalls_createObject_symlink (name : List Nat) (hF : FamCtx name name) (fl : XFlags) (um : Nat)
    (e : Entry) (es : ES) (hk : e.kind = .symlink) :
    AllCalls (QCall name) (createObject fl um e name es) := by
  unfold createObject
  simp only [hk]
  allcalls

theorem allCalls_restoreEntry (Q name : List Nat) (hF : FamCtx Q name) (fl : XFlags) (um : Nat) (e : Entry)
    (hco : ∀ es, AllCalls (QCall Q) (createObject fl um e name es))
    (hcp : AllCalls (QCall Q) (createParentDir fl um name)) (es : ES) :
    AllCalls (QCall Q) (restoreEntry fl um e name es) := by
  unfold restoreEntry
  allcalls
  iterate 12 (all_goals (first | exact hco _ | exact hcp | allcalls))


/-- `q ++ "/x"`: a path whose leading components are all the components of `q`. -/
def qx (q : List Nat) : List Nat := q ++ [SLASH, 120]

theorem initOf_qx {q : List Nat} (h : Good q) : initOf (qx q) = compsOf q := by
  unfold initOf qx
  have hs : splitSlash (q ++ [SLASH, 120]) = splitSlash q ++ [[120]] := by
    have := splitSlash_append q [120]
    rw [this]; rfl
  have hg : Good (q ++ [SLASH, 120]) := by
    intro c hc
    rw [hs] at hc
    simp only [List.mem_append, List.mem_singleton] at hc
    rcases hc with hc | rfl
    · exact h c hc
    · decide
  rw [compsOf_good hg, hs, compsOf_good h]
  simp

theorem sem_weaken {c : Ctx} {q q2 : List Nat} {pr : Proc} (h : Sem c q pr) (hp : initOf q2 <+: initOf q) :
    Sem c q2 pr := ⟨h.inv, h.wf, noLinkAt_prefix hp h.nl⟩

theorem sem_of_full {c : Ctx} {q : List Nat} {pr : Proc} (hq : Good q) (h : Sem c (qx q) pr) : Sem c q pr :=
  sem_weaken h (by rw [initOf_qx hq]; exact List.dropLast_prefix _)

theorem sem_base {c : Ctx} {q : List Nat} {pr : Proc} (h : Sem c q pr) : Sem c [] pr :=
  sem_weaken h (by simp [initOf, compsOf, splitSlash])

/-- `chmod(name)` (which follows a final symlink) when no component of `name`, the last one included, is a symlink. -/
theorem sem_exec_chmod {c : Ctx} {q name : List Nat} {pr : Proc} (hS : Sem c q pr) (hn : Good name)
    (hfull : NoLinkAt pr.fs c.T (compsOf name)) (m : Nat) : Sem c q (exec (.chmod name m) pr).2 := by
  simp only [exec]
  split
  · exact hS
  · rename_i pos t hl
    split
    · rename_i fs' he
      refine sem_chmodH hS ?_ he
      obtain ⟨tT, hT, hTd⟩ := hS.inv.tdir
      replace hl := (lookupFollow_ok hl).1
      unfold lookupFollow0 at hl
      simp only [hn.ne_nil, if_false, isAbs_good hn, Bool.false_eq_true, hS.inv.cwd] at hl
      split at hl
      · simp at hl
      · rename_i pos' hw
        have hp := walk_noLink pr.fs maxLinks (compsOf name) c.T tT (rel_good hn).noDots hT (hfull tT hT) pos' hw
        subst hp
        split at hl
        · rename_i t' hg
          split at hl
          · simp at hl
          · simp only [Except.ok.injEq, Prod.mk.injEq] at hl
            obtain ⟨rfl, rfl⟩ := hl
            cases t' with
            | dir => exact List.prefix_append _ _
            | file i =>
              apply hS.inv.refs tT hT (compsOf name) i
              rw [get_append, hT] at hg; exact hg
        · simp at hl
    · exact hS

/-- `chmod(".")` in the target directory. -/
theorem sem_exec_chmod_dot {c : Ctx} {q : List Nat} {pr : Proc} (hS : Sem c q pr) (m : Nat) :
    Sem c q (exec (.chmod [DOT] m) pr).2 := by
  simp only [exec]
  split
  · exact hS
  · rename_i pos t hl
    split
    · rename_i fs' he
      refine sem_chmodH hS ?_ he
      obtain ⟨tT, hT, hTd⟩ := hS.inv.tdir
      replace hl := (lookupFollow_ok hl).1
      unfold lookupFollow0 at hl
      have e : compsOf [DOT] = [DOTN] := by decide
      simp only [show ([DOT] : List Nat) ≠ [] by decide, if_false, show isAbs [DOT] = false by decide,
        Bool.false_eq_true, hS.inv.cwd, e] at hl
      rw [walk] at hl
      simp only [hT] at hl
      cases tT with
      | file i => simp [Tree.isDir] at hTd
      | dir mm mt es =>
        simp only [↓reduceIte] at hl
        rw [walk] at hl
        simp only [hT, show trailingSlash [DOT] = false by decide, Bool.false_and, Bool.false_eq_true, if_false,
          Except.ok.injEq, Prod.mk.injEq] at hl
        obtain ⟨rfl, rfl⟩ := hl
        exact List.prefix_refl _
    · exact hS


theorem split_noslash : ∀ (p : List Nat), ∀ c ∈ splitSlash p, ∀ y ∈ c, y ≠ SLASH := by
  intro p
  induction p with
  | nil => intro c hc; simp [splitSlash] at hc; subst hc; intro y hy; simp at hy
  | cons a r ih =>
    by_cases ha : a = SLASH
    · subst ha
      rw [splitSlash_cons_slash]
      intro c hc; simp at hc
      rcases hc with rfl | hc
      · intro y hy; simp at hy
      · exact ih c hc
    · obtain ⟨h0, t0, h1, h2⟩ := splitSlash_cons_other r a ha
      rw [h2]
      intro c hc; simp at hc
      rcases hc with rfl | hc
      · intro y hy; simp at hy
        rcases hy with rfl | hy
        · exact ha
        · exact ih h0 (by simp [h1]) y hy
      · exact ih c (by simp [h1, hc])

theorem keep_eq_filter (p : List Nat) :
    keep (splitSlash p) = (compsOf p).filter (fun c => !(c == DOTN)) := by
  unfold keep compsOf
  rw [List.filter_filter]
  congr 1
  funext c
  simp [DOTN, Bool.and_comm]

/-- What a successful `cleanup_pathname_fsobj` under NODOTDOT|NOABSOLUTEPATHS says about the *input* string
and how the result's components relate to it. -/
theorem cleanup_rel {old lc : List Nat} (hn : ∀ x ∈ old, x ≠ 0)
    (h : cleanup { nodotdot := true, noabs := true } old = .ok lc) :
    old ≠ [] ∧ isAbs old = false ∧ (∀ c ∈ compsOf old, c ≠ DOTDOTN) ∧
    ((lc = [DOT] ∧ keep (splitSlash old) = []) ∨
     (Good lc ∧ compsOf lc = (compsOf old).filter (fun c => !(c == DOTN)))) := by
  rw [cleanup_eq_spec _ _ hn] at h
  unfold cleanSpec at h
  simp only [true_and] at h
  split at h
  · simp at h
  · rename_i hne
    split at h
    · simp at h
    · rename_i habs
      split at h
      · simp at h
      · rename_i hdd
        have habs' : ¬ old.head? = some SLASH := by simpa using habs
        rw [if_neg habs'] at h
        refine ⟨hne, by simp [isAbs, habs'], ?_, ?_⟩
        · intro c hc hcd
          apply hdd
          rw [any_isDotDot_iff]
          unfold compsOf at hc
          rw [hcd] at hc
          exact (List.mem_filter.mp hc).1
        · by_cases hk : keep (splitSlash old) = []
          · simp only [hk, joinSlash, if_true, Res.ok.injEq] at h
            exact Or.inl ⟨h.symm, hk⟩
          · have hjn := keep_join_ne_nil _ hk
            rw [if_neg hjn] at h
            simp only [Res.ok.injEq] at h
            subst h
            have hsj : splitSlash (joinSlash (keep (splitSlash old))) = keep (splitSlash old) :=
              split_join _ hk (fun c hc x hx => split_noslash old c (keep_mem hc).1 x hx)
            right
            have hg : Good (joinSlash (keep (splitSlash old))) := by
              intro c hc
              rw [hsj] at hc
              obtain ⟨h1, h2, h3⟩ := keep_mem hc
              refine ⟨h2, h3, ?_⟩
              rintro rfl
              exact hdd ((any_isDotDot_iff _).mpr h1)
            refine ⟨hg, ?_⟩
            rw [compsOf_good hg, hsj, keep_eq_filter]


theorem filter_snoc_keep (l : List Name) (a : Name) (ha : a ≠ DOTN) :
    (l ++ [a]).filter (fun c => !(c == DOTN)) = l.filter (fun c => !(c == DOTN)) ++ [a] := by
  rw [List.filter_append]
  have : (a == DOTN) = false := by simpa using ha
  simp [List.filter, this]

/-- The object an *uncleaned* hard-link target names is inside the target directory, when its
cleaned form passed the symlink check. -/
theorem lookup_raw_inside {c : Ctx} {q old lc : List Nat} {pr : Proc} (hS : Sem c q pr)
    (hn : ∀ x ∈ old, x ≠ 0) (hcl : cleanup { nodotdot := true, noabs := true } old = .ok lc)
    (hnl : Good lc → NoLinkAt pr.fs c.T (initOf lc)) {pos : List Name} {i : Nat}
    (h : lookupNoFollow pr.fs pr.cwd old = .ok (pos, .file i)) : c.inS i ∧ i < pr.fs.next := by
  obtain ⟨hne, habs, hndd, hrel⟩ := cleanup_rel hn hcl
  obtain ⟨tT, hT, hTd⟩ := hS.inv.tdir
  unfold lookupNoFollow at h
  split at h
  · simp at h
  · -- the path named an object by ".", ".." or a trailing '/': that is a directory
    rename_i pos' hl
    exfalso
    replace hl := (locate_ok hl).1
    unfold locate0 at hl
    simp only [hne, if_false, habs, Bool.false_eq_true, hS.inv.cwd] at hl
    split at hl
    · simp only [Except.ok.injEq, Loc.obj.injEq] at hl
      subst hl
      simp only [hT] at h
      simp only [Except.ok.injEq, Prod.mk.injEq] at h
      rw [h.2] at hTd; simp [Tree.isDir] at hTd
    · split at hl
      · split at hl
        · simp at hl
        · split at hl
          · rename_i m mt es hg
            simp only [Except.ok.injEq, Loc.obj.injEq] at hl
            subst hl
            simp only [hg, Except.ok.injEq, Prod.mk.injEq] at h
            exact absurd h.2 (by simp)
          · simp at hl
          · simp at hl
      · split at hl
        · simp at hl
        · split at hl
          · split at hl <;> simp at hl
          · simp at hl
          · simp at hl
  · rename_i d n hl
    replace hl := (locate_ok hl).1
    unfold locate0 at hl
    simp only [hne, if_false, habs, Bool.false_eq_true, hS.inv.cwd] at hl
    split at hl
    · simp at hl
    · rename_i last hlast
      split at hl
      · split at hl
        · simp at hl
        · split at hl <;> simp at hl
      · rename_i hcond
        have hl1 : last ≠ DOTN := fun e => hcond (Or.inl e)
        have hsplit := dropLast_getLast? _ _ hlast
        split at hl
        · simp at hl
        · rename_i d' hw
          split at hl
          · split at hl
            · simp at hl
            · simp only [Except.ok.injEq, Loc.entry.injEq] at hl
              obtain ⟨rfl, rfl⟩ := hl
              -- the cleaned form is not "." here: `last` survives the clean-up
              rcases hrel with ⟨_, hk⟩ | ⟨hg, hcomps⟩
              · exfalso
                have : last ∈ keep (splitSlash old) := by
                  rw [keep_eq_filter, hsplit, filter_snoc_keep _ _ hl1]; simp
                rw [hk] at this; simp at this
              · have hinit : initOf lc = (compsOf old).dropLast.filter (fun c => !(c == DOTN)) := by
                  unfold initOf
                  rw [hcomps, hsplit, filter_snoc_keep _ _ hl1]
                  simp
                have hnd : ∀ c ∈ (compsOf old).dropLast, c ≠ DOTDOTN :=
                  fun c hc => hndd c ((List.dropLast_sublist _).subset hc)
                have hd := walk_noLink_dots pr.fs maxLinks _ c.T tT hnd hT
                  (by rw [← hinit]; exact hnl hg tT hT) d' hw
                subst hd
                split at h
                · rename_i t ht
                  simp only [Except.ok.injEq, Prod.mk.injEq] at h
                  obtain ⟨_, rfl⟩ := h
                  have hg2 : get pr.fs.root (c.T ++ (initOf lc ++ [last])) = some (.file i) := by
                    rw [← List.append_assoc, get_snoc, hinit]; exact ht
                  refine ⟨?_, hS.wf _ i hg2⟩
                  apply hS.inv.refs tT hT (initOf lc ++ [last]) i
                  rw [get_append, hT] at hg2; exact hg2
                · simp at h
          · simp at hl
          · simp at hl


/-- `linkat(old, q)`: `old` is the uncleaned link target whose cleaned form was checked. -/
theorem sem_exec_link {c : Ctx} {q old lc : List Nat} {pr : Proc} (hS : Sem c q pr) (hF : Fam q q)
    (hn : ∀ x ∈ old, x ≠ 0) (hcl : cleanup { nodotdot := true, noabs := true } old = .ok lc)
    (hnl : Good lc → NoLinkAt pr.fs c.T (initOf lc)) : Sem c q (exec (.link old q) pr).2 := by
  simp only [exec]
  split
  · exact hS
  · rename_i pos src hlk
    split
    · exact hS
    · exact hS
    · rename_i d n hl
      rcases locate_fam hS hF hl with ⟨_, hloc⟩ | ⟨r, n', hloc, _, hcomps⟩
      · simp at hloc
      simp only [Loc.entry.injEq] at hloc
      obtain ⟨rfl, rfl⟩ := hloc
      split
      · exact hS
      · split
        · exact hS
        · rename_i i
          obtain ⟨hin, hlt⟩ := lookup_raw_inside hS hn hcl hnl hlk
          exact sem_putAt hS r n (.file i) (refsIn_file hin) (refsIn_file hlt) (by
            right
            have : initOf q = r := by unfold initOf; rw [hcomps]; simp
            rw [this]; exact not_prefix_snoc r n)


end LA.Xtr
