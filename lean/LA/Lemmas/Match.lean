/-
Helper lemmas for `LA.Match` (model of archive_match.c).
-/
import LA.Model.Match
import LA.Lemmas.PmSpec
set_option linter.unusedSimpArgs false
namespace LA.Match
open LA.Pm

/-! ### unmatched-inclusion bookkeeping -/

def unmatchedOf (l : List Pat) : Nat := (l.filter (fun m => !m.matched)).length

theorem markInclusions_count (st : State) (pn : Option (List Nat)) (l : List Pat) :
    (markInclusions st pn l).2 + unmatchedOf (markInclusions st pn l).1 = unmatchedOf l := by
  induction l with
  | nil => simp [markInclusions, unmatchedOf]
  | cons m ms ih =>
    simp only [markInclusions]
    split
    · rename_i h
      simp only [Bool.and_eq_true, Bool.not_eq_true'] at h
      simp only [unmatchedOf, List.filter_cons, h.1] at ih ⊢
      simp at ih ⊢; omega
    · simp only [unmatchedOf, List.filter_cons] at ih ⊢
      split <;> (try simp at ih ⊢) <;> omega

theorem markInclusions_length (st : State) (pn : Option (List Nat)) (l : List Pat) :
    (markInclusions st pn l).1.length = l.length := by
  induction l with
  | nil => simp [markInclusions]
  | cons m ms ih => simp only [markInclusions]; split <;> simp [ih]

theorem markInclusions_pats (st : State) (pn : Option (List Nat)) (l : List Pat) :
    (markInclusions st pn l).1.map (·.pat) = l.map (·.pat) := by
  induction l with
  | nil => simp [markInclusions]
  | cons m ms ih => simp only [markInclusions]; split <;> simp [ih]

/-- The counter agrees with the marks. -/
def CountInv (st : State) : Prop := st.unmatchedCount = (unmatchedOf st.inclusions : Int)

theorem pathExcluded_fields (st : State) (pn : Option (List Nat)) :
    (pathExcluded st pn).1 = { st with inclusions := (markInclusions st pn st.inclusions).1,
                                       unmatchedCount := st.unmatchedCount - (markInclusions st pn st.inclusions).2 } := rfl

theorem pathExcluded_inv (st : State) (pn : Option (List Nat)) (h : CountInv st) :
    CountInv (pathExcluded st pn).1 := by
  rw [pathExcluded_fields]
  have := markInclusions_count st pn st.inclusions
  unfold CountInv at *
  simp only
  omega

theorem includePattern_inv (st st' : State) (p : Option (List Nat)) (h : CountInv st)
    (hs : includePattern st p = some st') : CountInv st' := by
  unfold includePattern at hs
  split at hs
  · cases hs
  · cases hs
  · cases hs
    unfold CountInv at *
    simp [unmatchedOf, List.filter_append] at h ⊢
    omega

/-! ### times -/

/-- Lexicographic order on (sec, nsec). -/
def tlt (a b : Int × Int) : Prop := a.1 < b.1 ∨ (a.1 = b.1 ∧ a.2 < b.2)

theorem newerRejects_iff (f : TimeFilter) (sec nsec : Int) :
    newerRejects f sec nsec = true ↔
      f.filter ≠ 0 ∧ (tlt (sec, nsec) (f.sec, f.nsec) ∨
        ((sec, nsec) = (f.sec, f.nsec) ∧ has f.filter LA.Gen.MatchFlags.matchEqual = false)) := by
  unfold newerRejects tlt
  simp only [Bool.and_eq_true, Bool.or_eq_true, decide_eq_true_eq, bne_iff_ne, ne_eq, beq_iff_eq,
    Bool.not_eq_true', Prod.mk.injEq]
  constructor
  · rintro ⟨h0, h | ⟨h1, h | ⟨h2, h3⟩⟩⟩
    · exact ⟨h0, .inl (.inl h)⟩
    · exact ⟨h0, .inl (.inr ⟨h1, h⟩)⟩
    · exact ⟨h0, .inr ⟨⟨h1, h2⟩, h3⟩⟩
  · rintro ⟨h0, (h | ⟨h1, h⟩) | ⟨⟨h1, h2⟩, h3⟩⟩
    · exact ⟨h0, .inl h⟩
    · exact ⟨h0, .inr ⟨h1, .inl h⟩⟩
    · exact ⟨h0, .inr ⟨h1, .inr ⟨h2, h3⟩⟩⟩

theorem olderRejects_iff (f : TimeFilter) (sec nsec : Int) :
    olderRejects f sec nsec = true ↔
      f.filter ≠ 0 ∧ (tlt (f.sec, f.nsec) (sec, nsec) ∨
        ((sec, nsec) = (f.sec, f.nsec) ∧ has f.filter LA.Gen.MatchFlags.matchEqual = false)) := by
  unfold olderRejects tlt
  simp only [Bool.and_eq_true, Bool.or_eq_true, decide_eq_true_eq, bne_iff_ne, ne_eq, beq_iff_eq,
    Bool.not_eq_true', Prod.mk.injEq, gt_iff_lt]
  constructor
  · rintro ⟨h0, h | ⟨h1, h | ⟨h2, h3⟩⟩⟩
    · exact ⟨h0, .inl (.inl h)⟩
    · exact ⟨h0, .inl (.inr ⟨h1.symm, h⟩)⟩
    · exact ⟨h0, .inr ⟨⟨h1, h2⟩, h3⟩⟩
  · rintro ⟨h0, (h | ⟨h1, h⟩) | ⟨⟨h1, h2⟩, h3⟩⟩
    · exact ⟨h0, .inl h⟩
    · exact ⟨h0, .inr ⟨h1.symm, .inl h⟩⟩
    · exact ⟨h0, .inr ⟨h1, .inr ⟨h2, h3⟩⟩⟩

/-! ### owner ids: sorted insert and binary search -/

def Sorted (l : List Int) : Prop := l.Pairwise (· < ·)

theorem mem_insertId (l : List Int) (id x : Int) : x ∈ insertId l id ↔ x = id ∨ x ∈ l := by
  induction l with
  | nil => simp [insertId]
  | cons a as ih =>
    simp only [insertId]
    split
    · split
      · rename_i h; subst h; simp
      · simp
    · simp [ih]; constructor
      · rintro (h | h | h) <;> simp [h]
      · rintro (h | h | h) <;> simp [h]

theorem insertId_sorted (l : List Int) (id : Int) (h : Sorted l) : Sorted (insertId l id) := by
  induction l with
  | nil => simp [insertId, Sorted]
  | cons a as ih =>
    unfold Sorted at *
    rw [List.pairwise_cons] at h
    simp only [insertId]
    split
    · rename_i hge
      split
      · exact List.pairwise_cons.mpr h
      · rename_i hne
        refine List.pairwise_cons.mpr ⟨?_, List.pairwise_cons.mpr h⟩
        intro x hx
        rcases List.mem_cons.mp hx with rfl | hx
        · omega
        · have := h.1 x hx; omega
    · rename_i hlt
      refine List.pairwise_cons.mpr ⟨?_, ih h.2⟩
      intro x hx
      rcases (mem_insertId as id x).mp hx with rfl | hx
      · omega
      · exact h.1 x hx

theorem sorted_mono {l : List Int} (h : Sorted l) {i j : Nat} (hij : i ≤ j) (hj : j < l.length) :
    l[i] ≤ l[j] := by
  rcases Nat.eq_or_lt_of_le hij with rfl | hlt
  · exact Int.le_refl _
  · exact Int.le_of_lt (List.pairwise_iff_getElem.mp h i j (by omega) hj hlt)

theorem bsearch_iff (l : List Int) (h : Sorted l) (id : Int) (t b : Nat) (hb : b ≤ l.length) :
    bsearch l.toArray id t b = true ↔ ∃ i, t ≤ i ∧ ∃ hi : i < b, l[i]'(by omega) = id := by
  fun_induction bsearch l.toArray id t b
  · rename_i t b htb m hm
    have hmb : m < b := by simp only [m]; omega
    have hml : m < l.length := by omega
    have hget : l.toArray[m]? = some l[m] := by simp [hml]
    rw [hget] at hm
    simp only [true_iff]
    exact ⟨m, by simp only [m]; omega, hmb, Option.some.inj hm⟩
  · rename_i t b htb m hm hlt ih
    have hmb : m < b := by simp only [m]; omega
    have htm : t ≤ m := by simp only [m]; omega
    have hml : m < l.length := by omega
    have hget : l.toArray[m]? = some l[m] := by simp [hml]
    rw [hget] at hm hlt
    simp only [Option.getD_some] at hlt
    rw [ih hb]
    constructor
    · rintro ⟨i, h1, h2, h3⟩; exact ⟨i, by omega, h2, h3⟩
    · rintro ⟨i, h1, h2, h3⟩
      refine ⟨i, ?_, h2, h3⟩
      rcases Nat.lt_or_ge m i with h' | h'
      · omega
      · have := sorted_mono h (i := i) (j := m) h' hml
        omega
  · rename_i t b htb m hm hge ih
    have hmb : m < b := by simp only [m]; omega
    have htm : t ≤ m := by simp only [m]; omega
    have hml : m < l.length := by omega
    have hget : l.toArray[m]? = some l[m] := by simp [hml]
    rw [hget] at hm hge
    simp only [Option.getD_some] at hge
    have hne : l[m] ≠ id := fun h => hm (by rw [h])
    rw [ih (by omega)]
    constructor
    · rintro ⟨i, h1, h2, h3⟩; exact ⟨i, h1, by omega, h3⟩
    · rintro ⟨i, h1, h2, h3⟩
      refine ⟨i, h1, ?_, h3⟩
      rcases Nat.lt_or_ge i m with h' | h'
      · exact h'
      · have := sorted_mono h (i := m) (j := i) h' (by omega)
        omega
  · rename_i t b htb
    simp only [Bool.false_eq_true, false_iff]
    rintro ⟨i, h1, h2, _⟩; omega

theorem matchOwnerId_iff (l : List Int) (h : Sorted l) (id : Int) : matchOwnerId l id = true ↔ id ∈ l := by
  unfold matchOwnerId
  rw [bsearch_iff l h id 0 l.length (Nat.le_refl _)]
  constructor
  · rintro ⟨i, _, hi, rfl⟩; exact List.getElem_mem _
  · intro hm
    obtain ⟨i, hi, rfl⟩ := List.getElem_of_mem hm
    exact ⟨i, Nat.zero_le _, hi, rfl⟩

theorem matchOwnerName_iff (names : List Pat) (name : Option (List Nat)) :
    matchOwnerName names name = true ↔ ∃ n, name = some n ∧ n ≠ [] ∧ n ∈ names.map (·.pat) := by
  unfold matchOwnerName
  split
  · simp
  · simp
  · rename_i n hne
    simp only [List.any_eq_true, beq_iff_eq, Option.some.injEq, List.mem_map]
    constructor
    · rintro ⟨m, hm, rfl⟩; exact ⟨_, rfl, fun h => hne (by rw [h]), m, hm, rfl⟩
    · rintro ⟨n', rfl, _, m, hm, rfl⟩; exact ⟨m, hm, rfl⟩

end LA.Match
