import LA.Model.Lnk
namespace LA.Lnk

/-- Close a `List.Perm` goal between lists built from the same atoms with `++`/`::`. -/
macro "perm_count" : tactic =>
  `(tactic| (rw [List.perm_iff_count]; intro a; simp [List.count_append, List.count_cons]; try omega))

/-- Shape of `findEntry`: either nothing matched and the table is unchanged, or
the table splits around the first matching record. -/
theorem findEntry_spec (tbl : List LE) (d i : Int) (h : Option Ent → Option Ent) :
    (findEntry tbl d i h = (none, tbl) ∧ ∀ le ∈ tbl, le.hasKey d i = false) ∨
    (∃ pre le0 post, tbl = pre ++ le0 :: post ∧ le0.hasKey d i = true ∧
      (∀ le ∈ pre, le.hasKey d i = false) ∧
      findEntry tbl d i h =
        (some { le0 with links := u32dec le0.links },
         if u32dec le0.links > 0 then
           pre ++ { le0 with links := u32dec le0.links, held := h le0.held } :: post
         else pre ++ post)) := by
  induction tbl with
  | nil => left; simp [findEntry]
  | cons a rest ih =>
    by_cases hk : a.hasKey d i = true
    · right
      refine ⟨[], a, rest, by simp, hk, by simp, ?_⟩
      simp only [findEntry, hk, if_true, List.nil_append]
      split <;> rfl
    · have hk' : a.hasKey d i = false := by simpa using hk
      rcases ih with ⟨h1, h2⟩ | ⟨pre, le0, post, h1, h2, h3, h4⟩
      · left
        constructor
        · simp [findEntry, hk', h1]
        · intro le hle
          rcases List.mem_cons.mp hle with rfl | hm
          · exact hk'
          · exact h2 le hm
      · right
        refine ⟨a :: pre, le0, post, by simp [h1], h2, ?_, ?_⟩
        · intro le hle
          rcases List.mem_cons.mp hle with rfl | hm
          · exact hk'
          · exact h3 le hm
        · simp only [findEntry, hk'] at h4 ⊢
          simp only [h4]
          by_cases hl : 0 < u32dec le0.links <;> simp [hl]

@[simp] theorem heldOf_nil : heldOf ([] : List LE) = [] := rfl

theorem heldOf_append (a b : List LE) : heldOf (a ++ b) = heldOf a ++ heldOf b := by
  simp [heldOf, List.filterMap_append]

theorem heldOf_cons (a : LE) (b : List LE) : heldOf (a :: b) = a.held.toList ++ heldOf b := by
  cases h : a.held <;> simp [heldOf, h]

/-- Shape of `takeNth`: the table splits around the removed record. -/
theorem takeNth_spec (p : LE → Bool) (tbl : List LE) (k : Nat) :
    (takeNth p tbl k = none ∧ ∀ le ∈ tbl, p le = false) ∨
    (∃ pre le post, tbl = pre ++ le :: post ∧ p le = true ∧
      takeNth p tbl k = some (le, pre ++ post)) := by
  induction tbl generalizing k with
  | nil => left; simp [takeNth]
  | cons a rest ih =>
    by_cases hp : p a = true
    · right
      cases k with
      | zero => exact ⟨[], a, rest, by simp, hp, by simp [takeNth, hp]⟩
      | succ k =>
        rcases ih k with ⟨h1, _⟩ | ⟨pre, le, post, h1, h2, h3⟩
        · exact ⟨[], a, rest, by simp, hp, by simp [takeNth, hp, h1]⟩
        · exact ⟨a :: pre, le, post, by simp [h1], h2, by simp [takeNth, hp, h3]⟩
    · have hp' : p a = false := by simpa using hp
      rcases ih k with ⟨h1, h2⟩ | ⟨pre, le, post, h1, h2, h3⟩
      · left
        refine ⟨by simp [takeNth, hp', h1], ?_⟩
        intro le hle
        rcases List.mem_cons.mp hle with rfl | hm
        · exact hp'
        · exact h2 le hm
      · right
        exact ⟨a :: pre, le, post, by simp [h1], h2, by simp [takeNth, hp', h3]⟩

end LA.Lnk
