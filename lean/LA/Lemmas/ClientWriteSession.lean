/-
Session-level lemmas for the client write layer: a run of writes followed by
close, composed from the per-call specifications of `LA.Lemmas.ClientWrite`.
-/
import LA.Lemmas.ClientWrite
namespace LA.CW

@[simp] theorem allEvents_nil : allEvents [] = [] := rfl
@[simp] theorem allEvents_cons (x : St × List Event) (l : List (St × List Event)) :
    allEvents (x :: l) = x.2 ++ allEvents l := by simp [allEvents]
@[simp] theorem allEvents_append (a b : List (St × List Event)) :
    allEvents (a ++ b) = allEvents a ++ allEvents b := by simp [allEvents]

/-- What a run of writes guarantees (`s` is the filter state before the run). -/
structure RunSpec {σ : Type} (W : Writer σ) (w : σ) (s : CState) (ds : List (List Cell))
    (r : List (St × List Event) × Option CState × σ) : Prop where
  steps : ∀ x ∈ r.1, x.1 ≠ .oob ∧ (x.1 = .fatal ↔ ∃ e ∈ x.2, e.bad)
  done : ∀ s', r.2.1 = some s' → (∀ x ∈ r.1, x.1 = .ok) ∧ r.1.length = ds.length ∧ Inv s' ∧
    s'.bufSize = s.bufSize ∧ taken (allEvents r.1) ++ pending s' = pending s ++ ds.flatten ∧
    ∀ c ∈ pending s', c ∈ pending s ++ ds.flatten
  failed : r.2.1 = none → ∃ x ∈ r.1, x.1 = .fatal
  pre : taken (allEvents r.1) <+: pending s ++ ds.flatten
  resumes : ∀ S t, pending s ++ ds.flatten <+: S.drop t → Resumes S t (allEvents r.1)
  offers : ∀ e ∈ allEvents r.1, ∀ c ∈ e.offer, c ∈ pending s ++ ds.flatten
  full : 0 < s.bufSize → (∀ e ∈ allEvents r.1, e.ret = e.offer.length) →
    ∀ e ∈ allEvents r.1, e.offer.length = s.bufSize
  threads : Threads W w (allEvents r.1) r.2.2

theorem runWrites_spec {σ : Type} (W : Writer σ) (w : σ) (s : CState) (ds : List (List Cell))
    (hi : Inv s) : RunSpec W w s ds (runWrites W w s ds) := by
  induction ds generalizing w s with
  | nil =>
    simp only [runWrites]
    refine ⟨by simp, ?_, by simp, by simp, fun _ _ _ => trivial, by simp, by simp, rfl⟩
    intro s' h
    simp only [Option.some.injEq] at h; subst h
    exact ⟨by simp, rfl, hi, rfl, by simp, by simp⟩
  | cons d ds ih =>
    have hs := clientWrite_spec W w s d hi.winv
    have hth := clientWrite_threads W w s d
    simp only [runWrites]
    generalize clientWrite W w s d = r at *
    obtain ⟨st, s1, evs, w1⟩ := r
    obtain ⟨c1, c2, c3, c4, c5, c6, c7, c8, c9, c10⟩ := hs
    simp only [] at *
    by_cases hok : st = .ok
    · subst hok
      simp only [if_true]
      have hi1 := (c4 rfl).1
      have heq := (c4 rfl).2
      have ih1 := ih w1 s1 hi1
      generalize runWrites W w1 s1 ds = t at *
      obtain ⟨steps, os, wf⟩ := t
      obtain ⟨i1, i2, i3, i4, i5, i6, i7, i8⟩ := ih1
      simp only [] at *
      have hflat : pending s ++ (d :: ds).flatten = taken evs ++ (pending s1 ++ ds.flatten) := by
        rw [List.flatten_cons, ← List.append_assoc, ← heq, List.append_assoc]
      refine ⟨?steps, ?done, ?failed, ?pre, ?resumes, ?offers, ?full, Threads.append hth i8⟩
      case failed =>
        intro h
        obtain ⟨x, hx, hxf⟩ := i3 h
        exact ⟨x, List.mem_cons_of_mem _ hx, hxf⟩
      case steps =>
        intro x hx
        rcases List.mem_cons.mp hx with rfl | hx
        · exact ⟨c1, c6⟩
        · exact i1 x hx
      case done =>
        intro s' h
        obtain ⟨a1, a2, a3, a4, a5, a6⟩ := i2 s' h
        refine ⟨?_, by simp [a2], a3, by rw [a4, c3], ?_, ?_⟩
        · intro x hx
          rcases List.mem_cons.mp hx with rfl | hx
          · rfl
          · exact a1 x hx
        · rw [allEvents_cons, taken_append, List.append_assoc, a5, hflat]
        · intro c hc
          rw [hflat]
          rcases List.mem_append.mp (a6 c hc) with h | h
          · have := c9 c h
            rw [← heq] at this
            rcases List.mem_append.mp this with h | h
            · exact List.mem_append_left _ h
            · exact List.mem_append_right _ (List.mem_append_left _ h)
          · exact List.mem_append_right _ (List.mem_append_right _ h)
      case pre =>
        rw [allEvents_cons, taken_append, hflat]
        exact (List.prefix_append_right_inj _).mpr i4
      case resumes =>
        intro S t h
        rw [allEvents_cons]
        apply Resumes.append
        · apply c7 S t
          rw [List.flatten_cons, ← List.append_assoc] at h
          exact (List.prefix_append _ _).trans h
        · apply i5
          rw [hflat] at h
          obtain ⟨x, hx⟩ := h
          rw [← List.drop_drop, ← hx, List.append_assoc, List.drop_left]
          exact List.prefix_append _ _
      case offers =>
        intro e he c hc
        rw [allEvents_cons] at he
        rcases List.mem_append.mp he with he | he
        · have := c8 e he c hc
          rw [List.flatten_cons, ← List.append_assoc]; exact List.mem_append_left _ this
        · have := i6 e he c hc
          rw [hflat]
          rcases List.mem_append.mp this with h | h
          · have := c9 c h
            rw [← heq] at this
            rcases List.mem_append.mp this with h | h
            · exact List.mem_append_left _ h
            · exact List.mem_append_right _ (List.mem_append_left _ h)
          · exact List.mem_append_right _ (List.mem_append_right _ h)
      case full =>
        intro hb hall e he
        rw [allEvents_cons] at he hall
        rcases List.mem_append.mp he with he | he
        · exact c10 hb (fun e he => hall e (List.mem_append_left _ he)) e he
        · rw [← c3]
          exact i7 (by rw [c3]; exact hb) (fun e he => hall e (List.mem_append_right _ he)) e he
    · simp only [hok, if_false]
      have hfat : st = .fatal := by
        cases st with
        | ok => exact absurd rfl hok
        | fatal => rfl
        | oob => exact absurd rfl c1
      refine ⟨?_, by simp, ?_, ?_, ?_, ?_, ?_, by simpa using hth⟩
      · intro x hx
        simp only [List.mem_singleton] at hx; subst hx
        exact ⟨c1, c6⟩
      · intro _; exact ⟨_, List.mem_singleton.mpr rfl, hfat⟩
      · simp only [allEvents_cons, allEvents_nil, List.append_nil]
        rw [List.flatten_cons, ← List.append_assoc]
        exact c5.trans (List.prefix_append _ _)
      · intro S t h
        simp only [allEvents_cons, allEvents_nil, List.append_nil]
        apply c7 S t
        rw [List.flatten_cons, ← List.append_assoc] at h
        exact (List.prefix_append _ _).trans h
      · intro e he c hc
        simp only [allEvents_cons, allEvents_nil, List.append_nil] at he
        rw [List.flatten_cons, ← List.append_assoc]
        exact List.mem_append_left _ (c8 e he c hc)
      · intro hb hall e he
        simp only [allEvents_cons, allEvents_nil, List.append_nil] at he hall
        exact c10 hb hall e he

theorem taken_full : ∀ (l : List Event), (∀ e ∈ l, e.ret = e.offer.length) →
    taken l = (l.map (·.offer)).flatten := by
  intro l
  induction l with
  | nil => intro _; rfl
  | cons e r ih =>
    intro h
    have h1 := h e (by simp)
    simp only [taken_cons, List.map_cons, List.flatten_cons, Event.taken, h1, Int.toNat_natCast,
      List.take_length]
    rw [ih (fun e he => h e (List.mem_cons_of_mem _ he))]

theorem flatten_length_const (n : Nat) : ∀ (l : List (List Cell)), (∀ o ∈ l, o.length = n) →
    l.flatten.length = n * l.length := by
  intro l
  induction l with
  | nil => intro _; simp
  | cons a r ih =>
    intro h
    simp only [List.flatten_cons, List.length_append, List.length_cons]
    rw [ih (fun o ho => h o (List.mem_cons_of_mem _ ho)), h a (by simp), Nat.mul_add]; omega

theorem padLen_lt (bpb : Nat) (bil : Int) (f : Nat) (h : f ≤ bpb) :
    padLen bpb bil f = 0 ∨ padLen bpb bil f < bpb := by
  unfold padLen
  split
  · left; rfl
  · have := lastBlockLen_le bpb bil f h
    right; omega

/-- What one life of the client filter (open, writes, close) guarantees. -/
structure SessionSpec {σ : Type} (W : Writer σ) (w : σ) (bpb : Nat) (bil : Int) (ds : List (List Cell))
    (r : List (St × List Event) × σ) : Prop where
  steps : ∀ x ∈ r.1, x.1 ≠ .oob ∧ (x.1 = .fatal ↔ ∃ e ∈ x.2, e.bad)
  stream : ∃ n, (n = 0 ∨ n < bpb) ∧
    taken (allEvents r.1) <+: ds.flatten ++ List.replicate n (some 0) ∧
    Resumes (ds.flatten ++ List.replicate n (some 0)) 0 (allEvents r.1) ∧
    (∀ e ∈ allEvents r.1, ∀ c ∈ e.offer, c ∈ ds.flatten ++ List.replicate n (some 0)) ∧
    ((∀ x ∈ r.1, x.1 = .ok) → r.1.length = ds.length + 1 ∧
      taken (allEvents r.1) = ds.flatten ++ List.replicate n (some 0))
  threads : Threads W w (allEvents r.1) r.2
  blocked : 0 < bpb → (∀ e ∈ allEvents r.1, e.ret = e.offer.length) →
    ∃ wo : List (List Cell), (∀ o ∈ wo, o.length = bpb) ∧
      wo.flatten = ds.flatten.take (ds.flatten.length - ds.flatten.length % bpb) ∧
      (allEvents r.1).map (·.offer) = wo ++
        (if ds.flatten.length % bpb = 0 then [] else
          [ds.flatten.drop (ds.flatten.length - ds.flatten.length % bpb) ++
            List.replicate (padLen bpb bil (ds.flatten.length % bpb)) (some 0)])

theorem session_spec {σ : Type} (W : Writer σ) (w : σ) (bpb : Nat) (bil : Int) (ds : List (List Cell)) :
    SessionSpec W w bpb bil ds (session W w bpb bil ds) := by
  have hr := runWrites_spec W w (clientOpen bpb) ds (clientOpen_inv bpb)
  have hsz : (clientOpen bpb).bufSize = bpb := by simp [clientOpen, CState.bufSize]
  unfold session
  simp only []
  generalize runWrites W w (clientOpen bpb) ds = r at *
  obtain ⟨steps, os, w1⟩ := r
  obtain ⟨r1, r2, r3, r4, r5, r6, r7, r8⟩ := hr
  simp only [pending_clientOpen, List.nil_append, hsz] at *
  cases os with
  | none =>
    simp only []
    obtain ⟨x, hx, hxf⟩ := r3 rfl
    have hnotok : ¬ ∀ x ∈ steps, x.1 = .ok := by
      intro h; have := h x hx; rw [hxf] at this; cases this
    refine ⟨r1, ⟨0, Or.inl rfl, by simpa using r4, by simpa using r5 ds.flatten 0 (by simp),
      by simpa using r6, fun h => absurd h hnotok⟩, r8, ?_⟩
    intro hb hall
    exfalso
    have hbad := (r1 x hx).2.mp hxf
    obtain ⟨e, he, hebad⟩ := hbad
    have hmem : e ∈ allEvents steps := by
      simp only [allEvents, List.mem_flatten, List.mem_map]
      exact ⟨x.2, ⟨x, hx, rfl⟩, he⟩
    have h1 := hall e hmem
    have h2 := r7 hb hall e hmem
    simp only [Event.bad] at hebad
    omega
  | some s' =>
    simp only []
    obtain ⟨d1, d2, d3, d4, d5, d6⟩ := r2 s' rfl
    have hc := clientClose_spec W w1 s' bpb bil d3.winv d4.symm
    have hct := clientClose_threads W w1 s' bpb bil
    generalize clientClose W w1 s' bpb bil = c at *
    obtain ⟨cst, cevs, w2⟩ := c
    obtain ⟨c1, c2, c3, c4, c5, c6, c7, c8⟩ := hc
    simp only [] at *
    have hfl : s'.fill ≤ bpb := by rw [← d4]; exact d3.1
    have hS : ds.flatten ++ List.replicate (padLen bpb bil s'.fill) (some 0) =
        taken (allEvents steps) ++ lastBlock s' bpb bil := by
      rw [lastBlock, ← List.append_assoc, d5]
    refine ⟨?steps, ⟨padLen bpb bil s'.fill, padLen_lt bpb bil s'.fill hfl, ?pre, ?res, ?off, ?ok⟩, ?thr, ?blk⟩
    case steps =>
      intro x hx
      rcases List.mem_append.mp hx with hx | hx
      · exact r1 x hx
      · simp only [List.mem_singleton] at hx; subst hx; exact ⟨c1, c4⟩
    case pre =>
      rw [allEvents_append, taken_append, hS]
      simp only [allEvents_cons, allEvents_nil, List.append_nil]
      exact (List.prefix_append_right_inj _).mpr c3
    case res =>
      rw [allEvents_append]
      apply Resumes.append
      · apply r5; simp only [List.drop_zero]; exact List.prefix_append _ _
      · simp only [allEvents_cons, allEvents_nil, List.append_nil, Nat.zero_add]
        apply c5
        rw [hS, List.drop_left]
        exact List.prefix_refl _
    case off =>
      intro e he c hc
      rw [allEvents_append] at he
      rcases List.mem_append.mp he with he | he
      · exact List.mem_append_left _ (r6 e he c hc)
      · simp only [allEvents_cons, allEvents_nil, List.append_nil] at he
        have := c6 e he c hc
        simp only [lastBlock] at this
        rcases List.mem_append.mp this with h | h
        · exact List.mem_append_left _ (d6 c h)
        · exact List.mem_append_right _ h
    case ok =>
      intro hall
      have hcok : cst = .ok := hall (cst, cevs) (by simp)
      refine ⟨by simp [d2], ?_⟩
      rw [allEvents_append, taken_append, hS]
      simp only [allEvents_cons, allEvents_nil, List.append_nil]
      rw [c2 hcok]
    case thr =>
      rw [allEvents_append]
      simp only [allEvents_cons, allEvents_nil, List.append_nil]
      exact Threads.append r8 hct
    case blk =>
      intro hb hall
      rw [allEvents_append] at hall
      simp only [allEvents_cons, allEvents_nil, List.append_nil] at hall
      have hallw : ∀ e ∈ allEvents steps, e.ret = e.offer.length := fun e he => hall e (List.mem_append_left _ he)
      have hallc : ∀ e ∈ cevs, e.ret = e.offer.length := fun e he => hall e (List.mem_append_right _ he)
      have hlenw := r7 hb hallw
      have hcev := c7 hallc
      have htw := taken_full _ hallw
      have hlw : ∀ o ∈ (allEvents steps).map (·.offer), o.length = bpb := by
        intro o ho
        obtain ⟨e, he, rfl⟩ := List.mem_map.mp ho
        exact hlenw e he
      have hfl2 := flatten_length_const bpb _ hlw
      have hfill_lt : s'.fill < bpb := by rw [← d4]; exact d3.2 (by rw [d4]; exact hb)
      have hplen : (pending s').length = s'.fill := by
        simp only [pending, List.length_take]; have := d3.1; simp only [CState.bufSize] at this; omega
      have hDlen : ds.flatten.length = bpb * ((allEvents steps).map (·.offer)).length + s'.fill := by
        rw [← d5, List.length_append, htw, hfl2, hplen]
      have hmod : ds.flatten.length % bpb = s'.fill := by
        rw [hDlen, Nat.mul_add_mod]; exact Nat.mod_eq_of_lt hfill_lt
      have hsub : ds.flatten.length - ds.flatten.length % bpb = (taken (allEvents steps)).length := by
        rw [hmod, htw, hfl2, hDlen]; omega
      refine ⟨(allEvents steps).map (·.offer), hlw, ?_, ?_⟩
      · rw [hsub, ← d5, List.take_left' rfl, htw]
      · rw [allEvents_append, List.map_append]
        simp only [allEvents_cons, allEvents_nil, List.append_nil]
        congr 1
        rw [hcev, hmod]
        by_cases hz : s'.fill = 0
        · simp [hz]
        · simp only [hz, if_false, List.map_cons, List.map_nil]
          congr 1
          rw [hmod] at hsub
          rw [hsub, ← d5, List.drop_left' rfl]
          rfl

theorem mem_allEvents {x : St × List Event} {l : List (St × List Event)} {e : Event}
    (hx : x ∈ l) (he : e ∈ x.2) : e ∈ allEvents l := by
  simp only [allEvents, List.mem_flatten, List.mem_map]
  exact ⟨x.2, ⟨x, hx, rfl⟩, he⟩


theorem mem_allEvents_iff {l : List (St × List Event)} {e : Event} :
    e ∈ allEvents l ↔ ∃ x ∈ l, e ∈ x.2 := by
  simp only [allEvents, List.mem_flatten, List.mem_map]
  constructor
  · rintro ⟨_, ⟨x, hx, rfl⟩, he⟩; exact ⟨x, hx, he⟩
  · rintro ⟨x, hx, he⟩; exact ⟨x.2, ⟨x, hx, rfl⟩, he⟩


theorem resumes_at {S : List Cell} : ∀ {t pre e post}, Resumes S t (pre ++ e :: post) →
    e.offer <+: S.drop (t + (taken pre).length) := by
  intro t pre
  induction pre generalizing t with
  | nil => intro e post h; simpa using h.1
  | cons a r ih =>
    intro e post h
    obtain ⟨_, h2, h3⟩ := h
    have := ih h3
    have hl : a.taken.length = a.ret.toNat := by simp only [Event.taken, List.length_take]; omega
    simpa [hl, Nat.add_assoc] using this


end LA.CW
