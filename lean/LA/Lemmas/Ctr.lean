/- Helper lemmas for `LA.Ctr` (AES-CTR layer of archive_cryptor.c). -/
import LA.Model.Ctr
set_option linter.unusedSimpArgs false
namespace LA.Ctr

theorem bs16 : BS = 16 := rfl

/-- linear arithmetic after unfolding `BS` and structure projections -/
macro "bs_omega" : tactic =>
  `(tactic| ((try simp only [bs16, List.length_cons, List.length_take, List.length_drop] at *); omega))

/-! ### counter arithmetic -/

theorem toUInt8_succ (x : Nat) : (x + 1).toUInt8 = x.toUInt8 + 1 := by
  apply UInt8.toNat_inj.mp
  simp [Nat.toUInt8, UInt8.toNat_add, UInt8.toNat_ofNat']

theorem toUInt8_succ_eq_zero (x : Nat) (hx : x < 256) : (x.toUInt8 + 1 = 0) ↔ x = 255 := by
  rw [← UInt8.toNat_inj]
  simp [Nat.toUInt8, UInt8.toNat_add, UInt8.toNat_ofNat']
  omega

/-- The byte-wise carry loop is `+1` on the little-endian number (mod 256^m). -/
theorem incBytes_leBytes (m k : Nat) : incBytes (leBytes m k) = leBytes m (k + 1) := by
  induction m generalizing k with
  | zero => rfl
  | succ m ih =>
    simp only [leBytes, incBytes]
    by_cases h : k % 256 = 255
    · have h0 : (k % 256).toUInt8 + 1 = 0 := (toUInt8_succ_eq_zero _ (Nat.mod_lt _ (by decide))).mpr h
      have h1 : (k + 1) % 256 = 0 := by omega
      have h2 : (k + 1) / 256 = k / 256 + 1 := by omega
      simp [h0, h1, h2, ih]
    · have h0 : ¬ ((k % 256).toUInt8 + 1 = 0) := fun e =>
        h ((toUInt8_succ_eq_zero _ (Nat.mod_lt _ (by decide))).mp e)
      have h1 : (k + 1) % 256 = k % 256 + 1 := by omega
      have h2 : (k + 1) / 256 = k / 256 := by omega
      simp [h0, h1, h2, toUInt8_succ]

theorem counterBlock_toList (k : Nat) :
    (counterBlock k).toList = leBytes 8 k ++ List.replicate 8 0 := by
  simp [counterBlock, Vector.toList]

/-- `aes_ctr_increase_counter` maps counter block `k` to counter block `k+1`. -/
theorem incCounter_counterBlock (k : Nat) : incCounter (counterBlock k) = counterBlock (k + 1) := by
  apply Vector.toArray_inj.mp
  simp only [incCounter, counterBlock_toList]
  have h8 : (leBytes 8 k).length = 8 := leBytes_length 8 k
  simp [counterBlock, List.take_append_of_le_length, List.drop_append_of_le_length, h8,
    incBytes_leBytes]

theorem leBytes_wrap (m k : Nat) : leBytes m (k + 256 ^ m) = leBytes m k := by
  induction m generalizing k with
  | zero => rfl
  | succ m ih =>
    simp only [leBytes]
    have h1 : (k + 256 ^ (m + 1)) % 256 = k % 256 := by
      rw [Nat.pow_succ, Nat.add_mul_mod_self_right]
    have h2 : (k + 256 ^ (m + 1)) / 256 = k / 256 + 256 ^ m := by
      rw [Nat.pow_succ, Nat.add_mul_div_right _ _ (by decide : 0 < 256)]
    rw [h1, h2, ih]

/-- The counter is a 64-bit quantity: it wraps at 2^64. -/
theorem counterBlock_wrap (k : Nat) : counterBlock (k + 2 ^ 64) = counterBlock k := by
  apply Vector.toArray_inj.mp
  have h := leBytes_wrap 8 k
  have e : (256 : Nat) ^ 8 = 2 ^ 64 := by decide
  rw [e] at h
  simp only [counterBlock, h]

theorem init_eq_initAt : init = initAt 0 := by
  simp only [init, initAt]
  congr 1

/-! ### the key stream -/

theorem xorStream_length (ks : Nat → UInt8) (n : Nat) (l : List UInt8) :
    (xorStream ks n l).length = l.length := by
  induction l generalizing n with
  | nil => rfl
  | cons b r ih => simp [xorStream, ih]

theorem xorStream_append (ks : Nat → UInt8) (n : Nat) (a b : List UInt8) :
    xorStream ks n (a ++ b) = xorStream ks n a ++ xorStream ks (n + a.length) b := by
  induction a generalizing n with
  | nil => simp [xorStream]
  | cons x r ih =>
    simp only [List.cons_append, xorStream, ih, List.length_cons]
    congr 3; omega

/-- XORing twice with the same stream gives the input back. -/
theorem xorStream_involutive (ks : Nat → UInt8) (n : Nat) (l : List UInt8) :
    xorStream ks n (xorStream ks n l) = l := by
  induction l generalizing n with
  | nil => rfl
  | cons b r ih =>
    simp only [xorStream, ih]
    rw [UInt8.xor_assoc, UInt8.xor_self, UInt8.xor_zero]

theorem ksByte_block (E : Block → Block) (k0 q i : Nat) (hi : i < BS) :
    ksByte E k0 (BS * q + i) = (E (counterBlock (k0 + q + 1)))[i] := by
  have h1 : (BS * q + i) / BS = q := by bs_omega
  have h2 : (BS * q + i) % BS = i := by bs_omega
  simp only [ksByte, h1, h2]

theorem zipWith_drop_eq (E : Block → Block) (k0 q : Nat) (l : List UInt8) (j : Nat)
    (h : l.length + j ≤ BS) :
    List.zipWith (· ^^^ ·) l ((E (counterBlock (k0 + q + 1))).toList.drop j)
      = xorStream (ksByte E k0) (BS * q + j) l := by
  induction l generalizing j with
  | nil => simp [xorStream]
  | cons b r ih =>
    have hj : j < BS := by simp at h; omega
    have hlen : j < (E (counterBlock (k0 + q + 1))).toList.length := by simpa using hj
    rw [List.drop_eq_getElem_cons hlen]
    simp only [List.zipWith_cons_cons, xorStream]
    rw [ih (j + 1) (by simp at h ⊢; omega), ksByte_block E k0 q j hj]
    simp [Nat.add_assoc]

theorem xorBlock_eq (E : Block → Block) (k0 q : Nat) (l : List UInt8) (h : l.length ≤ BS) :
    xorBlock (E (counterBlock (k0 + q + 1))) l = xorStream (ksByte E k0) (BS * q) l := by
  have := zipWith_drop_eq E k0 q l 0 (by simpa using h)
  simpa [xorBlock] using this

/-- The fast path: from counter block `k0+q+1` (already encrypted) whole blocks are
XORed with `E(k0+q+1), E(k0+q+2), …`; the counter ends `length/16` further. -/
theorem blocks_spec (E : Block → Block) (k0 : Nat) (rest : List UInt8) :
    ∀ q, blocks E (counterBlock (k0 + q + 1)) (E (counterBlock (k0 + q + 1))) rest =
      (counterBlock (k0 + q + rest.length / BS + 1),
       E (counterBlock (k0 + q + rest.length / BS + 1)),
       rest.drop (BS * (rest.length / BS)),
       xorStream (ksByte E k0) (BS * q) (rest.take (BS * (rest.length / BS)))) := by
  induction hn : rest.length using Nat.strongRecOn generalizing rest with
  | ind len ih =>
    intro q
    subst hn
    rw [blocks]
    by_cases hge : rest.length ≥ BS
    · simp only [hge, if_true]
      have hlt : (rest.drop BS).length < rest.length := by bs_omega
      have hrec := ih _ hlt (rest.drop BS) rfl (q + 1)
      rw [incCounter_counterBlock]
      have e1 : k0 + q + 1 + 1 = k0 + (q + 1) + 1 := by omega
      rw [e1, hrec]
      have hl : (rest.drop BS).length / BS + 1 = rest.length / BS := by
        bs_omega
      have e2 : k0 + (q + 1) + (rest.drop BS).length / BS + 1 = k0 + q + rest.length / BS + 1 := by
        omega
      have e3 : BS * (rest.length / BS) = BS + BS * ((rest.drop BS).length / BS) := by
        rw [← hl]; bs_omega
      simp only [e2]
      refine Prod.ext rfl (Prod.ext rfl (Prod.ext ?_ ?_))
      · simp only [e3, List.drop_drop]
      · simp only
        rw [e3, List.take_add, xorStream_append]
        have htl : (rest.take BS).length = BS := by bs_omega
        rw [xorBlock_eq E k0 q _ (by omega), htl]
        congr 2
    · have hz : rest.length / BS = 0 := by bs_omega
      simp [hge, hz, xorStream]

/-- State invariant after `n` bytes since the counter was `k0`. -/
def Inv (E : Block → Block) (k0 n : Nat) (c : Ctx) : Prop :=
  (c.pos = BS ∧ n % BS = 0 ∧ c.nonce = counterBlock (k0 + n / BS)) ∨
  (c.pos < BS ∧ c.pos = n % BS ∧ c.nonce = counterBlock (k0 + n / BS + 1) ∧ c.ebuf = E c.nonce)

theorem inv_initAt (E : Block → Block) (k0 : Nat) : Inv E k0 0 (initAt k0) := by
  left; simp [initAt]

theorem loop_spec (E : Block → Block) (k0 : Nat) (rest : List UInt8) :
    ∀ n nonce ebuf pos, Inv E k0 n { nonce, ebuf, pos } →
      ∃ c', loop E nonce ebuf pos rest = .ok c' (xorStream (ksByte E k0) n rest) ∧
        Inv E k0 (n + rest.length) c' := by
  induction hn : rest.length using Nat.strongRecOn generalizing rest with
  | ind len ih =>
    intro n nonce ebuf pos hinv
    subst hn
    cases rest with
    | nil => exact ⟨{ nonce, ebuf, pos }, by simp [loop, xorStream], by simpa using hinv⟩
    | cons b tl =>
      rw [loop]
      rcases hinv with ⟨hp, hn0, hno⟩ | ⟨hp, hpn, hno, heb⟩
      · -- buffer used up: next counter block, fast path, then the tail
        simp only at hp hn0 hno
        subst hp
        simp only [if_true]
        obtain ⟨q, hq⟩ : ∃ q, n = BS * q := ⟨n / BS, by bs_omega⟩
        subst hq
        have hdiv : BS * q / BS = q := by bs_omega
        rw [hdiv] at hno
        subst hno
        rw [incCounter_counterBlock]
        have hb := blocks_spec E k0 (b :: tl) q
        generalize hm : (b :: tl).length / BS = m at hb
        split
        · rename_i n2 e2 o2 heq
          rw [hb] at heq
          simp only [Prod.mk.injEq] at heq
          obtain ⟨rfl, rfl, hdrop, rfl⟩ := heq
          have hlen : (b :: tl).length = BS * m := by
            have := List.drop_eq_nil_iff.mp hdrop
            bs_omega
          refine ⟨{ nonce := counterBlock (k0 + q + m + 1), ebuf := E (counterBlock (k0 + q + m + 1)), pos := 0 }, ?_, ?_⟩
          · rw [List.take_of_length_le (by omega)]
          · right
            simp only
            rw [hlen]
            have h1 : (BS * q + BS * m) % BS = 0 := by bs_omega
            have h2 : (BS * q + BS * m) / BS = q + m := by bs_omega
            rw [h1, h2]
            exact ⟨by decide, rfl, by rw [Nat.add_assoc k0 q m], by trivial⟩
        · rename_i n2 e2 b2 tl2 o2 heq
          rw [hb] at heq
          simp only [Prod.mk.injEq] at heq
          obtain ⟨rfl, rfl, hdrop, rfl⟩ := heq
          have hsplit : b :: tl = (b :: tl).take (BS * m) ++ b2 :: tl2 := by
            rw [← hdrop, List.take_append_drop]
          have htake : ((b :: tl).take (BS * m)).length = BS * m := by
            simp only [List.length_take]
            have := List.length_drop (i := BS * m) (l := b :: tl)
            rw [hdrop] at this
            simp at this ⊢; omega
          have hlt : tl2.length < (b :: tl).length := by
            have := congrArg List.length hsplit
            simp at this ⊢; omega
          have hinv' : Inv E k0 (BS * q + BS * m + 1)
              { nonce := counterBlock (k0 + q + m + 1), ebuf := E (counterBlock (k0 + q + m + 1)), pos := 1 } := by
            right
            have h1 : (BS * q + BS * m + 1) % BS = 1 := by bs_omega
            have h2 : (BS * q + BS * m + 1) / BS = q + m := by bs_omega
            simp only [h1, h2]
            exact ⟨by decide, trivial, by rw [Nat.add_assoc k0 q m], trivial⟩
          obtain ⟨c', hc', hi'⟩ := ih _ hlt tl2 rfl _ _ _ _ hinv'
          refine ⟨c', ?_, ?_⟩
          · rw [hc']
            simp only [Res.cons, Res.prepend]
            congr 1
            conv => rhs; rw [hsplit]
            rw [xorStream_append, htake]
            simp only [xorStream]
            have hk : (E (counterBlock (k0 + q + m + 1)))[0] = ksByte E k0 (BS * q + BS * m) := by
              have := ksByte_block E k0 (q + m) 0 (by decide)
              rw [show BS * (q + m) + 0 = BS * q + BS * m by bs_omega] at this
              rw [this, Nat.add_assoc k0 q m]
            rw [hk]
          · have hl : (b :: tl).length = BS * m + 1 + tl2.length := by
              have := congrArg List.length hsplit
              rw [List.length_append, htake] at this
              simp at this ⊢; omega
            rw [hl]
            have : BS * q + (BS * m + 1 + tl2.length) = BS * q + BS * m + 1 + tl2.length := by omega
            rw [this]; exact hi'
      · -- bytes left in the buffer
        simp only at hp hpn hno heb
        have hne : ¬ pos = BS := by omega
        simp only [hne, if_false, hp, dite_true]
        have hk : ebuf[pos] = ksByte E k0 n := by
          have := ksByte_block E k0 (n / BS) pos hp
          have hn' : BS * (n / BS) + pos = n := by bs_omega
          rw [hn'] at this
          rw [this, heb, hno]
        have hinv' : Inv E k0 (n + 1) { nonce, ebuf, pos := pos + 1 } := by
          by_cases h16 : pos + 1 = BS
          · left
            refine ⟨h16, ?_, ?_⟩
            · bs_omega
            · simp only [hno]
              have : (n + 1) / BS = n / BS + 1 := by bs_omega
              rw [this, Nat.add_assoc]
          · right
            refine ⟨by bs_omega, ?_, ?_, heb⟩
            · bs_omega
            · simp only [hno]
              have : (n + 1) / BS = n / BS := by bs_omega
              rw [this]
        obtain ⟨c', hc', hi'⟩ := ih _ (by simp) tl rfl _ _ _ _ hinv'
        refine ⟨c', ?_, ?_⟩
        · rw [hc']; simp only [Res.cons, xorStream, hk]
        · have : n + (b :: tl).length = n + 1 + tl.length := by simp; omega
          rw [this]; exact hi'

theorem update_spec (E : Block → Block) (k0 n : Nat) (c : Ctx) (inp : List UInt8) (cap : Nat)
    (h : Inv E k0 n c) :
    ∃ c', update E c inp cap = .ok c' (xorStream (ksByte E k0) n (inp.take (min inp.length cap))) ∧
      Inv E k0 (n + min inp.length cap) c' := by
  obtain ⟨c', h1, h2⟩ := loop_spec E k0 (inp.take (min inp.length cap)) n c.nonce c.ebuf c.pos h
  refine ⟨c', h1, ?_⟩
  have : (inp.take (min inp.length cap)).length = min inp.length cap := by
    simp only [List.length_take]; omega
  rw [this] at h2; exact h2

theorem run_spec (E : Block → Block) (k0 : Nat) (chunks : List (List UInt8)) :
    ∀ n c, Inv E k0 n c →
      ∃ c' os, run E c chunks = some (c', os) ∧
        os.flatten = xorStream (ksByte E k0) n chunks.flatten ∧
        os.map List.length = chunks.map List.length ∧
        Inv E k0 (n + chunks.flatten.length) c' := by
  induction chunks with
  | nil => intro n c h; exact ⟨c, [], rfl, by simp [xorStream], rfl, by simpa using h⟩
  | cons ch r ih =>
    intro n c h
    obtain ⟨c1, h1, hi1⟩ := update_spec E k0 n c ch ch.length h
    simp only [Nat.min_self, List.take_length] at h1 hi1
    obtain ⟨c2, os, h2, hf, hl, hi2⟩ := ih _ _ hi1
    refine ⟨c2, xorStream (ksByte E k0) n ch :: os, by simp [run, h1, h2], ?_, ?_, ?_⟩
    · simp only [List.flatten_cons, hf, xorStream_append]
    · simp [hl, xorStream_length]
    · simp only [List.flatten_cons, List.length_append]
      rw [← Nat.add_assoc]; exact hi2

end LA.Ctr
