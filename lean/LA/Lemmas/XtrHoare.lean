/-
Helper lemmas for C04, part 8: programs over system calls.  `AllCalls P m`:
every call `m` can issue (whatever the earlier calls returned) satisfies `P`;
then any state assertion kept by the `P`-calls is kept by running `m`.
-/
import LA.Model.Extract
import LA.Lemmas.FSCalls
set_option linter.unusedSimpArgs false
set_option linter.unusedVariables false
namespace LA.Xtr
open LA.FS LA.PathClean

def AllCalls {α : Type} (P : Sys → Prop) : Prog α → Prop
  | .ret _ => True
  | .call s k => P s ∧ ∀ r, AllCalls P (k r)

@[simp] theorem allCalls_ret {α} (P : Sys → Prop) (a : α) : AllCalls P (Prog.ret a) = True := rfl
@[simp] theorem allCalls_pure {α} (P : Sys → Prop) (a : α) : AllCalls P (pure a : Prog α) = True := rfl

theorem allCalls_bind {α β} {P : Sys → Prop} {m : Prog α} {f : α → Prog β}
    (hm : AllCalls P m) (hf : ∀ a, AllCalls P (f a)) : AllCalls P (m.bind f) := by
  induction m with
  | ret a => exact hf a
  | call s k ih => exact ⟨hm.1, fun r => ih r (hm.2 r)⟩

theorem allCalls_bind' {α β} {P : Sys → Prop} {m : Prog α} {f : α → Prog β}
    (hm : AllCalls P m) (hf : ∀ a, AllCalls P (f a)) : AllCalls P (m >>= f) := allCalls_bind hm hf

theorem allCalls_sys {P : Sys → Prop} {s : Sys} (h : P s) : AllCalls P (sys s) := ⟨h, fun _ => trivial⟩

theorem allCalls_mono {α} {P Q : Sys → Prop} (h : ∀ s, P s → Q s) {m : Prog α} (hm : AllCalls P m) : AllCalls Q m := by
  induction m with
  | ret a => trivial
  | call s k ih => exact ⟨h s hm.1, fun r => ih r (hm.2 r)⟩

theorem run_bind {α β} (m : Prog α) (f : α → Prog β) (pr : Proc) :
    (m.bind f).run pr = (f (m.run pr).1).run (m.run pr).2 := by
  induction m generalizing pr with
  | ret a => rfl
  | call s k ih => simp only [Prog.bind, Prog.run]; exact ih _ _

theorem run_bind' {α β} (m : Prog α) (f : α → Prog β) (pr : Proc) :
    (m >>= f).run pr = (f (m.run pr).1).run (m.run pr).2 := run_bind m f pr

@[simp] theorem run_pure {α} (a : α) (pr : Proc) : (pure a : Prog α).run pr = (a, pr) := rfl

theorem run_sys (s : Sys) (pr : Proc) : (sys s).run pr = exec s pr := by
  simp [sys, Prog.run]

/-- An assertion kept by every `P`-call is kept by a program all of whose calls are `P`-calls. -/
theorem run_allCalls {α} {I : Proc → Prop} {P : Sys → Prop} (hP : ∀ s pr, P s → I pr → I (exec s pr).2)
    {m : Prog α} (hm : AllCalls P m) {pr : Proc} (hI : I pr) : I (m.run pr).2 := by
  induction m generalizing pr with
  | ret a => exact hI
  | call s k ih => simp only [Prog.run]; exact ih _ (hm.2 _) (hP s pr hm.1 hI)

end LA.Xtr
