/-
Helper lemmas for the property files: freshly opened seekable sources, the abstraction of a
state to the stream view, the abstract operations on a live stream, a seek callback that fails
at its next invocation.
-/
import LA.Lemmas.ReadAheadSeekRefine
set_option linter.unusedSimpArgs false
set_option linter.unusedVariables false
namespace LA.RA

/-- What a state must satisfy beyond `Inv` for seeks to make sense: if seeking is possible at
all, the `dataset[]` bookkeeping is sound, there is a seek callback, and the bytes not yet
consumed are the stream from `position` on. -/
def SeekReady (s : State) : Prop :=
  s.canSeek = true → CacheOk s ∧ s.hasSeeker = true ∧ (s.fatal = false → remaining s = (allBytes s).drop s.position)

/-- The abstraction of a state: for a seekable source the concatenation of its nodes; for a
sequential one what was consumed so far (of which nothing can be observed any more) followed
by what remains. -/
def absStream (s : State) : SSpec :=
  { all := if s.canSeek then allBytes s else List.replicate s.position 0 ++ remaining s,
    pos := s.position, term := s.term, fatal := s.fatal, canSeek := s.canSeek, lost := false }

theorem rel_absStream (s : State) (hi : Inv s) (hr : SeekReady s) : Rel s (absStream s) := by
  refine { fatal := rfl, term := rfl, canSeek := rfl, bufLt := hi.bufLt, seekable := ?_, pos := fun _ => rfl,
           sync := fun _ => ⟨hi, fun hf => ?_⟩ }
  · intro hcs
    obtain ⟨a, b, _⟩ := hr hcs
    exact ⟨a, b, by simp [absStream, hcs]⟩
  · by_cases hcs : s.canSeek = true
    · simp only [absStream, hcs, if_true]
      exact (hr hcs).2.2 hf
    · have : s.canSeek = false := by simpa using hcs
      simp only [absStream, this, Bool.false_eq_true, if_false]
      rw [List.drop_append]
      simp

theorem seekReady_of_noseek (s : State) (h : s.canSeek = false) : SeekReady s := by
  intro hc; rw [h] at hc; cases hc


/-- A freshly opened seekable source (`archive_read_open_filenames`, or callbacks with
`archive_read_set_seek_callback`): the data nodes with their contents, the function `blk` by
which the client cuts what it delivers into blocks (it may depend on the node, on the offset
and on how many seeks there were), the skip script, whether a skip callback exists at all.
Nothing is known about node sizes yet (`-1`); the first node begins at 0. -/
def seekable0 (nodes : List (List Nat)) (blk : Nat → Nat → Nat → Nat) (t : Term) (skips : List Int)
    (canSkip : Bool) : State :=
  { nodes := nodes
    blk := blk
    term := t
    skips := skips
    canSkip := canSkip
    canSeek := true
    hasSeeker := true
    begins := 0 :: List.replicate (nodes.length - 1) (-1)
    sizes := List.replicate nodes.length (-1) }

def openSeekable (nodes : List (List Nat)) (blk : Nat → Nat → Nat → Nat) (t : Term) (skips : List Int)
    (canSkip : Bool) : State :=
  place (seekable0 nodes blk t skips canSkip) 0 0 0

theorem cacheOk_open (nodes : List (List Nat)) (blk : Nat → Nat → Nat → Nat) (t : Term) (skips : List Int)
    (cs : Bool) (hne : nodes ≠ []) : CacheOk (openSeekable nodes blk t skips cs) := by
  have hl : 0 < nodes.length := List.length_pos_iff.mpr hne
  refine { ne := hl, lb := by simp [openSeekable, seekable0, place]; omega,
           lz := by simp [openSeekable, seekable0, place],
           b0 := by simp [openSeekable, seekable0, place], bt := ?_, zt := ?_ }
  · intro i b hb h0
    cases i with
    | zero =>
      simp [openSeekable, seekable0, place] at hb
      rw [← hb, prefixLen_zero]; rfl
    | succ n =>
      have hb' : (List.replicate (nodes.length - 1) (-1 : Int))[n]? = some b := by
        simpa [openSeekable, seekable0, place] using hb
      rw [List.getElem?_replicate] at hb'
      split at hb'
      · cases hb'; omega
      · cases hb'
  · intro i z hz h0
    have hz' : (List.replicate nodes.length (-1 : Int))[i]? = some z := by
      simpa [openSeekable, seekable0, place] using hz
    rw [List.getElem?_replicate] at hz'
    split at hz'
    · cases hz'; omega
    · cases hz'

theorem inv_open (nodes : List (List Nat)) (blk : Nat → Nat → Nat → Nat) (t : Term) (skips : List Int) (cs : Bool) :
    Inv (openSeekable nodes blk t skips cs) := by
  have hok := place_srcOk (seekable0 nodes blk t skips cs) 0 0 0
  exact { cbIn := by simp [openSeekable, seekable0, place], bufLt := by simp [openSeekable, seekable0, place],
          clientEq := by simp [openSeekable, seekable0, place],
          prov := ⟨[], [], by simp [openSeekable, seekable0, place]⟩,
          eofSrc := (by simp [openSeekable, seekable0, place]), srcOk := hok.1, laterOk := hok.2 }

theorem remaining_open (nodes : List (List Nat)) (blk : Nat → Nat → Nat → Nat) (t : Term) (skips : List Int)
    (cs : Bool) (hne : nodes ≠ []) : remaining (openSeekable nodes blk t skips cs) = nodes.flatten := by
  have h := place_tail (seekable0 nodes blk t skips cs) 0 0 0
  have hr : remaining (openSeekable nodes blk t skips cs) = tailBytes (openSeekable nodes blk t skips cs) := by
    simp [remaining, tailBytes, openSeekable, seekable0, place]
  rw [hr]
  unfold openSeekable
  rw [h]
  cases nodes with
  | nil => exact absurd rfl hne
  | cons a rest => simp [nodeAt, seekable0]

theorem seekReady_open (nodes : List (List Nat)) (blk : Nat → Nat → Nat → Nat) (t : Term) (skips : List Int)
    (cs : Bool) (hne : nodes ≠ []) : SeekReady (openSeekable nodes blk t skips cs) := by
  intro _
  refine ⟨cacheOk_open nodes blk t skips cs hne, rfl, fun _ => ?_⟩
  rw [remaining_open nodes blk t skips cs hne]
  show nodes.flatten = (nodes.flatten).drop 0
  simp

theorem absStream_open (nodes : List (List Nat)) (blk : Nat → Nat → Nat → Nat) (t : Term) (skips : List Int) (cs : Bool) :
    absStream (openSeekable nodes blk t skips cs) = ⟨nodes.flatten, 0, t, false, true, false⟩ := by
  simp [absStream, openSeekable, seekable0, place, allBytes]

/-- The abstract `ahead` on a stream that has not failed. -/
theorem sspecAhead_live (all : List Nat) (pos : Nat) (t : Term) (cs l : Bool) (min : Nat) :
    sspecAhead ⟨all, pos, t, false, cs, l⟩ min =
      if min ≤ (all.drop pos).length then (.ok ((all.drop pos).take min), ⟨all, pos, t, false, cs, l⟩)
      else match t with
        | .eof => (.short (all.drop pos).length, ⟨all, pos, t, false, cs, l⟩)
        | .err => (.fatal, ⟨all, pos, t, true, cs, l⟩) := by
  unfold sspecAhead specAhead SSpec.toSpec
  simp only [Bool.false_eq_true, if_false]
  split
  · rfl
  · cases t <;> rfl

/-- The abstract `consume` on a stream that has not failed. -/
theorem sspecConsume_live (all : List Nat) (pos : Nat) (t : Term) (cs l : Bool) (n : Int) :
    sspecConsume ⟨all, pos, t, false, cs, l⟩ n =
      if n < 0 then (-30, ⟨all, pos, t, false, cs, l⟩)
      else if n = 0 then (0, ⟨all, pos, t, false, cs, l⟩)
      else if n.toNat ≤ (all.drop pos).length then (n, ⟨all, pos + n.toNat, t, false, cs, l⟩)
      else match t with
        | .eof => (-30, ⟨all, pos + (all.drop pos).length, t, false, cs, l⟩)
        | .err => (-30, ⟨all, pos + (all.drop pos).length, t, true, cs, l⟩) := by
  unfold sspecConsume specConsume SSpec.toSpec
  simp only [Bool.false_eq_true, if_false]
  by_cases h1 : n < 0
  · simp [h1]
  · by_cases h2 : n = 0
    · simp [h2]
    · simp only [h1, h2, if_false]
      by_cases h3 : n.toNat ≤ (all.drop pos).length
      · simp only [h3, if_true]
        congr 2
        simp at h3 ⊢; omega
      · simp only [h3, if_false]
        cases t <;> simp

theorem clientSeek_head_fail (s : State) (w : Whence) (off : Int) (a : Int) (hs : s.hasSeeker = true)
    (hh : s.seeks.head? = some a) (ha : a < 0) : (clientSeek s w off).1 = a := by
  unfold clientSeek
  simp [hs, hh, ha]

theorem walkProbe_head_fail (stopAt : Option Int) (left c : Nat) (s : State) (a : Int) (hs : s.hasSeeker = true)
    (hh : s.seeks.head? = some a) (ha : a < 0) : ∃ s', walkProbe stopAt left c s = .fail a s' := by
  have hf := switchTo_filt s c
  have hq := (switchTo_cache s c).2.2
  have h1 := clientSeek_head_fail (switchTo s c) .end_ 0 a (by rw [hf.hasSeeker]; exact hs) (by rw [hq]; exact hh) ha
  cases left <;>
  · unfold walkProbe
    simp only []
    rw [if_pos (by rw [h1]; exact ha), h1]
    exact ⟨_, rfl⟩

end LA.RA
