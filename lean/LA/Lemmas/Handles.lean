/- Projections of the grouped trace (helper lemmas for `LA.Props.C13`). -/
import LA.Model.Handles
namespace LA.Handles
variable {H Sh σ ρ : Type} [DecidableEq H]

theorem filter_const_true {α : Type} (l : List α) : l.filter (fun _ => true) = l := by
  induction l with
  | nil => rfl
  | cons a l ih => simp

theorem filter_const_false {α : Type} (l : List α) : l.filter (fun _ => false) = [] := by
  induction l with
  | nil => rfl
  | cons a l ih => simp

theorem proj_oneAfterTheOther_left {a b : H} (hab : a ≠ b) (xs ys : List (Op Sh σ ρ)) :
    proj a (oneAfterTheOther a b xs ys) = xs := by
  have hba : ¬ b = a := fun x => hab x.symm
  simp [proj, oneAfterTheOther, List.filter_append, List.filter_map, Function.comp_def, hba, filter_const_true, filter_const_false]

theorem proj_oneAfterTheOther_right {a b : H} (hab : a ≠ b) (xs ys : List (Op Sh σ ρ)) :
    proj b (oneAfterTheOther a b xs ys) = ys := by
  simp [proj, oneAfterTheOther, List.filter_append, List.filter_map, Function.comp_def, hab, filter_const_true, filter_const_false]

end LA.Handles
