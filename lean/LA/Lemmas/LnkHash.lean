/-
Bucket layer of libarchive/archive_entry_link_resolver.c (property C17).

`LA.Model.Lnk` keeps the live `links_entry` records in a flat list and argues
that every bucket layout is "some order".  This file models the layer that
claim abstracts from — `buckets[]`, `number_buckets` (a power of two),
`bucket = hash & (number_buckets - 1)`, head insertion in `insert_entry`, and
`grow_hash` re-chaining every record into a table of twice the size — and
proves that it is a faithful container:

* `find_sound` / `find_complete` : the chain walk of `find_entry` returns
  exactly the records that are in the table, for every hash function;
* `grow_perm`  : `grow_hash` keeps every record exactly once (a permutation of
  the flat contents), for every table size and every number of records;
* `insert_perm`: `insert_entry` (with its growth test in front) adds exactly the
  new record;
* `wf_insert` / `wf_grow` : "every record sits in the bucket its hash selects
  under the *current* `number_buckets`" is an invariant — the statement whose
  failure makes a record unreachable (seeded changes C17-1 and C12-1).

The record type and the hash are parameters: nothing depends on `dev ^ ino`.
-/
namespace LA.LnkHash

variable {α : Type}

/-- `hash & (number_buckets - 1)`. -/
def idx (nb h : Nat) : Nat := h &&& (nb - 1)

theorem idx_eq_mod (k h : Nat) : idx (2 ^ k) h = h % 2 ^ k := by
  unfold idx; exact Nat.and_two_pow_sub_one_eq_mod h k

theorem idx_lt (k h : Nat) : idx (2 ^ k) h < 2 ^ k := by
  rw [idx_eq_mod]; exact Nat.mod_lt _ (Nat.two_pow_pos k)

/-- `buckets[i] = le` with `le->next = old head`. -/
def pushFront (bk : Nat → List α) (i : Nat) (x : α) : Nat → List α :=
  fun j => if j = i then x :: bk j else bk j

structure HT (α : Type) where
  nb : Nat                 -- number_buckets
  bk : Nat → List α        -- buckets[]
  n  : Nat                 -- number_entries

/-- `buckets[0] ++ … ++ buckets[n-1]`. -/
def flatUpTo (bk : Nat → List α) : Nat → List α
  | 0 => []
  | n + 1 => flatUpTo bk n ++ bk n

def HT.flat (t : HT α) : List α := flatUpTo t.bk t.nb

/-- The chain walk of `find_entry`: `le->hash == hash && <key test>`. -/
def HT.find (t : HT α) (hk : α → Nat) (p : α → Bool) (h : Nat) : Option α :=
  (t.bk (idx t.nb h)).find? (fun x => hk x == h && p x)

/-- Inner `while` of `grow_hash`: unchain from the old bucket, push on the new. -/
def rehash (hk : α → Nat) (ns : Nat) (acc : Nat → List α) : List α → (Nat → List α)
  | [] => acc
  | x :: xs => rehash hk ns (pushFront acc (idx ns (hk x)) x) xs

/-- `grow_hash` (the allocation-failure and size-overflow exits leave the table as it is). -/
def HT.grow (t : HT α) (hk : α → Nat) : HT α :=
  { nb := t.nb * 2
    bk := (List.range t.nb).foldl (fun acc i => rehash hk (t.nb * 2) acc (t.bk i)) (fun _ => [])
    n := t.n }

/-- `insert_entry`. -/
def HT.insert (t : HT α) (hk : α → Nat) (x : α) : HT α :=
  let t' := if t.n > t.nb * 2 then t.grow hk else t
  { t' with bk := pushFront t'.bk (idx t'.nb (hk x)) x, n := t'.n + 1 }

/-- Every record sits in the bucket its hash selects; nothing lives past `nb`. -/
structure WF (t : HT α) (hk : α → Nat) : Prop where
  pow : ∃ k, t.nb = 2 ^ k
  place : ∀ i, ∀ x ∈ t.bk i, idx t.nb (hk x) = i

/-! ### flat contents -/

theorem mem_flatUpTo (bk : Nat → List α) (n : Nat) (x : α) :
    x ∈ flatUpTo bk n ↔ ∃ i, i < n ∧ x ∈ bk i := by
  induction n with
  | zero => simp [flatUpTo]
  | succ n ih =>
    simp only [flatUpTo, List.mem_append, ih]
    constructor
    · rintro (⟨i, hi, hx⟩ | hx)
      · exact ⟨i, by omega, hx⟩
      · exact ⟨n, by omega, hx⟩
    · rintro ⟨i, hi, hx⟩
      by_cases h : i = n
      · subst h; exact Or.inr hx
      · exact Or.inl ⟨i, by omega, hx⟩

theorem flatUpTo_pushFront_ge (bk : Nat → List α) (i : Nat) (x : α) (n : Nat) (h : n ≤ i) :
    flatUpTo (pushFront bk i x) n = flatUpTo bk n := by
  induction n with
  | zero => rfl
  | succ n ih =>
    have hne : n ≠ i := by omega
    simp only [flatUpTo, ih (by omega), pushFront, hne, if_false]

theorem flatUpTo_pushFront_perm (bk : Nat → List α) (i : Nat) (x : α) (n : Nat) (h : i < n) :
    (flatUpTo (pushFront bk i x) n).Perm (x :: flatUpTo bk n) := by
  induction n with
  | zero => omega
  | succ n ih =>
    by_cases hin : i = n
    · subst hin
      simp only [flatUpTo, flatUpTo_pushFront_ge bk i x i (Nat.le_refl _), pushFront, if_true]
      exact List.perm_middle
    · have hne : n ≠ i := fun e => hin e.symm
      simp only [flatUpTo, pushFront, hne, if_false]
      have := ih (by omega)
      exact (this.append_right (bk n))

theorem rehash_perm (hk : α → Nat) (k : Nat) (xs : List α) (acc : Nat → List α) :
    (flatUpTo (rehash hk (2 ^ k) acc xs) (2 ^ k)).Perm (xs ++ flatUpTo acc (2 ^ k)) := by
  induction xs generalizing acc with
  | nil => exact List.Perm.refl _
  | cons x xs ih =>
    simp only [rehash]
    refine (ih _).trans ?_
    have h1 := flatUpTo_pushFront_perm acc (idx (2 ^ k) (hk x)) x (2 ^ k) (idx_lt k (hk x))
    refine (List.Perm.append_left xs h1).trans ?_
    simp

theorem growLoop_perm (hk : α → Nat) (k : Nat) (bk : Nat → List α) (m : Nat) :
    (flatUpTo ((List.range m).foldl (fun acc i => rehash hk (2 ^ k) acc (bk i)) (fun _ => []))
      (2 ^ k)).Perm (flatUpTo bk m) := by
  induction m with
  | zero =>
    simp only [List.range_zero, List.foldl_nil, flatUpTo]
    have : ∀ n, flatUpTo (fun _ => ([] : List α)) n = [] := by
      intro n; induction n with
      | zero => rfl
      | succ n ih => simp [flatUpTo, ih]
    rw [this]
  | succ m ih =>
    rw [List.range_succ, List.foldl_append]
    simp only [List.foldl_cons, List.foldl_nil, flatUpTo]
    refine (rehash_perm hk k (bk m) _).trans ?_
    exact List.perm_append_comm.trans (ih.append_right (bk m))

/-- `grow_hash` neither loses nor duplicates a record. -/
theorem grow_perm (t : HT α) (hk : α → Nat) (hw : WF t hk) : (t.grow hk).flat.Perm t.flat := by
  obtain ⟨k, hk2⟩ := hw.pow
  unfold HT.flat HT.grow
  simp only [hk2]
  have : 2 ^ k * 2 = 2 ^ (k + 1) := by rw [Nat.pow_succ]
  rw [this]
  exact growLoop_perm hk (k + 1) t.bk (2 ^ k)

/-! ### placement invariant -/

theorem rehash_place (hk : α → Nat) (ns : Nat) (xs : List α) (acc : Nat → List α)
    (ha : ∀ i, ∀ x ∈ acc i, idx ns (hk x) = i) :
    ∀ i, ∀ x ∈ rehash hk ns acc xs i, idx ns (hk x) = i := by
  induction xs generalizing acc with
  | nil => exact ha
  | cons y ys ih =>
    simp only [rehash]
    apply ih
    intro i x hx
    unfold pushFront at hx
    split at hx
    · rename_i hji
      rcases List.mem_cons.mp hx with rfl | hx
      · exact hji.symm
      · exact ha i x hx
    · exact ha i x hx

theorem wf_grow (t : HT α) (hk : α → Nat) (hw : WF t hk) : WF (t.grow hk) hk := by
  obtain ⟨k, hk2⟩ := hw.pow
  refine ⟨⟨k + 1, by simp [HT.grow, hk2, Nat.pow_succ]⟩, ?_⟩
  simp only [HT.grow]
  generalize t.nb * 2 = ns
  generalize t.nb = m
  induction m with
  | zero => intro i x hx; simp at hx
  | succ m ih =>
    rw [List.range_succ, List.foldl_append]
    simp only [List.foldl_cons, List.foldl_nil]
    exact rehash_place hk ns (t.bk m) _ ih

theorem wf_insert (t : HT α) (hk : α → Nat) (x : α) (hw : WF t hk) : WF (t.insert hk x) hk := by
  unfold HT.insert
  have hw' : WF (if t.n > t.nb * 2 then t.grow hk else t) hk := by
    split
    · exact wf_grow t hk hw
    · exact hw
  generalize (if t.n > t.nb * 2 then t.grow hk else t) = t' at hw'
  refine ⟨hw'.pow, ?_⟩
  intro i y hy
  simp only [pushFront] at hy
  split at hy
  · rename_i hji
    rcases List.mem_cons.mp hy with rfl | hy
    · exact hji.symm
    · exact hw'.place i y hy
  · exact hw'.place i y hy

/-- `insert_entry` adds exactly the new record, whether or not the table grows first. -/
theorem insert_perm (t : HT α) (hk : α → Nat) (x : α) (hw : WF t hk) :
    (t.insert hk x).flat.Perm (x :: t.flat) := by
  unfold HT.insert
  have hw' : WF (if t.n > t.nb * 2 then t.grow hk else t) hk := by
    split
    · exact wf_grow t hk hw
    · exact hw
  have hp : (if t.n > t.nb * 2 then t.grow hk else t).flat.Perm t.flat := by
    split
    · exact grow_perm t hk hw
    · exact List.Perm.refl _
  generalize (if t.n > t.nb * 2 then t.grow hk else t) = t' at hw' hp
  obtain ⟨k, hk2⟩ := hw'.pow
  unfold HT.flat at *
  simp only [hk2] at *
  exact (flatUpTo_pushFront_perm t'.bk _ x (2 ^ k) (idx_lt k (hk x))).trans (hp.cons x)

/-! ### the chain walk finds exactly what is in the table -/

theorem find_sound (t : HT α) (hk : α → Nat) (p : α → Bool) (h : Nat) (x : α) (hw : WF t hk)
    (hf : t.find hk p h = some x) : x ∈ t.flat ∧ hk x = h ∧ p x = true := by
  unfold HT.find at hf
  have hm := List.mem_of_find?_eq_some hf
  have hp := List.find?_some hf
  simp only [Bool.and_eq_true, beq_iff_eq] at hp
  obtain ⟨k, hk2⟩ := hw.pow
  refine ⟨?_, hp.1, hp.2⟩
  unfold HT.flat
  rw [mem_flatUpTo]
  exact ⟨idx t.nb h, by rw [hk2]; exact idx_lt k h, hm⟩

/-- A record that is in the table is reached by the walk for its own hash: the
walk does not come back empty-handed (no record is ever "lost in the wrong chain"). -/
theorem find_complete (t : HT α) (hk : α → Nat) (p : α → Bool) (x : α) (hw : WF t hk)
    (hx : x ∈ t.flat) (hp : p x = true) : (t.find hk p (hk x)).isSome = true := by
  unfold HT.flat at hx
  rw [mem_flatUpTo] at hx
  obtain ⟨i, _, hxi⟩ := hx
  have hi := hw.place i x hxi
  unfold HT.find
  rw [hi, List.find?_isSome]
  exact ⟨x, hxi, by simp [hp]⟩

/-- With keys unique among the records (`KeysNodup` of `Props/C17`), the walk returns that record. -/
theorem find_unique (t : HT α) (hk : α → Nat) (p : α → Bool) (x : α) (hw : WF t hk)
    (hx : x ∈ t.flat) (hp : p x = true)
    (hu : ∀ y ∈ t.flat, hk y = hk x → p y = true → y = x) : t.find hk p (hk x) = some x := by
  have hs := find_complete t hk p x hw hx hp
  obtain ⟨y, hy⟩ := Option.isSome_iff_exists.mp hs
  obtain ⟨hm, hh, hpy⟩ := find_sound t hk p (hk x) y hw hy
  rw [hy, hu y hm hh hpy]

/-- Any number of insertions (hence any number of growths) from the initial
table: the contents are exactly the inserted records, and every one is found. -/
def insertAll (t : HT α) (hk : α → Nat) : List α → HT α
  | [] => t
  | x :: xs => insertAll (t.insert hk x) hk xs

theorem insertAll_spec (t : HT α) (hk : α → Nat) (xs : List α) (hw : WF t hk) :
    WF (insertAll t hk xs) hk ∧ (insertAll t hk xs).flat.Perm (xs.reverse ++ t.flat) := by
  induction xs generalizing t with
  | nil => exact ⟨hw, by simp [insertAll]⟩
  | cons x xs ih =>
    obtain ⟨h1, h2⟩ := ih (t.insert hk x) (wf_insert t hk x hw)
    refine ⟨h1, h2.trans ?_⟩
    have := insert_perm t hk x hw
    simp only [List.reverse_cons, List.append_assoc, List.singleton_append]
    exact List.Perm.append_left _ this

/-! ### a record leaves its chain (`find_entry` at `links == 0`, `next_entry`)

The C unlinks `le` from the doubly linked chain of its bucket; on the list view of a chain that is `erase`.
(The pointer surgery itself — `previous`/`next` — is below this model; the `lnk` engine covers it.) -/

def eraseAt [BEq α] (bk : Nat → List α) (i : Nat) (x : α) : Nat → List α :=
  fun j => if j = i then (bk j).erase x else bk j

/-- Unlink `x` from bucket `i`. -/
def HT.remove [BEq α] (t : HT α) (i : Nat) (x : α) : HT α :=
  { t with bk := eraseAt t.bk i x, n := t.n - 1 }

theorem flatUpTo_eraseAt_ge [BEq α] (bk : Nat → List α) (i : Nat) (x : α) (n : Nat) (h : n ≤ i) :
    flatUpTo (eraseAt bk i x) n = flatUpTo bk n := by
  induction n with
  | zero => rfl
  | succ n ih =>
    have hne : n ≠ i := by omega
    simp only [flatUpTo, ih (by omega), eraseAt, hne, if_false]

theorem flatUpTo_eraseAt_perm [BEq α] [LawfulBEq α] (bk : Nat → List α) (i : Nat) (x : α) (n : Nat)
    (h : i < n) (hx : x ∈ bk i) : (x :: flatUpTo (eraseAt bk i x) n).Perm (flatUpTo bk n) := by
  induction n with
  | zero => omega
  | succ n ih =>
    by_cases hin : i = n
    · subst hin
      simp only [flatUpTo, flatUpTo_eraseAt_ge bk i x i (Nat.le_refl _), eraseAt, if_true]
      exact (List.perm_middle.symm).trans (List.Perm.append_left _ (List.perm_cons_erase hx).symm)
    · have hne : n ≠ i := fun e => hin e.symm
      simp only [flatUpTo, eraseAt, hne, if_false]
      have := ih (by omega)
      exact (this.append_right (bk n))

/-- Unlinking removes exactly that record: the rest of the table is untouched. -/
theorem remove_perm [BEq α] [LawfulBEq α] (t : HT α) (hk : α → Nat) (i : Nat) (x : α) (hw : WF t hk)
    (hx : x ∈ t.bk i) : (x :: (t.remove i x).flat).Perm t.flat := by
  obtain ⟨k, hk2⟩ := hw.pow
  have hi : i < t.nb := by
    have := hw.place i x hx
    rw [← this, hk2]; exact idx_lt k (hk x)
  exact flatUpTo_eraseAt_perm t.bk i x t.nb hi hx

theorem wf_remove [BEq α] [LawfulBEq α] (t : HT α) (hk : α → Nat) (i : Nat) (x : α) (hw : WF t hk) :
    WF (t.remove i x) hk := by
  refine ⟨hw.pow, ?_⟩
  intro j y hy
  simp only [HT.remove, eraseAt] at hy
  split at hy
  · exact hw.place j y (List.mem_of_mem_erase hy)
  · exact hw.place j y hy

/-- Every history of insertions and removals (removals of records that are present, from the bucket the walk
found them in): the placement invariant holds throughout, so every remaining record stays reachable. -/
inductive BOp (α : Type) | ins (x : α) | del (x : α)

def runB [BEq α] (t : HT α) (hk : α → Nat) : List (BOp α) → HT α
  | [] => t
  | .ins x :: ops => runB (t.insert hk x) hk ops
  | .del x :: ops => runB (t.remove (idx t.nb (hk x)) x) hk ops

theorem wf_runB [BEq α] [LawfulBEq α] (t : HT α) (hk : α → Nat) (ops : List (BOp α)) (hw : WF t hk) :
    WF (runB t hk ops) hk := by
  induction ops generalizing t with
  | nil => exact hw
  | cons op ops ih =>
    cases op with
    | ins x => exact ih _ (wf_insert t hk x hw)
    | del x => exact ih _ (wf_remove t hk _ x hw)

theorem runB_reachable [BEq α] [LawfulBEq α] (t : HT α) (hk : α → Nat) (p : α → Bool) (ops : List (BOp α))
    (hw : WF t hk) (x : α) (hx : x ∈ (runB t hk ops).flat) (hp : p x = true) :
    ((runB t hk ops).find hk p (hk x)).isSome = true :=
  find_complete _ hk p x (wf_runB t hk ops hw) hx hp

/-- The table `archive_entry_linkresolver_new` builds: 1024 empty chains. -/
def init1024 : HT α := { nb := 1024, bk := fun _ => [], n := 0 }

theorem wf_init1024 (hk : α → Nat) : WF (init1024 (α := α)) hk :=
  ⟨⟨10, rfl⟩, by intro i x hx; simp [init1024] at hx⟩

/-- No record is lost or duplicated by any insertion history, growths included. -/
theorem no_loss_no_dup (hk : α → Nat) (xs : List α) :
    (insertAll (init1024 (α := α)) hk xs).flat.Perm xs.reverse := by
  have := (insertAll_spec (init1024 (α := α)) hk xs (wf_init1024 hk)).2
  have hf : (init1024 (α := α)).flat = [] := by
    unfold HT.flat init1024
    simp only
    generalize (1024 : Nat) = n
    induction n with
    | zero => rfl
    | succ n ih => simp [flatUpTo, ih]
  simpa [hf] using this

/-- Non-vacuity: a table that has grown (nb = 4 from nb = 2, identity hash) still finds its records. -/
example : (insertAll ({ nb := 2, bk := fun _ => [], n := 0 } : HT Nat) id [0,1,2,3,4,5,6,7,8]).nb = 4 ∧
    (insertAll ({ nb := 2, bk := fun _ => [], n := 0 } : HT Nat) id [0,1,2,3,4,5,6,7,8]).find id
      (fun _ => true) 7 = some 7 := by decide

end LA.LnkHash
