/- Helper lemmas for `LA.Passphrase` (archive_read_add_passphrase.c and the retry loops). -/
import LA.Model.Passphrase
set_option linter.unusedSimpArgs false
namespace LA.Passphrase

/-- The C invariant that makes the linked-list operations sound:
`candidate` never exceeds the number of nodes. -/
def Inv (s : St) : Prop := s.candidate ≤ (s.list.length : Int)

/-- The list rotated left by `k`. -/
def rotl (l : List P) (k : Nat) : List P := l.drop k ++ l.take k

theorem rot1_length (l : List P) : (rot1 l).length = l.length := by
  cases l <;> simp [rot1]

theorem rot1_rotl (l : List P) (k : Nat) (h : k < l.length) : rot1 (rotl l k) = rotl l (k + 1) := by
  simp only [rotl]
  rw [List.drop_eq_getElem_cons h]
  simp only [List.cons_append, rot1, List.append_assoc]
  rw [List.take_succ_eq_append_getElem h]

theorem rotl_zero (l : List P) : rotl l 0 = l := by simp [rotl]
theorem rotl_length (l : List P) : rotl l l.length = l := by simp [rotl]
theorem rotl_len (l : List P) (k : Nat) : (rotl l k).length = l.length := by
  simp [rotl, List.length_take]; omega
theorem rotl_head (l : List P) (k : Nat) (h : k < l.length) : (rotl l k).head? = some l[k] := by
  simp only [rotl]
  rw [List.drop_eq_getElem_cons h]; rfl

/-! ### single steps -/

theorem askCallback_inv (s : St) (h : Inv s) (_h0 : 0 ≤ s.candidate) : Inv (askCallback s).1 := by
  unfold askCallback
  cases hc : s.cb with
  | none => simpa using h
  | some f =>
    simp only
    cases f s.calls with
    | none => simpa [Inv] using h
    | some pw => simp [Inv]; omega

theorem askCallback_cand (s : St) (h0 : s.candidate = 0) :
    (askCallback s).1.candidate = 0 ∨ (askCallback s).1.candidate = 1 := by
  unfold askCallback
  cases hc : s.cb with
  | none => left; simpa using h0
  | some f =>
    simp only
    cases f s.calls with
    | none => left; simpa using h0
    | some pw => right; simp

/-- First call after a reset on a non-empty list: the count is taken, the head is
the first candidate, nothing moves. -/
theorem next_first (s : St) (h : s.candidate < 0) (a : P) (t : List P) (hl : s.list = a :: t) :
    next s = .ret { s with candidate := (s.list.length : Int) } (some a) := by
  simp [next, h, hl]

theorem next_first_empty (s : St) (h : s.candidate < 0) (hl : s.list = []) :
    next s = .ret (askCallback { s with candidate := 0 }).1 (askCallback { s with candidate := 0 }).2 := by
  simp [next, h, hl]

/-- A miss with more candidates to go: the list is rotated by one and its new head is
the next candidate. -/
theorem next_rotate (s : St) (h : 1 < s.candidate) (hi : Inv s) :
    ∃ a, (rot1 s.list).head? = some a ∧
      next s = .ret { s with candidate := s.candidate - 1, list := rot1 s.list } (some a) := by
  have hlen : 2 ≤ s.list.length := by unfold Inv at hi; omega
  have hn : ¬ s.candidate < 0 := by omega
  have hr : rotate s.list = some (rot1 s.list) := by simp [rotate, hlen]
  have hne : (rot1 s.list) ≠ [] := by
    intro e; have := rot1_length s.list; rw [e] at this; simp at this; omega
  obtain ⟨a, r, har⟩ := List.exists_cons_of_ne_nil hne
  refine ⟨a, by rw [har]; rfl, ?_⟩
  simp only [next, hn, if_false, h, if_true, hr, har, List.head?_cons]

/-- The miss on the last candidate: the rotation is completed (the list is back in
the order it had at the reset) and the client is asked. -/
theorem next_last (s : St) (h : s.candidate = 1) (hi : Inv s) :
    next s = .ret (askCallback { s with candidate := 0, list := rot1 s.list }).1
                  (askCallback { s with candidate := 0, list := rot1 s.list }).2 := by
  have hlen : 1 ≤ s.list.length := by unfold Inv at hi; omega
  have hn : ¬ s.candidate < 0 := by omega
  have hn1 : ¬ s.candidate > 1 := by omega
  match hl : s.list with
  | [] => rw [hl] at hlen; simp at hlen
  | [a] => simp [next, hn, hn1, h, hl, rot1]
  | a :: b :: t => simp [next, hn, hn1, h, hl, rot1]

theorem next_zero (s : St) (h : s.candidate = 0) :
    next s = .ret (askCallback s).1 (askCallback s).2 := by
  simp [next, h]

/-- `next` never follows a dangling or NULL pointer, and keeps the invariant. -/
theorem next_inv (s : St) (hi : Inv s) : ∃ s' p, next s = .ret s' p ∧ Inv s' := by
  by_cases h1 : s.candidate < 0
  · cases hl : s.list with
    | nil =>
      refine ⟨_, _, next_first_empty s h1 hl, askCallback_inv _ ?_ (by simp)⟩
      simp [Inv, hl]
    | cons a t => exact ⟨_, _, next_first s h1 a t hl, by simp [Inv]⟩
  · by_cases h2 : 1 < s.candidate
    · obtain ⟨a, _, hn⟩ := next_rotate s h2 hi
      exact ⟨_, _, hn, by unfold Inv at *; simp [rot1_length]; omega⟩
    · by_cases h3 : s.candidate = 1
      · refine ⟨_, _, next_last s h3 hi, askCallback_inv _ ?_ (by simp)⟩
        unfold Inv at *; simp [rot1_length]
      · have h0 : s.candidate = 0 := by omega
        exact ⟨_, _, next_zero s h0, askCallback_inv _ hi (by omega)⟩

/-! ### sequences of calls -/

theorem nexts_add (s : St) (a b : Nat) :
    nexts s (a + b) =
      match nexts s a with
      | none => none
      | some (s', ps) =>
        match nexts s' b with
        | none => none
        | some (s'', qs) => some (s'', ps ++ qs) := by
  induction a generalizing s with
  | zero =>
    simp only [Nat.zero_add, nexts]
    cases nexts s b with
    | none => rfl
    | some r => simp
  | succ a ih =>
    rw [Nat.add_right_comm]
    simp only [nexts]
    cases next s with
    | broken => rfl
    | ret s' p =>
      simp only [ih]
      cases nexts s' a with
      | none => rfl
      | some r =>
        obtain ⟨s1, ps⟩ := r
        simp only
        cases nexts s1 b with
        | none => rfl
        | some r2 => simp

theorem nexts_one (s : St) : nexts s 1 = match next s with | .broken => none | .ret s' p => some (s', [p]) := by
  simp only [nexts]
  cases next s <;> rfl

/-- The list phase.  After a reset, with `l` the list at that moment, the first
`k+1 ≤ |l|` calls return `l[0] … l[k]`; the list is then `l` rotated by `k`, so
the candidate returned last is at its head. -/
theorem list_phase (l : List P) (k : Nat) (hk : k < l.length) (s : St)
    (hl : s.list = l) (hc : s.candidate < 0) :
    nexts s (k + 1) = some ({ s with list := rotl l k, candidate := (l.length : Int) - k },
                            (l.take (k + 1)).map some) := by
  induction k with
  | zero =>
    obtain ⟨a, t, rfl⟩ := List.exists_cons_of_ne_nil (List.ne_nil_of_length_pos hk)
    rw [nexts_one, next_first s hc a t hl]
    simp [hl, rotl_zero]
  | succ k ih =>
    have ih := ih (by omega)
    rw [nexts_add, ih]
    simp only
    rw [nexts_one]
    have hinv : Inv { s with list := rotl l k, candidate := (l.length : Int) - k } := by
      simp only [Inv, rotl_len]; omega
    obtain ⟨a, ha, hn⟩ := next_rotate _ (by simp; omega) hinv
    rw [hn]
    simp only at ha ⊢
    rw [rot1_rotl l k (by omega), rotl_head l (k + 1) hk] at ha
    obtain rfl := Option.some.inj ha
    rw [rot1_rotl l k (by omega)]
    have e : ((l.length : Int) - (k : Int) - 1) = (l.length : Int) - ((k + 1 : Nat) : Int) := by omega
    rw [e, List.take_succ_eq_append_getElem hk]
    simp only [List.map_append, List.map_cons, List.map_nil]

/-- A full miss: `|l| + 1` calls after the reset return every listed passphrase once,
in list order, and then whatever the client answers; the list is back in its
original order before the client is asked. -/
theorem full_miss (l : List P) (s : St) (hl : s.list = l) (hc : s.candidate < 0) :
    nexts s (l.length + 1) =
      some ((askCallback { s with list := l, candidate := 0 }).1,
            l.map some ++ [(askCallback { s with list := l, candidate := 0 }).2]) := by
  cases hlen : l.length with
  | zero =>
    have : l = [] := List.eq_nil_of_length_eq_zero hlen
    subst this
    rw [nexts_one, next_first_empty s hc hl]
    simp only [List.map_nil, List.nil_append, hl]
  | succ n =>
    rw [nexts_add, list_phase l n (by omega) s hl hc]
    simp only
    rw [nexts_one]
    have hinv : Inv { s with list := rotl l n, candidate := (l.length : Int) - n } := by
      simp only [Inv, rotl_len]; omega
    have h1 : ({ s with list := rotl l n, candidate := (l.length : Int) - n } : St).candidate = 1 := by
      simp; omega
    rw [next_last _ h1 hinv]
    simp only
    rw [rot1_rotl l n (by omega)]
    have : rotl l (n + 1) = l := by rw [← hlen]; exact rotl_length l
    rw [this]
    have : l.take (n + 1) = l := by rw [← hlen]; exact List.take_length
    rw [this]

/-- The callback phase: once the list is exhausted (candidate 0 or 1) every further
call asks the client exactly once; the results are the client's answers in order. -/
theorem callback_phase (f : Callback) (j : Nat) (s : St) (hi : Inv s)
    (hc : s.candidate = 0 ∨ s.candidate = 1) (hcb : s.cb = some f) :
    ∃ s', nexts s j = some (s', (List.range j).map (fun i => f (s.calls + i))) ∧
      s'.calls = s.calls + j ∧ s'.cb = some f ∧ Inv s' ∧
      (s'.candidate = 0 ∨ s'.candidate = 1) := by
  induction j generalizing s with
  | zero => exact ⟨s, rfl, rfl, hcb, hi, hc⟩
  | succ j ih =>
    -- one step from a state with candidate 0 or 1
    have step : ∃ s0, (s0.candidate = 0 ∧ s0.cb = some f ∧ s0.calls = s.calls ∧ Inv s0) ∧
        next s = .ret (askCallback s0).1 (askCallback s0).2 := by
      rcases hc with h0 | h1
      · exact ⟨s, ⟨h0, hcb, rfl, hi⟩, next_zero s h0⟩
      · refine ⟨{ s with candidate := 0, list := rot1 s.list }, ⟨rfl, hcb, rfl, ?_⟩, next_last s h1 hi⟩
        unfold Inv; simp
    obtain ⟨s0, ⟨h00, hcb0, hcalls0, hinv0⟩, hn⟩ := step
    have hans : (askCallback s0).2 = f s.calls ∧ (askCallback s0).1.calls = s.calls + 1 ∧
        (askCallback s0).1.cb = some f := by
      unfold askCallback
      simp only [hcb0, hcalls0]
      cases f s.calls <;> simp [hcb0, hcalls0]
    obtain ⟨s', hs', hcalls', hcb', hinv', hcand'⟩ :=
      ih (askCallback s0).1 (askCallback_inv s0 hinv0 (by omega)) (askCallback_cand s0 h00) hans.2.2
    refine ⟨s', ?_, ?_, hcb', hinv', hcand'⟩
    · rw [Nat.add_comm j 1, nexts_add, nexts_one, hn]
      simp only
      rw [hs', hans.1, hans.2.1]
      simp only [List.singleton_append]
      rw [Nat.add_comm 1 j, List.range_succ_eq_map]
      simp only [List.map_cons, List.map_map, Nat.add_zero]
      congr 3
      apply List.map_congr_left
      intro i _
      show f (s.calls + 1 + i) = f (s.calls + (i + 1))
      congr 1; omega
    · rw [hcalls', hans.2.1]; omega

theorem no_callback_phase (s : St) (hc : s.candidate = 0) (hcb : s.cb = none) (j : Nat) :
    nexts s j = some (s, List.replicate j none) := by
  induction j with
  | zero => rfl
  | succ j ih =>
    rw [Nat.add_comm j 1, nexts_add, nexts_one, next_zero s hc]
    have : askCallback s = (s, none) := by simp [askCallback, hcb]
    simp [this, ih, List.replicate_succ, Nat.add_comm 1 j]

/-- what the client answers to its `i`-th invocation from this state on (NULL when no
callback is registered) -/
def answer (s : St) (i : Nat) : Option P :=
  match s.cb with
  | none => none
  | some f => f (s.calls + i)

theorem add_inv (s : St) (p : Option P) (h : Inv s) : Inv (add s p).1 := by
  unfold add
  split <;> try exact h
  unfold Inv at *; simp <;> omega

theorem reset_inv (s : St) : Inv (reset s) := by
  unfold Inv reset; simp <;> omega

/-- After a reset: the `|l|` listed passphrases in order, then the client's answers. -/
theorem iteration (s : St) (j : Nat) :
    ∃ s', nexts (reset s) (s.list.length + j) =
      some (s', s.list.map some ++ (List.range j).map (answer s)) ∧ Inv s' := by
  have hc : (reset s).candidate < 0 := by simp [reset]
  have hl : (reset s).list = s.list := rfl
  cases j with
  | zero =>
    cases hn : s.list.length with
    | zero =>
      have : s.list = [] := List.eq_nil_of_length_eq_zero hn
      exact ⟨reset s, by simp [nexts, this], reset_inv s⟩
    | succ n =>
      refine ⟨{ reset s with list := rotl s.list n, candidate := (s.list.length : Int) - n }, ?_, ?_⟩
      · rw [Nat.add_zero, list_phase s.list n (by omega) (reset s) hl hc]
        have : s.list.take (n + 1) = s.list := by rw [← hn]; exact List.take_length
        simp [this]
      · simp only [Inv, rotl_len]; omega
  | succ j =>
    rw [show s.list.length + (j + 1) = (s.list.length + 1) + j by omega, nexts_add,
      full_miss s.list (reset s) hl hc]
    simp only
    cases hcb : s.cb with
    | none =>
      have ha : askCallback { reset s with list := s.list, candidate := 0 } =
          ({ reset s with list := s.list, candidate := 0 }, none) := by
        simp [askCallback, reset, hcb]
      rw [ha]
      simp only
      rw [no_callback_phase _ rfl (by simp [reset, hcb]) j]
      refine ⟨{ reset s with list := s.list, candidate := 0 }, ?_, by simp [Inv]⟩
      have : (List.range (j + 1)).map (answer s) = List.replicate (j + 1) none := by
        apply List.ext_getElem (by simp)
        intro i h1 h2
        simp [answer, hcb]
      rw [this]
      simp [List.replicate_succ]
    | some f =>
      let s0 : St := { reset s with list := s.list, candidate := 0 }
      have hinv0 : Inv s0 := by simp [s0, Inv]
      have hcb0 : s0.cb = some f := by simp [s0, reset, hcb]
      have hans : (askCallback s0).2 = f s.calls ∧ (askCallback s0).1.calls = s.calls + 1 ∧
          (askCallback s0).1.cb = some f := by
        unfold askCallback
        have hcalls0 : s0.calls = s.calls := rfl
        simp only [hcb0, hcalls0]
        cases f s.calls <;> simp [hcb0, hcalls0]
      obtain ⟨s', hs', _, _, hinv', _⟩ := callback_phase f j (askCallback s0).1
        (askCallback_inv s0 hinv0 (by simp [s0])) (askCallback_cand s0 rfl) hans.2.2
      refine ⟨s', ?_, hinv'⟩
      show (match nexts (askCallback s0).1 j with
        | none => none
        | some (s'', qs) => some (s'', (s.list.map some ++ [(askCallback s0).2]) ++ qs)) = _
      rw [hs', hans.1, hans.2.1]
      simp only [List.append_assoc, List.singleton_append]
      rw [List.range_succ_eq_map]
      simp only [List.map_cons, List.map_map]
      congr 4
      · simp [answer, hcb]
      · apply List.map_congr_left
        intro i _
        simp only [Function.comp, answer, hcb]
        congr 1; omega

/-! ### the retry loop -/

/-- Everything `next` can ever return from this state fails the test `m`. -/
def AllWrong (m : P → Bool) (s : St) : Prop :=
  (∀ p ∈ s.list, m p = false) ∧ (∀ f, s.cb = some f → ∀ i p, f i = some p → m p = false)

theorem askCallback_wrong (m : P → Bool) (s : St) (h : AllWrong m s) :
    AllWrong m (askCallback s).1 ∧ ∀ p, (askCallback s).2 = some p → m p = false := by
  unfold askCallback
  cases hc : s.cb with
  | none => exact ⟨by simpa [AllWrong, hc] using h, by simp⟩
  | some f =>
    simp only
    cases hf : f s.calls with
    | none => exact ⟨⟨h.1, by simpa [hc] using h.2⟩, by simp⟩
    | some pw =>
      have hw : m pw = false := h.2 f hc _ _ hf
      refine ⟨⟨?_, by simpa [hc] using h.2⟩, by simp [hw]⟩
      intro p hp
      simp at hp
      rcases hp with rfl | hp
      · exact hw
      · exact h.1 p hp

theorem rot1_mem (l : List P) (p : P) : p ∈ rot1 l ↔ p ∈ l := by
  cases l with
  | nil => simp [rot1]
  | cons a t => simp [rot1]; exact Or.comm

theorem next_wrong (m : P → Bool) (s : St) (hi : Inv s) (h : AllWrong m s) :
    ∃ s' p, next s = .ret s' p ∧ Inv s' ∧ AllWrong m s' ∧ ∀ q, p = some q → m q = false := by
  by_cases h1 : s.candidate < 0
  · cases hl : s.list with
    | nil =>
      have hw : AllWrong m { s with candidate := 0 } := h
      refine ⟨_, _, next_first_empty s h1 hl, askCallback_inv _ (by simp [Inv, hl]) (by simp),
        (askCallback_wrong m _ hw).1, (askCallback_wrong m _ hw).2⟩
    | cons a t =>
      refine ⟨_, _, next_first s h1 a t hl, by simp [Inv], h, ?_⟩
      intro q hq; obtain rfl := Option.some.inj hq
      exact h.1 _ (by simp [hl])
  · by_cases h2 : 1 < s.candidate
    · obtain ⟨a, ha, hn⟩ := next_rotate s h2 hi
      refine ⟨_, _, hn, by unfold Inv at *; simp [rot1_length]; omega, ?_, ?_⟩
      · exact ⟨fun p hp => h.1 p ((rot1_mem _ _).mp hp), h.2⟩
      · intro q hq; obtain rfl := Option.some.inj hq
        exact h.1 _ ((rot1_mem _ _).mp (List.mem_of_mem_head? ha))
    · by_cases h3 : s.candidate = 1
      · have hw : AllWrong m { s with candidate := 0, list := rot1 s.list } :=
          ⟨fun p hp => h.1 p ((rot1_mem _ _).mp hp), h.2⟩
        refine ⟨_, _, next_last s h3 hi, askCallback_inv _ ?_ (by simp),
          (askCallback_wrong m _ hw).1, (askCallback_wrong m _ hw).2⟩
        unfold Inv at *; simp [rot1_length]
      · have h0 : s.candidate = 0 := by omega
        exact ⟨_, _, next_zero s h0, askCallback_inv _ hi (by omega),
          (askCallback_wrong m _ h).1, (askCallback_wrong m _ h).2⟩

/-- No passphrase that can come up matches ⇒ the loop ends in ARCHIVE_FAILED. -/
theorem retryLoop_wrong (cap : Nat) (m : P → Bool) (s : St) (retry : Nat)
    (hi : Inv s) (h : AllWrong m s) :
    ∃ s' t w, retryLoop cap m s retry = .failed s' t w := by
  induction hn : cap + 1 - retry using Nat.strongRecOn generalizing s retry with
  | ind n ih =>
    obtain ⟨s', p, hnx, hi', hw', hp⟩ := next_wrong m s hi h
    rw [retryLoop, hnx]
    cases p with
    | none => exact ⟨_, _, _, rfl⟩
    | some q =>
      simp only [hp q rfl, Bool.false_eq_true, if_false]
      by_cases hr : retry > cap
      · simp only [hr, if_true]; exact ⟨_, _, _, rfl⟩
      · simp only [hr, if_false]
        exact ih (cap + 1 - (retry + 1)) (by omega) s' (retry + 1) hi' hw' rfl

/-- The number of `next` calls is bounded by the cap, whatever the callback does. -/
theorem retryLoop_tries (cap : Nat) (m : P → Bool) (s : St) (retry : Nat) (hr : retry ≤ cap + 1) :
    (retryLoop cap m s retry).tries ≤ cap + 2 := by
  induction hn : cap + 1 - retry using Nat.strongRecOn generalizing s retry with
  | ind n ih =>
    rw [retryLoop]
    cases next s with
    | broken => simp [Outcome.tries]
    | ret s' p =>
      cases p with
      | none => simp only [Outcome.tries]; omega
      | some q =>
        simp only
        split
        · simp only [Outcome.tries]; omega
        · split
          · simp only [Outcome.tries]; omega
          · exact ih (cap + 1 - (retry + 1)) (by omega) s' (retry + 1) (by omega) rfl

/-- If the `k+1` next calls return passphrases of which exactly the last one matches,
the loop stops there (provided the cap is not hit first). -/
theorem retryLoop_found (cap : Nat) (m : P → Bool) (k : Nat) (s s' : St) (retry : Nat)
    (ps : List P) (q : P)
    (hnx : nexts s (k + 1) = some (s', (ps ++ [q]).map some)) (hlen : ps.length = k)
    (hwrong : ∀ p ∈ ps, m p = false) (hq : m q = true) (hcap : retry + k ≤ cap + 1) :
    retryLoop cap m s retry = .found s' q (retry + k + 1) := by
  induction k generalizing s retry ps with
  | zero =>
    have : ps = [] := List.eq_nil_of_length_eq_zero hlen
    subst this
    rw [nexts_one] at hnx
    rw [retryLoop]
    cases hn : next s with
    | broken => rw [hn] at hnx; simp at hnx
    | ret s1 p =>
      rw [hn] at hnx
      simp at hnx
      obtain ⟨rfl, rfl⟩ := hnx
      simp [hq]
  | succ k ih =>
    obtain ⟨p0, ps', rfl⟩ : ∃ p0 ps', ps = p0 :: ps' := by
      cases ps with
      | nil => simp at hlen
      | cons a t => exact ⟨a, t, rfl⟩
    rw [Nat.add_comm k 1, Nat.add_assoc, nexts_add, nexts_one] at hnx
    rw [retryLoop]
    cases hn : next s with
    | broken => rw [hn] at hnx; simp at hnx
    | ret s1 p =>
      rw [hn] at hnx
      simp only at hnx
      cases hrest : nexts s1 (k + 1) with
      | none => rw [hrest] at hnx; simp at hnx
      | some r =>
        obtain ⟨s2, qs⟩ := r
        rw [hrest] at hnx
        simp only [Option.some.injEq, Prod.mk.injEq, List.cons_append, List.map_cons,
          List.singleton_append, List.cons.injEq] at hnx
        obtain ⟨rfl, rfl, rfl⟩ := hnx
        have hw0 : m p0 = false := hwrong p0 (by simp)
        have hnc : ¬ retry > cap := by omega
        simp only [hw0, Bool.false_eq_true, if_false, hnc]
        rw [ih s1 (retry + 1) ps' hrest (by simpa using hlen)
          (fun p hp => hwrong p (by simp [hp])) (by omega)]
        congr 1; omega

end LA.Passphrase
