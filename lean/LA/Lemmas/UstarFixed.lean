/- The read-back of a ustar header is a fixed point of write-then-read (C02). Core Lean only. -/
import LA.Lemmas.UstarSpec
import LA.Lemmas.Stream
namespace LA.Codec
open LA.NumFmt LA.Gen.TarLayout LA.Gen.CodecConsts

/-- The converse of `ustarFailed_false`. -/
theorem ustarFailed_of_components (e : Entry) (path : List Nat) (size : Int)
    (h1 : ustarSplit path ≠ .tooLong) (h2 : (tarLink e).length ≤ ustar_linkname_size)
    (h3 : e.uname.length ≤ ustar_uname_size) (h4 : e.gname.length ≤ ustar_gname_size)
    (h5 : ∀ f ∈ ustarNumFields e size, f.failed true = false) (h6 : (ustarType e none).isSome = true) :
    ustarFailed e path size none true = false := by
  unfold ustarFailed
  simp only [Bool.or_eq_false_iff, beq_eq_false_iff_ne, decide_eq_false_iff_not, Bool.and_eq_false_imp,
    decide_eq_true_eq, List.any_eq_false, Option.isNone_eq_false_iff]
  refine ⟨⟨⟨⟨⟨h1, by omega⟩, fun h => by omega⟩, fun h => by omega⟩, fun f hf => by simp [h5 f hf]⟩, h6⟩

/-- The numeric fields of an entry whose numbers are those of `e` (device numbers only where `e`
has them) fit whenever those of `e` do. -/
theorem numFields_transfer (e e2 : Entry) (size : Int)
    (hperm : e2.perm % 4096 = e.perm % 4096) (huid : e2.uid = e.uid) (hgid : e2.gid = e.gid) (hmt : e2.mtime = e.mtime)
    (hrdev : (e2.ftype = .blk ∨ e2.ftype = .chr) →
      (e.ftype = .blk ∨ e.ftype = .chr) ∧ e2.rdevmajor = e.rdevmajor ∧ e2.rdevminor = e.rdevminor)
    (h : ∀ f ∈ ustarNumFields e size, f.failed true = false) :
    ∀ f ∈ ustarNumFields e2 size, f.failed true = false := by
  have g : ∀ i (hi : i < (ustarNumFields e size).length), (ustarNumFields e size)[i].failed true = false :=
    fun i hi => h _ (List.getElem_mem hi)
  have hl : (ustarNumFields e size).length = 7 := rfl
  have g0 := g 0 (by omega)
  have g1 := g 1 (by omega)
  have g2 := g 2 (by omega)
  have g3 := g 3 (by omega)
  have g4 := g 4 (by omega)
  have g5 := g 5 (by omega)
  have g6 := g 6 (by omega)
  simp only [ustarNumFields, List.getElem_cons_zero, List.getElem_cons_succ, NumField.failed, Bool.true_and] at g0 g1 g2 g3 g4 g5 g6
  intro f hf
  simp only [ustarNumFields, List.mem_cons, List.mem_nil_iff, or_false] at hf
  rcases hf with rfl | rfl | rfl | rfl | rfl | rfl | rfl
  · simp only [NumField.failed, Bool.true_and, hperm]; exact g0
  · simp only [NumField.failed, Bool.true_and, huid]; exact g1
  · simp only [NumField.failed, Bool.true_and, hgid]; exact g2
  · simp only [NumField.failed, Bool.true_and]; exact g3
  · simp only [NumField.failed, Bool.true_and, hmt]; exact g4
  · simp only [NumField.failed]
    by_cases hd : e2.ftype = .blk ∨ e2.ftype = .chr
    · obtain ⟨hde, hM, _⟩ := hrdev hd
      simp only [hd, decide_true, Bool.true_and, hM]
      simpa [hde] using g5
    · simp [hd]
  · simp only [NumField.failed]
    by_cases hd : e2.ftype = .blk ∨ e2.ftype = .chr
    · obtain ⟨hde, _, hm⟩ := hrdev hd
      simp only [hd, decide_true, Bool.true_and, hm]
      simpa [hde] using g6
    · simp [hd]

/-- Everything the fixed-point theorem needs about the entry a client gets back (`rb.toEntry`), given
that it has the numbers, names and link of `e` and a type flag of its own equal to `t`. -/
theorem ustar_rewrite_same (e e2 : Entry) (path : List Nat) (size : Int) (t : Nat)
    (hpath : wfStr path) (hwf : wfEntry e)
    (hnf : ustarFailed e path size none true = false)
    (hnodbl : ∀ p, ustarSplit path = .split p → (path.take p).getLast? ≠ some slash)
    (hperm : e2.perm % 4096 = e.perm % 4096) (huid : e2.uid = e.uid) (hgid : e2.gid = e.gid) (hmt : e2.mtime = e.mtime)
    (hun : e2.uname = e.uname) (hgn : e2.gname = e.gname)
    (hlink : tarLink e2 = tarLink e ∨ tarLink e2 = [])
    (hrdev : (e2.ftype = .blk ∨ e2.ftype = .chr) →
      (e.ftype = .blk ∨ e.ftype = .chr) ∧ e2.rdevmajor = e.rdevmajor ∧ e2.rdevminor = e.rdevminor)
    (ht2 : ustarType e2 none = some t)
    (hspec : ustarSpecRB e2 path size t = ustarSpecRB e path size t) :
    ustarFailed e2 path size none true = false ∧
    ustarDecode (ustarHdr e2 path size) false = ustarSpecRB e path size t := by
  obtain ⟨h1, h2, h3, h4, h5, _⟩ := ustarFailed_false e path size hnf
  have hl2 : (tarLink e2).length ≤ ustar_linkname_size := by
    rcases hlink with h | h <;> rw [h]
    · exact h2
    · simp
  have hwl2 : wfStr (tarLink e2) := by
    rcases hlink with h | h <;> rw [h]
    · exact wfStr_tarLink e hwf
    · intro c hc; cases hc
  have hnf2 : ustarFailed e2 path size none true = false :=
    ustarFailed_of_components e2 path size h1 hl2 (by rw [hun]; exact h3) (by rw [hgn]; exact h4)
      (numFields_transfer e e2 size hperm huid hgid hmt hrdev h5) (by rw [ht2]; rfl)
  refine ⟨hnf2, ?_⟩
  rw [ustarDecode_ustarHdr e2 path size t hpath hwl2 (by rw [hun]; exact hwf.2.1) (by rw [hgn]; exact hwf.2.2.1) hnf2 ht2 hnodbl]
  exact hspec

/-- **Fixed point at the header level**: decode the header of an accepted entry, hand the result to the
writer unchanged (`RB.toEntry`), and the new header is accepted and decodes to the very same record. -/
theorem readback_fixed_point (e : Entry) (p0 : List Nat) (hp : e.path = some p0) (hOK : UstarEntryOK e)
    (hnf : ustarFailed e (dirSlash e.ftype p0) (ustarSize e) none true = false)
    (t : Nat) (ht : ustarType e none = some t) (rb : RB) (rem : Nat)
    (hs : ustarSpecRB e (dirSlash e.ftype p0) (ustarSize e) t = some (rb, rem)) :
    rb.toEntry.path = some (dirSlash e.ftype p0) ∧
    dirSlash rb.toEntry.ftype (dirSlash e.ftype p0) = dirSlash e.ftype p0 ∧
    ustarSize rb.toEntry = ustarSize e ∧
    ustarFailed rb.toEntry (dirSlash e.ftype p0) (ustarSize e) none true = false ∧
    ustarDecode (ustarHdr rb.toEntry (dirSlash e.ftype p0) (ustarSize e)) false = some (rb, rem) := by
  obtain ⟨hwf, hlinks, hnotrail, hnodbl⟩ := hOK
  have hpathwf := wfStr_dirSlash e.ftype p0 (hwf.1 p0 hp)
  have hnd := fun kk hk => hnodbl p0 kk hp hk
  have hs0 := hs
  unfold ustarSize at hs
  unfold ustarType at ht
  simp only [] at ht
  by_cases hh : e.hard ≠ []
  · -- hard link: no type, no size
    rw [if_pos hh] at ht
    have ht' := Option.some.inj ht
    subst ht'
    have hsy := hlinks hh
    unfold ustarSpecRB tarTypeSwitch at hs
    simp only [hh, true_or, if_true, ne_eq, not_true_eq_false, not_false_eq_true] at hs
    have h49 : ¬(49 = 51 ∨ 49 = 52) := by omega
    rw [if_neg h49] at hs
    unfold tarDirFix at hs
    have hreg : ¬((0 : Nat) = AE_IFREG ∧ (dirSlash e.ftype p0).getLast? = some slash) := by
      intro h; exact absurd h.1 (by decide)
    simp only [if_neg hreg, Option.some.injEq, Prod.mk.injEq] at hs
    obtain ⟨hrb, hrem⟩ := hs
    have hl : tarLink e = e.hard := by unfold tarLink; rw [if_pos hh]
    have key := ustar_rewrite_same e rb.toEntry (dirSlash e.ftype p0) (ustarSize e) 49 hpathwf hwf hnf hnd
      (by rw [← hrb]; simp [RB.toEntry]) (by rw [← hrb]; rfl) (by rw [← hrb]; rfl) (by rw [← hrb]; simp [RB.toEntry])
      (by rw [← hrb]; rfl) (by rw [← hrb]; rfl)
      (Or.inl (by rw [← hrb]; simp [RB.toEntry, tarLink, hl, hh]))
      (by rw [← hrb]; simp [RB.toEntry, AE_IFREG, AE_IFDIR, AE_IFLNK, AE_IFCHR, AE_IFBLK, AE_IFIFO, AE_IFSOCK])
      (by rw [← hrb]; simp [ustarType, RB.toEntry, hl, hh])
      (by rw [← hrb]; unfold ustarSpecRB; simp [RB.toEntry, tarLink, hl, hh, Nat.mod_mod])
    refine ⟨by rw [← hrb]; rfl, ?_, ?_, key.1, ?_⟩
    · rw [← hrb]; simp [RB.toEntry, dirSlash, AE_IFREG, AE_IFDIR, AE_IFLNK, AE_IFCHR, AE_IFBLK, AE_IFIFO, AE_IFSOCK]
    · rw [← hrb]; simp [ustarSize, RB.toEntry, hl, hh]
    · rw [key.2, hs0]
  · rw [if_neg hh] at ht
    have hh' : e.hard = [] := by simpa using hh
    have hl : tarLink e = e.sym := by unfold tarLink; rw [if_neg hh]
    cases hf : e.ftype <;> rw [hf] at ht <;> simp only [ustarTypeflag] at ht
    all_goals cases ht
    all_goals
      unfold ustarSpecRB tarTypeSwitch tarDirFix at hs
      simp [hf, hh', hl, AE_IFREG, AE_IFLNK, AE_IFCHR, AE_IFBLK, AE_IFDIR, AE_IFIFO] at hs
    · -- regular file
      have hds : dirSlash FType.reg p0 = p0 := by unfold dirSlash; simp
      rw [hds, if_neg (hnotrail p0 hp hf hh')] at hs
      simp only [Prod.mk.injEq] at hs
      obtain ⟨hrb, hrem⟩ := hs
      simp only [hf, hds] at hnf hpathwf hnd hs0 ⊢
      have key := ustar_rewrite_same e rb.toEntry p0 (ustarSize e) 48 hpathwf hwf hnf hnd
        (by rw [← hrb]; simp [RB.toEntry]) (by rw [← hrb]; rfl) (by rw [← hrb]; rfl) (by rw [← hrb]; simp [RB.toEntry])
        (by rw [← hrb]; rfl) (by rw [← hrb]; rfl)
        (Or.inr (by rw [← hrb]; simp [RB.toEntry, tarLink]))
        (by rw [← hrb]; simp [RB.toEntry, AE_IFREG, AE_IFDIR, AE_IFLNK, AE_IFCHR, AE_IFBLK, AE_IFIFO, AE_IFSOCK])
        (by rw [← hrb]; simp [ustarType, RB.toEntry, ustarTypeflag, AE_IFREG])
        (by rw [← hrb]; unfold ustarSpecRB tarTypeSwitch; simp [RB.toEntry, tarLink, hl, hh', Nat.mod_mod, AE_IFREG])
      refine ⟨by rw [← hrb]; rfl, ?_, ?_, key.1, ?_⟩
      · rw [← hrb]; simp [RB.toEntry, dirSlash, AE_IFREG, AE_IFDIR, AE_IFLNK, AE_IFCHR, AE_IFBLK, AE_IFIFO, AE_IFSOCK]
      · rw [← hrb]
        by_cases hsym : e.sym = [] <;> simp [ustarSize, RB.toEntry, hh', hf, hsym, AE_IFREG, Entry.sizeV]
      · rw [key.2, hs0]
    · -- directory
      obtain ⟨hrb, hrem⟩ := hs
      simp only [hf] at hnf hpathwf hnd hs0 ⊢
      have key := ustar_rewrite_same e rb.toEntry (dirSlash FType.dir p0) (ustarSize e) 53 hpathwf hwf hnf hnd
        (by rw [← hrb]; simp [RB.toEntry]) (by rw [← hrb]; rfl) (by rw [← hrb]; rfl) (by rw [← hrb]; simp [RB.toEntry])
        (by rw [← hrb]; rfl) (by rw [← hrb]; rfl)
        (Or.inr (by rw [← hrb]; simp [RB.toEntry, tarLink]))
        (by rw [← hrb]; simp [RB.toEntry, hf, AE_IFREG, AE_IFDIR, AE_IFLNK, AE_IFCHR, AE_IFBLK, AE_IFIFO, AE_IFSOCK])
        (by rw [← hrb]; simp [ustarType, RB.toEntry, ustarTypeflag, AE_IFREG, AE_IFDIR, AE_IFLNK, AE_IFCHR, AE_IFBLK, AE_IFIFO, AE_IFSOCK])
        (by rw [← hrb]; unfold ustarSpecRB tarTypeSwitch; simp [RB.toEntry, tarLink, hl, hh', hf, Nat.mod_mod, AE_IFREG, AE_IFDIR, AE_IFLNK, AE_IFCHR, AE_IFBLK, AE_IFIFO, AE_IFSOCK])
      refine ⟨by rw [← hrb]; rfl, ?_, ?_, key.1, ?_⟩
      · rw [← hrb]; simp [RB.toEntry, AE_IFREG, AE_IFDIR, AE_IFLNK, AE_IFCHR, AE_IFBLK, AE_IFIFO, AE_IFSOCK, dirSlash_idem]
      · rw [← hrb]; simp [ustarSize, RB.toEntry, hh', hf, AE_IFREG, AE_IFDIR, AE_IFLNK, AE_IFCHR, AE_IFBLK, AE_IFIFO, AE_IFSOCK]
      · rw [key.2, hs0]
    · -- symbolic link
      obtain ⟨hrb, hrem⟩ := hs
      simp only [hf] at hnf hpathwf hnd hs0 ⊢
      have key := ustar_rewrite_same e rb.toEntry (dirSlash FType.lnk p0) (ustarSize e) 50 hpathwf hwf hnf hnd
        (by rw [← hrb]; simp [RB.toEntry]) (by rw [← hrb]; rfl) (by rw [← hrb]; rfl) (by rw [← hrb]; simp [RB.toEntry])
        (by rw [← hrb]; rfl) (by rw [← hrb]; rfl)
        (Or.inl (by rw [← hrb]; simp [RB.toEntry, tarLink, hl, hh']))
        (by rw [← hrb]; simp [RB.toEntry, hf, AE_IFREG, AE_IFDIR, AE_IFLNK, AE_IFCHR, AE_IFBLK, AE_IFIFO, AE_IFSOCK])
        (by rw [← hrb]; simp [ustarType, RB.toEntry, ustarTypeflag, AE_IFREG, AE_IFDIR, AE_IFLNK, AE_IFCHR, AE_IFBLK, AE_IFIFO, AE_IFSOCK])
        (by rw [← hrb]; unfold ustarSpecRB tarTypeSwitch; simp [RB.toEntry, tarLink, hl, hh', hf, Nat.mod_mod, AE_IFREG, AE_IFDIR, AE_IFLNK, AE_IFCHR, AE_IFBLK, AE_IFIFO, AE_IFSOCK])
      refine ⟨by rw [← hrb]; rfl, ?_, ?_, key.1, ?_⟩
      · rw [← hrb]; simp [RB.toEntry, AE_IFREG, AE_IFDIR, AE_IFLNK, AE_IFCHR, AE_IFBLK, AE_IFIFO, AE_IFSOCK, dirSlash]
      · rw [← hrb]; simp [ustarSize, RB.toEntry, hh', hf, AE_IFREG, AE_IFDIR, AE_IFLNK, AE_IFCHR, AE_IFBLK, AE_IFIFO, AE_IFSOCK]
      · rw [key.2, hs0]
    · -- character device
      obtain ⟨hrb, hrem⟩ := hs
      simp only [hf] at hnf hpathwf hnd hs0 ⊢
      have key := ustar_rewrite_same e rb.toEntry (dirSlash FType.chr p0) (ustarSize e) 51 hpathwf hwf hnf hnd
        (by rw [← hrb]; simp [RB.toEntry]) (by rw [← hrb]; rfl) (by rw [← hrb]; rfl) (by rw [← hrb]; simp [RB.toEntry])
        (by rw [← hrb]; rfl) (by rw [← hrb]; rfl)
        (Or.inr (by rw [← hrb]; simp [RB.toEntry, tarLink]))
        (by rw [← hrb]; simp [RB.toEntry, hf, AE_IFREG, AE_IFDIR, AE_IFLNK, AE_IFCHR, AE_IFBLK, AE_IFIFO, AE_IFSOCK])
        (by rw [← hrb]; simp [ustarType, RB.toEntry, ustarTypeflag, AE_IFREG, AE_IFDIR, AE_IFLNK, AE_IFCHR, AE_IFBLK, AE_IFIFO, AE_IFSOCK])
        (by rw [← hrb]; unfold ustarSpecRB tarTypeSwitch; simp [RB.toEntry, tarLink, hl, hh', hf, Nat.mod_mod, AE_IFREG, AE_IFDIR, AE_IFLNK, AE_IFCHR, AE_IFBLK, AE_IFIFO, AE_IFSOCK])
      refine ⟨by rw [← hrb]; rfl, ?_, ?_, key.1, ?_⟩
      · rw [← hrb]; simp [RB.toEntry, AE_IFREG, AE_IFDIR, AE_IFLNK, AE_IFCHR, AE_IFBLK, AE_IFIFO, AE_IFSOCK, dirSlash]
      · rw [← hrb]; simp [ustarSize, RB.toEntry, hh', hf, AE_IFREG, AE_IFDIR, AE_IFLNK, AE_IFCHR, AE_IFBLK, AE_IFIFO, AE_IFSOCK]
      · rw [key.2, hs0]
    · -- block device
      obtain ⟨hrb, hrem⟩ := hs
      simp only [hf] at hnf hpathwf hnd hs0 ⊢
      have key := ustar_rewrite_same e rb.toEntry (dirSlash FType.blk p0) (ustarSize e) 52 hpathwf hwf hnf hnd
        (by rw [← hrb]; simp [RB.toEntry]) (by rw [← hrb]; rfl) (by rw [← hrb]; rfl) (by rw [← hrb]; simp [RB.toEntry])
        (by rw [← hrb]; rfl) (by rw [← hrb]; rfl)
        (Or.inr (by rw [← hrb]; simp [RB.toEntry, tarLink]))
        (by rw [← hrb]; simp [RB.toEntry, hf, AE_IFREG, AE_IFDIR, AE_IFLNK, AE_IFCHR, AE_IFBLK, AE_IFIFO, AE_IFSOCK])
        (by rw [← hrb]; simp [ustarType, RB.toEntry, ustarTypeflag, AE_IFREG, AE_IFDIR, AE_IFLNK, AE_IFCHR, AE_IFBLK, AE_IFIFO, AE_IFSOCK])
        (by rw [← hrb]; unfold ustarSpecRB tarTypeSwitch; simp [RB.toEntry, tarLink, hl, hh', hf, Nat.mod_mod, AE_IFREG, AE_IFDIR, AE_IFLNK, AE_IFCHR, AE_IFBLK, AE_IFIFO, AE_IFSOCK])
      refine ⟨by rw [← hrb]; rfl, ?_, ?_, key.1, ?_⟩
      · rw [← hrb]; simp [RB.toEntry, AE_IFREG, AE_IFDIR, AE_IFLNK, AE_IFCHR, AE_IFBLK, AE_IFIFO, AE_IFSOCK, dirSlash]
      · rw [← hrb]; simp [ustarSize, RB.toEntry, hh', hf, AE_IFREG, AE_IFDIR, AE_IFLNK, AE_IFCHR, AE_IFBLK, AE_IFIFO, AE_IFSOCK]
      · rw [key.2, hs0]
    · -- fifo
      obtain ⟨hrb, hrem⟩ := hs
      simp only [hf] at hnf hpathwf hnd hs0 ⊢
      have key := ustar_rewrite_same e rb.toEntry (dirSlash FType.fifo p0) (ustarSize e) 54 hpathwf hwf hnf hnd
        (by rw [← hrb]; simp [RB.toEntry]) (by rw [← hrb]; rfl) (by rw [← hrb]; rfl) (by rw [← hrb]; simp [RB.toEntry])
        (by rw [← hrb]; rfl) (by rw [← hrb]; rfl)
        (Or.inr (by rw [← hrb]; simp [RB.toEntry, tarLink]))
        (by rw [← hrb]; simp [RB.toEntry, hf, AE_IFREG, AE_IFDIR, AE_IFLNK, AE_IFCHR, AE_IFBLK, AE_IFIFO, AE_IFSOCK])
        (by rw [← hrb]; simp [ustarType, RB.toEntry, ustarTypeflag, AE_IFREG, AE_IFDIR, AE_IFLNK, AE_IFCHR, AE_IFBLK, AE_IFIFO, AE_IFSOCK])
        (by rw [← hrb]; unfold ustarSpecRB tarTypeSwitch; simp [RB.toEntry, tarLink, hl, hh', hf, Nat.mod_mod, AE_IFREG, AE_IFDIR, AE_IFLNK, AE_IFCHR, AE_IFBLK, AE_IFIFO, AE_IFSOCK])
      refine ⟨by rw [← hrb]; rfl, ?_, ?_, key.1, ?_⟩
      · rw [← hrb]; simp [RB.toEntry, AE_IFREG, AE_IFDIR, AE_IFLNK, AE_IFCHR, AE_IFBLK, AE_IFIFO, AE_IFSOCK, dirSlash]
      · rw [← hrb]; simp [ustarSize, RB.toEntry, hh', hf, AE_IFREG, AE_IFDIR, AE_IFLNK, AE_IFCHR, AE_IFBLK, AE_IFIFO, AE_IFSOCK]
      · rw [key.2, hs0]

end LA.Codec
