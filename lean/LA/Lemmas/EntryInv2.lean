/-
C14 helper lemmas, part 6: invariants of every history.
-/
import LA.Lemmas.EntryInv
namespace LA.Entry
open LA.Gen.EntryBits
set_option maxRecDepth 4000
set_option linter.unusedSimpArgs false

/-! ### truthful is-set flags -/

/-- A cleared is-set flag means the field still holds its initial value. -/
def Truthful (e : Entry) : Prop :=
  (∀ f : TimeField, e.has f.flag = false → timeSec f e = 0 ∧ timeNsec f e = 0) ∧
  (e.has fSIZE = false → e.aest_size = 0) ∧
  (e.has fDEV = false → e.aest_dev = 0 ∧ e.aest_dev_is_broken_down = false) ∧
  (e.has fINO = false → e.aest_ino = 0) ∧ (e.has fUID = false → e.aest_uid = 0) ∧ (e.has fGID = false → e.aest_gid = 0) ∧
  (e.has fFILETYPE = false → mIFMT &&& e.mode = 0) ∧ (e.has fPERM = false → ~~~mIFMT &&& e.mode = 0)

def truthGroups : List Group :=
  [.time .atime, .time .birthtime, .time .ctime, .time .mtime, .size, .dev, .ino, .uid, .gid, .filetype, .perm]

theorem truthful_of_views (e e' : Entry) (h : ∀ G, G ∈ truthGroups → view G e' = view G e) :
    Truthful e → Truthful e' := by
  have a1 := h (.time .atime) (by simp [truthGroups])
  have a2 := h (.time .birthtime) (by simp [truthGroups])
  have a3 := h (.time .ctime) (by simp [truthGroups])
  have a4 := h (.time .mtime) (by simp [truthGroups])
  have a5 := h .size (by simp [truthGroups])
  have a6 := h .dev (by simp [truthGroups])
  have a7 := h .ino (by simp [truthGroups])
  have a8 := h .uid (by simp [truthGroups])
  have a9 := h .gid (by simp [truthGroups])
  have a10 := h .filetype (by simp [truthGroups])
  have a11 := h .perm (by simp [truthGroups])
  simp only [view, View.mk.injEq, List.cons.injEq, and_true, true_and] at a1 a2 a3 a4 a5 a6 a7 a8 a9 a10 a11
  intro ⟨h1, h2, h3, h4, h5, h6, h7, h8⟩
  refine ⟨fun f => ?_, ?_, ?_, ?_, ?_, ?_, ?_, ?_⟩
  · have := h1 f; revert this
    cases f <;> simp only [a1, a2, a3, a4] <;> exact id
  · simpa only [a5] using h2
  · simpa only [a6] using h3
  · simpa only [a7] using h4
  · simpa only [a8] using h5
  · simpa only [a9] using h6
  · simpa only [a10] using h7
  · simpa only [a11] using h8

macro "truthful_tac" defs:Lean.Parser.Tactic.simpLemma,* : tactic => `(tactic| (
  intro h
  obtain ⟨h1, h2, h3, h4, h5, h6, h7, h8⟩ := h
  refine ⟨fun f => ?_, ?_, ?_, ?_, ?_, ?_, ?_, ?_⟩
  · have := h1 f; revert this
    cases f <;> simp (disch := decide) [Entry.has, TimeField.flag, timeSec, timeNsec, hasF_cond, hasF_or_assoc, hasF_or_self,
      hasF_andnot_self, hasF_or_disj, hasF_andnot_disj, $defs,*]
  all_goals (
    revert h2 h3 h4 h5 h6 h7 h8
    simp (disch := decide) [Entry.has, hasF_cond, hasF_or_assoc, hasF_or_self, hasF_andnot_self, hasF_or_disj, hasF_andnot_disj,
      bv_ft_ft, bv_ft_perm, bv_perm_perm, bv_perm_ft, $defs,*]
    try (intros; simp_all))))

theorem truthful_setTimeCore (f : TimeField) (e : Entry) (t : Int) (ns : Nat) : Truthful e → Truthful (setTimeCore f e t ns) := by
  cases f <;> truthful_tac setTimeCore, Entry.withTime
theorem truthful_unsetTimeCore (f : TimeField) (e : Entry) : Truthful e → Truthful (unsetTimeCore f e) := by
  cases f <;> truthful_tac unsetTimeCore, setTimeCore, Entry.withTime
theorem truthful_setSize (e : Entry) (s : Int) : Truthful e → Truthful (setSize e s) := by truthful_tac setSize
theorem truthful_unsetSize (e : Entry) : Truthful e → Truthful (unsetSize e) := by truthful_tac unsetSize, setSize
theorem truthful_setDev (e : Entry) (d : Nat) : Truthful e → Truthful (setDev e d) := by truthful_tac setDev
theorem truthful_setDevmajor (e : Entry) (d : Nat) : Truthful e → Truthful (setDevmajor e d) := by truthful_tac setDevmajor
theorem truthful_setDevminor (e : Entry) (d : Nat) : Truthful e → Truthful (setDevminor e d) := by truthful_tac setDevminor
theorem truthful_setRdev (e : Entry) (d : Nat) : Truthful e → Truthful (setRdev e d) := by truthful_tac setRdev
theorem truthful_setIno (e : Entry) (d : Int) : Truthful e → Truthful (setIno e d) := by truthful_tac setIno
theorem truthful_setNlink (e : Entry) (d : Nat) : Truthful e → Truthful (setNlink e d) := by truthful_tac setNlink
theorem truthful_setUid (e : Entry) (d : Int) : Truthful e → Truthful (setUid e d) := by truthful_tac setUid
theorem truthful_setGid (e : Entry) (d : Int) : Truthful e → Truthful (setGid e d) := by truthful_tac setGid
theorem truthful_setMode (e : Entry) (d : BitVec 32) : Truthful e → Truthful (setMode e d) := by truthful_tac setMode
theorem truthful_setPerm (e : Entry) (d : BitVec 32) : Truthful e → Truthful (setPerm e d) := by truthful_tac setPerm
theorem truthful_setFiletype (e : Entry) (d : BitVec 32) : Truthful e → Truthful (setFiletype e d) := by
  truthful_tac setFiletype

theorem truthful_copyStatCore (e : Entry) (st : StatRec) (a c m : Int × Int) :
    Truthful e → Truthful (copyStatCore e st a c m) := by
  intro h
  unfold copyStatCore
  exact truthful_setMode _ _ (truthful_setSize _ _ (truthful_setRdev _ _ (truthful_setNlink _ _ (truthful_setIno _ _
    (truthful_setUid _ _ (truthful_setGid _ _ (truthful_setDev _ _ (truthful_unsetTimeCore _ _ (truthful_setTimeCore _ _ _ _
    (truthful_setTimeCore _ _ _ _ (truthful_setTimeCore _ _ _ _ h)))))))))))

theorem truthful_new : Truthful new := by
  refine ⟨fun f => ?_, ?_, ?_, ?_, ?_, ?_, ?_, ?_⟩
  · cases f <;> simp [new, timeSec, timeNsec]
  all_goals simp [new]
theorem truthful_default : Truthful {} := by
  refine ⟨fun f => ?_, ?_, ?_, ?_, ?_, ?_, ?_, ?_⟩
  · cases f <;> simp [timeSec, timeNsec]
  all_goals simp

set_option hygiene false in
macro "untouched_groups" gs:term : tactic => `(tactic| (
  intro G hG
  refine step_untouched G _ e e' ?_ hs
  simp only [$gs:term, List.mem_cons, List.not_mem_nil, or_false] at hG
  rcases hG with rfl | rfl | rfl | rfl | rfl | rfl | rfl | rfl | rfl | rfl | rfl <;> rfl))

theorem truthful_step (e e' : Entry) (op : Op) (hs : step e op = some e') (h : Truthful e) : Truthful e' := by
  cases step_shape e e' op hs with
  | setTime f t ns p hp => exact truthful_setTimeCore f e _ _ h
  | copyStat st a c m _ _ _ => exact truthful_copyStatCore e st a c m h
  | total _ _ hn hc hs =>
    cases op <;> (try (exact absurd rfl (hn _ _ _))) <;> (try (exact absurd rfl (hc _)))
    case unsetTime x => simp only [step, unsetTime_eq, Option.some.injEq] at x; subst x; exact truthful_unsetTimeCore _ e h
    case clear x => simp only [step, clear, Option.some.injEq] at x; subst x; exact truthful_default
    case setSize x => simp only [step, Option.some.injEq] at x; subst x; exact truthful_setSize e _ h
    case unsetSize x => simp only [step, Option.some.injEq] at x; subst x; exact truthful_unsetSize e h
    case setDev x => simp only [step, Option.some.injEq] at x; subst x; exact truthful_setDev e _ h
    case setDevmajor x => simp only [step, Option.some.injEq] at x; subst x; exact truthful_setDevmajor e _ h
    case setDevminor x => simp only [step, Option.some.injEq] at x; subst x; exact truthful_setDevminor e _ h
    case setIno x => simp only [step, Option.some.injEq] at x; subst x; exact truthful_setIno e _ h
    case setUid x => simp only [step, Option.some.injEq] at x; subst x; exact truthful_setUid e _ h
    case setGid x => simp only [step, Option.some.injEq] at x; subst x; exact truthful_setGid e _ h
    case setMode x => simp only [step, Option.some.injEq] at x; subst x; exact truthful_setMode e _ h
    case setPerm x => simp only [step, Option.some.injEq] at x; subst x; exact truthful_setPerm e _ h
    case setFiletype x => simp only [step, Option.some.injEq] at x; subst x; exact truthful_setFiletype e _ h
    all_goals exact truthful_of_views e e' (by untouched_groups truthGroups) h

/-! ### hard-link and symlink flags are never both set -/

def Excl (e : Entry) : Prop := ¬(e.has fHARDLINK = true ∧ e.has fSYMLINK = true)

theorem excl_of_view (e e' : Entry) (h : view .link e' = view .link e) : Excl e → Excl e' := by
  simp only [view, View.mk.injEq, List.cons.injEq, and_true, true_and] at h
  unfold Excl; rw [h.1.1, h.1.2]; exact id

set_option hygiene false in
macro "excl_tac" defs:Lean.Parser.Tactic.simpLemma,* : tactic => `(tactic| (
  unfold Excl; simp only [Entry.has]
  rcases Bool.eq_false_or_eq_true (hasF e.ae_set fHARDLINK) with h1 | h1 <;>
    rcases Bool.eq_false_or_eq_true (hasF e.ae_set fSYMLINK) with h2 | h2 <;>
    simp (disch := decide) [Entry.has, h1, h2, hasF_cond, hasF_or_self, hasF_andnot_self, hasF_or_disj, hasF_andnot_disj, $defs,*]))

theorem excl_setHardlink (e : Entry) (v : Option Bytes) : Excl e → Excl (setHardlink e v) := by
  cases v <;> excl_tac setHardlink
theorem excl_copyHardlink (e : Entry) (v : Option Bytes) : Excl e → Excl (copyHardlink e v) := by
  cases v <;> excl_tac copyHardlink
theorem excl_setSymlink (e : Entry) (v : Option Bytes) : Excl e → Excl (setSymlink e v) := by
  cases v <;> excl_tac setSymlink
theorem excl_setLink (e : Entry) (v : Option Bytes) : Excl e → Excl (setLink e v) := by excl_tac setLink
theorem excl_setLinkToHardlink (e : Entry) : Excl e → Excl (setLinkToHardlink e) := by excl_tac setLinkToHardlink
theorem excl_setLinkToSymlink (e : Entry) : Excl e → Excl (setLinkToSymlink e) := by excl_tac setLinkToSymlink

theorem excl_step (e e' : Entry) (op : Op) (hs : step e op = some e') (h : Excl e) : Excl e' := by
  by_cases ht : touches op .link = true
  · cases op <;> simp [touches, statGroups] at ht <;> simp only [step, clear, Option.some.injEq] at hs <;> subst hs
    case setHardlink v => exact excl_setHardlink e v h
    case copyHardlink v => exact excl_copyHardlink e v h
    case setSymlink v => exact excl_setSymlink e v h
    case setLink v => exact excl_setLink e v h
    case setLinkToHardlink => exact excl_setLinkToHardlink e h
    case setLinkToSymlink => exact excl_setLinkToSymlink e h
    case clear => simp only [Excl, Entry.has]; rw [hasF_zero]; simp
  · exact excl_of_view e e' (step_untouched .link op e e' (by simpa using ht) hs) h

/-! ### the sparse list is sorted, merged and non-negative; cursors stay inside their lists -/

/-- blocks are non-negative, end inside the int64 range, and every block ends strictly
before the next one starts (adjacent blocks have been merged) -/
def SparseWF (l : List (Int × Int)) : Prop :=
  (∀ b ∈ l, 0 ≤ b.1 ∧ 0 ≤ b.2 ∧ b.1 + b.2 ≤ INT64_MAX) ∧ l.Pairwise (fun a b => a.1 + a.2 < b.1)

theorem sparseWF_append (l : List (Int × Int)) (a x : Int × Int) (h : SparseWF (l ++ [a]))
    (hx : 0 ≤ x.1 ∧ 0 ≤ x.2 ∧ x.1 + x.2 ≤ INT64_MAX) (hlt : a.1 + a.2 < x.1) : SparseWF (l ++ [a] ++ [x]) := by
  obtain ⟨h1, h2⟩ := h
  refine ⟨?_, ?_⟩
  · intro b hb
    rcases List.mem_append.mp hb with hb | hb
    · exact h1 b hb
    · simp only [List.mem_singleton] at hb; subst hb; exact hx
  · rw [List.pairwise_append]
    refine ⟨h2, by simp, ?_⟩
    intro b hb y hy
    simp only [List.mem_singleton] at hy; subst hy
    rcases List.mem_append.mp hb with hb' | hb'
    · have := (List.pairwise_append.mp h2).2.2 b hb' a (by simp)
      have ha := (h1 a (by simp)).2.1
      omega
    · simp only [List.mem_singleton] at hb'; subst hb'; exact hlt

theorem sparseWF_merge (l : List (Int × Int)) (so sl len : Int) (h : SparseWF (l ++ [(so, sl)]))
    (hl : 0 ≤ len) (hm : so + sl + len ≤ INT64_MAX) : SparseWF (l ++ [(so, sl + len)]) := by
  obtain ⟨h1, h2⟩ := h
  refine ⟨?_, ?_⟩
  · intro b hb
    rcases List.mem_append.mp hb with hb | hb
    · exact h1 b (List.mem_append.mpr (Or.inl hb))
    · simp only [List.mem_singleton] at hb; subst hb
      have := h1 (so, sl) (by simp)
      simp only at this ⊢; omega
  · rw [List.pairwise_append] at h2 ⊢
    refine ⟨h2.1, by simp, ?_⟩
    intro b hb y hy
    simp only [List.mem_singleton] at hy; subst hy
    exact h2.2.2 b hb (so, sl) (by simp)

theorem sparseWF_nil : SparseWF [] := ⟨by simp, by simp⟩

theorem sparseAddL_wf (sz : Int) (l : List (Int × Int)) (o len : Int) (h : SparseWF l) :
    SparseWF (sparseAddL sz l o len) := by
  unfold sparseAddL
  split; · exact h
  rename_i h0
  split; · exact h
  rename_i h1
  simp only [Bool.or_eq_true, decide_eq_true_eq, not_or, Int.not_lt] at h0 h1
  have hx : 0 ≤ (o, len).1 ∧ 0 ≤ (o, len).2 ∧ (o, len).1 + (o, len).2 ≤ INT64_MAX := by
    simp only [INT64_MAX] at h1 ⊢; omega
  split
  · rename_i so sl hlast
    obtain ⟨l', rfl⟩ : ∃ l', l = l' ++ [(so, sl)] := by
      have := List.getLast?_eq_some_iff.mp hlast
      exact this
    split; · exact h
    rename_i h2
    split
    · rename_i h3
      split; · exact h
      rename_i h4
      simp only [List.dropLast_concat]
      simp only [beq_iff_eq] at h3
      refine sparseWF_merge l' so sl len h h0.2 ?_
      simp only [INT64_MAX] at h1 ⊢; omega
    · rename_i h3
      simp only [beq_iff_eq] at h3
      exact sparseWF_append l' (so, sl) (o, len) h hx (by simp only; omega)
  · rename_i hnone
    have : l = [] := by simpa using hnone
    subst this
    refine ⟨?_, by simp⟩
    intro b hb; simp only [List.nil_append, List.mem_singleton] at hb; subst hb; exact hx

/-- list and cursor facts every history maintains -/
def ListsOK (e : Entry) : Prop :=
  SparseWF e.sparse ∧ (∀ k, e.sparse_p = some k → k < e.sparse.length) ∧ e.xattr_p ≤ e.xattrs.length

theorem listsOK_of_views (e e' : Entry) (h1 : view .sparse e' = view .sparse e) (h2 : view .xattr e' = view .xattr e) :
    ListsOK e → ListsOK e' := by
  simp only [view, View.mk.injEq, List.cons.injEq, and_true, true_and] at h1 h2
  unfold ListsOK; rw [h1.2.1, h1.2.2, h2.1, h2.2]; exact id

theorem sparseAddL_length (sz : Int) (l : List (Int × Int)) (o len : Int) : l.length ≤ (sparseAddL sz l o len).length := by
  unfold sparseAddL
  repeat' split
  all_goals simp
  rename_i so sl hlast _ _ _
  obtain ⟨l', rfl⟩ := List.getLast?_eq_some_iff.mp hlast
  simp

theorem listsOK_same (e e' : Entry) (h1 : e'.sparse = e.sparse) (h2 : e'.sparse_p = e.sparse_p)
    (h3 : e'.xattrs = e.xattrs) (h4 : e'.xattr_p = e.xattr_p) : ListsOK e → ListsOK e' := by
  unfold ListsOK; rw [h1, h2, h3, h4]; exact id

theorem listsOK_sparseAdd (e : Entry) (o l : Int) : ListsOK e → ListsOK (sparseAdd e o l) := by
  intro ⟨w, c, x⟩
  refine ⟨sparseAddL_wf _ _ _ _ w, ?_, x⟩
  intro k hk
  have := c k hk
  have := sparseAddL_length (size e) e.sparse o l
  simp only [sparseAdd]; omega
theorem listsOK_sparseClear (e : Entry) : ListsOK e → ListsOK (sparseClear e) := by
  intro ⟨_, _, x⟩; exact ⟨sparseWF_nil, by simp [sparseClear], x⟩
theorem listsOK_sparseCount (e : Entry) : ListsOK e → ListsOK (sparseCount e).1 := by
  intro h; rw [sparseCount_fst]
  cases sparseWhole (size e) e.sparse
  · exact h
  · exact listsOK_sparseClear e h
theorem listsOK_sparseReset (e : Entry) : ListsOK e → ListsOK (sparseReset e).1 := by
  intro ⟨w, _, x⟩
  refine listsOK_sparseCount _ ⟨w, ?_, x⟩
  intro k hk
  cases he : e.sparse with
  | nil => simp [he] at hk
  | cons a l => simp [he] at hk; subst hk; simp
theorem listsOK_sparseNext (e : Entry) : ListsOK e → ListsOK (sparseNext e).1 := by
  intro ⟨w, c, x⟩
  refine ⟨w, ?_, x⟩
  intro k hk
  simp only [sparseNext] at hk ⊢
  cases hp : e.sparse_p with
  | none => simp [hp, sparseNextP] at hk
  | some j =>
    simp only [hp, sparseNextP] at hk
    split at hk
    · cases hk; assumption
    · cases hk
theorem listsOK_xattrAdd (e : Entry) (n v : Bytes) : ListsOK e → ListsOK (xattrAdd e n v) := by
  intro ⟨w, c, x⟩; exact ⟨w, c, by simp only [xattrAdd, List.length_cons]; omega⟩
theorem listsOK_xattrClear (e : Entry) : ListsOK e → ListsOK (xattrClear e) := by
  intro ⟨w, c, _⟩; exact ⟨w, c, by simp [xattrClear]⟩
theorem listsOK_xattrReset (e : Entry) : ListsOK e → ListsOK (xattrReset e).1 := by
  intro ⟨w, c, _⟩; exact ⟨w, c, by simp [xattrReset]⟩
theorem listsOK_xattrNext (e : Entry) : ListsOK e → ListsOK (xattrNext e).1 := by
  intro ⟨w, c, x⟩; exact ⟨w, c, by simp only [xattrNext]; omega⟩

theorem listsOK_step (e e' : Entry) (op : Op) (hs : step e op = some e') (h : ListsOK e) : ListsOK e' := by
  by_cases ht : touches op .sparse = true ∨ touches op .xattr = true
  · cases step_shape e e' op hs with
    | setTime f t ns p hp => simp [touches] at ht
    | copyStat st a cc m _ _ _ => exact listsOK_same e _ rfl rfl rfl rfl h
    | total _ _ hn hc hs =>
      cases op <;> (try (exact absurd rfl (hn _ _ _))) <;> (try (exact absurd rfl (hc _))) <;>
        simp [touches, statGroups] at ht <;> simp only [step, clear, Option.some.injEq] at hs <;> subst hs
      case setSize s => exact listsOK_same e _ rfl rfl rfl rfl h
      case unsetSize => exact listsOK_same e _ rfl rfl rfl rfl h
      case sparseAdd o l => exact listsOK_sparseAdd e o l h
      case sparseClear => exact listsOK_sparseClear e h
      case sparseCount => exact listsOK_sparseCount e h
      case sparseReset => exact listsOK_sparseReset e h
      case sparseNext => exact listsOK_sparseNext e h
      case xattrAdd n v => exact listsOK_xattrAdd e n v h
      case xattrClear => exact listsOK_xattrClear e h
      case xattrReset => exact listsOK_xattrReset e h
      case xattrNext => exact listsOK_xattrNext e h
      case clear => exact ⟨sparseWF_nil, by simp, by simp⟩
  · have ht' : touches op .sparse = false ∧ touches op .xattr = false := by
      simpa [not_or] using ht
    exact listsOK_of_views e e' (step_untouched .sparse op e e' ht'.1 hs) (step_untouched .xattr op e e' ht'.2 hs) h

/-! ### the cached `struct stat` is never stale -/

def StatCoherent (e : Entry) : Prop := e.stat_valid = true → e.stat_cache = statOf e

theorem statAll_view_facts (e e' : Entry) (h : view .statAll e' = view .statAll e) :
    statOf e' = statOf e ∧ e'.stat_valid = e.stat_valid ∧ e'.stat_cache = e.stat_cache := by
  simp only [view, View.mk.injEq, List.cons.injEq, and_true, true_and] at h
  refine ⟨?_, h.1.2.2.2, h.2.2.2.2⟩
  simp only [statOf, timeSec, timeNsec, dev, gid, uid, ino, nlink, rdev, rdevIsSet, size, mode, h]
  rfl

theorem statCoherent_of_view (e e' : Entry) (h : view .statAll e' = view .statAll e) : StatCoherent e → StatCoherent e' := by
  obtain ⟨h1, h2, h3⟩ := statAll_view_facts e e' h
  unfold StatCoherent; rw [h1, h2, h3]; exact id

theorem statCoherent_invalid (e : Entry) (h : e.stat_valid = false) : StatCoherent e := by
  intro hv; rw [h] at hv; cases hv

theorem statCoherent_stat (e : Entry) : StatCoherent e → StatCoherent (stat e).1 := by
  intro hc _
  show (bif e.stat_valid then e.stat_cache else statOf e) = statOf (stat e).1
  have : statOf (stat e).1 = statOf e := rfl
  rw [this]
  cases hv : e.stat_valid
  · rfl
  · exact hc hv

theorem statCoherent_step (e e' : Entry) (op : Op) (hs : step e op = some e') (h : StatCoherent e) : StatCoherent e' := by
  by_cases ht : touches op .statAll = true
  · cases step_shape e e' op hs with
    | setTime f t ns p hp => exact statCoherent_invalid _ (by cases f <;> rfl)
    | copyStat st a cc m _ _ _ => exact statCoherent_invalid _ rfl
    | total _ _ hn hc hs =>
      cases op <;> (try (exact absurd rfl (hn _ _ _))) <;> (try (exact absurd rfl (hc _))) <;>
        simp [touches, statGroups] at ht <;> simp only [step, unsetTime_eq, clear, Option.some.injEq] at hs <;> subst hs
      case stat => exact statCoherent_stat e h
      case unsetTime f => exact statCoherent_invalid _ (by cases f <;> rfl)
      all_goals exact statCoherent_invalid _ rfl
  · exact statCoherent_of_view e e' (step_untouched .statAll op e e' (by simpa using ht) hs) h

/-! ### small arithmetic fact; iterating the two lists -/

theorem u64ToI64_of_small (n : Int) (h0 : 0 ≤ n) (h1 : n ≤ 9223372036854775807) : u64ToI64 n.toNat = n := by
  unfold u64ToI64 two64
  have : (n.toNat : Int) = n := Int.toNat_of_nonneg h0
  have h2 : n.toNat % 18446744073709551616 = n.toNat := Nat.mod_eq_of_lt (by omega)
  rw [h2]
  split <;> omega

/-- calling `next` `n` times, collecting what it hands out -/
def xattrDrain : Nat → Entry → List (Bytes × Bytes)
  | 0, _ => []
  | n + 1, e => match (xattrNext e).2 with
    | none => []
    | some x => x :: xattrDrain n (xattrNext e).1

theorem xattrDrain_spec (n : Nat) (e : Entry) (hp : e.xattr_p ≤ e.xattrs.length) (hn : e.xattr_p ≤ n) :
    xattrDrain n e = e.xattrs.drop (e.xattrs.length - e.xattr_p) := by
  induction n generalizing e with
  | zero =>
    have : e.xattr_p = 0 := by omega
    simp [xattrDrain, this]
  | succ n ih =>
    simp only [xattrDrain, xattrNext]
    by_cases h0 : e.xattr_p = 0
    · simp [h0]
    · have hlt : e.xattrs.length - e.xattr_p < e.xattrs.length := by omega
      have hb : (e.xattr_p == 0) = false := by simp [h0]
      simp only [hb, cond_false, List.getElem?_eq_getElem hlt]
      rw [ih _ (by simp only; omega) (by simp only; omega)]
      simp only
      have : e.xattrs.length - (e.xattr_p - 1) = (e.xattrs.length - e.xattr_p) + 1 := by omega
      rw [this]
      exact (List.drop_eq_getElem_cons hlt).symm


/-- calling `sparse_next` `n` times, collecting what it hands out -/
def sparseDrain : Nat → Entry → List (Int × Int)
  | 0, _ => []
  | n + 1, e => match (sparseNext e).2 with
    | none => []
    | some x => x :: sparseDrain n (sparseNext e).1

theorem sparseDrain_none (n : Nat) (e : Entry) (h : e.sparse_p = none) : sparseDrain n e = [] := by
  cases n with
  | zero => rfl
  | succ n => simp [sparseDrain, sparseNext, sparseNextV, h]

theorem sparseDrain_spec (n : Nat) (e : Entry) (k : Nat) (hp : e.sparse_p = some k) (hk : k < e.sparse.length)
    (hn : e.sparse.length - k ≤ n) : sparseDrain n e = e.sparse.drop k := by
  induction n generalizing e k with
  | zero => omega
  | succ n ih =>
    simp only [sparseDrain, sparseNext, sparseNextV, hp, List.getElem?_eq_getElem hk]
    rw [List.drop_eq_getElem_cons hk]
    congr 1
    by_cases hlast : k + 1 < e.sparse.length
    · exact ih _ (k + 1) (by simp [sparseNextP, hp, hlast]) (by simpa using hlast) (by simp only; omega)
    · rw [sparseDrain_none _ _ (by simp [sparseNextP, hp, hlast])]
      have : e.sparse.length ≤ k + 1 := by omega
      simp [List.drop_eq_nil_of_le this]

theorem sparse_iteration_aux (e : Entry) :
    sparseDrain e.sparse.length (sparseReset e).1 = (sparseCount e).1.sparse := by
  simp only [sparseReset, sparseCount_fst, size]
  cases hw : sparseWhole (u64ToI64 e.aest_size) e.sparse
  · simp only [cond_false]
    cases hs : e.sparse with
    | nil => exact sparseDrain_none _ _ (by simp [hs])
    | cons a l =>
      have := sparseDrain_spec (a :: l).length { e with sparse_p := bif e.sparse.isEmpty then none else some 0 } 0
        (by simp [hs]) (by simp [hs]) (by simp [hs])
      simp only [hs] at this
      simpa [hs] using this
  · simp only [cond_true]
    exact sparseDrain_none _ _ rfl

end LA.Entry
