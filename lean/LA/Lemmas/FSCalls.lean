/-
Helper lemmas for C04, part 7: `Sem` is kept by every system call the writer
issues on a path of the family of the checked entry path.
-/
import LA.Lemmas.FSExec
set_option linter.unusedSimpArgs false
set_option linter.unusedVariables false
namespace LA.FS
open LA.PathClean (SLASH DOT splitSlash)

def HandleIn (c : Ctx) : Handle → Prop
  | .dir pos => c.T <+: pos
  | .file i => c.inS i

theorem sem_setFile {c : Ctx} {q : List Nat} {pr : Proc} (hS : Sem c q pr) (i : Nat) (node : FNode)
    (hi : c.inS i) (hk : node.kind ≠ .lnk) : Sem c q { pr with fs := setFile pr.fs i node } := by
  have := sem_setFiles hS (fun j => if j = i then some node else pr.fs.files j) pr.fs.next (Nat.le_refl _)
    (fun j hj => by
      have : j ≠ i := by rintro rfl; exact hj hi
      simp [this])
    (fun j _ hl => by
      by_cases hji : j = i
      · subst hji
        simp only [isLnk, if_true] at hl
        cases node <;> simp [FNode.kind] at hk hl
      · simpa [isLnk, hji] using hl)
  exact this

theorem sem_chmodH {c : Ctx} {q : List Nat} {pr : Proc} (hS : Sem c q pr) {h : Handle} (hh : HandleIn c h)
    {m : Nat} {fs' : FS} (he : chmodH pr.fs h m = .ok fs') : Sem c q { pr with fs := fs' } := by
  cases h with
  | dir pos =>
    obtain ⟨r, rfl⟩ := hh
    simp only [chmodH, Except.ok.injEq] at he
    subst he
    exact sem_setDirMeta hS r _
  | file i =>
    simp only [chmodH] at he
    split at he
    · simp only [Except.ok.injEq] at he; subst he; exact sem_setFile hS i _ hh (by simp [FNode.kind])
    · simp only [Except.ok.injEq] at he; subst he; exact sem_setFile hS i _ hh (by simp [FNode.kind])
    · simp at he
    · simp at he

theorem sem_setFile_lnk {c : Ctx} {q : List Nat} {pr : Proc} (hS : Sem c q pr) (i : Nat) (tg : List Nat)
    (hi : c.inS i) (hold : pr.fs.files i = some (.lnk tg)) : Sem c q { pr with fs := setFile pr.fs i (.lnk tg) } := by
  have : setFile pr.fs i (.lnk tg) = pr.fs := by
    cases hfs : pr.fs with
    | mk root files next =>
      simp only [setFile, FS.mk.injEq, true_and, and_true]
      funext j
      by_cases hj : j = i
      · subst hj; rw [hfs] at hold; simp only [] at hold; simp [hold]
      · simp [hj]
  rw [this]
  exact hS

theorem sem_utimensH {c : Ctx} {q : List Nat} {pr : Proc} (hS : Sem c q pr) {h : Handle} (hh : HandleIn c h)
    {t : Int} {fs' : FS} (he : utimensH pr.fs h t = .ok fs') : Sem c q { pr with fs := fs' } := by
  cases h with
  | dir pos =>
    obtain ⟨r, rfl⟩ := hh
    simp only [utimensH, Except.ok.injEq] at he
    subst he
    exact sem_setDirMeta hS r _
  | file i =>
    simp only [utimensH] at he
    split at he
    · simp only [Except.ok.injEq] at he; subst he; exact sem_setFile hS i _ hh (by simp [FNode.kind])
    · simp only [Except.ok.injEq] at he; subst he; exact sem_setFile hS i _ hh (by simp [FNode.kind])
    · rename_i tg hf
      simp only [Except.ok.injEq] at he; subst he
      exact sem_setFile_lnk hS i tg hh hf
    · simp at he

/-- The object a family path names (without following its last component) is inside. -/
theorem lookupNoFollow_fam {c : Ctx} {q p : List Nat} {pr : Proc} (hS : Sem c q pr) (hF : Fam q p)
    {pos : List Name} {t : Tree} (h : lookupNoFollow pr.fs pr.cwd p = .ok (pos, t)) :
    HandleIn c (handleOf pos t) ∧ c.T <+: pos ∧ get pr.fs.root pos = some t := by
  obtain ⟨tT, hT, hTd⟩ := hS.inv.tdir
  unfold lookupNoFollow at h
  split at h
  · simp at h
  · rename_i pos' hl
    rcases locate_fam hS hF hl with ⟨_, hloc⟩ | ⟨r, n, hloc, _, _⟩
    · simp only [Loc.obj.injEq] at hloc; subst hloc
      split at h
      · rename_i t' ht'
        simp only [Except.ok.injEq, Prod.mk.injEq] at h
        obtain ⟨rfl, rfl⟩ := h
        rw [hT] at ht'; simp only [Option.some.injEq] at ht'; subst ht'
        refine ⟨?_, List.prefix_refl _, hT⟩
        cases tT with
        | dir => exact List.prefix_refl _
        | file i => simp [Tree.isDir] at hTd
      · simp at h
    · simp at hloc
  · rename_i d n hl
    rcases locate_fam hS hF hl with ⟨_, hloc⟩ | ⟨r, n', hloc, _, _⟩
    · simp at hloc
    · simp only [Loc.entry.injEq] at hloc
      obtain ⟨rfl, rfl⟩ := hloc
      split at h
      · rename_i t' ht'
        simp only [Except.ok.injEq, Prod.mk.injEq] at h
        obtain ⟨rfl, rfl⟩ := h
        have hg : get pr.fs.root (c.T ++ r ++ [n]) = some t' := by rw [get_snoc]; exact ht'
        have hp : c.T <+: c.T ++ r ++ [n] := by rw [List.append_assoc]; exact List.prefix_append _ _
        refine ⟨?_, hp, hg⟩
        cases t' with
        | dir => exact hp
        | file i =>
          apply hS.inv.refs tT hT (r ++ [n]) i
          rw [List.append_assoc, get_append, hT] at hg
          exact hg
      · simp at h


/-! ### descriptor slots -/

theorem sem_setFd {c : Ctx} {q : List Nat} {pr : Proc} (hS : Sem c q pr) (o : Option Nat)
    (ho : ∀ i, o = some i → c.inS i) : Sem c q { pr with fd := o } :=
  ⟨⟨hS.inv.tree, hS.inv.files, hS.inv.refs, hS.inv.next, hS.inv.tdir, hS.inv.cwd, ho, hS.inv.dfd, hS.inv.xfd⟩,
   hS.wf, hS.nl⟩

theorem sem_setDfd {c : Ctx} {q : List Nat} {pr : Proc} (hS : Sem c q pr) (o : Option (List Name))
    (ho : ∀ d, o = some d → c.T <+: d) : Sem c q { pr with dfd := o } :=
  ⟨⟨hS.inv.tree, hS.inv.files, hS.inv.refs, hS.inv.next, hS.inv.tdir, hS.inv.cwd, hS.inv.fd, ho, hS.inv.xfd⟩,
   hS.wf, hS.nl⟩

theorem sem_setXfd {c : Ctx} {q : List Nat} {pr : Proc} (hS : Sem c q pr) (o : Option Handle)
    (ho : ∀ h, o = some h → HandleIn c h) : Sem c q { pr with xfd := o } :=
  ⟨⟨hS.inv.tree, hS.inv.files, hS.inv.refs, hS.inv.next, hS.inv.tdir, hS.inv.cwd, hS.inv.fd, hS.inv.dfd,
    fun h hh => by have := ho h hh; cases h <;> exact this⟩, hS.wf, hS.nl⟩

theorem handleIn_of_xfd {c : Ctx} {pr : Proc} (hI : Inv c pr) {h : Handle} (hx : pr.xfd = some h) : HandleIn c h := by
  have := hI.xfd h hx
  cases h <;> exact this

/-! ### allocation and creation -/

theorem sem_alloc {c : Ctx} {q : List Nat} {pr : Proc} (hS : Sem c q pr) (node : FNode) :
    Sem c q { pr with fs := (alloc pr.fs node).1 } ∧ c.inS pr.fs.next := by
  have hin : c.inS pr.fs.next := Or.inr hS.inv.next
  refine ⟨?_, hin⟩
  have := sem_setFiles hS (fun j => if j = pr.fs.next then some node else pr.fs.files j) (pr.fs.next + 1)
    (Nat.le_succ _)
    (fun j hj => by
      have : j ≠ pr.fs.next := by rintro rfl; exact hj hin
      simp [this])
    (fun j hj hl => by
      have : j ≠ pr.fs.next := by omega
      simpa [isLnk, this] using hl)
  exact this

theorem not_prefix_snoc {α} (r : List α) (n : α) : ¬ (r ++ [n]) <+: r := by
  intro h
  have := h.length_le
  simp at this
  omega

theorem sem_createFile {c : Ctx} {q p : List Nat} {pr : Proc} (hS : Sem c q pr) (hF : Fam q p) (node : FNode)
    (hk : node.kind ≠ .lnk ∨ compsOf p = compsOf q) {fs' : FS} {i : Nat}
    (h : createFile pr pr.cwd p node = .ok (fs', i)) : Sem c q { pr with fs := fs' } ∧ c.inS i := by
  unfold createFile at h
  split at h
  · simp at h
  · simp at h
  · rename_i d n hl
    rcases locate_fam hS hF hl with ⟨_, hloc⟩ | ⟨r, n', hloc, hpre, hcomps⟩
    · simp at hloc
    · simp only [Loc.entry.injEq] at hloc
      obtain ⟨rfl, rfl⟩ := hloc
      split at h
      · simp at h
      · simp only [alloc, Except.ok.injEq, Prod.mk.injEq] at h
        obtain ⟨rfl, rfl⟩ := h
        obtain ⟨hS1, hin⟩ := sem_alloc hS node
        refine ⟨?_, hin⟩
        have := sem_putAt hS1 r n (.file pr.fs.next) (refsIn_file hin)
          (refsIn_file (by simp [alloc])) (by
            rcases hk with hk | hk
            · left
              refine ⟨fun hd => by simp [Tree.isDir] at hd, fun _ => ?_⟩
              simp only [alloc, isLnk, if_true]
              cases node <;> simp [FNode.kind] at hk ⊢
            · right
              have : initOf q = r := by
                unfold initOf; rw [← hk, hcomps]; simp
              rw [this]; exact not_prefix_snoc r n)
        exact this

theorem sem_exec_mkdir {c : Ctx} {q p : List Nat} {pr : Proc} (hS : Sem c q pr) (hF : Fam q p) (m : Nat) :
    Sem c q (exec (.mkdir p m) pr).2 := by
  simp only [exec]
  split
  · exact hS
  · exact hS
  · rename_i d n hl
    rcases locate_fam hS hF hl with ⟨_, hloc⟩ | ⟨r, n', hloc, hpre, hcomps⟩
    · simp at hloc
    · simp only [Loc.entry.injEq] at hloc
      obtain ⟨rfl, rfl⟩ := hloc
      split
      · exact hS
      · exact sem_putAt hS r n _ (refsIn_emptyDir _ _) (refsIn_emptyDir _ _) (Or.inl (okx_emptyDir _ _ _))

theorem sem_doUnlink {c : Ctx} {q p : List Nat} {pr : Proc} (hS : Sem c q pr) (hF : Fam q p) :
    Sem c q (doUnlink pr pr.cwd p).2 := by
  unfold doUnlink
  split
  · exact hS
  · exact hS
  · rename_i d n hl
    rcases locate_fam hS hF hl with ⟨_, hloc⟩ | ⟨r, n', hloc, hpre, hcomps⟩
    · simp at hloc
    · simp only [Loc.entry.injEq] at hloc
      obtain ⟨rfl, rfl⟩ := hloc
      split
      · exact hS
      · exact hS
      · exact sem_delAt hS r n

theorem sem_exec_rmdir {c : Ctx} {q p : List Nat} {pr : Proc} (hS : Sem c q pr) (hF : Fam q p) :
    Sem c q (exec (.rmdir p) pr).2 := by
  simp only [exec]
  split
  · exact hS
  · rename_i pos hl
    rcases locate_fam hS hF hl with ⟨hp, hloc⟩ | ⟨r, n', hloc, hpre, hcomps⟩
    · subst hp
      have e : (compsOf [DOT]).getLast? = some DOTN := by decide
      simp only [e, if_true]
      exact hS
    · simp at hloc
  · rename_i d n hl
    rcases locate_fam hS hF hl with ⟨_, hloc⟩ | ⟨r, n', hloc, hpre, hcomps⟩
    · simp at hloc
    · simp only [Loc.entry.injEq] at hloc
      obtain ⟨rfl, rfl⟩ := hloc
      split
      · exact hS
      · exact hS
      · split
        · exact sem_delAt hS r n
        · exact hS


theorem sem_exec_openCreat {c : Ctx} {q p : List Nat} {pr : Proc} (hS : Sem c q pr) (hF : Fam q p) (m : Nat) :
    Sem c q (exec (.openCreat p m) pr).2 := by
  simp only [exec]
  split
  · exact hS
  · rename_i fs' i h
    obtain ⟨h1, h2⟩ := sem_createFile hS hF _ (Or.inl (by simp [FNode.kind])) h
    exact sem_setFd h1 (some i) (fun j hj => by simp at hj; subst hj; exact h2)

theorem sem_exec_mkstemp {c : Ctx} {q p : List Nat} {pr : Proc} (hS : Sem c q pr) (hF : Fam q (tmpName p)) (m : Nat) :
    Sem c q (exec (.mkstemp p m) pr).2 := by
  simp only [exec]
  split
  · exact hS
  · rename_i fs' i h
    obtain ⟨h1, h2⟩ := sem_createFile hS hF _ (Or.inl (by simp [FNode.kind])) h
    exact sem_setFd h1 (some i) (fun j hj => by simp at hj; subst hj; exact h2)

theorem sem_exec_mkfifo {c : Ctx} {q p : List Nat} {pr : Proc} (hS : Sem c q pr) (hF : Fam q p) (m : Nat) :
    Sem c q (exec (.mkfifo p m) pr).2 := by
  simp only [exec]
  split
  · exact hS
  · rename_i fs' i h
    exact (sem_createFile hS hF _ (Or.inl (by simp [FNode.kind])) h).1

theorem sem_exec_symlink {c : Ctx} {q : List Nat} {pr : Proc} (hS : Sem c q pr) (hF : Fam q q) (tg : List Nat) :
    Sem c q (exec (.symlink tg q) pr).2 := by
  simp only [exec]
  split
  · exact hS
  · split
    · exact hS
    · rename_i fs' i h
      exact (sem_createFile hS hF _ (Or.inr rfl) h).1

theorem sem_exec_utimens {c : Ctx} {q p : List Nat} {pr : Proc} (hS : Sem c q pr) (hF : Fam q p) (t : Int) :
    Sem c q (exec (.utimens p t) pr).2 := by
  simp only [exec]
  split
  · exact hS
  · rename_i pos tr h
    split
    · rename_i fs' he; exact sem_utimensH hS (lookupNoFollow_fam hS hF h).1 he
    · exact hS

theorem sem_exec_lchmod {c : Ctx} {q p : List Nat} {pr : Proc} (hS : Sem c q pr) (hF : Fam q p) (m : Nat) :
    Sem c q (exec (.lchmod p m) pr).2 := by
  simp only [exec]
  split
  · exact hS
  · rename_i pos tr h
    split
    · rename_i fs' he; exact sem_chmodH hS (lookupNoFollow_fam hS hF h).1 he
    · exact hS

theorem sem_exec_openTrunc {c : Ctx} {q p : List Nat} {pr : Proc} (hS : Sem c q pr) (hF : Fam q p) :
    Sem c q (exec (.openTrunc p) pr).2 := by
  simp only [exec]
  split
  · exact hS
  · exact hS
  · rename_i pos i h
    have hin : c.inS i := (lookupNoFollow_fam hS hF h).1
    split
    · exact sem_setFd (sem_setFile hS i _ hin (by simp [FNode.kind])) (some i)
        (fun j hj => by simp at hj; subst hj; exact hin)
    · exact hS
    · exact hS
    · exact hS

theorem sem_exec_xOpen {c : Ctx} {q p : List Nat} {pr : Proc} (hS : Sem c q pr) (hF : Fam q p) (b : Bool) :
    Sem c q (exec (.xOpen p b) pr).2 := by
  simp only [exec]
  split
  · exact hS
  · rename_i pos t h
    split
    · exact hS
    · split
      · exact hS
      · exact sem_setXfd hS _ (fun h' hh => by simp at hh; subst hh; exact (lookupNoFollow_fam hS hF h).1)

theorem sem_exec_renameTmp {c : Ctx} {q : List Nat} {pr : Proc} (hS : Sem c q pr) (hF : Fam q q)
    (hT : Fam q (tmpName q)) : Sem c q (exec (.renameTmp q) pr).2 := by
  simp only [exec]
  split
  · rename_i d1 n1 d2 n2 hl1 hl2
    rcases locate_fam hS hT hl1 with ⟨_, hloc⟩ | ⟨r1, n1', hloc1, _, _⟩
    · simp at hloc
    rcases locate_fam hS hF hl2 with ⟨_, hloc⟩ | ⟨r2, n2', hloc2, _, hcomps⟩
    · simp at hloc
    simp only [Loc.entry.injEq] at hloc1 hloc2
    obtain ⟨rfl, rfl⟩ := hloc1
    obtain ⟨rfl, rfl⟩ := hloc2
    obtain ⟨tT, hTT, _⟩ := hS.inv.tdir
    have hput : ∀ i, ((get pr.fs.root (c.T ++ r1)).bind (·.child n1)) = some (.file i) →
        Sem c q { pr with fs := putAt (delAt pr.fs (c.T ++ r1) n1) (c.T ++ r2) n2 (.file i) } := by
      intro i hi
      have hg : get pr.fs.root (c.T ++ (r1 ++ [n1])) = some (.file i) := by
        rw [← List.append_assoc, get_snoc]; exact hi
      have hin : c.inS i := by
        apply hS.inv.refs tT hTT (r1 ++ [n1]) i
        rw [get_append, hTT] at hg; exact hg
      have hlt : i < pr.fs.next := hS.wf _ i hg
      have h1 := sem_delAt hS r1 n1
      have := sem_putAt h1 r2 n2 (.file i) (refsIn_file hin) (refsIn_file hlt) (by
        right
        have : initOf q = r2 := by unfold initOf; rw [hcomps]; simp
        rw [this]; exact not_prefix_snoc r2 n2)
      exact this
    split
    · rename_i i _ h1 _; exact hput i h1
    · rename_i i h1 _; exact hput i h1
    · exact hS
    · exact hS
  · exact hS
  · exact hS
  · exact hS

theorem sem_fdop {c : Ctx} {q : List Nat} {pr : Proc} (hS : Sem c q pr) (s : Sys)
    (hs : (∃ d, s = .fwrite d) ∨ (∃ n, s = .ftruncate n) ∨ (∃ m, s = .fchmod m) ∨ (∃ t, s = .futimens t)) :
    Sem c q (exec s pr).2 := by
  rcases hs with ⟨d, rfl⟩ | ⟨n, rfl⟩ | ⟨m, rfl⟩ | ⟨t, rfl⟩
  · simp only [exec]
    split
    · exact hS
    · rename_i i hi
      split
      · exact sem_setFile hS i _ (hS.inv.fd i hi) (by simp [FNode.kind])
      · exact hS
  · simp only [exec]
    split
    · exact hS
    · rename_i i hi
      split
      · exact sem_setFile hS i _ (hS.inv.fd i hi) (by simp [FNode.kind])
      · exact hS
  · simp only [exec]
    split
    · exact hS
    · rename_i i hi
      split
      · rename_i fs' he; exact sem_chmodH hS (h := .file i) (hS.inv.fd i hi) he
      · exact hS
  · simp only [exec]
    split
    · exact hS
    · rename_i i hi
      split
      · rename_i fs' he; exact sem_utimensH hS (h := .file i) (hS.inv.fd i hi) he
      · exact hS

theorem sem_xop {c : Ctx} {q : List Nat} {pr : Proc} (hS : Sem c q pr) (s : Sys)
    (hs : (∃ m, s = .xChmod m) ∨ (∃ t, s = .xUtimens t)) : Sem c q (exec s pr).2 := by
  rcases hs with ⟨m, rfl⟩ | ⟨t, rfl⟩
  · simp only [exec]
    split
    · exact hS
    · rename_i h hx
      split
      · rename_i fs' he; exact sem_chmodH hS (handleIn_of_xfd hS.inv hx) he
      · exact hS
  · simp only [exec]
    split
    · exact hS
    · rename_i h hx
      split
      · rename_i fs' he; exact sem_utimensH hS (handleIn_of_xfd hS.inv hx) he
      · exact hS

/-- Calls the writer issues while the entry whose cleaned path is `q` is being
restored; all of them keep `Sem c q` (`sem_exec`).  `link`, `chmod`, `dUnlink`
and `dOpenDir` need more than a path of the family and have lemmas of their own. -/
def QCall (q : List Nat) : Sys → Prop
  | .lstat _ | .stat _ | .getUmask | .fclose | .fwrite _ | .ftruncate _ | .fchmod _ | .futimens _
  | .xFstat | .xClose | .xChmod _ | .xUtimens _ | .dClose | .dOpenCwd | .dLstat _ | .dStat _ => True
  | .mkdir p _ | .unlink p | .rmdir p | .openCreat p _ | .mkfifo p _ | .utimens p _ | .lchmod p _
  | .openTrunc p | .xOpen p _ => Fam q p
  | .mkstemp p _ | .unlinkTmp p => Fam q (tmpName p)
  | .renameTmp p | .symlink _ p => p = q ∧ Fam q q ∧ Fam q (tmpName q)
  | .link _ _ | .chmod _ _ | .dUnlink _ | .dOpenDir _ => False
  | .chdir _ | .rOpenCwd | .rFchdir | .rClose => False      -- edit_deep_directories: pathnames ≥ PATH_MAX only

theorem sem_exec {c : Ctx} {q : List Nat} {pr : Proc} (hS : Sem c q pr) (s : Sys) (hq : QCall q s) :
    Sem c q (exec s pr).2 := by
  cases s with
  | lstat p => exact hS
  | stat p => exact hS
  | getUmask => exact hS
  | xFstat =>
    simp only [exec]
    split <;> exact hS
  | dLstat p =>
    simp only [exec]
    split <;> exact hS
  | dStat p =>
    simp only [exec]
    split <;> exact hS
  | fclose => exact sem_setFd hS none (fun _ h => by simp at h)
  | xClose => exact sem_setXfd hS none (fun _ h => by simp at h)
  | dClose => exact sem_setDfd hS none (fun _ h => by simp at h)
  | dOpenCwd =>
    exact sem_setDfd hS (some pr.cwd) (fun d h => by simp at h; subst h; rw [hS.inv.cwd]; exact List.prefix_refl _)
  | fwrite d => exact sem_fdop hS _ (Or.inl ⟨d, rfl⟩)
  | ftruncate n => exact sem_fdop hS _ (Or.inr (Or.inl ⟨n, rfl⟩))
  | fchmod m => exact sem_fdop hS _ (Or.inr (Or.inr (Or.inl ⟨m, rfl⟩)))
  | futimens t => exact sem_fdop hS _ (Or.inr (Or.inr (Or.inr ⟨t, rfl⟩)))
  | xChmod m => exact sem_xop hS _ (Or.inl ⟨m, rfl⟩)
  | xUtimens t => exact sem_xop hS _ (Or.inr ⟨t, rfl⟩)
  | mkdir p m => exact sem_exec_mkdir hS hq m
  | unlink p => exact sem_doUnlink hS hq
  | rmdir p => exact sem_exec_rmdir hS hq
  | openCreat p m => exact sem_exec_openCreat hS hq m
  | mkfifo p m => exact sem_exec_mkfifo hS hq m
  | utimens p t => exact sem_exec_utimens hS hq t
  | lchmod p m => exact sem_exec_lchmod hS hq m
  | openTrunc p => exact sem_exec_openTrunc hS hq
  | xOpen p b => exact sem_exec_xOpen hS hq b
  | mkstemp p m => exact sem_exec_mkstemp hS hq m
  | renameTmp p => obtain ⟨rfl, h2, h3⟩ := hq; exact sem_exec_renameTmp hS h2 h3
  | unlinkTmp p => exact sem_doUnlink hS hq
  | symlink tg p => obtain ⟨rfl, h2, _⟩ := hq; exact sem_exec_symlink hS h2 tg
  | link _ _ => exact absurd hq (by simp [QCall])
  | chmod _ _ => exact absurd hq (by simp [QCall])
  | dUnlink _ => exact absurd hq (by simp [QCall])
  | dOpenDir _ => exact absurd hq (by simp [QCall])
  | chdir _ => exact absurd hq (by simp [QCall])
  | rOpenCwd => exact absurd hq (by simp [QCall])
  | rFchdir => exact absurd hq (by simp [QCall])
  | rClose => exact absurd hq (by simp [QCall])

end LA.FS
