/-
Assembling the pieces: the stream written by the uuencode / b64encode filter is
a sequence of well-formed lines (`Item`s), hence `decode_with_header` applies.
-/
import LA.Lemmas.UuFlow
import LA.Lemmas.LineFilter
namespace LA.UuRead
open LA.Gen.UuTables LA.LineFilter

/-- The input cut into pieces of `lb` bytes, the last one possibly shorter (never empty). -/
def pieces (lb : Nat) (hlb : 0 < lb) (x : List Nat) : List (List Nat) :=
  if h : lb ≤ x.length then x.take lb :: pieces lb hlb (x.drop lb)
  else if x = [] then [] else [x]
termination_by x.length
decreasing_by simp; omega

theorem pieces_flatten (lb : Nat) (hlb : 0 < lb) (x : List Nat) : (pieces lb hlb x).flatten = x := by
  induction hn : x.length using Nat.strongRecOn generalizing x with
  | _ n ih =>
    rw [pieces]
    by_cases h : lb ≤ x.length
    · simp only [h, dite_true, List.flatten_cons]
      rw [ih (x.drop lb).length (by simp; omega) _ rfl, List.take_append_drop]
    · simp only [h, dite_false]
      by_cases hx : x = [] <;> simp [hx]

theorem pieces_mem (lb : Nat) (hlb : 0 < lb) (x : List Nat) :
    ∀ p ∈ pieces lb hlb x, 0 < p.length ∧ p.length ≤ lb ∧ (∀ b ∈ p, b ∈ x) := by
  induction hn : x.length using Nat.strongRecOn generalizing x with
  | _ n ih =>
    rw [pieces]
    by_cases h : lb ≤ x.length
    · simp only [h, dite_true, List.mem_cons]
      intro p hp
      rcases hp with hp | hp
      · subst hp
        refine ⟨by simp [List.length_take]; omega, by simp [List.length_take]; omega, ?_⟩
        intro b hb; exact List.mem_of_mem_take hb
      · obtain ⟨a1, a2, a3⟩ := ih (x.drop lb).length (by simp; omega) _ rfl p hp
        exact ⟨a1, a2, fun b hb => List.mem_of_mem_drop (a3 b hb)⟩
    · simp only [h, dite_false]
      by_cases hx : x = []
      · simp [hx]
      · simp only [hx, if_false, List.mem_singleton]
        intro p hp; subst hp
        exact ⟨List.length_pos_iff.mpr hx, by omega, fun b hb => hb⟩

theorem encAll_pieces (c : Codec) (x : List Nat) :
    encAll c x = ((pieces c.lbytes c.lpos x).map c.encLine).flatten := by
  induction hn : x.length using Nat.strongRecOn generalizing x with
  | _ n ih =>
    rw [encAll, pieces]
    by_cases h : c.lbytes ≤ x.length
    · have := c.lpos
      simp only [h, dite_true, List.map_cons, List.flatten_cons]
      rw [ih (x.drop c.lbytes).length (by simp; omega) _ rfl]
    · simp only [h, dite_false]
      by_cases hx : x = [] <;> simp [hx]

/-- What is needed of a codec to apply the flow theorem. -/
structure StreamSpec (c : Codec) (mode : Nat) (name : List Nat) where
  dph : Phase                              -- state while reading data lines
  hdr : Item
  mkData : List Nat → Item
  tl : List Item
  hdrLine : hdr.line = header c mode name
  hdrPh : hdr.ph = .findHead ∧ hdr.ph' = dph ∧ hdr.out = []
  hdrOk : ItemOk hdr
  dataLine : ∀ p, (mkData p).line = c.encLine p
  dataPh : ∀ p, (mkData p).ph = dph ∧ (mkData p).ph' = dph ∧ (mkData p).out = p
  dataOk : ∀ p, Bytes p → 0 < p.length → p.length ≤ c.lbytes → ItemOk (mkData p)
  tlText : text tl = c.trailer
  tlChain : Chain dph tl
  tlOk : ∀ it ∈ tl, ItemOk it
  tlOut : ∀ it ∈ tl, it.out = []
  dphData : needsRoom dph = true                      -- between the `begin` line and the terminator
  tlEnd : needsRoom (lastPhase dph tl) = false        -- after the terminator

theorem chain_data {c : Codec} {mode : Nat} {name : List Nat} (S : StreamSpec c mode name) (ps : List (List Nat)) :
    Chain S.dph (ps.map S.mkData ++ S.tl) := by
  induction ps with
  | nil => simpa using S.tlChain
  | cons p r ih => exact ⟨(S.dataPh p).1, by rw [(S.dataPh p).2.1]; exact ih⟩

theorem text_data {c : Codec} {mode : Nat} {name : List Nat} (S : StreamSpec c mode name) (ps : List (List Nat)) :
    text (ps.map S.mkData) = (ps.map c.encLine).flatten := by
  induction ps with
  | nil => rfl
  | cons p r ih => simp [ih, S.dataLine]

theorem outs_data {c : Codec} {mode : Nat} {name : List Nat} (S : StreamSpec c mode name) (ps : List (List Nat)) :
    outs (ps.map S.mkData) = ps.flatten := by
  induction ps with
  | nil => rfl
  | cons p r ih => simp [ih, (S.dataPh p).2.2]

theorem lastPhase_data {c : Codec} {mode : Nat} {name : List Nat} (S : StreamSpec c mode name) (ps : List (List Nat)) :
    lastPhase S.dph (ps.map S.mkData) = S.dph := by
  induction ps with
  | nil => rfl
  | cons p r ih => simp only [List.map_cons, lastPhase, (S.dataPh p).2.1]; exact ih

/-- **Round trip for every sequence of read windows**, generic in the codec. -/
theorem stream_roundtrip {c : Codec} {mode : Nat} {name : List Nat} (S : StreamSpec c mode name)
    (x : List Nat) (hb : Bytes x) (first : Nat) (orc : List Nat)
    (hfirst : (header c mode name).length ≤ first) :
    decode first orc (encStream c mode name x) = .eof x := by
  have hps := pieces_mem c.lbytes c.lpos x
  have hitems : encStream c mode name x =
      text (S.hdr :: ((pieces c.lbytes c.lpos x).map S.mkData ++ S.tl)) := by
    rw [text_cons, text_append, text_data, S.tlText, S.hdrLine, encStream, encAll_pieces]
    simp
  rw [hitems]
  have hshape : Shape ((pieces c.lbytes c.lpos x).map S.mkData ++ S.tl) := by
    refine ⟨_, _, rfl, ?_, S.tlOut⟩
    intro it hit
    simp only [List.mem_map] at hit
    obtain ⟨p, hp, rfl⟩ := hit
    rw [(S.dataPh p).2.2]
    exact List.ne_nil_of_length_pos (hps p hp).1
  have hok : ∀ it ∈ S.hdr :: ((pieces c.lbytes c.lpos x).map S.mkData ++ S.tl), ItemOk it := by
    intro it hit
    simp only [List.mem_cons, List.mem_append, List.mem_map] at hit
    rcases hit with rfl | ⟨p, hp, rfl⟩ | hit
    · exact S.hdrOk
    · obtain ⟨a1, a2, a3⟩ := hps p hp
      exact S.dataOk p (fun b hbm => hb b (a3 b hbm)) a1 a2
    · exact S.tlOk it hit
  have hlast : lastPhase S.hdr.ph' ((pieces c.lbytes c.lpos x).map S.mkData ++ S.tl) = lastPhase S.dph S.tl := by
    rw [S.hdrPh.2.1, lastPhase_append, lastPhase_data]
  rw [decode_with_header first orc S.hdr _ ⟨S.hdrPh.1, by rw [S.hdrPh.2.1]; exact chain_data S _⟩ hok
    S.hdrPh.2.2 hshape (by have := congrArg List.length S.hdrLine; simp at this; omega)
    (by intro h; rw [hlast, S.tlEnd] at h; simp at h)]
  rw [hlast, outs_append, outs_data, pieces_flatten, (outs_eq_nil S.tl).mpr S.tlOut]
  simp [endR, S.tlEnd]

/-- **A stream cut at a line border before its trailer is reported, not taken for
complete**: with at least one data line left and nothing after the data lines,
the consumer gets the bytes of the lines that are there and then a fatal error
("Truncated uuencoded data: missing end marker"), for every sequence of read
windows. -/
theorem stream_truncated {c : Codec} {mode : Nat} {name : List Nat} (S : StreamSpec c mode name)
    (x : List Nat) (hb : Bytes x) (j : Nat) (hj : 0 < j) (hjl : j ≤ (pieces c.lbytes c.lpos x).length)
    (first : Nat) (orc : List Nat) (hfirst : (header c mode name).length ≤ first) :
    decode first orc (header c mode name ++ (((pieces c.lbytes c.lpos x).take j).map c.encLine).flatten) =
      .fatal ((pieces c.lbytes c.lpos x).take j).flatten := by
  have hps := pieces_mem c.lbytes c.lpos x
  generalize hq : (pieces c.lbytes c.lpos x).take j = ps
  have hmem : ∀ p ∈ ps, p ∈ pieces c.lbytes c.lpos x := fun p hp => List.mem_of_mem_take (hq ▸ hp)
  have hne : ps ≠ [] := by
    intro h; have := congrArg List.length hq; rw [h, List.length_take] at this
    simp only [List.length_nil] at this; omega
  have hitems : header c mode name ++ (ps.map c.encLine).flatten = text (S.hdr :: (ps.map S.mkData ++ [])) := by
    rw [text_cons, List.append_nil, text_data, S.hdrLine]
  rw [hitems]
  have hdata : ∀ it ∈ ps.map S.mkData, it.out ≠ [] := by
    intro it hit
    simp only [List.mem_map] at hit
    obtain ⟨p, hp, rfl⟩ := hit
    rw [(S.dataPh p).2.2]
    exact List.ne_nil_of_length_pos (hps p (hmem p hp)).1
  have hshape : Shape (ps.map S.mkData ++ []) := ⟨_, [], rfl, hdata, by simp⟩
  have hok : ∀ it ∈ S.hdr :: (ps.map S.mkData ++ []), ItemOk it := by
    intro it hit
    simp only [List.append_nil, List.mem_cons, List.mem_map] at hit
    rcases hit with rfl | ⟨p, hp, rfl⟩
    · exact S.hdrOk
    · obtain ⟨a1, a2, a3⟩ := hps p (hmem p hp)
      exact S.dataOk p (fun b hbm => hb b (a3 b hbm)) a1 a2
  have hchain : Chain S.dph (ps.map S.mkData ++ []) := by
    have : ∀ qs : List (List Nat), Chain S.dph (qs.map S.mkData ++ []) := by
      intro qs; induction qs with
      | nil => trivial
      | cons p r ih => exact ⟨(S.dataPh p).1, by rw [(S.dataPh p).2.1]; exact ih⟩
    exact this ps
  have hlast : lastPhase S.hdr.ph' (ps.map S.mkData ++ []) = S.dph := by
    rw [S.hdrPh.2.1, lastPhase_append, lastPhase_data]; rfl
  have hnz : NoZeroSuffix (lastPhase S.hdr.ph' (ps.map S.mkData ++ [])) (S.hdr :: (ps.map S.mkData ++ [])) := by
    intro _ done items hs hine
    rw [List.append_nil] at hs
    cases done with
    | nil =>
      simp only [List.nil_append] at hs
      rw [← hs, outs_cons, S.hdrPh.2.2, List.nil_append]
      cases hps' : ps with
      | nil => exact absurd hps' hne
      | cons p r =>
        simp only [List.map_cons, outs_cons]
        intro h
        exact hdata (S.mkData p) (by rw [hps']; simp) (List.append_eq_nil_iff.mp h).1
    | cons d ds =>
      simp only [List.cons_append, List.cons.injEq] at hs
      cases items with
      | nil => exact absurd rfl hine
      | cons i r =>
        intro h
        simp only [outs_cons] at h
        exact hdata i (by rw [hs.2]; simp) (List.append_eq_nil_iff.mp h).1
  rw [decode_with_header first orc S.hdr _ ⟨S.hdrPh.1, by rw [S.hdrPh.2.1]; exact hchain⟩ hok
    S.hdrPh.2.2 hshape (by have := congrArg List.length S.hdrLine; simp at this; omega) hnz]
  rw [hlast, List.append_nil, outs_data]
  simp [endR, S.dphData]

/-- The hazard the hypothesis `hfirst` of `stream_roundtrip` excludes: if the very
first window ends exactly after the `begin` line, `uudecode_filter_read` has
consumed that line, produced nothing, and returns 0 — which its caller takes
for the end of the data.  (Not reachable through the reader: the bidder has
buffered more than the `begin` line before the filter is first called.) -/
theorem header_only_window {c : Codec} {mode : Nat} {name : List Nat} (S : StreamSpec c mode name)
    (x : List Nat) (hb : Bytes x) (first : Nat) (orc : List Nat)
    (hfirst : first + 1 = (header c mode name).length) :
    decode first orc (encStream c mode name x) = .eof [] := by
  have hps := pieces_mem c.lbytes c.lpos x
  have hitems : encStream c mode name x =
      text (S.hdr :: ((pieces c.lbytes c.lpos x).map S.mkData ++ S.tl)) := by
    rw [text_cons, text_append, text_data, S.tlText, S.hdrLine, encStream, encAll_pieces]
    simp
  rw [hitems]
  have hok : ∀ it ∈ S.hdr :: ((pieces c.lbytes c.lpos x).map S.mkData ++ S.tl), ItemOk it := by
    intro it hit
    simp only [List.mem_cons, List.mem_append, List.mem_map] at hit
    rcases hit with rfl | ⟨p, hp, rfl⟩ | hit
    · exact S.hdrOk
    · obtain ⟨a1, a2, a3⟩ := hps p hp
      exact S.dataOk p (fun b hbm => hb b (a3 b hbm)) a1 a2
    · exact S.tlOk it hit
  have hlen : S.hdr.len = first + 1 := by
    have := congrArg List.length S.hdrLine; simp at this; omega
  unfold decode
  have hpre : Pre ({} : RState) (text (S.hdr :: ((pieces c.lbytes c.lpos x).map S.mkData ++ S.tl)))
      (S.hdr :: ((pieces c.lbytes c.lpos x).map S.mkData ++ S.tl)) :=
    ⟨⟨S.hdrPh.1, by rw [S.hdrPh.2.1]; exact chain_data S _⟩, hok, by simp, by simp [CarryOk, Item.len], by simp⟩
  rw [decodeLoop_spec _ _ _ _ hpre]
  have hwl : (window (first :: orc) (text (S.hdr :: ((pieces c.lbytes c.lpos x).map S.mkData ++ S.tl)))).length
      = first + 1 := by
    simp only [window, List.length_take, text_cons, List.length_append, Item.line_length]; omega
  simp only [hwl, show ({} : RState).carry.length = 0 from rfl, Nat.zero_add]
  rw [specLoop]
  have h1 : ¬ (first + 1 = 0) := by omega
  have h2 : ¬ (first + 1 < S.hdr.len) := by omega
  have h3 : ¬ (needsRoom ({} : RState).phase = true ∧ 0 + S.hdr.len * 2 > LA.Gen.UuTables.outBuffSize) := by
    intro h; simp [needsRoom] at h
  simp only [h1, h2, h3, if_false, S.hdrPh.2.2, loopR_cons_nil, hlen, Nat.sub_self]
  cases (pieces c.lbytes c.lpos x).map S.mkData ++ S.tl with
  | nil =>
    simp [specLoop, cont, needsRoom]
    intro hw; have := congrArg List.length hw
    simp only [window, List.length_take, Item.line_length, List.length_nil] at this; omega
  | cons it r =>
    simp [specLoop, cont, needsRoom]
    intro hw; have := congrArg List.length hw
    simp only [window, List.length_take, List.length_append, Item.line_length, List.length_nil] at this; omega

end LA.UuRead
