/-
C14 helper lemmas, part 3: frame property of every modelled setter — the view of a
group the operation does not touch (`touches op G = false`) is unchanged.
-/
import LA.Lemmas.Entry
namespace LA.Entry
open LA.Gen.EntryBits
set_option maxRecDepth 4000
variable (G : Group) (e : Entry)

theorem setTimeCore_frame (f : TimeField) (t : Int) (ns : Nat) (t0 ns0 : Int) (ht : touches (.setTime f t0 ns0) G = false) :
    view G (setTimeCore f e t ns) = view G e := by
  cases f <;> entry_frame setTimeCore, Entry.withTime
theorem unsetTimeCore_frame (f : TimeField) (ht : touches (.unsetTime f) G = false) :
    view G (unsetTimeCore f e) = view G e := by
  cases f <;> entry_frame unsetTimeCore, setTimeCore, Entry.withTime
theorem setSize_frame (s : Int) (ht : touches (.setSize s) G = false) : view G (setSize e s) = view G e := by
  entry_frame setSize
theorem unsetSize_frame (ht : touches .unsetSize G = false) : view G (unsetSize e) = view G e := by
  entry_frame unsetSize, setSize
theorem setDev_frame (d : Nat) (ht : touches (.setDev d) G = false) : view G (setDev e d) = view G e := by
  entry_frame setDev
theorem setDevmajor_frame (d : Nat) (ht : touches (.setDevmajor d) G = false) : view G (setDevmajor e d) = view G e := by
  entry_frame setDevmajor
theorem setDevminor_frame (d : Nat) (ht : touches (.setDevminor d) G = false) : view G (setDevminor e d) = view G e := by
  entry_frame setDevminor
theorem setRdev_frame (d : Nat) (ht : touches (.setRdev d) G = false) : view G (setRdev e d) = view G e := by
  entry_frame setRdev
theorem setRdevmajor_frame (d : Nat) (ht : touches (.setRdevmajor d) G = false) : view G (setRdevmajor e d) = view G e := by
  entry_frame setRdevmajor
theorem setRdevminor_frame (d : Nat) (ht : touches (.setRdevminor d) G = false) : view G (setRdevminor e d) = view G e := by
  entry_frame setRdevminor
theorem setIno_frame (i : Int) (ht : touches (.setIno i) G = false) : view G (setIno e i) = view G e := by
  entry_frame setIno
theorem setNlink_frame (n : Nat) (ht : touches (.setNlink n) G = false) : view G (setNlink e n) = view G e := by
  entry_frame setNlink
theorem setUid_frame (u : Int) (ht : touches (.setUid u) G = false) : view G (setUid e u) = view G e := by
  entry_frame setUid
theorem setGid_frame (u : Int) (ht : touches (.setGid u) G = false) : view G (setGid e u) = view G e := by
  entry_frame setGid
theorem setMode_frame (m : BitVec 32) (ht : touches (.setMode m) G = false) : view G (setMode e m) = view G e := by
  entry_frame setMode
theorem setPerm_frame (m : BitVec 32) (ht : touches (.setPerm m) G = false) : view G (setPerm e m) = view G e := by
  entry_frame setPerm
theorem setFiletype_frame (m : BitVec 32) (ht : touches (.setFiletype m) G = false) :
    view G (setFiletype e m) = view G e := by
  entry_frame setFiletype
theorem setStr_frame (f : StrField) (v : Option Bytes) (ht : touches (.setStr f v) G = false) :
    view G (setStr f e v) = view G e := by
  cases f <;> entry_frame setStr
theorem setHardlink_frame (v : Option Bytes) (ht : touches (.setHardlink v) G = false) :
    view G (setHardlink e v) = view G e := by
  cases v <;> entry_frame setHardlink
theorem copyHardlink_frame (v : Option Bytes) (ht : touches (.copyHardlink v) G = false) :
    view G (copyHardlink e v) = view G e := by
  cases v <;> entry_frame copyHardlink
theorem setSymlink_frame (v : Option Bytes) (ht : touches (.setSymlink v) G = false) :
    view G (setSymlink e v) = view G e := by
  cases v <;> entry_frame setSymlink
theorem setLink_frame (v : Option Bytes) (ht : touches (.setLink v) G = false) : view G (setLink e v) = view G e := by
  entry_frame setLink
theorem setLinkToHardlink_frame (ht : touches .setLinkToHardlink G = false) : view G (setLinkToHardlink e) = view G e := by
  entry_frame setLinkToHardlink
theorem setLinkToSymlink_frame (ht : touches .setLinkToSymlink G = false) : view G (setLinkToSymlink e) = view G e := by
  entry_frame setLinkToSymlink
theorem setFflags_frame (s c : Nat) (ht : touches (.setFflags s c) G = false) : view G (setFflags e s c) = view G e := by
  entry_frame setFflags
theorem copyFflagsText_frame (s : Bytes) (ht : touches (.copyFflagsText s) G = false) :
    view G (copyFflagsText e s) = view G e := by
  entry_frame copyFflagsText
theorem fflagsText_frame (ht : touches .fflagsText G = false) : view G (fflagsText e).1 = view G e := by
  entry_frame fflagsText
theorem setSymlinkType_frame (t : Int) (ht : touches (.setSymlinkType t) G = false) :
    view G (setSymlinkType e t) = view G e := by
  entry_frame setSymlinkType
theorem setIsDataEncrypted_frame (b : Bool) (ht : touches (.setIsDataEncrypted b) G = false) :
    view G (setIsDataEncrypted e b) = view G e := by
  cases b <;> entry_frame setIsDataEncrypted
theorem setIsMetadataEncrypted_frame (b : Bool) (ht : touches (.setIsMetadataEncrypted b) G = false) :
    view G (setIsMetadataEncrypted e b) = view G e := by
  cases b <;> entry_frame setIsMetadataEncrypted
theorem sparseAdd_frame (o l : Int) (ht : touches (.sparseAdd o l) G = false) : view G (sparseAdd e o l) = view G e := by
  entry_frame sparseAdd
theorem sparseClear_frame (ht : touches .sparseClear G = false) : view G (sparseClear e) = view G e := by
  entry_frame sparseClear
theorem sparseCount_frame (ht : touches .sparseCount G = false) : view G (sparseCount e).1 = view G e := by
  entry_frame2 sparseCount_fst | sparseClear
theorem sparseReset_frame (ht : touches .sparseReset G = false) : view G (sparseReset e).1 = view G e := by
  entry_frame2 sparseReset, sparseCount_fst | sparseClear
theorem sparseNext_frame (ht : touches .sparseNext G = false) : view G (sparseNext e).1 = view G e := by
  entry_frame sparseNext
theorem xattrAdd_frame (n v : Bytes) (ht : touches (.xattrAdd n v) G = false) : view G (xattrAdd e n v) = view G e := by
  entry_frame xattrAdd
theorem xattrClear_frame (ht : touches .xattrClear G = false) : view G (xattrClear e) = view G e := by
  entry_frame xattrClear
theorem xattrReset_frame (ht : touches .xattrReset G = false) : view G (xattrReset e).1 = view G e := by
  entry_frame xattrReset
theorem xattrNext_frame (ht : touches .xattrNext G = false) : view G (xattrNext e).1 = view G e := by
  entry_frame xattrNext
theorem copyMacMetadata_frame (v : Option Bytes) (ht : touches (.copyMacMetadata v) G = false) :
    view G (copyMacMetadata e v) = view G e := by
  entry_frame copyMacMetadata
theorem setDigest_frame (t : Int) (d : Bytes) (ht : touches (.setDigest t d) G = false) :
    view G (setDigest e t d).1 = view G e := by
  entry_frame setDigest
theorem stat_frame (ht : touches .stat G = false) : view G (stat e).1 = view G e := by
  entry_frame stat

end LA.Entry
