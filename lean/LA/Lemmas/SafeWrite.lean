/-
Helper lemmas for C19 (model: LA/Model/SafeWrite.lean).

Part 1: bytes (`padTo`, `writeAt`, `truncTo`), the file system (`Pre`: the target
name is bound to the untouched old inode), `sys`, and for every model function a
"frame" lemma: it only issues calls of a given class, hence preserves every
predicate on worlds that calls of this class preserve.
-/
import LA.Model.SafeWrite
namespace LA.SafeWrite

/-! ## bytes -/

@[simp] theorem zeros_length (n : Nat) : (zeros n).length = n := by simp [zeros]
@[simp] theorem zeros_zero : zeros 0 = [] := rfl

theorem zeros_add (a b : Nat) : zeros (a + b) = zeros a ++ zeros b := by
  simp [zeros, List.replicate_append_replicate]

@[simp] theorem padTo_length (n : Nat) (c : Bytes) : (padTo n c).length = max n c.length := by
  simp [padTo]; omega

theorem padTo_of_le {n : Nat} {c : Bytes} (h : n ≤ c.length) : padTo n c = c := by
  simp [padTo, Nat.sub_eq_zero_of_le h]

theorem padTo_padTo {a b : Nat} {c : Bytes} (h : a ≤ b) : padTo b (padTo a c) = padTo b c := by
  unfold padTo
  rw [List.append_assoc, ← zeros_add]
  congr 2
  simp; omega

theorem padTo_append_zeros {a k : Nat} {c : Bytes} (h : c.length ≤ a) :
    padTo a c ++ zeros k = padTo (a + k) c := by
  unfold padTo
  rw [List.append_assoc, ← zeros_add]
  congr 2; omega

/-- Writing at or past the end appends (with a zero gap). -/
theorem writeAt_append {c : Bytes} {off : Nat} (d : Bytes) (h : c.length ≤ off) :
    writeAt c off d = padTo off c ++ d := by
  unfold writeAt
  have h1 : (padTo off c).length = off := by simp; omega
  rw [List.take_of_length_le (by omega), List.drop_of_length_le (by omega)]
  simp

theorem truncTo_of_le {c : Bytes} {n : Nat} (h : c.length ≤ n) : truncTo n c = padTo n c := by
  unfold truncTo
  apply List.take_of_length_le
  simp; omega

/-- The zero bytes skipped by the sparse loop. -/
theorem takeWhile_zero_eq (buf : Bytes) :
    buf.takeWhile (· == 0) = zeros (buf.takeWhile (· == 0)).length := by
  induction buf with
  | nil => rfl
  | cons a t ih =>
    by_cases h : a = 0
    · subst h
      simp only [List.takeWhile_cons, beq_self_eq_true, ↓reduceIte, List.length_cons]
      rw [show zeros ((List.takeWhile (fun x => x == 0) t).length + 1)
            = 0 :: zeros (List.takeWhile (fun x => x == 0) t).length from by simp [zeros, List.replicate_succ]]
      rw [← ih]
    · simp [h]

theorem takeWhile_length_le (p : Nat → Bool) (l : Bytes) : (l.takeWhile p).length ≤ l.length := by
  induction l with
  | nil => simp
  | cons a t ih =>
    simp only [List.takeWhile_cons]
    split
    · simp only [List.length_cons]; omega
    · simp

theorem skip_zeros_split (buf : Bytes) :
    zeros (buf.takeWhile (· == 0)).length ++ buf.drop (buf.takeWhile (· == 0)).length = buf := by
  induction buf with
  | nil => rfl
  | cons a t ih =>
    by_cases h : a = 0
    · subst h
      simp only [List.takeWhile_cons, beq_self_eq_true, ↓reduceIte, List.length_cons, List.drop_succ_cons]
      rw [show zeros ((List.takeWhile (fun x => x == 0) t).length + 1)
            = 0 :: zeros (List.takeWhile (fun x => x == 0) t).length from by simp [zeros, List.replicate_succ]]
      simp only [List.cons_append]
      rw [ih]
    · simp [h]

/-! ## the file system -/

/-- The target name is bound to inode 0, which holds the old content and which
neither the descriptor nor the temporary name refers to. -/
structure Pre (old : Bytes) (fs : FS) : Prop where
  tgt : fs.target = some 0
  ino0 : fs.inodes[0]? = some old
  fd0 : fs.fd ≠ some 0
  tmp0 : fs.tmp ≠ some 0

theorem Pre.view {old : Bytes} {fs : FS} (h : Pre old fs) : fs.view .target = some old := by
  simp [FS.view, FS.lookup, h.tgt, h.ino0]

/-- Calls that never change what the target name resolves to while `Pre` holds. -/
def Op.benign : Op → Bool
  | .unlink .target => false
  | .rename _ .target => false
  | .rename .target _ => false
  | _ => true

/-- Calls without any effect on the file-system state. -/
def Op.noFx : Op → Bool
  | .lstat _ | .fstat | .fchmod | .fchown | .futimens | .lseek _ | .lchown _ | .chmod _ | .utimensat _ => true
  | _ => false

theorem noFx_benign {op : Op} (h : op.noFx = true) : op.benign = true := by
  cases op <;> simp_all [Op.noFx, Op.benign]

theorem step_noFx {fs : FS} {op : Op} (h : op.noFx = true) : (fs.step op).1 = fs := by
  cases op <;> simp_all [Op.noFx, FS.step]

private theorem set_ino0 {l : List Bytes} {i : Nat} {c old : Bytes} (hi : i ≠ 0) (h : l[0]? = some old) :
    (l.set i c)[0]? = some old := by
  rw [List.getElem?_set_ne (by omega)]; exact h

theorem pre_step {old : Bytes} {fs : FS} {op : Op} (h : Pre old fs) (hb : op.benign = true) :
    Pre old (fs.step op).1 := by
  have hlen : 0 < fs.inodes.length := by
    have := h.ino0
    rcases hl : fs.inodes with _ | ⟨a, t⟩
    · simp [hl] at this
    · simp
  have hne : ¬ fs.inodes = [] := fun e => by simp [e] at hlen
  have happ : (fs.inodes ++ [([] : Bytes)])[0]? = some old := by
    rw [List.getElem?_append_left hlen]; exact h.ino0
  cases op with
  | openExcl n =>
    cases n with
    | target => simp [FS.step, FS.lookup, h.tgt]; exact h
    | tmp =>
      simp only [FS.step, FS.lookup]
      split
      · exact h
      · exact ⟨by simp [FS.bind, h.tgt], by simpa using happ, by simp; exact hne, by simp [FS.bind]; exact hne⟩
  | lstat n => exact h
  | mkstemp =>
    simp only [FS.step]
    split
    · exact h
    · exact ⟨h.tgt, by simpa using happ, by simp; exact hne, by simp; exact hne⟩
  | unlink n =>
    cases n with
    | target => simp [Op.benign] at hb
    | tmp =>
      simp only [FS.step, FS.lookup]
      split
      · exact ⟨h.tgt, h.ino0, h.fd0, by simp [FS.bind]⟩
      · exact h
  | rename a b =>
    cases a <;> cases b <;> simp [Op.benign] at hb
    simp only [FS.step, FS.lookup]
    split
    · rename_i i hi
      exact ⟨h.tgt, h.ino0, h.fd0, by simp only [FS.bind]; rw [hi.symm]; exact h.tmp0⟩
    · exact h
  | fstat => exact h
  | fchmod => exact h
  | fchown => exact h
  | futimens => exact h
  | close =>
    simp only [FS.step]
    split
    · exact ⟨h.tgt, h.ino0, by simp, h.tmp0⟩
    · exact h
  | lseek o => exact h
  | write off d =>
    simp only [FS.step]
    split
    · rename_i i hi
      have : i ≠ 0 := fun e => h.fd0 (by rw [hi, e])
      exact ⟨h.tgt, set_ino0 this h.ino0, h.fd0, h.tmp0⟩
    · exact h
  | ftruncate n =>
    simp only [FS.step]
    split
    · rename_i i hi
      have : i ≠ 0 := fun e => h.fd0 (by rw [hi, e])
      exact ⟨h.tgt, set_ino0 this h.ino0, h.fd0, h.tmp0⟩
    · exact h
  | lchown n => exact h
  | chmod n => exact h
  | utimensat n => exact h

/-! ## sys -/

def Good (old new : Bytes) (fs : FS) : Prop :=
  fs.view .target = some old ∨ fs.view .target = some new

def LogGood (old new : Bytes) (w : World) : Prop := ∀ ev ∈ w.log, Good old new ev.post

/-- An unlink of the temporary file was itself made to fail (nothing can clean up then). -/
def Leak (w : World) : Prop := ∃ ev ∈ w.log, ev.op = .unlink .tmp ∧ ev.res = .inj

theorem sys_log (F : Nat → Bool) (w : World) (op : Op) :
    (sys F w op).1.log = w.log ++ [⟨op, (sys F w op).2, (sys F w op).1.fs⟩] := by
  unfold sys; split <;> simp

theorem sys_fs_inj {F : Nat → Bool} {w : World} {op : Op} (h : F w.log.length = true) :
    (sys F w op).2 = .inj ∧ (sys F w op).1.fs = if op = .close then (w.fs.step .close).1 else w.fs := by
  unfold sys; simp [h]

theorem sys_fs_nat {F : Nat → Bool} {w : World} {op : Op} (h : F w.log.length = false) :
    (sys F w op).1.fs = (w.fs.step op).1 ∧
    (sys F w op).2 = Res.ofOpt (w.fs.step op).2 := by
  unfold sys; simp [h]

theorem sys_res_cases (F : Nat → Bool) (w : World) (op : Op) :
    ((sys F w op).2 = .inj ∧ (sys F w op).1.fs = if op = .close then (w.fs.step .close).1 else w.fs) ∨
    ((sys F w op).2 ≠ .inj ∧ (sys F w op).1.fs = (w.fs.step op).1 ∧
      (sys F w op).2 = Res.ofOpt (w.fs.step op).2) := by
  cases h : F w.log.length
  · right
    have := sys_fs_nat (op := op) h
    refine ⟨?_, this.1, this.2⟩
    rw [this.2]; cases (w.fs.step op).2 <;> simp [Res.ofOpt]
  · left; exact sys_fs_inj h

theorem leak_mono {F : Nat → Bool} {w : World} {op : Op} (h : Leak w) : Leak (sys F w op).1 := by
  obtain ⟨ev, hm, hop⟩ := h
  exact ⟨ev, by rw [sys_log]; exact List.mem_append_left _ hm, hop⟩

theorem sys_noFx {F : Nat → Bool} {w : World} {op : Op} (h : op.noFx = true) : (sys F w op).1.fs = w.fs := by
  rcases sys_res_cases F w op with ⟨_, h2⟩ | ⟨_, h2, _⟩
  · rw [h2]; have : op ≠ .close := by rintro rfl; simp [Op.noFx] at h
    simp [this]
  · rw [h2, step_noFx h]

/-- `Pre` and `LogGood` travel together through benign calls. -/
def PL (old new : Bytes) (w : World) : Prop := Pre old w.fs ∧ LogGood old new w

theorem sys_PL {old new : Bytes} {F : Nat → Bool} {w : World} {op : Op}
    (h : PL old new w) (hb : op.benign = true) : PL old new (sys F w op).1 := by
  have hpre : Pre old (sys F w op).1.fs := by
    rcases sys_res_cases F w op with ⟨_, h2⟩ | ⟨_, h2, _⟩
    · rw [h2]; split
      · exact pre_step h.1 (by simp [Op.benign])
      · exact h.1
    · rw [h2]; exact pre_step h.1 hb
  refine ⟨hpre, ?_⟩
  intro ev hev
  rw [sys_log] at hev
  rcases List.mem_append.mp hev with h1 | h1
  · exact h.2 ev h1
  · simp only [List.mem_singleton] at h1
    subst h1
    exact Or.inl hpre.view

/-! ## frames: "this function only issues calls of class `C`" -/

/-- `w'` is reached from `w` by calls of class `C` only: every predicate that such
calls preserve is carried over. -/
def Frame (C : Op → Bool) (F : Nat → Bool) (w w' : World) : Prop :=
  ∀ P : World → Prop, (∀ w op, P w → C op = true → P (sys F w op).1) → P w → P w'

theorem Frame.refl {C : Op → Bool} {F : Nat → Bool} (w : World) : Frame C F w w := fun _ _ h => h

theorem Frame.trans {C : Op → Bool} {F : Nat → Bool} {a b c : World}
    (h1 : Frame C F a b) (h2 : Frame C F b c) : Frame C F a c :=
  fun P hs hp => h2 P hs (h1 P hs hp)

theorem Frame.snoc {C : Op → Bool} {F : Nat → Bool} {a b : World} {op : Op}
    (h1 : Frame C F a b) (hc : C op = true) : Frame C F a (sys F b op).1 :=
  fun P hs hp => hs _ _ (h1 P hs hp) hc

theorem Frame.mono {C D : Op → Bool} {F : Nat → Bool} {a b : World}
    (h : Frame C F a b) (hcd : ∀ op, C op = true → D op = true) : Frame D F a b :=
  fun P hs hp => h P (fun w op hw hc => hs w op hw (hcd op hc)) hp

theorem Frame.presPL {old new : Bytes} {F : Nat → Bool} {a b : World}
    (h : Frame Op.benign F a b) (hp : PL old new a) : PL old new b :=
  h (PL old new) (fun _ _ hw hb => sys_PL hw hb) hp

theorem Frame.fs_eq {F : Nat → Bool} {a b : World} (h : Frame Op.noFx F a b) : b.fs = a.fs :=
  h (fun w => w.fs = a.fs) (fun _ _ hw hb => by rw [sys_noFx hb]; exact hw) rfl

theorem Frame.presLeak {C : Op → Bool} {F : Nat → Bool} {a b : World} (h : Frame C F a b) (hl : Leak a) : Leak b :=
  h Leak (fun _ _ hw _ => leak_mono hw) hl

/-- While only effect-free calls are issued from a state whose target view is good,
the log stays good. -/
theorem Frame.logGood_noFx {old new : Bytes} {F : Nat → Bool} {a b : World} (h : Frame Op.noFx F a b)
    (hg : Good old new a.fs) (hl : LogGood old new a) : LogGood old new b := by
  have := h (fun w => w.fs = a.fs ∧ LogGood old new w) (fun w op hw hb => by
    refine ⟨by rw [sys_noFx hb]; exact hw.1, ?_⟩
    intro ev hev
    rw [sys_log] at hev
    rcases List.mem_append.mp hev with h1 | h1
    · exact hw.2 ev h1
    · simp only [List.mem_singleton] at h1
      subst h1
      show Good old new (sys F w op).1.fs
      rw [sys_noFx hb, hw.1]; exact hg) ⟨rfl, hl⟩
  exact this.2

macro "frame_side" : tactic =>
  `(tactic| first | rfl | (split <;> rfl) | (simp [Op.benign, Op.noFx]))
macro "frame_auto" : tactic =>
  `(tactic| repeat (first | exact Frame.refl _ | refine Frame.snoc ?_ (by frame_side)))

theorem laMktemp_frame (F : Nat → Bool) (cfg : Cfg) (s : S) :
    Frame Op.benign F s.w (laMktemp F cfg s).1.w := by
  unfold laMktemp
  simp only []
  split
  · frame_auto
  · split
    · split <;> frame_auto
    · frame_auto

theorem lazyStat_frame (F : Nat → Bool) (cfg : Cfg) (s : S) :
    Frame Op.noFx F s.w (lazyStat F cfg s).1.w := by
  unfold lazyStat
  simp only []
  split
  · split <;> frame_auto
  · frame_auto

theorem setOwnership_frame (F : Nat → Bool) (s : S) : Frame Op.noFx F s.w (setOwnership F s).1.w := by
  unfold setOwnership
  simp only []
  split <;> split <;> (try split) <;> frame_auto

theorem setMode_frame (F : Nat → Bool) (s : S) : Frame Op.noFx F s.w (setMode F s).1.w := by
  unfold setMode
  simp only []
  frame_auto

theorem setTimes_frame (F : Nat → Bool) (s : S) : Frame Op.noFx F s.w (setTimes F s).1.w := by
  unfold setTimes
  simp only []
  frame_auto

theorem fixups_frame (F : Nat → Bool) (cfg : Cfg) (s : S) : Frame Op.noFx F s.w (fixups F cfg s).1.w := by
  unfold fixups
  simp only []
  have ha : Frame Op.noFx F s.w (if s.wd.todoOwner then setOwnership F s else (s, Status.ok)).1.w := by
    split
    · exact setOwnership_frame F s
    · exact Frame.refl _
  generalize (if s.wd.todoOwner then setOwnership F s else (s, Status.ok)) = a at ha ⊢
  have hb : Frame Op.noFx F a.1.w (if a.1.wd.todoMode then setMode F a.1 else (a.1, Status.ok)).1.w := by
    split
    · exact setMode_frame F _
    · exact Frame.refl _
  generalize (if a.1.wd.todoMode then setMode F a.1 else (a.1, Status.ok)) = b at hb ⊢
  split
  · exact (ha.trans hb).trans (setTimes_frame F _)
  · exact ha.trans hb

theorem noFx_frame_benign {F : Nat → Bool} {a b : World} (h : Frame Op.noFx F a b) : Frame Op.benign F a b :=
  h.mono fun _ => noFx_benign

theorem writeLoop_frame (F : Nat → Bool) (blk : Nat) (buf : Bytes) (s : S) :
    Frame Op.benign F s.w (writeLoop F blk buf s).1.w := by
  fun_induction writeLoop F blk buf s with
  | case1 s => exact Frame.refl _
  | case2 => exact Frame.refl _
  | case3 buf s hb k buf1 off h1 sk hsk =>
    show Frame Op.benign F s.w sk.1
    simp only [sk]; split <;> frame_auto
  | case4 buf s hb k buf1 off h1 n sk hsk r hr =>
    have h0 : Frame Op.benign F s.w sk.1 := by simp only [sk]; split <;> frame_auto
    show Frame Op.benign F s.w r.1
    simp only [r]; exact h0.snoc rfl
  | case5 buf s hb k buf1 off h1 n sk hsk r hr ih =>
    have h0 : Frame Op.benign F s.w sk.1 := by simp only [sk]; split <;> frame_auto
    refine Frame.trans ?_ ih
    show Frame Op.benign F s.w r.1
    simp only [r]; exact h0.snoc rfl

theorem writeDataBlock_frame (F : Nat → Bool) (cfg : Cfg) (buf : Bytes) (s : S) :
    Frame Op.benign F s.w (writeDataBlock F cfg buf s).1.w := by
  unfold writeDataBlock
  simp only []
  split
  · exact Frame.refl _
  · split
    · exact Frame.refl _
    · have hb : Frame Op.benign F s.w
          (if cfg.sparse = true then
            if s.wd.pst = true then (s, some cfg.blk)
            else
              match (lazyStat F cfg s).2 with
              | some _ => (⟨{ (lazyStat F cfg s).1.wd with pst := true }, (lazyStat F cfg s).1.w⟩, some cfg.blk)
              | none => ((lazyStat F cfg s).1, none)
          else (s, some 0)).1.w := by
        split
        · split
          · exact Frame.refl _
          · split <;> exact noFx_frame_benign (lazyStat_frame F cfg s)
        · exact Frame.refl _
      generalize (if cfg.sparse = true then
            if s.wd.pst = true then (s, some cfg.blk)
            else
              match (lazyStat F cfg s).2 with
              | some _ => (⟨{ (lazyStat F cfg s).1.wd with pst := true }, (lazyStat F cfg s).1.w⟩, some cfg.blk)
              | none => ((lazyStat F cfg s).1, none)
          else (s, some 0)) = b at hb ⊢
      split
      · exact hb
      · split
        · exact hb
        · split <;> exact hb.trans (writeLoop_frame F _ _ _)

theorem dataCall_frame (F : Nat → Bool) (cfg : Cfg) (buf : Bytes) (s : S) :
    Frame Op.benign F s.w (dataCall F cfg buf s).1.w := by
  unfold dataCall
  split
  · exact Frame.refl _
  · exact writeDataBlock_frame F cfg buf s

theorem blockCall_frame (F : Nat → Bool) (cfg : Cfg) (off : Nat) (buf : Bytes) (s : S) :
    Frame Op.benign F s.w (blockCall F cfg off buf s).1.w := by
  unfold blockCall
  split
  · exact Frame.refl _
  · simp only []
    split <;> exact writeDataBlock_frame F cfg buf ⟨{ s.wd with offset := off }, s.w⟩

theorem runCall_frame (F : Nat → Bool) (cfg : Cfg) (s : S) (c : Call) :
    Frame Op.benign F s.w (runCall F cfg s c).1.w := by
  cases c with
  | data b => exact dataCall_frame F cfg b s
  | block o b => exact blockCall_frame F cfg o b s

theorem runCalls_frame (F : Nat → Bool) (cfg : Cfg) (s : S) (cs : List Call) :
    Frame Op.benign F s.w (runCalls F cfg s cs).1.w := by
  induction cs generalizing s with
  | nil => exact Frame.refl _
  | cons c cs ih => exact (runCall_frame F cfg s c).trans (ih _)

theorem closeFd_frame (F : Nat → Bool) (cfg : Cfg) (s : S) :
    Frame Op.benign F s.w (closeFd F cfg s).w := by
  unfold closeFd
  simp only []
  split <;> split <;> frame_auto

theorem closeFd_frame' (F : Nat → Bool) (cfg : Cfg) (wd : WD) (w : World) :
    Frame Op.benign F w (closeFd F cfg ⟨wd, w⟩).w := closeFd_frame F cfg ⟨wd, w⟩

theorem padFallback_frame (F : Nat → Bool) (cfg : Cfg) (s : S) :
    Frame Op.benign F s.w (padFallback F cfg s).1.w := by
  unfold padFallback
  simp only []
  have h1 := noFx_frame_benign (lazyStat_frame F cfg ⟨{ s.wd with pst := false }, s.w⟩)
  split
  · exact h1.trans (closeFd_frame F cfg _)
  · split
    · split
      · exact (h1.snoc rfl).trans (closeFd_frame' F cfg _ _)
      · split
        · exact ((h1.snoc rfl).snoc rfl).trans (closeFd_frame' F cfg _ _)
        · exact (h1.snoc rfl).snoc rfl
    · exact h1

theorem extendFile_frame (F : Nat → Bool) (cfg : Cfg) (s : S) :
    Frame Op.benign F s.w (extendFile F cfg s).1.w := by
  unfold extendFile
  simp only []
  split
  · exact Frame.refl _
  · split
    · exact Frame.refl _
    · have h0 : Frame Op.benign F s.w (sys F s.w (Op.ftruncate cfg.size)).1 := by frame_auto
      split
      · exact h0.trans (closeFd_frame' F cfg _ _)
      · exact h0.trans (padFallback_frame F cfg ⟨s.wd, _⟩)

end LA.SafeWrite
