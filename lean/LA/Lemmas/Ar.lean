/- The ar writers against the ar reader (C02). Core Lean only. -/
import LA.Model.Ar
import LA.Lemmas.Bytes
import LA.Lemmas.NumFmt
import LA.Lemmas.Stream
namespace LA.Codec
open LA.NumFmt LA.Gen.ArLayout LA.Gen.CodecConsts

/-! ### `format_decimal` / `format_octal` against `ar_atol10` / `ar_atol8` -/

/-- The digits `arLoop` writes are read back by the reader's loop: `l` becomes
`l * base^(number of digits) + v`, as long as nothing comes near UINT64_MAX. -/
theorem arAtolLoop_arLoop (b : Nat) (hb : 2 ≤ b) (hb10 : b ≤ 10) (s v l : Nat) (tail : List Nat)
    (hfit : (arLoop b v (s + 1)).2.1 = 0)
    (hbound : l * b ^ (arLoop b v (s + 1)).1.length + v < 18446744073709551615 / b) :
    arAtolLoop b ((arLoop b v (s + 1)).1 ++ tail) l
      = arAtolLoop b tail (l * b ^ (arLoop b v (s + 1)).1.length + v) := by
  have hb0 : 0 < b := by omega
  induction s generalizing v l tail with
  | zero =>
    simp only [arLoop] at hfit hbound ⊢
    have hc : ¬(0 > 0 ∧ v / b > 0) := by omega
    rw [if_neg hc] at hfit hbound ⊢
    simp only [List.length_singleton, Nat.pow_one] at hbound ⊢
    have hv : v / b = 0 := hfit
    have hvb : v < b := (div_eq_zero_iff_lt v b hb0).1 hv
    simp only [List.singleton_append, arAtolLoop]
    have hd : c0 ≤ c0 + v % b ∧ c0 + v % b - c0 < b := by
      have := Nat.mod_lt v hb0; omega
    rw [if_pos hd]
    have hns : ¬(l > 18446744073709551615 / b ∨ l = 18446744073709551615 / b ∧ c0 + v % b - c0 > 18446744073709551615 % b) := by
      have : l ≤ l * b := Nat.le_mul_of_pos_right l hb0
      omega
    rw [if_neg hns]
    have : c0 + v % b - c0 = v := by rw [Nat.mod_eq_of_lt hvb]; omega
    rw [this]
  | succ s ih =>
    rw [arLoop] at hfit hbound ⊢
    by_cases hc : s + 1 > 0 ∧ v / b > 0
    · simp only [if_pos hc] at hfit hbound ⊢
      simp only [List.length_append, List.length_singleton] at hbound
      have hpow : b ^ ((arLoop b (v / b) (s + 1)).1.length + 1) = b ^ (arLoop b (v / b) (s + 1)).1.length * b := Nat.pow_succ ..
      have hdm : b * (v / b) + v % b = v := Nat.div_add_mod v b
      have hbound' : l * b ^ (arLoop b (v / b) (s + 1)).1.length + v / b < 18446744073709551615 / b := by
        rw [hpow] at hbound
        have h1 : l * b ^ (arLoop b (v / b) (s + 1)).1.length ≤ l * (b ^ (arLoop b (v / b) (s + 1)).1.length * b) := by
          rw [← Nat.mul_assoc]; exact Nat.le_mul_of_pos_right _ hb0
        have h2 : v / b ≤ v := Nat.div_le_self v b
        omega
      rw [List.append_assoc, ih (v / b) l ([c0 + v % b] ++ tail) hfit hbound']
      simp only [List.singleton_append, arAtolLoop]
      have hd : c0 ≤ c0 + v % b ∧ c0 + v % b - c0 < b := by
        have := Nat.mod_lt v hb0; omega
      rw [if_pos hd]
      have hns : ¬(l * b ^ (arLoop b (v / b) (s + 1)).1.length + v / b > 18446744073709551615 / b ∨
          l * b ^ (arLoop b (v / b) (s + 1)).1.length + v / b = 18446744073709551615 / b ∧
            c0 + v % b - c0 > 18446744073709551615 % b) := by omega
      rw [if_neg hns]
      congr 1
      simp only [List.length_append, List.length_singleton]
      rw [hpow]
      have : c0 + v % b - c0 = v % b := by omega
      rw [this, Nat.add_mul, Nat.mul_assoc]
      have : v / b * b = b * (v / b) := Nat.mul_comm ..
      omega
    · simp only [if_neg hc] at hfit hbound ⊢
      simp only [List.length_singleton, Nat.pow_one] at hbound ⊢
      have hv : v / b = 0 := hfit
      have hvb : v < b := (div_eq_zero_iff_lt v b hb0).1 hv
      simp only [List.singleton_append, arAtolLoop]
      have hd : c0 ≤ c0 + v % b ∧ c0 + v % b - c0 < b := by
        have := Nat.mod_lt v hb0; omega
      rw [if_pos hd]
      have hns : ¬(l > 18446744073709551615 / b ∨ l = 18446744073709551615 / b ∧ c0 + v % b - c0 > 18446744073709551615 % b) := by
        have : l ≤ l * b := Nat.le_mul_of_pos_right l hb0
        omega
      rw [if_neg hns]
      have : c0 + v % b - c0 = v := by rw [Nat.mod_eq_of_lt hvb]; omega
      rw [this]

theorem arLoop_head_digit (b : Nat) (hb : 2 ≤ b) (hb10 : b ≤ 10) (s v : Nat) :
    ∃ c r, (arLoop b v (s + 1)).1 = c :: r ∧ c0 ≤ c ∧ c ≤ c9 := by
  have hb0 : 0 < b := by omega
  induction s generalizing v with
  | zero =>
    simp only [arLoop]
    have hc : ¬(0 > 0 ∧ v / b > 0) := by omega
    rw [if_neg hc]
    exact ⟨_, [], rfl, by omega, by have := Nat.mod_lt v hb0; simp only [c0, c9] at *; omega⟩
  | succ s ih =>
    rw [arLoop]
    by_cases hc : s + 1 > 0 ∧ v / b > 0
    · simp only [if_pos hc]
      obtain ⟨c, r, h, h1, h2⟩ := ih (v / b)
      exact ⟨c, r ++ [c0 + v % b], by rw [h]; rfl, h1, h2⟩
    · simp only [if_neg hc]
      exact ⟨_, [], rfl, by omega, by have := Nat.mod_lt v hb0; simp only [c0, c9] at *; omega⟩

/-- A field the writer formatted without complaint is parsed back exactly. -/
theorem arAtol_arFormat (b : Nat) (hb : 2 ≤ b) (hb10 : b ≤ 10) (v : Int) (s : Nat) (hs : 0 < s)
    (hok : (arFormat b v s).1 = false) (hsmall : b ^ s < 18446744073709551615 / b) :
    ((arAtol b (arFormat b v s).2 : Nat) : Int) = v := by
  obtain ⟨s', rfl⟩ : ∃ s', s = s' + 1 := ⟨s - 1, by omega⟩
  unfold arFormat at hok ⊢
  by_cases hneg : v < 0
  · rw [if_pos hneg] at hok; cases hok
  · rw [if_neg hneg] at hok ⊢
    simp only [] at hok ⊢
    by_cases h0 : (arLoop b v.toNat (s' + 1)).2.1 = 0
    · rw [if_pos h0] at hok ⊢
      simp only []
      have hspec := arLoop_spec b hb s' v.toNat
      have hlt : v.toNat < b ^ (s' + 1) := hspec.2.1 h0
      obtain ⟨c, r, hcr, hc1, hc2⟩ := arLoop_head_digit b hb hb10 s' v.toNat
      unfold arAtol
      have hdb : dropBlanks ((arLoop b v.toNat (s' + 1)).1 ++ List.replicate (arLoop b v.toNat (s' + 1)).2.2 sp)
          = (arLoop b v.toNat (s' + 1)).1 ++ List.replicate (arLoop b v.toNat (s' + 1)).2.2 sp := by
        rw [hcr]
        simp only [List.cons_append, dropBlanks]
        have : ¬(c = sp ∨ c = 9) := by simp only [c0, sp] at *; omega
        rw [if_neg this]
      rw [hdb, arAtolLoop_arLoop b hb hb10 s' v.toNat 0 _ h0 (by simp only [Nat.zero_mul, Nat.zero_add]; omega)]
      simp only [Nat.zero_mul, Nat.zero_add]
      have hstop : arAtolLoop b (List.replicate (arLoop b v.toNat (s' + 1)).2.2 sp) v.toNat = v.toNat := by
        cases (arLoop b v.toNat (s' + 1)).2.2 with
        | zero => rfl
        | succ k =>
          simp only [List.replicate_succ, arAtolLoop]
          have : ¬(c0 ≤ sp ∧ sp - c0 < b) := by simp only [c0, sp]; omega
          rw [if_neg this]
      rw [hstop]
      omega
    · rw [if_neg h0] at hok; cases hok

theorem arFormat_length (b : Nat) (hb : 2 ≤ b) (v : Int) (s : Nat) (hs : 0 < s) : (arFormat b v s).2.length = s := by
  obtain ⟨s', rfl⟩ : ∃ s', s = s' + 1 := ⟨s - 1, by omega⟩
  unfold arFormat
  split
  · simp
  · simp only []
    split
    · simp only [List.length_append, List.length_replicate]; exact (arLoop_spec b hb s' v.toNat).1
    · simp

/-! ### the 60-byte member header -/

/-- The header block: spaces, the magic, the name field, the five numeric fields. -/
def arBuff (nf d u g m s : List Nat) : List Nat :=
  applyWrites (List.replicate 60 sp) ([(ar_fmag_offset, [96, 10]), (ar_name_offset, nf)] ++
    [(ar_date_offset, d), (ar_uid_offset, u), (ar_gid_offset, g), (ar_mode_offset, m), (ar_size_offset, s)])

def arFieldTable (nf d u g m s : List Nat) : List FieldW :=
  [⟨ar_fmag_offset, 2, [96, 10]⟩, ⟨ar_name_offset, 16, nf⟩, ⟨ar_date_offset, 12, d⟩, ⟨ar_uid_offset, 6, u⟩,
   ⟨ar_gid_offset, 6, g⟩, ⟨ar_mode_offset, 8, m⟩, ⟨ar_size_offset, 10, s⟩]

theorem arBuff_eq (nf d u g m s : List Nat) :
    arBuff nf d u g m s = applyWrites (List.replicate 60 sp) (fieldWrites (arFieldTable nf d u g m s)) := rfl

theorem slice_replicate (n o k c : Nat) (h : o + k ≤ n) : slice (List.replicate n c) o k = List.replicate k c := by
  apply slice_eq_replicate _ _ _ _ (by simpa using h)
  intro i _ hi
  rw [List.getElem?_replicate, if_pos (by omega)]

structure ArBuffOK (nf d u g m s : List Nat) : Prop where
  nf : nf.length ≤ 16
  d : d.length = 12
  u : u.length = 6
  g : g.length = 6
  m : m.length = 8
  s : s.length = 10

theorem arBuff_fields (nf d u g m s : List Nat) (hk : ArBuffOK nf d u g m s) :
    (arBuff nf d u g m s).length = 60 ∧
    slice (arBuff nf d u g m s) ar_fmag_offset 2 = [96, 10] ∧
    slice (arBuff nf d u g m s) ar_name_offset ar_name_size = nf ++ List.replicate (16 - nf.length) sp ∧
    slice (arBuff nf d u g m s) ar_date_offset ar_date_size = d ∧
    slice (arBuff nf d u g m s) ar_uid_offset ar_uid_size = u ∧
    slice (arBuff nf d u g m s) ar_gid_offset ar_gid_size = g ∧
    slice (arBuff nf d u g m s) ar_mode_offset ar_mode_size = m ∧
    slice (arBuff nf d u g m s) ar_size_offset ar_size_size = s := by
  obtain ⟨hnf, hd, hu, hg, hm, hs⟩ := hk
  have hfit : ∀ f ∈ arFieldTable nf d u g m s, f.bytes.length ≤ f.width ∧ f.off + f.width ≤ (List.replicate 60 sp).length := by
    intro f hf
    simp only [arFieldTable, List.mem_cons, List.mem_nil_iff, or_false] at hf
    rcases hf with rfl | rfl | rfl | rfl | rfl | rfl | rfl <;>
      simp only [List.length_replicate, List.length_cons, List.length_nil, ar_fmag_offset, ar_name_offset, ar_date_offset,
        ar_uid_offset, ar_gid_offset, ar_mode_offset, ar_size_offset, hd, hu, hg, hm, hs] <;> omega
  have hdis : (arFieldTable nf d u g m s).Pairwise FieldW.disjoint := by
    simp only [arFieldTable, List.pairwise_cons, List.mem_cons, List.mem_nil_iff, or_false, forall_eq_or_imp, forall_eq,
      FieldW.disjoint, List.Pairwise.nil, List.not_mem_nil, false_imp_iff, implies_true, and_true,
      ar_fmag_offset, ar_name_offset, ar_date_offset, ar_uid_offset, ar_gid_offset, ar_mode_offset, ar_size_offset]
    omega
  have hr := field_read (List.replicate 60 sp) (arFieldTable nf d u g m s) hfit hdis
  rw [arBuff_eq]
  have h0 := hr ⟨ar_fmag_offset, 2, [96, 10]⟩ (.head _)
  have h1 := hr ⟨ar_name_offset, 16, nf⟩ (.tail _ (.head _))
  have h2 := hr ⟨ar_date_offset, 12, d⟩ (.tail _ (.tail _ (.head _)))
  have h3 := hr ⟨ar_uid_offset, 6, u⟩ (.tail _ (.tail _ (.tail _ (.head _))))
  have h4 := hr ⟨ar_gid_offset, 6, g⟩ (.tail _ (.tail _ (.tail _ (.tail _ (.head _)))))
  have h5 := hr ⟨ar_mode_offset, 8, m⟩ (.tail _ (.tail _ (.tail _ (.tail _ (.tail _ (.head _))))))
  have h6 := hr ⟨ar_size_offset, 10, s⟩ (.tail _ (.tail _ (.tail _ (.tail _ (.tail _ (.tail _ (.head _)))))))
  simp only [hd, hu, hg, hm, hs, Nat.sub_self, List.length_cons, List.length_nil] at h0 h1 h2 h3 h4 h5 h6
  refine ⟨by rw [fieldWrites_length _ _ hfit, List.length_replicate], ?_, ?_, ?_, ?_, ?_, ?_, ?_⟩
  · rw [h0]; simp [slice]
  · rw [show ar_name_size = 16 from rfl, h1, slice_replicate 60 _ _ _ (by simp only [ar_name_offset]; omega)]
  · rw [show ar_date_size = 12 from rfl, h2]; simp [slice]
  · rw [show ar_uid_size = 6 from rfl, h3]; simp [slice]
  · rw [show ar_gid_size = 6 from rfl, h4]; simp [slice]
  · rw [show ar_mode_size = 8 from rfl, h5]; simp [slice]
  · rw [show ar_size_size = 10 from rfl, h6]; simp [slice]

theorem poke_snoc_same (h x : List Nat) (c : Nat) (hx : h[x.length]? = some c) :
    poke h 0 (x ++ [c]) = poke h 0 x := by
  unfold poke
  simp only [List.take_zero, List.nil_append, Nat.zero_add, List.length_append, List.length_singleton, List.append_assoc]
  congr 1
  have hlt : x.length < h.length := by
    rcases Nat.lt_or_ge x.length h.length with h1 | h1
    · exact h1
    · rw [List.getElem?_eq_none h1] at hx; cases hx
  rw [List.getElem?_eq_getElem hlt] at hx
  have := List.drop_eq_getElem_cons hlt
  rw [this, Option.some.inj hx]; rfl

/-- BSD short names: the blank the C writes after the name is a blank already. -/
theorem arBuff_snoc_sp (name d u g m s : List Nat) (hn : name.length ≤ 16) :
    arBuff (name ++ [sp]) d u g m s = arBuff name d u g m s := by
  unfold arBuff
  simp only [List.cons_append, List.nil_append, applyWrites]
  have key : poke (poke (List.replicate 60 sp) ar_fmag_offset [96, 10]) ar_name_offset (name ++ [sp])
      = poke (poke (List.replicate 60 sp) ar_fmag_offset [96, 10]) ar_name_offset name := by
    apply poke_snoc_same
    unfold poke
    simp only [ar_fmag_offset]
    rw [List.getElem?_append_left (by simp only [List.length_append, List.length_take, List.length_replicate, List.length_cons, List.length_nil]; omega),
      List.getElem?_append_left (by simp only [List.length_take, List.length_replicate]; omega),
      List.getElem?_take_of_lt (by omega), List.getElem?_replicate, if_pos (by omega)]
  rw [key]

/-! ### names -/

theorem splitSlash_cons (c : Nat) (p : List Nat) :
    splitSlash (c :: p) = if c = slash then [] :: splitSlash p
      else (c :: (splitSlash p).headD []) :: (splitSlash p).tail := by
  unfold splitSlash
  simp only [List.foldr_cons]
  split <;> simp

theorem splitSlash_ne_nil (p : List Nat) : splitSlash p ≠ [] := by unfold splitSlash; simp

/-- The last component of a non-empty pathname that does not end in '/': non-empty, no '/'. -/
theorem basename_spec (p : List Nat) :
    (∀ c ∈ basename p, c ≠ slash) ∧ (p ≠ [] → p.getLast? ≠ some slash → basename p ≠ []) := by
  induction p with
  | nil => unfold basename splitSlash; simp
  | cons c p ih =>
    obtain ⟨ih1, ih2⟩ := ih
    have hne := splitSlash_ne_nil p
    unfold basename at ih1 ih2 ⊢
    rw [splitSlash_cons]
    obtain ⟨x, xs, hS⟩ : ∃ x xs, splitSlash p = x :: xs := by
      cases h : splitSlash p with
      | nil => exact absurd h hne
      | cons x xs => exact ⟨x, xs, rfl⟩
    rw [hS] at ih1 ih2 ⊢
    by_cases hc : c = slash
    · rw [if_pos hc]
      simp only [List.getLast?_cons_cons] at ih1 ih2 ⊢
      refine ⟨ih1, ?_⟩
      intro _ hl
      cases p with
      | nil => simp [hc] at hl
      | cons c' p' =>
        simp only [List.getLast?_cons_cons] at hl
        exact ih2 (by simp) hl
    · rw [if_neg hc]
      simp only [List.headD_cons, List.tail_cons]
      cases xs with
      | nil =>
        simp only [List.getLast?_singleton, Option.getD_some] at ih1 ih2 ⊢
        refine ⟨?_, fun _ _ => by simp⟩
        intro a ha
        simp only [List.mem_cons] at ha
        rcases ha with rfl | ha
        · exact hc
        · exact ih1 a ha
      | cons y ys =>
        simp only [List.getLast?_cons_cons] at ih1 ih2 ⊢
        refine ⟨ih1, ?_⟩
        intro _ hl
        cases p with
        | nil => unfold splitSlash at hS; simp at hS
        | cons c' p' =>
          simp only [List.getLast?_cons_cons] at hl
          exact ih2 (by simp) hl

theorem trimSpaces_append (x : List Nat) (k : Nat) (hx : x.getLast? ≠ some sp) :
    trimSpaces (x ++ List.replicate k sp) = x := by
  unfold trimSpaces
  rw [List.reverse_append, List.reverse_replicate]
  have h1 : ∀ (k : Nat) (r : List Nat), (List.replicate k sp ++ r).dropWhile (· = sp) = r.dropWhile (· = sp) := by
    intro k r
    induction k with
    | zero => rfl
    | succ k ih => simp only [List.replicate_succ, List.cons_append, List.dropWhile_cons, decide_true, if_true]; exact ih
  rw [h1]
  cases hr : x.reverse with
  | nil => rw [List.reverse_eq_nil_iff] at hr; rw [hr]; rfl
  | cons a r =>
    have ha : a ≠ sp := by
      intro h
      apply hx
      have : x = (a :: r).reverse := by rw [← hr, List.reverse_reverse]
      rw [this, h]; simp
    simp only [List.dropWhile_cons, ha, decide_false, Bool.false_eq_true, if_false]
    rw [← hr, List.reverse_reverse]

/-! ### the numeric fields of an accepted header -/

/-- The header block of an accepted member with name field `nf`. -/
def arHdr (e : Entry) (size : Int) (nf : List Nat) : List Nat :=
  arBuff nf (arFormat 10 e.mtime ar_date_size).2 (arFormat 10 e.uid ar_uid_size).2 (arFormat 10 e.gid ar_gid_size).2
    (arFormat 8 (e.mode : Nat) ar_mode_size).2 (arFormat 10 size ar_size_size).2

theorem arHdr_ok (e : Entry) (size : Int) (nf : List Nat) (hnf : nf.length ≤ 16) :
    ArBuffOK nf (arFormat 10 e.mtime ar_date_size).2 (arFormat 10 e.uid ar_uid_size).2 (arFormat 10 e.gid ar_gid_size).2
      (arFormat 8 (e.mode : Nat) ar_mode_size).2 (arFormat 10 size ar_size_size).2 :=
  ⟨hnf, arFormat_length 10 (by omega) _ _ (by decide), arFormat_length 10 (by omega) _ _ (by decide),
   arFormat_length 10 (by omega) _ _ (by decide), arFormat_length 8 (by omega) _ _ (by decide),
   arFormat_length 10 (by omega) _ _ (by decide)⟩

theorem arStatFields_some (e : Entry) (size : Int) (fs : List (Nat × List Nat)) (h : arStatFields e size = some fs) :
    (arFormat 10 e.mtime ar_date_size).1 = false ∧ (arFormat 10 e.uid ar_uid_size).1 = false ∧
    (arFormat 10 e.gid ar_gid_size).1 = false ∧ (arFormat 8 (e.mode : Nat) ar_mode_size).1 = false ∧
    e.ftype = .reg ∧ (arFormat 10 size ar_size_size).1 = false ∧
    fs = [(ar_date_offset, (arFormat 10 e.mtime ar_date_size).2), (ar_uid_offset, (arFormat 10 e.uid ar_uid_size).2),
          (ar_gid_offset, (arFormat 10 e.gid ar_gid_size).2), (ar_mode_offset, (arFormat 8 (e.mode : Nat) ar_mode_size).2),
          (ar_size_offset, (arFormat 10 size ar_size_size).2)] := by
  unfold arStatFields at h
  simp only [] at h
  split at h
  · cases h
  · rename_i h1
    split at h
    · cases h
    · rename_i h2
      split at h
      · cases h
      · rename_i h3
        simp only [not_or, Bool.not_eq_true] at h1
        simp only [ne_eq, Decidable.not_not] at h2
        simp only [Bool.not_eq_true] at h3
        exact ⟨h1.1, h1.2.1, h1.2.2.1, h1.2.2.2, h2, h3, (Option.some.inj h).symm⟩

theorem arFormat_fits (b : Nat) (hb : 2 ≤ b) (v : Int) (s : Nat) (hs : 0 < s) (h : (arFormat b v s).1 = false) :
    0 ≤ v ∧ v.toNat < b ^ s := by
  obtain ⟨s', rfl⟩ : ∃ s', s = s' + 1 := ⟨s - 1, by omega⟩
  unfold arFormat at h
  by_cases hneg : v < 0
  · rw [if_pos hneg] at h; cases h
  · rw [if_neg hneg] at h
    simp only [] at h
    by_cases h0 : (arLoop b v.toNat (s' + 1)).2.1 = 0
    · exact ⟨by omega, (arLoop_spec b hb s' v.toNat).2.1 h0⟩
    · rw [if_neg h0] at h; cases h

/-- The entry `ar_parse_common_header` builds from an accepted header. -/
def arRB (e : Entry) (size : Int) (path : List Nat) : RB :=
  { rbSetMode { ({} : RB) with path := path, mtime := some e.mtime, uid := e.uid, gid := e.gid, size := some size } e.mode
    with ftype := AE_IFREG }

theorem toI64_small' (n : Nat) (h : n < 9223372036854775808) : toI64 n = (n : Int) := by
  unfold toI64
  have : n % 18446744073709551616 = n := Nat.mod_eq_of_lt (by omega)
  simp only [this, if_pos h]

theorem arCommon_hdr (e : Entry) (size : Int) (nf path : List Nat) (hnf : nf.length ≤ 16)
    (fs : List (Nat × List Nat)) (hst : arStatFields e size = some fs) :
    arCommon (arHdr e size nf) path = (arRB e size path, size.toNat) := by
  obtain ⟨h1, h2, h3, h4, _, h6, _⟩ := arStatFields_some e size fs hst
  obtain ⟨_, _, _, fd, fu, fg, fm, fsz⟩ := arBuff_fields _ _ _ _ _ _ (arHdr_ok e size nf hnf)
  have r1 := arAtol_arFormat 10 (by omega) (by omega) e.mtime ar_date_size (by decide) h1 (by decide)
  have r2 := arAtol_arFormat 10 (by omega) (by omega) e.uid ar_uid_size (by decide) h2 (by decide)
  have r3 := arAtol_arFormat 10 (by omega) (by omega) e.gid ar_gid_size (by decide) h3 (by decide)
  have r4 := arAtol_arFormat 8 (by omega) (by omega) (e.mode : Nat) ar_mode_size (by decide) h4 (by decide)
  have r6 := arAtol_arFormat 10 (by omega) (by omega) size ar_size_size (by decide) h6 (by decide)
  have b1 := arFormat_fits 10 (by omega) _ _ (by decide) h1
  have b2 := arFormat_fits 10 (by omega) _ _ (by decide) h2
  have b3 := arFormat_fits 10 (by omega) _ _ (by decide) h3
  have b6 := arFormat_fits 10 (by omega) _ _ (by decide) h6
  have p12 : (10 : Nat) ^ ar_date_size = 1000000000000 := by decide
  have p6 : (10 : Nat) ^ ar_uid_size = 1000000 := by decide
  have p6' : (10 : Nat) ^ ar_gid_size = 1000000 := by decide
  have p10 : (10 : Nat) ^ ar_size_size = 10000000000 := by decide
  unfold arCommon arHdr arRB
  simp only [fd, fu, fg, fm, fsz]
  have e1 : arAtol 10 (arFormat 10 e.mtime ar_date_size).2 = e.mtime.toNat := by omega
  have e2 : arAtol 10 (arFormat 10 e.uid ar_uid_size).2 = e.uid.toNat := by omega
  have e3 : arAtol 10 (arFormat 10 e.gid ar_gid_size).2 = e.gid.toNat := by omega
  have e4 : arAtol 8 (arFormat 8 (e.mode : Nat) ar_mode_size).2 = e.mode := by omega
  have e6 : arAtol 10 (arFormat 10 size ar_size_size).2 = size.toNat := by omega
  rw [e1, e2, e3, e4, e6]
  have t1 : toI64 e.mtime.toNat = e.mtime := by rw [toI64_small' _ (by omega)]; omega
  have t6 : toI64 size.toNat = size := by rw [toI64_small' _ (by omega)]; omega
  have u2 : ((e.uid.toNat % 4294967296 : Nat) : Int) = e.uid := by omega
  have u3 : ((e.gid.toNat % 4294967296 : Nat) : Int) = e.gid := by omega
  rw [t1, t6, u2, u3]
  have : ¬ size < 0 := by omega
  simp only [this, if_false]

/-! ### one member under the reader -/

/-- The reader's view of the name field: C string, trailing blanks cut, one trailing '/' cut. -/
def arTrimmed (h : List Nat) : List Nat :=
  let t := trimSpaces (cstr (slice h ar_name_offset ar_name_size))
  if t.head? ≠ some slash ∧ t.length > 1 ∧ t.getLast? = some slash then t.dropLast else t

/-- A name that is none of the special forms the reader dispatches on. -/
def ArPlainName (name : List Nat) : Prop :=
  name ≠ [] ∧ (∀ c ∈ name, c ≠ slash) ∧ name ≠ [95, 95, 46, 83, 89, 77, 68, 69, 70]

theorem arPlain_dispatch (name : List Nat) (h : ArPlainName name) :
    ¬ (name = [47, 47] ∨ name = [47] ∨ name = [47, 83, 89, 77, 54, 52, 47] ∨ name = [95, 95, 46, 83, 89, 77, 68, 69, 70]) ∧
    ¬ (name.head? = some slash ∧ c0 ≤ name.getD 1 0 ∧ name.getD 1 0 ≤ c9) ∧
    ¬ (name.take 3 = [35, 49, 47]) := by
  obtain ⟨hne, hns, hsym⟩ := h
  have hhead : name.head? ≠ some slash := by
    cases name with
    | nil => simp
    | cons a r => simp only [List.head?_cons, ne_eq, Option.some.injEq]; exact hns a (List.mem_cons_self ..)
  refine ⟨?_, fun h => hhead h.1, ?_⟩
  · rintro (h | h | h | h)
    · exact hns 47 (by rw [h]; simp) rfl
    · exact hns 47 (by rw [h]; simp) rfl
    · exact hns 47 (by rw [h]; simp) rfl
    · exact hsym h
  · intro h
    have : slash ∈ name.take 3 := by rw [h]; simp [slash]
    exact hns slash (List.mem_of_mem_take this) rfl

/-- A member with a short name: header, body, one "\n" after an odd-sized body. -/
theorem arRead_short (H : List Nat) (name body more : List Nat) (fmt : Nat) (acc : List RB)
    (hlen : H.length = 60) (hmag : slice H ar_fmag_offset 2 = [96, 10])
    (hname : arTrimmed H = name) (hpl : ArPlainName name)
    (hsize : (arCommon H name).2 = body.length) :
    ∃ fmt', arRead false (H ++ (body ++ (List.replicate (body.length % 2) 10 ++ more))) fmt acc
      = arRead false more fmt' ({ (arCommon H name).1 with body := body } :: acc) := by
  obtain ⟨hd1, hd2, hd3⟩ := arPlain_dispatch name hpl
  rw [arRead]
  have hl : ¬ (H ++ (body ++ (List.replicate (body.length % 2) 10 ++ more))).length < 60 := by
    simp only [List.length_append, hlen]; omega
  rw [if_neg hl]
  have htake : (H ++ (body ++ (List.replicate (body.length % 2) 10 ++ more))).take 60 = H := by
    rw [← hlen, List.take_left]
  have hdrop : (H ++ (body ++ (List.replicate (body.length % 2) 10 ++ more))).drop 60
      = body ++ (List.replicate (body.length % 2) 10 ++ more) := by
    rw [← hlen, List.drop_left]
  simp only [htake, hdrop, hmag, ne_eq, not_true_eq_false, if_false]
  unfold arTrimmed at hname
  simp only [] at hname
  simp only [hname]
  rw [if_neg hpl.1, if_neg hd1, if_neg hd2, if_neg hd3]
  simp only [Bool.false_eq_true, false_and, if_false, hsize]
  have hl2 : ¬ (body ++ (List.replicate (body.length % 2) 10 ++ more)).length < body.length + body.length % 2 := by
    simp only [List.length_append, List.length_replicate]; omega
  rw [if_neg hl2]
  have hd : (body ++ (List.replicate (body.length % 2) 10 ++ more)).drop (body.length + body.length % 2) = more := by
    rw [← List.append_assoc]
    have : (body ++ List.replicate (body.length % 2) 10).length = body.length + body.length % 2 := by
      simp only [List.length_append, List.length_replicate]
    rw [← this, List.drop_left]
  have ht : (body ++ (List.replicate (body.length % 2) 10 ++ more)).take body.length = body := List.take_left
  rw [hd, ht]
  exact ⟨_, rfl⟩

/-- A BSD member with a long name: header with `#1/<len>`, the name, the body, the pad byte. -/
theorem arRead_long (H : List Nat) (ds name body more : List Nat) (fmt : Nat) (acc : List RB)
    (hlen : H.length = 60) (hmag : slice H ar_fmag_offset 2 = [96, 10])
    (ht : arTrimmed H = 35 :: 49 :: 47 :: ds)
    (hnum : arAtol 10 (slice H (ar_name_offset + 3) (ar_name_size - 3)) = name.length)
    (hnl : name.length ≤ 1048576) (hnn : noNul name)
    (hsize : (arCommon H (35 :: 49 :: 47 :: ds)).2 = name.length + body.length) :
    ∃ fmt', arRead false (H ++ (name ++ (body ++ (List.replicate ((name.length + body.length) % 2) 10 ++ more)))) fmt acc
      = arRead false more fmt'
          ({ ({ (arCommon H (35 :: 49 :: 47 :: ds)).1 with path := name, size := some ((body.length : Nat) : Int) } : RB)
             with body := body } :: acc) := by
  rw [arRead]
  have hl : ¬ (H ++ (name ++ (body ++ (List.replicate ((name.length + body.length) % 2) 10 ++ more)))).length < 60 := by
    simp only [List.length_append, hlen]; omega
  rw [if_neg hl]
  have htake : (H ++ (name ++ (body ++ (List.replicate ((name.length + body.length) % 2) 10 ++ more)))).take 60 = H := by
    rw [← hlen, List.take_left]
  have hdrop : (H ++ (name ++ (body ++ (List.replicate ((name.length + body.length) % 2) 10 ++ more)))).drop 60
      = name ++ (body ++ (List.replicate ((name.length + body.length) % 2) 10 ++ more)) := by
    rw [← hlen, List.drop_left]
  simp only [htake, hdrop, hmag, ne_eq, not_true_eq_false, if_false]
  unfold arTrimmed at ht
  simp only [] at ht
  simp only [ht]
  have c1 : ¬ (35 :: 49 :: 47 :: ds = []) := by simp
  have c2 : ¬ (35 :: 49 :: 47 :: ds = [47, 47] ∨ 35 :: 49 :: 47 :: ds = [47] ∨ 35 :: 49 :: 47 :: ds = [47, 83, 89, 77, 54, 52, 47]
      ∨ 35 :: 49 :: 47 :: ds = [95, 95, 46, 83, 89, 77, 68, 69, 70]) := by simp
  have c3 : ¬ ((35 :: 49 :: 47 :: ds).head? = some slash ∧ c0 ≤ (35 :: 49 :: 47 :: ds).getD 1 0 ∧ (35 :: 49 :: 47 :: ds).getD 1 0 ≤ c9) := by
    simp [slash]
  have c4 : (35 :: 49 :: 47 :: ds).take 3 = [35, 49, 47] := rfl
  rw [if_neg c1, if_neg c2, if_neg c3, if_pos c4]
  simp only [hnum, hsize]
  have c5 : ¬ (name.length > 1048576 ∨ name.length > name.length + body.length) := by omega
  rw [if_neg c5]
  have c6 : ¬ (name ++ (body ++ (List.replicate ((name.length + body.length) % 2) 10 ++ more))).length < name.length := by
    simp only [List.length_append]; omega
  rw [if_neg c6]
  have t1 : (name ++ (body ++ (List.replicate ((name.length + body.length) % 2) 10 ++ more))).take name.length = name := List.take_left
  have d1 : (name ++ (body ++ (List.replicate ((name.length + body.length) % 2) 10 ++ more))).drop name.length
      = body ++ (List.replicate ((name.length + body.length) % 2) 10 ++ more) := List.drop_left
  have hsub : name.length + body.length - name.length = body.length := by omega
  simp only [t1, d1, cstr_full name hnn, hsub, Bool.false_eq_true, false_and, if_false]
  have c7 : ¬ (body ++ (List.replicate ((name.length + body.length) % 2) 10 ++ more)).length
      < body.length + (name.length + body.length) % 2 := by
    simp only [List.length_append, List.length_replicate]; omega
  rw [if_neg c7]
  have hd : (body ++ (List.replicate ((name.length + body.length) % 2) 10 ++ more)).drop
      (body.length + (name.length + body.length) % 2) = more := by
    rw [← List.append_assoc]
    have : (body ++ List.replicate ((name.length + body.length) % 2) 10).length = body.length + (name.length + body.length) % 2 := by
      simp only [List.length_append, List.length_replicate]
    rw [← this, List.drop_left]
  have htk : (body ++ (List.replicate ((name.length + body.length) % 2) 10 ++ more)).take body.length = body := List.take_left
  rw [hd, htk]
  exact ⟨_, rfl⟩

/-! ### what the reader makes of the name field -/

theorem arLoop_digits (b : Nat) (hb : 2 ≤ b) (hb10 : b ≤ 10) (s v : Nat) :
    ∀ c ∈ (arLoop b v s).1, c0 ≤ c ∧ c ≤ c9 := by
  have hb0 : 0 < b := by omega
  induction s generalizing v with
  | zero => intro c hc; simp [arLoop] at hc
  | succ s ih =>
    intro c hc
    rw [arLoop] at hc
    have hd : c0 ≤ c0 + v % b ∧ c0 + v % b ≤ c9 := by
      have := Nat.mod_lt v hb0; simp only [c0, c9] at *; omega
    split at hc
    · simp only [List.mem_append, List.mem_singleton] at hc
      rcases hc with hc | rfl
      · exact ih _ c hc
      · exact hd
    · simp only [List.mem_singleton] at hc
      rw [hc]; exact hd

theorem noNul_append {a b : List Nat} (ha : noNul a) (hb : noNul b) : noNul (a ++ b) := by
  intro c hc
  rcases List.mem_append.1 hc with h | h
  · exact ha c h
  · exact hb c h

theorem noNul_replicate_sp (k : Nat) : noNul (List.replicate k sp) := by
  intro c hc; rw [(List.mem_replicate.1 hc).2]; decide

theorem getLast?_append_ne (a b : List Nat) (hb : b ≠ []) : (a ++ b).getLast? = b.getLast? := by
  rw [List.getLast?_append]
  cases h : b.getLast? with
  | none => rw [List.getLast?_eq_none_iff] at h; exact absurd h hb
  | some x => rfl

theorem arTrimmed_svr4 (e : Entry) (size : Int) (name : List Nat) (hn : name.length ≤ 15) (hnn : noNul name)
    (hne : name ≠ []) (hns : ∀ c ∈ name, c ≠ slash) :
    arTrimmed (arHdr e size (name ++ [slash])) = name := by
  obtain ⟨_, _, fname, _⟩ := arBuff_fields _ _ _ _ _ _ (arHdr_ok e size (name ++ [slash]) (by simp; omega))
  unfold arTrimmed arHdr
  rw [fname]
  have hnul : noNul (name ++ [slash] ++ List.replicate (16 - (name ++ [slash]).length) sp) :=
    noNul_append (noNul_append hnn (by intro c hc; simp at hc; rw [hc]; decide)) (noNul_replicate_sp _)
  rw [cstr_full _ hnul, trimSpaces_append _ _ (by simp [slash, sp])]
  simp only []
  have h1 : (name ++ [slash]).head? ≠ some slash := by
    cases name with
    | nil => exact absurd rfl hne
    | cons a r => simp only [List.cons_append, List.head?_cons, ne_eq, Option.some.injEq]; exact hns a (List.mem_cons_self ..)
  have h2 : (name ++ [slash]).length > 1 := by
    have : name.length ≠ 0 := fun h => hne (List.eq_nil_of_length_eq_zero h)
    simp only [List.length_append, List.length_singleton]; omega
  have h3 : (name ++ [slash]).getLast? = some slash := by simp
  rw [if_pos ⟨h1, h2, h3⟩]
  simp

theorem arTrimmed_bsd_short (e : Entry) (size : Int) (name : List Nat) (hn : name.length ≤ 16) (hnn : noNul name)
    (hns : ∀ c ∈ name, c ≠ slash) (hsp : ¬ name.contains sp) :
    arTrimmed (arHdr e size name) = name := by
  obtain ⟨_, _, fname, _⟩ := arBuff_fields _ _ _ _ _ _ (arHdr_ok e size name hn)
  unfold arTrimmed arHdr
  rw [fname]
  have hnul : noNul (name ++ List.replicate (16 - name.length) sp) := noNul_append hnn (noNul_replicate_sp _)
  have hlast : name.getLast? ≠ some sp := by
    intro h
    apply hsp
    have : sp ∈ name := List.mem_of_getLast? h
    simpa using this
  rw [cstr_full _ hnul, trimSpaces_append _ _ hlast]
  simp only []
  have h3 : ¬ (name.head? ≠ some slash ∧ name.length > 1 ∧ name.getLast? = some slash) := by
    intro h
    exact hns slash (List.mem_of_getLast? h.2.2) rfl
  rw [if_neg h3]

theorem arTrimmed_bsd_long (e : Entry) (size : Int) (len : Nat)
    (hok : (arFormat 10 (len : Nat) (ar_name_size - 3)).1 = false) :
    arTrimmed (arHdr e size ([35, 49, 47] ++ (arFormat 10 (len : Nat) (ar_name_size - 3)).2))
      = 35 :: 49 :: 47 :: (arLoop 10 len 13).1 ∧
    arAtol 10 (slice (arHdr e size ([35, 49, 47] ++ (arFormat 10 (len : Nat) (ar_name_size - 3)).2)) (ar_name_offset + 3) (ar_name_size - 3))
      = len := by
  have hfl : (arFormat 10 (len : Nat) (ar_name_size - 3)).2.length = 13 := arFormat_length 10 (by omega) _ _ (by decide)
  have hnfl : ([35, 49, 47] ++ (arFormat 10 (len : Nat) (ar_name_size - 3)).2).length = 16 := by
    simp only [List.length_append, hfl, List.length_cons, List.length_nil]
  obtain ⟨hlen, _, fname, _⟩ := arBuff_fields _ _ _ _ _ _ (arHdr_ok e size ([35, 49, 47] ++ (arFormat 10 (len : Nat) (ar_name_size - 3)).2) (by omega))
  have hfits := arFormat_fits 10 (by omega) _ _ (by decide) hok
  have hform : (arFormat 10 (len : Nat) (ar_name_size - 3)).2
      = (arLoop 10 len 13).1 ++ List.replicate (arLoop 10 len 13).2.2 sp := by
    have h0 : (arLoop 10 len 13).2.1 = 0 := (arLoop_spec 10 (by omega) 12 len).2.2 (by
      have : ar_name_size - 3 = 13 := rfl
      rw [this] at hfits; simpa using hfits.2)
    unfold arFormat
    have : ¬ ((len : Nat) : Int) < 0 := by omega
    rw [if_neg this]
    simp only [Int.toNat_natCast, show ar_name_size - 3 = 13 from rfl, h0, if_true]
  rw [hnfl] at fname
  simp only [Nat.sub_self, List.replicate_zero, List.append_nil] at fname
  constructor
  · unfold arTrimmed arHdr
    rw [fname]
    have hdig := arLoop_digits 10 (by omega) (by omega) 13 len
    have hnul : noNul ([35, 49, 47] ++ (arFormat 10 (len : Nat) (ar_name_size - 3)).2) := by
      rw [hform]
      refine noNul_append (by intro c hc; simp at hc; rcases hc with rfl | rfl | rfl <;> decide)
        (noNul_append ?_ (noNul_replicate_sp _))
      intro c hc; have := hdig c hc; simp only [c0] at this; omega
    rw [cstr_full _ hnul, hform, ← List.append_assoc]
    obtain ⟨c, r, hcr, _, _⟩ := arLoop_head_digit 10 (by omega) (by omega) 12 len
    have hlast : ([35, 49, 47] ++ (arLoop 10 len 13).1).getLast? ≠ some sp := by
      have hne : (arLoop 10 len 13).1 ≠ [] := by rw [hcr]; simp
      rw [getLast?_append_ne _ _ hne]
      intro h
      have := hdig sp (List.mem_of_getLast? h)
      simp only [c0, sp] at this; omega
    rw [trimSpaces_append _ _ hlast]
    simp only []
    have h3 : ¬ (([35, 49, 47] ++ (arLoop 10 len 13).1).head? ≠ some slash ∧ ([35, 49, 47] ++ (arLoop 10 len 13).1).length > 1 ∧
        ([35, 49, 47] ++ (arLoop 10 len 13).1).getLast? = some slash) := by
      intro h
      have hne : (arLoop 10 len 13).1 ≠ [] := by rw [hcr]; simp
      rw [getLast?_append_ne _ _ hne] at h
      have := hdig slash (List.mem_of_getLast? h.2.2)
      simp only [c0, slash] at this; omega
    rw [if_neg h3]; rfl
  · have : slice (arHdr e size ([35, 49, 47] ++ (arFormat 10 (len : Nat) (ar_name_size - 3)).2)) (ar_name_offset + 3) (ar_name_size - 3)
        = (arFormat 10 (len : Nat) (ar_name_size - 3)).2 := by
      unfold arHdr
      unfold slice at fname ⊢
      simp only [ar_name_offset, List.drop_zero, Nat.zero_add] at fname ⊢
      have h16 : (arBuff ([35, 49, 47] ++ (arFormat 10 (len : Nat) (ar_name_size - 3)).2) (arFormat 10 e.mtime ar_date_size).2
          (arFormat 10 e.uid ar_uid_size).2 (arFormat 10 e.gid ar_gid_size).2 (arFormat 8 (e.mode : Nat) ar_mode_size).2
          (arFormat 10 size ar_size_size).2).take 16 = [35, 49, 47] ++ (arFormat 10 (len : Nat) (ar_name_size - 3)).2 := fname
      have : ∀ (l : List Nat), (l.drop 3).take 13 = (l.take 16).drop 3 := by
        intro l; rw [List.drop_take]
      simp only [show ar_name_size - 3 = 13 from rfl] at h16 ⊢
      rw [this, h16]
      simp
    rw [this]
    have := arAtol_arFormat 10 (by omega) (by omega) (len : Nat) (ar_name_size - 3) (by decide) hok (by decide)
    omega

end LA.Codec
