/-
Lemmas for `LA.Drive`: the compressor driver emits exactly the codec's output;
gzip members parse back one after the other.
-/
import LA.Model.Drive
namespace LA.Drive

variable {c : ZCodec} {comp : List Nat → List Nat}

/-- Everything produced so far (downstream + buffered) is the header followed by what
the codec has emitted; the codec has absorbed exactly the writes `W`. -/
structure Inv (L : Lawful c comp) (cap : Nat) (hdr : List Nat) (d : DState c) (W : List Nat) : Prop where
  bytes : d.out.flatten ++ d.buf = hdr ++ L.emitted d.z
  abs : L.absorbed d.z = W
  room : d.buf.length ≤ cap

theorem inv_flush (L : Lawful c comp) (cap : Nat) (hdr : List Nat) (d : DState c) (W : List Nat)
    (hcap : 0 < cap) (hi : Inv L cap hdr d W) :
    Inv L cap hdr (if d.buf.length = cap then { d with buf := [], out := d.out ++ [d.buf] } else d) W ∧
    (if d.buf.length = cap then { d with buf := [], out := d.out ++ [d.buf] } else d).buf.length < cap ∧
    (if d.buf.length = cap then { d with buf := [], out := d.out ++ [d.buf] } else d).z = d.z := by
  obtain ⟨h1, h2, h3⟩ := hi
  by_cases h : d.buf.length = cap
  · simp only [h, if_true]
    exact ⟨⟨by simpa using h1, h2, by simp⟩, by simpa using hcap, trivial⟩
  · simp only [h, if_false]
    exact ⟨⟨h1, h2, h3⟩, by omega, trivial⟩

/-- A `write` call: the codec ends up having absorbed the whole chunk. -/
theorem driveLoop_write (L : Lawful c comp) (cap : Nat) (hdr : List Nat) (hcap : 0 < cap) :
    ∀ (n : Nat) (d : DState c) (inp W : List Nat), c.rank d.z inp false = n → Inv L cap hdr d W →
      ∃ d', driveLoop c cap false d inp = .ok d' ∧ Inv L cap hdr d' (W ++ inp) := by
  intro n
  induction n using Nat.strongRecOn with
  | _ n ih =>
    intro d inp W hn hi
    obtain ⟨hi1, hlt, hz⟩ := inv_flush L cap hdr d W hcap hi
    unfold driveLoop
    generalize hd1 : (if d.buf.length = cap then ({ d with buf := [], out := d.out ++ [d.buf] } : DState c) else d) = d1 at *
    by_cases hinp : inp = []
    · subst hinp; simp only [Bool.not_false, and_self, if_true]
      exact ⟨d1, rfl, by simpa using hi1⟩
    · have hcond : ¬ ((!false) = true ∧ inp = []) := by simp [hinp]
      simp only [hcond, if_false]
      have hroom : 0 < cap - d1.buf.length := by omega
      have l1 := L.consumed_le d1.z inp (cap - d1.buf.length) false
      have l2 := L.produced_le d1.z inp (cap - d1.buf.length) false
      have l3 := L.abs_step d1.z inp (cap - d1.buf.length) false
      have l4 := L.emit_step d1.z inp (cap - d1.buf.length) false
      have l5 := L.end_spec d1.z inp (cap - d1.buf.length) false
      have l6 := L.no_error d1.z inp (cap - d1.buf.length) false hroom
      have l7 := L.progress d1.z inp (cap - d1.buf.length) false hroom (Or.inl hinp)
      generalize c.call d1.z inp (cap - d1.buf.length) false = r at *
      obtain ⟨z', k, p, st⟩ := r
      simp only [] at l1 l2 l3 l4 l5 l6 l7 ⊢
      obtain ⟨b1, b2, b3⟩ := hi1
      have hinv2 : Inv L cap hdr ({ z := z', buf := d1.buf ++ p, out := d1.out } : DState c) (W ++ inp.take k) :=
        ⟨by simp only []; rw [← List.append_assoc, b1, l4, List.append_assoc], by simp only []; rw [l3, b2],
          by simp only [List.length_append]; omega⟩
      cases st with
      | error => exact absurd rfl l6
      | streamEnd => have := (l5 rfl).1; simp at this
      | ok =>
        simp only []
        by_cases hdone : inp.drop k = []
        · have hk : inp.length ≤ k := by simpa [List.drop_eq_nil_iff] using hdone
          have : inp.take k = inp := List.take_of_length_le hk
          simp only [hdone, Bool.not_false, and_self, if_true]
          exact ⟨_, rfl, this ▸ hinv2⟩
        · have hcond2 : ¬ ((!false) = true ∧ inp.drop k = []) := by simp [hdone]
          simp only [hcond2, if_false]
          have hprog := l7 rfl
          rw [hz] at hprog
          simp only [hprog, dite_true]
          obtain ⟨d', e1, e2⟩ := ih _ (by rw [← hn]; exact hprog) _ (inp.drop k) (W ++ inp.take k) rfl hinv2
          refine ⟨d', e1, ?_⟩
          rw [List.append_assoc, List.take_append_drop] at e2
          exact e2

/-- The finishing call: in the end everything emitted is `comp` of everything written. -/
theorem driveLoop_finish (L : Lawful c comp) (cap : Nat) (hdr : List Nat) (hcap : 0 < cap) :
    ∀ (n : Nat) (d : DState c) (inp W : List Nat), c.rank d.z inp true = n → Inv L cap hdr d W →
      ∃ d', driveLoop c cap true d inp = .ok d' ∧ d'.out.flatten ++ d'.buf = hdr ++ comp (W ++ inp) := by
  intro n
  induction n using Nat.strongRecOn with
  | _ n ih =>
    intro d inp W hn hi
    obtain ⟨hi1, hlt, hz⟩ := inv_flush L cap hdr d W hcap hi
    unfold driveLoop
    generalize hd1 : (if d.buf.length = cap then ({ d with buf := [], out := d.out ++ [d.buf] } : DState c) else d) = d1 at *
    have hcond : ¬ ((!true) = true ∧ inp = []) := by simp
    simp only [hcond, if_false]
    have hroom : 0 < cap - d1.buf.length := by omega
    have l1 := L.consumed_le d1.z inp (cap - d1.buf.length) true
    have l2 := L.produced_le d1.z inp (cap - d1.buf.length) true
    have l3 := L.abs_step d1.z inp (cap - d1.buf.length) true
    have l4 := L.emit_step d1.z inp (cap - d1.buf.length) true
    have l5 := L.end_spec d1.z inp (cap - d1.buf.length) true
    have l6 := L.no_error d1.z inp (cap - d1.buf.length) true hroom
    have l7 := L.progress d1.z inp (cap - d1.buf.length) true hroom (Or.inr rfl)
    generalize c.call d1.z inp (cap - d1.buf.length) true = r at *
    obtain ⟨z', k, p, st⟩ := r
    simp only [] at l1 l2 l3 l4 l5 l6 l7 ⊢
    obtain ⟨b1, b2, b3⟩ := hi1
    have hinv2 : Inv L cap hdr ({ z := z', buf := d1.buf ++ p, out := d1.out } : DState c) (W ++ inp.take k) :=
      ⟨by simp only []; rw [← List.append_assoc, b1, l4, List.append_assoc], by simp only []; rw [l3, b2],
        by simp only [List.length_append]; omega⟩
    cases st with
    | error => exact absurd rfl l6
    | streamEnd =>
      obtain ⟨_, e2, e3⟩ := l5 rfl
      refine ⟨_, rfl, ?_⟩
      have h1 := hinv2.bytes
      simp only [] at h1 ⊢
      rw [h1, e3, l3, b2, e2, List.take_length]
    | ok =>
      simp only []
      have hcond2 : ¬ ((!true) = true ∧ inp.drop k = []) := by simp
      simp only [hcond2, if_false]
      have hprog := l7 rfl
      rw [hz] at hprog
      simp only [hprog, dite_true]
      obtain ⟨d', e1, e2⟩ := ih _ (by rw [← hn]; exact hprog) _ (inp.drop k) (W ++ inp.take k) rfl hinv2
      refine ⟨d', e1, ?_⟩
      rw [List.append_assoc, List.take_append_drop] at e2
      exact e2

theorem foldl_write (L : Lawful c comp) (cap : Nat) (hdr : List Nat) (hcap : 0 < cap) :
    ∀ (chunks : List (List Nat)) (d : DState c) (W : List Nat), Inv L cap hdr d W →
      ∃ d', chunks.foldl (write c cap) (.ok d) = .ok d' ∧ Inv L cap hdr d' (W ++ chunks.flatten)
  | [], d, W, hi => ⟨d, rfl, by simpa using hi⟩
  | w :: rest, d, W, hi => by
    obtain ⟨d1, e1, e2⟩ := driveLoop_write L cap hdr hcap _ d w W rfl hi
    obtain ⟨d2, f1, f2⟩ := foldl_write L cap hdr hcap rest d1 (W ++ w) e2
    refine ⟨d2, ?_, by simpa [List.append_assoc] using f2⟩
    simp only [List.foldl_cons, write, e1]
    exact f1

/-! ### gzip members -/

theorem le32_length (n : Nat) : (le32 n).length = 4 := rfl

theorem peek_gzHeader (mtime level : Nat) (rest : List Nat) :
    peekAtHeader (gzHeader mtime level ++ rest) = 10 := by
  simp [peekAtHeader, gzHeader, le32]

theorem gzRead_member (inflate : List Nat → Option (List Nat × List Nat)) (deflate : List Nat → List Nat)
    (crc32 : List Nat → Nat) (hlaw : ∀ x r, inflate (deflate x ++ r) = some (x, r))
    (mtime level : Nat) (x rest : List Nat) :
    gzRead inflate (gzMember deflate crc32 mtime level x ++ rest) = GzR.cons x (gzRead inflate rest) := by
  conv => lhs; unfold gzRead
  have hs : gzMember deflate crc32 mtime level x ++ rest =
      gzHeader mtime level ++ (deflate x ++ (gzTrailer (crc32 x) x.length ++ rest)) := by
    simp [gzMember]
  rw [hs, peek_gzHeader]
  have hdrop : (gzHeader mtime level ++ (deflate x ++ (gzTrailer (crc32 x) x.length ++ rest))).drop 10 =
      deflate x ++ (gzTrailer (crc32 x) x.length ++ rest) := by
    rw [List.drop_append_of_le_length (by simp [gzHeader, le32])]
    simp [gzHeader, le32]
  simp only [Nat.succ_ne_zero, dite_false]
  split
  · rename_i h; rw [hdrop, hlaw] at h; simp at h
  · rename_i x' r' h
    rw [hdrop, hlaw] at h
    simp only [Option.some.injEq, Prod.mk.injEq] at h
    obtain ⟨rfl, rfl⟩ := h
    have h1 : (gzTrailer (crc32 x) x.length ++ rest).length ≤
        ((gzHeader mtime level ++ (deflate x ++ (gzTrailer (crc32 x) x.length ++ rest))).drop 10).length := by
      rw [hdrop]; simp
    have h2 : ¬ ((gzTrailer (crc32 x) x.length ++ rest).length < 8) := by simp [gzTrailer, le32]
    simp only [h1, dite_true, h2, if_false]
    congr 2

end LA.Drive
