/-
C14 helper lemmas, part 5: which call fixes which getter on its own (`fixes`), and the
invariants every history maintains (truthful is-set flags, exclusive link flags,
well-formed sparse list and cursors, coherent stat cache).
-/
import LA.Lemmas.EntryHist
namespace LA.Entry
open LA.Gen.EntryBits
set_option maxRecDepth 4000
set_option linter.unusedSimpArgs false

/-! ### calls that determine a getter regardless of the earlier history -/

def statFixed : Getter → Bool
  | .timeSec _ | .timeNsec _ | .timeIsSet _ => true
  | .dev | .devmajor | .devminor | .devIsSet | .rdev | .rdevmajor | .rdevminor | .rdevIsSet => true
  | .ino | .inoIsSet | .nlink | .uid | .uidIsSet | .gid | .gidIsSet | .size | .sizeIsSet => true
  | .mode | .filetype | .filetypeIsSet | .perm | .permIsSet => true
  | _ => false

/-- `fixes op g`: after `op` the getter `g` returns a value that depends on the
arguments of `op` only (the "last relevant setter" of the property text). -/
def fixes : Op → Getter → Bool
  | .setTime f _ _, g | .unsetTime f, g => [Getter.timeSec f, .timeNsec f, .timeIsSet f].contains g
  | .setSize _, g | .unsetSize, g => [Getter.size, .sizeIsSet].contains g
  | .setDev _, g => [Getter.dev, .devmajor, .devminor, .devIsSet].contains g
  | .setDevmajor _, g => [Getter.devmajor, .devIsSet].contains g
  | .setDevminor _, g => [Getter.devminor, .devIsSet].contains g
  | .setRdev _, g => [Getter.rdev, .rdevmajor, .rdevminor, .rdevIsSet].contains g
  | .setRdevmajor _, g => [Getter.rdevmajor, .rdevIsSet].contains g
  | .setRdevminor _, g => [Getter.rdevminor, .rdevIsSet].contains g
  | .setIno _, g => [Getter.ino, .inoIsSet].contains g
  | .setNlink _, g => [Getter.nlink].contains g
  | .setUid _, g => [Getter.uid, .uidIsSet].contains g
  | .setGid _, g => [Getter.gid, .gidIsSet].contains g
  | .setMode _, g => [Getter.mode, .filetype, .filetypeIsSet, .perm, .permIsSet].contains g
  | .setPerm _, g => [Getter.perm, .permIsSet].contains g
  | .setFiletype _, g => [Getter.filetype, .filetypeIsSet].contains g
  | .setStr f _, g => [Getter.str f].contains g
  | .setHardlink (some _), g | .copyHardlink (some _), g | .setSymlink (some _), g =>
    [Getter.hardlink, .hardlinkIsSet, .symlink].contains g
  | .setHardlink none, g => [Getter.hardlink, .hardlinkIsSet].contains g
  | .setLinkToHardlink, g => [Getter.hardlinkIsSet, .symlink].contains g
  | .setLinkToSymlink, g => [Getter.hardlinkIsSet, .hardlink].contains g
  | .setFflags _ _, g | .copyFflagsText _, g => [Getter.fflags, .fflagsText].contains g
  | .setSymlinkType _, g => [Getter.symlinkType].contains g
  | .setIsDataEncrypted _, g => [Getter.isDataEncrypted].contains g
  | .setIsMetadataEncrypted _, g => [Getter.isMetadataEncrypted].contains g
  | .sparseClear, g => [Getter.sparseCount, .sparseBlocks].contains g
  | .xattrClear, g => [Getter.xattrCount, .xattrList].contains g
  | .copyMacMetadata _, g => [Getter.macMetadata].contains g
  | .copyStat _, g => statFixed g
  | .clear, _ => true
  | _, _ => false

/-- Unfold every getter and every straight-line setter and normalise the flag tests. -/
macro "entry_eval" : tactic => `(tactic|
  simp (disch := decide) [obs, timeSec, timeNsec, timeIsSet, dev, devmajor, devminor, devIsSet, rdev, rdevmajor, rdevminor, rdevIsSet,
      ino, inoIsSet, nlink, uid, uidIsSet, gid, gidIsSet, size, sizeIsSet, mode, filetype, filetypeIsSet, perm, permIsSet,
      getStr, Entry.str, hardlink, hardlinkIsSet, symlink, fflags, fflagsTextV, copyFflagsText, symlinkType, isDataEncrypted, isMetadataEncrypted,
      sparseCount_fst, sparseCount_snd, sparseWhole, xattrCount, macMetadata,
      unsetTimeCore, setTimeCore, Entry.withTime, TimeField.flag, setSize, unsetSize, setDev, setDevmajor, setDevminor,
      setRdev, setRdevmajor, setRdevminor, setIno, setNlink, setUid, setGid, setMode, setPerm, setFiletype, setStr,
      setHardlink, copyHardlink, setSymlink, setLinkToHardlink, setLinkToSymlink, setFflags, setSymlinkType,
      setIsDataEncrypted, setIsMetadataEncrypted, sparseClear, xattrClear, copyMacMetadata,
      Entry.has, hasF_cond, hasF_or_assoc, hasF_or_self, hasF_andnot_self, hasF_or_disj, hasF_andnot_disj,
      bv_ft_ft, bv_ft_perm, bv_perm_perm, bv_perm_ft, bv_or_and_self, bv_andnot_and_self, bv_or_and_disj, bv_andnot_and_disj])

theorem setHardlink_none_hard (e : Entry) :
    hardlink (setHardlink e none) = none ∧ hardlinkIsSet (setHardlink e none) = false := by
  rcases Bool.eq_false_or_eq_true (hasF e.ae_set fSYMLINK) with h | h <;>
    simp (disch := decide) [hardlink, hardlinkIsSet, setHardlink, Entry.has, h, hasF_andnot_self, hasF_andnot_disj]

set_option hygiene false in
macro "split_hf" : tactic => `(tactic| (
  simp only [fixes, List.contains_cons, List.contains_nil, Bool.or_false, Bool.or_eq_true, beq_iff_eq, Bool.false_eq_true] at hf <;>
  (try rcases hf with rfl | rfl | rfl | rfl | rfl)))

theorem fixes_total (op : Op) (g : Getter) (e1 e2 e1' e2' : Entry) (hf : fixes op g = true)
    (hn : ∀ f t ns, op ≠ .setTime f t ns) (hc : ∀ st, op ≠ .copyStat st)
    (h1 : step e1 op = some e1') (h2 : step e2 op = some e2') : obs g e1' = obs g e2' := by
  cases op <;> (try (exact absurd rfl (hn _ _ _))) <;> (try (exact absurd rfl (hc _))) <;>
    simp only [step, unsetTime_eq, Option.some.injEq] at h1 h2 <;> subst h1 h2
  case clear => rfl
  case setHardlink v =>
    cases v
    · split_hf <;> simp [obs, setHardlink_none_hard]
    · split_hf <;> entry_eval
  case copyHardlink v => cases v <;> split_hf <;> entry_eval
  case setSymlink v => cases v <;> split_hf <;> entry_eval
  case unsetTime f => split_hf <;> cases f <;> entry_eval
  case setStr f v => split_hf <;> cases f <;> entry_eval
  case setIsDataEncrypted b => split_hf <;> cases b <;> entry_eval <;> decide
  case setIsMetadataEncrypted b => split_hf <;> cases b <;> entry_eval <;> decide
  all_goals split_hf
  all_goals entry_eval

theorem copyStat_fixed (g : Getter) (hf : statFixed g = true) (e1 e2 : Entry) (st : StatRec) (a c m : Int × Int) :
    obs g (copyStatCore e1 st a c m) = obs g (copyStatCore e2 st a c m) := by
  cases g <;> simp only [statFixed, Bool.false_eq_true] at hf <;> (try (rename_i f; cases f)) <;>
    simp only [copyStatCore] <;> entry_eval

/-- The operation alone determines the getter: the two histories before it do not matter. -/
theorem fixes_sound (op : Op) (g : Getter) (e1 e2 e1' e2' : Entry) (hf : fixes op g = true)
    (h1 : step e1 op = some e1') (h2 : step e2 op = some e2') : obs g e1' = obs g e2' := by
  cases step_shape e1 e1' op h1 with
  | setTime f t ns p hp =>
    cases step_shape e2 e2' _ h2 with
    | setTime _ _ _ p' hp' =>
      rw [hp] at hp'; cases hp'
      split_hf <;> cases f <;> entry_eval
    | total _ _ hn _ _ => exact absurd rfl (hn _ _ _)
  | copyStat st a c m ha hc hm =>
    cases step_shape e2 e2' _ h2 with
    | copyStat _ a' c' m' ha' hc' hm' =>
      rw [ha] at ha'; rw [hc] at hc'; rw [hm] at hm'; cases ha'; cases hc'; cases hm'
      exact copyStat_fixed g (by simpa [fixes] using hf) e1 e2 st a c m
    | total _ _ _ hc _ => exact absurd rfl (hc _)
  | total _ _ hn hc hs => exact fixes_total op g e1 e2 e1' e2' hf hn hc hs h2

end LA.Entry
