/- The cpio writers against the cpio reader on a whole stream of entries (C02). Core Lean only. -/
import LA.Lemmas.Cpio
import LA.Lemmas.Stream
namespace LA.Codec
open LA.NumFmt LA.Gen.CpioLayout LA.Gen.CodecConsts

/-! ### a header made of contiguous fields -/

/-- `cuts` = (offset, width) pieces that tile `[start, stop)` in order. -/
def Tiles : Nat → List (Nat × Nat) → Nat → Prop
  | start, [], stop => start = stop
  | start, c :: cs, stop => c.1 = start ∧ Tiles (start + c.2) cs stop

theorem all_of_tiles (P : Nat → Bool) (h : List Nat) (cuts : List (Nat × Nat)) (start : Nat)
    (ht : Tiles start cuts h.length) (hp : ∀ c ∈ cuts, (slice h c.1 c.2).all P = true) :
    (h.drop start).all P = true := by
  induction cuts generalizing start with
  | nil =>
    simp only [Tiles] at ht
    rw [ht, List.drop_length]; rfl
  | cons c cs ih =>
    obtain ⟨hc, hrest⟩ := ht
    have h1 := hp c (List.mem_cons_self ..)
    have h2 := ih (start + c.2) hrest (fun c' hc' => hp c' (List.mem_cons_of_mem _ hc'))
    rw [← List.take_append_drop c.2 (h.drop start), List.all_append, List.drop_drop]
    rw [hc] at h1
    unfold slice at h1
    rw [h1, h2]; rfl

theorem hexHead_all (v s : Nat) : (hexHead v s).all (fun c => (hexVal c).isSome) = true := by
  induction s generalizing v with
  | zero => rfl
  | succ s ih =>
    rw [hexHead_snoc, List.all_append, ih]
    simp only [List.all_cons, List.all_nil, Bool.and_true, Bool.true_and]
    rw [hexVal_hexChar _ (Nat.mod_lt _ (by decide))]; rfl

theorem newcFormatHex_all (v : Int) (d : Nat) : (newcFormatHex v d).2.all (fun c => (hexVal c).isSome) = true := by
  rw [newcFormatHex_eq]
  split
  · exact hexHead_all _ _
  · simp only [List.all_replicate]
    split <;> decide

theorem octHead_all (v s : Nat) : (octHead v s).all (fun c => decide (48 ≤ c ∧ c ≤ 55)) = true := by
  rw [List.all_eq_true]
  intro c hc
  have := octHead_digit v s c hc
  simp only [c0, c7] at this
  simpa using this

theorem odcFormatOctal_all (v : Int) (d : Nat) : (odcFormatOctal v d).2.all (fun c => decide (48 ≤ c ∧ c ≤ 55)) = true := by
  rw [odcFormatOctal_eq]
  split
  · exact octHead_all _ _
  · simp only [List.all_replicate]
    split <;> decide

/-! ### the newc header -/

/-- The 110 bytes `write_header` builds for `e` stored under `path`. -/
def newcHdr (e : Entry) (path : List Nat) (dM dm : Int) : List Nat :=
  cpioHeaderBytes newcFormatHex newcr_header_size (newcFields e dM dm ((path.length : Int) + 1) (cpioFilesize e))

theorem newcHdr_length (e : Entry) (path : List Nat) (dM dm : Int) : (newcHdr e path dM dm).length = 110 :=
  cpioHeaderBytes_length _ _ _ newcFormatHex_length (newcFields_in e dM dm _ _)

theorem newcHdr_slice (e : Entry) (path : List Nat) (dM dm : Int) (f : CpioNum)
    (hf : f ∈ newcFields e dM dm ((path.length : Int) + 1) (cpioFilesize e)) :
    slice (newcHdr e path dM dm) f.off f.size = (newcFormatHex f.v f.size).2 :=
  cpioHeader_slice newcFormatHex _ _ newcFormatHex_length (newcFields_in e dM dm _ _) (newcFields_disjoint e dM dm _ _) f hf

/-- The fields in offset order (the C formats them in another order). -/
def newcCuts : List (Nat × Nat) :=
  [(0, 6), (6, 8), (14, 8), (22, 8), (30, 8), (38, 8), (46, 8), (54, 8), (62, 8), (70, 8), (78, 8), (86, 8), (94, 8), (102, 8)]

theorem newcCuts_fields (e : Entry) (dM dm pl fsz : Int) :
    ∀ c ∈ newcCuts, ∃ f ∈ newcFields e dM dm pl fsz, (f.off, f.size) = c := by
  intro c hc
  simp only [newcCuts, List.mem_cons, List.mem_nil_iff, or_false] at hc
  have hmem : ∀ i (hi : i < (newcFields e dM dm pl fsz).length), (newcFields e dM dm pl fsz)[i] ∈ newcFields e dM dm pl fsz :=
    fun i hi => List.getElem_mem hi
  have hl : (newcFields e dM dm pl fsz).length = 14 := rfl
  rcases hc with rfl | rfl | rfl | rfl | rfl | rfl | rfl | rfl | rfl | rfl | rfl | rfl | rfl | rfl
  · exact ⟨_, hmem 0 (by omega), rfl⟩
  · exact ⟨_, hmem 3 (by omega), rfl⟩
  · exact ⟨_, hmem 4 (by omega), rfl⟩
  · exact ⟨_, hmem 5 (by omega), rfl⟩
  · exact ⟨_, hmem 6 (by omega), rfl⟩
  · exact ⟨_, hmem 7 (by omega), rfl⟩
  · exact ⟨_, hmem 10 (by omega), rfl⟩
  · exact ⟨_, hmem 13 (by omega), rfl⟩
  · exact ⟨_, hmem 1 (by omega), rfl⟩
  · exact ⟨_, hmem 2 (by omega), rfl⟩
  · exact ⟨_, hmem 8 (by omega), rfl⟩
  · exact ⟨_, hmem 9 (by omega), rfl⟩
  · exact ⟨_, hmem 11 (by omega), rfl⟩
  · exact ⟨_, hmem 12 (by omega), rfl⟩

/-- The header passes the reader's `is_hex` test and starts with the newc magic. -/
theorem newcHdr_magicOk (e : Entry) (path : List Nat) (dM dm : Int) : cpioMagicOk true (newcHdr e path dM dm) = true := by
  unfold cpioMagicOk
  simp only [if_true, Bool.and_eq_true, beq_iff_eq]
  refine ⟨?_, ?_⟩
  · have h := newcHdr_slice e path dM dm ⟨460545, newcw_magic_offset, newcw_magic_size, false⟩ (List.mem_cons_self ..)
    have : slice (newcHdr e path dM dm) 0 6 = (newcHdr e path dM dm).take 6 := by simp [slice]
    rw [← this]
    exact h.trans (by decide)
  · have := all_of_tiles (fun c => (hexVal c).isSome) (newcHdr e path dM dm) newcCuts 0
      (by rw [newcHdr_length]; exact ⟨rfl, rfl, rfl, rfl, rfl, rfl, rfl, rfl, rfl, rfl, rfl, rfl, rfl, rfl, rfl⟩)
      (by
        intro c hc
        obtain ⟨f, hf, rfl⟩ := newcCuts_fields e dM dm _ _ c hc
        rw [newcHdr_slice e path dM dm f hf]
        exact newcFormatHex_all _ _)
    simpa using this

/-- `write_header` answered plain ARCHIVE_OK: what it wrote and why. -/
theorem newcCore_ok (st : WState) (e : Entry) (path : List Nat) (dM dm : Int)
    (hok : (newcWriteHeaderCore st e path dM dm).st = .ok) :
    (newcFormatHex (cpioFilesize e) newcw_filesize_size).1 = false ∧
    cpioOverflow newcFormatHex (newcFields e dM dm ((path.length : Int) + 1) (cpioFilesize e)) = false ∧
    ¬ e.ino > 4294967295 ∧
    (newcWriteHeaderCore st e path dM dm).bytes
      = newcHdr e path dM dm ++ path ++ [0] ++ List.replicate (pad4 (path.length + 1 + newcr_header_size)) 0
        ++ (if e.sym ≠ [] then e.sym ++ List.replicate (pad4 e.sym.length) 0 else []) ∧
    (newcWriteHeaderCore st e path dM dm).state
      = { st with remaining := (cpioSize e).toNat, padding := pad4 (cpioSize e).toNat } := by
  unfold newcWriteHeaderCore at hok ⊢
  simp only [] at hok ⊢
  by_cases h3 : (newcFormatHex (cpioFilesize e) newcw_filesize_size).1 = true
  · rw [if_pos h3] at hok; cases hok
  · rw [if_neg h3] at hok ⊢
    simp only [] at hok ⊢
    cases hc : cpioOverflow newcFormatHex (newcFields e dM dm ((path.length : Int) + 1) (cpioFilesize e)) with
    | true => rw [hc] at hok; cases hok
    | false =>
      rw [hc] at hok
      have hino : ¬ e.ino > 4294967295 := by
        intro hi
        simp only [Bool.false_or, decide_eq_true_eq, if_pos hi] at hok
        cases hok
      refine ⟨by simpa using h3, rfl, hino, ?_, ?_⟩ <;> first | rfl | trivial

/-- Every field of an accepted header parses back to the value that was formatted. -/
theorem newc_fields_exact (e : Entry) (path : List Nat) (dM dm : Int)
    (hpl : path.length < 2147483647)
    (h3 : (newcFormatHex (cpioFilesize e) newcw_filesize_size).1 = false)
    (hov : cpioOverflow newcFormatHex (newcFields e dM dm ((path.length : Int) + 1) (cpioFilesize e)) = false) :
    ∀ f ∈ newcFields e dM dm ((path.length : Int) + 1) (cpioFilesize e),
      ((cpioNum true (newcHdr e path dM dm) f.off f.size : Nat) : Int) = f.v := by
  intro f hf
  unfold cpioNum newcHdr
  simp only [if_true]
  apply newc_field_roundtrip e dM dm _ _ f hf
  · unfold cpioOverflow at hov
    rw [List.any_eq_false] at hov
    have hcounted := hov f hf
    simp only [newcFields, List.mem_cons, List.mem_nil_iff, or_false] at hf
    rcases hf with rfl | rfl | rfl | rfl | rfl | rfl | rfl | rfl | rfl | rfl | rfl | rfl | rfl | rfl
    · decide
    all_goals try (simpa using hcounted)
    · rw [newcFormatHex_eq]
      have hm : 0 ≤ e.ino % 4294967296 ∧ (e.ino % 4294967296).toNat < 16 ^ newcw_ino_size := by
        have : (16 : Nat) ^ newcw_ino_size = 4294967296 := by decide
        rw [this]; omega
      rw [if_pos hm]
    · rw [newcFormatHex_eq]
      have hm : 0 ≤ (path.length : Int) + 1 ∧ ((path.length : Int) + 1).toNat < 16 ^ newcw_namesize_size := by
        have : (16 : Nat) ^ newcw_namesize_size = 4294967296 := by decide
        rw [this]; omega
      rw [if_pos hm]
    · decide
    · exact h3
  · simp only [newcFields, List.mem_cons, List.mem_nil_iff, or_false] at hf
    rcases hf with rfl | rfl | rfl | rfl | rfl | rfl | rfl | rfl | rfl | rfl | rfl | rfl | rfl | rfl <;> (simp only []; decide)

/-- The entry `header_newc` builds from an accepted header. -/
def newcRB (e : Entry) (dM dm : Int) : RB :=
  rbSetMode { ({} : RB) with
    dev := makedev dM dm, ino := e.ino % 4294967296, uid := e.uid, gid := e.gid, nlink := e.nlink.toNat
    rdevmajor := if e.ftype = .blk ∨ e.ftype = .chr then e.rdevmajor else 0
    rdevminor := if e.ftype = .blk ∨ e.ftype = .chr then e.rdevminor else 0
    mtime := some e.mtime } e.mode

theorem newcParse_hdr (e : Entry) (path : List Nat) (dM dm : Int)
    (hpl : path.length < 2147483647)
    (h3 : (newcFormatHex (cpioFilesize e) newcw_filesize_size).1 = false)
    (hov : cpioOverflow newcFormatHex (newcFields e dM dm ((path.length : Int) + 1) (cpioFilesize e)) = false) :
    newcParse (newcHdr e path dM dm) = (newcRB e dM dm, path.length + 1, (cpioFilesize e).toNat) := by
  have hx := newc_fields_exact e path dM dm hpl h3 hov
  have h_dM : ((cpioNum true (newcHdr e path dM dm) newcr_devmajor_offset newcr_devmajor_size : Nat) : Int) = dM :=
    hx ⟨dM, newcr_devmajor_offset, newcr_devmajor_size, true⟩ (.tail _ (.head _))
  have h_dm : ((cpioNum true (newcHdr e path dM dm) newcr_devminor_offset newcr_devminor_size : Nat) : Int) = dm :=
    hx ⟨dm, newcr_devminor_offset, newcr_devminor_size, true⟩ (.tail _ (.tail _ (.head _)))
  have h_ino : ((cpioNum true (newcHdr e path dM dm) newcr_ino_offset newcr_ino_size : Nat) : Int) = e.ino % 4294967296 :=
    hx ⟨e.ino % 4294967296, newcr_ino_offset, newcr_ino_size, false⟩ (.tail _ (.tail _ (.tail _ (.head _))))
  have h_mode : ((cpioNum true (newcHdr e path dM dm) newcr_mode_offset newcr_mode_size : Nat) : Int) = (e.mode : Nat) :=
    hx ⟨e.mode, newcr_mode_offset, newcr_mode_size, true⟩ (.tail _ (.tail _ (.tail _ (.tail _ (.head _)))))
  have h_uid : ((cpioNum true (newcHdr e path dM dm) newcr_uid_offset newcr_uid_size : Nat) : Int) = e.uid :=
    hx ⟨e.uid, newcr_uid_offset, newcr_uid_size, true⟩ (.tail _ (.tail _ (.tail _ (.tail _ (.tail _ (.head _))))))
  have h_gid : ((cpioNum true (newcHdr e path dM dm) newcr_gid_offset newcr_gid_size : Nat) : Int) = e.gid :=
    hx ⟨e.gid, newcr_gid_offset, newcr_gid_size, true⟩ (.tail _ (.tail _ (.tail _ (.tail _ (.tail _ (.tail _ (.head _)))))))
  have h_nlink : ((cpioNum true (newcHdr e path dM dm) newcr_nlink_offset newcr_nlink_size : Nat) : Int) = e.nlink :=
    hx ⟨e.nlink, newcr_nlink_offset, newcr_nlink_size, true⟩ (.tail _ (.tail _ (.tail _ (.tail _ (.tail _ (.tail _ (.tail _ (.head _))))))))
  have h_rM : ((cpioNum true (newcHdr e path dM dm) newcr_rdevmajor_offset newcr_rdevmajor_size : Nat) : Int)
      = if (decide (e.ftype = .blk ∨ e.ftype = .chr)) = true then e.rdevmajor else 0 :=
    hx ⟨if (decide (e.ftype = .blk ∨ e.ftype = .chr)) = true then e.rdevmajor else 0, newcr_rdevmajor_offset, newcr_rdevmajor_size, true⟩ (.tail _ (.tail _ (.tail _ (.tail _ (.tail _ (.tail _ (.tail _ (.tail _ (.head _)))))))))
  have h_rm : ((cpioNum true (newcHdr e path dM dm) newcr_rdevminor_offset newcr_rdevminor_size : Nat) : Int)
      = if (decide (e.ftype = .blk ∨ e.ftype = .chr)) = true then e.rdevminor else 0 :=
    hx ⟨if (decide (e.ftype = .blk ∨ e.ftype = .chr)) = true then e.rdevminor else 0, newcr_rdevminor_offset, newcr_rdevminor_size, true⟩ (.tail _ (.tail _ (.tail _ (.tail _ (.tail _ (.tail _ (.tail _ (.tail _ (.tail _ (.head _))))))))))
  have h_mt : ((cpioNum true (newcHdr e path dM dm) newcr_mtime_offset newcr_mtime_size : Nat) : Int) = e.mtime :=
    hx ⟨e.mtime, newcr_mtime_offset, newcr_mtime_size, true⟩ (.tail _ (.tail _ (.tail _ (.tail _ (.tail _ (.tail _ (.tail _ (.tail _ (.tail _ (.tail _ (.head _)))))))))))
  have h_ns : ((cpioNum true (newcHdr e path dM dm) newcr_namesize_offset newcr_namesize_size : Nat) : Int) = (path.length : Int) + 1 :=
    hx ⟨(path.length : Int) + 1, newcr_namesize_offset, newcr_namesize_size, false⟩ (.tail _ (.tail _ (.tail _ (.tail _ (.tail _ (.tail _ (.tail _ (.tail _ (.tail _ (.tail _ (.tail _ (.head _))))))))))))
  have h_fs : ((cpioNum true (newcHdr e path dM dm) newcr_filesize_offset newcr_filesize_size : Nat) : Int) = cpioFilesize e :=
    hx ⟨cpioFilesize e, newcr_filesize_offset, newcr_filesize_size, false⟩ (.tail _ (.tail _ (.tail _ (.tail _ (.tail _ (.tail _ (.tail _ (.tail _ (.tail _ (.tail _ (.tail _ (.tail _ (.tail _ (.head _))))))))))))))
  simp only [decide_eq_true_eq] at h_rM h_rm
  unfold newcParse newcRB
  simp only [h_dM, h_dm, h_ino, h_uid, h_gid, h_rM, h_rm, h_mt]
  have e1 : cpioNum true (newcHdr e path dM dm) newcr_mode_offset newcr_mode_size = e.mode := by omega
  have e2 : cpioNum true (newcHdr e path dM dm) newcr_nlink_offset newcr_nlink_size = e.nlink.toNat := by omega
  have e3 : cpioNum true (newcHdr e path dM dm) newcr_namesize_offset newcr_namesize_size = path.length + 1 := by omega
  have e4 : cpioNum true (newcHdr e path dM dm) newcr_filesize_offset newcr_filesize_size = (cpioFilesize e).toNat := by omega
  rw [e1, e2, e3, e4]

/-! ### mode bits -/

theorem mode_ftype (e : Entry) : e.mode % 4294967296 % 65536 / 4096 * 4096 = e.ftype.bits := by
  unfold Entry.mode
  have hp : e.perm % 4096 < 4096 := Nat.mod_lt _ (by decide)
  cases e.ftype <;>
    simp only [FType.bits, AE_IFREG, AE_IFDIR, AE_IFLNK, AE_IFCHR, AE_IFBLK, AE_IFIFO, AE_IFSOCK] <;> omega

theorem mode_perm (e : Entry) : e.mode % 4294967296 - e.mode % 4294967296 % 65536 / 4096 * 4096 = e.perm % 4096 := by
  rw [mode_ftype]
  unfold Entry.mode
  have hp : e.perm % 4096 < 4096 := Nat.mod_lt _ (by decide)
  cases e.ftype <;>
    simp only [FType.bits, AE_IFREG, AE_IFDIR, AE_IFLNK, AE_IFCHR, AE_IFBLK, AE_IFIFO, AE_IFSOCK] <;> omega

theorem ftype_bits_lnk (e : Entry) : e.ftype.bits = AE_IFLNK ↔ e.ftype = .lnk := by
  cases e.ftype <;> simp [FType.bits, AE_IFREG, AE_IFDIR, AE_IFLNK, AE_IFCHR, AE_IFBLK, AE_IFIFO, AE_IFSOCK]

theorem newcRB_ftype (e : Entry) (dM dm : Int) : (newcRB e dM dm).ftype = e.ftype.bits := by
  unfold newcRB rbSetMode; exact mode_ftype e

/-! ### one newc entry under the reader -/

/-- The entry the reader returns for an accepted header (before `record_hardlink`). -/
def newcEntryRB (e : Entry) (path : List Nat) : RB :=
  { newcRB e (devMajor e.dev) (devMinor e.dev) with
    path := path, size := some (((cpioFilesize e).toNat : Nat) : Int), sym := e.sym }

/-- The name block: pathname, NUL, padding to a multiple of 4. -/
def newcName (path : List Nat) : List Nat :=
  path ++ [0] ++ List.replicate (pad4 (path.length + 1 + newcr_header_size)) 0

theorem newcName_length (path : List Nat) :
    (newcName path).length = (path.length + 1) + cpioNamePad true (path.length + 1) := by
  unfold newcName cpioNamePad pad4
  simp only [List.length_append, List.length_replicate, List.length_cons, List.length_nil, if_true, newcr_header_size]
  omega

theorem cpioRead_newc_header (e : Entry) (path : List Nat) (rest : List Nat) (fmt : Nat) (tab : LinkTab) (acc : List RB)
    (hpl : path.length < 2147483647)
    (h3 : (newcFormatHex (cpioFilesize e) newcw_filesize_size).1 = false)
    (hov : cpioOverflow newcFormatHex (newcFields e (devMajor e.dev) (devMinor e.dev) ((path.length : Int) + 1) (cpioFilesize e)) = false) :
    let bs := newcHdr e path (devMajor e.dev) (devMinor e.dev) ++ rest
    ¬ bs.length < cpioHsz true ∧ bs.take (cpioHsz true) = newcHdr e path (devMajor e.dev) (devMinor e.dev) ∧
    bs.drop (cpioHsz true) = rest ∧
    cpioParse true (newcHdr e path (devMajor e.dev) (devMinor e.dev))
      = (newcRB e (devMajor e.dev) (devMinor e.dev), path.length + 1, (cpioFilesize e).toNat) := by
  have hl := newcHdr_length e path (devMajor e.dev) (devMinor e.dev)
  have hh : cpioHsz true = 110 := rfl
  refine ⟨?_, ?_, ?_, ?_⟩
  · simp only [List.length_append, hl, hh]; omega
  · rw [hh, ← hl, List.take_left]
  · rw [hh, ← hl, List.drop_left]
  · unfold cpioParse; simp only [if_true]; exact newcParse_hdr e path _ _ hpl h3 hov

theorem cstr_path_nul (path : List Nat) (r : List Nat) (hp : noNul path) :
    cstr ((path ++ [0] ++ r).take (path.length + 1)) = path := by
  have : (path ++ [0] ++ r).take (path.length + 1) = path ++ [0] := by
    have hl : (path ++ [0]).length = path.length + 1 := by simp
    rw [← hl, List.take_left]
  rw [this]
  exact cstr_append_zero path [] hp

/-- A stored entry that is not a symbolic link: header, name block, body, body padding. -/
theorem cpioRead_newc_file (e : Entry) (path : List Nat) (body more : List Nat) (fmt : Nat) (tab : LinkTab) (acc : List RB)
    (hp : noNul path) (hpl : path.length < 2147483647)
    (h3 : (newcFormatHex (cpioFilesize e) newcw_filesize_size).1 = false)
    (hov : cpioOverflow newcFormatHex (newcFields e (devMajor e.dev) (devMinor e.dev) ((path.length : Int) + 1) (cpioFilesize e)) = false)
    (hnl : e.ftype ≠ .lnk) (hsym : e.sym = []) (hnt : path ≠ trailerName)
    (hbody : body.length = (cpioFilesize e).toNat) :
    cpioRead false true (newcHdr e path (devMajor e.dev) (devMinor e.dev) ++ (newcName path ++
        (body ++ (List.replicate (pad4 (cpioFilesize e).toNat) 0 ++ more)))) fmt tab acc
      = cpioRead false true more ARCHIVE_FORMAT_CPIO_SVR4_NOCRC (recordHardlink tab (newcEntryRB e path)).1
          ({ (recordHardlink tab (newcEntryRB e path)).2 with body := body } :: acc) := by
  obtain ⟨hlen, htake, hdrop, hparse⟩ := cpioRead_newc_header e path
    (newcName path ++ (body ++ (List.replicate (pad4 (cpioFilesize e).toNat) 0 ++ more))) fmt tab acc hpl h3 hov
  rw [cpioRead]
  rw [if_neg hlen]
  simp only [htake, hdrop, newcHdr_magicOk, Bool.not_true, Bool.false_eq_true, if_false, hparse, if_true]
  have hnl' := newcName_length path
  have hlen2 : ¬ (newcName path ++ (body ++ (List.replicate (pad4 (cpioFilesize e).toNat) 0 ++ more))).length
      < path.length + 1 + cpioNamePad true (path.length + 1) := by
    simp only [List.length_append, hnl']; omega
  rw [if_neg hlen2]
  have hname : cstr ((newcName path ++ (body ++ (List.replicate (pad4 (cpioFilesize e).toNat) 0 ++ more))).take (path.length + 1)) = path := by
    unfold newcName
    rw [List.append_assoc (path ++ [0])]
    exact cstr_path_nul path _ hp
  have hdrop2 : (newcName path ++ (body ++ (List.replicate (pad4 (cpioFilesize e).toNat) 0 ++ more))).drop
      (path.length + 1 + cpioNamePad true (path.length + 1)) = body ++ (List.replicate (pad4 (cpioFilesize e).toNat) 0 ++ more) := by
    rw [← hnl', List.drop_left]
  simp only [hname, hdrop2]
  have hft : ¬ (newcRB e (devMajor e.dev) (devMinor e.dev)).ftype = AE_IFLNK := by
    rw [newcRB_ftype, ftype_bits_lnk]; exact hnl
  rw [if_neg hft]
  have htr : ¬ (path.length + 1 = 11 ∧ path = trailerName) := fun h => hnt h.2
  rw [if_neg htr]
  simp only [false_and, if_false, cpioBodyPad, if_true]
  have hlen3 : ¬ (body ++ (List.replicate (pad4 (cpioFilesize e).toNat) 0 ++ more)).length
      < (cpioFilesize e).toNat + pad4 (cpioFilesize e).toNat := by
    simp only [List.length_append, List.length_replicate, hbody]; omega
  rw [if_neg hlen3]
  have hd3 : (body ++ (List.replicate (pad4 (cpioFilesize e).toNat) 0 ++ more)).drop
      ((cpioFilesize e).toNat + pad4 (cpioFilesize e).toNat) = more := by
    rw [← List.append_assoc]
    have : (body ++ List.replicate (pad4 (cpioFilesize e).toNat) 0).length
        = (cpioFilesize e).toNat + pad4 (cpioFilesize e).toNat := by
      simp only [List.length_append, List.length_replicate, hbody]
    rw [← this, List.drop_left]
  have ht3 : (body ++ (List.replicate (pad4 (cpioFilesize e).toNat) 0 ++ more)).take (cpioFilesize e).toNat = body := by
    rw [← hbody, List.take_left]
  rw [hd3, ht3]
  have hrb : ({ newcRB e (devMajor e.dev) (devMinor e.dev) with path := path, size := some (((cpioFilesize e).toNat : Nat) : Int) } : RB)
      = newcEntryRB e path := by
    unfold newcEntryRB
    have : (newcRB e (devMajor e.dev) (devMinor e.dev)).sym = e.sym := by rw [hsym]; rfl
    rw [← this]
  rw [hrb]

/-- A stored symbolic link: header, name block, the target as the body, its padding. -/
theorem cpioRead_newc_symlink (e : Entry) (path : List Nat) (more : List Nat) (fmt : Nat) (tab : LinkTab) (acc : List RB)
    (hp : noNul path) (hpl : path.length < 2147483647)
    (h3 : (newcFormatHex (cpioFilesize e) newcw_filesize_size).1 = false)
    (hov : cpioOverflow newcFormatHex (newcFields e (devMajor e.dev) (devMinor e.dev) ((path.length : Int) + 1) (cpioFilesize e)) = false)
    (hl : e.ftype = .lnk) (hsym : e.sym ≠ []) (hsn : noNul e.sym) (hsl : e.sym.length ≤ 1048576) :
    cpioRead false true (newcHdr e path (devMajor e.dev) (devMinor e.dev) ++ (newcName path ++
        (e.sym ++ (List.replicate (pad4 e.sym.length) 0 ++ more)))) fmt tab acc
      = cpioRead false true more ARCHIVE_FORMAT_CPIO_SVR4_NOCRC (recordHardlink tab (newcEntryRB e path)).1
          ((recordHardlink tab (newcEntryRB e path)).2 :: acc) := by
  have hfs : (cpioFilesize e).toNat = e.sym.length := by
    unfold cpioFilesize; rw [if_pos hsym]; simp
  obtain ⟨hlen, htake, hdrop, hparse⟩ := cpioRead_newc_header e path
    (newcName path ++ (e.sym ++ (List.replicate (pad4 e.sym.length) 0 ++ more))) fmt tab acc hpl h3 hov
  rw [cpioRead]
  rw [if_neg hlen]
  simp only [htake, hdrop, newcHdr_magicOk, Bool.not_true, Bool.false_eq_true, if_false, hparse, if_true]
  have hnl' := newcName_length path
  have hlen2 : ¬ (newcName path ++ (e.sym ++ (List.replicate (pad4 e.sym.length) 0 ++ more))).length
      < path.length + 1 + cpioNamePad true (path.length + 1) := by
    simp only [List.length_append, hnl']; omega
  rw [if_neg hlen2]
  have hname : cstr ((newcName path ++ (e.sym ++ (List.replicate (pad4 e.sym.length) 0 ++ more))).take (path.length + 1)) = path := by
    unfold newcName
    rw [List.append_assoc (path ++ [0])]
    exact cstr_path_nul path _ hp
  have hdrop2 : (newcName path ++ (e.sym ++ (List.replicate (pad4 e.sym.length) 0 ++ more))).drop
      (path.length + 1 + cpioNamePad true (path.length + 1)) = e.sym ++ (List.replicate (pad4 e.sym.length) 0 ++ more) := by
    rw [← hnl', List.drop_left]
  simp only [hname, hdrop2]
  have hft : (newcRB e (devMajor e.dev) (devMinor e.dev)).ftype = AE_IFLNK := by
    rw [newcRB_ftype, ftype_bits_lnk]; exact hl
  rw [if_pos hft, hfs]
  have hc1 : ¬ (e.sym.length > 1048576 ∨ (e.sym ++ (List.replicate (pad4 e.sym.length) 0 ++ more)).length < e.sym.length) := by
    simp only [List.length_append]; omega
  rw [if_neg hc1]
  have ht : (e.sym ++ (List.replicate (pad4 e.sym.length) 0 ++ more)).take e.sym.length = e.sym := List.take_left
  have hd : (e.sym ++ (List.replicate (pad4 e.sym.length) 0 ++ more)).drop e.sym.length
      = List.replicate (pad4 e.sym.length) 0 ++ more := List.drop_left
  simp only [ht, hd, cstr_full e.sym hsn, cpioBodyPad, if_true]
  have hc2 : ¬ (List.replicate (pad4 e.sym.length) 0 ++ more).length < pad4 e.sym.length := by
    simp only [List.length_append, List.length_replicate]; omega
  rw [if_neg hc2]
  have hd2 : (List.replicate (pad4 e.sym.length) 0 ++ more).drop (pad4 e.sym.length) = more := by
    generalize hz : List.replicate (pad4 e.sym.length) 0 = z
    have : pad4 e.sym.length = z.length := by rw [← hz, List.length_replicate]
    rw [this, List.drop_left]
  rw [hd2]
  have hrb : ({ ({ newcRB e (devMajor e.dev) (devMinor e.dev) with path := path, size := some ((e.sym.length : Nat) : Int) } : RB)
      with sym := e.sym } : RB) = newcEntryRB e path := by
    unfold newcEntryRB; rw [hfs]
  rw [hrb]

/-! ### the trailer -/

theorem newcCore_status_indep (st st' : WState) (e : Entry) (p : List Nat) (dM dm : Int) :
    (newcWriteHeaderCore st e p dM dm).st = (newcWriteHeaderCore st' e p dM dm).st := by
  unfold newcWriteHeaderCore
  simp only []
  split <;> rfl

theorem noNul_trailerName : noNul trailerName := by
  intro c hc
  simp only [trailerName, List.mem_cons, List.mem_nil_iff, or_false] at hc
  omega

theorem cpioRead_newc_trailer (st : WState) (more : List Nat) (fmt : Nat) (tab : LinkTab) (acc : List RB) :
    cpioRead false true ((closeBytes .newc st).2 ++ more) fmt tab acc
      = ⟨ARCHIVE_FORMAT_CPIO_SVR4_NOCRC, acc.reverse, .eof, 0⟩ := by
  have hok : (newcWriteHeaderCore st trailerEntry trailerName 0 0).st = .ok := by
    rw [newcCore_status_indep st {}]; decide
  obtain ⟨h3, hov, _, hbytes, _⟩ := newcCore_ok st trailerEntry trailerName 0 0 hok
  have hb : (closeBytes .newc st).2 = newcHdr trailerEntry trailerName 0 0 ++ newcName trailerName := by
    show (newcWriteHeaderCore st trailerEntry trailerName 0 0).bytes = _
    rw [hbytes]
    have : trailerEntry.sym = [] := rfl
    simp only [this, ne_eq, not_true_eq_false, if_false, List.append_nil, newcName, List.append_assoc]
  rw [hb, List.append_assoc]
  have hd : devMajor trailerEntry.dev = 0 ∧ devMinor trailerEntry.dev = 0 := by decide
  obtain ⟨hlen, htake, hdrop, hparse⟩ := cpioRead_newc_header trailerEntry trailerName (newcName trailerName ++ more)
    fmt tab acc (by decide) h3 (by rw [hd.1, hd.2]; exact hov)
  rw [hd.1, hd.2] at hlen htake hdrop hparse
  rw [cpioRead, if_neg hlen]
  simp only [htake, hdrop, newcHdr_magicOk, Bool.not_true, Bool.false_eq_true, if_false, hparse, if_true]
  have hnl' := newcName_length trailerName
  have hlen2 : ¬ (newcName trailerName ++ more).length
      < trailerName.length + 1 + cpioNamePad true (trailerName.length + 1) := by
    simp only [List.length_append, hnl']; omega
  rw [if_neg hlen2]
  have hname : cstr ((newcName trailerName ++ more).take (trailerName.length + 1)) = trailerName := by
    unfold newcName
    rw [List.append_assoc (trailerName ++ [0])]
    exact cstr_path_nul trailerName _ noNul_trailerName
  simp only [hname]
  have hft : ¬ (newcRB trailerEntry 0 0).ftype = AE_IFLNK := by
    rw [newcRB_ftype]; decide
  rw [if_neg hft]
  have htr : trailerName.length + 1 = 11 ∧ True := ⟨by decide, trivial⟩
  rw [if_pos htr]

/-! ### one entry through the writer -/

/-- What the newc writer puts on the wire for an accepted entry. -/
def newcWire (e : Entry) (p : List Nat) (chunks : List (List Nat)) : List Nat :=
  newcHdr e p (devMajor e.dev) (devMinor e.dev) ++ (newcName p ++
    ((if e.sym ≠ [] then e.sym ++ List.replicate (pad4 e.sym.length) 0 else []) ++
     (entryBody (cpioSize e).toNat chunks ++ List.replicate (pad4 (cpioSize e).toNat) 0)))

theorem newcWriteHeader_ok (st : WState) (e : Entry) (hok : (newcWriteHeader st e).1 = .ok) :
    ∃ p, e.path = some p ∧ p ≠ [] ∧ (e.ftype ≠ .none ∨ e.hard ≠ []) ∧
      (newcWriteHeaderCore st e p (devMajor e.dev) (devMinor e.dev)).st = .ok ∧
      newcWriteHeader st e = (.ok, (newcWriteHeaderCore st e p (devMajor e.dev) (devMinor e.dev)).bytes,
        (newcWriteHeaderCore st e p (devMajor e.dev) (devMinor e.dev)).state) := by
  unfold newcWriteHeader at hok ⊢
  cases hpre : cpioPrecheck e true with
  | some s =>
    rw [hpre] at hok
    simp only [] at hok
    unfold cpioPrecheck at hpre
    by_cases h1 : e.ftype = .none ∧ e.hard = []
    · rw [if_pos h1] at hpre; cases hpre; cases hok
    · rw [if_neg h1] at hpre
      cases hp : e.path with
      | none => rw [hp] at hpre; cases hpre; cases hok
      | some p =>
        rw [hp] at hpre
        cases p with
        | nil => cases hpre; cases hok
        | cons c r =>
          simp only [] at hpre
          split at hpre
          · cases hpre
          · split at hpre
            · cases hpre; cases hok
            · split at hpre <;> cases hpre; cases hok
  | none =>
    rw [hpre] at hok
    simp only [] at hok ⊢
    unfold cpioPrecheck at hpre
    by_cases h1 : e.ftype = .none ∧ e.hard = []
    · rw [if_pos h1] at hpre; cases hpre
    · rw [if_neg h1] at hpre
      cases hp : e.path with
      | none => rw [hp] at hpre; cases hpre
      | some p =>
        rw [hp] at hpre hok
        cases p with
        | nil => cases hpre
        | cons c r =>
          refine ⟨c :: r, rfl, by simp, ?_, hok, ?_⟩
          · by_cases hn : e.ftype = .none
            · right; intro hh; exact h1 ⟨hn, hh⟩
            · left; exact hn
          · simp only [Option.getD_some] at hok ⊢
            rw [← hok]

theorem writeEntry_newc_ok (st : WState) (e : Entry) (chunks : List (List Nat)) (p : List Nat)
    (hcore : (newcWriteHeaderCore st e p (devMajor e.dev) (devMinor e.dev)).st = .ok)
    (hw : newcWriteHeader st e = (.ok, (newcWriteHeaderCore st e p (devMajor e.dev) (devMinor e.dev)).bytes,
        (newcWriteHeaderCore st e p (devMajor e.dev) (devMinor e.dev)).state)) :
    (writeEntry .newc st e chunks).2.2 = (newcWire e p chunks, { st with remaining := 0, padding := 0 }) := by
  obtain ⟨_, _, _, hbytes, hstate⟩ := newcCore_ok st e p _ _ hcore
  unfold writeEntry
  simp only [writeHeader, hw]
  have hne : ¬(Status.ok = Status.failed ∨ Status.ok = Status.fatal) := by decide
  rw [if_neg hne]
  rw [hstate]
  obtain ⟨h1, h2⟩ := foldData_spec chunks 0 []
    { st with remaining := (cpioSize e).toNat, padding := pad4 (cpioSize e).toNat }
  simp only [List.nil_append] at h1
  simp only [finishEntry, h1, h2, hbytes]
  unfold newcWire entryBody newcName
  simp only [Prod.mk.injEq, List.append_assoc, List.length_take, and_true]
  congr 1; congr 1; congr 1; congr 1; congr 1
  rw [List.replicate_append_replicate]

theorem writeEntry_refused (f : Fmt) (st : WState) (e : Entry) (chunks : List (List Nat))
    (h : writeHeader f st e = (.failed, [], st)) : (writeEntry f st e chunks).2.2 = ([], st) := by
  unfold writeEntry; simp [h]

/-- A header refused with ARCHIVE_FAILED wrote nothing and left the state alone. -/
theorem newcWriteHeader_failed (st : WState) (e : Entry) (h : (newcWriteHeader st e).1 = .failed) :
    newcWriteHeader st e = (.failed, [], st) := by
  unfold newcWriteHeader at h ⊢
  cases hpre : cpioPrecheck e true with
  | some s => rw [hpre] at h; simp only [] at h ⊢; rw [h]
  | none =>
    rw [hpre] at h
    simp only [] at h ⊢
    unfold newcWriteHeaderCore at h ⊢
    simp only [] at h ⊢
    split
    · rfl
    · rename_i hn
      rw [if_neg hn] at h
      simp only [] at h
      split at h <;> cases h

/-! ### agreement with the format description -/

theorem recordHardlink_snd (tab : LinkTab) (rb : RB) : ∃ h, (recordHardlink tab rb).2 = { rb with hard := h } := by
  unfold recordHardlink
  split
  · exact ⟨rb.hard, rfl⟩
  · split
    · exact ⟨_, rfl⟩
    · exact ⟨rb.hard, rfl⟩

theorem newcFormatHex_nonneg (v : Int) (d : Nat) (h : (newcFormatHex v d).1 = false) : 0 ≤ v := by
  rw [newcFormatHex_eq] at h
  by_cases hh : 0 ≤ v ∧ v.toNat < 16 ^ d
  · exact hh.1
  · rw [if_neg hh] at h; cases h

/-- The entry read back from an accepted newc header is the written one on every field newc carries. -/
theorem newc_agrees (e : Entry) (p : List Nat) (hpath : e.path = some p)
    (h3 : (newcFormatHex (cpioFilesize e) newcw_filesize_size).1 = false)
    (hsymiff : e.sym ≠ [] ↔ e.ftype = .lnk) (hd body : List Nat) :
    (norm .newc e).mismatch { ({ newcEntryRB e p with hard := hd } : RB) with body := body } 0 = none := by
  have hfs := newcFormatHex_nonneg _ _ h3
  have hm1 := mode_ftype e
  have hm2 := mode_perm e
  have hcast : (((cpioFilesize e).toNat : Nat) : Int) = cpioFilesize e := Int.toNat_of_nonneg hfs
  have hperm : e.perm % 4096 % 4096 = e.perm % 4096 := Nat.mod_mod _ _
  by_cases hsym : e.sym = []
  · have hnl : e.ftype ≠ .lnk := fun h => (hsymiff.2 h) hsym
    have hsz : cpioFilesize e = if e.ftype = .reg then e.sizeV else 0 := by
      unfold cpioFilesize cpioSize; simp only [hsym, ne_eq, not_true_eq_false, if_false]
      by_cases hr : e.ftype = .reg <;> simp [hr]
    simp [Exp.mismatch, norm, chkField, hpath, normPath, carriesHard, isTar, carriesIds, carriesNames, carriesRdev,
      permMask, isCpio, newcEntryRB, newcRB, rbSetMode, hm1, hm2, hsym, hnl, hcast, hsz, hperm]
    cases hf : e.ftype <;> simp_all
  · have hl : e.ftype = .lnk := hsymiff.1 hsym
    have hsz : cpioFilesize e = (e.sym.length : Int) := by unfold cpioFilesize; rw [if_pos hsym]
    simp [Exp.mismatch, norm, chkField, hpath, normPath, carriesHard, isTar, carriesIds, carriesNames, carriesRdev,
      permMask, isCpio, newcEntryRB, newcRB, rbSetMode, hm1, hm2, hsym, hl, hcast, hsz, hperm]
    refine ⟨?_, ?_⟩ <;> (unfold Entry.mode; rw [hl]; simp only [FType.bits, AE_IFLNK]; omega)

/-! ### a whole newc stream -/

theorem newcWriteHeader_status_indep (st st' : WState) (e : Entry) :
    (newcWriteHeader st e).1 = (newcWriteHeader st' e).1 := by
  unfold newcWriteHeader
  cases cpioPrecheck e true with
  | some s => rfl
  | none => exact newcCore_status_indep st st' e _ _ _

/-- Entries the newc theorems speak about: C strings; a link target exactly for symbolic links (at
most 1 MiB, the reader's limit); not the reserved name `TRAILER!!!`; a name length that fits the
C `int`; and a header the writer either accepts with plain ARCHIVE_OK or refuses (fields that would
be saturated, answered ARCHIVE_WARN, are C10's subject). -/
def NewcEntryOK (e : Entry) : Prop :=
  wfEntry e ∧ (e.sym ≠ [] ↔ e.ftype = .lnk) ∧ e.sym.length ≤ 1048576 ∧ e.path ≠ some trailerName ∧
  (∀ p, e.path = some p → p.length < 2147483647) ∧
  ((newcWriteHeader {} e).1 = .ok ∨ (newcWriteHeader {} e).1 = .failed)

def newcAccepted (e : Entry) : Bool := (newcWriteHeader {} e).1 == .ok

/-- What C02 promises about one entry read back from a cpio stream. -/
def CpioReadsBack (f : WFmt) (ec : Entry × List (List Nat)) (rb : RB) : Prop :=
  (norm f ec.1).mismatch rb 0 = none ∧ rb.body = entryBody (cpioSize ec.1).toNat ec.2 ∧ rb.bodySt = .eof

theorem entryBody_zero (chunks : List (List Nat)) : entryBody 0 chunks = [] := by
  unfold entryBody; simp

theorem cpioRead_newc_entries (es : List (Entry × List (List Nat))) (hes : ∀ ec ∈ es, NewcEntryOK ec.1)
    (st stT : WState) (pad : List Nat) (fmt : Nat) (tab : LinkTab) (acc : List RB) :
    ∃ rbs, cpioRead false true ((writeEntries .newc st es).1 ++ ((closeBytes .newc stT).2 ++ pad)) fmt tab acc
        = ⟨ARCHIVE_FORMAT_CPIO_SVR4_NOCRC, acc.reverse ++ rbs, .eof, 0⟩ ∧
      AllPairs (CpioReadsBack .newc) (es.filter fun ec => newcAccepted ec.1) rbs := by
  induction es generalizing st fmt tab acc with
  | nil =>
    refine ⟨[], ?_, AllPairs.nil⟩
    simp only [writeEntries, List.nil_append, List.append_nil]
    exact cpioRead_newc_trailer stT pad fmt tab acc
  | cons ec r ih =>
    obtain ⟨e, chunks⟩ := ec
    obtain ⟨hwf, hsymiff, hsl, hnt, hpl, hst⟩ := hes (e, chunks) (List.mem_cons_self ..)
    have hr : ∀ ec ∈ r, NewcEntryOK ec.1 := fun ec h => hes ec (List.mem_cons_of_mem _ h)
    simp only [writeEntries]
    rw [newcWriteHeader_status_indep {} st] at hst
    rcases hst with hok | hfail
    · -- accepted
      have hacc : newcAccepted e = true := by
        unfold newcAccepted; rw [newcWriteHeader_status_indep {} st, hok]; rfl
      obtain ⟨p, hp, hpne, _, hcore, hw⟩ := newcWriteHeader_ok st e hok
      obtain ⟨h3, hov, _, _, _⟩ := newcCore_ok st e p _ _ hcore
      have hwe := writeEntry_newc_ok st e chunks p hcore hw
      have hpn : noNul p := wfStr_noNul (hwf.1 p hp)
      have hptr : p ≠ trailerName := fun h => hnt (by rw [hp, h])
      rw [hwe]
      simp only []
      by_cases hl : e.ftype = .lnk
      · -- symbolic link
        have hsym : e.sym ≠ [] := hsymiff.2 hl
        have hcs : cpioSize e = 0 := by unfold cpioSize; rw [hl]; simp
        obtain ⟨rbs, hread, hall⟩ := ih hr { st with remaining := 0, padding := 0 } ARCHIVE_FORMAT_CPIO_SVR4_NOCRC
          (recordHardlink tab (newcEntryRB e p)).1 ((recordHardlink tab (newcEntryRB e p)).2 :: acc)
        obtain ⟨hd, hhd⟩ := recordHardlink_snd tab (newcEntryRB e p)
        refine ⟨(recordHardlink tab (newcEntryRB e p)).2 :: rbs, ?_, ?_⟩
        · have hshape : newcWire e p chunks ++ (writeEntries .newc { st with remaining := 0, padding := 0 } r).1
              ++ ((closeBytes .newc stT).2 ++ pad)
              = newcHdr e p (devMajor e.dev) (devMinor e.dev) ++ (newcName p ++ (e.sym ++ (List.replicate (pad4 e.sym.length) 0 ++
                  ((writeEntries .newc { st with remaining := 0, padding := 0 } r).1 ++ ((closeBytes .newc stT).2 ++ pad))))) := by
            unfold newcWire
            rw [if_pos hsym, hcs]
            simp only [Int.toNat_zero, entryBody_zero, pad4, List.replicate_zero, List.nil_append, List.append_assoc,
              Nat.zero_mod, Nat.sub_zero, Nat.mod_self]
          rw [hshape, cpioRead_newc_symlink e p _ fmt tab acc hpn (hpl p hp) h3 hov hl hsym (wfStr_noNul hwf.2.2.2.1) hsl, hread]
          simp only [List.reverse_cons, List.append_assoc, List.singleton_append]
        · rw [List.filter_cons, if_pos (by simpa using hacc)]
          refine AllPairs.cons ⟨?_, ?_, ?_⟩ hall
          · rw [hhd]
            exact newc_agrees e p hp h3 hsymiff hd (newcEntryRB e p).body
          · rw [hhd, hcs]; simp only [Int.toNat_zero, entryBody_zero]; rfl
          · rw [hhd]; rfl
      · -- anything else: the body follows the name block
        have hsym : e.sym = [] := by
          by_cases h : e.sym = []
          · exact h
          · exact absurd (hsymiff.1 h) hl
        have hfs : cpioFilesize e = cpioSize e := by unfold cpioFilesize; rw [hsym]; simp
        obtain ⟨rbs, hread, hall⟩ := ih hr { st with remaining := 0, padding := 0 } ARCHIVE_FORMAT_CPIO_SVR4_NOCRC
          (recordHardlink tab (newcEntryRB e p)).1
          ({ (recordHardlink tab (newcEntryRB e p)).2 with body := entryBody (cpioSize e).toNat chunks } :: acc)
        obtain ⟨hd, hhd⟩ := recordHardlink_snd tab (newcEntryRB e p)
        refine ⟨{ (recordHardlink tab (newcEntryRB e p)).2 with body := entryBody (cpioSize e).toNat chunks } :: rbs, ?_, ?_⟩
        · have hshape : newcWire e p chunks ++ (writeEntries .newc { st with remaining := 0, padding := 0 } r).1
              ++ ((closeBytes .newc stT).2 ++ pad)
              = newcHdr e p (devMajor e.dev) (devMinor e.dev) ++ (newcName p ++ (entryBody (cpioSize e).toNat chunks ++
                  (List.replicate (pad4 (cpioFilesize e).toNat) 0 ++
                  ((writeEntries .newc { st with remaining := 0, padding := 0 } r).1 ++ ((closeBytes .newc stT).2 ++ pad))))) := by
            unfold newcWire
            rw [hsym, hfs]
            simp only [ne_eq, not_true_eq_false, if_false, List.nil_append, List.append_assoc]
          rw [hshape, cpioRead_newc_file e p _ _ fmt tab acc hpn (hpl p hp) h3 hov hl hsym hptr
            (by rw [entryBody_length, hfs]), hread]
          simp only [List.reverse_cons, List.append_assoc, List.singleton_append]
        · rw [List.filter_cons, if_pos (by simpa using hacc)]
          refine AllPairs.cons ⟨?_, rfl, ?_⟩ hall
          · rw [hhd]
            exact newc_agrees e p hp h3 hsymiff hd _
          · rw [hhd]; rfl
    · -- refused: nothing was written
      have hacc : newcAccepted e = false := by
        unfold newcAccepted; rw [newcWriteHeader_status_indep {} st, hfail]; rfl
      have hwe := writeEntry_refused .newc st e chunks (newcWriteHeader_failed st e hfail)
      obtain ⟨rbs, hread, hall⟩ := ih hr st fmt tab acc
      refine ⟨rbs, ?_, ?_⟩
      · rw [hwe]; simp only [List.nil_append]; exact hread
      · rw [List.filter_cons, if_neg (by simp [hacc])]; exact hall

/-! ### what the format description calls representable is accepted -/

theorem newcFormatHex_fits (v : Int) (d : Nat) (h : 0 ≤ v ∧ v.toNat < 16 ^ d) : (newcFormatHex v d).1 = false := by
  rw [newcFormatHex_eq, if_pos h]

theorem devMajorN_lt (u : Nat) : devMajorN u < 4294967296 := by unfold devMajorN; omega
theorem devMinorN_lt (u : Nat) : devMinorN u < 4294967296 := by unfold devMinorN; omega

theorem inR_iff (v lo hi : Int) : inR v lo hi = true ↔ lo ≤ v ∧ v ≤ hi := by
  unfold inR; simp

end LA.Codec
