/-
Helper lemmas for C04, part 3: the confinement invariant and its preservation
by the primitive mutations of `LA.FS` at positions inside the target.
-/
import LA.Lemmas.FSTree
namespace LA.FS

/-- Placeholder that stands for "whatever is in the target directory". -/
def hole : Tree := .file 0

/-- The tree with the subtree at `T` cut out. -/
def mask (T : List Name) (t : Tree) : Tree := modify (fun _ => hole) t T

/-- The frame of one extraction: the target position, the inodes that were
reachable from inside the target at the start (`S`), the first unused inode
number and the outside world at the start. -/
structure Ctx where
  T : List Name
  S : Nat → Prop
  n0 : Nat
  root0 : Tree
  files0 : Nat → Option FNode

/-- Inodes the extraction may touch: those reachable from inside the target at
the start, and those it allocates itself. -/
def Ctx.inS (c : Ctx) (i : Nat) : Prop := c.S i ∨ c.n0 ≤ i

/-- Every file reference below `t` satisfies `P`. -/
def RefsIn (P : Nat → Prop) (t : Tree) : Prop := ∀ p ino, get t p = some (.file ino) → P ino

structure Inv (c : Ctx) (pr : Proc) : Prop where
  tree : mask c.T pr.fs.root = mask c.T c.root0
  files : ∀ i, i < c.n0 → ¬ c.S i → pr.fs.files i = c.files0 i
  refs : ∀ tT, get pr.fs.root c.T = some tT → RefsIn c.inS tT
  next : c.n0 ≤ pr.fs.next
  tdir : ∃ tT, get pr.fs.root c.T = some tT ∧ tT.isDir = true
  cwd : pr.cwd = c.T
  fd : ∀ i, pr.fd = some i → c.inS i
  dfd : ∀ D, pr.dfd = some D → c.T <+: D
  xfd : ∀ h, pr.xfd = some h → match h with
    | .dir pos => c.T <+: pos
    | .file i => c.inS i

/-! ### RefsIn -/

theorem refsIn_child {P : Nat → Prop} {t t' : Tree} {c : Name} (h : RefsIn P t) (hc : t.child c = some t') :
    RefsIn P t' := by
  intro p ino hp
  apply h (c :: p) ino
  rw [get_cons, hc]; exact hp

theorem refsIn_get {P : Nat → Prop} {t t' : Tree} {d : List Name} (h : RefsIn P t) (hd : get t d = some t') :
    RefsIn P t' := by
  intro p ino hp
  apply h (d ++ p) ino
  rw [get_append, hd]; exact hp

theorem refsIn_file {P : Nat → Prop} {i : Nat} (h : P i) : RefsIn P (.file i) := by
  intro p ino hp
  cases p with
  | nil => simp at hp; subst hp; exact h
  | cons c p => simp [get_cons, Tree.child] at hp

theorem refsIn_emptyDir {P : Nat → Prop} (m : Nat) (mt : Int) : RefsIn P (.dir m mt []) := by
  intro p ino hp
  cases p with
  | nil => simp at hp
  | cons c p => simp [get_cons, Tree.child, alGet] at hp

theorem refsIn_put {P : Nat → Prop} {t x : Tree} {c : Name} (h : RefsIn P t) (hx : RefsIn P x) :
    RefsIn P (t.put c x) := by
  intro p ino hp
  cases p with
  | nil =>
    cases t with
    | dir m mt es => simp [Tree.put] at hp
    | file i => exact h [] ino (by simpa [Tree.put] using hp)
  | cons c' p =>
    rw [get_cons, child_put] at hp
    split at hp
    · exact hx p ino (by simpa using hp)
    · exact h (c' :: p) ino (by rw [get_cons]; exact hp)

theorem refsIn_del {P : Nat → Prop} {t : Tree} {c : Name} (h : RefsIn P t) : RefsIn P (t.del c) := by
  intro p ino hp
  cases p with
  | nil =>
    cases t with
    | dir m mt es => simp [Tree.del] at hp
    | file i => exact h [] ino (by simpa [Tree.del] using hp)
  | cons c' p =>
    rw [get_cons, child_del] at hp
    split at hp
    · simp at hp
    · exact h (c' :: p) ino (by rw [get_cons]; exact hp)

theorem refsIn_touch {P : Nat → Prop} {t : Tree} (h : RefsIn P t) : RefsIn P t.touch := by
  intro p ino hp
  cases p with
  | nil =>
    cases t with
    | dir m mt es => simp [Tree.touch] at hp
    | file i => exact h [] ino (by simpa [Tree.touch] using hp)
  | cons c' p =>
    rw [get_cons, child_touch] at hp
    exact h (c' :: p) ino (by rw [get_cons]; exact hp)

theorem refsIn_modify {P : Nat → Prop} (f : Tree → Tree) (hf : ∀ t, RefsIn P t → RefsIn P (f t)) :
    ∀ (d : List Name) (t : Tree), RefsIn P t → RefsIn P (modify f t d) := by
  intro d
  induction d with
  | nil => intro t h; exact hf t h
  | cons c d ih =>
    intro t h
    rw [modify_cons]
    cases hc : t.child c with
    | none => exact h
    | some t' => exact refsIn_put h (ih t' (refsIn_child h hc))

/-! ### reading at a prefix of the modified position -/

theorem get_modify_prefix (f : Tree → Tree) (t : Tree) (p r : List Name) :
    get (modify f t (p ++ r)) p = (get t p).map (fun x => modify f x r) := by
  induction p generalizing t with
  | nil => simp
  | cons c p ih =>
    rw [List.cons_append, modify_cons, get_cons, get_cons]
    cases hc : t.child c with
    | none => simp [hc]
    | some t' =>
      simp only [child_put, isDir_of_child hc, and_self, if_true, Option.bind_some]
      exact ih t'

/-! ### the tree part of the invariant under a change inside the target -/

/-- What the three tree-shaped clauses of `Inv` say about a root. -/
structure TreeInv (c : Ctx) (root : Tree) : Prop where
  tree : mask c.T root = mask c.T c.root0
  refs : ∀ tT, get root c.T = some tT → RefsIn c.inS tT
  tdir : ∃ tT, get root c.T = some tT ∧ tT.isDir = true

theorem treeInv_modify {c : Ctx} {root : Tree} (h : TreeInv c root) (f : Tree → Tree)
    (hs : ShapeKeeping f) (hf : ∀ t, RefsIn c.inS t → RefsIn c.inS (f t)) (r : List Name) :
    TreeInv c (modify f root (c.T ++ r)) := by
  obtain ⟨tT, hT, hd⟩ := h.tdir
  have hg : get (modify f root (c.T ++ r)) c.T = some (modify f tT r) := by
    rw [get_modify_prefix, hT]; rfl
  refine ⟨?_, ?_, ⟨_, hg, ?_⟩⟩
  · unfold mask
    rw [modify_const_absorb _ (fun _ _ => rfl)]
    exact h.tree
  · intro tT' hT'
    rw [hg] at hT'
    simp only [Option.some.injEq] at hT'
    subst hT'
    exact refsIn_modify f hf r tT (h.refs tT hT)
  · rw [isDir_modify f hs]; exact hd

theorem shapeKeeping_put_touch (n : Name) (x : Tree) : ShapeKeeping (fun t => (t.put n x).touch) := by
  intro t
  refine ⟨by simp, ?_⟩
  intro h
  cases t with
  | dir => simp [Tree.isDir] at h
  | file i => rfl

theorem shapeKeeping_del_touch (n : Name) : ShapeKeeping (fun t => (t.del n).touch) := by
  intro t
  refine ⟨by simp, ?_⟩
  intro h
  cases t with
  | dir => simp [Tree.isDir] at h
  | file i => rfl

theorem treeInv_putAt {c : Ctx} {fs : FS} (h : TreeInv c fs.root) (r : List Name) (n : Name) (x : Tree)
    (hx : RefsIn c.inS x) : TreeInv c (putAt fs (c.T ++ r) n x).root :=
  treeInv_modify h _ (shapeKeeping_put_touch n x)
    (fun _ ht => refsIn_touch (refsIn_put ht hx)) r

theorem treeInv_delAt {c : Ctx} {fs : FS} (h : TreeInv c fs.root) (r : List Name) (n : Name) :
    TreeInv c (delAt fs (c.T ++ r) n).root :=
  treeInv_modify h _ (shapeKeeping_del_touch n) (fun _ ht => refsIn_touch (refsIn_del ht)) r

theorem treeInv_setDirMeta {c : Ctx} {fs : FS} (h : TreeInv c fs.root) (r : List Name)
    (g : Nat → Int → Nat × Int) : TreeInv c (setDirMeta fs (c.T ++ r) g).root := by
  apply treeInv_modify h
  · intro t; cases t <;> simp [Tree.isDir]
  · intro t ht p ino hp
    cases t with
    | file i => exact ht p ino hp
    | dir m mt es =>
      cases p with
      | nil => simp at hp
      | cons c' p =>
        apply ht (c' :: p) ino
        rw [get_cons] at hp ⊢
        exact hp

end LA.FS
