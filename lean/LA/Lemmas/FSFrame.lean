/-
Helper lemmas for C04, part 5: "no symlink along this prefix" is preserved by
the primitive mutations.
-/
import LA.Lemmas.FSWalk
namespace LA.FS

/-- An object that may be put at a checked position without spoiling the check:
an empty directory, or a file reference that is not a symlink. -/
def OKx (fs : FS) (x : Tree) : Prop :=
  (x.isDir = true → ∀ cs, NoLinkT fs x cs) ∧ (x.isDir = false → isLnk fs x = false)

theorem okx_emptyDir (fs : FS) (m : Nat) (mt : Int) : OKx fs (.dir m mt []) := by
  refine ⟨fun _ cs => ?_, fun h => by simp [Tree.isDir] at h⟩
  cases cs with
  | nil => trivial
  | cons c r => simp [NoLinkT, Tree.child, alGet]

theorem noLinkT_nil (fs : FS) (t : Tree) : NoLinkT fs t [] := trivial

theorem noLinkT_put (fs : FS) (n : Name) (x : Tree) : ∀ (d cs : List Name) (t : Tree), NoLinkT fs t cs →
    (OKx fs x ∨ ¬ (d ++ [n]) <+: cs) →
    NoLinkT fs (modify (fun t => (t.put n x).touch) t d) cs := by
  intro d
  induction d with
  | nil =>
    intro cs t h hc
    cases cs with
    | nil => trivial
    | cons c rest =>
      simp only [modify, NoLinkT, child_touch, child_put] at h ⊢
      by_cases hn : n = c ∧ t.isDir = true
      · simp only [hn, and_self, if_true]
        rcases hc with hc | hc
        · by_cases hd : x.isDir = true
          · simp only [hd, if_true]; exact hc.1 hd rest
          · simp only [hd]; exact hc.2 (by simpa using hd)
        · exfalso; apply hc; simp [hn.1]
      · simp only [hn, if_false]; exact h
  | cons e d ih =>
    intro cs t h hc
    rw [modify_cons]
    cases hch : t.child e with
    | none => exact h
    | some t' =>
      simp only
      cases cs with
      | nil => trivial
      | cons c rest =>
        simp only [NoLinkT, child_put] at h ⊢
        by_cases hn : e = c ∧ t.isDir = true
        · obtain ⟨he, hdir⟩ := hn
          subst he
          simp only [hdir, and_self, if_true]
          simp only [hch] at h
          have hs := shapeKeeping_put_touch n x
          rw [isDir_modify _ hs]
          by_cases hd : t'.isDir = true
          · simp only [hd, if_true] at h ⊢
            apply ih rest t' h
            rcases hc with hc | hc
            · exact Or.inl hc
            · right; intro hp; apply hc; simpa using hp
          · simp only [hd] at h ⊢
            rw [modify_file _ hs _ (by simpa using hd)]; exact h
        · simp only [hn, if_false]; exact h

theorem noLinkT_del (fs : FS) (n : Name) : ∀ (d cs : List Name) (t : Tree), NoLinkT fs t cs →
    NoLinkT fs (modify (fun t => (t.del n).touch) t d) cs := by
  intro d
  induction d with
  | nil =>
    intro cs t h
    cases cs with
    | nil => trivial
    | cons c rest =>
      simp only [modify, NoLinkT, child_touch, child_del] at h ⊢
      by_cases hn : n = c
      · simp [hn]
      · simp only [hn, if_false]; exact h
  | cons e d ih =>
    intro cs t h
    rw [modify_cons]
    cases hch : t.child e with
    | none => exact h
    | some t' =>
      simp only
      cases cs with
      | nil => trivial
      | cons c rest =>
        simp only [NoLinkT, child_put] at h ⊢
        by_cases hn : e = c ∧ t.isDir = true
        · obtain ⟨he, hdir⟩ := hn
          subst he
          simp only [hdir, and_self, if_true]
          simp only [hch] at h
          have hs := shapeKeeping_del_touch n
          rw [isDir_modify _ hs]
          by_cases hd : t'.isDir = true
          · simp only [hd, if_true] at h ⊢; exact ih rest t' h
          · simp only [hd] at h ⊢
            rw [modify_file _ hs _ (by simpa using hd)]; exact h
        · simp only [hn, if_false]; exact h

/-- A change that keeps every entry of the directory it is applied to. -/
theorem noLinkT_keepChildren (fs : FS) (f : Tree → Tree) (hs : ShapeKeeping f)
    (hk : ∀ t c, (f t).child c = t.child c) : ∀ (d cs : List Name) (t : Tree), NoLinkT fs t cs →
    NoLinkT fs (modify f t d) cs := by
  intro d
  induction d with
  | nil =>
    intro cs t h
    cases cs with
    | nil => trivial
    | cons c rest => simp only [modify, NoLinkT, hk] at h ⊢; exact h
  | cons e d ih =>
    intro cs t h
    rw [modify_cons]
    cases hch : t.child e with
    | none => exact h
    | some t' =>
      simp only
      cases cs with
      | nil => trivial
      | cons c rest =>
        simp only [NoLinkT, child_put] at h ⊢
        by_cases hn : e = c ∧ t.isDir = true
        · obtain ⟨he, hdir⟩ := hn
          subst he
          simp only [hdir, and_self, if_true]
          simp only [hch] at h
          rw [isDir_modify _ hs]
          by_cases hd : t'.isDir = true
          · simp only [hd, if_true] at h ⊢; exact ih rest t' h
          · simp only [hd] at h ⊢
            rw [modify_file _ hs _ (by simpa using hd)]; exact h
        · simp only [hn, if_false]; exact h

/-- Changing the inode table without turning any referenced inode into a symlink. -/
theorem noLinkT_files (fs fs' : FS) : ∀ (cs : List Name) (t : Tree),
    (∀ p i, get t p = some (.file i) → isLnk fs' (.file i) = true → isLnk fs (.file i) = true) →
    NoLinkT fs t cs → NoLinkT fs' t cs := by
  intro cs
  induction cs with
  | nil => intro _ _ _; trivial
  | cons c rest ih =>
    intro t hl h
    simp only [NoLinkT] at h ⊢
    cases hc : t.child c with
    | none => trivial
    | some t' =>
      simp only [hc] at h ⊢
      by_cases hd : t'.isDir = true
      · simp only [hd, if_true] at h ⊢
        apply ih t' _ h
        intro p i hp
        exact hl (c :: p) i (by rw [get_cons, hc]; exact hp)
      · simp only [hd] at h ⊢
        cases t' with
        | dir => simp [Tree.isDir] at hd
        | file i =>
          cases hh : isLnk fs' (.file i) with
          | false => rfl
          | true =>
            have := hl [c] i (by rw [get_cons, hc]; rfl) hh
            rw [this] at h; exact absurd h (by simp)

end LA.FS
