/-
C12 helper: assembly of the round-trip theorem from the walk facts (TreeWalk), the entry
phase (TreeRestore) and the fix-up loop (TreeClose).
-/
import LA.Lemmas.TreeWalk
import LA.Lemmas.TreeClose
import LA.Lemmas.TreeRestore
set_option linter.unusedSimpArgs false
set_option linter.unusedVariables false
namespace LA.Tree

theorem entriesOk_of_treeOk {t : Node} (h : TreeOk t) : EntriesOk (capture t) :=
  { nodup := capture_paths_nodup t h.names
    fresh := fun e he => (capture_fresh t e he).1
    leaves := h.leaves, modes := h.modes, links := h.links, counts := h.counts }

theorem toFS_lookup {t : Node} {p : Path} {y : FNode} (h : (toFS t).lookup p = some y) :
    ∃ e ∈ capture t, e.path = p ∧ y = e.fnode := by
  have := lookup_some_mem h
  unfold toFS at this
  obtain ⟨e, he, hey⟩ := List.mem_map.mp this
  simp only [Prod.mk.injEq] at hey
  exact ⟨e, he, hey.1, hey.2.symm⟩

theorem find_fixup {l : List Fixup} (hn : (l.map (·.path)).Nodup) {f : Fixup} (hf : f ∈ l) :
    l.find? (fun g => g.path == f.path) = some f := by
  induction l with
  | nil => simp at hf
  | cons a l ih =>
    simp only [List.map_cons, List.nodup_cons] at hn
    rcases List.mem_cons.mp hf with h | h
    · subst h; simp
    · have hne : a.path ≠ f.path := by
        intro hh; apply hn.1; rw [hh]; exact List.mem_map.mpr ⟨f, h, rfl⟩
      have : (a.path == f.path) = false := by simpa using hne
      simp only [List.find?, this]
      exact ih hn.2 h

theorem restore_capture_same (t : Node) (ht : TreeOk t) (o : Opts) (ho : OptsOk o) (dstMode : Nat)
    (hdst : o.root = true ∨ (dstMode &&& 0o200 ≠ 0 ∧ dstMode &&& 0o100 ≠ 0)) :
    (∀ s ∈ (restore o dstMode (linkify .tar (capture t))).2, s = .ok) ∧
      SameTree (restore o dstMode (linkify .tar (capture t))).1 (toFS t) := by
  obtain ⟨m, cs, rfl⟩ := ht.isDir
  have hes := entriesOk_of_treeOk ht
  rw [linkify_tar_eq _ hes.linkOk hes.fresh]
  have hcap : capture (.dir m cs) = (Node.dir m cs).entry [] :: (Node.dir m cs).inside [] := rfl
  have hrun := restoreAll_tar o ho dstMode hdst ((Node.dir m cs).entry []) ((Node.dir m cs).inside [])
    (by rw [← hcap]; exact hes) (Node.entry_path _ _) (Node.entry_dir _ _ _) (capture_parents m cs)
  rw [← hcap] at hrun
  obtain ⟨hP, hok⟩ := hrun
  generalize hw : restoreAll o (emptyDst dstMode) (tarSpec (capture (.dir m cs))) = rw at hP hok
  have hrestore : restore o dstMode (tarSpec (capture (.dir m cs))) = (closeDisk o rw.1, rw.2) := by
    simp [restore, hw]
  rw [hrestore]
  refine ⟨hok, ?_⟩
  obtain ⟨hnames, hleafs, hdirs⟩ := closeDisk_spec o rw.1 hP.closeReady
  have hpaths : rw.1.fs.map (·.1) = (capture (.dir m cs)).map (·.path) := by
    rw [hP.names, hcap]
    simp [Node.entry_path]
  refine { names := ?_, attrs := ?_, links := ?_ }
  · simp only []
    rw [hnames, hpaths]
    simp [toFS, List.map_map, Function.comp_def]
  · intro p x y hx hy
    simp only [] at hx
    obtain ⟨e, he, hep, hye⟩ := toFS_lookup hy
    subst hep
    by_cases hd : e.ftype = .dir
    · obtain ⟨n, hn, hk⟩ := hP.seenDir e he hd
      obtain ⟨n', hn', hk', _, hfx⟩ := hdirs e.path n hn hk
      rw [hn'] at hx
      have hxn : x = n' := by simpa using hx.symm
      have hfind : rw.1.fixups.find? (fun g => g.path == e.path) = some (fixupOf o dstMode e) :=
        find_fixup hP.fxNodup (hP.fxAll e he hd)
      rw [hfind] at hfx
      simp only [fixupOf] at hfx
      simp only [if_true] at hfx
      rw [hxn, hye]
      refine ⟨by rw [hk', Entry.fnode, kindOf_dir hd], ?_, by rw [hfx.2]; rfl⟩
      rw [hfx.1]
      simp only [Entry.fnode]
      by_cases hroot : e.path = []
      · simp only [hroot, if_true, ho.perm, Bool.and_true]
        by_cases hmode : e.mode = dstMode
        · have hnroot : n.mode = dstMode := by
            rw [hroot, hP.root] at hn
            have : n = { ino := 0, kind := .dir, mode := dstMode, mtime := none } := by simpa using hn.symm
            rw [this]
          simp [hmode, hnroot]
        · simp [hmode, mode_mask _ (ht.modes e he)]
      · simp [hroot, mode_mask _ (ht.modes e he)]
    · obtain ⟨n, hn, hk, hm, hmt⟩ := hP.seenLeaf e he hd
      have := hleafs e.path n hn (by rw [hk]; exact kindOf_ne_dir hd)
      rw [this] at hx
      have hxn : x = n := by simpa using hx.symm
      rw [hxn, hye]
      exact ⟨hk, hm, hmt⟩
  · intro p q x x' y y' hx hx' hy hy' hyk hyk'
    simp only [] at hx hx'
    obtain ⟨e, he, hep, hye⟩ := toFS_lookup hy
    obtain ⟨e', he', hep', hye'⟩ := toFS_lookup hy'
    subst hep; subst hep'
    have hd : e.ftype ≠ .dir := by
      intro hh; apply hyk; rw [hye, Entry.fnode, kindOf_dir hh]
    have hd' : e'.ftype ≠ .dir := by
      intro hh; apply hyk'; rw [hye', Entry.fnode, kindOf_dir hh]
    obtain ⟨n, hn, hk, _, _⟩ := hP.seenLeaf e he hd
    obtain ⟨n', hn', hk', _, _⟩ := hP.seenLeaf e' he' hd'
    have h1 := hleafs e.path n hn (by rw [hk]; exact kindOf_ne_dir hd)
    have h2 := hleafs e'.path n' hn' (by rw [hk']; exact kindOf_ne_dir hd')
    rw [h1] at hx; rw [h2] at hx'
    have hxn : x = n := by simpa using hx.symm
    have hxn' : x' = n' := by simpa using hx'.symm
    rw [hxn, hxn', hye, hye']
    exact hP.inos e he e' he' hd hd' n n' hn hn'


end LA.Tree
