/-
C12 helper: assembly of the round-trip theorem from the walk facts (TreeWalk), the entry
phase (TreeRestore) and the fix-up loop (TreeClose).
-/
import LA.Lemmas.TreeWalk
import LA.Lemmas.TreeClose
import LA.Lemmas.TreeRestore
set_option linter.unusedSimpArgs false
set_option linter.unusedVariables false
namespace LA.Tree

theorem entriesOk_of_treeOk {t : Node} (h : TreeOk t) : EntriesOk (capture t) :=
  { nodup := capture_paths_nodup t h.names
    fresh := fun e he => (capture_fresh t e he).1
    leaves := h.leaves, modes := h.modes, links := h.links, counts := h.counts }

theorem toFS_lookup {t : Node} {p : Path} {y : FNode} (h : (toFS t).lookup p = some y) :
    ∃ e ∈ capture t, e.path = p ∧ y = e.fnode := by
  have := lookup_some_mem h
  unfold toFS at this
  obtain ⟨e, he, hey⟩ := List.mem_map.mp this
  simp only [Prod.mk.injEq] at hey
  exact ⟨e, he, hey.1, hey.2.symm⟩

theorem find_fixup {l : List Fixup} (hn : (l.map (·.path)).Nodup) {f : Fixup} (hf : f ∈ l) :
    l.find? (fun g => g.path == f.path) = some f := by
  induction l with
  | nil => simp at hf
  | cons a l ih =>
    simp only [List.map_cons, List.nodup_cons] at hn
    rcases List.mem_cons.mp hf with h | h
    · subst h; simp
    · have hne : a.path ≠ f.path := by
        intro hh; apply hn.1; rw [hh]; exact List.mem_map.mpr ⟨f, h, rfl⟩
      have : (a.path == f.path) = false := by simpa using hne
      simp only [List.find?, this]
      exact ih hn.2 h

theorem restore_capture_same (t : Node) (ht : TreeOk t) (o : Opts) (ho : OptsOk o) (dstMode : Nat)
    (hdst : o.root = true ∨ (dstMode &&& 0o200 ≠ 0 ∧ dstMode &&& 0o100 ≠ 0)) :
    (∀ s ∈ (restore o dstMode (linkify .tar (capture t))).2, s = .ok) ∧
      SameTree (restore o dstMode (linkify .tar (capture t))).1 (toFS t) := by
  obtain ⟨m, cs, rfl⟩ := ht.isDir
  have hes := entriesOk_of_treeOk ht
  rw [linkify_tar_eq _ hes.linkOk hes.fresh]
  have hcap : capture (.dir m cs) = (Node.dir m cs).entry [] :: (Node.dir m cs).inside [] := rfl
  have hrun := restoreAll_tar o ho dstMode hdst ((Node.dir m cs).entry []) ((Node.dir m cs).inside [])
    (by rw [← hcap]; exact hes) (Node.entry_path _ _) (Node.entry_dir _ _ _) (capture_parents m cs)
  rw [← hcap] at hrun
  obtain ⟨hP, hok⟩ := hrun
  generalize hw : restoreAll o (emptyDst dstMode) (tarSpec (capture (.dir m cs))) = rw at hP hok
  have hrestore : restore o dstMode (tarSpec (capture (.dir m cs))) = (closeDisk o rw.1, rw.2) := by
    simp [restore, hw]
  rw [hrestore]
  refine ⟨hok, ?_⟩
  obtain ⟨hnames, hleafs, hdirs⟩ := closeDisk_spec o rw.1 hP.closeReady
  have hpaths : rw.1.fs.map (·.1) = (capture (.dir m cs)).map (·.path) := by
    rw [hP.names, hcap]
    simp [Node.entry_path]
  refine { names := ?_, attrs := ?_, links := ?_ }
  · simp only []
    rw [hnames, hpaths]
    simp [toFS, List.map_map, Function.comp_def]
  · intro p x y hx hy
    simp only [] at hx
    obtain ⟨e, he, hep, hye⟩ := toFS_lookup hy
    subst hep
    by_cases hd : e.ftype = .dir
    · obtain ⟨n, hn, hk⟩ := hP.seenDir e he hd
      obtain ⟨n', hn', hk', _, hfx⟩ := hdirs e.path n hn hk
      rw [hn'] at hx
      have hxn : x = n' := by simpa using hx.symm
      have hfind : rw.1.fixups.find? (fun g => g.path == e.path) = some (fixupOf o dstMode e) :=
        find_fixup hP.fxNodup (hP.fxAll e he hd)
      rw [hfind] at hfx
      simp only [fixupOf] at hfx
      simp only [if_true] at hfx
      rw [hxn, hye]
      refine ⟨by rw [hk', Entry.fnode, kindOf_dir hd], ?_, by rw [hfx.2]; rfl⟩
      rw [hfx.1]
      simp only [Entry.fnode]
      by_cases hroot : e.path = []
      · simp only [hroot, if_true, ho.perm, Bool.and_true]
        by_cases hmode : e.mode = dstMode
        · have hnroot : n.mode = dstMode := by
            rw [hroot, hP.root] at hn
            have : n = { ino := 0, kind := .dir, mode := dstMode, mtime := none } := by simpa using hn.symm
            rw [this]
          simp [hmode, hnroot]
        · simp [hmode, mode_mask _ (ht.modes e he)]
      · simp [hroot, mode_mask _ (ht.modes e he)]
    · obtain ⟨n, hn, hk, hm, hmt⟩ := hP.seenLeaf e he hd
      have := hleafs e.path n hn (by rw [hk]; exact kindOf_ne_dir hd)
      rw [this] at hx
      have hxn : x = n := by simpa using hx.symm
      rw [hxn, hye]
      exact ⟨hk, hm, hmt⟩
  · intro p q x x' y y' hx hx' hy hy' hyk hyk'
    simp only [] at hx hx'
    obtain ⟨e, he, hep, hye⟩ := toFS_lookup hy
    obtain ⟨e', he', hep', hye'⟩ := toFS_lookup hy'
    subst hep; subst hep'
    have hd : e.ftype ≠ .dir := by
      intro hh; apply hyk; rw [hye, Entry.fnode, kindOf_dir hh]
    have hd' : e'.ftype ≠ .dir := by
      intro hh; apply hyk'; rw [hye', Entry.fnode, kindOf_dir hh]
    obtain ⟨n, hn, hk, _, _⟩ := hP.seenLeaf e he hd
    obtain ⟨n', hn', hk', _, _⟩ := hP.seenLeaf e' he' hd'
    have h1 := hleafs e.path n hn (by rw [hk]; exact kindOf_ne_dir hd)
    have h2 := hleafs e'.path n' hn' (by rw [hk']; exact kindOf_ne_dir hd')
    rw [h1] at hx; rw [h2] at hx'
    have hxn : x = n := by simpa using hx.symm
    have hxn' : x' = n' := by simpa using hx'.symm
    rw [hxn, hxn', hye, hye']
    exact hP.inos e he e' he' hd hd' n n' hn hn'


/-- Every directory of the tree gets a fix-up with its archived mode and mtime, and the sorted
fix-up list has the fix-up of a directory after those of the directories below it. -/
theorem fixups_order_of_restore (t : Node) (ht : TreeOk t) (o : Opts) (ho : OptsOk o) (dstMode : Nat)
    (hdst : o.root = true ∨ (dstMode &&& 0o200 ≠ 0 ∧ dstMode &&& 0o100 ≠ 0))
    (d c : Entry) (hd : d ∈ capture t) (hc : c ∈ capture t) (hdd : d.ftype = .dir) (hcd : c.ftype = .dir)
    (n : Name) (r : Path) (hbelow : c.path = d.path ++ n :: r) :
    let w := (restoreAll o (emptyDst dstMode) (linkify .tar (capture t))).1
    ∃ fd fc a b z, fd.path = d.path ∧ fd.mode = d.mode ∧ fd.mtime = d.mtime ∧ fd.doTimes = true ∧
      fc.path = c.path ∧ fc.mode = c.mode ∧ fc.mtime = c.mtime ∧ fc.doTimes = true ∧ fc.doMode = true ∧
      sortDir w.fixups = a ++ fc :: b ++ fd :: z := by
  obtain ⟨m, cs, rfl⟩ := ht.isDir
  have hes := entriesOk_of_treeOk ht
  rw [linkify_tar_eq _ hes.linkOk hes.fresh]
  have hcap : capture (.dir m cs) = (Node.dir m cs).entry [] :: (Node.dir m cs).inside [] := rfl
  have hrun := restoreAll_tar o ho dstMode hdst ((Node.dir m cs).entry []) ((Node.dir m cs).inside [])
    (by rw [← hcap]; exact hes) (Node.entry_path _ _) (Node.entry_dir _ _ _) (capture_parents m cs)
  rw [← hcap] at hrun
  obtain ⟨hP, _⟩ := hrun
  intro w
  have hfd := hP.fxAll d hd hdd
  have hfc := hP.fxAll c hc hcd
  obtain ⟨a, b, z, hs⟩ := fixup_order _ hP.fxNodup (fixupOf o dstMode d) (fixupOf o dstMode c) hfd hfc n r
    (by simpa [fixupOf] using hbelow)
  refine ⟨fixupOf o dstMode d, fixupOf o dstMode c, a, b, z, rfl, rfl, rfl, rfl, rfl, rfl, rfl, rfl, ?_, hs⟩
  have : c.path ≠ [] := by rw [hbelow]; simp
  simp [fixupOf, this]

section Cpio
open LA.Lnk

theorem run_all_pt (l : List Entry) (hp : ∀ e ∈ l, e.pt = true) : ∀ (k : Nat) (s : State),
    run s (opsFrom k l) = (s, (List.zipIdx l k).map fun (e, i) => e.toEnt i) := by
  induction l with
  | nil => intro k s; simp [opsFrom, run]
  | cons e rest ih =>
    intro k s
    have hops : opsFrom k (e :: rest) = Op.push (e.toEnt k) :: opsFrom (k + 1) rest := by
      simp [opsFrom, List.zipIdx_cons]
    have hpush : push s (e.toEnt k) = (s, some (e.toEnt k), none) := by
      unfold push
      simp [passthrough_toEnt, hp e (by simp)]
    rw [hops]
    simp only [run, step, hpush, ih (fun x hx => hp x (List.mem_cons_of_mem _ hx)) (k + 1) s]
    simp [List.zipIdx_cons]

theorem filterMap_fromEnt_zipIdx (es : List Entry) (hn : ∀ e ∈ es, e.hardlink = none) :
    ∀ (l : List Entry) (k : Nat), (∀ i e, l[i]? = some e → es[k + i]? = some e) →
      ((List.zipIdx l k).map fun (e, i) => e.toEnt i).filterMap (fromEnt es) = l := by
  intro l
  induction l with
  | nil => intro k _; simp
  | cons e rest ih =>
    intro k h
    have he : es[k]? = some e := by simpa using h 0 e (by simp)
    have hmem : e ∈ es := List.mem_of_getElem? he
    simp only [List.zipIdx_cons, List.map_cons, List.filterMap_cons]
    have : fromEnt es (e.toEnt k) = some e := by
      simp only [fromEnt, Entry.toEnt, he]
      have := hn e hmem
      cases e; simp_all
    rw [this]
    simp only [List.cons.injEq, true_and]
    apply ih (k + 1)
    intro i x hx
    have := h (i + 1) x (by simpa using hx)
    rw [← this]; congr 1; omega

/-- When no object has a second name the resolver (any strategy) hands every entry through. -/
theorem linkify_no_links (es : List Entry) (st : Strategy) (h1 : ∀ e ∈ es, e.pt = true)
    (h2 : ∀ e ∈ es, e.hardlink = none) : linkify st es = es := by
  unfold linkify
  have hops : pushOps es = opsFrom 0 es := rfl
  simp only [hops, run_all_pt es h1 0]
  have : (drainLoop { strategy := st } (List.replicate es.length 0)).2 = [] := by
    apply drainLoop_nothing_held
    intro le hle; simp at hle
  rw [this, List.append_nil]
  exact filterMap_fromEnt_zipIdx es h2 es 0 (by intro i e h; simpa using h)

theorem cpioReadLinks_no_links (l : List Entry) (h : ∀ e ∈ l, e.nlink ≤ 1 ∨ e.ftype = .dir) :
    ∀ tbl, cpioReadLinks tbl l = l := by
  induction l with
  | nil => intro tbl; rfl
  | cons e rest ih =>
    intro tbl
    have he := h e (by simp)
    have hc : (decide (e.nlink ≤ 1) || e.ftype == .dir) = true := by
      rcases he with he | he <;> simp [he]
    simp only [cpioReadLinks, hc, if_true]
    rw [ih (fun x hx => h x (List.mem_cons_of_mem _ hx))]

theorem cpioArchive_no_links (es : List Entry) (st : Strategy)
    (h1 : ∀ e ∈ es, e.ftype ≠ .dir → e.nlink = 1)
    (h2 : ∀ e ∈ es, e.hardlink = none ∧ e.sizeSet = true)
    (h3 : ∀ e ∈ es, e.size = e.payload.size ∧ (e.ftype ≠ .reg → e.size = 0)) :
    (cpioArchive st es).map (·.path) = es.map (·.path) ∧ ∀ e ∈ cpioArchive st es, e.hardlink = none := by
  have hpt : ∀ e ∈ es, e.pt = true := by
    intro e he
    by_cases hd : e.ftype = .dir
    · simp [Entry.pt, hd]
    · simp [Entry.pt, h1 e he hd]
  unfold cpioArchive
  rw [linkify_no_links es st hpt (fun e he => (h2 e he).1)]
  have hno : ∀ e ∈ es.map Entry.cpioWritten, e.nlink ≤ 1 ∨ e.ftype = .dir := by
    intro x hx
    obtain ⟨e, he, rfl⟩ := List.mem_map.mp hx
    by_cases hd : e.ftype = .dir
    · right; simpa [Entry.cpioWritten] using hd
    · left; simp [Entry.cpioWritten, h1 e he hd]
  rw [cpioReadLinks_no_links _ hno]
  refine ⟨by simp [List.map_map, Function.comp_def, Entry.cpioWritten], ?_⟩
  intro x hx
  obtain ⟨e, _, rfl⟩ := List.mem_map.mp hx
  simp [Entry.cpioWritten]

end Cpio

end LA.Tree
