/-
The bidder (`uudecode_bidder_bid`, `bid_get_line`) on a stream written by the
uuencode / b64encode filter, for every behaviour of the read-ahead window.
-/
import LA.Lemmas.UuSpecs
namespace LA.UuRead
open LA.Gen.UuTables LA.LineFilter

theorem getLine_prefix : ∀ (body : List Nat) (a : Nat) (rest : List Nat), Printable body → a ≤ body.length →
    getLine a (body ++ rest) = (some a, 0)
  | _, 0, _, _, _ => by simp [getLine]
  | [], a + 1, _, _, h => by simp at h
  | c :: r, a + 1, rest, hp, h => by
    have hc : cls c = 1 := cls_printable (hp c (by simp))
    have ih := getLine_prefix r a rest (fun x hx => hp x (by simp [hx])) (by simpa using h)
    simp [getLine, hc, ih]

theorem nbytesReq_gt (r : Nat) (h : 0 < r) : r < nbytesReq r := by
  unfold nbytesReq; simp only []; split <;> omega

theorem ahead_window (u : ScriptUp) (min : Nat) (h : min ≤ u.total) :
    ∃ v u', u.ahead min = (.window v, u') ∧ min ≤ v ∧ v ≤ u.total ∧ u'.total = u.total := by
  unfold ScriptUp.ahead
  simp only [h, if_true]
  refine ⟨_, _, rfl, ?_, ?_, rfl⟩
  · simp only [Nat.min_def, Nat.max_def]; split <;> split <;> omega
  · simp only [Nat.min_def]; split <;> omega

theorem ahead_short (u : ScriptUp) (min : Nat) (h : u.total < min) :
    ∃ u', u.ahead min = (.short u.total, u') ∧ u'.total = u.total := by
  unfold ScriptUp.ahead
  have : ¬ min ≤ u.total := by omega
  simp only [this, if_false]
  exact ⟨_, rfl, rfl⟩

/-- What `bid_get_line` is asked to do: the cursor is at the start of a complete
printable line, which ends before the bidder's read limit. -/
structure AtLine (slen : Nat) (st : BidSt ScriptUp) (body tail : List Nat) : Prop where
  up : st.up.total = slen
  b : st.b = body ++ 10 :: tail
  printable : Printable body
  len : st.off + st.b.length = slen
  lo : st.off ≤ st.ravail
  hi : st.ravail ≤ slen
  pos : 0 < st.ravail
  nread : st.nread = st.ravail
  lim : st.off + (body.length + 1) < bidMaxRead

/-- The repaired `bid_get_line` loop: it returns the complete line, and when
something follows the line at least one byte of it is visible afterwards. -/
theorem bidLoop_line (slen : Nat) (body tail : List Nat) : ∀ (n : Nat) (st : BidSt ScriptUp) (len : Option Nat) (nl : Nat),
    slen - st.ravail = n → AtLine slen st body tail →
    ((len = some st.avail ∧ nl = 0 ∧ st.avail ≤ body.length) ∨
      (len = some (body.length + 1) ∧ nl = 1 ∧ body.length + 1 ≤ st.avail)) →
    ∃ st', bidLoop slen ScriptUp.ahead st len nl = .line (some (body.length + 1)) 1 false st' ∧
      AtLine slen st' body tail ∧ st'.off = st.off ∧ st.ravail ≤ st'.ravail ∧
      (tail ≠ [] → st.off + (body.length + 1) < st'.ravail) := by
  intro n
  induction n using Nat.strongRecOn with
  | _ n ih =>
    intro st len nl hn hat hcase
    obtain ⟨hup, hb, hpr, hlen, hlo, hhi, hpos, hnr, hlim⟩ := hat
    have hbl : st.b.length = body.length + 1 + tail.length := by rw [hb]; simp; omega
    have hav : st.avail = st.ravail - st.off := rfl
    have hreq := nbytesReq_gt st.ravail hpos
    -- what a further look at the upstream gives in the two cases of the loop
    unfold bidLoop
    simp only [BidSt.avail] at hcase ih ⊢
    rcases hcase with ⟨h1, h2, h3⟩ | ⟨h1, h2, h3⟩
    · -- the line is still incomplete
      subst h1 h2
      have hc : (some (st.ravail - st.off) = some (st.ravail - st.off) ∧ st.nread < bidMaxRead) := ⟨rfl, by omega⟩
      simp only [hc, and_self, if_true]
      have hdrop : st.b.drop (st.ravail - st.off) = body.drop (st.ravail - st.off) ++ 10 :: tail := by
        rw [hb, List.drop_append_of_le_length h3]
      by_cases hw : nbytesReq st.ravail ≤ st.up.total
      · obtain ⟨v, u', e1, e2, e3, e4⟩ := ahead_window st.up _ hw
        rw [e1]; dsimp only
        have hg : st.ravail < v ∧ v ≤ slen := ⟨by omega, by omega⟩
        simp only [hg, and_self, dite_true, ne_eq, not_true_eq_false, if_false, Option.getD_some]
        have hat' : AtLine slen { st with up := u', ravail := v, nread := v } body tail :=
          ⟨by simp [e4, hup], hb, hpr, hlen, by simp; omega, by simp; omega, by simp; omega, rfl, hlim⟩
        by_cases hfin : body.length < v - st.off
        · -- now the terminator is visible
          have hgl := getLine_line (body.drop (st.ravail - st.off)) (v - st.off - (st.ravail - st.off)) tail
            (fun x hx => hpr x (List.mem_of_mem_drop hx)) (by simp; omega)
          rw [hdrop, hgl]
          simp only [Option.map_some, List.length_drop]
          have he : body.length - (st.ravail - st.off) + 1 + (st.ravail - st.off) = body.length + 1 := by omega
          rw [he]
          obtain ⟨st', r1, r2, r3, r4, r5⟩ := ih (slen - v) (by omega) _ (some (body.length + 1)) 1 rfl hat'
            (Or.inr ⟨rfl, rfl, by dsimp only; omega⟩)
          exact ⟨st', r1, r2, r3, by dsimp only at r4; omega, r5⟩
        · have hgl := getLine_prefix (body.drop (st.ravail - st.off)) (v - st.off - (st.ravail - st.off)) (10 :: tail)
            (fun x hx => hpr x (List.mem_of_mem_drop hx)) (by simp; omega)
          rw [hdrop, hgl]
          simp only [Option.map_some]
          have he : v - st.off - (st.ravail - st.off) + (st.ravail - st.off) = v - st.off := by omega
          rw [he]
          obtain ⟨st', r1, r2, r3, r4, r5⟩ := ih (slen - v) (by omega) _ (some (v - st.off)) 0 rfl hat'
            (Or.inl ⟨rfl, rfl, by dsimp only; omega⟩)
          exact ⟨st', r1, r2, r3, by dsimp only at r4; omega, r5⟩
      · -- the upstream has less than asked: everything there is becomes visible
        obtain ⟨u', e1, e4⟩ := ahead_short st.up (nbytesReq st.ravail) (by omega)
        rw [e1]; dsimp only
        have hnot : ¬ (True ∧ st.ravail ≥ st.up.total) := by
          intro h; have := h.2; omega
        simp only [hnot, if_false]
        obtain ⟨v, u'', f1, f2, f3, f4⟩ := ahead_window u' st.up.total (by omega)
        rw [f1]; dsimp only
        have hv : v = slen := by omega
        have hnlt : ¬ v < st.off := by omega
        simp only [hnlt, if_false, ne_eq, not_true_eq_false, Option.getD_some]
        have hgl := getLine_line (body.drop (st.ravail - st.off)) (v - st.off - (st.ravail - st.off)) tail
          (fun x hx => hpr x (List.mem_of_mem_drop hx)) (by simp; omega)
        rw [hdrop, hgl]
        simp only [Option.map_some, List.length_drop]
        have he : body.length - (st.ravail - st.off) + 1 + (st.ravail - st.off) = body.length + 1 := by omega
        rw [he]
        refine ⟨_, rfl, ⟨by simp [f4, e4, hup], hb, hpr, hlen, by simp; omega, by simp; omega, by simp; omega, rfl, hlim⟩,
          rfl, by dsimp only; omega, ?_⟩
        intro ht
        have : 0 < tail.length := List.length_pos_iff.mpr ht
        dsimp only; omega
    · -- the line is complete
      subst h1 h2
      by_cases hc : (some (body.length + 1) = some (st.ravail - st.off) ∧ st.nread < bidMaxRead)
      · -- it ends together with the visible bytes: look further
        have heq : body.length + 1 = st.ravail - st.off := by simpa using hc.1
        simp only [hc, and_self, if_true]
        by_cases hw : nbytesReq st.ravail ≤ st.up.total
        · obtain ⟨v, u', e1, e2, e3, e4⟩ := ahead_window st.up _ hw
          rw [e1]; dsimp only
          have hg : st.ravail < v ∧ v ≤ slen := ⟨by omega, by omega⟩
          simp only [hg, and_self, dite_true, ne_eq, Nat.succ_ne_zero, not_false_eq_true, if_true]
          refine ⟨_, rfl, ⟨by simp [e4, hup], hb, hpr, hlen, by simp; omega, by simp; omega, by simp; omega, rfl, hlim⟩,
            rfl, by dsimp only; omega, ?_⟩
          intro _; dsimp only; omega
        · obtain ⟨u', e1, e4⟩ := ahead_short st.up (nbytesReq st.ravail) (by omega)
          rw [e1]; dsimp only
          have hnot : ¬ (1 = 0 ∧ st.ravail ≥ st.up.total) := by simp
          simp only [hnot, if_false]
          obtain ⟨v, u'', f1, f2, f3, f4⟩ := ahead_window u' st.up.total (by omega)
          rw [f1]; dsimp only
          have hv : v = slen := by omega
          have hnlt : ¬ v < st.off := by omega
          simp only [hnlt, if_false, ne_eq, Nat.succ_ne_zero, not_false_eq_true, if_true]
          refine ⟨_, rfl, ⟨by simp [f4, e4, hup], hb, hpr, hlen, by simp; omega, by simp; omega, by simp; omega, rfl, hlim⟩,
            rfl, by dsimp only; omega, ?_⟩
          intro ht
          have : 0 < tail.length := List.length_pos_iff.mpr ht
          dsimp only; omega
      · simp only [hc, if_false]
        refine ⟨st, rfl, ⟨hup, hb, hpr, hlen, hlo, hhi, hpos, hnr, hlim⟩, rfl, Nat.le_refl _, ?_⟩
        intro _
        have : ¬ (body.length + 1 = st.ravail - st.off) := by
          intro h; exact hc ⟨by rw [h], by omega⟩
        omega

/-- `bid_get_line` at the start of a complete printable line. -/
theorem bidGetLine_line (slen : Nat) (body tail : List Nat) (st : BidSt ScriptUp) (hat : AtLine slen st body tail) :
    ∃ st', bidGetLine slen ScriptUp.ahead st = .line (some (body.length + 1)) 1 false st' ∧
      AtLine slen st' body tail ∧ st'.off = st.off ∧ st.ravail ≤ st'.ravail ∧
      (tail ≠ [] → st.off + (body.length + 1) < st'.ravail) := by
  unfold bidGetLine
  by_cases h0 : st.avail = 0
  · simp only [h0, if_true]
    exact bidLoop_line slen body tail _ st (some 0) 0 rfl hat (Or.inl ⟨by rw [h0], rfl, by omega⟩)
  · simp only [h0, if_false]
    by_cases hle : st.avail ≤ body.length
    · rw [hat.b, getLine_prefix body st.avail _ hat.printable hle]
      exact bidLoop_line slen body tail _ st _ _ rfl hat (Or.inl ⟨rfl, rfl, hle⟩)
    · rw [hat.b, getLine_line body st.avail tail hat.printable (by omega)]
      exact bidLoop_line slen body tail _ st _ _ rfl hat (Or.inr ⟨rfl, rfl, by omega⟩)

theorem beginKind_uu (mode : Nat) (name : List Nat) (hn : name ≠ []) :
    beginKind (header LA.Uu.codec mode name) 1 = 6 := by
  have hl : 1 ≤ name.length := List.length_pos_iff.mpr hn
  simp only [beginKind, header, LA.Uu.codec, uuBegin, octal3, List.cons_append, List.nil_append,
    List.length_cons, List.length_append, List.length_nil]
  simp [hl, isOct]
  omega

theorem beginKind_b64 (mode : Nat) (name : List Nat) (hn : name ≠ []) :
    beginKind (header LA.B64.codec mode name) 1 = 13 := by
  have hl : 1 ≤ name.length := List.length_pos_iff.mpr hn
  simp only [beginKind, header, LA.B64.codec, b64Begin, uuBegin, octal3, List.cons_append, List.nil_append,
    List.length_cons, List.length_append, List.length_nil]
  simp [hl, isOct]
  omega

/-- From `uudecode_bidder_bid` to the part after the `begin` line, when the
stream starts with that line. -/
theorem bid_to_tail (E hdrBody rest : List Nat) (l : Nat) (extra : List Nat)
    (hE : E = hdrBody ++ 10 :: rest) (hp : Printable hdrBody)
    (hk : beginKind (hdrBody ++ [10]) 1 = l) (hl : l ≠ 0)
    (hlim : hdrBody.length + 1 < bidMaxRead) (hrest : rest ≠ []) :
    ∃ st2 : BidSt ScriptUp, bid E ScriptUp.ahead { total := E.length, extra := extra } =
        bidTail E.length ScriptUp.ahead st2 l 20 ∧
      st2.b = rest ∧ st2.off = hdrBody.length + 1 ∧ st2.up.total = E.length ∧
      st2.off < st2.ravail ∧ st2.ravail ≤ E.length ∧ st2.nread = st2.ravail := by
  have hElen : E.length = hdrBody.length + 1 + rest.length := by rw [hE]; simp; omega
  unfold bid
  obtain ⟨v, u', e1, e2, e3, e4⟩ := ahead_window ({ total := E.length, extra := extra } : ScriptUp) 1
    (by simp only []; omega)
  rw [e1]; dsimp only
  dsimp only at e3 e4
  have hv : ¬ (v = 0 ∨ v > E.length) := by omega
  simp only [hv, if_false]
  have hat : AtLine E.length ({ up := u', b := E, off := 0, ravail := v, nread := v } : BidSt ScriptUp) hdrBody rest :=
    ⟨e4, hE, hp, by simp, by simp, e3, by simp; omega, rfl, by simpa using hlim⟩
  obtain ⟨st', r1, r2, r3, r4, r5⟩ := bidGetLine_line E.length hdrBody rest _ hat
  unfold bidFind
  rw [r1]; dsimp only
  have hline : st'.b.take (hdrBody.length + 1) = hdrBody ++ [10] := by
    rw [r2.b, show hdrBody ++ 10 :: rest = (hdrBody ++ [10]) ++ rest by simp,
      List.take_append_of_le_length (by simp), List.take_of_length_le (by simp)]
  rw [hline, hk]
  simp only [Nat.succ_ne_zero, if_false, hl, ne_eq, not_false_eq_true, if_true]
  have hlook := r5 hrest
  dsimp only at r3 r4 hlook
  refine ⟨st'.skip (hdrBody.length + 1), rfl, ?_, ?_, r2.up, ?_, r2.hi, r2.nread⟩
  · simp only [BidSt.skip, r2.b]
    rw [show hdrBody ++ 10 :: rest = (hdrBody ++ [10]) ++ rest by simp,
      List.drop_append_of_le_length (by simp), List.drop_of_length_le (by simp)]
    simp
  · simp [BidSt.skip, r3]
  · simp only [BidSt.skip, r3]; omega

theorem elem_of_all (cs rest : List Nat) (P : Nat → Prop) (h : ∀ c ∈ cs, P c) (j : Nat) (hj : j < cs.length) :
    ∃ c, (cs ++ rest)[j]? = some c ∧ P c := by
  refine ⟨cs[j], ?_, h _ (List.getElem_mem hj)⟩
  rw [List.getElem?_append_left hj, List.getElem?_eq_getElem hj]

theorem triples_uuchar (p : List Nat) (hb : Bytes p) : ∀ c ∈ LA.Uu.triples p, uuchar c = true := by
  intro c hc
  have := triples_printable p hb c hc
  -- triples characters are `ch` of six-bit values: 33..96
  have h2 : 33 ≤ c ∧ c ≤ 96 := by
    clear this
    induction p using LA.Uu.triples.induct with
    | case1 a b c' rest ih =>
      have ha := (Bytes.cons hb).1
      have hb' := (Bytes.cons (Bytes.cons hb).2).1
      have hc' := (Bytes.cons (Bytes.cons (Bytes.cons hb).2).2).1
      have hr := (Bytes.cons (Bytes.cons (Bytes.cons hb).2).2).2
      simp only [LA.Uu.triples, List.mem_cons] at hc
      have h1 := uu_ch_range (a / 4) (by omega)
      have h2 := uu_ch_range (a % 4 * 16 + b / 16) (by omega)
      have h3 := uu_ch_range (b % 16 * 4 + c' / 64) (by omega)
      have h4 := uu_ch_range (c' % 64) (by omega)
      rcases hc with h | h | h | h | h
      · omega
      · omega
      · omega
      · omega
      · exact ih hr h
    | case2 a b =>
      have ha := (Bytes.cons hb).1
      have hb' := (Bytes.cons (Bytes.cons hb).2).1
      simp only [LA.Uu.triples, List.mem_cons, List.mem_nil_iff, or_false] at hc
      have h1 := uu_ch_range (a / 4) (by omega)
      have h2 := uu_ch_range (a % 4 * 16 + b / 16) (by omega)
      have h3 := uu_ch_range (b % 16 * 4) (by omega)
      rcases hc with h | h | h | h <;> omega
    | case3 a =>
      have ha := (Bytes.cons hb).1
      simp only [LA.Uu.triples, List.mem_cons, List.mem_nil_iff, or_false] at hc
      have h1 := uu_ch_range (a / 4) (by omega)
      have h2 := uu_ch_range (a % 4 * 16) (by omega)
      rcases hc with h | h | h | h <;> omega
    | case4 => simp [LA.Uu.triples] at hc
  simp [uuchar]; omega

/-- The `begin ` branch of the bidder on a data line written by `uu_encode`
that is followed by a line starting with a uuencode character. -/
theorem bidTail_uu_data (slen : Nat) (st2 : BidSt ScriptUp) (p tail2 : List Nat) (firstline : Nat)
    (hb : Bytes p) (h1 : 0 < p.length) (h45 : p.length ≤ 45)
    (hat : AtLine slen st2 (LA.Uu.ch p.length :: LA.Uu.triples p) tail2) (hpos : st2.off < st2.ravail)
    (d : Nat) (tl : List Nat) (htail : tail2 = d :: tl) (hd : uuchar d = true) :
    (bidTail slen ScriptUp.ahead st2 6 firstline).1 = .bid (firstline + 30) := by
  obtain ⟨st3, r1, r2, r3, r4, r5⟩ := bidGetLine_line slen _ tail2 st2 hat
  have hlook := r5 (by rw [htail]; simp)
  unfold bidTail
  have h0 : ¬ (st2.avail = 0) := by simp only [BidSt.avail]; omega
  simp only [h0, if_false, r1]
  simp only [Nat.succ_ne_zero, if_false, if_true]
  have ht := triples_length p
  generalize hk : p.length = k at *
  generalize hcs : LA.Uu.triples p = cs at *
  generalize htl : cs.length = t at *
  have hcsu : ∀ c ∈ cs, uuchar c = true := by rw [← hcs]; exact triples_uuchar p hb
  have hb3 : st3.b = LA.Uu.ch k :: (cs ++ 10 :: d :: tl) := by rw [r2.b, htail]; simp
  have hvis : t + 3 ≤ st3.avail := by
    simp only [BidSt.avail]; simp only [List.length_cons, htl] at hlook; omega
  have htk : k + 1 ≤ t := by omega
  -- first character: the length
  have hrd0 : rd st3.b st3.avail 0 = some (LA.Uu.ch k) := by
    simp only [rd, hb3]; rw [if_pos (by omega)]; rfl
  rw [hrd0]; dsimp only
  have huk := uuchar_ch k (by omega)
  have hdk := udec_ch k (by omega)
  simp only [huk, hdk, Bool.not_true, Bool.false_eq_true, if_false]
  have c1 : ¬ (k = 0 ∧ (LA.Uu.ch k :: cs).length + 1 - 1 = 1) := by omega
  have c2 : ¬ (k > 45) := by omega
  have c3 : ¬ (k > (LA.Uu.ch k :: cs).length + 1 - 1 - 1) := by simp only [List.length_cons, htl]; omega
  simp only [c1, c2, c3, if_false]
  have hdrop1 : st3.b.drop 1 = cs ++ 10 :: d :: tl := by rw [hb3]; rfl
  have htake : (st3.b.drop 1).take k = cs.take k := by
    rw [hdrop1, List.take_append_of_le_length (by omega)]
  have c4 : ¬ (((st3.b.drop 1).take k).length < k ∨ st3.avail < 1 + k) := by
    rw [htake, List.length_take]; omega
  have c5 : ¬ (((st3.b.drop 1).take k).any (fun c => !uuchar c) = true) := by
    rw [htake]
    simp only [List.any_eq_true, Bool.not_eq_true', not_exists, not_and]
    intro x hx; rw [hcsu x (List.mem_of_mem_take hx)]; simp
  simp only [c4, c5, if_false]
  -- the character after the `l` characters that were checked
  obtain ⟨x1, hx1, hx1u⟩ := elem_of_all cs (10 :: d :: tl) (fun c => uuchar c = true) hcsu k (by omega)
  have hrd1 : rd st3.b st3.avail (1 + k) = some x1 := by
    simp only [rd, hb3]; rw [if_pos (by omega)]
    rw [show 1 + k = k + 1 by omega, List.getElem?_cons_succ]; exact hx1
  rw [hrd1]; dsimp only
  have c6 : ¬ (st3.avail - ((LA.Uu.ch k :: cs).length + 1) = 0) := by
    simp only [List.length_cons, htl]; omega
  simp only [c6, if_false]
  by_cases hskip : (LA.Uu.ch k :: cs).length + 1 - 1 - k - 1 = 1
  · -- the line holds exactly one character more than `l`: it is skipped and the next line is looked at
    have hcond : ((LA.Uu.ch k :: cs).length + 1 - 1 - k - 1 = 1 ∧ (uuchar x1 = true ∨ 97 ≤ x1 ∧ x1 ≤ 122)) :=
      ⟨hskip, Or.inl hx1u⟩
    simp only [hcond, and_self, if_true]
    simp only [List.length_cons, htl] at hskip
    have hrd2 : rd st3.b st3.avail (1 + k + 1 + 1) = some d := by
      simp only [rd, hb3]; rw [if_pos (by omega)]
      rw [show 1 + k + 1 + 1 = (t + 1) + 1 by omega, List.getElem?_cons_succ,
        List.getElem?_append_right (by omega)]
      simp [htl]
    rw [hrd2]; simp [hd]
  · have hcond : ¬ ((LA.Uu.ch k :: cs).length + 1 - 1 - k - 1 = 1 ∧ (uuchar x1 = true ∨ 97 ≤ x1 ∧ x1 ≤ 122)) :=
      fun h => hskip h.1
    simp only [hcond, if_false]
    simp only [List.length_cons, htl] at hskip
    obtain ⟨x2, hx2, hx2u⟩ := elem_of_all cs (10 :: d :: tl) (fun c => uuchar c = true) hcsu (k + 1) (by omega)
    have hrd2 : rd st3.b st3.avail (1 + k + 1) = some x2 := by
      simp only [rd, hb3]; rw [if_pos (by omega)]
      rw [show 1 + k + 1 = (k + 1) + 1 by omega, List.getElem?_cons_succ]; exact hx2
    rw [hrd2]; simp [hx2u]

/-- The `begin ` branch on an encoded empty file: "`" at once, then "end". -/
theorem bidTail_uu_empty (slen : Nat) (st2 : BidSt ScriptUp) (firstline : Nat)
    (hat : AtLine slen st2 [96] [101, 110, 100, 10]) (hpos : st2.off < st2.ravail)
    (hlim3 : st2.off + 6 < bidMaxRead) :
    (bidTail slen ScriptUp.ahead st2 6 firstline).1 = .bid (firstline + 30) := by
  obtain ⟨st3, r1, r2, r3, r4, r5⟩ := bidGetLine_line slen _ _ st2 hat
  have hlook := r5 (by simp)
  unfold bidTail
  have h0 : ¬ (st2.avail = 0) := by simp only [BidSt.avail]; omega
  simp only [h0, if_false, r1]
  simp only [Nat.succ_ne_zero, if_false, if_true]
  have hrd0 : rd st3.b st3.avail 0 = some 96 := by
    simp only [rd, r2.b]; rw [if_pos (by simp only [BidSt.avail]; simp at hlook; omega)]; rfl
  rw [hrd0]; dsimp only
  have hat3 : AtLine slen (st3.skip (1 + 1)) [101, 110, 100] [] := by
    refine ⟨r2.up, by simp [BidSt.skip, r2.b], by intro c hc; simp at hc; omega, ?_, ?_, r2.hi, r2.pos, r2.nread, ?_⟩
    · have := r2.len; simp only [BidSt.skip, r2.b] at this ⊢; simp at this ⊢; omega
    · simp only [BidSt.skip]; simp at hlook; omega
    · simp only [BidSt.skip, r3]; simp; omega
  obtain ⟨st4, q1, q2, q3, q4, q5⟩ := bidGetLine_line slen _ _ _ hat3
  simp [uuchar_96, udec, q1, q2.b]

theorem b64_triples_ok (p : List Nat) (hb : Bytes p) : ∀ c ∈ LA.B64.triples p, b64ok c = true ∧ (c ≠ 61 ∨ True) := by
  intro c hc
  refine ⟨?_, Or.inr trivial⟩
  induction p using LA.B64.triples.induct with
  | case1 a b c' rest ih =>
    have ha := (Bytes.cons hb).1
    have hb' := (Bytes.cons (Bytes.cons hb).2).1
    have hc' := (Bytes.cons (Bytes.cons (Bytes.cons hb).2).2).1
    have hr := (Bytes.cons (Bytes.cons (Bytes.cons hb).2).2).2
    simp only [LA.B64.triples, List.mem_cons] at hc
    rcases hc with h | h | h | h | h
    · rw [h]; exact (b64_ch_facts (a / 4) (by omega)).1
    · rw [h]; exact (b64_ch_facts (a % 4 * 16 + b / 16) (by omega)).1
    · rw [h]; exact (b64_ch_facts (b % 16 * 4 + c' / 64) (by omega)).1
    · rw [h]; exact (b64_ch_facts (c' % 64) (by omega)).1
    · exact ih hr h
  | case2 a b =>
    have ha := (Bytes.cons hb).1
    have hb' := (Bytes.cons (Bytes.cons hb).2).1
    simp only [LA.B64.triples, List.mem_cons, List.mem_nil_iff, or_false] at hc
    rcases hc with h | h | h | h
    · rw [h]; exact (b64_ch_facts (a / 4) (by omega)).1
    · rw [h]; exact (b64_ch_facts (a % 4 * 16 + b / 16) (by omega)).1
    · rw [h]; exact (b64_ch_facts (b % 16 * 4) (by omega)).1
    · rw [h]; decide
  | case3 a =>
    have ha := (Bytes.cons hb).1
    simp only [LA.B64.triples, List.mem_cons, List.mem_nil_iff, or_false] at hc
    rcases hc with h | h | h | h
    · rw [h]; exact (b64_ch_facts (a / 4) (by omega)).1
    · rw [h]; exact (b64_ch_facts (a % 4 * 16) (by omega)).1
    · rw [h]; decide
    · rw [h]; decide
  | case4 => simp [LA.B64.triples] at hc

theorem b64_triples_head (p : List Nat) (hb : Bytes p) (h1 : 0 < p.length) :
    ∃ c rest, LA.B64.triples p = c :: rest ∧ c ≠ 61 := by
  match p, hb, h1 with
  | a :: r, hb, _ =>
    have ha := (Bytes.cons hb).1
    have := (b64_ch_facts (a / 4) (by omega)).2.2.1
    cases r with
    | nil => exact ⟨_, _, rfl, this⟩
    | cons b r2 =>
      cases r2 with
      | nil => exact ⟨_, _, rfl, this⟩
      | cons c r3 => exact ⟨_, _, rfl, this⟩

/-- The `begin-base64 ` branch on a data line written by `la_b64_encode` that is
followed by a line starting with a base64 character (or `=`). -/
theorem bidTail_b64_data (slen : Nat) (st2 : BidSt ScriptUp) (p tail2 : List Nat) (firstline : Nat)
    (hb : Bytes p) (h1 : 0 < p.length)
    (hat : AtLine slen st2 (LA.B64.triples p) tail2) (hpos : st2.off < st2.ravail)
    (d : Nat) (tl : List Nat) (htail : tail2 = d :: tl) (hd : b64ok d = true) :
    ∃ n, firstline + 30 ≤ n ∧ (bidTail slen ScriptUp.ahead st2 13 firstline).1 = .bid n := by
  obtain ⟨st3, r1, r2, r3, r4, r5⟩ := bidGetLine_line slen _ tail2 st2 hat
  have hlook := r5 (by rw [htail]; simp)
  unfold bidTail
  have h0 : ¬ (st2.avail = 0) := by simp only [BidSt.avail]; omega
  simp only [h0, if_false, r1]
  simp only [Nat.succ_ne_zero, if_false, if_true, show ¬ ((13 : Nat) = 6) by decide]
  obtain ⟨c0, cr, hc0, hne⟩ := b64_triples_head p hb h1
  generalize hcs : LA.B64.triples p = cs at *
  have hcsok : ∀ c ∈ cs, b64ok c = true := fun c hc => by rw [← hcs] at hc; exact (b64_triples_ok p hb c hc).1
  have hb3 : st3.b = cs ++ 10 :: d :: tl := by rw [r2.b, htail]
  have hvis : cs.length + 2 ≤ st3.avail := by simp only [BidSt.avail]; omega
  have c1 : ¬ (cs.length + 1 - 1 = 4 ∧ st3.b.take 4 = [61, 61, 61, 61]) := by
    intro h; rw [hb3, hc0] at h; simp at h; exact hne h.2.1
  simp only [c1, if_false]
  have htake : st3.b.take (cs.length + 1 - 1) = cs := by
    rw [hb3, Nat.add_sub_cancel, List.take_append_of_le_length (Nat.le_refl _), List.take_length]
  have c2 : ¬ ((st3.b.take (cs.length + 1 - 1)).length < cs.length + 1 - 1 ∨ st3.avail < cs.length + 1 - 1) := by
    rw [htake]; omega
  have c3 : ¬ ((st3.b.take (cs.length + 1 - 1)).any (fun c => !b64ok c) = true) := by
    rw [htake]
    simp only [List.any_eq_true, Bool.not_eq_true', not_exists, not_and]
    intro x hx; rw [hcsok x hx]; simp
  simp only [c2, c3, if_false]
  have hrd : rd st3.b st3.avail (cs.length + 1 - 1 + 1) = some d := by
    simp only [rd, hb3]; rw [if_pos (by omega)]
    rw [Nat.add_sub_cancel, List.getElem?_append_right (by omega)]; simp
  have c4 : st3.avail - (cs.length + 1) > 0 := by omega
  by_cases q1 : st3.avail - (cs.length + 1) ≥ 5 ∧
      (st3.b.drop (cs.length + 1 - 1 + 1)).take 5 = [61, 61, 61, 61, 10]
  · simp only [q1, and_self, if_true]; exact ⟨firstline + 40, by omega, rfl⟩
  · simp only [q1, if_false]
    by_cases q2 : st3.avail - (cs.length + 1) ≥ 6 ∧
        (st3.b.drop (cs.length + 1 - 1 + 1)).take 6 = [61, 61, 61, 61, 13, 10]
    · simp only [q2, and_self, if_true]; exact ⟨firstline + 40, by omega, rfl⟩
    · simp only [q2, if_false, c4, if_true, hrd, hd]
      exact ⟨firstline + 30, by omega, rfl⟩

/-- The `begin-base64 ` branch on an encoded empty file: "====" at once. -/
theorem bidTail_b64_empty (slen : Nat) (st2 : BidSt ScriptUp) (firstline : Nat)
    (hat : AtLine slen st2 [61, 61, 61, 61] []) (hpos : st2.off < st2.ravail) :
    (bidTail slen ScriptUp.ahead st2 13 firstline).1 = .bid (firstline + 40) := by
  obtain ⟨st3, r1, r2, r3, r4, r5⟩ := bidGetLine_line slen _ _ st2 hat
  unfold bidTail
  have h0 : ¬ (st2.avail = 0) := by simp only [BidSt.avail]; omega
  simp only [h0, if_false, r1]
  simp only [Nat.succ_ne_zero, if_false, show ¬ ((13 : Nat) = 6) by decide, r2.b]
  simp

theorem pieces_nil (lb : Nat) (hlb : 0 < lb) : pieces lb hlb [] = [] := by
  rw [pieces]; simp; omega

theorem pieces_eq_nil (lb : Nat) (hlb : 0 < lb) (x : List Nat) (h : pieces lb hlb x = []) : x = [] := by
  have := pieces_flatten lb hlb x; rw [h] at this; simpa using this.symm

/-- **The uudecode bidder recognises what the uuencode filter writes**, whatever
the read-ahead windows are (`extra` scripts how much more than requested each
look-ahead returns). -/
theorem uu_bidder (mode : Nat) (name x : List Nat) (extra : List Nat) (hb : Bytes x) (hn : NameOk name) :
    (bid (encStream LA.Uu.codec mode name x) ScriptUp.ahead
      { total := (encStream LA.Uu.codec mode name x).length, extra := extra }).1 = .bid 50 := by
  obtain ⟨l1, l2, l3⟩ := limits
  have hshort := hn.short
  generalize hE : encStream LA.Uu.codec mode name x = E
  have hEeq : E = (uuHdr mode name).body ++ 10 :: (encAll LA.Uu.codec x ++ uuTrailer) := by
    rw [← hE, encStream, ← uuHdr_line]; simp [Item.line, LA.Uu.codec]
  have hhl : (uuHdr mode name).body.length = name.length + 10 := by simp [uuHdr, uuBegin, octal3]
  have hrest : encAll LA.Uu.codec x ++ uuTrailer ≠ [] := by simp [uuTrailer]
  have hkind : beginKind ((uuHdr mode name).body ++ [10]) 1 = 6 := by
    have := beginKind_uu mode name hn.ne
    rwa [← uuHdr_line] at this
  obtain ⟨st2, e1, e2, e3, e4, e5, e6, e7⟩ := bid_to_tail E _ _ 6 extra hEeq (uuHdr_ok mode name hn).printable
    hkind (by decide) (by omega) hrest
  rw [e1]
  have hlenE : E.length = st2.off + st2.b.length := by rw [hEeq, e2, e3]; simp; omega
  rw [encAll_pieces] at e2
  cases hps : pieces LA.Uu.codec.lbytes LA.Uu.codec.lpos x with
  | nil =>
    rw [hps] at e2
    have hat : AtLine E.length st2 [96] [101, 110, 100, 10] :=
      ⟨e4, by simpa [uuTrailer] using e2, by intro c hc; simp at hc; omega, hlenE.symm, by omega, e6, by omega, e7,
        by rw [e3, hhl]; simp; omega⟩
    exact bidTail_uu_empty E.length st2 20 hat e5 (by rw [e3, hhl]; omega)
  | cons p1 ps =>
    rw [hps] at e2
    have hp1 := pieces_mem LA.Uu.codec.lbytes LA.Uu.codec.lpos x p1 (by rw [hps]; simp)
    have hb1 : Bytes p1 := fun b hbm => hb b (hp1.2.2 b hbm)
    have h45 : p1.length ≤ 45 := hp1.2.1
    -- what follows the first data line starts with a uuencode character
    have hnext : ∃ d tl, ((ps.map LA.Uu.codec.encLine).flatten ++ uuTrailer) = d :: tl ∧ uuchar d = true := by
      cases ps with
      | nil => exact ⟨96, [10, 101, 110, 100, 10], by simp [uuTrailer], by decide⟩
      | cons p2 ps' =>
        have hp2 := pieces_mem LA.Uu.codec.lbytes LA.Uu.codec.lpos x p2 (by rw [hps]; simp)
        have : p2.length ≤ 45 := hp2.2.1
        exact ⟨LA.Uu.ch p2.length, LA.Uu.triples p2 ++ 10 :: ((ps'.map LA.Uu.codec.encLine).flatten ++ uuTrailer),
          by simp [LA.Uu.codec, LA.Uu.encLine], uuchar_ch _ (by omega)⟩
    obtain ⟨d, tl, hdtl, hdu⟩ := hnext
    have hb2 : st2.b = (LA.Uu.ch p1.length :: LA.Uu.triples p1) ++ 10 :: (d :: tl) := by
      rw [e2, ← hdtl]; simp [LA.Uu.codec, LA.Uu.encLine]
    obtain ⟨body, f1, f2, f3⟩ := uu_encLine_body p1 hb1 h45
    have hbody : body = LA.Uu.ch p1.length :: LA.Uu.triples p1 := by
      have : LA.Uu.encLine p1 = (LA.Uu.ch p1.length :: LA.Uu.triples p1) ++ [10] := by simp [LA.Uu.encLine]
      rw [this] at f1; exact (List.append_cancel_right f1).symm
    have hat : AtLine E.length st2 (LA.Uu.ch p1.length :: LA.Uu.triples p1) (d :: tl) :=
      ⟨e4, hb2, hbody ▸ f2, hlenE.symm, by omega, e6, by omega, e7,
        by rw [e3, hhl, ← hbody, f3]; omega⟩
    exact bidTail_uu_data E.length st2 p1 (d :: tl) 20 hb1 hp1.1 h45 hat e5 d tl rfl hdu

/-- The same for the b64encode filter (the bid is 60 when the terminator is
already visible, 50 otherwise). -/
theorem b64_bidder (mode : Nat) (name x : List Nat) (extra : List Nat) (hb : Bytes x) (hn : NameOk name) :
    ∃ n, 50 ≤ n ∧ (bid (encStream LA.B64.codec mode name x) ScriptUp.ahead
      { total := (encStream LA.B64.codec mode name x).length, extra := extra }).1 = .bid n := by
  obtain ⟨l1, l2, l3⟩ := limits
  have hshort := hn.short
  generalize hE : encStream LA.B64.codec mode name x = E
  have hEeq : E = (b64Hdr mode name).body ++ 10 :: (encAll LA.B64.codec x ++ b64Trailer) := by
    rw [← hE, encStream, ← b64Hdr_line]; simp [Item.line, LA.B64.codec]
  have hhl : (b64Hdr mode name).body.length = name.length + 17 := by simp [b64Hdr, b64Begin, octal3]
  have hrest : encAll LA.B64.codec x ++ b64Trailer ≠ [] := by simp [b64Trailer]
  have hkind : beginKind ((b64Hdr mode name).body ++ [10]) 1 = 13 := by
    have := beginKind_b64 mode name hn.ne
    rwa [← b64Hdr_line] at this
  obtain ⟨st2, e1, e2, e3, e4, e5, e6, e7⟩ := bid_to_tail E _ _ 13 extra hEeq (b64Hdr_ok mode name hn).printable
    hkind (by decide) (by omega) hrest
  rw [e1]
  have hlenE : E.length = st2.off + st2.b.length := by rw [hEeq, e2, e3]; simp; omega
  rw [encAll_pieces] at e2
  cases hps : pieces LA.B64.codec.lbytes LA.B64.codec.lpos x with
  | nil =>
    rw [hps] at e2
    have hat : AtLine E.length st2 [61, 61, 61, 61] [] :=
      ⟨e4, by simpa [b64Trailer] using e2, by intro c hc; simp at hc; omega, hlenE.symm, by omega, e6, by omega, e7,
        by rw [e3, hhl]; simp; omega⟩
    exact ⟨60, by omega, bidTail_b64_empty E.length st2 20 hat e5⟩
  | cons p1 ps =>
    rw [hps] at e2
    have hp1 := pieces_mem LA.B64.codec.lbytes LA.B64.codec.lpos x p1 (by rw [hps]; simp)
    have hb1 : Bytes p1 := fun b hbm => hb b (hp1.2.2 b hbm)
    have h57 : p1.length ≤ 57 := hp1.2.1
    have hnext : ∃ d tl, ((ps.map LA.B64.codec.encLine).flatten ++ b64Trailer) = d :: tl ∧ b64ok d = true := by
      cases ps with
      | nil => exact ⟨61, [61, 61, 61, 10], by simp [b64Trailer], by decide⟩
      | cons p2 ps' =>
        have hp2 := pieces_mem LA.B64.codec.lbytes LA.B64.codec.lpos x p2 (by rw [hps]; simp)
        have hb2 : Bytes p2 := fun b hbm => hb b (hp2.2.2 b hbm)
        obtain ⟨c, r, hcr, _⟩ := b64_triples_head p2 hb2 hp2.1
        refine ⟨c, r ++ 10 :: ((ps'.map LA.B64.codec.encLine).flatten ++ b64Trailer), by simp [LA.B64.codec, LA.B64.encLine, hcr], ?_⟩
        exact (b64_triples_ok p2 hb2 c (by rw [hcr]; simp)).1
    obtain ⟨d, tl, hdtl, hdu⟩ := hnext
    have hb2 : st2.b = LA.B64.triples p1 ++ 10 :: (d :: tl) := by
      rw [e2, ← hdtl]; simp [LA.B64.codec, LA.B64.encLine]
    have hat : AtLine E.length st2 (LA.B64.triples p1) (d :: tl) :=
      ⟨e4, hb2, b64_triples_printable p1 hb1, hlenE.symm, by omega, e6, by omega, e7,
        by rw [e3, hhl, b64_triples_length]; omega⟩
    obtain ⟨n, hn1, hn2⟩ := bidTail_b64_data E.length st2 p1 (d :: tl) 20 hb1 hp1.1 hat e5 d tl rfl hdu
    exact ⟨n, by omega, hn2⟩

end LA.UuRead
