/-
C14 helper lemmas, part 2: every modelled setter acts on each group view as a
function of that view alone (`view G e1 = view G e2 → view G (X e1 a) = view G (X e2 a)`).
-/
import LA.Lemmas.Entry
namespace LA.Entry
open LA.Gen.EntryBits
set_option maxRecDepth 4000
variable (G : Group) (e1 e2 : Entry) (h : view G e1 = view G e2)
include h

theorem setTimeCore_view (f : TimeField) (t : Int) (ns : Nat) :
    view G (setTimeCore f e1 t ns) = view G (setTimeCore f e2 t ns) := by
  cases f <;> entry_view setTimeCore, Entry.withTime
theorem unsetTimeCore_view (f : TimeField) : view G (unsetTimeCore f e1) = view G (unsetTimeCore f e2) := by
  cases f <;> entry_view unsetTimeCore, setTimeCore, Entry.withTime
theorem setSize_view (s : Int) : view G (setSize e1 s) = view G (setSize e2 s) := by entry_view setSize
theorem unsetSize_view : view G (unsetSize e1) = view G (unsetSize e2) := by entry_view unsetSize, setSize
theorem setDev_view (d : Nat) : view G (setDev e1 d) = view G (setDev e2 d) := by entry_view setDev
theorem setDevmajor_view (d : Nat) : view G (setDevmajor e1 d) = view G (setDevmajor e2 d) := by entry_view setDevmajor
theorem setDevminor_view (d : Nat) : view G (setDevminor e1 d) = view G (setDevminor e2 d) := by entry_view setDevminor
theorem setRdev_view (d : Nat) : view G (setRdev e1 d) = view G (setRdev e2 d) := by entry_view setRdev
theorem setRdevmajor_view (d : Nat) : view G (setRdevmajor e1 d) = view G (setRdevmajor e2 d) := by entry_view setRdevmajor
theorem setRdevminor_view (d : Nat) : view G (setRdevminor e1 d) = view G (setRdevminor e2 d) := by entry_view setRdevminor
theorem setIno_view (i : Int) : view G (setIno e1 i) = view G (setIno e2 i) := by entry_view setIno
theorem setNlink_view (n : Nat) : view G (setNlink e1 n) = view G (setNlink e2 n) := by entry_view setNlink
theorem setUid_view (u : Int) : view G (setUid e1 u) = view G (setUid e2 u) := by entry_view setUid
theorem setGid_view (u : Int) : view G (setGid e1 u) = view G (setGid e2 u) := by entry_view setGid
theorem setMode_view (m : BitVec 32) : view G (setMode e1 m) = view G (setMode e2 m) := by entry_view setMode
theorem setPerm_view (m : BitVec 32) : view G (setPerm e1 m) = view G (setPerm e2 m) := by entry_view setPerm
theorem setFiletype_view (m : BitVec 32) : view G (setFiletype e1 m) = view G (setFiletype e2 m) := by entry_view setFiletype
theorem setStr_view (f : StrField) (v : Option Bytes) : view G (setStr f e1 v) = view G (setStr f e2 v) := by
  cases f <;> entry_view setStr

theorem setHardlink_view (v : Option Bytes) : view G (setHardlink e1 v) = view G (setHardlink e2 v) := by
  cases v <;> entry_view setHardlink
theorem copyHardlink_view (v : Option Bytes) : view G (copyHardlink e1 v) = view G (copyHardlink e2 v) := by
  cases v <;> entry_view copyHardlink
theorem setSymlink_view (v : Option Bytes) : view G (setSymlink e1 v) = view G (setSymlink e2 v) := by
  cases v <;> entry_view setSymlink
theorem setLink_view (v : Option Bytes) : view G (setLink e1 v) = view G (setLink e2 v) := by entry_view setLink
theorem setLinkToHardlink_view : view G (setLinkToHardlink e1) = view G (setLinkToHardlink e2) := by
  entry_view setLinkToHardlink
theorem setLinkToSymlink_view : view G (setLinkToSymlink e1) = view G (setLinkToSymlink e2) := by
  entry_view setLinkToSymlink
theorem setFflags_view (s c : Nat) : view G (setFflags e1 s c) = view G (setFflags e2 s c) := by entry_view setFflags
theorem copyFflagsText_view (s : Bytes) : view G (copyFflagsText e1 s) = view G (copyFflagsText e2 s) := by
  entry_view copyFflagsText
theorem fflagsText_view : view G (fflagsText e1).1 = view G (fflagsText e2).1 := by
  entry_view fflagsText, fflagsTextV
theorem setSymlinkType_view (t : Int) : view G (setSymlinkType e1 t) = view G (setSymlinkType e2 t) := by
  entry_view setSymlinkType
theorem setIsDataEncrypted_view (b : Bool) : view G (setIsDataEncrypted e1 b) = view G (setIsDataEncrypted e2 b) := by
  cases b <;> entry_view setIsDataEncrypted
theorem setIsMetadataEncrypted_view (b : Bool) :
    view G (setIsMetadataEncrypted e1 b) = view G (setIsMetadataEncrypted e2 b) := by
  cases b <;> entry_view setIsMetadataEncrypted
theorem sparseAdd_view (o l : Int) : view G (sparseAdd e1 o l) = view G (sparseAdd e2 o l) := by
  entry_view sparseAdd, size
theorem sparseClear_view : view G (sparseClear e1) = view G (sparseClear e2) := by entry_view sparseClear
theorem sparseCount_view : view G (sparseCount e1).1 = view G (sparseCount e2).1 := by
  entry_view2 sparseCount_fst | sparseClear, size
theorem sparseReset_view : view G (sparseReset e1).1 = view G (sparseReset e2).1 := by
  entry_view2 sparseReset, sparseCount_fst | sparseClear, size
theorem sparseNext_view : view G (sparseNext e1).1 = view G (sparseNext e2).1 := by entry_view sparseNext
theorem xattrAdd_view (n v : Bytes) : view G (xattrAdd e1 n v) = view G (xattrAdd e2 n v) := by entry_view xattrAdd
theorem xattrClear_view : view G (xattrClear e1) = view G (xattrClear e2) := by entry_view xattrClear
theorem xattrReset_view : view G (xattrReset e1).1 = view G (xattrReset e2).1 := by entry_view xattrReset
theorem xattrNext_view : view G (xattrNext e1).1 = view G (xattrNext e2).1 := by entry_view xattrNext
theorem copyMacMetadata_view (v : Option Bytes) : view G (copyMacMetadata e1 v) = view G (copyMacMetadata e2 v) := by
  entry_view copyMacMetadata
theorem setDigest_view (t : Int) (d : Bytes) : view G (setDigest e1 t d).1 = view G (setDigest e2 t d).1 := by
  entry_view setDigest
theorem stat_view : view G (stat e1).1 = view G (stat e2).1 := by
  entry_view stat, statOf, dev, gid, uid, ino, nlink, rdev, rdevIsSet, size, mode
  rfl

end LA.Entry
