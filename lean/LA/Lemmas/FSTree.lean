/-
Helper lemmas for C04, part 2: association lists, one level of the tree,
`get` / `modify` at positions (the lens laws the confinement proofs use).
-/
import LA.Model.FS
namespace LA.FS

/-! ### association lists -/

theorem alGet_alSet {α} (es : List (Name × α)) (c c' : Name) (x : α) :
    alGet (alSet es c x) c' = if c = c' then some x else alGet es c' := by
  induction es with
  | nil => simp [alSet, alGet]
  | cons kv r ih =>
    obtain ⟨k, v⟩ := kv
    by_cases h : k = c
    · subst h
      by_cases h2 : k = c' <;> simp [alSet, alGet, h2]
    · by_cases h2 : k = c'
      · subst h2
        have : ¬ c = k := fun e => h e.symm
        simp [alSet, alGet, h, this]
      · simp [alSet, alGet, h, h2, ih]

theorem alGet_alDel {α} (es : List (Name × α)) (c c' : Name) :
    alGet (alDel es c) c' = if c = c' then none else alGet es c' := by
  induction es with
  | nil => simp [alDel, alGet]
  | cons kv r ih =>
    obtain ⟨k, v⟩ := kv
    by_cases h : k = c
    · subst h
      by_cases h2 : k = c'
      · subst h2; simpa [alDel, alGet] using ih
      · simp [alDel, alGet, h2, ih]
    · by_cases h2 : k = c'
      · subst h2
        have : ¬ c = k := fun e => h e.symm
        simp [alDel, alGet, h, this]
      · simp [alDel, alGet, h, h2, ih]

theorem alSet_alSet {α} (es : List (Name × α)) (c : Name) (x y : α) :
    alSet (alSet es c x) c y = alSet es c y := by
  induction es with
  | nil => simp [alSet]
  | cons kv r ih =>
    obtain ⟨k, v⟩ := kv
    by_cases h : k = c <;> simp [alSet, h, ih]

/-! ### one level -/

theorem child_put (t : Tree) (c c' : Name) (x : Tree) :
    (t.put c x).child c' = if c = c' ∧ t.isDir = true then some x else t.child c' := by
  cases t with
  | dir m mt es => simp [Tree.put, Tree.child, Tree.isDir, alGet_alSet]
  | file i => simp [Tree.put, Tree.child, Tree.isDir]

theorem child_del (t : Tree) (c c' : Name) :
    (t.del c).child c' = if c = c' then none else t.child c' := by
  cases t with
  | dir m mt es => simp [Tree.del, Tree.child, alGet_alDel]
  | file i => simp [Tree.del, Tree.child]

@[simp] theorem child_touch (t : Tree) (c : Name) : t.touch.child c = t.child c := by
  cases t <;> rfl

@[simp] theorem isDir_put (t : Tree) (c : Name) (x : Tree) : (t.put c x).isDir = t.isDir := by
  cases t <;> rfl
@[simp] theorem isDir_del (t : Tree) (c : Name) : (t.del c).isDir = t.isDir := by
  cases t <;> rfl
@[simp] theorem isDir_touch (t : Tree) : t.touch.isDir = t.isDir := by
  cases t <;> rfl

theorem put_put (t : Tree) (c : Name) (x y : Tree) : (t.put c x).put c y = t.put c y := by
  cases t with
  | dir m mt es => simp [Tree.put, alSet_alSet]
  | file i => rfl

theorem child_none_of_file {t : Tree} (h : t.isDir = false) (c : Name) : t.child c = none := by
  cases t with
  | dir => simp [Tree.isDir] at h
  | file i => rfl

theorem isDir_of_child {t t' : Tree} {c : Name} (h : t.child c = some t') : t.isDir = true := by
  cases t with
  | dir => rfl
  | file i => simp [Tree.child] at h

/-! ### positions -/

@[simp] theorem get_nil (t : Tree) : get t [] = some t := rfl

theorem get_cons (t : Tree) (c : Name) (r : List Name) :
    get t (c :: r) = (t.child c).bind (fun t' => get t' r) := by
  simp only [get]; cases t.child c <;> rfl

theorem get_append (t : Tree) (p q : List Name) :
    get t (p ++ q) = (get t p).bind (fun t' => get t' q) := by
  induction p generalizing t with
  | nil => simp
  | cons c p ih =>
    rw [List.cons_append, get_cons, get_cons]
    cases t.child c with
    | none => rfl
    | some t' => simpa using ih t'

theorem get_snoc (t : Tree) (p : List Name) (c : Name) :
    get t (p ++ [c]) = (get t p).bind (·.child c) := by
  rw [get_append]
  cases get t p with
  | none => rfl
  | some t' => simp [get_cons]

theorem modify_cons (f : Tree → Tree) (t : Tree) (c : Name) (r : List Name) :
    modify f t (c :: r) = match t.child c with
      | some t' => t.put c (modify f t' r)
      | none => t := rfl

/-- A function on subtrees that keeps a directory a directory and does not touch a file reference. -/
def ShapeKeeping (f : Tree → Tree) : Prop := ∀ t, (f t).isDir = t.isDir ∧ (t.isDir = false → f t = t)

theorem isDir_modify (f : Tree → Tree) (hf : ShapeKeeping f) (t : Tree) (d : List Name) :
    (modify f t d).isDir = t.isDir := by
  cases d with
  | nil => exact (hf t).1
  | cons c r =>
    rw [modify_cons]
    cases t.child c <;> simp

theorem modify_file (f : Tree → Tree) (hf : ShapeKeeping f) (t : Tree) (h : t.isDir = false) (d : List Name) :
    modify f t d = t := by
  cases d with
  | nil => exact (hf t).2 h
  | cons c r => rw [modify_cons, child_none_of_file h]

/-- Reading below the modified position. -/
theorem get_modify_ext (f : Tree → Tree) (t : Tree) (d r : List Name) :
    get (modify f t d) (d ++ r) = (get t d).bind (fun x => get (f x) r) := by
  induction d generalizing t with
  | nil => simp [modify]
  | cons c d ih =>
    rw [modify_cons, List.cons_append, get_cons, get_cons]
    cases hc : t.child c with
    | none => simp [hc]
    | some t' =>
      simp only [child_put, isDir_of_child hc, and_self, if_true, Option.bind_some]
      exact ih t'

theorem get_modify_same (f : Tree → Tree) (t : Tree) (d : List Name) :
    get (modify f t d) d = (get t d).map f := by
  have := get_modify_ext f t d []
  simp only [List.append_nil] at this
  rw [this]; cases get t d <;> rfl

/-- Replacing the whole subtree at `p` forgets any earlier change at or below `p`. -/
theorem modify_const_absorb (g : Tree → Tree) (hg : ∀ a b, g a = g b) (f : Tree → Tree) (t : Tree)
    (p r : List Name) : modify g (modify f t (p ++ r)) p = modify g t p := by
  induction p generalizing t with
  | nil => exact hg _ _
  | cons c p ih =>
    rw [List.cons_append, modify_cons (t := t) f, modify_cons g (t := t)]
    cases hc : t.child c with
    | none => simp only [modify_cons, hc]
    | some t' =>
      simp only
      rw [modify_cons, child_put]
      simp only [isDir_of_child hc, and_self, if_true]
      rw [put_put, ih]

end LA.FS
