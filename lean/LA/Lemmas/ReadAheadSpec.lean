import LA.Lemmas.ReadAhead
set_option linter.unusedSimpArgs false
namespace LA.RA
def Good (s : State) (min : Nat) (r : AheadR × State) : Prop :=
  Inv r.2 ∧ r.2.term = s.term ∧ r.2.position = s.position ∧
  (match r.1 with
   | .window w _ => remaining r.2 = remaining s ∧ w <+: remaining s ∧ min ≤ w.length ∧ r.2.fatal = false
   | .short k => remaining r.2 = remaining s ∧ r.2.fatal = false ∧
       ((min = 0 ∧ k = 0) ∨ ((remaining s).length < min ∧ k = (remaining s).length ∧ s.term = .eof))
   | .fatal => remaining r.2 = remaining s ∧ r.2.fatal = true ∧ (remaining s).length < min ∧ s.term = .err
   | .stuck => False)

theorem drop_split (l : List Nat) (k n : Nat) (h : k ≤ n) :
    (l.take n).drop k ++ l.drop n = l.drop k := by
  conv => rhs; rw [← List.take_append_drop n l]
  rw [List.drop_append]
  by_cases hn : n ≤ l.length
  · have : (l.take n).length = n := by simp [hn]
    simp [this]; omega
  · have h1 : l.take n = l := List.take_of_length_le (by omega)
    have h2 : l.drop n = [] := List.drop_of_length_le (by omega)
    simp [h1, h2]

/-- If the copy buffer is no longer than `cnext`, all of it is the tail of the
consumed part of the current client block. -/
theorem prov_all (s : State) (hi : Inv s) (h : s.cb.length ≤ s.cnext) :
    s.cb = (s.cblk.take s.cnext).drop (s.cnext - s.cb.length) := by
  obtain ⟨old, cur, h1, h2, h3, h4⟩ := hi.prov
  by_cases ho : old = []
  · subst ho; simp at h1; rw [h1]; exact h3
  · have := h4 ho
    have : s.cb.length = old.length + cur.length := by rw [h1]; simp
    have : old.length > 0 := List.length_pos_iff.mpr ho
    omega

theorem take_add_drop (l : List Nat) (n t k : Nat) (hk : k ≤ n) (hn : n ≤ l.length) :
    (l.take (n + t)).drop k = (l.take n).drop k ++ (l.drop n).take t := by
  rw [List.take_add, List.drop_append]
  have h : (l.take n).length = n := by simp [hn]
  rw [h]
  have : k - n = 0 := by omega
  simp [this]

theorem take_drop_add (l : List Nat) (n t : Nat) :
    (l.drop n).take t ++ l.drop (n + t) = l.drop n := by
  rw [← List.drop_drop]; exact List.take_append_drop t (l.drop n)

/-- In the copying branch the copy buffer holds fewer than `min` bytes. -/
theorem copy_branch_lt (s : State) (min : Nat) (hi : Inv s)
    (h1 : ¬(s.cb.length ≥ min ∧ s.cb.length > 0))
    (h2 : ¬(s.cblk.length ≥ s.cavail + s.cb.length ∧ s.cavail + s.cb.length ≥ min)) :
    s.cb.length < min := by
  have hc := hi.clientEq
  by_cases hl : s.cb.length > 0
  · have : ¬ s.cb.length ≥ min := fun hh => h1 ⟨hh, hl⟩
    omega
  · have h0 : s.cb.length = 0 := by omega
    have : ¬ (s.cavail ≥ min) := by
      intro hh; apply h2; constructor <;> omega
    omega

/-- State after `moveFwd` and `enlarge`: invariant kept, room for `min` bytes behind `next`. -/
theorem inv_enlarge (s : State) (min bs : Nat) (hi : Inv s)
    (hg : (if min > (moveFwd s min).bufSize then grow (moveFwd s min).bufSize min
           else some (moveFwd s min).bufSize) = some bs) (hmin : min ≤ 2 ^ 62) :
    let s2 := enlarge (moveFwd s min) min bs
    Inv s2 ∧ s2.next + min ≤ s2.bufSize ∧ s2.cb = s.cb ∧ s2.cblk = s.cblk ∧ s2.cnext = s.cnext ∧
    s2.cavail = s.cavail ∧ s2.src = s.src ∧ s2.term = s.term ∧ s2.position = s.position ∧
    s2.fatal = s.fatal ∧ s2.eof = s.eof ∧ s2.later = s.later := by
  intro s2
  have hi1 := inv_moveFwd s min hi
  have hroom := moveFwd_room s min
  by_cases hgt : min > (moveFwd s min).bufSize
  · simp only [hgt, if_true] at hg
    obtain ⟨r, hr1, hr2, hr3⟩ := grow_ok (moveFwd s min).bufSize min hi1.bufLt hmin hgt
    have hbs : bs = r := by rw [hr1] at hg; exact (Option.some.inj hg).symm
    have e : s2 = { moveFwd s min with bufSize := bs, next := 0 } := by
      simp only [s2, enlarge, hgt, if_true]
    rw [e]
    refine ⟨{ cbIn := ?_, bufLt := by simp; omega, clientEq := hi1.clientEq, prov := hi1.prov,
              eofSrc := hi1.eofSrc, srcOk := hi1.srcOk, laterOk := hi1.laterOk }, by simp; omega, by simp, by simp, by simp,
            by simp, by simp, by simp, by simp, by simp, by simp, by simp⟩
    have := hi1.cbIn
    simp only [moveFwd_bufSize, moveFwd_cb] at *
    show 0 + s.cb.length ≤ bs
    omega
  · simp only [hgt, if_false] at hg
    have e : s2 = moveFwd s min := by simp only [s2, enlarge, hgt, if_false]
    rw [e]
    refine ⟨hi1, ?_, by simp, by simp, by simp, by simp, by simp, by simp, by simp, by simp, by simp, by simp⟩
    simp at hgt ⊢
    rcases hroom with h | h
    · rw [h]; omega
    · omega

theorem good_trans (s s1 : State) (min : Nat) (r : AheadR × State)
    (h1 : remaining s1 = remaining s) (h2 : s1.term = s.term) (h3 : s1.position = s.position)
    (g : Good s1 min r) : Good s min r := by
  unfold Good at *
  rw [h1, h2, h3] at g
  exact g

theorem aheadLoop_spec (s : State) (min : Nat) (hi : Inv s) (hf : s.fatal = false) (hmin : min ≤ 2 ^ 62) :
    Good s min (aheadLoop s min) := by
  fun_induction aheadLoop s min
  case case1 s h =>
    refine ⟨hi, rfl, rfl, rfl, ?_, h.1, hf⟩
    unfold remaining
    simp [List.append_assoc]
  case case2 s h1 h2 s' h3 =>
    have hc := hi.clientEq
    have hcb : s.cb.length ≤ s.cnext := by omega
    have h3' : s.cblk = [] := h3
    have hz : s.cb = [] := by
      have : s.cblk.length = 0 := by simp [h3']
      have : s.cb.length = 0 := by omega
      exact List.eq_nil_of_length_eq_zero this
    have hmin0 : min = 0 := by
      have : s.cblk.length = 0 := by simp [h3']
      omega
    refine ⟨?_, rfl, rfl, ?_, hf, Or.inl ⟨hmin0, rfl⟩⟩
    · exact { cbIn := by simp [s'], bufLt := hi.bufLt,
              clientEq := by simp [s']; omega,
              prov := ⟨[], [], by simp [s']⟩, eofSrc := hi.eofSrc,
              srcOk := hi.srcOk, laterOk := hi.laterOk }
    · simp [remaining, s', hz, h3']
  case case3 s h1 h2 s' h3 =>
    have hc := hi.clientEq
    have hcb : s.cb.length ≤ s.cnext := by omega
    have hp := prov_all s hi hcb
    have hi' : Inv s' :=
      { cbIn := by simp [s'], bufLt := hi.bufLt, clientEq := by simp [s']; omega,
        prov := ⟨[], [], by simp [s']⟩,
        eofSrc := hi.eofSrc,
        srcOk := hi.srcOk, laterOk := hi.laterOk }
    have hw : (s'.cblk.drop s'.cnext).take s'.cavail = s.cb ++ s.cblk.drop s.cnext := by
      rw [client_take s' hi'.clientEq]
      show s.cblk.drop (s.cnext - s.cb.length) = _
      rw [← drop_split s.cblk (s.cnext - s.cb.length) s.cnext (by omega), ← hp]
    refine ⟨hi', rfl, rfl, ?_, ?_, ?_, hf⟩
    · rw [remaining_eq s hc, remaining_eq s' hi'.clientEq]
      show [] ++ s.cblk.drop (s.cnext - s.cb.length) ++ tailBytes s = _
      rw [← drop_split s.cblk (s.cnext - s.cb.length) s.cnext (by omega), ← hp]
      simp
    · rw [hw, remaining_eq s hc]; simp [List.append_assoc]
    · rw [hw]; simp; omega
  case case4 s h1 h2 hca s1 he =>
    have hi1 := inv_moveFwd s min hi
    have he' : s.eof = true := by simpa [s1] using he
    have ⟨hsrc, hlat, hterm⟩ := hi.eofSrc he'
    have hc := hi.clientEq
    have hrem : remaining s = s.cb := by
      rw [remaining_eq s hc]
      have : s.cblk.drop s.cnext = [] := List.drop_of_length_le (by omega)
      simp [this, tailBytes, hsrc, hlat]
    refine ⟨hi1, by simp [s1], by simp [s1], remaining_moveFwd s min, by simp [s1, hf], ?_⟩
    by_cases hm : min = 0
    · left
      refine ⟨hm, ?_⟩
      have : ¬ (s.cblk.length ≥ s.cavail + s.cb.length) := by
        intro hh; exact h2 ⟨hh, by omega⟩
      omega
    · right
      rw [hrem]
      refine ⟨?_, by simp [s1], hterm⟩
      by_cases hl : s.cb.length > 0
      · have : ¬ s.cb.length ≥ min := fun hh => h1 ⟨hh, hl⟩
        omega
      · omega
  case case5 s h1 h2 hca s1 he hsrc nxt more hlat ih =>
    have hi1 := inv_moveFwd s min hi
    have hc := hi.clientEq
    have he' : s1.eof = false := by simpa using he
    have hin : Inv { s1 with src := nxt, later := more } :=
      { cbIn := hi1.cbIn, bufLt := hi1.bufLt, clientEq := hi1.clientEq, prov := hi1.prov,
        eofSrc := by intro h; simp [he'] at h,
        srcOk := hi.laterOk nxt (by simp [hlat]),
        laterOk := fun n hn => hi.laterOk n (by simp [hlat, hn]) }
    have hg := ih hin (by simp [s1, hf])
    apply good_trans s _ min _ ?_ (by simp [s1]) (by simp [s1]) hg
    simp [remaining, s1, hsrc, hlat]
  case case6 s h1 h2 hca s1 he hsrc hlat hterm =>
    have hi1 := inv_moveFwd s min hi
    have hc := hi.clientEq
    have hterm' : s.term = .err := by simpa [s1] using hterm
    have hrem : remaining s = s.cb := by
      rw [remaining_eq s hc]
      have : s.cblk.drop s.cnext = [] := List.drop_of_length_le (by omega)
      simp [this, tailBytes, hsrc, hlat]
    refine ⟨?_, by simp [s1], by simp [s1], ?_, rfl, ?_, hterm'⟩
    · exact { cbIn := hi1.cbIn, bufLt := hi1.bufLt, clientEq := by simp,
              prov := ⟨s1.cb, [], by simp⟩, eofSrc := hi1.eofSrc, srcOk := hi1.srcOk, laterOk := hi1.laterOk }
    · rw [hrem]; simp [remaining, s1, hsrc, hlat]
    · rw [hrem]
      by_cases hl : s.cb.length > 0
      · have : ¬ s.cb.length ≥ min := fun hh => h1 ⟨hh, hl⟩
        omega
      · have : ¬ (s.cblk.length ≥ s.cavail + s.cb.length ∧ s.cavail + s.cb.length ≥ min) := h2
        omega
  case case7 s h1 h2 hca s1 he hsrc hlat hterm =>
    have hi1 := inv_moveFwd s min hi
    have hc := hi.clientEq
    have hterm' : s.term = .eof := by simpa [s1] using hterm
    have hrem : remaining s = s.cb := by
      rw [remaining_eq s hc]
      have : s.cblk.drop s.cnext = [] := List.drop_of_length_le (by omega)
      simp [this, tailBytes, hsrc, hlat]
    refine ⟨?_, by simp [s1], by simp [s1], ?_, by simp [s1, hf], ?_⟩
    · exact { cbIn := hi1.cbIn, bufLt := hi1.bufLt, clientEq := by simp,
              prov := ⟨s1.cb, [], by simp⟩,
              eofSrc := by intro _; simp [s1, hsrc, hlat, hterm'], srcOk := hi1.srcOk, laterOk := hi1.laterOk }
    · simp [remaining, s1, hsrc, hlat]; left; exact hca
    · rw [hrem]
      by_cases hl : s.cb.length > 0
      · have : ¬ s.cb.length ≥ min := fun hh => h1 ⟨hh, hl⟩
        right; exact ⟨by omega, by simp [s1], hterm'⟩
      · have : ¬ (s.cblk.length ≥ s.cavail + s.cb.length ∧ s.cavail + s.cb.length ≥ min) := h2
        right; exact ⟨by omega, by simp [s1], hterm'⟩
  case case8 s h1 h2 hca s1 he rest hsrc =>
    exfalso
    exact hi.srcOk [] (by simp [hsrc]) rfl
  case case9 s h1 h2 hca s1 he b bs rest hsrc ih =>
    have hi1 := inv_moveFwd s min hi
    have hc := hi.clientEq
    have he' : s1.eof = false := by simpa using he
    have hin : Inv { s1 with cblk := b :: bs, cnext := 0, cavail := (b :: bs).length, src := rest } :=
      { cbIn := hi1.cbIn, bufLt := hi1.bufLt, clientEq := by simp,
        prov := ⟨s1.cb, [], by simp⟩,
        eofSrc := by intro h; simp [he'] at h,
        srcOk := by
          intro x hx; apply hi.srcOk x; rw [hsrc]; exact List.mem_cons_of_mem _ hx,
        laterOk := hi1.laterOk }
    have hg := ih hin (by simp [s1, hf])
    apply good_trans s _ min _ ?_ (by simp [s1]) (by simp [s1]) hg
    rw [remaining_eq s hc]
    have : s.cblk.drop s.cnext = [] := List.drop_of_length_le (by omega)
    simp [remaining, s1, this, tailBytes, hsrc]
  case case10 s h1 h2 hca s1 hg =>
    exfalso
    have hi1 := inv_moveFwd s min hi
    by_cases hgt : min > s1.bufSize
    · simp only [hgt, if_true] at hg
      obtain ⟨r, hr1, _, _⟩ := grow_ok s1.bufSize min hi1.bufLt hmin hgt
      rw [hr1] at hg; cases hg
    · simp only [hgt, if_false] at hg; cases hg
  case case11 s h1 h2 hca s1 bs hg s2 tc htc =>
    exfalso
    have hs2 : s2 = enlarge (moveFwd s min) min bs := rfl
    obtain ⟨hi2, hroom, e1, e2, e3, e4, _⟩ := inv_enlarge s min bs hi hg hmin
    rw [← hs2] at hi2 hroom e1 e2 e3 e4
    have hlt := copy_branch_lt s min hi h1 h2
    have : tc = tocopy s2 min := rfl
    rw [this] at htc
    unfold tocopy at htc
    simp only [] at htc
    have hcb : s2.cb.length = s.cb.length := by rw [e1]
    have hcav : s2.cavail = s.cavail := e4
    split at htc <;> split at htc <;> omega
  case case12 s h1 h2 hca s1 bs hg s2 tc htc ih =>
    have hs2 : s2 = enlarge (moveFwd s min) min bs := rfl
    obtain ⟨hi2, hroom, e1, e2, e3, e4, e5, e6, e7, e8, e9, e10⟩ := inv_enlarge s min bs hi hg hmin
    rw [← hs2] at hi2 hroom e1 e2 e3 e4 e5 e6 e7 e8 e9 e10
    have hlt := copy_branch_lt s min hi h1 h2
    have htcle : tc ≤ s2.cavail := tocopy_le s2 min
    have hfit : s2.next + s2.cb.length + tc ≤ s2.bufSize := by
      have : tc = tocopy s2 min := rfl
      rw [this]; unfold tocopy; simp only []
      have := hi2.cbIn
      split <;> split <;> omega
    have hc2 := hi2.clientEq
    have hin : Inv { s2 with cb := s2.cb ++ (s2.cblk.drop s2.cnext).take tc,
                             cnext := s2.cnext + tc, cavail := s2.cavail - tc } := by
      obtain ⟨old, cur, p1, p2, p3, p4⟩ := hi2.prov
      have hlen : ((s2.cblk.drop s2.cnext).take tc).length = tc := by
        simp; omega
      refine { cbIn := by simp; omega, bufLt := hi2.bufLt, clientEq := by simp; omega,
               prov := ⟨old, cur ++ (s2.cblk.drop s2.cnext).take tc, by simp [p1], by simp; omega, ?_, ?_⟩,
               eofSrc := hi2.eofSrc, srcOk := hi2.srcOk, laterOk := hi2.laterOk }
      · simp only [List.length_append, hlen]
        have : s2.cnext + tc - (cur.length + tc) = s2.cnext - cur.length := by omega
        rw [this, take_add_drop s2.cblk s2.cnext tc (s2.cnext - cur.length) (by omega) (by omega), ← p3]
      · intro ho; simp only [List.length_append, hlen]; have := p4 ho; omega
    have hg' := ih hin (by simp [e8, hf])
    apply good_trans s _ min _ ?_ (by simp [e6]) (by simp [e7]) hg'
    rw [remaining_eq s hi.clientEq, remaining_eq _ hin.clientEq]
    simp only [List.append_assoc, tailBytes]
    rw [e1, e2, e3, e5, e10]
    congr 1
    rw [← List.append_assoc, take_drop_add]
end LA.RA
