/-
Handles and the state they share (property C13).

An API call on a handle is a function of the handle's own state and of the
static-storage state of the library; it returns the new handle state, a result
(status, metadata, data — whatever the caller can observe) and the static state
it leaves behind.  A *trace* is a list of (handle, call) pairs: the order in
which the calls of all threads took effect.  Every interleaving of per-handle
call sequences is such a list, and "one handle after the other" is the
particular list in which the pairs are grouped by handle.

Granularity: one API call is one step, i.e. calls are atomic with respect to
one another.  That is exact for calls that touch only their own handle and
read-only shared state (they have no shared effect to interleave), which is the
hypothesis of the commutation theorem; the sub-call interleavings that matter
for the lazily initialised tables are modelled in `LA.Model.LazyInit`.
-/
namespace LA.Handles

/-- One API call. `Sh`: shared static state, `σ`: handle state, `ρ`: observable result. -/
structure Op (Sh σ ρ : Type) where
  run : Sh → σ → σ × ρ × Sh

/-- The call leaves the shared state as it found it. -/
def Op.ReadOnly {Sh σ ρ : Type} (op : Op Sh σ ρ) : Prop := ∀ sh s, (op.run sh s).2.2 = sh

structure World (H Sh σ ρ : Type) where
  shared : Sh
  st : H → σ
  /-- results delivered to the user of each handle, in order -/
  out : H → List ρ

def upd {H α : Type} [DecidableEq H] (g : H → α) (h : H) (a : α) : H → α := fun x => if x = h then a else g x

variable {H Sh σ ρ : Type} [DecidableEq H]

def World.exec (w : World H Sh σ ρ) (e : H × Op Sh σ ρ) : World H Sh σ ρ :=
  let r := e.2.run w.shared (w.st e.1)
  { shared := r.2.2, st := upd w.st e.1 r.1, out := upd w.out e.1 (w.out e.1 ++ [r.2.1]) }

def World.run (w : World H Sh σ ρ) : List (H × Op Sh σ ρ) → World H Sh σ ρ
  | [] => w
  | e :: es => (w.exec e).run es

/-- The calls made on handle `h`, in order. -/
def proj (h : H) (tr : List (H × Op Sh σ ρ)) : List (Op Sh σ ρ) := (tr.filter (fun e => e.1 = h)).map (·.2)

/-- A handle used on its own, the shared state held fixed at `sh`. -/
def alone (sh : Sh) : σ × List ρ → List (Op Sh σ ρ) → σ × List ρ
  | acc, [] => acc
  | (s, o), op :: ops => alone sh ((op.run sh s).1, o ++ [(op.run sh s).2.1]) ops

/-- All of `a`'s calls, then all of `b`'s. -/
def oneAfterTheOther (a b : H) (xs ys : List (Op Sh σ ρ)) : List (H × Op Sh σ ρ) :=
  xs.map (fun o => (a, o)) ++ ys.map (fun o => (b, o))

end LA.Handles
