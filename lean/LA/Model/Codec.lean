/-
Header encoders and their inverses (C10, C02): byte-exact models of the ustar,
cpio-odc and cpio-newc writers (`archive_write_set_format_{ustar,cpio_odc,cpio_newc}.c`),
the entry framing (data truncation, zero fill, padding, trailers), and the matching
parts of the readers (`archive_read_support_format_{tar,cpio}.c`).

Strings are byte lists without NUL; an unset string is `[]` (the harness never sets an
empty string).  String conversion is the identity (default `hdrcharset`, C.UTF-8 locale:
`archive_string_default_conversion_for_write` is NULL), so the `ARCHIVE_WARN` branches for
untranslatable names do not occur and are not modelled.

Core Lean only.
-/
import LA.Model.NumFmt
import LA.Gen.TarLayout
import LA.Gen.CpioLayout
import LA.Gen.CodecConsts
namespace LA.Codec
open LA.NumFmt LA.Gen.TarLayout LA.Gen.CpioLayout LA.Gen.CodecConsts

inductive Status | ok | warn | failed | fatal | eof | retry | unmodelled
  deriving DecidableEq, Repr

def Status.str : Status → String
  | .ok => "ok" | .warn => "warn" | .failed => "failed" | .fatal => "fatal"
  | .eof => "eof" | .retry => "retry" | .unmodelled => "unmodelled"

inductive FType | none | reg | dir | lnk | chr | blk | fifo | sock
  deriving DecidableEq, Repr

def FType.bits : FType → Nat
  | .none => 0 | .reg => AE_IFREG | .dir => AE_IFDIR | .lnk => AE_IFLNK
  | .chr => AE_IFCHR | .blk => AE_IFBLK | .fifo => AE_IFIFO | .sock => AE_IFSOCK

/-- What the client hands to `archive_write_header`. -/
structure Entry where
  path : Option (List Nat) := none
  ftype : FType := .reg
  perm : Nat := 420
  uid : Int := 0
  gid : Int := 0
  size : Option Int := some 0
  mtime : Int := 0
  mtimeNs : Nat := 0
  uname : List Nat := []
  gname : List Nat := []
  sym : List Nat := []
  hard : List Nat := []
  rdevmajor : Int := 0
  rdevminor : Int := 0
  dev : Int := 0
  ino : Int := 0
  nlink : Int := 0
  deriving Repr, DecidableEq

/-- `archive_entry_mode(e)`. -/
def Entry.mode (e : Entry) : Nat := e.ftype.bits + e.perm % 4096
/-- `archive_entry_size(e)` (0 when unset). -/
def Entry.sizeV (e : Entry) : Int := e.size.getD 0

/-- An entry as the reader returns it. -/
structure RB where
  st : Status := .ok
  path : List Nat := []
  ftype : Nat := 0        -- `archive_entry_filetype` bits
  perm : Nat := 0
  uid : Int := 0
  gid : Int := 0
  size : Option Int := none
  mtime : Option Int := none
  uname : List Nat := []
  gname : List Nat := []
  sym : List Nat := []
  hard : List Nat := []
  rdevmajor : Int := 0
  rdevminor : Int := 0
  dev : Int := 0
  ino : Int := 0
  nlink : Nat := 0
  body : List Nat := []
  bodySt : Status := .eof
  deriving Repr, DecidableEq

/-! ## Byte-block helpers -/

/-- `memcpy(h + off, bs, bs.length)`. -/
def poke (h : List Nat) (off : Nat) (bs : List Nat) : List Nat :=
  h.take off ++ bs ++ h.drop (off + bs.length)

/-- The `n` bytes at `off`. -/
def slice (h : List Nat) (off n : Nat) : List Nat := (h.drop off).take n

/-- A fixed-width field read as a C string (`archive_strncpy`: up to the first NUL). -/
def cstr (f : List Nat) : List Nat := f.takeWhile (· ≠ 0)

def sumBytes (h : List Nat) : Nat := h.foldl (· + ·) 0

def slash : Nat := 47

/-- Index of the first '/' (`strchr`). -/
def findSlash : List Nat → Option Nat
  | [] => none
  | c :: r => if c = slash then some 0 else (findSlash r).map (· + 1)

def findSlashFrom (s : List Nat) (i : Nat) : Option Nat := (findSlash (s.drop i)).map (· + i)

/-! ## ustar writer -/

inductive NameSplit | whole | split (p : Nat) | tooLong
  deriving DecidableEq, Repr

/-- The candidate separator of `__archive_write_format_header_ustar`:
`p = strchr(pp + copy_length - USTAR_name_size - 1, '/')`, and the next '/' if that is the
first character of the name (ustar does not permit an empty prefix). -/
def ustarSep (pp : List Nat) : Option Nat :=
  match findSlashFrom pp (pp.length - ustar_name_size - 1) with
  | some 0 => findSlashFrom pp 1
  | x => x

/-- The name / prefix split of `__archive_write_format_header_ustar` with its three refusals. -/
def ustarSplit (pp : List Nat) : NameSplit :=
  if pp.length ≤ ustar_name_size then .whole
  else
    match ustarSep pp with
    | none => .tooLong                                   -- no separator
    | some p =>
      if p + 1 = pp.length then .tooLong                 -- only a final '/'
      else if p > ustar_prefix_size then .tooLong        -- prefix too long
      else .split p

/-- A sequence of `memcpy(h + off, bytes, n)` into the block, in order. -/
def applyWrites (h : List Nat) : List (Nat × List Nat) → List Nat
  | [] => h
  | w :: ws => applyWrites (poke h w.1 w.2) ws

def ustarTypeflag : FType → Option Nat
  | .reg => some 48 | .lnk => some 50 | .chr => some 51 | .blk => some 52
  | .dir => some 53 | .fifo => some 54 | _ => none

/-- The checksum tail of the header formatters: sum of all 512 bytes (the field holds
eight spaces from the template), `h[154] = 0`, six octal digits at 148. -/
def ustarChecksum (h : List Nat) : List Nat :=
  let sum := sumBytes h
  let h := poke h (ustar_checksum_offset + 6) [0]
  poke h ustar_checksum_offset (ustarFormatOctal sum 6).2

/-- The link name a tar header carries: the hard link target if there is one, else the symlink target. -/
def tarLink (e : Entry) : List Nat := if e.hard ≠ [] then e.hard else e.sym

/-- The type flag byte: explicit `tartype`, else '1' for a hard link, else by file type;
`none` = unsupported type (the template's '0' stays). -/
def ustarType (e : Entry) (tartype : Option Nat) : Option Nat :=
  match tartype with
  | some t => some t
  | none => if e.hard ≠ [] then some 49 else ustarTypeflag e.ftype

/-- One numeric field: value, offset, size, max size, and whether the C formats it at all
(the rdev fields only for character and block devices). -/
structure NumField where
  v : Int
  off : Nat
  size : Nat
  max : Nat
  active : Bool := true

/-- The numeric fields of the header in the order the C formats them. -/
def ustarNumFields (e : Entry) (size : Int) : List NumField :=
  let dev : Bool := e.ftype = .blk ∨ e.ftype = .chr
  [ ⟨((e.perm % 4096 : Nat) : Int), ustar_mode_offset, ustar_mode_size, ustar_mode_max_size, true⟩,
    ⟨e.uid, ustar_uid_offset, ustar_uid_size, ustar_uid_max_size, true⟩,
    ⟨e.gid, ustar_gid_offset, ustar_gid_size, ustar_gid_max_size, true⟩,
    ⟨size, ustar_size_offset, ustar_size_size, ustar_size_max_size, true⟩,
    ⟨e.mtime, ustar_mtime_offset, ustar_mtime_size, ustar_mtime_max_size, true⟩,
    ⟨e.rdevmajor, ustar_rdevmajor_offset, ustar_rdevmajor_size, ustar_rdevmajor_max_size, dev⟩,
    ⟨e.rdevminor, ustar_rdevminor_offset, ustar_rdevminor_size, ustar_rdevminor_max_size, dev⟩ ]

/-- What one numeric field stores (nothing when the C skips it). -/
def NumField.bytes (f : NumField) (strict : Bool) : List Nat :=
  if f.active then (ustarFormatNumber f.v f.size f.max strict).2 else []
/-- `format_number` reported an overflow for this field. -/
def NumField.failed (f : NumField) (strict : Bool) : Bool :=
  f.active && (ustarFormatNumber f.v f.size f.max strict).1

/-- Every `memcpy` / field store of `__archive_write_format_header_ustar` before the checksum,
in program order, always one (possibly empty = nothing stored) write per field: prefix, name,
linkname, uname, gname, the seven numeric fields, typeflag.  Strings longer than their field
are cut to the field (and make the call fail, see `ustarFailed`). -/
def ustarWrites (e : Entry) (path : List Nat) (size : Int) (tartype : Option Nat) (strict : Bool) :
    List (Nat × List Nat) :=
  [ (ustar_prefix_offset, match ustarSplit path with | .split p => path.take p | _ => []),
    (ustar_name_offset, match ustarSplit path with
                        | .whole => path | .split p => path.drop (p + 1) | .tooLong => []),
    (ustar_linkname_offset, (tarLink e).take ustar_linkname_size),
    (ustar_uname_offset, e.uname.take ustar_uname_size),
    (ustar_gname_offset, e.gname.take ustar_gname_size) ] ++
  (ustarNumFields e size).map (fun f => (f.off, f.bytes strict)) ++
  [ (ustar_typeflag_offset, match ustarType e tartype with | some t => [t] | none => []) ]

/-- `ret == ARCHIVE_FAILED` at the end of `__archive_write_format_header_ustar`: some
`if (…) { archive_set_error(…); ret = ARCHIVE_FAILED; }` branch was taken. -/
def ustarFailed (e : Entry) (path : List Nat) (size : Int) (tartype : Option Nat) (strict : Bool) : Bool :=
  ustarSplit path == .tooLong                                       -- "Pathname too long"
  || decide ((tarLink e).length > ustar_linkname_size)              -- "Link contents too long"
  || (decide (e.uname.length > ustar_uname_size) && tartype != some 120)   -- "Username too long"
  || (decide (e.gname.length > ustar_gname_size) && tartype != some 120)   -- "Group name too long"
  || (ustarNumFields e size).any (fun f => f.failed strict)         -- "Numeric … too large"
  || (ustarType e tartype).isNone                                   -- unsupported file type

/-- `__archive_write_format_header_ustar(a, h, entry, tartype, strict, sconv)`.
`path` is the pathname after the directory fix-up; returns (failed?, 512 bytes).  The C
interleaves the stores and the `ret = ARCHIVE_FAILED` assignments field by field; the
fields are distinct, so collecting them separately is the same function. -/
def ustarFormatHeader (e : Entry) (path : List Nat) (size : Int) (tartype : Option Nat) (strict : Bool) :
    Bool × List Nat :=
  (ustarFailed e path size tartype strict,
   ustarChecksum (applyWrites ustar_template (ustarWrites e path size tartype strict)))

/-- Per-archive writer state shared by the modelled formats. -/
structure WState where
  remaining : Nat := 0       -- entry_bytes_remaining
  padding : Nat := 0         -- entry_padding
  inoNext : Nat := 0         -- cpio: ino_next
  inoList : List (Int × Nat) := []   -- cpio odc: ino_list (old, new)
  deriving Repr

/-- Directory fix-up of `archive_write_ustar_header`: ensure a trailing '/'. -/
def dirSlash (ft : FType) (p : List Nat) : List Nat :=
  if ft = .dir ∧ p ≠ [] ∧ p.getLast? ≠ some slash then p ++ [slash] else p

/-- `0x1ff & -n`. -/
def pad512 (n : Nat) : Nat := (512 - n % 512) % 512

/-- `archive_write_ustar_header`: status, bytes sent to the output, new state. -/
def ustarWriteHeader (st : WState) (e : Entry) : Status × List Nat × WState :=
  match e.path with
  | none => (.failed, [], st)
  | some p =>
    let size : Int := if e.hard ≠ [] ∨ e.sym ≠ [] ∨ e.ftype ≠ .reg then 0 else e.sizeV
    let p := dirSlash e.ftype p
    let r := ustarFormatHeader e p size none true
    if r.1 then (.failed, [], st)
    else (.ok, r.2, { st with remaining := size.toNat, padding := pad512 size.toNat })

/-! ## cpio writers -/

/-- `synthesize_ino_value` of archive_write_set_format_cpio_odc.c (the `int` result;
the list growth cannot fail in the model). -/
def synthIno (st : WState) (e : Entry) : Int × WState :=
  if e.ino = 0 then (0, st)
  else if e.nlink < 2 then (((st.inoNext + 1 : Nat) : Int), { st with inoNext := st.inoNext + 1 })
  else match st.inoList.find? (fun p => p.1 = e.ino) with
    | some p => ((p.2 : Int), st)
    | none => (((st.inoNext + 1 : Nat) : Int),
               { st with inoNext := st.inoNext + 1, inoList := st.inoList ++ [(e.ino, st.inoNext + 1)] })

/-- One numeric field of a cpio header: value, offset, digits, and whether the repaired
`write_header` folds its overflow indication into the entry's status (`overflow |= format_…`). -/
structure CpioNum where
  v : Int
  off : Nat
  size : Nat
  counted : Bool := true

/-- The fixed part of a cpio header: `memset(h, 0, size)` and one `format_octal` / `format_hex`
per field. -/
def cpioHeaderBytes (fmt : Int → Nat → Bool × List Nat) (total : Nat) (fs : List CpioNum) : List Nat :=
  applyWrites (List.replicate total 0) (fs.map fun f => (f.off, (fmt f.v f.size).2))

/-- `overflow != 0` after all fields were formatted. -/
def cpioOverflow (fmt : Int → Nat → Bool × List Nat) (fs : List CpioNum) : Bool :=
  fs.any fun f => f.counted && (fmt f.v f.size).1

/-- glibc `gnu_dev_makedev(unsigned major, unsigned minor)` (what `archive_entry_rdev/dev`
return for a broken-down device number): the bit fields do not overlap, so `|` is `+`. -/
def makedev (major minor : Int) : Int :=
  let ma := (major % 4294967296).toNat
  let mi := (minor % 4294967296).toNat
  (((ma % 4096) * 256 + (ma / 4096) * 17592186044416 + mi % 256 + (mi / 256) * 1048576 : Nat) : Int)

/-- glibc `gnu_dev_major`: `((dev >> 8) & 0xfff) | ((dev >> 32) & 0xfffff000)`. -/
def devMajorN (u : Nat) : Nat := u / 256 % 4096 + u / 17592186044416 % 1048576 * 4096
/-- glibc `gnu_dev_minor`: `(dev & 0xff) | ((dev >> 12) & 0xffffff00)`. -/
def devMinorN (u : Nat) : Nat := u % 256 + u / 1048576 % 16777216 * 256

structure CpioHdr where
  st : Status
  bytes : List Nat
  state : WState

/-- The fields of the odc header in the order `write_header` formats them.  magic, ino
(synthesised, masked to 18 bits), namesize and filesize are handled outside the `overflow`
accumulation: the first two cannot overflow, the last two are refused instead. -/
def odcFields (e : Entry) (ino pathlength filesize : Int) : List CpioNum :=
  [ ⟨29127, odcw_magic_offset, odcw_magic_size, false⟩,          -- 070707
    ⟨e.dev, odcw_dev_offset, odcw_dev_size, true⟩,
    ⟨ino % 262144, odcw_ino_offset, odcw_ino_size, false⟩,
    ⟨e.mode, odcw_mode_offset, odcw_mode_size, true⟩,
    ⟨e.uid, odcw_uid_offset, odcw_uid_size, true⟩,
    ⟨e.gid, odcw_gid_offset, odcw_gid_size, true⟩,
    ⟨e.nlink, odcw_nlink_offset, odcw_nlink_size, true⟩,
    ⟨if e.ftype = .blk ∨ e.ftype = .chr then makedev e.rdevmajor e.rdevminor else 0,
      odcw_rdev_offset, odcw_rdev_size, true⟩,
    ⟨e.mtime, odcw_mtime_offset, odcw_mtime_size, true⟩,
    ⟨pathlength, odcw_namesize_offset, odcw_namesize_size, false⟩,
    ⟨filesize, odcw_filesize_offset, odcw_filesize_size, false⟩ ]

/-- The size the cpio writers give an entry: only regular files have a body. -/
def cpioSize (e : Entry) : Int := if e.ftype ≠ .reg then 0 else e.sizeV
/-- The `c_filesize` value: the link target's length for a symlink. -/
def cpioFilesize (e : Entry) : Int := if e.sym ≠ [] then (e.sym.length : Int) else cpioSize e

/-- `write_header` of archive_write_set_format_cpio_odc.c (after the repair that reports the
fields `format_octal` had to saturate: status WARN, entry still written; a name length that
does not fit is refused). -/
def odcWriteHeaderCore (st : WState) (e : Entry) (path : List Nat) : CpioHdr :=
  let pathlength : Int := path.length + 1
  let (ino, st) := synthIno st e
  if ino > 262143 then ⟨.fatal, [], st⟩                                       -- "Too many files for this cpio format"
  else if (odcFormatOctal pathlength odcw_namesize_size).1 then ⟨.failed, [], st⟩   -- "Pathname too long for cpio format"
  else if (odcFormatOctal (cpioFilesize e) odcw_filesize_size).1 then ⟨.failed, [], st⟩   -- "File is too large for cpio format."
  else
    let fs := odcFields e ino pathlength (cpioFilesize e)
    ⟨if cpioOverflow odcFormatOctal fs then .warn else .ok,
     cpioHeaderBytes odcFormatOctal odcr_header_size fs ++ path ++ [0] ++ e.sym,
     { st with remaining := (cpioSize e).toNat, padding := 0 }⟩

/-- The mandatory-field checks shared by `archive_write_odc_header` / `archive_write_newc_header`. -/
def cpioPrecheck (e : Entry) (newc : Bool) : Option Status :=
  if e.ftype = .none ∧ e.hard = [] then some .failed       -- "Filetype required"
  else match e.path with
    | none => some .failed                                  -- "Pathname required"
    | some [] => some .failed
    | some _ =>
      if (newc ∧ e.hard ≠ []) then none
      else match e.size with
        | none => some .failed                              -- "Size required"
        | some s => if s < 0 then some .failed else none

def odcWriteHeader (st : WState) (e : Entry) : Status × List Nat × WState :=
  match cpioPrecheck e false with
  | some s => (s, [], st)
  | none =>
    let r := odcWriteHeaderCore st e (e.path.getD [])
    (r.st, r.bytes, r.state)

/-- `PAD4(n)`: `3 & (1 + ~n)`. -/
def pad4 (n : Nat) : Nat := (4 - n % 4) % 4

/-- `archive_entry_devmajor/minor` of a `dev_t` set with `archive_entry_set_dev`. -/
def devMajor (d : Int) : Int := (devMajorN (d % 18446744073709551616).toNat : Nat)
def devMinor (d : Int) : Int := (devMinorN (d % 18446744073709551616).toNat : Nat)

/-- The fields of the newc header in the order `write_header` formats them. -/
def newcFields (e : Entry) (devmajor devminor pathlength filesize : Int) : List CpioNum :=
  let dev : Bool := e.ftype = .blk ∨ e.ftype = .chr
  [ ⟨460545, newcw_magic_offset, newcw_magic_size, false⟩,      -- 0x070701
    ⟨devmajor, newcw_devmajor_offset, newcw_devmajor_size, true⟩,
    ⟨devminor, newcw_devminor_offset, newcw_devminor_size, true⟩,
    ⟨e.ino % 4294967296, newcw_ino_offset, newcw_ino_size, false⟩,
    ⟨e.mode, newcw_mode_offset, newcw_mode_size, true⟩,
    ⟨e.uid, newcw_uid_offset, newcw_uid_size, true⟩,
    ⟨e.gid, newcw_gid_offset, newcw_gid_size, true⟩,
    ⟨e.nlink, newcw_nlink_offset, newcw_nlink_size, true⟩,
    ⟨if dev then e.rdevmajor else 0, newcw_rdevmajor_offset, newcw_rdevmajor_size, true⟩,
    ⟨if dev then e.rdevminor else 0, newcw_rdevminor_offset, newcw_rdevminor_size, true⟩,
    ⟨e.mtime, newcw_mtime_offset, newcw_mtime_size, true⟩,
    ⟨pathlength, newcw_namesize_offset, newcw_namesize_size, false⟩,
    ⟨0, newcw_checksum_offset, newcw_checksum_size, false⟩,
    ⟨filesize, newcw_filesize_offset, newcw_filesize_size, false⟩ ]

/-- `write_header` of archive_write_set_format_cpio_newc.c (after the repair: WARN when a
field had to be saturated; "large inode number truncated" was a WARN before). -/
def newcWriteHeaderCore (st : WState) (e : Entry) (path : List Nat) (devmajor devminor : Int) : CpioHdr :=
  let pathlength : Int := path.length + 1
  if (newcFormatHex (cpioFilesize e) newcw_filesize_size).1 then ⟨.failed, [], st⟩   -- "File is too large for this format."
  else
    let fs := newcFields e devmajor devminor pathlength (cpioFilesize e)
    let namepad := List.replicate (pad4 (path.length + 1 + newcr_header_size)) 0
    let symb := if e.sym ≠ [] then e.sym ++ List.replicate (pad4 e.sym.length) 0 else []
    ⟨if cpioOverflow newcFormatHex fs || decide (e.ino > 4294967295) then .warn else .ok,
     cpioHeaderBytes newcFormatHex newcr_header_size fs ++ path ++ [0] ++ namepad ++ symb,
     { st with remaining := (cpioSize e).toNat, padding := pad4 (cpioSize e).toNat }⟩

def newcWriteHeader (st : WState) (e : Entry) : Status × List Nat × WState :=
  match cpioPrecheck e true with
  | some s => (s, [], st)
  | none =>
    let r := newcWriteHeaderCore st e (e.path.getD []) (devMajor e.dev) (devMinor e.dev)
    (r.st, r.bytes, r.state)

/-! ## Entry framing common to the three writers -/

inductive Fmt | ustar | odc | newc
  deriving DecidableEq, Repr

def writeHeader : Fmt → WState → Entry → Status × List Nat × WState
  | .ustar => ustarWriteHeader
  | .odc => odcWriteHeader
  | .newc => newcWriteHeader

/-- `archive_write_{ustar,odc,newc}_data`: at most `entry_bytes_remaining` bytes are taken. -/
def writeData (st : WState) (chunk : List Nat) : List Nat × WState :=
  let b := chunk.take st.remaining
  (b, { st with remaining := st.remaining - b.length })

/-- `…_finish_entry`: zero fill of what was declared but not written, then the padding. -/
def finishEntry (st : WState) : List Nat × WState :=
  (List.replicate (st.remaining + st.padding) 0, { st with remaining := 0, padding := 0 })

def trailerEntry : Entry :=
  { path := some [84, 82, 65, 73, 76, 69, 82, 33, 33, 33], ftype := .none, perm := 0, nlink := 1, size := some 0 }

/-- `…_close`: two zero blocks for tar; the `TRAILER!!!` entry for cpio (bypassing the pre-checks). -/
def closeBytes (f : Fmt) (st : WState) : Status × List Nat :=
  match f with
  | .ustar => (.ok, List.replicate 1024 0)
  | .odc => let r := odcWriteHeaderCore st trailerEntry (trailerEntry.path.getD []); (r.st, r.bytes)
  | .newc => let r := newcWriteHeaderCore st trailerEntry (trailerEntry.path.getD []) 0 0; (r.st, r.bytes)

/-- One `archive_write_data` call inside the loop of `writeEntry`: (bytes accepted so far,
output so far, state). -/
def dataStep (acc : Nat × List Nat × WState) (c : List Nat) : Nat × List Nat × WState :=
  let w := writeData acc.2.2 c
  (acc.1 + w.1.length, acc.2.1 ++ w.1, w.2)

/-- Write one whole entry: header, the body in the given chunks, finish.
Returns header status, bytes accepted by `write_data`, output bytes, state. -/
def writeEntry (f : Fmt) (st : WState) (e : Entry) (chunks : List (List Nat)) :
    Status × Nat × List Nat × WState :=
  let h := writeHeader f st e
  if h.1 = .failed ∨ h.1 = .fatal then (h.1, 0, h.2.1, h.2.2)
  else
    let r := chunks.foldl dataStep (0, [], h.2.2)
    let fin := finishEntry r.2.2
    (h.1, r.1, h.2.1 ++ r.2.1 ++ fin.1, fin.2)

/-- A sequence of entries, each with the chunks its body is written in. -/
def writeEntries (f : Fmt) : WState → List (Entry × List (List Nat)) → List Nat × WState
  | st, [] => ([], st)
  | st, ec :: r =>
    let w := writeEntry f st ec.1 ec.2
    let rest := writeEntries f w.2.2.2 r
    (w.2.2.1 ++ rest.1, rest.2)

/-- The last-block padding of `archive_write_client_close` (bytes_per_block `bpb`,
bytes_in_last_block `bilb`; `bpb = 0` is unbuffered). -/
def clientPad (total bpb : Nat) (bilb : Int) : Nat :=
  if bpb = 0 then 0 else
  let r := total % bpb
  if r = 0 then 0 else
  let target := if bilb ≤ 0 then bpb else
    let t := bilb.toNat * ((r + bilb.toNat - 1) / bilb.toNat)
    if t > bpb then bpb else t
  if r < target then target - r else 0

/-- A whole archive as the client sink receives it: entries, the format's trailer, and the
last-block padding of the output blocking. -/
def writeArchive (f : Fmt) (es : List (Entry × List (List Nat))) (bpb : Nat) (bilb : Int) : List Nat :=
  let w := writeEntries f {} es
  let raw := w.1 ++ (closeBytes f w.2).2
  raw ++ List.replicate (clientPad raw.length bpb bilb) 0

/-! ## Readers -/

def isNullBlock (h : List Nat) : Bool := h.all (· == 0)

/-- `checksum()` of archive_read_support_format_tar.c: the field must look octal; the sum
(field taken as blanks) is compared unsigned, then signed. -/
def tarChecksumOk (h : List Nat) : Bool :=
  let f := slice h rd_checksum_offset rd_checksum_size
  if !(f.all fun c => c == 32 || c == 0 || (48 ≤ c && c ≤ 55)) then false else
  let sum := tarAtol f
  let sum32 := toI64 ((sum % 4294967296).toNat)   -- `(int)` of an int64: low 32 bits, signed
  let sum32 := if sum32 ≥ 2147483648 then sum32 - 4294967296 else sum32
  let blank := poke h rd_checksum_offset (List.replicate 8 32)
  let u : Int := sumBytes blank
  let s : Int := (blank.map fun (c : Nat) => if c ≥ 128 then (c : Int) - 256 else (c : Int)).foldl (· + ·) 0
  sum32 == u || sum32 == s

/-- A numeric header field: `tar_atol(header->x, sizeof(header->x))`. -/
def tarNum (h : List Nat) (off n : Nat) : Int := tarAtol (slice h off n)
/-- A string header field copied with `archive_strncpy` / `archive_entry_copy_*_l(…, sizeof field)`. -/
def tarStr (h : List Nat) (off n : Nat) : List Nat := cstr (slice h off n)

/-- Pathname of `header_ustar` (prefix joined to name with a '/', unless the prefix already ends
in one) or of `header_old_tar` (name only). -/
def tarPath (h : List Nat) (oldTar : Bool) : List Nat :=
  let name := tarStr h rd_name_offset rd_name_size
  let prefix_ := tarStr h rd_prefix_offset rd_prefix_size
  if oldTar then name
  else if prefix_ ≠ [] then
    (if prefix_.getLast? ≠ some slash then prefix_ ++ [slash] else prefix_) ++ name
  else name

/-- The numeric fields `header_common` parses for every entry. -/
def tarBase (h : List Nat) (path : List Nat) (size : Int) : RB :=
  let modeN := ((tarNum h rd_mode_offset rd_mode_size) % 4294967296).toNat        -- `(mode_t)`
  { path := path
    ftype := modeN % 65536 / 4096 * 4096        -- `AE_IFMT & mode`
    perm := modeN % 4096 + (modeN / 65536) * 65536
    uid := tarNum h rd_uid_offset rd_uid_size
    gid := tarNum h rd_gid_offset rd_gid_size
    mtime := some (tarNum h rd_mtime_offset rd_mtime_size)
    size := some size }

/-- The `switch (tar->filetype)` of `header_common`: file type, link target, whether a body
follows (`entry_bytes_remaining`).  `none`: the hard-link size heuristics, not modelled. -/
def tarTypeSwitch (rb : RB) (tf : Nat) (link : List Nat) (size : Int) : Option (RB × Nat) :=
  if tf = 49 then            -- '1' hard link
    if size = 0 then some ({ rb with hard := link }, 0) else none
  else if tf = 50 then some ({ rb with sym := link, ftype := AE_IFLNK, size := some 0 }, 0)
  else if tf = 51 then some ({ rb with ftype := AE_IFCHR, size := some 0 }, 0)
  else if tf = 52 then some ({ rb with ftype := AE_IFBLK, size := some 0 }, 0)
  else if tf = 53 then some ({ rb with ftype := AE_IFDIR, size := some 0 }, 0)
  else if tf = 54 then some ({ rb with ftype := AE_IFIFO, size := some 0 }, 0)
  else some ({ rb with ftype := AE_IFREG }, size.toNat)

/-- The POSIX fields `header_ustar` adds: uname, gname and, for devices, rdev. -/
def ustarExtras (rb : RB) (h : List Nat) (tf : Nat) : RB :=
  let rb := { rb with uname := tarStr h rd_uname_offset rd_uname_size,
                      gname := tarStr h rd_gname_offset rd_gname_size }
  if tf = 51 ∨ tf = 52 then
    { rb with rdevmajor := tarNum h rd_rdevmajor_offset rd_rdevmajor_size,
              rdevminor := tarNum h rd_rdevminor_offset rd_rdevminor_size }
  else rb

/-- `archive_read_format_tar_read_header`: a "regular" entry whose name ends in '/' is a
directory and has no body. -/
def tarDirFix (r : RB × Nat) : RB × Nat :=
  if r.1.ftype = AE_IFREG ∧ r.1.path.getLast? = some slash then ({ r.1 with ftype := AE_IFDIR }, 0) else r

/-- `header_common` + `header_ustar` / `header_old_tar` (no pax/GNU overrides in effect): the
fields of one 512-byte header and the number of body bytes that follow.  `none` for the FATAL
outcomes (negative or absurd size). -/
def ustarDecode (h : List Nat) (oldTar : Bool) : Option (RB × Nat) :=
  let size := tarNum h rd_size_offset rd_size_size
  if size < 0 ∨ size > rd_entry_limit then none else
  let tf := (slice h rd_typeflag_offset 1).headD 0
  let link := tarStr h rd_linkname_offset rd_linkname_size
  match tarTypeSwitch (tarBase h (tarPath h oldTar) size) tf link size with
  | none => none
  | some (rb, remaining) =>
    some (tarDirFix (if oldTar then rb else ustarExtras rb h tf, remaining))

/-- Result of reading a whole archive. -/
structure ReadResult where
  fmt : Nat := 0
  entries : List RB := []
  endSt : Status := .eof
  /-- how many times the tar reader's `read_header` ran (it numbers the entries with a
  process-wide counter, which keeps counting across archives) -/
  calls : Nat := 0
  deriving Repr

def ustarMagic : List Nat := [117, 115, 116, 97, 114]

/-- The tar reader on a byte stream: headers, bodies, padding, end-of-archive.
`k` counts entries (for the synthetic `ino`); `fmt` is the format code so far.
`partialRead`: stop after an entry larger than 1 MiB (harness `abort` mode). -/
def tarRead (partialRead : Bool) (bs : List Nat) (k : Nat) (fmt : Nat) (acc : List RB) : ReadResult :=
  if bs.length = 0 then ⟨fmt, acc.reverse, .eof, k + 1⟩
  else if bs.length < 512 then ⟨fmt, acc.reverse, .fatal, k + 1⟩
  else
    let h := bs.take 512
    let rest := bs.drop 512
    if isNullBlock h then ⟨fmt, acc.reverse, .eof, k + 1⟩
    else if !tarChecksumOk h then ⟨fmt, acc.reverse, .retry, k + 1⟩
    else
      let tf := (slice h rd_typeflag_offset 1).headD 0
      if tf = 65 ∨ tf = 103 ∨ tf = 75 ∨ tf = 76 ∨ tf = 86 ∨ tf = 88 ∨ tf = 120 then ⟨fmt, acc.reverse, .unmodelled, k + 1⟩
      else if slice h rd_magic_offset 8 = [117, 115, 116, 97, 114, 32, 32, 0] then ⟨fmt, acc.reverse, .unmodelled, k + 1⟩
      else
        let isUstar := slice h rd_magic_offset 5 = ustarMagic
        let fmt := if isUstar then ARCHIVE_FORMAT_TAR_USTAR else ARCHIVE_FORMAT_TAR
        match ustarDecode h (!isUstar) with
        | none => ⟨fmt, acc.reverse, .fatal, k + 1⟩
        | some (rb, remaining) =>
          let rb := { rb with dev := 1, ino := (k + 1 : Nat) }
          if partialRead ∧ rb.size.getD 0 > 1048576 then ⟨fmt, (rb :: acc).reverse, .ok, k + 1⟩ else
          let need := remaining + pad512 remaining
          if rest.length < need then
            ⟨fmt, ({ rb with body := rest.take remaining, bodySt := .fatal } :: acc).reverse, .fatal, k + 1⟩
          else if need = 0 then
            tarRead partialRead rest (k + 1) fmt ({ rb with body := [] } :: acc)
          else
            tarRead partialRead (rest.drop need) (k + 1) fmt ({ rb with body := rest.take remaining } :: acc)
termination_by bs.length
decreasing_by
  all_goals simp only [List.length_drop]
  all_goals omega

/-- `record_hardlink` state of the cpio reader: (dev, ino, links left, name). -/
abbrev LinkTab := List (Int × Int × Nat × List Nat)

def recordHardlink (tab : LinkTab) (rb : RB) : LinkTab × RB :=
  if rb.nlink ≤ 1 then (tab, rb) else
  match tab.find? (fun le => le.1 = rb.dev ∧ le.2.1 = rb.ino) with
  | some le =>
    let rb := { rb with hard := le.2.2.2 }
    let tab := if le.2.2.1 ≤ 1 then tab.filter (fun x => !(x.1 = rb.dev ∧ x.2.1 = rb.ino ∧ x.2.2.2 = le.2.2.2))
               else tab.map (fun x => if x.1 = rb.dev ∧ x.2.1 = rb.ino ∧ x.2.2.2 = le.2.2.2 then (x.1, x.2.1, x.2.2.1 - 1, x.2.2.2) else x)
    (tab, rb)
  | none => ((rb.dev, rb.ino, rb.nlink - 1, rb.path) :: tab, rb)

def trailerName : List Nat := [84, 82, 65, 73, 76, 69, 82, 33, 33, 33]

/-- `archive_entry_set_mode` + the getters. -/
def rbSetMode (rb : RB) (m : Nat) : RB :=
  let m := m % 4294967296
  { rb with ftype := m % 65536 / 4096 * 4096, perm := m - (m % 65536 / 4096 * 4096) }

/-- `archive_entry_rdevmajor/minor` after `archive_entry_set_rdev(d)`. -/
def rdevSplit (rb : RB) (d : Nat) : RB :=
  { rb with rdevmajor := (devMajorN d : Nat), rdevminor := (devMinorN d : Nat) }

/-- Size of the fixed header. -/
def cpioHsz (newc : Bool) : Nat := if newc then newcr_header_size else odcr_header_size

/-- The bidder / `find_newc_header`, `find_odc_header` tests: magic and digit-only header. -/
def cpioMagicOk (newc : Bool) (h : List Nat) : Bool :=
  if newc then (h.take 6 == [48, 55, 48, 55, 48, 49] && h.all fun c => (hexVal c).isSome)
  else (h.take 6 == [48, 55, 48, 55, 48, 55] && h.all fun c => decide (48 ≤ c ∧ c ≤ 55))

/-- One numeric header field: `atol16` (newc) or `atol8` (odc). -/
def cpioNum (newc : Bool) (h : List Nat) (off sz : Nat) : Nat :=
  if newc then cpioAtol16 (slice h off sz) 0 else cpioAtol8 (slice h off sz) 0

/-- `header_newc`: the fields of the 110-byte header; (entry, namesize, filesize). -/
def newcParse (h : List Nat) : RB × Nat × Nat :=
  let num := cpioNum true h
  let rb : RB := { ({} : RB) with
    dev := makedev (num newcr_devmajor_offset newcr_devmajor_size) (num newcr_devminor_offset newcr_devminor_size)
    ino := num newcr_ino_offset newcr_ino_size
    uid := num newcr_uid_offset newcr_uid_size, gid := num newcr_gid_offset newcr_gid_size
    nlink := num newcr_nlink_offset newcr_nlink_size
    rdevmajor := num newcr_rdevmajor_offset newcr_rdevmajor_size
    rdevminor := num newcr_rdevminor_offset newcr_rdevminor_size
    mtime := some (num newcr_mtime_offset newcr_mtime_size) }
  (rbSetMode rb (num newcr_mode_offset newcr_mode_size), num newcr_namesize_offset newcr_namesize_size,
   num newcr_filesize_offset newcr_filesize_size)

/-- `header_odc`: the fields of the 76-byte header. -/
def odcParse (h : List Nat) : RB × Nat × Nat :=
  let num := cpioNum false h
  let rb : RB := { ({} : RB) with
    dev := num odcr_dev_offset odcr_dev_size, ino := num odcr_ino_offset odcr_ino_size
    uid := num odcr_uid_offset odcr_uid_size, gid := num odcr_gid_offset odcr_gid_size
    nlink := num odcr_nlink_offset odcr_nlink_size
    mtime := some (num odcr_mtime_offset odcr_mtime_size) }
  let rb := rdevSplit rb (num odcr_rdev_offset odcr_rdev_size)
  (rbSetMode rb (num odcr_mode_offset odcr_mode_size), num odcr_namesize_offset odcr_namesize_size,
   num odcr_filesize_offset odcr_filesize_size)

def cpioParse (newc : Bool) (h : List Nat) : RB × Nat × Nat := if newc then newcParse h else odcParse h

/-- newc pads the name so that header + name is a multiple of 4 (the header is 110 = 2 mod 4). -/
def cpioNamePad (newc : Bool) (namelen : Nat) : Nat := if newc then (2 + 4 - namelen % 4) % 4 else 0
def cpioBodyPad (newc : Bool) (filesize : Nat) : Nat := if newc then pad4 filesize else 0

theorem cpioHsz_pos (newc : Bool) : 0 < cpioHsz newc := by cases newc <;> decide

/-- The cpio reader (odc and newc headers as written by the modelled writers). -/
def cpioRead (partialRead newc : Bool) (bs : List Nat) (fmt : Nat) (tab : LinkTab) (acc : List RB) : ReadResult :=
  if bs.length < cpioHsz newc then ⟨fmt, acc.reverse, .fatal, 0⟩ else
  let h := bs.take (cpioHsz newc)
  if !cpioMagicOk newc h then ⟨fmt, acc.reverse, .unmodelled, 0⟩ else
  let fmt := if newc then ARCHIVE_FORMAT_CPIO_SVR4_NOCRC else ARCHIVE_FORMAT_CPIO_POSIX
  let p := cpioParse newc h
  let namelen := p.2.1
  let filesize := p.2.2
  let namepad := cpioNamePad newc namelen
  let rest := bs.drop (cpioHsz newc)
  if rest.length < namelen + namepad then ⟨fmt, acc.reverse, .fatal, 0⟩ else
  let rb := { p.1 with path := cstr (rest.take namelen), size := some (filesize : Int) }
  let rest := rest.drop (namelen + namepad)
  let bodypad := cpioBodyPad newc filesize
  -- symlink: the body is the target
  if rb.ftype = AE_IFLNK then
    if filesize > 1048576 ∨ rest.length < filesize then ⟨fmt, acc.reverse, .fatal, 0⟩ else
    let rb := { rb with sym := cstr (rest.take filesize) }
    let rest := rest.drop filesize
    let lr := recordHardlink tab rb
    if rest.length < bodypad then ⟨fmt, ({ lr.2 with bodySt := .fatal } :: acc).reverse, .fatal, 0⟩ else
    cpioRead partialRead newc (rest.drop bodypad) fmt lr.1 (lr.2 :: acc)
  else if namelen = 11 ∧ rb.path = trailerName then ⟨fmt, acc.reverse, .eof, 0⟩
  else
    let lr := recordHardlink tab rb
    if partialRead ∧ filesize > 1048576 then ⟨fmt, (lr.2 :: acc).reverse, .ok, 0⟩ else
    if rest.length < filesize + bodypad then
      ⟨fmt, ({ lr.2 with body := rest.take filesize, bodySt := .fatal } :: acc).reverse, .fatal, 0⟩
    else
      cpioRead partialRead newc (rest.drop (filesize + bodypad)) fmt lr.1 ({ lr.2 with body := rest.take filesize } :: acc)
termination_by bs.length
decreasing_by
  all_goals simp only [List.length_drop]
  all_goals (have := cpioHsz_pos newc)
  all_goals omega

/-- Format auto-detection restricted to what the three writers produce; `k` = tar `read_header`
calls this reader object has already made (`tar->default_inode`; a fresh reader starts at 0: the
counter lives in the reader since the repo fix that took it out of a function-local static). -/
def readArchive (partialRead : Bool) (bs : List Nat) (k : Nat := 0) : ReadResult :=
  if bs.take 6 = [48, 55, 48, 55, 48, 55] then cpioRead partialRead false bs ARCHIVE_FORMAT_CPIO_POSIX [] []
  else if bs.take 6 = [48, 55, 48, 55, 48, 49] then cpioRead partialRead true bs ARCHIVE_FORMAT_CPIO_SVR4_NOCRC [] []
  else tarRead partialRead bs k ARCHIVE_FORMAT_TAR []

end LA.Codec
