/-
Spec-level description of every writable format (C02, C10): what the format is
documented to keep of an entry.

`representable f e`  — the entry can be stored exactly in format `f`;
`norm f e`           — what a reader is expected to return for a stored entry, field by
                       field; `none` means "the format does not carry this field"
                       (any read-back value is acceptable).

For ustar, cpio odc and cpio newc the byte-exact models of `LA.Model.Codec` are proved
to agree with this description (Props/C02, Props/C10).  For the other formats it is a
specification only; the `codec` engine checks the real writers and readers against it
(a differential against the spec, not a proof of the codec).

Core Lean only.
-/
import LA.Model.Codec
import LA.Model.Util
namespace LA.Codec
open LA.Gen.TarLayout LA.Gen.CodecConsts

inductive WFmt
  | ustar | pax | paxr | gnutar | v7tar | odc | newc | bin | pwb | arbsd | arsvr4
  | zip | sevenzip | xar | iso9660 | mtree | warc
  deriving DecidableEq, Repr

def WFmt.ofName : String → Option WFmt
  | "ustar" => some .ustar | "pax" => some .pax | "paxr" => some .paxr | "gnutar" => some .gnutar
  | "v7tar" => some .v7tar | "odc" => some .odc | "newc" => some .newc | "bin" => some .bin
  | "pwb" => some .pwb | "arbsd" => some .arbsd | "arsvr4" => some .arsvr4 | "zip" => some .zip
  | "7zip" => some .sevenzip | "xar" => some .xar | "iso9660" => some .iso9660
  | "mtree" => some .mtree | "warc" => some .warc | _ => none

def WFmt.name : WFmt → String
  | .ustar => "ustar" | .pax => "pax" | .paxr => "paxr" | .gnutar => "gnutar" | .v7tar => "v7tar"
  | .odc => "odc" | .newc => "newc" | .bin => "bin" | .pwb => "pwb" | .arbsd => "arbsd"
  | .arsvr4 => "arsvr4" | .zip => "zip" | .sevenzip => "7zip" | .xar => "xar"
  | .iso9660 => "iso9660" | .mtree => "mtree" | .warc => "warc"

/-- `archive_format()` codes a reader may report for an archive written as `f`. -/
def WFmt.codes : WFmt → List Nat
  | .ustar => [ARCHIVE_FORMAT_TAR_USTAR]
  | .pax | .paxr => [ARCHIVE_FORMAT_TAR_USTAR, ARCHIVE_FORMAT_TAR_PAX_INTERCHANGE]   -- no 'x' header needed → plain ustar
  | .gnutar => [ARCHIVE_FORMAT_TAR_GNUTAR]
  | .v7tar => [ARCHIVE_FORMAT_TAR]
  | .odc => [ARCHIVE_FORMAT_CPIO_POSIX]
  | .newc => [ARCHIVE_FORMAT_CPIO_SVR4_NOCRC]
  | .bin | .pwb => [ARCHIVE_FORMAT_CPIO_BIN_LE]
  | .arbsd => [ARCHIVE_FORMAT_AR, ARCHIVE_FORMAT_AR_BSD]
  | .arsvr4 => [ARCHIVE_FORMAT_AR, ARCHIVE_FORMAT_AR_GNU]
  | .zip => [ARCHIVE_FORMAT_ZIP]
  | .sevenzip => [ARCHIVE_FORMAT_7ZIP]
  | .xar => [ARCHIVE_FORMAT_XAR]
  | .iso9660 => [ARCHIVE_FORMAT_ISO9660, ARCHIVE_FORMAT_ISO9660_ROCKRIDGE]
  | .mtree => [ARCHIVE_FORMAT_MTREE]
  | .warc => [ARCHIVE_FORMAT_WARC]

/-- Formats that sort or group their members: read-back is compared as a set. -/
def WFmt.unordered : WFmt → Bool
  | .sevenzip | .iso9660 | .mtree | .xar => true
  | _ => false

/-- An `ARCHIVE_WARN` from `archive_write_header` still stores the entry (false for ar,
whose header writer returns WARN *instead of* writing). -/
def WFmt.warnStores : WFmt → Bool
  | .arbsd | .arsvr4 | .warc => false
  | _ => true

def isTar : WFmt → Bool
  | .ustar | .pax | .paxr | .gnutar | .v7tar => true | _ => false
def isCpio : WFmt → Bool
  | .odc | .newc | .bin | .pwb => true | _ => false
def isAr : WFmt → Bool
  | .arbsd | .arsvr4 => true | _ => false

/-- What a reader is expected to return (none = not carried by the format). -/
structure Exp where
  path : Option (List Nat) := none
  ftype : Option Nat := none
  perm : Option Nat := none
  uid : Option Int := none
  gid : Option Int := none
  size : Option Int := none
  mtime : Option Int := none
  mtimeNs : Option Nat := none
  uname : Option (List Nat) := none
  gname : Option (List Nat) := none
  sym : Option (List Nat) := none
  hard : Option (List Nat) := none
  rdev : Option (Int × Int) := none
  dev : Option Int := none
  nlink : Option Nat := none
  body : Bool := true
  deriving Repr, DecidableEq

/-! ### Pathname normalisations -/

def splitSlash (p : List Nat) : List (List Nat) :=
  let r := p.foldr (fun c (acc : List Nat × List (List Nat)) =>
    if c = slash then ([], acc.1 :: acc.2) else (c :: acc.1, acc.2)) ([], [])
  r.1 :: r.2

def joinSlash : List (List Nat) → List Nat
  | [] => []
  | [a] => a
  | a :: r => a ++ [slash] ++ joinSlash r

/-- Components without the empty and "." ones (leading "./", "//", trailing "/" removed). -/
def cleanComponents (p : List Nat) : List (List Nat) :=
  (splitSlash p).filter fun c => c ≠ [] ∧ c ≠ [46]

def basename (p : List Nat) : List Nat := (splitSlash p).getLast?.getD []

def hasDotDot (p : List Nat) : Bool := (splitSlash p).any (· = [46, 46])

/-- Documented path normalisation per format. -/
def normPath (f : WFmt) (ft : FType) (p : List Nat) : List Nat :=
  match f with
  | .ustar | .pax | .paxr | .gnutar | .v7tar | .zip | .sevenzip => dirSlash ft p
  | .arbsd | .arsvr4 => basename p
  | .mtree => [46, slash] ++ joinSlash (cleanComponents p)
  | .xar | .iso9660 => joinSlash (cleanComponents p)
  | _ => p

/-! ### Ranges -/

def inR (v lo hi : Int) : Bool := lo ≤ v ∧ v ≤ hi

def typesOf : WFmt → List FType
  | .ustar | .pax | .paxr | .gnutar => [.reg, .dir, .lnk, .chr, .blk, .fifo]
  | .v7tar => [.reg, .dir, .lnk]
  | .odc | .newc => [.reg, .dir, .lnk, .chr, .blk, .fifo, .sock]
  | .bin => [.reg, .dir, .lnk, .chr, .blk]
  | .pwb => [.reg, .dir, .chr, .blk]
  | .arbsd | .arsvr4 | .warc => [.reg]
  | .zip => [.reg, .dir, .lnk]
  | .sevenzip | .xar | .iso9660 => [.reg, .dir, .lnk, .chr, .blk, .fifo, .sock]
  | .mtree => [.reg, .dir, .lnk, .chr, .blk, .fifo]

/-- (max uid/gid, min mtime, max mtime, max size) of the numeric fields. -/
def idMax : WFmt → Int
  | .ustar | .v7tar | .odc => 262143          -- 6 octal digits
  | .gnutar => 72057594037927935              -- base-256 in 8 bytes of which the reader accepts 7 (first byte 0x80)
  | .pax | .paxr | .mtree => 9223372036854775807
  | .newc | .zip => 4294967295
  | .bin | .pwb => 65535
  | .arbsd | .arsvr4 => 999999
  | .xar => 2147483647
  | _ => 9223372036854775807                   -- not carried

def mtimeRange : WFmt → Int × Int
  | .ustar | .v7tar | .gnutar | .odc => (0, 8589934591)
  | .newc | .bin | .pwb | .zip => (0, 4294967295)
  | .arbsd | .arsvr4 => (0, 999999999999)
  | .pax | .paxr | .mtree => (-9223372036854775808, 9223372036854775807)
  | .sevenzip => (-11644473600, 910692730085)
  | .xar | .warc => (0, 253402300799)            -- textual dates, year ≤ 9999
  | .iso9660 => (0, 4294967295)

def sizeMax : WFmt → Int
  | .ustar | .v7tar | .odc => 8589934591
  | .newc => 4294967295
  | .bin => 2147483647
  | .pwb => 16777215
  | .arbsd | .arsvr4 => 9999999999
  | _ => 1152921504606846975                     -- the readers' sanity limit 2^60-1

def carriesIds : WFmt → Bool
  | .sevenzip | .warc | .iso9660 => false
  | _ => true
def carriesNames : WFmt → Bool
  | .ustar | .pax | .paxr | .gnutar | .xar | .mtree => true
  | _ => false
def carriesRdev : WFmt → Bool
  | .ustar | .pax | .paxr | .gnutar | .odc | .newc | .bin | .pwb | .mtree => true
  | _ => false
def rdevMax : WFmt → Int × Int
  | .ustar | .gnutar => (262143, 262143)
  | .newc => (4294967295, 4294967295)
  | .odc => (1023, 255)      -- makedev(major, minor) = major * 256 + minor must fit 18 bits
  | .bin | .pwb => (255, 255)
  | _ => (4294967295, 4294967295)
def carriesHard : WFmt → Bool
  | .ustar | .pax | .paxr | .gnutar | .v7tar => true
  | _ => false      -- cpio carries hard links as (dev, ino, nlink) of later entries; the others not at all
def permMask : WFmt → Option Nat
  | .warc | .iso9660 => none
  | _ => some 4095

def imp (a b : Bool) : Bool := !a || b

/-- Well-formed UTF-8 (lead byte decides the number of continuation bytes; overlong forms and
surrogates are not distinguished here). -/
def utf8Ok : List Nat → Bool
  | [] => true
  | c :: r =>
    if c < 128 then utf8Ok r
    else if 194 ≤ c ∧ c ≤ 223 then
      match r with
      | a :: r' => (128 ≤ a && a ≤ 191) && utf8Ok r'
      | _ => false
    else if 224 ≤ c ∧ c ≤ 239 then
      match r with
      | a :: b :: r' => (128 ≤ a && a ≤ 191) && (128 ≤ b && b ≤ 191) && utf8Ok r'
      | _ => false
    else if 240 ≤ c ∧ c ≤ 244 then
      match r with
      | a :: b :: d :: r' => (128 ≤ a && a ≤ 191) && (128 ≤ b && b ≤ 191) && (128 ≤ d && d ≤ 191) && utf8Ok r'
      | _ => false
    else false

/-- Formats whose writers convert names to UTF-8 / UTF-16: names must be valid in the locale charset. -/
def convertsNames : WFmt → Bool
  | .pax | .paxr | .zip | .sevenzip | .xar | .iso9660 => true
  | _ => false

/-- Format-independent sanity of an entry: pathname present and without "..", link
fields consistent with the type, a regular file's name does not end in '/'. -/
def reprShape (f : WFmt) (e : Entry) (p : List Nat) : Bool :=
  !p.isEmpty && !hasDotDot p
  && ((typesOf f).contains e.ftype || (!e.hard.isEmpty && isTar f))   -- a tar hard-link entry stores no type
  && imp (e.ftype == .lnk) (!e.sym.isEmpty) && imp (!e.sym.isEmpty) (e.ftype == .lnk)
  && imp (!e.hard.isEmpty) (carriesHard f && e.sym.isEmpty)
  && imp (e.ftype == .reg) (p.getLast? != some slash)

/-- Every carried numeric / name field inside the format's range. -/
def reprRanges (f : WFmt) (e : Entry) : Bool :=
  imp (carriesIds f) (inR e.uid 0 (idMax f) && inR e.gid 0 (idMax f))
  && inR e.mtime (mtimeRange f).1 (mtimeRange f).2
  && (match e.size with | some s => inR s 0 (sizeMax f) | none => !isCpio f)
  && imp (carriesNames f && (f == .ustar || f == .gnutar)) (decide (e.uname.length ≤ 32) && decide (e.gname.length ≤ 32))
  && imp ((e.ftype == .chr || e.ftype == .blk) && carriesRdev f)
       (inR e.rdevmajor 0 (rdevMax f).1 && inR e.rdevminor 0 (rdevMax f).2)

/-- Format-specific name and link limits. `p` is the pathname as given, `p'` after the
format's normalisation. -/
def reprNames (f : WFmt) (e : Entry) (p p' : List Nat) : Bool :=
  imp (convertsNames f) (utf8Ok p && utf8Ok e.sym && utf8Ok e.hard && utf8Ok e.uname && utf8Ok e.gname) &&
  match f with
  | .ustar => ustarSplit p' != .tooLong && decide (e.sym.length ≤ 100) && decide (e.hard.length ≤ 100)
              && (match ustarSplit p' with | .split k => (p'.take k).getLast? != some slash | _ => true)
  | .v7tar => decide (p'.length < 100) && decide (e.sym.length < 100) && decide (e.hard.length < 100)
  | .odc => decide (p.length + 1 ≤ 262143) && inR e.dev 0 262143 && inR e.nlink 0 262143
  | .newc => inR e.nlink 0 4294967295 && inR e.ino 0 4294967295
  | .bin | .pwb => inR e.dev 0 65535 && inR e.nlink 0 65535 && decide (p.length + 1 ≤ 65535)
  | .arsvr4 => decide (p'.length ≤ 15) && !p'.isEmpty
  | .arbsd => !p'.isEmpty
  | .warc => decide (p.length ≤ 500)
  | _ => true

/-- Can `e` be stored exactly in `f`?  (Pathname present, type supported, every carried
field inside the format's range, names inside the length limits.) -/
def representable (f : WFmt) (e : Entry) : Bool :=
  match e.path with
  | none => false
  | some p => reprShape f e p && reprRanges f e && reprNames f e p (normPath f e.ftype p)

/-- What the reader is expected to return for a stored `e`. -/
def norm (f : WFmt) (e : Entry) : Exp :=
  let p := normPath f e.ftype (e.path.getD [])
  let isHard := e.hard ≠ [] ∧ carriesHard f
  let dataSize : Int := if e.ftype = .reg ∧ !isHard ∧ e.sym = [] then e.sizeV else 0
  { path := some p
    ftype := if isHard ∧ isTar f then some 0 else some e.ftype.bits     -- tar does not store the type of a hard link
    perm := (permMask f).map (fun m => e.perm % 4096 % (m + 1))
    uid := if carriesIds f then some e.uid else none
    gid := if carriesIds f then some e.gid else none
    size := if isCpio f ∧ e.sym ≠ [] then some (e.sym.length : Int)    -- cpio: a symlink's body is its target
            else if f = .iso9660 ∧ e.ftype ≠ .reg then none
            else some dataSize
    mtime := some e.mtime
    mtimeNs := if f = .pax ∨ f = .mtree then some e.mtimeNs else if f = .sevenzip then some (e.mtimeNs / 100 * 100) else some 0
    uname := if carriesNames f then some e.uname else none
    gname := if carriesNames f then some e.gname else none
    sym := if e.ftype = .lnk then some e.sym else none
    hard := if carriesHard f then some e.hard else none
    rdev := if carriesRdev f ∧ (e.ftype = .chr ∨ e.ftype = .blk) ∧ ¬(isHard ∧ isTar f)    -- a tar hard-link entry has no device fields
            then some (e.rdevmajor, e.rdevminor) else none
    dev := if f = .odc ∨ f = .bin ∨ f = .pwb then some e.dev else none
    nlink := if isCpio f then some e.nlink.toNat else none
    body := e.ftype = .reg ∧ !isHard ∧ f ≠ .mtree }

/-- The entry a client gets when it feeds a read-back record to a writer unchanged. -/
def RB.toEntry (r : RB) : Entry :=
  { path := some r.path
    ftype := if r.ftype = AE_IFREG then .reg else if r.ftype = AE_IFDIR then .dir
             else if r.ftype = AE_IFLNK then .lnk else if r.ftype = AE_IFCHR then .chr
             else if r.ftype = AE_IFBLK then .blk else if r.ftype = AE_IFIFO then .fifo
             else if r.ftype = AE_IFSOCK then .sock else .none
    perm := r.perm % 4096, uid := r.uid, gid := r.gid, size := r.size, mtime := r.mtime.getD 0
    uname := r.uname, gname := r.gname, sym := r.sym, hard := r.hard
    rdevmajor := r.rdevmajor, rdevminor := r.rdevminor, dev := r.dev, ino := r.ino, nlink := r.nlink }

def chkField {α} [DecidableEq α] [ToString α] (nm : String) (o : Option α) (v : α) : Option String :=
  match o with
  | some w => if w = v then none else some s!"{nm} wrote={w} read={v}"
  | none => none

/-- Field-by-field agreement of a read-back record with an expectation; the first
disagreeing field is named. -/
def Exp.mismatch (x : Exp) (r : RB) (nsec : Nat) : Option String :=
  [ chkField "path" x.path r.path, chkField "type" x.ftype r.ftype, chkField "perm" x.perm r.perm,
    chkField "uid" x.uid r.uid, chkField "gid" x.gid r.gid,
    chkField "size" x.size (r.size.getD (-1)), chkField "mtime" x.mtime (r.mtime.getD (-1)),
    chkField "mtimens" x.mtimeNs nsec, chkField "uname" x.uname r.uname, chkField "gname" x.gname r.gname,
    chkField "sym" x.sym r.sym, chkField "hard" x.hard r.hard,
    chkField "rdevmajor" (x.rdev.map (·.1)) r.rdevmajor, chkField "rdevminor" (x.rdev.map (·.2)) r.rdevminor,
    chkField "dev" x.dev r.dev, chkField "nlink" x.nlink r.nlink ].findSome? id

/-! ### Metadata beyond the classic stat fields: further times, sparse map, ACLs, extended attributes

Kept apart from `Entry` (the byte-exact models do not look at any of it: ustar, cpio odc and cpio
newc carry none of these). -/

structure Extras where
  mtimeSet : Bool := true
  atime : Option (Int × Nat) := none
  ctime : Option (Int × Nat) := none
  btime : Option (Int × Nat) := none
  sparse : List (Nat × Nat) := []       -- data regions (offset, length)
  acl : List String := []               -- one canonical item per ACL entry, sorted
  xattr : List String := []             -- "name:value" (hex), sorted
  deriving Repr, DecidableEq, Inhabited

/-- How a format carries an optional time stamp. `optional p`: presence and value (to `p` ns) are
both stored; `valueOnly p`: a set value is stored, an unset one reads back as whatever the format's
mandatory field holds. -/
inductive TimeMode
  | no | optional (prec : Nat) | valueOnly (prec : Nat)
  deriving DecidableEq, Repr

def atimeMode : WFmt → TimeMode
  | .pax => .optional 1
  | .sevenzip => .optional 100
  | .xar => .optional 1000000000
  | .zip | .iso9660 => .valueOnly 1000000000
  | _ => .no

/-- Birth time: pax (`LIBARCHIVE.creationtime`, written only for a birth time earlier than the
modification time: a later one is taken for bogus) and the ISO 9660 Rock Ridge `TF` entry, which has
a creation stamp only when it is not later than the modification time. -/
def btimeMode (f : WFmt) (mtime : Int) (bt : Option (Int × Nat)) : TimeMode :=
  match f with
  | .pax => match bt with
    | some (s, _) => if s < mtime then .optional 1 else .no
    | none => .optional 1
  | .iso9660 => match bt with
    | some (s, _) => if s ≤ mtime then .valueOnly 1000000000 else .no
    | none => .no
  | _ => .no

/-- An entry without a modification time: formats with an optional mtime return it unset, formats
with a mandatory field store 0, zip stores the DOS epoch (not compared). -/
def unsetMtimeReads : WFmt → Option Int
  | .sevenzip | .xar => some (-1)
  | .zip | .iso9660 | .warc => none
  | _ => some 0

def carriesSparse : WFmt → Bool
  | .pax | .paxr => true | _ => false
def carriesAcl : WFmt → Bool
  | .pax | .paxr => true | _ => false
def carriesXattr : WFmt → Bool
  | .pax | .paxr | .xar => true | _ => false

/-- The optional time stamps a format carries lie inside the range of its time fields. -/
def Extras.inRange (f : WFmt) (x : Extras) : Bool :=
  let ok (t : Option (Int × Nat)) : Bool := match t with
    | none => true
    | some (s, _) => inR s (mtimeRange f).1 (mtimeRange f).2
  atimeMode f == .no || (ok x.atime && ok x.ctime && ok x.btime)

def truncTime (p : Nat) (t : Int × Nat) : Int × Nat := (t.1, t.2 / p * p)

def showTime : Option (Int × Nat) → String
  | none => "-" | some (s, n) => s!"{s}.{n}"

def chkTime (nm : String) (m : TimeMode) (w r : Option (Int × Nat)) : Option String :=
  match m with
  | .no => none
  | .optional p =>
    if w.map (truncTime p) = r then none else some s!"{nm} wrote={showTime w} read={showTime r}"
  | .valueOnly p =>
    match w with
    | none => none
    | some v => if some (truncTime p v) = r then none else some s!"{nm} wrote={showTime w} read={showTime r}"

/-- Sparse maps are compared as sets of data bytes: empty regions dropped, touching regions merged,
a single region covering the whole file is no sparse file at all. -/
def normSparse (l : List (Nat × Nat)) (size : Nat) : List (Nat × Nat) :=
  let m := (l.filter (fun r => r.2 > 0)).foldl (fun (acc : List (Nat × Nat)) r =>
    match acc with
    | (o, n) :: rest => if o + n = r.1 then (o, n + r.2) :: rest else r :: acc
    | [] => [r]) []
  let m := m.reverse
  if m = [(0, size)] then [] else m

def dedup (l : List String) : List String :=
  l.foldl (fun acc x => if acc.contains x then acc else acc ++ [x]) []

def showList (l : List String) : String := if l.isEmpty then "-" else String.intercalate "," l

/-- The textual ACL form (pax `SCHILY.acl.*`) separates fields and entries with `:` `,` white space
and `#`: a user / group name containing one of them has no representation. -/
def aclNameHasSep (items : List String) : Bool :=
  items.any fun it =>
    match (it.splitOn ":").getLast? with
    | some h => match LA.parseHex h with
      | some bs => bs.any fun b => b = 32 ∨ b = 44 ∨ b = 58 ∨ b = 35 ∨ b = 9 ∨ b = 10
      | none => false
    | none => false

/-- Agreement of the extra metadata of a read-back entry `r` with what was written (`w`) for the
fields format `f` carries. -/
def Extras.mismatch (f : WFmt) (mtime : Int) (size : Nat) (w r : Extras) : Option String :=
  [ chkTime "atime" (atimeMode f) w.atime r.atime,
    chkTime "ctime" (atimeMode f) w.ctime r.ctime,
    chkTime "btime" (btimeMode f mtime w.btime) w.btime r.btime,
    (if carriesSparse f ∧ normSparse w.sparse size ≠ normSparse r.sparse size then
       some s!"sparse wrote={w.sparse.length} regions read={r.sparse.length} regions" else none),
    (if carriesAcl f ∧ w.acl ≠ r.acl then
       (if aclNameHasSep w.acl then some "acl name with a separator character altered"
        else some s!"acl wrote={showList w.acl} read={showList r.acl}") else none),
    (if carriesXattr f ∧ w.xattr ≠ r.xattr then
       (if r.xattr.length = 2 * w.xattr.length ∧ w.xattr.all r.xattr.contains then some "xattr every attribute read back twice"
        else some s!"xattr wrote={showList w.xattr} read={showList r.xattr}") else none) ].findSome? id

/-! ### Reading the Joliet tree of an ISO 9660 image (reader option `!rockridge`, or an image written
without Rock Ridge): names are UCS-2, at most 64 units per component (103 with `joliet=long`); no
symbolic links, owners, permissions or device numbers. -/

def utf16Units (p : List Nat) : Nat :=
  (p.filter (fun c => c < 128 ∨ c ≥ 192)).length + (p.filter (fun c => c ≥ 240)).length

/-- A component Joliet stores unchanged. -/
def jolietSafe (maxUnits : Nat) (p : List Nat) : Bool :=
  (cleanComponents p).all fun c =>
    decide (utf16Units c ≤ maxUnits) && !c.any (fun b => b = 42 ∨ b = 47 ∨ b = 58 ∨ b = 59 ∨ b = 63 ∨ b = 92)
    && c.all (fun b => b < 240)       -- UCS-2: no supplementary planes promised

/-- Expectation for an entry read from the Joliet tree. -/
def Exp.joliet (x : Exp) (ft : FType) : Exp :=
  { x with ftype := if ft = .dir then x.ftype else if ft = .reg then x.ftype else none
           sym := none, nlink := none, rdev := none, uid := none, gid := none, perm := none
           size := if ft = .reg then x.size else none }

end LA.Codec
