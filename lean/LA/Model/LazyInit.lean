/-
Small-step interleaving model of the lazy-initialisation idioms of libarchive's
static tables (property C13), as the C statements are written:

* flag first — `lha_crc16_init` before the repair
      if (crc16init) return;  crc16init = 1;  for (i…) crc16tbl[i] = …;
  (and the Windows-only `if (!set) { set = 1; lib = LoadLibrary(…); }`)
* fill then flag — `unix_to_dos` (`dos_max_unix`, `dos_min_unix`, `dos_initialised`),
  the fallback `crc32()` of archive_crc32.h (`crc_tbl`, `crc_tbl_inited`)
      if (!inited) { for (b…) crc_tbl[b] = …;  inited = 1; }
* unconditional idempotent fill — the `snprintf(static_buf, …)` version strings
* sentinel + wipe — tar `base64_decode` before the repair
      if (decode_table['B'] != 1) { memset(decode_table, 0xff, …); for (i…) decode_table[digits[i]] = i; }

Idealisation (part of the trusted base, stated in tools/props/C13.py): every
load and store of one table slot or of the flag is one atomic step and memory is
sequentially consistent (no compiler or hardware reordering).  Real C gives less,
so a race found here is a race of the real program, while the safety theorems
say only that the *logic* of the idiom is right.

A thread is the list of atomic instructions of its initialisation (`init`)
followed by its table look-ups (`use`).  `checkFlag` is the `if (flag) return;`
test: when the flag is set the rest of `init` is skipped.  A schedule is a list
of thread indices; an index outside the pool or a finished thread is a no-op,
so *every* list is a schedule and theorems quantify over all of them.
-/
namespace LA.LazyInit

inductive Instr
  | checkFlag
  | setFlag
  | store (i v : Nat)
  | read (j : Nat)
  deriving DecidableEq, Repr

/-- The shared static storage: the `done` flag and the table. -/
structure Mem where
  flag : Bool
  tbl : List Nat
  deriving DecidableEq, Repr

structure Thread where
  init : List Instr
  use : List Instr
  /-- the thread skipped its initialisation because it saw the flag set -/
  sawFlag : Bool := false
  /-- what its look-ups returned: (slot, value); `none` = outside the table -/
  obs : List (Nat × Option Nat) := []
  deriving DecidableEq, Repr

def Mem.apply (m : Mem) : Instr → Mem
  | .setFlag => { m with flag := true }
  | .store i v => { m with tbl := m.tbl.set i v }
  | _ => m

def observe (m : Mem) : Instr → List (Nat × Option Nat)
  | .read j => [(j, m.tbl[j]?)]
  | _ => []

/-- One atomic step of one thread. -/
def stepThread (m : Mem) (t : Thread) : Mem × Thread :=
  match t.init with
  | i :: rest =>
    if i = .checkFlag ∧ m.flag = true then (m, { t with init := [], sawFlag := true })
    else (m.apply i, { t with init := rest, obs := t.obs ++ observe m i })
  | [] =>
    match t.use with
    | i :: rest => (m.apply i, { t with use := rest, obs := t.obs ++ observe m i })
    | [] => (m, t)

structure Sys where
  mem : Mem
  thr : List Thread
  deriving Repr

def Sys.step (s : Sys) (k : Nat) : Sys :=
  match s.thr[k]? with
  | none => s
  | some t => { mem := (stepThread s.mem t).1, thr := s.thr.set k (stepThread s.mem t).2 }

def Sys.run (s : Sys) : List Nat → Sys
  | [] => s
  | k :: ks => (s.step k).run ks

/-- The table every thread is meant to see: slot `i` holds `f i`. -/
def final (f : Nat → Nat) (n : Nat) : List Nat := (List.range n).map f

/-- `for (i = 0; i < n; i++) tbl[i] = f(i);` -/
def fill (f : Nat → Nat) (n : Nat) : List Instr := (List.range n).map (fun i => .store i (f i))

def reads (js : List Nat) : List Instr := js.map .read

/-- `if (init) return; init = 1; fill` — lha flavour. -/
def flagFirst (f : Nat → Nat) (n : Nat) (js : List Nat) : Thread :=
  { init := .checkFlag :: .setFlag :: fill f n, use := reads js }

/-- `if (!init) { fill; init = 1; }` -/
def fillThenFlag (f : Nat → Nat) (n : Nat) (js : List Nat) : Thread :=
  { init := .checkFlag :: (fill f n ++ [.setFlag]), use := reads js }

/-- fill unconditionally on every call, always the same values. -/
def idempotentFill (f : Nat → Nat) (n : Nat) (js : List Nat) : Thread :=
  { init := fill f n, use := reads js }

/-- Fresh `.bss`: flag clear, table zero. -/
def bss (n : Nat) : Mem := { flag := false, tbl := List.replicate n 0 }

def start (n : Nat) (ts : List Thread) : Sys := { mem := bss n, thr := ts }

/-- Thread `k` has nothing left to run. -/
def Sys.finished (s : Sys) (k : Nat) : Bool :=
  match s.thr[k]? with
  | some t => t.init.isEmpty && t.use.isEmpty
  | none => true

/-! ### the sentinel-and-wipe idiom (tar `base64_decode` before the repair)

The sentinel test reads a table slot instead of a flag, and the fill starts by
overwriting the whole table.  It needs two more instructions; it is kept as a
separate tiny machine so that the safety proof above stays small. -/

inductive WInstr
  | checkSlot (s v : Nat)   -- if (tbl[s] == v) skip the rest of the initialisation
  | store (i v : Nat)
  | read (j : Nat)
  deriving DecidableEq, Repr

structure WThread where
  init : List WInstr
  use : List WInstr
  obs : List (Nat × Option Nat) := []
  deriving DecidableEq, Repr

def wstep (tbl : List Nat) (t : WThread) : List Nat × WThread :=
  let exec (i : WInstr) (t' : WThread) : List Nat × WThread :=
    match i with
    | .store k v => (tbl.set k v, t')
    | .read j => (tbl, { t' with obs := t'.obs ++ [(j, tbl[j]?)] })
    | .checkSlot _ _ => (tbl, t')
  match t.init with
  | .checkSlot s v :: rest => if tbl[s]? = some v then (tbl, { t with init := [] }) else (tbl, { t with init := rest })
  | i :: rest => exec i { t with init := rest }
  | [] => match t.use with
    | i :: rest => exec i { t with use := rest }
    | [] => (tbl, t)

def wrun : List Nat × List WThread → List Nat → List Nat × List WThread
  | s, [] => s
  | (tbl, ts), k :: ks =>
    match ts[k]? with
    | none => wrun (tbl, ts) ks
    | some t => wrun ((wstep tbl t).1, ts.set k (wstep tbl t).2) ks

/-- `if (tbl[s] != f s) { memset(tbl, w, n); for (i…) tbl[i] = f i; }` then look-ups. -/
def sentinelWipe (f : Nat → Nat) (n s w : Nat) (js : List Nat) : WThread :=
  { init := .checkSlot s (f s) :: ((List.range n).map (fun i => .store i w) ++ (List.range n).map (fun i => .store i (f i))),
    use := js.map .read }

end LA.LazyInit
