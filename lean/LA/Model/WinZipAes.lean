/-
Layout logic of WinZip-AES entries as written by archive_write_set_format_zip.c
(`init_winzip_aes_encryption`, the encrypt/HMAC steps of `archive_write_zip_data`,
the authentication code in `archive_write_zip_finish_entry`, the size set-up in
`archive_write_zip_header`) and as read by archive_read_support_format_zip.c
(`init_WinZip_AES_decryption`, the decrypt/HMAC steps of `zip_read_data_none`,
`check_authentication_code`), and of the traditional-PKWARE entry on the read side
(`init_traditional_PKWARE_decryption`).

    salt (8 | 16) ‖ password verification value (2) ‖ AES-CTR(payload) ‖ HMAC-SHA1[0..10)

PBKDF2-HMAC-SHA1, HMAC-SHA1 and the AES block function are parameters (`Prims`).
Incremental HMAC (`archive_hmac_sha1_update` over chunks) is taken to equal HMAC of
the concatenation.  All constants come from `Gen.Crypt` (extracted).

Reader model: the case where the reader knows the size of the entry data
(`entry_bytes_remaining`: seekable reader, or sizes present in the local header).
The search for the data descriptor of a stored length-at-end entry in streaming mode
and the interplay with inflate are not modelled (the `zipenc` engine drives them).
-/
import LA.Model.Ctr
import LA.Model.ZipCrypt
import LA.Model.Passphrase
namespace LA.WinZipAes
open LA.Passphrase (P St)

structure Prims where
  /-- PKCS5_PBKDF2_HMAC_SHA1(pw, salt, rounds, dkLen) -/
  kdf : P → List UInt8 → Nat → Nat → List UInt8
  /-- HMAC-SHA1(key, message), 20 bytes -/
  hmac : List UInt8 → List UInt8 → List UInt8
  /-- AES block encryption under a key -/
  aes : List UInt8 → LA.Ctr.Block → LA.Ctr.Block

inductive Enc | aes128 | aes256
  deriving DecidableEq, Repr

open LA.Gen.Crypt

def Enc.saltLen : Enc → Nat | .aes128 => saltLen128W | .aes256 => saltLen256W
def Enc.keyLen : Enc → Nat | .aes128 => keyLen128W | .aes256 => keyLen256W
/-- the strength byte of the 0x9901 extra field -/
def Enc.strengthByte : Enc → Nat | .aes128 => strengthByte128W | .aes256 => strengthByte256W
/-- `WINZIP_AES128_HEADER_SIZE` / `WINZIP_AES256_HEADER_SIZE` -/
def Enc.headerSize : Enc → Nat | .aes128 => winzipAes128HeaderSizeW | .aes256 => winzipAes256HeaderSizeW

def authCodeSize : Nat := LA.Gen.Crypt.authCodeSizeW

/-- `archive_write_zip_header`, size known and compression = store:
`entry_compressed_size = size + additional_size`. -/
def declaredCompressedSize (enc : Enc) (size : Nat) : Nat := size + (enc.headerSize + authCodeSize)

/-- What the writer puts out for one entry, and its own byte count. -/
structure Written where
  bytes : List UInt8
  compressedWritten : Nat     -- `zip->entry_compressed_written`

inductive WStatus | ok | oob
  deriving DecidableEq, Repr

/-- `init_winzip_aes_encryption` + data + `archive_write_zip_finish_entry`.
`payload` is what goes through the cipher (the stored or deflated bytes), cut into
the chunks in which it reaches `archive_encrypto_aes_ctr_update`. -/
def writeEntry (pr : Prims) (enc : Enc) (pw : P) (salt : List UInt8) (payload : List (List UInt8)) :
    Option Written :=
  let keyLen := enc.keyLen
  let dk := pr.kdf pw salt LA.Gen.Crypt.kdfRoundsW (keyLen * 2 + 2)
  -- password verification value after the salt
  match dk[keyLen * 2]?, dk[keyLen * 2 + 1]? with
  | some v0, some v1 =>
    let head := salt.take enc.saltLen ++ [v0, v1]
    match LA.Ctr.run (pr.aes (dk.take keyLen)) LA.Ctr.init payload with
    | none => none
    | some (_, ct) =>
      let mac := (pr.hmac ((dk.drop keyLen).take keyLen) ct.flatten).take authCodeSize
      some { bytes := head ++ ct.flatten ++ mac,
             compressedWritten := head.length + ct.flatten.length + authCodeSize }
  | _, _ => none

inductive RStatus | ok | warn | failed | fatal
  deriving DecidableEq, Repr

/-- Outcome of reading one entry's data to its end: the final status, the bytes handed
to the caller with ARCHIVE_OK before that, the passphrase state, and how many
input bytes were consumed. -/
structure ReadResult where
  status : RStatus
  data : List UInt8
  st : St
  consumed : Nat

/-- reader: `switch (zip->entry->aes_extra.strength)` -/
def strengthR (b : Nat) : Option (Nat × Nat) :=
  match LA.Gen.Crypt.strengthTableR.find? (·.1 == b) with
  | some (_, s, k) => some (s, k)
  | none => none

/-- "Check password verification value": two bytes, both compared. -/
def pwvMatches (pr : Prims) (salt : List UInt8) (keyLen : Nat) (pv : List UInt8) (pw : P) : Bool :=
  let dk := pr.kdf pw salt LA.Gen.Crypt.kdfRoundsR (keyLen * 2 + 2)
  match dk[keyLen * 2]?, dk[keyLen * 2 + 1]?, pv[0]?, pv[1]? with
  | some d0, some d1, some p0, some p1 => d0 == p0 && d1 == p1
  | _, _, _, _ => false

/-- `init_WinZip_AES_decryption`, `zip_read_data_none` (size known) and
`check_authentication_code` for one entry whose data area is `bytes`
(`compressedSize` = `zip_entry->compressed_size`). -/
def readEntry (pr : Prims) (strength : Nat) (compressedSize : Nat) (bytes : List UInt8) (st : St) :
    ReadResult :=
  match strengthR strength with
  | none => { status := .fatal, data := [], st, consumed := 0 }                 -- corrupted
  | some (saltLen, keyLen) =>
    if bytes.length < saltLen + 2 then { status := .fatal, data := [], st, consumed := 0 }  -- truncated
    else
      let salt := bytes.take saltLen
      let pv := (bytes.drop saltLen).take 2
      match LA.Passphrase.retryLoop LA.Gen.Crypt.retryCapAes (pwvMatches pr salt keyLen pv) st 0 with
      | .broken => { status := .fatal, data := [], st, consumed := 0 }
      | .failed st' _ _ => { status := .failed, data := [], st := st', consumed := 0 }
      | .found st' pw _ =>
        let dk := pr.kdf pw salt LA.Gen.Crypt.kdfRoundsR (keyLen * 2 + 2)
        -- `entry_bytes_remaining -= salt_len + 2 + AUTH_CODE_SIZE; if (< 0) corrupted`
        if compressedSize < saltLen + 2 + LA.Gen.Crypt.authCodeSizeR then
          { status := .fatal, data := [], st := st', consumed := saltLen + 2 }
        else
          let remaining := compressedSize - (saltLen + 2 + LA.Gen.Crypt.authCodeSizeR)
          let body := bytes.drop (saltLen + 2)
          if body.length < remaining + LA.Gen.Crypt.authCodeSizeR then
            { status := .fatal, data := [], st := st', consumed := saltLen + 2 }     -- truncated
          else
            let ct := body.take remaining
            match LA.Ctr.run (pr.aes (dk.take keyLen)) LA.Ctr.init [ct] with
            | none => { status := .fatal, data := [], st := st', consumed := saltLen + 2 }
            | some (_, plain) =>
              -- check_authentication_code: memcmp(hmac, p, AUTH_CODE_SIZE)
              let mac := (pr.hmac ((dk.drop keyLen).take keyLen) ct).take LA.Gen.Crypt.authCodeSizeR
              let stored := (body.drop remaining).take LA.Gen.Crypt.authCodeSizeR
              { status := if mac == stored then .ok else .warn,
                data := plain.flatten, st := st',
                consumed := saltLen + 2 + remaining + LA.Gen.Crypt.authCodeSizeR }

/-- `init_traditional_PKWARE_decryption` + stored data of known size: the 12-byte
header goes through the retry loop with `ZipCrypt.accepts`, the rest is decrypted.
(The CRC-32 check that follows at the end of the entry is outside this function.) -/
def readTraditional (zcrc : UInt32 → UInt8 → UInt32) (decdat : UInt8) (compressedSize : Nat)
    (bytes : List UInt8) (st : St) : ReadResult :=
  if compressedSize < LA.ZipCrypt.headerSize ∨ bytes.length < compressedSize then
    { status := .fatal, data := [], st, consumed := 0 }
  else
    let hdr := bytes.take 12
    match LA.Passphrase.retryLoop LA.Gen.Crypt.retryCapTrad (fun pw => LA.ZipCrypt.accepts zcrc pw hdr decdat) st 0 with
    | .broken => { status := .fatal, data := [], st, consumed := 0 }
    | .failed st' _ _ => { status := .failed, data := [], st := st', consumed := 0 }
    | .found st' pw _ =>
      match LA.ZipCrypt.initR zcrc pw hdr 12 with
      | .ok k _ =>
        let ct := (bytes.drop 12).take (compressedSize - 12)
        { status := .ok, data := (LA.ZipCrypt.decLoop zcrc k ct).2, st := st', consumed := compressedSize }
      | _ => { status := .fatal, data := [], st := st', consumed := 0 }

end LA.WinZipAes
