/-
Model of `archive_read_support_filter_uu.c` (the one read filter behind both the
uuencode and the b64encode write filters): `get_line`, `bid_get_line`,
`uudecode_bidder_bid`, `uudecode_filter_read` with its states ST_FIND_HEAD /
ST_READ_UU / ST_UUEND / ST_READ_BASE64 / ST_IGNORE and the partial line carried
in `in_buff` between calls.  The four lookup tables and the size limits are
extracted from the C (`LA.Gen.UuTables`).

The upstream filter is seen only through `__archive_read_filter_ahead` and
`__archive_read_filter_consume`.  `uudecode_filter_read` asks for 1 byte and
then uses *all* `avail_in` bytes it is given, so its behaviour could depend on
the window sizes; they are therefore an explicit input of the model (one window
per call), and the theorems quantify over all of them.
`LA.C05.window_is_stream_prefix` is what licenses this: every window is a
prefix of the unconsumed stream at least as long as requested.
-/
import LA.Gen.UuTables
namespace LA.UuRead
open LA.Gen.UuTables

/-! The four lookup tables of the C are extracted into `LA.Gen.UuTables`.  The
model uses closed forms of them (constant time, and arithmetic the proofs can
work with); `cls_table`, `uuchar_table`, `b64ok_table`, `b64num_table` below
prove that the extracted tables are exactly the closed forms tabulated, so a
change of a table in the C breaks the build of this file. -/

/-- `ascii[c]`: 0 = control / non-ASCII, 10 / 13 = the two line terminators, 1 = printable. -/
def cls (c : Nat) : Nat :=
  if c = 10 then 10 else if c = 13 then 13 else if 32 ≤ c ∧ c ≤ 126 then 1 else 0
/-- `uuchar[c]` -/
def uuchar (c : Nat) : Bool := 32 ≤ c && c ≤ 96
/-- `base64[c]` (the 256-entry membership table of the read filter; note that it includes `'='`) -/
def b64ok (c : Nat) : Bool :=
  (65 ≤ c && c ≤ 90) || (97 ≤ c && c ≤ 122) || (48 ≤ c && c ≤ 57) || c == 43 || c == 47 || c == 61
/-- `base64num[c]`: a 128-entry table indexed by an `unsigned char` (`none`: outside the table). -/
def b64num (c : Nat) : Option Nat :=
  if 128 ≤ c then none
  else if 65 ≤ c ∧ c ≤ 90 then some (c - 65)
  else if 97 ≤ c ∧ c ≤ 122 then some (c - 71)
  else if 48 ≤ c ∧ c ≤ 57 then some (c + 4)
  else if c = 43 then some 62 else if c = 47 then some 63 else some 0

set_option maxRecDepth 4000 in
theorem cls_table : asciiTab = (List.range 256).map cls := by decide
set_option maxRecDepth 4000 in
theorem uuchar_table : uucharTab = (List.range 256).map (fun c => if uuchar c then 1 else 0) := by decide
set_option maxRecDepth 4000 in
theorem b64ok_table : base64Tab = (List.range 256).map (fun c => if b64ok c then 1 else 0) := by decide
set_option maxRecDepth 4000 in
theorem b64num_table : base64numTab.map some = (List.range 128).map b64num ∧ b64num 128 = none := by decide

/-- `UUDECODE(c)` = `((c) - 0x20) & 0x3f`; `(c - 32) mod 64 = (c + 32) mod 64`. -/
def udec (c : Nat) : Nat := (c + 32) % 64

/-- `get_line(b, avail, &nlsize)` (`b` is the memory from the pointer on, of which
`avail` bytes may be looked at): length of the first line including its
terminator (`none` = -1: a character of class 0), and the terminator's size
(0 = `avail` bytes were scanned without finding one; the length is then `avail`). -/
def getLine : Nat → List Nat → Option Nat × Nat
  | 0, _ => (some 0, 0)
  | _ + 1, [] => (some 0, 0)           -- not reached: `avail` never exceeds the buffer
  | a + 1, c :: rest =>
    match cls c with
    | 0 => (none, 0)
    | 13 =>
      if a > 0 ∧ rest.head? = some 10 then (some 2, 2)     -- `avail-len > 1 && b[1] == '\n'`
      else (some 1, 1)                                      -- FALL THROUGH
    | 10 => (some 1, 1)
    | _ =>
      match getLine a rest with
      | (some n, nl) => (some (n + 1), nl)
      | (none, nl) => (none, nl)

/-! ### `uudecode_filter_read` -/

inductive Phase | findHead | readUU | uuEnd | readB64 | ignore
  deriving DecidableEq, Repr

/-- What `uudecode_read_header` later reports (`mode_set`/`mode`, `name`). -/
structure Meta where
  mode : Option Nat := none
  name : Option (List Nat) := none
  deriving DecidableEq, Repr

structure RState where
  phase : Phase := .findHead
  carry : List Nat := []          -- `in_buff[0 .. in_cnt)`
  total : Nat := 0                -- `uudecode->total`
  md : Meta := {}
  deriving Repr

/-- Result of decoding the body of one line. -/
inductive DecR
  | ok (out : List Nat)
  | bad                            -- "Insufficient compressed data"
  | oob                            -- a read beyond the line and its terminator (see `uuGroups_ne_oob`)
  deriving DecidableEq, Repr

def DecR.cons (o : List Nat) : DecR → DecR
  | .ok out => .ok (o ++ out)
  | r => r

def isOct (c : Nat) : Bool := 48 ≤ c && c ≤ 55

/-- The `ST_FIND_HEAD` case for a complete line `b` (`len = b.length`, terminator size `nl`). -/
def headLine (b : List Nat) (nl : Nat) (md : Meta) : Phase × Meta :=
  let len := b.length
  let l := if len - nl ≥ 11 ∧ b.take 6 = uuBegin then 6
           else if len - nl ≥ 18 ∧ b.take 13 = b64Begin then 13 else 0
  match b[l]?, b[l+1]?, b[l+2]?, b[l+3]? with
  | some d0, some d1, some d2, some sp =>
    if l ≠ 0 ∧ isOct d0 ∧ isOct d1 ∧ isOct d2 ∧ sp = 32 then
      let mode := (d0 - 48) * 64 + (d1 - 48) * 8 + (d2 - 48)
      let namelen := len - nl - 4 - l
      (if l = 6 then .readUU else .readB64,
       { mode := some mode, name := if namelen > 1 then some ((b.drop (l + 4)).take namelen) else md.name })
    else (.findHead, md)
  | _, _, _, _ => (.findHead, md)

/-- The `while (l > 0)` loop of `ST_READ_UU`.  `cs` starts at `b` and runs to the
end of the line including its terminator.  `n = UUDECODE(..) << 18 | … << 12 | … << 6 | …`
is written with `+` (the fields do not overlap); `*out++ = n >> 16`,
`(n >> 8) & 0xFF`, `n & 0xFF`. -/
def uuGroups (l : Nat) (cs : List Nat) : DecR :=
  if l = 0 then .ok []
  else
    match cs with
    | [] => .oob
    | c0 :: r0 =>
      if !uuchar c0 then .bad
      else match r0 with
      | [] => .oob
      | c1 :: r1 =>
        if !uuchar c1 then .bad
        else
          let n := udec c0 * 262144 + udec c1 * 4096
          let o1 := n / 65536
          if l - 1 = 0 then .ok [o1]
          else match r1 with
          | [] => .oob
          | c2 :: r2 =>
            if !uuchar c2 then .bad
            else
              let n := n + udec c2 * 64
              let o2 := n / 256 % 256
              if l - 2 = 0 then .ok [o1, o2]
              else match r2 with
              | [] => .oob
              | c3 :: r3 =>
                if !uuchar c3 then .bad
                else
                  let n := n + udec c3
                  DecR.cons [o1, o2, n % 256] (uuGroups (l - 3) r3)
termination_by cs.length

inductive LineR
  | data (out : List Nat)          -- line consumed, bytes appended to `out_buff`
  | toPhase (ph : Phase)           -- line consumed, state changes, no output
  | bad
  | oob
  deriving DecidableEq, Repr

/-- The `ST_READ_UU` case for a complete line `b`. -/
def uuLine (b : List Nat) (nl : Nat) : LineR :=
  let body := b.length - nl
  match b with
  | [] => .bad
  | c :: cs =>
    if !uuchar c || body = 0 then .bad
    else
      let l := udec c
      if l > body - 1 then .bad
      else if l = 0 then .toPhase .uuEnd
      else match uuGroups l cs with
        | .ok o => .data o
        | .bad => .bad
        | .oob => .oob

/-- The `while (l > 0)` loop of `ST_READ_BASE64`; `l` is a signed `ssize_t` (it is
decremented by two at a time).  Returns the output and the final `(l, *b)`. -/
def b64Groups (l : Int) (cs : List Nat) : Option (List Nat × Int × Option Nat) :=
  if l ≤ 0 then some ([], l, cs.head?)
  else
    match cs with
    | [] => none
    | c0 :: r0 =>
      if !b64ok c0 then some ([], l, some c0)
      else match r0 with
      | [] => none
      | c1 :: r1 =>
        if !b64ok c1 then some ([], l, some c0)
        else match b64num c0, b64num c1 with
        | some v0, some v1 =>
          let n := v0 * 262144 + v1 * 4096
          let o1 := n / 65536
          let l := l - 2
          if l ≤ 0 then some ([o1], l, r1.head?)
          else match r1 with
          | [] => none
          | c2 :: r2 =>
            if c2 = 61 ∨ !b64ok c2 then some ([o1], l, some c2)
            else match b64num c2 with
            | none => none
            | some v2 =>
              let n := n + v2 * 64
              let o2 := n / 256 % 256
              let l := l - 1
              if l ≤ 0 then some ([o1, o2], l, r2.head?)
              else match r2 with
              | [] => none
              | c3 :: r3 =>
                if c3 = 61 ∨ !b64ok c3 then some ([o1, o2], l, some c3)
                else match b64num c3 with
                | none => none
                | some v3 =>
                  let n := n + v3
                  match b64Groups (l - 1) r3 with
                  | some (o, l', c') => some ([o1, o2, n % 256] ++ o, l', c')
                  | none => none
        | _, _ => none
termination_by cs.length

/-- The `ST_READ_BASE64` case for a complete line `b`. -/
def b64Line (b : List Nat) (nl : Nat) : LineR :=
  let l := b.length - nl
  if l ≥ 3 ∧ b.take 3 = [61, 61, 61] then .toPhase .findHead
  else match b64Groups l b with
    | none => .oob
    | some (o, l', c') =>
      match c' with
      | none => if l' ≠ 0 then .oob else .data o
      | some c => if l' ≠ 0 ∧ c ≠ 61 then .bad else .data o

/-- Outcome of the `for (;used < avail_in; d += llen, used += llen)` loop. -/
inductive LoopR
  | fatal
  | oob
  | more (carry : List Nat) (ph : Phase) (md : Meta)      -- saved a partial line, `goto read_more`
  | fin (used : Nat) (carry : List Nat) (ph : Phase) (out : List Nat) (md : Meta)   -- reached `finish:`
  deriving DecidableEq, Repr

def LoopR.cons (o : List Nat) : LoopR → LoopR
  | .fin used carry ph out md => .fin used carry ph (o ++ out) md
  | r => r

theorem getLine_pos (a c : Nat) (rest : List Nat) (n nl : Nat)
    (h : getLine (a + 1) (c :: rest) = (some n, nl)) : 0 < n := by
  unfold getLine at h
  split at h
  · simp at h
  · split at h <;> simp at h <;> omega
  · simp at h; omega
  · split at h <;> simp at h; omega

/-- What the `switch (uudecode->state)` does with one complete line. -/
inductive StepR
  | next (ph : Phase) (o : List Nat) (md : Meta)   -- line consumed: new state, bytes appended to `out_buff`
  | full                                           -- `goto finish`: no room left in `out_buff`, line not consumed
  | fatal
  | oob
  deriving DecidableEq, Repr

/-- The `switch (uudecode->state)` for the complete line `b` (`len` bytes, of which
`nl` are the terminator); `total` bytes have been produced in this call so far. -/
def lineStep (ph : Phase) (total len : Nat) (b : List Nat) (nl : Nat) (md : Meta) : StepR :=
  match ph with
  | .readUU =>
    if total + len * 2 > outBuffSize then .full
    else match uuLine b nl with
      | .data o => .next .readUU o md
      | .toPhase p => .next p [] md
      | .bad => .fatal
      | .oob => .oob
  | .uuEnd =>
    if len - nl = 3 ∧ b.take 3 = [101, 110, 100] then .next .findHead [] md
    else .fatal
  | .readB64 =>
    if total + len * 2 > outBuffSize then .full
    else match b64Line b nl with
      | .data o => .next .readB64 o md
      | .toPhase p => .next p [] md
      | .bad => .fatal
      | .oob => .oob
  | _ =>
    -- `default: case ST_FIND_HEAD:`
    if total + len ≥ bidMaxRead then .fatal
    else
      let r := headLine b nl md
      .next r.1 [] r.2

/-- The line loop.  `ravail` is the size of the upstream window of this call,
`tot0` is `uudecode->total` at entry, `total` the bytes produced so far in this
call (`out` is assembled on the way back), `rest` is the memory from `d` on and
`avail = avail_in - used` the part of it that holds data. -/
def lineLoop (ravail tot0 : Nat) (avail : Nat) (rest : List Nat) (used total : Nat) (ph : Phase) (md : Meta) : LoopR :=
  match hr : avail, rest with
  | 0, _ => .fin used [] ph [] md
  | _ + 1, [] => .fin used [] ph [] md          -- not reached (`avail ≤ rest.length`)
  | a + 1, c :: tl =>
    match hg : getLine (a + 1) (c :: tl) with
    | (none, _) =>
      -- "Non-ascii character is found."
      if ph = .findHead ∧ (tot0 > 0 ∨ total > 0) then .fin (used + avail) [] .ignore [] md
      else .fatal
    | (some len, nl) =>
      if nl = 0 ∧ (ph ≠ .uuEnd ∨ ravail > 0) then
        if total = 0 ∧ ravail = 0 then .fatal                    -- "Missing format data"
        else if total = 0 then .more (rest.take len) ph md       -- consume(ravail); goto read_more
        else .fin (used + len) (rest.take len) ph [] md          -- `used += len; break;`
      else
        match lineStep ph total len (rest.take len) nl md with
        | .next ph' o md' =>
          LoopR.cons o (lineLoop ravail tot0 (avail - len) (rest.drop len) (used + len) (total + o.length) ph' md')
        | .full => .fin used [] ph [] md
        | .fatal => .fatal
        | .oob => .oob
termination_by avail
decreasing_by
  have hp := getLine_pos a c tl len nl hg
  omega

inductive CallR
  | fatal
  | oob
  | more (st : RState)                                   -- whole window consumed, no return yet
  | ret (out : List Nat) (used : Int) (st : RState)      -- `consume(upstream, used); return total;`
  deriving Repr

/-- One pass of `uudecode_filter_read` from `read_more:` on, for the window `w`
handed out by `__archive_read_filter_ahead(self->upstream, 1, &avail_in)`
(`w = []`: end of the upstream data). -/
def filterRead (st : RState) (w : List Nat) : CallR :=
  let ravail := w.length
  if st.phase = .ignore then .ret [] ravail st
  else if st.carry ≠ [] ∧ st.carry.length > maxLineLength then .fatal     -- "Invalid format data"
  else
    let buf := st.carry ++ w
    match lineLoop ravail st.total buf.length buf 0 0 st.phase st.md with
    | .fatal => .fatal
    | .oob => .oob
    | .more carry ph md => .more { phase := ph, carry := carry, total := st.total, md := md }
    | .fin used carry ph out md =>
      -- `finish:` the input ended inside the encoded body ("Truncated uuencoded data: missing end marker")
      if out = [] ∧ ravail = 0 ∧ (ph = .readUU ∨ ph = .readB64) then .fatal
      else
      -- `if (ravail < avail_in) used -= avail_in - ravail;`
      .ret out ((used : Int) - ((buf.length : Int) - ravail))
        { phase := ph, carry := carry, total := st.total + out.length, md := md }

/-- What a consumer of the uu filter gets in the end. -/
inductive Final
  | eof (data : List Nat)        -- the filter returned 0: end of data
  | fatal (data : List Nat)      -- ARCHIVE_FATAL after `data`
  | oob
  | stall (data : List Nat)      -- output without consuming (never happens, see `decode_ne_stall`)
  deriving DecidableEq, Repr

def Final.cons (o : List Nat) : Final → Final
  | .eof d => .eof (o ++ d)
  | .fatal d => .fatal (o ++ d)
  | .oob => .oob
  | .stall d => .stall (o ++ d)

/-- Window for the next call: the script entry `n` asks for `n + 1` bytes (at
most what is left); an exhausted script hands out everything that is left. -/
def window (orc : List Nat) (rem : List Nat) : List Nat :=
  match orc with
  | [] => rem
  | n :: _ => rem.take (n + 1)

theorem window_length_le (orc rem : List Nat) : (window orc rem).length ≤ rem.length := by
  unfold window; split
  · exact Nat.le_refl _
  · simp [List.length_take]; exact Nat.min_le_right _ _

/-- The consumer's loop: call `uudecode_filter_read` until it returns 0 or fails;
`rem` is the upstream data not yet consumed, `orc` scripts the window sizes. -/
def decodeLoop (orc : List Nat) (st : RState) (rem : List Nat) : Final :=
  let w := window orc rem
  match filterRead st w with
  | .fatal => .fatal []
  | .oob => .oob
  | .more st' =>
    if h : w.length = 0 then .fatal []      -- not reachable: `more` needs `ravail > 0`
    else decodeLoop orc.tail st' (rem.drop w.length)
  | .ret out used st' =>
    if out = [] then .eof []
    else if h : used ≤ 0 ∨ rem = [] then .stall out
    else Final.cons out (decodeLoop orc.tail st' (rem.drop used.toNat))
termination_by rem.length
decreasing_by
  · have h1 : w.length ≤ rem.length := window_length_le orc rem
    have h2 : (window orc rem).length = w.length := rfl
    simp only [List.length_drop]
    omega
  · have h2 : rem.length ≠ 0 := by
      intro h0; exact h (Or.inr (List.eq_nil_of_length_eq_zero h0))
    have h3 : ¬ used ≤ 0 := fun hh => h (Or.inl hh)
    simp only [List.length_drop]
    omega

/-- Decode a whole stream: `first` is the size of the first window (what the
bidder left buffered), `orc` scripts the later ones. -/
def decode (first : Nat) (orc : List Nat) (stream : List Nat) : Final :=
  decodeLoop (first :: orc) {} stream

/-! ### the bidder -/

/-- Answer of `__archive_read_filter_ahead(filter, min, &avail)` as the bidder
uses it: it never consumes, so only the number of bytes now visible from the
start of the stream matters. -/
inductive Ans
  | window (v : Nat)       -- pointer returned, `*avail = v`
  | short (avail : Nat)    -- NULL, `*avail` = what is there (less than asked)
  | fatal                  -- NULL, `*avail < 0`
  deriving DecidableEq, Repr

/-- The bidder's cursor.  `b` is the stream from the pointer `b` on (all of it:
what may be looked at is its first `ravail - off` bytes, `*avail` in the C). -/
structure BidSt (σ : Type) where
  up : σ               -- upstream filter
  b : List Nat
  off : Nat            -- `b` as an offset from the start of the stream (`*ravail - *avail`)
  ravail : Nat         -- `*ravail`
  nread : Nat          -- `*nbytes_read`

def BidSt.avail {σ : Type} (st : BidSt σ) : Nat := st.ravail - st.off

/-- `b[i]` for a read that must stay inside the `avail` visible bytes. -/
def rd (b : List Nat) (avail i : Nat) : Option Nat := if i < avail then b[i]? else none

inductive GL (σ : Type)
  | line (len : Option Nat) (nl : Nat) (bnull : Bool) (st : BidSt σ)   -- `bnull`: `*b` was left NULL
  | stuck                                                               -- upstream broke its contract

/-- `(*ravail+1023) & ~1023U`, doubled when that is not at least 160 bytes more. -/
def nbytesReq (ravail : Nat) : Nat :=
  let r := (ravail + 1023) / 1024 * 1024
  if r < ravail + 160 then r * 2 else r

/-- The `while` loop of `bid_get_line` (as repaired: it also looks further when a
complete line ends together with the available bytes).  `slen` is the length of
the whole stream (bounds what a well-behaved upstream can answer). -/
def bidLoop {σ : Type} (slen : Nat) (ahead : σ → Nat → Ans × σ)
    (st : BidSt σ) (len : Option Nat) (nl : Nat) : GL σ :=
  if len = some st.avail ∧ st.nread < bidMaxRead then
    match ahead st.up (nbytesReq st.ravail) with
    | (.window v, up') =>
      if h : st.ravail < v ∧ v ≤ slen then
        let st' : BidSt σ := { st with up := up', ravail := v, nread := v }
        if nl ≠ 0 then .line len nl false st'                 -- "The line was complete already."
        else
          let tested := len.getD 0
          let r := getLine (st'.avail - tested) (st.b.drop tested)
          bidLoop slen ahead st' (r.1.map (· + tested)) r.2
      else .stuck
    | (.fatal, up') => .line (some 0) 0 true { st with up := up' }
    | (.short a, up') =>
      if nl = 0 ∧ st.ravail ≥ a then .line (some 0) 0 true { st with up := up' }
      else
        -- "Reading bytes reaches the end of a stream.": ask for exactly what is there; `quit = 1`
        match ahead up' a with
        | (.window v, up'') =>
          if v < st.off then .stuck else
          let st' : BidSt σ := { st with up := up'', ravail := v, nread := v }
          if nl ≠ 0 then .line len nl false st'
          else
            let tested := len.getD 0
            let r := getLine (st'.avail - tested) (st.b.drop tested)
            .line (r.1.map (· + tested)) r.2 false st'
        | _ => .stuck
  else .line len nl false st
termination_by slen - st.ravail
decreasing_by omega

/-- `bid_get_line(filter, &b, &avail, &ravail, &nl, &nbytes_read)` -/
def bidGetLine {σ : Type} (slen : Nat) (ahead : σ → Nat → Ans × σ) (st : BidSt σ) : GL σ :=
  let r := if st.avail = 0 then (some 0, 0) else getLine st.avail st.b
  bidLoop slen ahead st r.1 r.2

/-- Which `begin` line, if any: the checks shared by the bidder's first loop. -/
def beginKind (line : List Nat) (nl : Nat) : Nat :=
  let len := line.length
  let l := if len - nl ≥ 11 ∧ line.take 6 = uuBegin then 6
           else if len - nl ≥ 18 ∧ line.take 13 = b64Begin then 13 else 0
  match line[l]?, line[l+1]?, line[l+2]?, line[l+3]? with
  | some d0, some d1, some d2, some sp =>
    if l > 0 ∧ (!isOct d0 || !isOct d1 || !isOct d2 || sp != 32) then 0 else l
  | _, _, _, _ => 0

inductive Bid
  | bid (n : Nat)
  | oob                  -- would read outside the window
  | stuck
  deriving DecidableEq, Repr

/-- Move `b` forward by `n` bytes. -/
def BidSt.skip {σ : Type} (st : BidSt σ) (n : Nat) : BidSt σ :=
  { st with b := st.b.drop n, off := st.off + n }

/-- The part of `uudecode_bidder_bid` after the `begin` line has been found:
`l` is 6 or 13, `st.b` is the start of the next line. -/
def bidTail {σ : Type} (slen : Nat) (ahead : σ → Nat → Ans × σ) (st : BidSt σ) (l firstline : Nat) : Bid × σ :=
  if st.avail = 0 then (.bid 0, st.up)            -- `if (!avail) return (0);`
  else match bidGetLine slen ahead st with
  | .stuck => (.stuck, st.up)
  | .line len nl _ st =>
    match len with
    | none => (.bid 0, st.up)
    | some len =>
      if nl = 0 then (.bid 0, st.up)                        -- "There are non-ascii characters."
      else
        let vis := st.avail                 -- bytes that may be read from `st.b`
        let avail := st.avail - len         -- `avail -= len`
        let b := st.b
        if l = 6 then
          match rd b vis 0 with
          | none => (.oob, st.up)
          | some c =>
            if !uuchar c then (.bid 0, st.up)
            else
              let l := udec c
              let len := len - 1
              if l = 0 ∧ len = nl then
                -- an encoded empty file: the next line must be "end"
                match bidGetLine slen ahead (st.skip (1 + nl)) with
                | .stuck => (.stuck, st.up)
                | .line len3 nl3 bnull st3 =>
                  match len3 with
                  | some n3 =>
                    if n3 - nl3 = 3 ∧ n3 ≥ nl3 ∧ st3.b.take 3 = [101, 110, 100] then (.bid (firstline + 30), st3.up)
                    else if n3 ≠ 0 then
                      (if bnull then (.oob, st3.up) else
                       match rd st3.b st3.avail 0 with
                       | none => (.oob, st3.up)
                       | some c3 => if uuchar c3 then (.bid (firstline + 30), st3.up) else (.bid 0, st3.up))
                    else (.bid 0, st3.up)
                  | none =>
                    match rd st3.b st3.avail 0 with
                    | none => (.oob, st3.up)
                    | some c3 => if uuchar c3 then (.bid (firstline + 30), st3.up) else (.bid 0, st3.up)
              else if l > 45 then (.bid 0, st.up)
              else if l > len - nl then (.bid 0, st.up)
              else
                -- `while (l) { if (!uuchar[*b++]) return (0); --len; --l; }`
                let chars := (b.drop 1).take l
                if chars.length < l ∨ vis < 1 + l then (.oob, st.up)
                else if chars.any (fun c => !uuchar c) then (.bid 0, st.up)
                else
                  let i := 1 + l
                  let len := len - l
                  match rd b vis i with
                  | none => (.oob, st.up)
                  | some c1 =>
                    let skip := len - nl = 1 ∧ (uuchar c1 ∨ (97 ≤ c1 ∧ c1 ≤ 122))
                    let i := (if skip then i + 1 else i) + nl
                    if avail = 0 then (.bid 0, st.up)
                    else match rd b vis i with
                      | none => (.oob, st.up)
                      | some c2 => if uuchar c2 then (.bid (firstline + 30), st.up) else (.bid 0, st.up)
        else
          -- "begin-base64 "
          let body := len - nl
          if body = 4 ∧ b.take 4 = [61, 61, 61, 61] then (.bid (firstline + 40), st.up)
          else
            let chars := b.take body
            if chars.length < body ∨ vis < body then (.oob, st.up)
            else if chars.any (fun c => !b64ok c) then (.bid 0, st.up)
            else
              let i := body + nl
              if avail ≥ 5 ∧ (b.drop i).take 5 = [61, 61, 61, 61, 10] then (.bid (firstline + 40), st.up)
              else if avail ≥ 6 ∧ (b.drop i).take 6 = [61, 61, 61, 61, 13, 10] then (.bid (firstline + 40), st.up)
              else if avail > 0 then
                match rd b vis i with
                | none => (.oob, st.up)
                | some c => if b64ok c then (.bid (firstline + 30), st.up) else (.bid 0, st.up)
              else (.bid 0, st.up)

/-- The `for (;;)` loop of `uudecode_bidder_bid` looking for a `begin` line. -/
def bidFind {σ : Type} (slen : Nat) (ahead : σ → Nat → Ans × σ) (st : BidSt σ) (firstline : Nat) : Bid × σ :=
  match bidGetLine slen ahead st with
  | .stuck => (.stuck, st.up)
  | .line len nl _ st' =>
    match len with
    | none => (.bid 0, st'.up)
    | some len =>
      if nl = 0 then (.bid 0, st'.up)                        -- "No match found."
      else
        let line := st'.b.take len
        let l := beginKind line nl
        let st2 := st'.skip len                               -- `b += len; avail -= len;`
        if l ≠ 0 then bidTail slen ahead st2 l firstline
        else if st'.nread ≥ bidMaxRead then (.bid 0, st'.up)
        else if h : 0 < len ∧ st'.off + len ≤ slen ∧ st.off ≤ st'.off then bidFind slen ahead st2 0
        else (.stuck, st'.up)
termination_by slen - st.off
decreasing_by simp only [BidSt.skip]; omega

/-- `uudecode_bidder_bid`: `S` is the whole stream the upstream filter can deliver. -/
def bid {σ : Type} (S : List Nat) (ahead : σ → Nat → Ans × σ) (up : σ) : Bid × σ :=
  match ahead up 1 with
  | (.window v, up') =>
    if v = 0 ∨ v > S.length then (.stuck, up')
    else bidFind S.length ahead { up := up', b := S, off := 0, ravail := v, nread := v } 20
  | (_, up') => (.bid 0, up')

/-- An upstream that answers from a script of "extra bytes beyond the request"
(`LA.C05.window_is_stream_prefix`: a window is at least as long as requested and
never shrinks while nothing is consumed). -/
structure ScriptUp where
  total : Nat                -- bytes the upstream can deliver
  have_ : Nat := 0           -- bytes it has handed out so far
  extra : List Nat := []

def ScriptUp.ahead (u : ScriptUp) (min : Nat) : Ans × ScriptUp :=
  if min ≤ u.total then
    let v := Nat.min u.total (Nat.max min u.have_ + u.extra.headD 0)
    (.window v, { u with have_ := v, extra := u.extra.tail })
  else (.short u.total, { u with have_ := u.total })

end LA.UuRead
