/-
Shared helpers for the executable models and the line-protocol driver.
Core Lean only (no Mathlib) so that the driver links as a native executable.
-/
namespace LA

/-- One correspondence engine: a state machine fed one protocol line at a time.
`step s op obs` receives the operation text and what the implementation printed
for it (engines that are deterministic ignore `obs`; monitors use it to resolve
choices the property leaves open) and returns the model's own output line. -/
structure Engine where
  σ : Type
  init : σ
  step : σ → String → String → σ × String

def hexDigit (c : Char) : Option Nat :=
  if '0' ≤ c ∧ c ≤ '9' then some (c.toNat - '0'.toNat)
  else if 'a' ≤ c ∧ c ≤ 'f' then some (c.toNat - 'a'.toNat + 10)
  else if 'A' ≤ c ∧ c ≤ 'F' then some (c.toNat - 'A'.toNat + 10)
  else none

/-- Parse a hex string ("-" = empty) into bytes. -/
def parseHex (s : String) : Option (List Nat) :=
  if s == "-" then some [] else
  let rec go : List Char → List Nat → Option (List Nat)
    | [], acc => some acc.reverse
    | [_], _ => none
    | a :: b :: r, acc =>
      match hexDigit a, hexDigit b with
      | some x, some y => go r ((x * 16 + y) :: acc)
      | _, _ => none
  go s.toList []

def hexNibble (n : Nat) : Char :=
  if n < 10 then Char.ofNat (n + '0'.toNat) else Char.ofNat (n - 10 + 'a'.toNat)

def toHex (bs : List Nat) : String :=
  if bs.isEmpty then "-" else
  String.ofList (bs.flatMap fun b => [hexNibble (b / 16 % 16), hexNibble (b % 16)])

def parseInt (s : String) : Option Int := s.toInt?

def words (s : String) : List String :=
  (s.splitOn " ").filter (· ≠ "")

/-- FNV-1a 64-bit over bytes, as used by the harness for body digests. -/
def fnv1a (bs : List Nat) : Nat :=
  bs.foldl (fun h b => ((h ^^^ (b % 256)) * 1099511628211) % 18446744073709551616)
    14695981039346656037

end LA
