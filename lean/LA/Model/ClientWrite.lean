/-
Model of the client write layer of libarchive/archive_write.c — the last filter
of every write pipeline, which blocks the byte stream and hands it to the
client's write callback:
`archive_write_client_open`, `archive_write_client_write`,
`archive_write_client_close`.  Used by C09 (blocking, short writes, faults) and
C11 (no uninitialised byte reaches the callback).

Representation choices:
* a byte cell is `Option Nat`: `none` is a cell of a fresh `malloc` block (or of
  an uninitialised stack array) that has never been stored to.  The copy buffer
  `state->buffer` starts as `bytes_per_block` such cells.  That no `none` cell is
  ever offered to the callback is a theorem (`LA.C11.all_offered_defined`), not
  an assumption of the model.
* `state->next`/`state->avail` are the single number `fill = next - buffer`
  (`avail = buffer_size - fill`); `state->buffer_size` is `buf.length`.
* the client write callback is a PARAMETER: any state machine
  `call : σ → offered bytes → return value × σ` (`Writer σ`).  The model clamps a
  positive answer to the number of bytes offered (a callback that claims more
  than it was offered is outside C09's quantifier: "accepts only k bytes").
  `scriptWriter` is the instance used by the harness: a list of answers
  `accept k` / `zero` / `error`, one per invocation, "accept everything" once the
  list is exhausted.  `LA.MemSink.memWriter` is `archive_write_open_memory`.
* every invocation is recorded as an `Event` (the bytes offered, the value
  returned); the functions return the events of the call in order.
* a store outside the copy buffer is the distinguished status `oob`, never a
  silently dropped write.
-/
import LA.Model.Util
namespace LA.CW

abbrev Cell := Option Nat

/-- Status of a filter-level call (`ARCHIVE_OK`, `ARCHIVE_FATAL`) plus the
distinguished "the C would have stored outside `state->buffer`". -/
inductive St | ok | fatal | oob
  deriving DecidableEq, Repr

/-- One invocation of the client write callback. -/
structure Event where
  offer : List Cell
  ret : Int
  deriving DecidableEq, Repr

/-- The bytes the callback took at this invocation. -/
def Event.taken (e : Event) : List Cell := e.offer.take e.ret.toNat

/-- All bytes the callback accepted, in order. -/
def taken (l : List Event) : List Cell := (l.map Event.taken).flatten

/-- A client write callback: any deterministic state machine. -/
structure Writer (σ : Type) where
  call : σ → List Cell → Int × σ

/-- Invoke the callback on `offer`; a positive answer is clamped to the size of
the offer. -/
def Writer.ask {σ : Type} (W : Writer σ) (w : σ) (offer : List Cell) : Int × σ :=
  let r := W.call w offer
  (if r.1 > offer.length then (offer.length : Int) else r.1, r.2)

theorem Writer.ask_le {σ : Type} (W : Writer σ) (w : σ) (o : List Cell) :
    (W.ask w o).1 ≤ o.length := by
  unfold Writer.ask; simp only []; split <;> omega

/-- Scripted answers of the harness callback. -/
inductive Ans
  | accept (k : Nat)   -- accepts min k offered bytes (`accept 0` behaves as `zero`)
  | zero               -- returns 0
  | error              -- returns -1
  deriving DecidableEq, Repr

def Ans.ret (a : Ans) (n : Nat) : Int :=
  match a with
  | .accept k => (Nat.min k n : Nat)
  | .zero => 0
  | .error => -1

/-- One answer per invocation; an exhausted script accepts everything offered. -/
def scriptWriter : Writer (List Ans) where
  call sc offer :=
    match sc with
    | [] => (offer.length, [])
    | a :: rest => (a.ret offer.length, rest)

/-- The three `while (to_write > 0)` loops that hand a contiguous region to the
callback until it is used up:
```
while (to_write > 0) {
    bytes_written = (a->client_writer)(&a->archive, a->client_data, p, to_write);
    if (bytes_written <= 0) return (ARCHIVE_FATAL);
    p += bytes_written; to_write -= bytes_written; }
```
(pass-through loop of `archive_write_client_write` for `buffer_size == 0`, the
full-buffer flush, and the last-block loop of `archive_write_client_close`; the
two buffer loops also test `bytes_written > to_write`, which the clamped answer
never satisfies).  Returns success, the events, the callback state. -/
def flushLoop {σ : Type} (W : Writer σ) (w : σ) (p : List Cell) : Bool × List Event × σ :=
  if _hp : p.length = 0 then (true, [], w) else
  if _hr : (W.ask w p).1 ≤ 0 then (false, [⟨p, (W.ask w p).1⟩], (W.ask w p).2)
  else
    let t := flushLoop W (W.ask w p).2 (p.drop (W.ask w p).1.toNat)
    (t.1, ⟨p, (W.ask w p).1⟩ :: t.2.1, t.2.2)
termination_by p.length
decreasing_by
  simp only [List.length_drop]
  omega

/-- "Write out full blocks directly to client."
```
while ((size_t)remaining >= state->buffer_size) {
    bytes_written = (a->client_writer)(&a->archive, a->client_data, buff, state->buffer_size);
    if (bytes_written <= 0) return (ARCHIVE_FATAL);
    buff += bytes_written; remaining -= bytes_written; }
```
Returns success, the bytes not yet handed over, the events, the callback state. -/
def directLoop {σ : Type} (W : Writer σ) (w : σ) (bs : Nat) (d : List Cell) :
    Bool × List Cell × List Event × σ :=
  if _hd : d.length ≥ bs then
    if _hr : (W.ask w (d.take bs)).1 ≤ 0 then
      (false, d, [⟨d.take bs, (W.ask w (d.take bs)).1⟩], (W.ask w (d.take bs)).2)
    else
      let t := directLoop W (W.ask w (d.take bs)).2 bs (d.drop (W.ask w (d.take bs)).1.toNat)
      (t.1, t.2.1, ⟨d.take bs, (W.ask w (d.take bs)).1⟩ :: t.2.2.1, t.2.2.2)
  else (true, d, [], w)
termination_by d.length
decreasing_by
  simp only [List.length_drop]
  have h1 := W.ask_le w (d.take bs)
  simp only [List.length_take] at h1
  omega

/-- `memcpy(buf + i, d, d.length)` / `memset`: `none` when the store would leave the block. -/
def poke (buf : List Cell) (i : Nat) (d : List Cell) : Option (List Cell) :=
  if i + d.length ≤ buf.length then some (buf.take i ++ d ++ buf.drop (i + d.length)) else none

/-- `struct archive_none`: the copy buffer and the fill mark. -/
structure CState where
  buf : List Cell := []
  fill : Nat := 0
  deriving DecidableEq, Repr

abbrev CState.bufSize (s : CState) : Nat := s.buf.length

/-- `archive_write_client_open`: `buffer = malloc(bytes_per_block)`, `next = buffer`,
`avail = buffer_size`.  (The client's open callback is handled by the caller.) -/
def clientOpen (bytesPerBlock : Nat) : CState :=
  { buf := List.replicate bytesPerBlock none, fill := 0 }

/-- Second half of `archive_write_client_write`: the direct full-block loop and
"Copy last bit into copy buffer." -/
def writeTail {σ : Type} (W : Writer σ) (w : σ) (s : CState) (d : List Cell) :
    St × CState × List Event × σ :=
  let r := directLoop W w s.bufSize d
  if r.1 = false then (.fatal, s, r.2.2.1, r.2.2.2)
  else if r.2.1.length > 0 then
    match poke s.buf s.fill r.2.1 with
    | none => (.oob, s, r.2.2.1, r.2.2.2)
    | some b => (.ok, { buf := b, fill := s.fill + r.2.1.length }, r.2.2.1, r.2.2.2)
  else (.ok, s, r.2.2.1, r.2.2.2)

/-- `archive_write_client_write(f, buff, length)`. -/
def clientWrite {σ : Type} (W : Writer σ) (w : σ) (s : CState) (d : List Cell) :
    St × CState × List Event × σ :=
  if s.bufSize = 0 then
    -- "If there is no buffer for blocking, just pass the data straight through"
    let r := flushLoop W w d
    (if r.1 then .ok else .fatal, s, r.2.1, r.2.2)
  else if s.bufSize - s.fill < s.bufSize then
    -- "If the copy buffer isn't empty, try to fill it."
    let avail := s.bufSize - s.fill
    let toCopy := if d.length > avail then avail else d.length
    match poke s.buf s.fill (d.take toCopy) with
    | none => (.oob, s, [], w)
    | some b =>
      let s1 : CState := { buf := b, fill := s.fill + toCopy }
      if avail - toCopy = 0 then
        -- "... if it's full, write it out."
        let r := flushLoop W w (s1.buf.take s1.bufSize)
        if r.1 = false then (.fatal, s1, r.2.1, r.2.2)
        else
          let t := writeTail W r.2.2 { s1 with fill := 0 } (d.drop toCopy)
          (t.1, t.2.1, r.2.1 ++ t.2.2.1, t.2.2.2)
      else writeTail W w s1 (d.drop toCopy)
  else writeTail W w s d

/-- "Tricky calculation to determine size of last block" of
`archive_write_client_close`: `target_block_length` for a pending block of
`blockLength` bytes, after the cap `if (target_block_length > a->bytes_per_block)`. -/
def lastBlockTarget (bytesPerBlock : Nat) (bytesInLastBlock : Int) (blockLength : Nat) : Nat :=
  let target :=
    if bytesInLastBlock ≤ 0 then bytesPerBlock         -- "Default or Zero: pad to full block"
    else bytesInLastBlock.toNat *                       -- "Round to next multiple of bytes_in_last_block."
      ((blockLength + bytesInLastBlock.toNat - 1) / bytesInLastBlock.toNat)
  if target > bytesPerBlock then bytesPerBlock else target

/-- Number of bytes handed over for a pending block of `blockLength` bytes. -/
def lastBlockLen (bytesPerBlock : Nat) (bytesInLastBlock : Int) (blockLength : Nat) : Nat :=
  if blockLength < lastBlockTarget bytesPerBlock bytesInLastBlock blockLength
  then lastBlockTarget bytesPerBlock bytesInLastBlock blockLength else blockLength

/-- `archive_write_client_close`: pad and write the last block.  `bytesPerBlock`
and `bytesInLastBlock` are read from the archive handle at close time.  The
buffer is freed afterwards (the caller drops the `CState`). -/
def clientClose {σ : Type} (W : Writer σ) (w : σ) (s : CState) (bytesPerBlock : Nat)
    (bytesInLastBlock : Int) : St × List Event × σ :=
  if s.fill ≠ 0 then
    let blockLength := s.bufSize - (s.bufSize - s.fill)
    let target := lastBlockTarget bytesPerBlock bytesInLastBlock blockLength
    -- `if (block_length < target_block_length) { memset(state->next, 0, ...); block_length = target; }`
    let padded : Option (List Cell) :=
      if blockLength < target then poke s.buf s.fill (List.replicate (target - blockLength) (some 0))
      else some s.buf
    let len := lastBlockLen bytesPerBlock bytesInLastBlock blockLength
    match padded with
    | none => (.oob, [], w)
    | some b =>
      if len ≤ b.length then
        let r := flushLoop W w (b.take len)
        (if r.1 then .ok else .fatal, r.2.1, r.2.2)
      else (.oob, [], w)     -- the loop would read past `state->buffer`
  else (.ok, [], w)

/-- A sequence of `archive_write_client_write` calls on one open client filter,
up to and including the first call that reports failure.  Returns the status
and the callback invocations of every call made, the filter state if no call
failed, and the callback state. -/
def runWrites {σ : Type} (W : Writer σ) (w : σ) (s : CState) :
    List (List Cell) → List (St × List Event) × Option CState × σ
  | [] => ([], some s, w)
  | d :: ds =>
    let r := clientWrite W w s d
    if r.1 = .ok then
      let t := runWrites W r.2.2.2 r.2.1 ds
      ((r.1, r.2.2.1) :: t.1, t.2.1, t.2.2)
    else ([(r.1, r.2.2.1)], none, r.2.2.2)

/-- One life of the client filter: open with `bytesPerBlock`, the writes `ds`,
then close (padding per `bytesInLastBlock`) — stopping at the first call that
reports failure.  One `(status, invocations)` pair per call made. -/
def session {σ : Type} (W : Writer σ) (w : σ) (bytesPerBlock : Nat) (bytesInLastBlock : Int)
    (ds : List (List Cell)) : List (St × List Event) × σ :=
  let t := runWrites W w (clientOpen bytesPerBlock) ds
  match t.2.1 with
  | none => (t.1, t.2.2)
  | some s =>
    let c := clientClose W t.2.2 s bytesPerBlock bytesInLastBlock
    (t.1 ++ [(c.1, c.2.1)], c.2.2)

/-- All callback invocations of a list of calls, in order. -/
def allEvents (l : List (St × List Event)) : List Event := (l.map (·.2)).flatten

end LA.CW
