/-
Model of the "Traditional PKWARE" stream cipher as implemented twice in
libarchive: archive_read_support_format_zip.c (`trad_enc_update_keys`,
`trad_enc_decrypt_byte`, `trad_enc_decrypt_update`, `trad_enc_init` with the
12-byte header) and archive_write_set_format_zip.c (`trad_enc_update_keys`,
`trad_enc_decrypt_byte`, `trad_enc_encrypt_update`, `trad_enc_init`,
`init_traditional_pkware_encryption`).  The two copies of `update_keys` /
`decrypt_byte` are textually the same function; they are modelled once, the
constants of both copies are extracted (`Gen.Crypt.tradKeysR/W`, `tradMulR/W`) and
tied below, and the harness drives both copies against this one model.

zlib's `crc32(crc, buf, 1)` is a parameter `zcrc : UInt32 → UInt8 → UInt32`;
`zlibCrc32Byte` is the reference the driver runs.  C widths kept: `keys[]` are
`uint32_t` (the `134775813L` product is computed in `long` and truncated on the
store, which is multiplication mod 2^32), `temp` is `unsigned`, the results are
cast to `uint8_t`.
-/
import LA.Model.Util
import LA.Gen.Crypt
namespace LA.ZipCrypt

structure Keys where
  k0 : UInt32
  k1 : UInt32
  k2 : UInt32
  deriving DecidableEq, Repr

/-- both copies start from the same three constants and use the same multiplier -/
example : LA.Gen.Crypt.tradKeysR = LA.Gen.Crypt.tradKeysW := rfl
example : LA.Gen.Crypt.tradMulR = LA.Gen.Crypt.tradMulW := rfl
example : LA.Gen.Crypt.tradKeysR.length = 3 := rfl

def initialKeys : Keys :=
  match LA.Gen.Crypt.tradKeysR with
  | [a, b, c] => ⟨a.toUInt32, b.toUInt32, c.toUInt32⟩
  | _ => ⟨0, 0, 0⟩

def mul : UInt32 := LA.Gen.Crypt.tradMulR.toUInt32

/-- `#define CRC32(c, b) (crc32(c ^ 0xffffffffUL, &b, 1) ^ 0xffffffffUL)` -/
def crcMacro (zcrc : UInt32 → UInt8 → UInt32) (c : UInt32) (b : UInt8) : UInt32 :=
  zcrc (c ^^^ 0xffffffff) b ^^^ 0xffffffff

/-- `trad_enc_update_keys` -/
def updateKeys (zcrc : UInt32 → UInt8 → UInt32) (k : Keys) (c : UInt8) : Keys :=
  let k0 := crcMacro zcrc k.k0 c
  let k1 := (k.k1 + (k0 &&& 0xff)) * mul + 1
  let t : UInt8 := ((k1 >>> 24) &&& 0xff).toUInt8
  let k2 := crcMacro zcrc k.k2 t
  ⟨k0, k1, k2⟩

/-- `trad_enc_decrypt_byte` -/
def decryptByte (k : Keys) : UInt8 :=
  let temp : UInt32 := k.k2 ||| 2
  ((temp * (temp ^^^ 1)) >>> 8).toUInt8

/-- The loop of `trad_enc_encrypt_update` over the bytes it processes. -/
def encLoop (zcrc : UInt32 → UInt8 → UInt32) (k : Keys) : List UInt8 → Keys × List UInt8
  | [] => (k, [])
  | t :: r =>
    let o := t ^^^ decryptByte k
    let (k', os) := encLoop zcrc (updateKeys zcrc k t) r
    (k', o :: os)

/-- The loop of `trad_enc_decrypt_update`. -/
def decLoop (zcrc : UInt32 → UInt8 → UInt32) (k : Keys) : List UInt8 → Keys × List UInt8
  | [] => (k, [])
  | c :: r =>
    let t := c ^^^ decryptByte k
    let (k', os) := decLoop zcrc (updateKeys zcrc k t) r
    (k', t :: os)

/-- `trad_enc_encrypt_update(ctx, in, in_len, out, out_len)`:
`max = min(in_len, out_len)` bytes; returns the count (= output length). -/
def encryptUpdate (zcrc : UInt32 → UInt8 → UInt32) (k : Keys) (inp : List UInt8) (cap : Nat) :
    Keys × List UInt8 :=
  encLoop zcrc k (inp.take (min inp.length cap))

/-- `trad_enc_decrypt_update` (same bound). -/
def decryptUpdate (zcrc : UInt32 → UInt8 → UInt32) (k : Keys) (inp : List UInt8) (cap : Nat) :
    Keys × List UInt8 :=
  decLoop zcrc k (inp.take (min inp.length cap))

/-- `for (;pw_len; --pw_len) trad_enc_update_keys(ctx, *pw++);` from the three constants:
the writer's `trad_enc_init`, and the first half of the reader's. -/
def initKeys (zcrc : UInt32 → UInt8 → UInt32) (pw : List UInt8) : Keys :=
  pw.foldl (updateKeys zcrc) initialKeys

def headerSize : Nat := LA.Gen.Crypt.encHeaderSizeR
example : LA.Gen.Crypt.encHeaderSizeR = LA.Gen.Crypt.tradHeaderSizeW := rfl

inductive InitR where
  | short                         -- `key_len < 12`: returns -1, `*crcchk = 0xff`
  | ok (k : Keys) (crcchk : UInt8)
  | oob                           -- fewer than 12 readable bytes behind `key`
  deriving DecidableEq, Repr

/-- Reader's `trad_enc_init(ctx, pw, pw_len, key, key_len, &crcchk)`: the keys are
primed with the passphrase, the 12-byte encryption header is decrypted and its
last byte handed back for the check. -/
def initR (zcrc : UInt32 → UInt8 → UInt32) (pw : List UInt8) (key : List UInt8) (keyLen : Nat) : InitR :=
  if keyLen < 12 then .short
  else if key.length < 12 then .oob
  else
    let (k, header) := decLoop zcrc (initKeys zcrc pw) (key.take 12)
    match header[11]? with
    | some c => .ok k c
    | none => .oob

/-- Which byte of the 30-byte local file header is the check byte: under
`ZIP_LENGTH_AT_END` the high byte of the DOS time (`p[11]`), else the high byte of
the CRC (`p[17]`).  Reader: `zip_entry->decdat`; writer: `zip->trad_chkdat`. -/
def checkByte (localHeader : List UInt8) (lengthAtEnd : Bool) : Option UInt8 :=
  if lengthAtEnd then localHeader[11]? else localHeader[17]?

/-- Writer's `init_traditional_pkware_encryption`: 11 random bytes, then the check
byte, encrypted with the freshly primed keys.  Returns the keys and the 12 bytes
written at the start of the entry data. -/
def writeHeader (zcrc : UInt32 → UInt8 → UInt32) (pw : List UInt8) (rnd11 : List UInt8) (chk : UInt8) :
    Keys × List UInt8 :=
  encLoop zcrc (initKeys zcrc pw) (rnd11.take 11 ++ List.replicate (11 - rnd11.length) 0 ++ [chk])

/-- Reader's acceptance test inside `init_traditional_PKWARE_decryption`:
`r == 0 && crcchk == zip->entry->decdat`. -/
def accepts (zcrc : UInt32 → UInt8 → UInt32) (pw : List UInt8) (hdr12 : List UInt8) (decdat : UInt8) : Bool :=
  match initR zcrc pw hdr12 12 with
  | .ok _ c => c == decdat
  | _ => false

/-- Feed chunks through successive update calls. -/
def runEnc (zcrc : UInt32 → UInt8 → UInt32) (k : Keys) : List (List UInt8) → Keys × List (List UInt8)
  | [] => (k, [])
  | ch :: r =>
    let (k1, o) := encryptUpdate zcrc k ch ch.length
    let (k2, os) := runEnc zcrc k1 r
    (k2, o :: os)

def runDec (zcrc : UInt32 → UInt8 → UInt32) (k : Keys) : List (List UInt8) → Keys × List (List UInt8)
  | [] => (k, [])
  | ch :: r =>
    let (k1, o) := decryptUpdate zcrc k ch ch.length
    let (k2, os) := runDec zcrc k1 r
    (k2, o :: os)

/-! Reference for the driver: zlib's CRC-32 over one byte (reflected polynomial
0xEDB88320, pre/post inversion). -/
def crcTableEntry (n : UInt32) : UInt32 :=
  (List.range 8).foldl (fun (c : UInt32) _ => if c &&& 1 == 1 then (0xedb88320 : UInt32) ^^^ (c >>> 1) else c >>> 1) n

def zlibCrc32Byte (crc : UInt32) (b : UInt8) : UInt32 :=
  let c := crc ^^^ 0xffffffff
  let c := crcTableEntry ((c ^^^ b.toUInt32) &&& 0xff) ^^^ (c >>> 8)
  c ^^^ 0xffffffff

end LA.ZipCrypt
