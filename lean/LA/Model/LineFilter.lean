/-
The write-side skeleton shared verbatim by
`archive_write_add_filter_uuencode.c` and `archive_write_add_filter_b64encode.c`
(`archive_filter_*_open / _write / _close`): a `hold` buffer of fewer than
`LBYTES` bytes carried between writes, one encoded text line per `LBYTES`
input bytes appended to `encoded_buff`, a loop that passes `bs`-sized blocks of
`encoded_buff` to the next filter, and on close the short last line, the trailer
and everything that is left.

Bytes are `Nat`s (the framework's convention, cf. `LA.RA`); every theorem that
needs it carries the hypothesis that they are below 256.
-/
import LA.Model.Util
namespace LA.LineFilter

/-- What differs between the two encoders. -/
structure Codec where
  lbytes : Nat                      -- `#define LBYTES`
  lpos : 0 < lbytes
  encLine : List Nat → List Nat     -- `uu_encode` / `la_b64_encode` (one line, with its '\n')
  begin_ : List Nat                 -- "begin " / "begin-base64 "
  trailer : List Nat                -- "`\nend\n" / "====\n"
  bs0 : Nat                         -- `size_t bs = 65536`

structure WState where
  hold : List Nat := []             -- `state->hold[0 .. hold_len)`
  /-- `state->encoded_buff`, kept as the list of appended pieces, newest first
  (appending a line is then constant time); its content is `WState.buf`. -/
  pieces : List (List Nat) := []
  blen : Nat := 0                   -- `archive_strlen(&state->encoded_buff)`
  emitted : List (List Nat) := []   -- blocks handed to `__archive_write_filter(f->next_filter, …)`, oldest first
  deriving Repr

/-- The bytes of `encoded_buff`. -/
def WState.buf (s : WState) : List Nat := s.pieces.reverse.flatten

/-- `archive_strcat` / `archive_strappend_char` of a piece of text. -/
def WState.append (s : WState) (t : List Nat) : WState :=
  { s with pieces := t :: s.pieces, blen := s.blen + t.length }

/-- `atol8` as used by the `mode` option, followed by `& 0777`: leading octal
digits; the low nine bits do not depend on how (or whether) the `int64_t`
accumulator overflows. -/
def atol8 : List Nat → Nat → Nat
  | [], acc => acc
  | c :: rest, acc => if 48 ≤ c ∧ c ≤ 55 then atol8 rest (acc * 8 + (c - 48)) else acc

def modeOption (value : List Nat) : Nat := atol8 value 0 % 512

/-- `'0' + ((mode >> 6) & 7), '0' + ((mode >> 3) & 7), '0' + (mode & 7)` -/
def octal3 (mode : Nat) : List Nat := [48 + mode / 64 % 8, 48 + mode / 8 % 8, 48 + mode % 8]

/-- `archive_string_sprintf(&state->encoded_buff, "begin %c%c%c %s\n", …)` -/
def header (c : Codec) (mode : Nat) (name : List Nat) : List Nat :=
  c.begin_ ++ octal3 mode ++ [32] ++ name ++ [10]

/-- `bs` as computed by `archive_filter_*_open` from `archive_write_get_bytes_per_block`. -/
def blockSize (c : Codec) (bpb : Nat) : Nat :=
  if bpb > c.bs0 then bpb else if bpb ≠ 0 then c.bs0 - c.bs0 % bpb else c.bs0

def open_ (c : Codec) (mode : Nat) (name : List Nat) : WState :=
  ({} : WState).append (header c mode name)

/-- `for (; length >= LBYTES; length -= LBYTES, p += LBYTES) encode(p, LBYTES);`
Returns the text appended and the `length < LBYTES` bytes that are left. -/
def encFull (c : Codec) (d : List Nat) : List Nat × List Nat :=
  -- `length >= LBYTES`, tested on the first LBYTES elements only (keeps the model linear-time)
  if h : c.lbytes ≤ (d.take c.lbytes).length then
    let r := encFull c (d.drop c.lbytes)
    (c.encLine (d.take c.lbytes) ++ r.1, r.2)
  else ([], d)
termination_by d.length
decreasing_by have := c.lpos; simp [List.length_take] at h ⊢; omega

/-- `while (archive_strlen(&state->encoded_buff) >= state->bs) { __archive_write_filter(next, buf, bs); memmove… }`
on the buffer content `buf`; returns what is left and the blocks written. -/
def flushLoop (bs : Nat) (buf : List Nat) : List Nat × List (List Nat) :=
  if h : 0 < bs ∧ bs ≤ buf.length then
    let r := flushLoop bs (buf.drop bs)
    (r.1, buf.take bs :: r.2)
  else (buf, [])
termination_by buf.length
decreasing_by simp; omega

def flushBs (bs : Nat) (s : WState) : WState :=
  if 0 < bs ∧ bs ≤ s.blen then
    let r := flushLoop bs s.buf
    { s with pieces := [r.1], blen := r.1.length, emitted := s.emitted ++ r.2 }
  else s

/-- "Save remaining bytes." then the `bs` loop. -/
def encodeRest (c : Codec) (bs : Nat) (s : WState) (d : List Nat) : WState :=
  let r := encFull c d
  flushBs bs { s.append r.1 with hold := r.2 }

/-- `archive_filter_uuencode_write` / `archive_filter_b64encode_write`. -/
def write (c : Codec) (bs : Nat) (s : WState) (d : List Nat) : WState :=
  if d = [] then s                                    -- `if (length == 0) return (ret);`
  else if s.hold ≠ [] then
    -- `while (state->hold_len < LBYTES && length > 0) state->hold[state->hold_len++] = *p++;`
    let k := min (c.lbytes - s.hold.length) d.length
    let hold' := s.hold ++ d.take k
    if hold'.length < c.lbytes then { s with hold := hold' }      -- `return (ret);`
    else encodeRest c bs { s.append (c.encLine hold') with hold := [] } (d.drop k)
  else encodeRest c bs s d

/-- `archive_filter_uuencode_close` / `archive_filter_b64encode_close`. -/
def close (c : Codec) (s : WState) : WState :=
  let s1 := if s.hold ≠ [] then s.append (c.encLine s.hold) else s
  let s2 := s1.append c.trailer
  { hold := [], pieces := [], blen := 0, emitted := s.emitted ++ [s2.buf] }

/-- Everything the filter passed downstream, in order. -/
def output (s : WState) : List Nat := s.emitted.flatten

/-- open, one `write` per chunk, close. -/
def run (c : Codec) (bpb mode : Nat) (name : List Nat) (chunks : List (List Nat)) : WState :=
  close c (chunks.foldl (write c (blockSize c bpb)) (open_ c mode name))

/-- The stream the filter is meant to produce for input `x` (no state, no chunking). -/
def encAll (c : Codec) (x : List Nat) : List Nat :=
  if h : c.lbytes ≤ x.length then c.encLine (x.take c.lbytes) ++ encAll c (x.drop c.lbytes)
  else if x = [] then [] else c.encLine x
termination_by x.length
decreasing_by have := c.lpos; simp; omega

def encStream (c : Codec) (mode : Nat) (name x : List Nat) : List Nat :=
  header c mode name ++ encAll c x ++ c.trailer

end LA.LineFilter
