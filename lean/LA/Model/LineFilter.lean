/-
The write-side skeleton shared verbatim by
`archive_write_add_filter_uuencode.c` and `archive_write_add_filter_b64encode.c`
(`archive_filter_*_open / _write / _close`): a `hold` buffer of fewer than
`LBYTES` bytes carried between writes, one encoded text line per `LBYTES`
input bytes appended to `encoded_buff`, a loop that passes `bs`-sized blocks of
`encoded_buff` to the next filter, and on close the short last line, the trailer
and everything that is left.

Bytes are `Nat`s (the framework's convention, cf. `LA.RA`); every theorem that
needs it carries the hypothesis that they are below 256.
-/
import LA.Model.Util
namespace LA.LineFilter

/-- What differs between the two encoders. -/
structure Codec where
  lbytes : Nat                      -- `#define LBYTES`
  lpos : 0 < lbytes
  encLine : List Nat → List Nat     -- `uu_encode` / `la_b64_encode` (one line, with its '\n')
  begin_ : List Nat                 -- "begin " / "begin-base64 "
  trailer : List Nat                -- "`\nend\n" / "====\n"
  bs0 : Nat                         -- `size_t bs = 65536`

structure WState where
  hold : List Nat := []             -- `state->hold[0 .. hold_len)`
  buf : List Nat := []              -- `state->encoded_buff`
  emitted : List (List Nat) := []   -- blocks handed to `__archive_write_filter(f->next_filter, …)`, oldest first
  deriving Repr

/-- `atol8` as used by the `mode` option, followed by `& 0777`: leading octal
digits; the low nine bits do not depend on how (or whether) the `int64_t`
accumulator overflows. -/
def atol8 : List Nat → Nat → Nat
  | [], acc => acc
  | c :: rest, acc => if 48 ≤ c ∧ c ≤ 55 then atol8 rest (acc * 8 + (c - 48)) else acc

def modeOption (value : List Nat) : Nat := atol8 value 0 % 512

/-- `'0' + ((mode >> 6) & 7), '0' + ((mode >> 3) & 7), '0' + (mode & 7)` -/
def octal3 (mode : Nat) : List Nat := [48 + mode / 64 % 8, 48 + mode / 8 % 8, 48 + mode % 8]

/-- `archive_string_sprintf(&state->encoded_buff, "begin %c%c%c %s\n", …)` -/
def header (c : Codec) (mode : Nat) (name : List Nat) : List Nat :=
  c.begin_ ++ octal3 mode ++ [32] ++ name ++ [10]

/-- `bs` as computed by `archive_filter_*_open` from `archive_write_get_bytes_per_block`. -/
def blockSize (c : Codec) (bpb : Nat) : Nat :=
  if bpb > c.bs0 then bpb else if bpb ≠ 0 then c.bs0 - c.bs0 % bpb else c.bs0

def open_ (c : Codec) (mode : Nat) (name : List Nat) : WState := { buf := header c mode name }

/-- `for (; length >= LBYTES; length -= LBYTES, p += LBYTES) encode(p, LBYTES);`
Returns the text appended and the `length < LBYTES` bytes that are left. -/
def encFull (c : Codec) (d : List Nat) : List Nat × List Nat :=
  if h : c.lbytes ≤ d.length then
    let r := encFull c (d.drop c.lbytes)
    (c.encLine (d.take c.lbytes) ++ r.1, r.2)
  else ([], d)
termination_by d.length
decreasing_by have := c.lpos; simp; omega

/-- `while (archive_strlen(&state->encoded_buff) >= state->bs) { __archive_write_filter(next, buf, bs); memmove… }` -/
def flushBs (bs : Nat) (s : WState) : WState :=
  if h : 0 < bs ∧ bs ≤ s.buf.length then
    flushBs bs { s with buf := s.buf.drop bs, emitted := s.emitted ++ [s.buf.take bs] }
  else s
termination_by s.buf.length
decreasing_by simp; omega

/-- "Save remaining bytes." then the `bs` loop. -/
def encodeRest (c : Codec) (bs : Nat) (s : WState) (d : List Nat) : WState :=
  let r := encFull c d
  flushBs bs { s with buf := s.buf ++ r.1, hold := r.2 }

/-- `archive_filter_uuencode_write` / `archive_filter_b64encode_write`. -/
def write (c : Codec) (bs : Nat) (s : WState) (d : List Nat) : WState :=
  if d = [] then s                                    -- `if (length == 0) return (ret);`
  else if s.hold ≠ [] then
    -- `while (state->hold_len < LBYTES && length > 0) state->hold[state->hold_len++] = *p++;`
    let k := Nat.min (c.lbytes - s.hold.length) d.length
    let hold' := s.hold ++ d.take k
    if hold'.length < c.lbytes then { s with hold := hold' }      -- `return (ret);`
    else encodeRest c bs { s with hold := [], buf := s.buf ++ c.encLine hold' } (d.drop k)
  else encodeRest c bs s d

/-- `archive_filter_uuencode_close` / `archive_filter_b64encode_close`. -/
def close (c : Codec) (s : WState) : WState :=
  let buf := (if s.hold ≠ [] then s.buf ++ c.encLine s.hold else s.buf) ++ c.trailer
  { hold := [], buf := [], emitted := s.emitted ++ [buf] }

/-- Everything the filter passed downstream, in order. -/
def output (s : WState) : List Nat := s.emitted.flatten

/-- open, one `write` per chunk, close. -/
def run (c : Codec) (bpb mode : Nat) (name : List Nat) (chunks : List (List Nat)) : WState :=
  close c (chunks.foldl (write c (blockSize c bpb)) (open_ c mode name))

/-- The stream the filter is meant to produce for input `x` (no state, no chunking). -/
def encAll (c : Codec) (x : List Nat) : List Nat :=
  if h : c.lbytes ≤ x.length then c.encLine (x.take c.lbytes) ++ encAll c (x.drop c.lbytes)
  else if x = [] then [] else c.encLine x
termination_by x.length
decreasing_by have := c.lpos; simp; omega

def encStream (c : Codec) (mode : Nat) (name x : List Nat) : List Nat :=
  header c mode name ++ encAll c x ++ c.trailer

end LA.LineFilter
